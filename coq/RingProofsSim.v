(* C05: the ring refines the byte queue — simulation relation and one lemma per operation. *)
From Coq Require Import ZArith Znumtheory List Bool Lia ZifyBool.
From Zix Require Import RingSpec RingModel RingProofsNpot RingProofsBase RingProofs.
Import ListNotations.
Local Open Scope Z_scope.

Ltac modc N x :=
  let H := fresh "Hm" in
  destruct (mod_3cases N x ltac:(lia) ltac:(lia)) as [[? H]|[[? H]|[? H]]]; rewrite ?H in *.

(* ---------- small facts ---------- *)

Lemma set_read_head_same rg : set_read_head rg (read_head rg) = rg.
Proof. destruct rg; reflexivity. Qed.

Lemma set_write_head_same rg : set_write_head rg (write_head rg) = rg.
Proof. destruct rg; reflexivity. Qed.

Lemma ring_bytes_nil b N s : ring_bytes b N s 0 = [].
Proof. reflexivity. Qed.

Lemma rs_range rg : inv rg -> 0 <= ring_read_space rg < size rg.
Proof.
  intros H. unfold ring_read_space. rewrite rsi_spec by exact H.
  apply Z.mod_pos_bound. apply (inv_N rg H).
Qed.

Lemma ws_range rg : inv rg -> 0 <= ring_write_space rg < size rg.
Proof.
  intros H. unfold ring_write_space. rewrite wsi_spec by exact H.
  apply Z.mod_pos_bound. apply (inv_N rg H).
Qed.

Lemma capacity_spec rg : inv rg -> ring_capacity rg = size rg - 1.
Proof.
  intros H. pose proof (inv_N rg H). unfold ring_capacity. apply u32_small.
  assert (2 ^ 31 < 2 ^ 32) by reflexivity. lia.
Qed.

Lemma space_sum_lemma rg : inv rg -> ring_read_space rg + ring_write_space rg = ring_capacity rg.
Proof.
  intros H. rewrite capacity_spec by exact H. unfold ring_read_space, ring_write_space.
  rewrite rsi_spec, wsi_spec by exact H.
  apply space_sum; [apply (inv_N rg H)|apply (inv_r rg H)|apply (inv_w rg H)].
Qed.

(* the bytes at the write head are those right after the stored ones *)
Lemma w_after_r rg : inv rg -> (read_head rg + ring_read_space rg) mod size rg = write_head rg.
Proof.
  intros H. unfold ring_read_space. rewrite rsi_spec by exact H.
  pose proof (inv_N rg H). pose proof (inv_r rg H). pose proof (inv_w rg H).
  rewrite Zplus_mod_idemp_r.
  replace (read_head rg + (write_head rg - read_head rg)) with (write_head rg) by lia.
  apply Z.mod_small. lia.
Qed.

(* what a successful copy-in does at circular index (s + i) *)
Lemma written_at b N tw src b' x :
  0 < N -> written b N tw src b' ->
  znth b' (x mod N) =
    if (x - tw) mod N <? len src then znth src ((x - tw) mod N) else znth b (x mod N).
Proof.
  intros HN [_ Hw]. rewrite (Hw (x mod N)) by (apply Z.mod_pos_bound; lia).
  rewrite Zminus_mod_idemp_l. reflexivity.
Qed.

(* ---------- reads ---------- *)

Lemma ring_peek_spec rg n :
  inv rg -> 0 <= n ->
  ring_peek rg n = if n <=? len (abs rg) then (n, ztake n (abs rg)) else (0, []).
Proof.
  intros H Hn. unfold ring_peek. rewrite peek_internal_spec by (auto; apply (inv_r rg H)).
  rewrite abs_len by exact H. unfold ring_read_space. rewrite rsi_spec by exact H.
  destruct (n <=? (write_head rg - read_head rg) mod size rg) eqn:E; [|reflexivity].
  unfold abs, ring_read_space. rewrite rsi_spec by exact H.
  rewrite ring_bytes_take by lia. reflexivity.
Qed.

Lemma read_head_advance rg n :
  inv rg -> 0 <= n <= ring_read_space rg ->
  let rg' := set_read_head rg ((read_head rg + n) mod size rg) in
  inv rg' /\ ring_read_space rg' = ring_read_space rg - n /\
  ring_write_space rg' = ring_write_space rg + n /\ abs rg' = zdrop n (abs rg).
Proof.
  intros H Hn rg'. pose proof (inv_N rg H) as HN.
  pose proof (inv_r rg H) as Hr. pose proof (inv_w rg H) as Hw.
  assert (I' : inv rg').
  { destruct H as [Hk Hm _ _ Hl]. constructor; cbn; auto. apply Z.mod_pos_bound. lia. }
  assert (RS : ring_read_space rg' = ring_read_space rg - n).
  { unfold ring_read_space in Hn |- *. rewrite (rsi_spec rg) in Hn |- * by assumption.
    rewrite (rsi_spec rg') by assumption. cbn.
    rewrite Zminus_mod_idemp_r.
    set (N := size rg) in *. set (r := read_head rg) in *. set (w := write_head rg) in *.
    modc N (w - r); modc N (w - (r + n)); lia. }
  split; [exact I'|]. split; [exact RS|]. split.
  - pose proof (space_sum_lemma rg H). pose proof (space_sum_lemma rg' I').
    rewrite !capacity_spec in * by assumption. cbn [rg' size set_read_head] in *. lia.
  - unfold abs. rewrite RS. cbn [rg' buf size read_head set_read_head].
    rewrite ring_bytes_mod_start. rewrite ring_bytes_drop by lia. reflexivity.
Qed.

Lemma ring_read_spec rg n :
  inv rg -> 0 <= n ->
  ring_read rg n =
    if n <=? len (abs rg)
    then (set_read_head rg ((read_head rg + n) mod size rg), (n, ztake n (abs rg)))
    else (rg, (0, [])).
Proof.
  intros H Hn. unfold ring_read. fold (ring_peek rg n).
  rewrite ring_peek_spec by assumption.
  destruct (n <=? len (abs rg)) eqn:E; [|reflexivity].
  destruct (n =? 0) eqn:E0.
  - assert (n = 0) by lia. subst n. rewrite Z.add_0_r.
    rewrite Z.mod_small by apply (inv_r rg H). rewrite set_read_head_same. reflexivity.
  - rewrite mask_u32 by exact H. reflexivity.
Qed.

Lemma ring_skip_spec rg n :
  inv rg -> 0 <= n ->
  ring_skip rg n =
    if n <=? len (abs rg)
    then (set_read_head rg ((read_head rg + n) mod size rg), n)
    else (rg, 0).
Proof.
  intros H Hn. unfold ring_skip. rewrite abs_len by exact H.
  fold (ring_read_space rg). pose proof (rs_range rg H).
  destruct (ring_read_space rg <? n) eqn:E1; destruct (n <=? ring_read_space rg) eqn:E2; try lia;
    [reflexivity|].
  rewrite mask_u32 by exact H. reflexivity.
Qed.

(* ---------- simulation relation ---------- *)

Definition tx_rel (rg : ring) (t : tx) (o : option (list Z * Z)) : Prop :=
  match o with
  | None => True
  | Some (p, room) =>
      tx_write_head t = (write_head rg + len p) mod size rg /\
      ring_bytes (buf rg) (size rg) (write_head rg) (len p) = p /\
      room = (tx_read_head t - write_head rg - 1) mod size rg /\
      len p <= room /\ room <= ring_write_space rg
  end.

Definition R (cap : Z) (st : mstate) (s : sstate) : Prop :=
  inv (fst st) /\ 0 <= tx_write_head (snd st) < size (fst st) /\
  cap = ring_capacity (fst st) /\ abs (fst st) = sq s /\ tx_rel (fst st) (snd st) (stx s).

Lemma R_free cap rg t s : R cap (rg, t) s -> cap - len (sq s) = ring_write_space rg.
Proof.
  intros (H & _ & Hc & Ha & _). cbn [fst snd] in *. rewrite <- Ha, abs_len by exact H.
  pose proof (space_sum_lemma rg H). lia.
Qed.

(* ---------- transactions ---------- *)

Lemma R_begin cap rg t s :
  R cap (rg, t) s ->
  R cap (rg, ring_begin_write rg) (mkS (sq s) (Some ([], cap - len (sq s)))).
Proof.
  intros HR. pose proof (R_free _ _ _ _ HR) as Hf.
  destruct HR as (H & Ht & Hc & Ha & _). cbn [fst snd] in *.
  pose proof (inv_N rg H). pose proof (inv_w rg H). pose proof (ws_range rg H).
  unfold R, ring_begin_write. cbn [fst snd sq stx tx_write_head tx_read_head].
  split; [exact H|]. split; [lia|]. split; [exact Hc|]. split; [exact Ha|].
  unfold tx_rel. cbn [tx_write_head tx_read_head]. change (len []) with 0.
  split; [rewrite Z.add_0_r; symmetry; apply Z.mod_small; lia|].
  split; [reflexivity|].
  split; [rewrite Hf; unfold ring_write_space; now rewrite wsi_spec|].
  split; lia.
Qed.

Lemma R_amend cap rg t q p room src :
  R cap (rg, t) (mkS q (Some (p, room))) ->
  if len p + len src <=? room
  then exists rg' t', ring_amend_write rg t src = (rg', t', ST_SUCCESS) /\
         R cap (rg', t') (mkS q (Some (p ++ src, room))) /\
         read_head rg' = read_head rg /\ write_head rg' = write_head rg /\ size rg' = size rg /\
         size_mask rg' = size_mask rg /\
         written (buf rg) (size rg) (tx_write_head t) src (buf rg')
  else ring_amend_write rg t src = (rg, t, ST_NO_MEM).
Proof.
  intros (H & Ht & Hc & Ha & Htw & Hp & Hroom & Hlp & Hws). cbn [fst snd sq stx] in *.
  pose proof (inv_N rg H) as HN. pose proof (inv_r rg H) as Hr. pose proof (inv_w rg H) as Hw.
  pose proof (len_nonneg p) as Hp0. pose proof (len_nonneg src) as Hs0.
  pose proof (amend_spec rg t src H Ht) as A. cbv zeta in A.
  assert (Eroom : (tx_read_head t - tx_write_head t - 1) mod size rg = room - len p).
  { replace (tx_read_head t - tx_write_head t - 1) with (tx_read_head t - 1 - tx_write_head t) by lia.
    rewrite Htw, Zminus_mod_idemp_r. rewrite Hroom in *.
    set (N := size rg) in *. set (w := write_head rg) in *. set (tr := tx_read_head t) in *.
    pose proof (Z.mod_pos_bound (tr - w - 1) N ltac:(lia)) as Hb.
    replace (tr - 1 - (w + len p)) with (tr - w - 1 - len p) by lia.
    rewrite <- Zminus_mod_idemp_l.
    apply Z.mod_small. lia. }
  rewrite Eroom in A.
  destruct (len p + len src <=? room) eqn:E.
  - destruct (len src <=? room - len p) eqn:E'; [|lia].
    destruct A as (b' & Eq & Wr). exists (set_buf rg b'), (mkTx (tx_read_head t) ((tx_write_head t + len src) mod size rg)).
    split; [exact Eq|]. split; [|split; [|split; [|split; [|split]]]; try reflexivity; exact Wr].
    assert (I' : inv (set_buf rg b')).
    { destruct H as [Hk Hm _ _ Hl]. constructor; cbn; auto. destruct Wr as [Wl _]. lia. }
    assert (WSeq : ring_write_space (set_buf rg b') = ring_write_space rg).
    { unfold ring_write_space. rewrite !wsi_spec by assumption. reflexivity. }
    assert (RSeq : ring_read_space (set_buf rg b') = ring_read_space rg).
    { unfold ring_read_space. rewrite !rsi_spec by assumption. reflexivity. }
    pose proof (space_sum_lemma rg H) as SS. rewrite capacity_spec in SS by exact H.
    pose proof (rs_range rg H) as RSr.
    pose proof (w_after_r rg H) as WR.
    unfold R. cbn [fst snd sq stx tx_write_head tx_read_head].
    split; [exact I'|]. split; [cbn; apply Z.mod_pos_bound; lia|].
    split; [exact Hc|]. split.
    + (* the stored bytes are not touched *)
      rewrite <- Ha. unfold abs. rewrite RSeq. cbn [buf size read_head set_buf].
      apply ring_bytes_ext. intros i Hi.
      rewrite (written_at (buf rg) (size rg) _ _ _ (read_head rg + i) ltac:(lia) Wr).
      rewrite Htw, Zminus_mod_idemp_r.
      unfold ring_read_space in *. repeat rewrite rsi_spec in * by assumption.
      unfold ring_write_space in *. repeat rewrite wsi_spec in * by assumption.
      set (N := size rg) in *. set (w := write_head rg) in *. set (r := read_head rg) in *.
      assert (Hd : len src <= (r + i - (w + len p)) mod N).
      { modc N (w - r); modc N (r + i - (w + len p)); lia. }
      destruct ((r + i - (w + len p)) mod N <? len src) eqn:C; [lia|reflexivity].
    + unfold tx_rel. cbn [buf size write_head set_buf tx_write_head tx_read_head].
      rewrite len_app. split; [|split; [|split; [exact Hroom|split; [lia|rewrite WSeq; exact Hws]]]].
      * rewrite Htw, Zplus_mod_idemp_l. f_equal. lia.
      * rewrite ring_bytes_app by lia. f_equal.
        -- rewrite <- Hp at 2. apply ring_bytes_ext. intros i Hi.
           rewrite (written_at (buf rg) (size rg) _ _ _ (write_head rg + i) ltac:(lia) Wr).
           rewrite Htw, Zminus_mod_idemp_r.
           unfold ring_write_space in *. repeat rewrite wsi_spec in * by assumption.
           set (N := size rg) in *. set (w := write_head rg) in *.
           assert (Hd : len src <= (w + i - (w + len p)) mod N).
           { modc N (w + i - (w + len p)); lia. }
           destruct ((w + i - (w + len p)) mod N <? len src) eqn:C; [lia|reflexivity].
        -- rewrite (list_as_zrange src) at 2. unfold ring_bytes.
           apply map_zrange_ext. intros i Hi.
           rewrite (written_at (buf rg) (size rg) _ _ _ (write_head rg + len p + i) ltac:(lia) Wr).
           rewrite Htw, Zminus_mod_idemp_r.
           unfold ring_write_space in *. repeat rewrite wsi_spec in * by assumption.
           set (N := size rg) in *. set (w := write_head rg) in *.
           replace (w + len p + i - (w + len p)) with i by lia.
           rewrite Z.mod_small by lia.
           destruct (i <? len src) eqn:C; [reflexivity|lia].
  - destruct (len src <=? room - len p) eqn:E'; [lia|]. exact A.
Qed.

Lemma R_commit cap rg t q p room :
  R cap (rg, t) (mkS q (Some (p, room))) ->
  R cap (fst (ring_commit_write rg t), t) (mkS (q ++ p) None) /\
  snd (ring_commit_write rg t) = ST_SUCCESS.
Proof.
  intros (H & Ht & Hc & Ha & Htw & Hp & Hroom & Hlp & Hws). cbn [fst snd sq stx] in *.
  split; [|reflexivity].
  pose proof (inv_N rg H) as HN. pose proof (inv_r rg H) as Hr. pose proof (inv_w rg H) as Hw.
  pose proof (len_nonneg p) as Hp0.
  unfold ring_commit_write. cbn [fst].
  set (rg' := set_write_head rg (tx_write_head t)).
  assert (I' : inv rg').
  { destruct H as [Hk Hm ? _ Hl]. constructor; cbn; auto. }
  pose proof (space_sum_lemma rg H) as SS. rewrite capacity_spec in SS by exact H.
  pose proof (rs_range rg H) as RSr. pose proof (w_after_r rg H) as WR.
  assert (RS : ring_read_space rg' = ring_read_space rg + len p).
  { unfold ring_read_space in *. repeat rewrite rsi_spec in * by assumption. cbn. rewrite Htw.
    unfold ring_write_space in *. repeat rewrite wsi_spec in * by assumption.
    rewrite Zminus_mod_idemp_l.
    set (N := size rg) in *. set (w := write_head rg) in *. set (r := read_head rg) in *.
    modc N (w - r); modc N (r - w - 1); modc N (w + len p - r); lia. }
  unfold R. cbn [fst snd sq stx]. split; [exact I'|]. split; [exact Ht|].
  split; [exact Hc|]. split; [|exact I].
  unfold abs. rewrite RS. cbn [rg' buf size read_head set_write_head].
  rewrite ring_bytes_app by lia. f_equal; [exact Ha|].
  rewrite <- ring_bytes_mod_start, WR. exact Hp.
Qed.

(* write = begin; amend; commit *)
Lemma R_write cap rg t s src :
  R cap (rg, t) s ->
  if len src <=? cap - len (sq s)
  then exists rg', ring_write rg src = (rg', len src) /\ R cap (rg', t) (mkS (sq s ++ src) None)
  else ring_write rg src = (rg, 0).
Proof.
  intros HR. pose proof (R_begin _ _ _ _ HR) as HB.
  pose proof (R_amend _ _ _ _ _ _ src HB) as HA.
  change (len []) with 0 in HA. rewrite Z.add_0_l in HA.
  unfold ring_write.
  destruct (len src <=? cap - len (sq s)) eqn:E.
  - destruct HA as (rg1 & t1 & Eq & HR1 & _ & _ & Hsz & _). rewrite Eq. cbn [negb Z.eqb ST_SUCCESS].
    cbn [app] in HR1. pose proof (R_commit _ _ _ _ _ _ HR1) as [HC _].
    exists (fst (ring_commit_write rg1 t1)). split; [reflexivity|].
    destruct HC as (Iv & _ & Hc & Ha & _). destruct HR as (_ & Ht & _).
    cbn [fst snd sq stx] in *.
    unfold R. cbn [fst snd sq stx].
    split; [exact Iv|]. split; [|split; [exact Hc|split; [exact Ha|exact I]]].
    (* the caller's own transaction variable is still in range: the size did not change *)
    change (size (fst (ring_commit_write rg1 t1))) with (size rg1). rewrite Hsz. exact Ht.
  - rewrite HA. reflexivity.
Qed.
