(* C04: every micro-step of the reader preserves the invariant *)
From Coq Require Import ZArith List Bool Arith Lia.
From Zix Require Import RingConcModel RingConcProofsA RingConcProofsB RingConcProofsW.
Import ListNotations.
Local Open Scope Z_scope.

Section Reader.
  Variable c : cfg.
  Hypothesis Hk : 0 <= ck c <= 31.
  Hypothesis Hwr : w_release c = true.
  Let N := rsize c.

  (* -------- acquire load of write_head (first access of every reader function) *)
  Lemma r_acq_inv : forall s k call cs,
    Inv c s -> rpcs (sr s) = RIdle ->
    let j := acq_pick (WH (sm s)) (vr (sr s)) k in
    Inv c (mkState (sm s) (sw s)
             (mkR (ROwn call (hval (WH (sm s)) j) (hcnt (WH (sm s)) j)) (rresl (sr s)) j cs 1%nat)
             (sg s) (EvAcq HW (hval (WH (sm s)) j) :: trace s)).
  Proof.
    intros s k call cs H Hpc j. open_inv H. rewrite Hpc in *.
    pose proof (acq_pick_bounds (WH (sm s)) (vr (sr s)) k ivr) as (J1 & J2). fold j in J1, J2.
    pose proof iWH as (Wl & Wv & Wm).
    split_inv.
    - pose proof (Wm _ _ J1 J2). lia.
    - split; [reflexivity|]. apply Wv. exact J2.
  Qed.

  (* -------- replacing the reader's control state and result log *)
  Lemma inv_set_r : forall s pc' res' cs' st' tr',
    Inv c s ->
    let s' := mkState (sm s) (sw s) (mkR pc' res' (vr (sr s)) cs' st') (sg s) tr' in
    rpc_ok c s' -> res_ok (committed s) res' (Rc s) -> Inv c s'.
  Proof.
    intros s pc' res' cs' st' tr' H s' Hp Hr. subst s'. open_inv H. split_inv.
  Qed.

  (* -------- one byte of the reader's memcpy *)
  Lemma r_byte_inv : forall s adv r size i acc cs st tr,
    Inv c s -> rpcs (sr s) = RCopy adv r size i acc ->
    let cell := rcell c r size i in
    Inv c (mkState (mkMem (WH (sm s)) (RH (sm s)) (buf (sm s)) (wep (sm s))
                          (upd (rep (sm s)) cell (length (RH (sm s))))
                          (race (sm s) || negb (Nat.leb (wep (sm s) cell) (if w_release c then vr (sr s) else O))))
                   (sw s) (mkR RIdle (rresl (sr s)) (vr (sr s)) cs st)
                   (mkG (gT (sg s)) (gtxr (sg s)) (wlog (sg s)) (upd (rlast (sg s)) cell (lastc (RH (sm s)) + i))) tr)
    /\ buf (sm s) cell = nth (Z.to_nat (Rc s + i)) (committed s) 0.
  Proof.
    intros s adv r size i acc cs st tr H Hpc cell. pose proof (inv_counts c s H) as Cn.
    pose proof (N_pos c Hk) as NP. fold N in NP.
    open_inv H. rewrite Hpc in *.
    destruct irpc as (Er & Hi & Hsz & Hacc).
    assert (Hs : size < N) by (fold N in Cn; lia).
    assert (Ecell : cell = (lastc (RH (sm s)) + i) mod N).
    { unfold cell. rewrite Er. unfold N. apply rcell_eq; [exact Hk|lia|exact Hs]. }
    fold N in ibuf, iwep, irlast.
    assert (Hb : lastc (RH (sm s)) <= lastc (RH (sm s)) + i < gT (sg s)) by lia.
    split.
    - split_inv; fold N.
      + intros cell0. unfold upd. destruct (cell0 =? cell); [lia | apply irepl].
      + intros cell0 Hc0. unfold upd. destruct (cell0 =? cell) eqn:E.
        * apply Z.eqb_eq in E. subst cell0. split; [symmetry; exact Ecell|]. split; [lia|].
          intros i0 Hi0 Hlt. exfalso. pose proof (hist_le_last (rsize c) _ i0 iRH Hi0). lia.
        * apply irlast. exact Hc0.
      + rewrite irace. cbn [orb]. rewrite Hwr.
        assert ((wep (sm s) cell <= vr (sr s))%nat) as Hle.
        { rewrite Ecell. apply iwep; [exact Hb | exact ivr | lia]. }
        apply Nat.leb_le in Hle. rewrite Hle. reflexivity.
    - rewrite Ecell. rewrite ibuf by exact Hb. rewrite nth_firstn_lt by lia. reflexivity.
  Qed.

  (* -------- release store of read_head *)
  Lemma r_store_inv : forall s res v n cs st tr,
    Inv c s -> rpcs (sr s) = RRel res v n ->
    Inv c (mkState (mkMem (WH (sm s)) (RH (sm s) ++ [(v, lastc (RH (sm s)) + n)]) (buf (sm s)) (wep (sm s)) (rep (sm s)) (race (sm s)))
                   (sw s) (mkR RIdle (res :: rresl (sr s)) (vr (sr s)) cs st) (sg s) tr).
  Proof.
    intros s res v n cs st tr H Hpc. pose proof (inv_counts c s H) as Cn. pose proof (committed_length c s H) as CL.
    open_inv H. rewrite Hpc in *. destruct irpc as (Ev & Hn & Hle & Hres).
    split_inv; rewrite ?lastc_snoc, ?app_length; cbn [length].
    - apply hist_ok_snoc; [assumption | lia | exact Ev].
    - lia.
    - exact Hle.
    - rewrite hcnt_app_l by assumption. exact itxr.
    - intros b Hb. apply ibuf. lia.
    - intros b i Hb. apply iwep. lia.
    - intros cell. pose proof (irepl cell). lia.
    - intros cell Hc. destruct (irlast cell Hc) as (A & B & C). split; [exact A|]. split; [exact B|].
      intros i Hi Hlt. destruct (Nat.eq_dec i (length (RH (sm s)))) as [->|Hne].
      + apply irepl.
      + rewrite hcnt_app_l in Hlt by lia. apply C; [lia | exact Hlt].
    - destruct (wpcs (sw s)); try exact iwpc. rewrite hcnt_app_l by assumption. exact iwpc.
    - unfold Rc, Wc, committed in *. destruct res as [n' bs|n' bs|n'|n']; try contradiction.
      + destruct Hres as (-> & ->). cbn [res_ok].
        replace (lastc (RH (sm s)) + n - n) with (lastc (RH (sm s))) by lia.
        repeat split; try assumption; lia.
      + subst n'. cbn [res_ok].
        replace (lastc (RH (sm s)) + n - n) with (lastc (RH (sm s))) by lia.
        repeat split; try assumption; lia.
  Qed.

  (* -------- continuing or finishing a reader copy *)
  Lemma rcopy_next_inv : forall s adv r size i acc rl0 tr,
    Inv c s -> vr rl0 = vr (sr s) -> rresl rl0 = rresl (sr s) ->
    r = Rc s mod N -> 0 <= i <= size -> Rc s + size <= hcnt (WH (sm s)) (vr (sr s)) ->
    rev acc = slice (committed s) (Rc s) i ->
    Inv c (mkState (sm s) (sw s) (rcopy_next adv c r size i acc rl0) (sg s) tr).
  Proof.
    intros s adv r size i acc rl0 tr H Hvr Hres Er Hi Hsz Hacc.
    pose proof (inv_counts c s H) as Cn. pose proof (committed_length c s H) as CL.
    pose proof (i_res c s H) as Hr.
    destruct rl0 as [pc0 res0 vr0 cs0 st0]. cbn [vr rresl] in Hvr, Hres. subst vr0 res0.
    unfold rcopy_next, set_rpc, r_finish. cbn [rpcs rresl vr rcalls rsteps].
    destruct (i <? size) eqn:E1.
    - apply Z.ltb_lt in E1. apply inv_set_r; [exact H | | exact Hr].
      unfold rpc_ok; proj. repeat split; try assumption; lia.
    - apply Z.ltb_ge in E1. assert (i = size) by lia. subst i.
      destruct adv.
      + destruct (size =? 0) eqn:E0.
        * apply Z.eqb_eq in E0. subst size.
          apply inv_set_r; [exact H | unfold rpc_ok; proj; exact I |].
          cbn [res_ok]. rewrite Z.sub_0_r. rewrite slice_zero. repeat split; try assumption; lia.
        * apply inv_set_r; [exact H | | exact Hr].
          unfold rpc_ok; proj. rewrite Er. unfold N. rewrite head_add_eq by exact Hk.
          repeat split; try assumption; try lia.
      + apply inv_set_r; [exact H | unfold rpc_ok; proj; exact I |].
        cbn [res_ok]. repeat split; try assumption; lia.
  Qed.

  (* -------- all micro-steps of the reader *)
  Theorem rstep_inv : forall p s k, Inv c s -> Inv c (rstep c p s k).
  Proof.
    intros p s k H. pose proof (inv_counts c s H) as Cn. pose proof (inv_heads c s H) as (ER & _).
    pose proof (committed_length c s H) as CL. pose proof (i_res c s H) as Hr.
    pose proof (N_pos c Hk) as NP. fold N in NP, Cn.
    unfold rstep.
    destruct (rpcs (sr s)) as [|call w wc|adv r size i acc|res v n] eqn:Epc.
    - destruct (p (rresl (sr s))) as [call|]; [|exact H]. apply r_acq_inv; assumption.
    - assert (Hpc : wc = hcnt (WH (sm s)) (vr (sr s)) /\ w = wc mod N).
      { destruct H. unfold rpc_ok in i_rpc. rewrite Epc in i_rpc. exact i_rpc. }
      destruct Hpc as (Ewc & Ew).
      assert (Esp : read_space c (lastv (RH (sm s))) w = wc - Rc s).
      { rewrite ER, Ew. unfold N. apply read_space_window; [exact Hk|]. fold N. destruct H. lia. }
      assert (U : forall n, 0 <= u32 n) by (intros n; unfold u32; apply Z.mod_pos_bound; lia).
      destruct call as [n|n|n|]; unfold r_finish, set_rpc; proj; rewrite ?Esp.
      + destruct (wc - Rc s <? u32 n) eqn:Et.
        * apply inv_set_r; [exact H | unfold rpc_ok; proj; exact I |].
          cbn [res_ok]. rewrite Z.sub_0_r, slice_zero. repeat split; try assumption; lia.
        * apply Z.ltb_ge in Et. apply rcopy_next_inv; proj; try assumption; try reflexivity; try lia.
          pose proof (U n). lia.
      + destruct (wc - Rc s <? u32 n) eqn:Et.
        * apply inv_set_r; [exact H | unfold rpc_ok; proj; exact I |].
          cbn [res_ok]. rewrite slice_zero. repeat split; try assumption; lia.
        * apply Z.ltb_ge in Et. apply rcopy_next_inv; proj; try assumption; try reflexivity; try lia.
          pose proof (U n). lia.
      + destruct (wc - Rc s <? u32 n) eqn:Et.
        * apply inv_set_r; [exact H | unfold rpc_ok; proj; exact I |].
          cbn [res_ok]. rewrite Z.sub_0_r. repeat split; try assumption; lia.
        * apply Z.ltb_ge in Et. apply inv_set_r; [exact H | | exact Hr].
          unfold rpc_ok; unfold Rc in *; proj. rewrite ER. unfold N. rewrite head_add_eq by exact Hk.
          pose proof (U n). repeat split; try assumption; try lia.
      + apply inv_set_r; [exact H | unfold rpc_ok; proj; exact I | exact Hr].
    - pose proof (r_byte_inv s adv r size i acc (rcalls (sr s)) (rsteps (sr s)) (trace s) H Epc) as (H1 & Eb).
      assert (Hpc : r = Rc s mod N /\ 0 <= i < size /\ Rc s + size <= hcnt (WH (sm s)) (vr (sr s)) /\
                    rev acc = slice (committed s) (Rc s) i).
      { destruct H. unfold rpc_ok in i_rpc. rewrite Epc in i_rpc. exact i_rpc. }
      destruct Hpc as (Er & Hi & Hsz & Hacc).
      apply (rcopy_next_inv _ adv r size (i + 1) (buf (sm s) (rcell c r size i) :: acc) (sr s) _ H1);
        proj; try assumption; try reflexivity; try lia.
      cbn [rev]. unfold committed in *; unfold Rc, Wc in *; proj. rewrite Hacc, Eb.
      rewrite slice_snoc; [reflexivity | lia | lia |]. lia.
    - apply r_store_inv; assumption.
  Qed.
End Reader.
