Require Extraction.
Require Import ExtrOcamlBasic.
From Zix Require Import CopySpec CopyModel FsSpec FsModel.
Separate Extraction FsModel.create_directories FsModel.file_equals FsModel.file_type_of FsModel.file_size_of
  FsModel.e_trace FsModel.e_open FsSpec.mkdirs_spec FsSpec.names_directoryb FsSpec.type_of_mode_spec
  FsModel.list_eqb.
