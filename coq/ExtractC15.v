Require Extraction.
Require Import ExtrOcamlBasic.
From Zix Require Import CopySpec CopyModel FsSpec FsModel FsLinkSpec FsLinkModel.
Separate Extraction FsModel.create_directories FsModel.file_equals FsModel.file_type_of FsModel.file_size_of
  FsModel.e_trace FsModel.e_open FsSpec.mkdirs_spec FsSpec.names_directoryb FsSpec.type_of_mode_spec
  FsModel.list_eqb
  FsLinkModel.create_directories_l FsLinkModel.file_type_l FsLinkModel.symlink_type_l FsLinkModel.file_size_l
  FsLinkModel.dir_for_each FsLinkModel.d_init FsLinkModel.d_open FsLinkModel.d_calls FsLinkModel.d_log
  FsLinkModel.opendir_l FsLinkModel.fd_balance FsLinkModel.sys_of_fsev FsLinkModel.sys_of_dcall
  FsLinkSpec.stat_l FsLinkSpec.lstat_l FsLinkSpec.names_directory_lb FsLinkSpec.lmkdirs_spec
  FsLinkSpec.kind_of_res FsLinkSpec.fmt_of_node FsLinkSpec.children
  FsLinkModel.file_type_calls FsLinkModel.symlink_type_calls FsLinkModel.file_size_calls.
