(* C14 — lemmas, part 1: status algebra, per-call frame lemmas, descriptor accounting. *)
From Coq Require Import ZArith List Bool Lia.
From Zix Require Import CopySpec CopyModel.
Import ListNotations.
Local Open Scope Z_scope.

(* ---------------------------------------------------------------- statuses *)
Lemma errno_status_success_iff : forall e, zix_errno_status e = SUCCESS <-> e = 0.
Proof.
  intro e. unfold zix_errno_status, errno_map. cbn [errno_lookup].
  unfold EACCES, EAGAIN, EEXIST, EINVAL, EMLINK, ENOENT, ENOMEM, ENOSPC, ENOSYS, EPERM, ETIMEDOUT, ENOTSUP.
  split.
  - repeat (match goal with |- context [?a =? e] => destruct (Z.eqb_spec a e) end; try discriminate; try lia).
  - intros ->. reflexivity.
Qed.

Lemma errno_status_pos : forall e, zix_errno_status (Z.pos e) <> SUCCESS.
Proof. intros e H. apply errno_status_success_iff in H. discriminate. Qed.

Lemma errno_status_not_fuel : forall e, zix_errno_status e <> OUT_OF_FUEL.
Proof.
  intro e. unfold zix_errno_status, errno_map. cbn [errno_lookup].
  repeat (match goal with |- context [?a =? e] => destruct (a =? e) end; try discriminate).
Qed.

Lemma is_success_true : forall s, is_success s = true <-> s = SUCCESS.
Proof. intro s; destruct s; cbn; split; congruence. Qed.

Lemma st_or_success : forall a b, st_or a b = SUCCESS <-> a = SUCCESS /\ b = SUCCESS.
Proof.
  intros a b. unfold st_or. destruct (is_success a) eqn:E.
  - apply is_success_true in E. subst. tauto.
  - split.
    + intros ->. discriminate.
    + intros [-> _]. discriminate.
Qed.

Lemma st_or_not_fuel : forall a b, a <> OUT_OF_FUEL -> b <> OUT_OF_FUEL -> st_or a b <> OUT_OF_FUEL.
Proof. intros a b Ha Hb. unfold st_or. destruct (is_success a); assumption. Qed.

Lemma status_eqb_eq : forall a b, status_eqb a b = true <-> a = b.
Proof. intros a b; destruct a, b; cbn; split; congruence. Qed.

(* ---------------------------------------------------------------- what a call leaves alone *)
(* everything material except errno *)
Definition frame (w w' : world) : Prop :=
  w_skind w' = w_skind w /\ w_src w' = w_src w /\ w_dst w' = w_dst w /\
  w_soff w' = w_soff w /\ w_doff w' = w_doff w /\ w_fds w' = w_fds w.

Lemma frame_refl : forall w, frame w w.
Proof. intro w. repeat split. Qed.
Lemma frame_trans : forall a b c, frame a b -> frame b c -> frame a c.
Proof. unfold frame. intros a b c H1 H2. intuition congruence. Qed.

Ltac wcbn := cbn [w_skind w_src w_dst w_soff w_doff w_fds w_errno w_script w_trace
                  set_src set_dst set_soff set_doff set_fds set_errno set_script log fail failz] in *.

Lemma pop_frame : forall w o w1, pop w = (o, w1) -> frame w w1 /\ w_errno w1 = w_errno w.
Proof.
  intros w o w1 H. unfold pop in H. destruct (w_script w); inversion H; subst; wcbn; unfold frame; wcbn; auto 10.
Qed.

Lemma pop_script : forall w o w1, pop w = (o, w1) ->
  o = hd Full (w_script w) /\ w_script w1 = tl (w_script w).
Proof.
  intros w o w1 H. unfold pop in H. destruct (w_script w) eqn:S; inversion H; subst; wcbn; auto.
Qed.



Definition hd_err (s : list outcome) : bool := match s with Err _ :: _ => true | _ => false end.

Ltac popd w o w1 P :=
  destruct (pop w) as [o w1] eqn:P;
  let F := fresh "F" in let E := fresh "E" in
  destruct (pop_frame _ _ _ P) as [F E]; destruct F as (?&?&?&?&?&?).

Lemma k_fstat_spec : forall w which ok w', k_fstat w which = (ok, w') ->
  frame w w' /\ (ok = true -> w_errno w' = w_errno w) /\ (ok = false -> exists e, w_errno w' = Z.pos e) /\
  w_script w' = tl (w_script w) /\ (hd_err (w_script w) = false -> ok = true).
Proof.
  intros w which ok w' H. unfold k_fstat in H. popd w o w1 P.
  destruct (pop_script _ _ _ P) as [Ho Hs].
  destruct o; inversion H; subst; wcbn; unfold frame; wcbn;
    (split; [auto 10|split; [congruence|split; [intro; try discriminate; eauto|split; [exact Hs|]]]]); try reflexivity.
  intro Hh. destruct (w_script w) as [|x l]; cbn in Ho; subst; discriminate.
Qed.

Lemma k_fdatasync_spec : forall w rc w', k_fdatasync w = (rc, w') ->
  frame w w' /\ ((rc = 0 /\ w_errno w' = w_errno w) \/ (rc = -1 /\ exists e, w_errno w' = Z.pos e)).
Proof.
  intros w rc w' H. unfold k_fdatasync in H. popd w o w1 P.
  destruct o; inversion H; subst; wcbn; unfold frame; wcbn; (split; [auto 10|]); eauto.
Qed.

Lemma k_fadvise_spec : forall w which, frame w (k_fadvise w which) /\ w_errno (k_fadvise w which) = w_errno w.
Proof.
  intros w which. unfold k_fadvise. popd w o w1 P.
  destruct o; wcbn; unfold frame; wcbn; auto 10.
Qed.

Lemma k_close_spec : forall w t rc w', k_close w t = (rc, w') ->
  w_skind w' = w_skind w /\ w_src w' = w_src w /\ w_dst w' = w_dst w /\
  w_fds w' = remove_tok t (w_fds w) /\
  ((rc = 0 /\ w_errno w' = w_errno w) \/ (rc = -1 /\ exists e, w_errno w' = Z.pos e)).
Proof.
  intros w t rc w' H. unfold k_close in H. popd w o w1 P.
  destruct o; inversion H; subst; wcbn; repeat split; try congruence; eauto.
Qed.

Lemma k_open_src_spec : forall w ok w', k_open_src w = (ok, w') ->
  w_skind w' = w_skind w /\ w_src w' = w_src w /\ w_dst w' = w_dst w /\ w_script w' = tl (w_script w) /\
  (ok = true -> w_fds w' = FSrc :: w_fds w /\ w_soff w' = O /\ w_skind w <> SMissing) /\
  (ok = false -> w_fds w' = w_fds w /\ w_errno w' <> 0) /\
  (hd_err (w_script w) = false -> w_skind w <> SMissing -> ok = true).
Proof.
  intros w ok w' H. unfold k_open_src in H. popd w o w1 P.
  destruct (pop_script _ _ _ P) as [Ho Hs].
  destruct o as [|k|e].
  3: { inversion H; subst; wcbn. repeat split; try congruence; try discriminate.
       intro Hh. destruct (w_script w) as [|x l]; cbn in Ho; subst; discriminate. }
  all: destruct (w_skind w1) eqn:K; inversion H; subst; wcbn; repeat split; try congruence; try discriminate.
Qed.

Lemma k_stat_dst_spec : forall w r w', k_stat_dst w = (r, w') ->
  frame w w' /\ w_script w' = tl (w_script w) /\
  (r = StatSame -> w_dst w = DAlias) /\
  (r = StatOther -> (exists b, w_dst w = DFile b) \/ w_dst w = DDir) /\
  (r = StatFail -> w_errno w' <> 0) /\
  (w_dst w = DAlias -> r = StatSame \/ hd_err (w_script w) = true) /\
  (hd_err (w_script w) = false -> w_dst w <> DAbsent -> r <> StatFail).
Proof.
  intros w r w' H. unfold k_stat_dst in H. popd w o w1 P.
  destruct (pop_script _ _ _ P) as [Ho Hs].
  assert (HE : forall e, o = Err e -> hd_err (w_script w) = true).
  { intros e ->. destruct (w_script w) as [|x l]; cbn in Ho; subst; try discriminate; reflexivity. }
  assert (HN : (forall e, o <> Err e) -> True) by auto.
  destruct o as [|k|e].
  1,2: destruct (w_dst w1) eqn:D; inversion H; subst; wcbn; unfold frame; wcbn;
    repeat split; try congruence; try discriminate; eauto; try (intros; left; congruence);
    try (intros; exfalso; congruence); unfold ENOENT; try lia.
  inversion H; subst; wcbn; unfold frame; wcbn.
  repeat split; try congruence; try discriminate; eauto.
  intros Hh. rewrite (HE e eq_refl) in Hh. discriminate.
Qed.

Lemma k_open_dst_spec : forall w ov ok w', k_open_dst w ov = (ok, w') ->
  w_skind w' = w_skind w /\ w_soff w' = w_soff w /\ w_script w' = tl (w_script w) /\
  (ok = true ->
     w_fds w' = FDst :: w_fds w /\ w_doff w' = O /\ w_errno w' = w_errno w /\
     match w_dst w with
     | DAbsent => w_dst w' = DFile [] /\ w_src w' = w_src w
     | DFile _ => ov = true /\ w_dst w' = DFile [] /\ w_src w' = w_src w
     | DAlias => ov = true /\ w_dst w' = DAlias /\ w_src w' = [] /\ hd_err (w_script w) = false
     | DDir => False
     end) /\
  (ok = false -> w_fds w' = w_fds w /\ w_dst w' = w_dst w /\ w_src w' = w_src w /\ w_errno w' <> 0) /\
  (hd_err (w_script w) = false ->
     match w_dst w with
     | DAbsent => ok = true
     | DFile _ => if ov then ok = true else ok = false /\ w_errno w' = EEXIST
     | DAlias => if ov then ok = true else ok = false /\ w_errno w' = EEXIST
     | DDir => ok = false /\ (ov = false -> w_errno w' = EEXIST)
     end).
Proof.
  intros w ov ok w' H. unfold k_open_dst in H. popd w o w1 P.
  destruct (pop_script _ _ _ P) as [Ho Hs].
  assert (HE : forall e, o = Err e -> hd_err (w_script w) = true).
  { intros e ->. destruct (w_script w) as [|x l]; cbn in Ho; subst; try discriminate; reflexivity. }
  assert (HN : (forall e, o <> Err e) -> hd_err (w_script w) = false).
  { intros Hn. destruct (w_script w) as [|x l]; cbn in Ho; subst; try reflexivity.
    destruct x; try reflexivity. exfalso; eapply Hn; reflexivity. }
  destruct o as [|k|e].
  1,2: assert (Hf : hd_err (w_script w) = false) by (apply HN; intros; discriminate);
       match goal with Hd : w_dst ?ww = w_dst ?vv |- _ => rewrite <- Hd end;
       destruct (w_dst w1) eqn:D; destruct ov; inversion H; subst; wcbn;
       repeat split; try congruence; try discriminate; unfold EEXIST, EISDIR; try lia; auto.
  inversion H; subst; wcbn.
  repeat split; try congruence; try discriminate.
  intro Hh. rewrite (HE e eq_refl) in Hh. discriminate.
Qed.

(* ---------------------------------------------------------------- list facts *)
Lemma write_at_append : forall (p data : list Z), write_at p (length p) data = p ++ data.
Proof.
  intros p data. unfold write_at.
  rewrite firstn_all, Nat.sub_diag. cbn [repeat app].
  rewrite skipn_all2 by lia. rewrite app_nil_r. reflexivity.
Qed.

Lemma firstn_skipn_add : forall (l : list Z) a n, firstn a l ++ firstn n (skipn a l) = firstn (a + n) l.
Proof.
  intros l a. revert l. induction a as [|a IH]; intros l n.
  - reflexivity.
  - destruct l as [|x l]; cbn [Nat.add firstn skipn app].
    + rewrite firstn_nil. reflexivity.
    + rewrite IH. reflexivity.
Qed.

(* ---------------------------------------------------------------- the copy invariant *)
(* [done] has reached the destination, [rest] has been read but not yet written *)
Definition Inv2 (src : list Z) (w : world) (rest : list Z) : Prop :=
  w_src w = src /\
  exists done, w_dst w = DFile done /\ w_doff w = length done /\
               done ++ rest = firstn (w_soff w) src /\ (w_soff w <= length src)%nat.

Definition same_env (w w' : world) : Prop := w_skind w' = w_skind w /\ w_fds w' = w_fds w.
Lemma same_env_refl : forall w, same_env w w. Proof. split; reflexivity. Qed.
Lemma same_env_trans : forall a b c, same_env a b -> same_env b c -> same_env a c.
Proof. unfold same_env; intuition congruence. Qed.
Lemma frame_same_env : forall w w', frame w w' -> same_env w w'.
Proof. unfold frame, same_env; intuition. Qed.

Lemma Inv2_frame : forall src w w' rest, frame w w' -> Inv2 src w rest -> Inv2 src w' rest.
Proof.
  unfold frame, Inv2. intros src w w' rest (?&Hs&Hd&Ho&Hdo&?) [H1 [done H2]].
  split; [congruence|]. exists done. rewrite Hd, Hdo, Ho. exact H2.
Qed.

Definition fault_freeS (s : list outcome) : Prop := forallb (fun o => negb (is_err o)) s = true.

Lemma fault_free_tl : forall s, fault_freeS s -> fault_freeS (tl s).
Proof.
  unfold fault_freeS. intros [|x l] H; [reflexivity|]. cbn in *. apply andb_true_iff in H. tauto.
Qed.
Lemma fault_free_hd : forall s, fault_freeS s -> is_err (hd Full s) = false.
Proof.
  unfold fault_freeS. intros [|x l] H; [reflexivity|]. cbn in *. apply andb_true_iff in H.
  destruct H as [H _]. destruct (is_err x); [discriminate|reflexivity].
Qed.
Lemma fault_free_hd_err : forall s, fault_freeS s -> hd_err s = false.
Proof.
  intros s H. pose proof (fault_free_hd s H) as E. destruct s as [|x l]; [reflexivity|].
  destruct x; try reflexivity. discriminate.
Qed.

Lemma rd_count_le : forall o req avail, (rd_count o req avail <= req)%nat /\ (rd_count o req avail <= avail)%nat.
Proof. intros o req avail. unfold rd_count. destruct o; try lia. destruct (Nat.min req avail) eqn:M; lia. Qed.
Lemma rd_count_zero : forall o req avail, rd_count o req avail = O -> req = O \/ avail = O.
Proof. intros o req avail. unfold rd_count. destruct o; try lia. destruct (Nat.min req avail) eqn:M; lia. Qed.
Lemma rd_count_full : forall o req avail, is_err o = false -> (0 < req)%nat -> (0 < avail)%nat -> (0 < rd_count o req avail)%nat.
Proof. intros o req avail _ H1 H2. unfold rd_count. destruct o; try lia. destruct (Nat.min req avail) eqn:M; lia. Qed.

Lemma k_read_spec : forall src w req r data w', Inv2 src w [] -> k_read w req = (r, data, w') ->
  same_env w w' /\ w_script w' = tl (w_script w) /\
  ((r = -1 /\ data = [] /\ Inv2 src w' [] /\ (exists e, w_errno w' = Z.pos e) /\ is_err (hd Full (w_script w)) = true) \/
   (r = Z.of_nat (length data) /\ Inv2 src w' data /\ w_errno w' = w_errno w /\
    w_soff w' = (w_soff w + length data)%nat /\ (length data <= req)%nat /\
    (length data = O -> req = O \/ w_soff w = length src))).
Proof.
  intros src w req r data w' [Hs [done (Hd&Hdo&Happ&Hle)]] H. unfold k_read in H. popd w o w1 P.
  destruct (pop_script _ _ _ P) as [Ho Hsc].
  pose proof (rd_count_le o req (length (w_src w1) - w_soff w1)) as [L1 L2].
  pose proof (rd_count_zero o req (length (w_src w1) - w_soff w1)) as Z0.
  remember (rd_count o req (length (w_src w1) - w_soff w1)) as n eqn:Hn.
  destruct o as [|k|e].
  3: { inversion H; subst; unfold same_env, Inv2; wcbn. split; [split; congruence|]. split; [congruence|]. left.
       repeat split; eauto; try congruence.
       - exists done. rewrite H2, H4, H3. auto.
       - rewrite <- Ho. reflexivity. }
  all: inversion H; subst r data w'; clear H; unfold same_env, Inv2; wcbn.
  all: split; [split; congruence|]; split; [congruence|]; right.
  all: assert (Hlen : length (firstn n (skipn (w_soff w1) (w_src w1))) = n)
         by (rewrite firstn_length, skipn_length; lia).
  all: rewrite Hlen; repeat split; try congruence; try lia.
  all: rewrite H1, H3, Hs in *.
  all: try (exists done; split; [congruence|]; split; [congruence|]; split; [|lia];
            rewrite app_nil_r in Happ; rewrite Happ; rewrite firstn_skipn_add; reflexivity).
  all: try (intro Hz; destruct (Z0 Hz); lia).
Qed.

Lemma frame_fail : forall w c a e, frame w (fail w c a e).
Proof. intros. unfold frame; wcbn; auto 10. Qed.
Lemma frame_failz : forall w c a e, frame w (failz w c a e).
Proof. intros. unfold frame; wcbn; auto 10. Qed.
Lemma frame_log : forall w c a r, frame w (log w c a r).
Proof. intros. unfold frame; wcbn; auto 10. Qed.
Lemma frame_set_errno : forall w e, frame w (set_errno w e).
Proof. intros. unfold frame; wcbn; auto 10. Qed.

Lemma wr_count_le : forall o req, (wr_count o req <= req)%nat.
Proof. intros o req. unfold wr_count. destruct o; lia. Qed.
Lemma wr_count_pos : forall o req, is_err o = false -> (0 < req)%nat -> (0 < wr_count o req)%nat.
Proof. intros o req H R. unfold wr_count. destruct o as [|k|e]; try lia. destruct k; [discriminate|lia]. Qed.

Lemma put_dst_inv : forall src w rest n, Inv2 src w rest -> (n <= length rest)%nat ->
  Inv2 src (put_dst w (firstn n rest)) (skipn n rest) /\
  same_env w (put_dst w (firstn n rest)) /\ w_errno (put_dst w (firstn n rest)) = w_errno w /\
  w_soff (put_dst w (firstn n rest)) = w_soff w /\ w_script (put_dst w (firstn n rest)) = w_script w.
Proof.
  intros src w rest n [Hs [done (Hd&Hdo&Happ&Hle)]] Hn. unfold put_dst. rewrite Hd.
  unfold same_env, Inv2; wcbn. repeat split; try assumption.
  exists (done ++ firstn n rest). rewrite Hdo, write_at_append. repeat split.
  - rewrite app_length. reflexivity.
  - rewrite <- app_assoc, firstn_skipn. exact Happ.
  - exact Hle.
Qed.

Lemma k_write_spec : forall src w rest r w', Inv2 src w rest -> k_write w rest = (r, w') ->
  same_env w w' /\ w_script w' = tl (w_script w) /\ w_soff w' = w_soff w /\
  ((r = -1 /\ Inv2 src w' rest /\ (exists e, w_errno w' = Z.pos e) /\ is_err (hd Full (w_script w)) = true) \/
   (exists n, r = Z.of_nat n /\ (n <= length rest)%nat /\ Inv2 src w' (skipn n rest) /\ w_errno w' = w_errno w /\
              (is_err (hd Full (w_script w)) = false -> (0 < length rest)%nat -> (0 < n)%nat))).
Proof.
  intros src w rest r w' HI H. unfold k_write in H. popd w o w1 P.
  destruct (pop_script _ _ _ P) as [Ho Hsc].
  assert (HI1 : Inv2 src w1 rest) by (eapply Inv2_frame; [|exact HI]; unfold frame; auto 10).
  pose proof (wr_count_le o (length rest)) as L.
  pose proof (wr_count_pos o (length rest)) as Pz.
  remember (wr_count o (length rest)) as n eqn:Hn.
  destruct o as [|k|e].
  3: { inversion H; subst r w'; unfold same_env; wcbn.
       split; [split; congruence|]. split; [congruence|]. split; [congruence|]. left.
       split; [reflexivity|]. split; [eapply Inv2_frame; [apply frame_fail|exact HI1]|].
       split; [eauto|]. rewrite <- Ho. reflexivity. }
  all: inversion H; subst r w'; clear H.
  all: destruct (put_dst_inv src w1 rest n HI1 L) as (I2 & SE & Er & So & Sc).
  all: unfold same_env in *; wcbn.
  all: split; [destruct SE; split; congruence|]; split; [congruence|]; split; [congruence|].
  all: right; exists n; split; [reflexivity|]; split; [exact L|].
  all: split; [eapply Inv2_frame; [apply frame_log|exact I2]|].
  all: split; [congruence|].
  all: rewrite <- Ho; exact Pz.
Qed.

Lemma k_cfr_spec : forall src w req r w', Inv2 src w [] -> k_cfr w req = (r, w') ->
  same_env w w' /\ w_script w' = tl (w_script w) /\
  ((r = -1 /\ Inv2 src w' [] /\ w_soff w' = w_soff w /\ exists e, hd Full (w_script w) = Err e /\ w_errno w' = Z.pos e) \/
   (exists n, r = Z.of_nat n /\ Inv2 src w' [] /\ w_errno w' = w_errno w /\
              w_soff w' = (w_soff w + n)%nat /\ (n <= req)%nat /\
              (n = O -> req = O \/ w_soff w = length src))).
Proof.
  intros src w req r w' HI H. unfold k_cfr in H. popd w o w1 P.
  destruct (pop_script _ _ _ P) as [Ho Hsc].
  assert (HI1 : Inv2 src w1 []) by (eapply Inv2_frame; [|exact HI]; unfold frame; auto 10).
  pose proof (rd_count_le o req (length (w_src w1) - w_soff w1)) as [L1 L2].
  pose proof (rd_count_zero o req (length (w_src w1) - w_soff w1)) as Z0.
  remember (rd_count o req (length (w_src w1) - w_soff w1)) as n eqn:Hn.
  destruct HI1 as [Hs [done (Hd&Hdo&Happ&Hle)]].
  rewrite Hd in H.
  destruct o as [|k|e].
  3: { inversion H; subst r w'; unfold same_env; wcbn.
       split; [split; congruence|]. split; [congruence|]. left.
       split; [reflexivity|]. split; [eapply Inv2_frame; [apply frame_fail|]; split; [exact Hs|exists done; auto]|].
       split; [congruence|]. exists e. split; [congruence|reflexivity]. }
  all: inversion H; subst r w'; clear H.
  all: unfold put_dst; rewrite Hd; unfold same_env, Inv2; wcbn.
  all: split; [split; congruence|]; split; [congruence|]; right; exists n.
  all: assert (Hlen : length (firstn n (skipn (w_soff w1) (w_src w1))) = n)
         by (rewrite firstn_length, skipn_length; lia).
  all: split; [reflexivity|]; split; [|split; [congruence|]; split; [congruence|]; split; [exact L1|]].
  all: try (split; [exact Hs|]; exists (done ++ firstn n (skipn (w_soff w1) (w_src w1)));
            rewrite Hdo, write_at_append; split; [reflexivity|]; split; [rewrite !app_length; lia|];
            split; [|rewrite Hs in *; lia];
            rewrite app_nil_r in *; rewrite Happ, Hs; apply firstn_skipn_add).
  all: rewrite Hs in *; intro Hz; destruct (Z0 Hz); [left; assumption|right; lia].
Qed.


(* ---------------------------------------------------------------- the kernel-copy loop *)
Lemma cfr_loop_spec : forall src fuel w remaining r,
  Inv2 src w [] -> (remaining + w_soff w = length src)%nat -> (remaining < fuel)%nat -> 0 <= r ->
  exists r' w', cfr_loop fuel w remaining r = Some (r', w') /\ same_env w w' /\ Inv2 src w' [] /\
    ((0 <= r' /\ w_soff w' = length src /\ w_errno w' = w_errno w) \/
     (r' = -1 /\ exists e, w_errno w' = Z.pos e)) /\
    (fault_freeS (w_script w) -> 0 <= r' /\ fault_freeS (w_script w')).
Proof.
  intros src fuel. induction fuel as [|f IH]; intros w remaining r HI Hrem Hf Hr; [lia|].
  cbn [cfr_loop]. destruct remaining as [|rem'].
  - exists r, w. split; [reflexivity|]. split; [apply same_env_refl|]. split; [exact HI|].
    split; [left; repeat split; try lia|tauto].
  - destruct (k_cfr w (S rem')) as [r1 w1] eqn:K.
    destruct (k_cfr_spec src w (S rem') r1 w1 HI K) as (SE & Sc & [(R & I1 & So & e & He & Ee)|(n & R & I1 & Ee & So & Ln & Zn)]).
    + subst r1. cbn. exists (-1), w1. split; [reflexivity|]. split; [exact SE|]. split; [exact I1|].
      split; [right; eauto|]. intro FF. apply fault_free_hd in FF. rewrite He in FF. discriminate.
    + subst r1. destruct n as [|n'].
      * cbn. exists 0, w1. split; [reflexivity|]. split; [exact SE|]. split; [exact I1|].
        split; [left; repeat split; try lia; try congruence; destruct (Zn eq_refl); lia|].
        intro FF. split; [lia|]. rewrite Sc. apply fault_free_tl. exact FF.
      * replace (0 <? Z.of_nat (S n')) with true by (symmetry; apply Z.ltb_lt; lia).
        rewrite Nat2Z.id.
        destruct (IH w1 (S rem' - S n')%nat (Z.of_nat (S n')) I1) as (r' & w' & L & SE' & I' & C & FFc); try lia.
        exists r', w'. split; [exact L|]. split; [eapply same_env_trans; eassumption|]. split; [exact I'|].
        split.
        -- destruct C as [(A & B & C)|C]; [left; repeat split; try assumption; congruence|right; exact C].
        -- intro FF. apply FFc. rewrite Sc. apply fault_free_tl. exact FF.
Qed.

Lemma cfr_loop_first_err : forall fuel w remaining r e,
  hd Full (w_script w) = Err e -> (0 < remaining)%nat ->
  exists w', cfr_loop (S fuel) w remaining r = Some (-1, w') /\ frame w w' /\
             w_errno w' = Z.pos e /\ w_script w' = tl (w_script w).
Proof.
  intros fuel w remaining r e He Hr. cbn [cfr_loop]. destruct remaining as [|rem']; [lia|].
  unfold k_cfr. destruct (pop w) as [o w1] eqn:P.
  destruct (pop_script _ _ _ P) as [Ho Hs]. destruct (pop_frame _ _ _ P) as [F E].
  rewrite He in Ho. subst o. cbn.
  eexists. split; [reflexivity|]. split; [eapply frame_trans; [exact F|apply frame_fail]|].
  wcbn. auto.
Qed.

(* zix_copy_file_range as a whole *)
Lemma copy_file_range_spec : forall src w,
  Inv2 src w [] -> w_soff w = O ->
  forall st w', zix_copy_file_range w (length src) = (st, w') ->
  same_env w w' /\ Inv2 src w' [] /\ st <> OUT_OF_FUEL /\
  (st = SUCCESS -> w_soff w' = length src /\ w_errno w' = 0) /\
  (st <> SUCCESS -> w_errno w' <> 0) /\
  (fault_freeS (w_script w) -> st = SUCCESS /\ fault_freeS (w_script w')).
Proof.
  intros src w HI Ho st w' H. unfold zix_copy_file_range in H.
  assert (HI0 : Inv2 src (set_errno w 0) []) by (eapply Inv2_frame; [apply frame_set_errno|exact HI]).
  destruct (cfr_loop_spec src (S (length src)) (set_errno w 0) (length src) 0 HI0) as (r' & w1 & L & SE & I1 & C & FF);
    try (wcbn; lia).
  rewrite L in H.
  assert (SE0 : same_env w w1) by (eapply same_env_trans; [apply frame_same_env, frame_set_errno|exact SE]).
  destruct C as [(A & B & Ce)|(A & e & Ee)].
  - replace (0 <=? r') with true in H by (symmetry; apply Z.leb_le; lia).
    inversion H; subst st w'. wcbn.
    split; [exact SE0|]. split; [exact I1|]. split; [discriminate|].
    split; [intros _; split; [exact B|exact Ce]|]. split; [intro X; congruence|].
    intro FFs. split; [reflexivity|apply FF; exact FFs].
  - subst r'. cbn in H. inversion H; subst st w'. clear H.
    split; [exact SE0|]. split; [exact I1|]. rewrite Ee.
    split; [apply errno_status_not_fuel|].
    split; [|split].
    + intro S. exfalso. apply errno_status_success_iff in S.
      destruct ((Z.pos e =? EXDEV) || (Z.pos e =? EINVAL)); [discriminate S|discriminate S].
    + intros _. discriminate.
    + intro FFs. destruct (FF FFs) as [X _]. lia.
Qed.

Lemma copy_file_range_unsupported : forall w size e,
  hd Full (w_script w) = Err e -> unsupported_errno e = true -> (0 < size)%nat ->
  exists w', zix_copy_file_range w size = (NOT_SUPPORTED, w') /\ frame w w' /\ w_script w' = tl (w_script w).
Proof.
  intros w size e He Hu Hs. unfold zix_copy_file_range.
  destruct (cfr_loop_first_err size (set_errno w 0) size 0 e He Hs) as (w' & L & F & Ee & Sc).
  rewrite L. cbn [Z.leb Z.compare]. exists w'. rewrite Ee.
  split.
  - f_equal. unfold unsupported_errno in Hu.
    destruct (Z.pos e =? EXDEV) eqn:A; [reflexivity|].
    destruct (Z.pos e =? EINVAL) eqn:B; [reflexivity|].
    cbn [orb] in *. apply Z.eqb_eq in Hu. rewrite Hu. reflexivity.
  - split; [eapply frame_trans; [apply frame_set_errno|exact F]|exact Sc].
Qed.

(* ---------------------------------------------------------------- the block loop *)
Lemma write_loop_spec : forall src fuel w rest,
  Inv2 src w rest -> (length rest < fuel)%nat ->
  exists res w', write_loop fuel w rest = Some (res, w') /\ same_env w w' /\ w_soff w' = w_soff w /\
    ((res = None /\ Inv2 src w' [] /\ w_errno w' = w_errno w) \/
     (exists st rest', res = Some st /\ st <> SUCCESS /\ st <> OUT_OF_FUEL /\ Inv2 src w' rest')) /\
    (fault_freeS (w_script w) -> res = None /\ fault_freeS (w_script w')).
Proof.
  intros src fuel. induction fuel as [|f IH]; intros w rest HI Hf; [lia|].
  cbn [write_loop]. destruct rest as [|x rest'].
  - exists None, w. split; [reflexivity|]. split; [apply same_env_refl|]. split; [reflexivity|].
    split; [left; auto|tauto].
  - remember (x :: rest') as rest eqn:Hrest.
    destruct (k_write w rest) as [r w1] eqn:K.
    destruct (k_write_spec src w rest r w1 HI K) as (SE & Sc & So & [(R & I1 & (e & Ee) & He)|(n & R & Ln & I1 & Ee & Pn)]).
    + subst r. cbn [Z.leb Z.compare Z.ltb]. rewrite Ee. cbn [Z.eqb negb andb].
      exists (Some (zix_errno_status (Z.pos e))), w1. split; [reflexivity|]. split; [exact SE|]. split; [exact So|].
      split.
      * right. exists (zix_errno_status (Z.pos e)), rest. split; [reflexivity|].
        split; [apply errno_status_pos|]. split; [apply errno_status_not_fuel|exact I1].
      * intro FF. apply fault_free_hd in FF. congruence.
    + subst r. destruct n as [|n'].
      * cbn [Z.of_nat Z.leb Z.compare Z.ltb andb].
        exists (Some ERROR), w1. split; [reflexivity|]. split; [exact SE|]. split; [exact So|].
        split.
        -- right. exists ERROR, rest. split; [reflexivity|]. split; [discriminate|]. split; [discriminate|].
           cbn [skipn] in I1. exact I1.
        -- intro FF. apply fault_free_hd in FF. specialize (Pn FF). subst rest. cbn [length] in Pn. lia.
      * replace (Z.of_nat (S n') <=? 0) with false by (symmetry; apply Z.leb_gt; lia).
        rewrite Nat2Z.id.
        destruct (IH w1 (skipn (S n') rest) I1) as (res & w' & L & SE' & So' & C & FFc).
        { rewrite skipn_length. lia. }
        exists res, w'. split; [exact L|]. split; [eapply same_env_trans; eassumption|]. split; [congruence|].
        split.
        -- destruct C as [(A & B & C)|C]; [left; split; [exact A|split; [exact B|congruence]]|right; exact C].
        -- intro FF. apply FFc. rewrite Sc. apply fault_free_tl. exact FF.
Qed.

Lemma copy_blocks_spec : forall src bs fuel w,
  Inv2 src w [] -> (length src - w_soff w < fuel)%nat ->
  exists st w' rest, copy_blocks fuel w bs = (st, w') /\ same_env w w' /\ Inv2 src w' rest /\
    st <> OUT_OF_FUEL /\
    (st = SUCCESS -> (0 < bs)%nat ->
       (rest = [] /\ w_soff w' = length src /\ w_errno w' = w_errno w) \/ (exists e, w_errno w' = Z.pos e)) /\
    (fault_freeS (w_script w) -> (0 < bs)%nat ->
       st = SUCCESS /\ w_errno w' = w_errno w /\ w_soff w' = length src /\ rest = [] /\ fault_freeS (w_script w')).
Proof.
  intros src bs fuel. induction fuel as [|f IH]; intros w HI Hf; [lia|].
  cbn [copy_blocks].
  destruct (k_read w bs) as [[n data] w1] eqn:K.
  destruct (k_read_spec src w bs n data w1 HI K) as (SE & Sc & [(R & D & I1 & (e & Ee) & He)|(R & I1 & Ee & So & Ln & Zn)]).
  - subst n. cbn [Z.ltb Z.compare].
    exists SUCCESS, w1, []. split; [reflexivity|]. split; [exact SE|]. split; [exact I1|].
    split; [discriminate|]. split; [intros _ _; right; eauto|].
    intro FF. apply fault_free_hd in FF. congruence.
  - subst n. destruct data as [|x data'].
    + cbn [length Z.of_nat Z.ltb Z.compare].
      cbn [length] in So. rewrite Nat.add_0_r in So.
      exists SUCCESS, w1, []. split; [reflexivity|]. split; [exact SE|]. split; [exact I1|].
      split; [discriminate|].
      assert (Hend : (0 < bs)%nat -> w_soff w = length src) by (intro Hbs; destruct (Zn eq_refl); [lia|assumption]).
      split; [intros _ Hbs; left; repeat split; try congruence; rewrite So; auto|].
      intros FF Hbs. repeat split; try congruence; try (rewrite So; auto). rewrite Sc. apply fault_free_tl. exact FF.
    + remember (x :: data') as data eqn:Hdata.
      replace (0 <? Z.of_nat (length data)) with true by (symmetry; apply Z.ltb_lt; subst data; cbn [length]; lia).
      destruct (write_loop_spec src (S (length data)) w1 data I1) as (res & w2 & L & SE2 & So2 & C & FFc); [lia|].
      rewrite L.
      destruct C as [(Rn & I2 & Ee2)|(st & rest' & Rs & Ns & Nf & I2)].
      * subst res.
        destruct (IH w2 I2) as (st & w' & rest & CB & SE3 & I3 & Nf & Cs & FF3).
        { destruct I1 as [_ [dn (_ & _ & _ & Hb)]]. rewrite So2, So. rewrite So in Hb.
          subst data. cbn [length] in *. lia. }
        exists st, w', rest. split; [exact CB|].
        split; [eapply same_env_trans; [exact SE|eapply same_env_trans; eassumption]|].
        split; [exact I3|]. split; [exact Nf|]. split.
        -- intros S Hbs. destruct (Cs S Hbs) as [(A & B & C)|C]; [left; repeat split; try assumption; congruence|right; exact C].
        -- intros FF Hbs. assert (FF1 : fault_freeS (w_script w1)) by (rewrite Sc; apply fault_free_tl; exact FF).
           destruct (FFc FF1) as [_ FF2]. destruct (FF3 FF2 Hbs) as (A & B & C & D & E).
           repeat split; try assumption; congruence.
      * subst res. exists st, w2, rest'. split; [reflexivity|].
        split; [eapply same_env_trans; eassumption|]. split; [exact I2|]. split; [exact Nf|].
        split; [intro S; contradiction|].
        intros FF _. assert (FF1 : fault_freeS (w_script w1)) by (rewrite Sc; apply fault_free_tl; exact FF).
        destruct (FFc FF1) as [X _]. discriminate.
Qed.

(* ---------------------------------------------------------------- closing *)
Definition remove_opt (t : option fdtok) (l : list fdtok) : list fdtok :=
  match t with Some x => remove_tok x l | None => l end.

(* what finishing leaves alone: the files *)
Definition same_files (w w' : world) : Prop :=
  w_skind w' = w_skind w /\ w_src w' = w_src w /\ w_dst w' = w_dst w.
Lemma same_files_refl : forall w, same_files w w. Proof. repeat split. Qed.
Lemma same_files_trans : forall a b c, same_files a b -> same_files b c -> same_files a c.
Proof. unfold same_files; intuition congruence. Qed.
Lemma frame_same_files : forall w w', frame w w' -> same_files w w'.
Proof. unfold frame, same_files; intuition. Qed.

Lemma close_opt_spec : forall w (t : option fdtok) rc w',
  match t with Some x => k_close w x | None => (0, w) end = (rc, w') ->
  same_files w w' /\ w_fds w' = remove_opt t (w_fds w) /\
  ((rc = 0 /\ w_errno w' = w_errno w) \/ (rc = -1 /\ exists e, w_errno w' = Z.pos e)) /\
  (fault_freeS (w_script w) -> rc = 0 /\ fault_freeS (w_script w')).
Proof.
  intros w t rc w' H. destruct t as [x|].
  - destruct (k_close_spec w x rc w' H) as (A & B & C & D & E0).
    split; [repeat split; assumption|]. split; [exact D|]. split; [exact E0|].
    intro FF. unfold k_close in H. destruct (pop w) as [o w1] eqn:P.
    destruct (pop_script _ _ _ P) as [Ho Hs]. pose proof (fault_free_hd _ FF) as Hh. rewrite <- Ho in Hh.
    destruct o; try discriminate; inversion H; subst; wcbn; (split; [reflexivity|]);
      rewrite Hs; apply fault_free_tl; exact FF.
  - inversion H; subst. split; [apply same_files_refl|]. split; [reflexivity|]. split; [left; auto|]. tauto.
Qed.

Lemma close_fds_spec : forall w fd1 fd2 st w', close_fds w fd1 fd2 = (st, w') ->
  same_files w w' /\ w_fds w' = remove_opt fd2 (remove_opt fd1 (w_fds w)) /\
  st <> OUT_OF_FUEL /\ (st = SUCCESS -> w_errno w = 0) /\
  (fault_freeS (w_script w) -> w_errno w = 0 -> st = SUCCESS /\ fault_freeS (w_script w')).
Proof.
  intros w fd1 fd2 st w' H. unfold close_fds in H.
  destruct (match fd1 with Some t => k_close w t | None => (0, w) end) as [r1 w1] eqn:C1.
  destruct (match fd2 with Some t => k_close w1 t | None => (0, w1) end) as [r2 w2] eqn:C2.
  destruct (close_opt_spec _ _ _ _ C1) as (F1 & D1 & E1 & FF1).
  destruct (close_opt_spec _ _ _ _ C2) as (F2 & D2 & E2 & FF2).
  inversion H; subst st w'. clear H.
  split; [eapply same_files_trans; eassumption|]. split; [congruence|].
  split.
  - apply st_or_not_fuel; [apply errno_status_not_fuel|].
    apply st_or_not_fuel; [destruct (r1 =? 0); [discriminate|apply errno_status_not_fuel]|
                           destruct (r2 =? 0); [discriminate|apply errno_status_not_fuel]].
  - split.
    + intro S. apply st_or_success in S. destruct S as [S _]. apply errno_status_success_iff in S. exact S.
    + intros FF E0. destruct (FF1 FF) as [R1 FFa]. destruct (FF2 FFa) as [R2 FFb].
      subst r1 r2. cbn [Z.eqb]. rewrite E0. split; [reflexivity|exact FFb].
Qed.

Lemma finish_copy_spec : forall w dst_fd src_fd st0 st w', finish_copy w dst_fd src_fd st0 = (st, w') ->
  same_files w w' /\ w_fds w' = remove_opt src_fd (remove_opt dst_fd (w_fds w)) /\
  (st0 <> OUT_OF_FUEL -> st <> OUT_OF_FUEL) /\
  (st = SUCCESS -> st0 = SUCCESS /\ w_errno w = 0) /\
  (st0 <> SUCCESS -> st = st0) /\
  (fault_freeS (w_script w) -> w_errno w = 0 -> st0 = SUCCESS -> st = SUCCESS).
Proof.
  intros w dst_fd src_fd st0 st w' H. unfold finish_copy in H.
  destruct (match dst_fd with Some _ => k_fdatasync w | None => (0, w) end) as [rc w1] eqn:S1.
  destruct (close_fds w1 dst_fd src_fd) as [st1 w2] eqn:C.
  inversion H; subst st w'. clear H.
  destruct (close_fds_spec _ _ _ _ _ C) as (F2 & D2 & N2 & S2 & FF2).
  assert (X : frame w w1 /\ ((rc = 0 /\ w_errno w1 = w_errno w) \/ (rc = -1 /\ exists e, w_errno w1 = Z.pos e)) /\
              (fault_freeS (w_script w) -> rc = 0 /\ fault_freeS (w_script w1))).
  { destruct dst_fd as [t|].
    - destruct (k_fdatasync_spec _ _ _ S1) as [F X]. split; [exact F|]. split; [exact X|].
      intro FF. unfold k_fdatasync in S1. destruct (pop w) as [o w0] eqn:P.
      destruct (pop_script _ _ _ P) as [Ho Hs]. pose proof (fault_free_hd _ FF) as Hh. rewrite <- Ho in Hh.
      destruct o; try discriminate; inversion S1; subst; wcbn; (split; [reflexivity|]);
        rewrite Hs; apply fault_free_tl; exact FF.
    - inversion S1; subst. split; [apply frame_refl|]. split; [left; auto|]. tauto. }
  destruct X as (F1 & E1 & FF1).
  split; [eapply same_files_trans; [apply frame_same_files; exact F1|exact F2]|].
  split; [destruct F1 as (_&_&_&_&_&Fd); rewrite D2, Fd; reflexivity|].
  split.
  - intro N0. apply st_or_not_fuel; [exact N0|]. apply st_or_not_fuel; [|exact N2].
    unfold posix_status. destruct (rc =? 0); [discriminate|apply errno_status_not_fuel].
  - split; [|split].
    + intro S. apply st_or_success in S. destruct S as [Sa S]. apply st_or_success in S. destruct S as [Sb Sc].
      split; [exact Sa|]. specialize (S2 Sc).
      destruct E1 as [(R & Ee)|(R & e & Ee)]; [congruence|].
      subst rc. unfold posix_status in Sb. cbn [Z.eqb] in Sb. rewrite Ee in Sb.
      exfalso. exact (errno_status_pos e Sb).
    + intro N0. unfold st_or. destruct (is_success st0) eqn:I; [apply is_success_true in I; contradiction|reflexivity].
    + intros FF E0 ->. destruct (FF1 FF) as [R FFa]. subst rc.
      destruct E1 as [(_ & Ee)|(R & _)]; [|discriminate].
      destruct (FF2 FFa) as [Sx _]; [congruence|].
      unfold posix_status. cbn [Z.eqb]. rewrite Sx. reflexivity.
Qed.

(* ---------------------------------------------------------------- from the kernel copy to the end *)
Definition blk_sane (b1 b2 : Z) : Prop := b1 < 2 ^ 32 /\ b2 < 2 ^ 32.

Lemma get_block_size_pos : forall b1 b2, blk_sane b1 b2 -> 0 < get_block_size b1 b2.
Proof.
  intros b1 b2 [H1 H2]. unfold get_block_size.
  destruct (0 <? b1) eqn:A; destruct (0 <? b2) eqn:B; cbn [andb]; try lia.
  apply Z.ltb_lt in A. apply Z.ltb_lt in B. rewrite Z.mod_small; lia.
Qed.

Lemma Inv2_complete : forall src w, Inv2 src w [] -> w_soff w = length src -> w_dst w = DFile src.
Proof.
  intros src w [_ [done (Hd & _ & Happ & _)]] Hs. rewrite Hs, firstn_all, app_nil_r in Happ. congruence.
Qed.

Lemma Inv2_dst : forall src w rest, Inv2 src w rest -> exists b, w_dst w = DFile b.
Proof. intros src w rest [_ [done (Hd & _)]]. eauto. Qed.

Lemma Inv2_src : forall src w rest, Inv2 src w rest -> w_src w = src.
Proof. intros src w rest [H _]. exact H. Qed.

Definition buffer_size_of (b1 b2 : Z) (al : alloc_answer) : nat :=
  match al with AOk => Z.to_nat (get_block_size b1 b2) | AFail _ => stack_buf_size end.

Lemma buffer_size_pos : forall b1 b2 al, blk_sane b1 b2 -> (0 < buffer_size_of b1 b2 al)%nat.
Proof.
  intros b1 b2 al H. unfold buffer_size_of. destruct al.
  - pose proof (get_block_size_pos b1 b2 H). lia.
  - unfold stack_buf_size. lia.
Qed.

(* the world in which copy_blocks starts, after the fadvise calls and the allocation *)
Definition before_blocks (w : world) (b1 b2 : Z) (al : alloc_answer) : world :=
  let w := k_fadvise w 0 in
  let w := k_fadvise w 1 in
  let w := match al with
           | AOk => log w KAlloc (get_block_size b1 b2) 1
           | AFail e => log (if e =? 0 then w else set_errno w e) KAlloc (get_block_size b1 b2) 0
           end in
  set_errno w 0.

Lemma before_blocks_spec : forall w b1 b2 al,
  frame w (before_blocks w b1 b2 al) /\ w_errno (before_blocks w b1 b2 al) = 0 /\
  w_script (before_blocks w b1 b2 al) = tl (tl (w_script w)).
Proof.
  intros w b1 b2 al. unfold before_blocks.
  destruct (k_fadvise_spec w 0) as [F1 _]. destruct (k_fadvise_spec (k_fadvise w 0) 1) as [F2 _].
  assert (S1 : forall w which, w_script (k_fadvise w which) = tl (w_script w)).
  { intros v which. unfold k_fadvise. destruct (pop v) as [o v1] eqn:P.
    destruct (pop_script _ _ _ P) as [_ Hs]. destruct o; wcbn; exact Hs. }
  split; [|split].
  - eapply frame_trans; [exact F1|]. eapply frame_trans; [exact F2|].
    destruct al as [|e]; [|destruct (e =? 0)]; unfold frame; wcbn; auto 10.
  - reflexivity.
  - destruct al as [|e]; [|destruct (e =? 0)]; wcbn; rewrite !S1; reflexivity.
Qed.

Lemma copy_body_unfold : forall w size b1 b2 al,
  copy_body w size b1 b2 al =
  let (st, w1) := zix_copy_file_range w size in
  if negb (status_eqb st NOT_SUPPORTED) then finish_copy w1 (Some FDst) (Some FSrc) st else
  let (st2, w2) := copy_blocks (S size) (before_blocks w1 b1 b2 al) (buffer_size_of b1 b2 al) in
  finish_copy (log w2 KFree (match al with AOk => 1 | AFail _ => 0 end) 0) (Some FDst) (Some FSrc) st2.
Proof.
  intros. unfold copy_body, before_blocks, buffer_size_of.
  destruct (zix_copy_file_range w size) as [st w1]. reflexivity.
Qed.

Lemma copy_body_spec : forall src w b1 b2 al st w',
  Inv2 src w [] -> w_soff w = O -> w_fds w = [FDst; FSrc] ->
  copy_body w (length src) b1 b2 al = (st, w') ->
  w_skind w' = w_skind w /\ w_src w' = src /\ w_fds w' = [] /\ st <> OUT_OF_FUEL /\
  exists b, w_dst w' = DFile b /\ (blk_sane b1 b2 -> st = SUCCESS -> b = src).
Proof.
  intros src w b1 b2 al st w' HI Ho Hfd H. rewrite copy_body_unfold in H.
  destruct (zix_copy_file_range w (length src)) as [st1 w1] eqn:C.
  destruct (copy_file_range_spec src w HI Ho st1 w1 C) as (SE1 & I1 & NF1 & S1 & N1 & _).
  destruct (negb (status_eqb st1 NOT_SUPPORTED)) eqn:NS.
  - destruct (finish_copy_spec _ _ _ _ _ _ H) as (F & D & NF & S & _).
    destruct F as (Fk & Fs & Fd). destruct SE1 as [K1 D1].
    split; [congruence|]. split; [rewrite Fs; eapply Inv2_src; exact I1|].
    split; [rewrite D, D1, Hfd; reflexivity|]. split; [auto|].
    destruct (Inv2_dst _ _ _ I1) as [b Hbd]. exists b. split; [congruence|].
    intros _ Ss. destruct (S Ss) as [Sa _]. destruct (S1 Sa) as [Sf _].
    pose proof (Inv2_complete _ _ I1 Sf). congruence.
  - destruct (before_blocks_spec w1 b1 b2 al) as (F0 & E0 & _).
    set (w1' := before_blocks w1 b1 b2 al) in *.
    assert (I1' : Inv2 src w1' []) by (eapply Inv2_frame; eassumption).
    destruct (copy_blocks_spec src (buffer_size_of b1 b2 al) (S (length src)) w1' I1')
      as (st2 & w2 & rest & CB & SE2 & I2 & NF2 & S2 & _); [lia|].
    rewrite CB in H.
    destruct (finish_copy_spec _ _ _ _ _ _ H) as (F & D & NF & S & _).
    destruct F as (Fk & Fs & Fd). destruct SE1 as [K1 D1]. destruct SE2 as [K2 D2].
    destruct F0 as (K0 & _ & _ & _ & _ & D0). wcbn.
    split; [congruence|]. split; [rewrite Fs; eapply Inv2_src; exact I2|].
    split; [rewrite D, D2, D0, D1, Hfd; reflexivity|]. split; [auto|].
    destruct (Inv2_dst _ _ _ I2) as [b Hbd]. exists b. split; [congruence|].
    intros Hb Ss. destruct (S Ss) as [Sa Se]. wcbn.
    destruct (S2 Sa (buffer_size_pos _ _ _ Hb)) as [(R & Sf & _)|(e & Ee)]; [|congruence].
    subst rest. pose proof (Inv2_complete _ _ I2 Sf). congruence.
Qed.

(* fault-free runs succeed, also when the kernel copy is unavailable *)
Lemma copy_body_ff : forall src w b1 b2 al st w',
  Inv2 src w [] -> w_soff w = O -> fault_freeS (w_script w) ->
  copy_body w (length src) b1 b2 al = (st, w') -> st = SUCCESS.
Proof.
  intros src w b1 b2 al st w' HI Ho FF H. rewrite copy_body_unfold in H.
  destruct (zix_copy_file_range w (length src)) as [st1 w1] eqn:C.
  destruct (copy_file_range_spec src w HI Ho st1 w1 C) as (SE1 & I1 & NF1 & S1 & N1 & F1).
  destruct (F1 FF) as [-> FF1]. cbn [status_eqb negb] in H.
  destruct (S1 eq_refl) as [_ E1].
  destruct (finish_copy_spec _ _ _ _ _ _ H) as (_ & _ & _ & _ & _ & X). apply X; auto.
Qed.

Lemma copy_body_unsupported : forall src w b1 b2 al st w' e,
  Inv2 src w [] -> w_soff w = O -> blk_sane b1 b2 -> (0 < length src)%nat ->
  hd Full (w_script w) = Err e -> unsupported_errno e = true -> fault_freeS (tl (w_script w)) ->
  copy_body w (length src) b1 b2 al = (st, w') -> st = SUCCESS.
Proof.
  intros src w b1 b2 al st w' e HI Ho Hb Hl He Hu FF H. rewrite copy_body_unfold in H.
  destruct (copy_file_range_unsupported w (length src) e He Hu Hl) as (w1 & C & F1 & Sc1).
  rewrite C in H. cbn [status_eqb negb] in H.
  destruct (before_blocks_spec w1 b1 b2 al) as (F0 & E0 & Sc0).
  set (w1' := before_blocks w1 b1 b2 al) in *.
  assert (I1' : Inv2 src w1' []) by (eapply Inv2_frame; [exact F0|eapply Inv2_frame; eassumption]).
  assert (So1 : w_soff w1' = O).
  { destruct F0 as (_&_&_&A&_). destruct F1 as (_&_&_&B&_). congruence. }
  destruct (copy_blocks_spec src (buffer_size_of b1 b2 al) (S (length src)) w1' I1')
    as (st2 & w2 & rest & CB & SE2 & I2 & NF2 & S2 & F2); [lia|].
  rewrite CB in H.
  assert (FF1 : fault_freeS (w_script w1')).
  { rewrite Sc0, Sc1. apply fault_free_tl, fault_free_tl. exact FF. }
  destruct (F2 FF1 (buffer_size_pos _ _ _ Hb)) as (-> & Ee & _ & _ & FF2).
  destruct (finish_copy_spec _ _ _ _ _ _ H) as (_ & _ & _ & _ & _ & X). apply X; wcbn; auto; congruence.
Qed.
