(* C11 — faithful executable model of zix_path_lexically_normal (/repo/src/path.c, POSIX
   branch: ZIX_DIR_SEP = '/', is_dir_sep = is_any_sep = (c == '/'), root name range empty).

   Branch for branch, same index arithmetic.  Indices are Z; the unsigned subtractions of the
   code are written with `sz` (mod 2^64).  The input is a NUL-terminated string: `rd s i` is
   byte i, 0 at i = len.  The result buffer is the calloc'd block of len+2 zero bytes,
   a `list Z` updated in place (`set`), stale bytes included; the returned C string is the
   buffer up to its first NUL (`cstr`).  Loops run on fuel; out of fuel = None.
   Definitions only. *)
From Coq Require Import ZArith List Bool.
From Zix Require Import PathNormSpec.
Import ListNotations.
Local Open Scope Z_scope.

Definition sz (x : Z) : Z := x mod 18446744073709551616.

Definition get (b : list Z) (i : Z) : Z :=
  if i <? 0 then 0 else nth (Z.to_nat i) b 0.

Definition set (b : list Z) (i : Z) (v : Z) : list Z :=
  if i <? 0 then b
  else let n := Z.to_nat i in
       if (n <? length b)%nat then firstn n b ++ v :: skipn (S n) b else b.

Definition rd (s : list Z) (i : Z) : Z := get s i.
Definition is_sep (c : Z) : bool := Z.eqb c SEP.
Definition zlen (s : list Z) : Z := Z.of_nat (length s).

(* memmove(buf + dst, buf + src, n) *)
Definition memmove (b : list Z) (dst src n : Z) : list Z :=
  let d := Z.to_nat dst in
  let k := Z.to_nat n in
  let chunk := firstn k (skipn (Z.to_nat src) b) in
  firstn d b ++ chunk ++ skipn (d + length chunk) b.

Fixpoint cstr (b : list Z) : list Z :=
  match b with
  | [] => []
  | c :: b' => if Z.eqb c 0 then [] else c :: cstr b'
  end.

(* ---- zix_path_root_slices / zix_path_root_path_range (POSIX): name = {0,0};
        dir = {0,1} if path[0] is a separator, then
        while (is_dir_sep(path[dir.end])) dir.begin = dir.end++;                        *)
Fixpoint root_dir_loop (fuel : nat) (s : list Z) (b e : Z) : option (Z * Z) :=
  match fuel with
  | O => None
  | S f => if is_sep (rd s e) then root_dir_loop f s e (e + 1) else Some (b, e)
  end.

Definition root_path_range (s : list Z) : option (Z * Z) :=
  if is_sep (rd s 0) then root_dir_loop (S (length s)) s 0 1 else Some (0, 0).

(* ---- for (i = 0; i < root_len; ++i) result[r++] = is_dir_sep(path[i]) ? sep : path[i]; *)
Fixpoint copy_root (fuel : nat) (s : list Z) (root_len i r : Z) (buf : list Z) : option (Z * list Z) :=
  match fuel with
  | O => None
  | S f =>
      if i <? root_len then
        copy_root f s root_len (i + 1) (r + 1)
                  (set buf r (if is_sep (rd s i) then SEP else rd s i))
      else Some (r, buf)
  end.

(* ---- while (is_dir_sep(path[i + 1])) ++i; *)
Fixpoint skip_seps (fuel : nat) (s : list Z) (i : Z) : option Z :=
  match fuel with
  | O => None
  | S f => if is_sep (rd s (i + 1)) then skip_seps f s (i + 1) else Some i
  end.

(* ---- first pass: copy, removing dot entries and collapsing separators.
        The output index r is compared with the copied root length root_len. *)
Definition dot_entry_before (buf : list Z) (i r root_end root_len : Z) : bool :=
  (i >=? root_end) &&
  (((r =? root_len + 1) && (get buf (r - 1) =? DOT)) ||
   ((r >=? root_len + 2) && (get buf (r - 2) =? SEP) && (get buf (r - 1) =? DOT))).

Fixpoint copy_loop (fuel : nat) (s : list Z) (len root_end root_len i r : Z) (buf : list Z)
  : option (Z * list Z) :=
  match fuel with
  | O => None
  | S f =>
      if i <? len then
        if is_sep (rd s i) then
          let '(r1, buf1) :=
            if dot_entry_before buf i r root_end root_len
            then (r - 1, set buf (r - 1) 0)
            else (r + 1, set buf r SEP) in
          match skip_seps (S (length s)) s i with
          | None => None
          | Some i1 => copy_loop f s len root_end root_len (i1 + 1) r1 buf1
          end
        else copy_loop f s len root_end root_len (i + 1) (r + 1) (set buf r (rd s i))
      else Some (r, buf)
  end.

(* ---- second pass: collapse dot-dot entries following a directory name, restarting at 0 *)
Definition dotdot_at (buf : list Z) (i r last : Z) : bool :=
  (last <? r) && (i >? 2) && (get buf (i - 2) =? SEP) && (get buf (i - 1) =? DOT) &&
  (get buf i =? DOT) && ((get buf (i + 1) =? 0) || is_sep (get buf (i + 1))).

Fixpoint dotdot_loop (fuel : nat) (i r last next : Z) (buf : list Z) : option (Z * list Z) :=
  match fuel with
  | O => None
  | S f =>
      if i <? r then
        if dotdot_at buf i r last then
          let i1 := if get buf (i + 1) =? SEP then i + 1 else i in
          let suffix_len := sz (sz (r - i1) - 1) in
          let buf1 := memmove buf last (i1 + 1) suffix_len in
          let r1 := sz (r - sz (sz (r - last) - suffix_len)) in
          let buf2 := set buf1 r1 0 in
          dotdot_loop f 0 r1 r1 0 buf2
        else
          let next1 := if (i >=? 1) && (get buf (i - 1) =? SEP) then i else next in
          (* not "." or "..": a non-dot byte, or a third byte of the entry (next + 2U <= i) *)
          let last1 := if negb (get buf i =? SEP) &&
                          (negb (get buf i =? DOT) || (i >=? sz (next1 + 2)))
                       then next1 else last in
          dotdot_loop f (i + 1) r last1 next1 buf
      else Some (r, buf)
  end.

(* ---- third pass: while (start < r && result[start] == '.' && result[start+1] == '.' &&
        (result[start+2] == sep || result[start+2] == 0)) start += (result[start+2]==sep) ? 3 : 2 *)
Fixpoint root_dotdot_scan (fuel : nat) (buf : list Z) (r start : Z) : option Z :=
  match fuel with
  | O => None
  | S f =>
      if (start <? r) && (get buf start =? DOT) && (get buf (start + 1) =? DOT) &&
         ((get buf (start + 2) =? SEP) || (get buf (start + 2) =? 0))
      then root_dotdot_scan f buf r (start + (if get buf (start + 2) =? SEP then 3 else 2))
      else Some start
  end.

(* ---- the tail rules, on the buffer *)
Definition tail_rules (r0 : Z) (buf : list Z) : list Z :=
  (* remove trailing dot entry: result[--r] = 0 *)
  let '(r, buf1) := if (r0 >=? 2) && is_sep (get buf (r0 - 2)) && (get buf (r0 - 1) =? DOT)
                    then (r0 - 1, set buf (r0 - 1) 0) else (r0, buf) in
  (* remove the separator after a trailing dot-dot entry (a whole entry: at the start or
     preceded by a separator) *)
  let buf2 := if (r >=? 3) && (get buf1 (r - 3) =? DOT) && (get buf1 (r - 2) =? DOT) &&
                 is_sep (get buf1 (r - 1)) && ((r =? 3) || is_sep (get buf1 (r - 4)))
              then set buf1 (r - 1) 0 else buf1 in
  (* if the path is empty, add a dot *)
  if get buf2 0 =? 0 then set (set buf2 0 DOT) 1 0 else buf2.

(* the state after the first pass (root copy + copy loop): (root_len, r, buffer) *)
Definition pass1 (s : list Z) : option (Z * Z * list Z) :=
  let len := zlen s in
  let buf0 := repeat 0 (length s + 2) in
  match root_path_range s with
  | None => None
  | Some (rb, re) =>
      let root_len := sz (re - rb) in
      match copy_root (S (length s)) s root_len 0 0 buf0 with
      | None => None
      | Some (r0, buf1) =>
          match copy_loop (S (length s)) s len re root_len re r0 buf1 with
          | None => None
          | Some (r1, buf2) => Some (root_len, r1, buf2)
          end
      end
  end.

Definition pass2 (root_len r : Z) (buf : list Z) (fuel : nat) : option (Z * list Z) :=
  dotdot_loop fuel root_len r r 0 buf.

(* third pass + tail: the final buffer *)
Definition pass34 (root_len r : Z) (buf : list Z) : option (list Z) :=
  if negb (root_len =? 0) && is_sep (get buf (root_len - 1)) then
    match root_dotdot_scan (S (length buf)) buf r root_len with
    | None => None
    | Some start =>
        if start >? root_len then
          let '(r1, buf1) :=
            if start <? r
            then (sz (sz (root_len + r) - start), memmove buf root_len start (sz (r - start)))
            else (root_len, buf) in
          Some (tail_rules r1 (set buf1 r1 0))       (* falls through to the tail rules *)
        else Some (tail_rules r buf)
    end
  else Some (tail_rules r buf).

(* Some (allocation request in bytes, returned C string); None = out of fuel *)
Definition zix_normal_full (s : list Z) : option (Z * list Z) :=
  match s with
  | [] => Some (1, [])                               (* zix_calloc(allocator, 1, 1) *)
  | _ =>
      match pass1 s with
      | None => None
      | Some (root_len, r, buf) =>
          match pass2 root_len r buf ((length s + 2) * (length s + 2)) with
          | None => None
          | Some (r2, buf2) =>
              match pass34 root_len r2 buf2 with
              | None => None
              | Some bufF => Some (zlen s + 2, cstr bufF)
              end
          end
      end
  end.

Definition zix_normal_opt (s : list Z) : option (list Z) :=
  match zix_normal_full s with Some (_, t) => Some t | None => None end.

(* total version used in the statements; the out-of-fuel marker [0] is not a path string and
   is excluded by theorem (zix_normal_terminates) *)
Definition zix_normal (s : list Z) : list Z :=
  match zix_normal_opt s with Some t => t | None => [0] end.
