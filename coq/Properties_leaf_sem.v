(* NS_PER_SECOND of /repo/src/posix/sem_posix.c, read from the C source on every run (gen/Constants.v, module Sem,
   by tools/translate_leaf.py), is the constant the deadline arithmetic of the hand-written model of C17 (SemModel) uses. *)
From Coq Require Import ZArith.
From Zix Require SemModel.
From Zix.gen Require Import Constants.
Local Open Scope Z_scope.

Theorem ns_per_second_is_model : Sem.ns_per_second = SemModel.NS_PER_SECOND.
Proof. reflexivity.
Qed.
Print Assumptions ns_per_second_is_model.
