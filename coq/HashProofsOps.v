(* C03 proofs, part 3: storing / killing a slot preserves the slot invariants; rehash, grow and
   shrink re-insert every record into a fresh table. *)
From Coq Require Import ZArith List Bool Lia Permutation.
From Coq Require Import ZifyBool.
From Zix Require Import HashSpec HashModel HashProofsBase HashProofsProbe.
Import ListNotations.
Local Open Scope Z_scope.
Ltac Zify.zify_post_hook ::= Z.div_mod_to_equations.

Definition no_tomb (l : list slot) : Prop := forall i, zget l i <> Tomb.

Definition absent (k : Z) (l : list slot) : Prop := forall r, In r (live_recs l) -> rkey r <> k.

Lemma absent_not_in : forall k l, absent k l <-> ~ In k (map rkey (live_recs l)).
Proof.
  intros. unfold absent. split.
  - intros A H. apply in_map_iff in H as (r & E & I). exact (A r I E).
  - intros A r I E. apply A. rewrite <- E. apply in_map. assumption.
Qed.

Section WithHash.
  Variable hf : Z -> Z.

  (* ---------------------------------------------------------------- one slot changes *)
  Lemma slots_store : forall n l p c r,
    pow2size n -> slots_ok hf n l -> 0 <= p < n -> has_value (zget l p) = false ->
    c = code_of hf (rkey r) ->
    (forall d, 0 <= d < dist n (fold_hash c (n - 1)) p -> zget l (pos n (fold_hash c (n - 1)) d) <> Empty) ->
    absent (rkey r) l ->
    slots_ok hf n (zset l p (Live c r)).
  Proof.
    intros n l p c r P2 (L & CH & ND & CO) Hp Hv Hc Hchain Habs.
    assert (Keep : forall x, 0 <= x < n -> zget l x <> Empty -> zget (zset l p (Live c r)) x <> Empty).
    { intros x Hx Hne. rewrite zget_zset by lia. destruct (p =? x); [discriminate|assumption]. }
    assert (PR : forall c' j d, 0 <= j < n -> 0 <= d < dist n (fold_hash c' (n - 1)) j ->
                 0 <= pos n (fold_hash c' (n - 1)) d < n).
    { intros c' j d Hj Hd. pose proof (fold_hash_range n c' P2) as F.
      pose proof (dist_range n _ j F Hj). apply pos_range; lia. }
    split; [rewrite zset_length; assumption|]. split; [|split].
    - intros j c' r' Hj E d Hd. rewrite zget_zset in E by lia.
      destruct (p =? j) eqn:Epj.
      + inversion E; subst c' r'. assert (j = p) by lia. subst j.
        apply Keep; [eapply PR; eauto|]. apply Hchain. assumption.
      + apply Keep; [eapply PR; eauto|]. apply (CH j c' r' Hj E d Hd).
    - pose proof (live_recs_store l p c r ltac:(lia) Hv) as P.
      apply (Permutation_map rkey) in P. symmetry in P.
      eapply Permutation_NoDup; [exact P|]. simpl. constructor; [|assumption].
      apply absent_not_in. assumption.
    - intros j c' r' Hj E. rewrite zset_length in Hj. rewrite zget_zset in E by lia.
      destruct (p =? j).
      + inversion E; subst. reflexivity.
      + apply (CO j c' r' Hj E).
  Qed.

  Lemma slots_kill : forall n l p c r,
    pow2size n -> slots_ok hf n l -> 0 <= p < n -> zget l p = Live c r ->
    slots_ok hf n (zset l p Tomb).
  Proof.
    intros n l p c r P2 (L & CH & ND & CO) Hp Hv.
    split; [rewrite zset_length; assumption|]. split; [|split].
    - intros j c' r' Hj E d Hd. rewrite zget_zset in E by lia.
      destruct (p =? j) eqn:Epj; [discriminate|].
      pose proof (fold_hash_range n c' P2) as F.
      pose proof (dist_range n _ j F Hj).
      pose proof (pos_range n (fold_hash c' (n - 1)) d F ltac:(lia)).
      rewrite zget_zset by lia.
      destruct (p =? pos n (fold_hash c' (n - 1)) d); [discriminate|].
      apply (CH j c' r' Hj E d Hd).
    - pose proof (live_recs_kill l p c r Tomb ltac:(lia) Hv eq_refl) as P.
      apply (Permutation_map rkey) in P.
      pose proof (Permutation_NoDup P ND) as N. simpl in N. inversion N; assumption.
    - intros j c' r' Hj E. rewrite zset_length in Hj. rewrite zget_zset in E by lia.
      destruct (p =? j); [discriminate|]. apply (CO j c' r' Hj E).
  Qed.

  (* ---------------------------------------------------------------- rehash *)
  Definition old_codes_ok (old : list slot) : Prop :=
    forall c r, In (Live c r) old -> c = code_of hf (rkey r).

  Lemma all_positions : forall n h (P : Z -> Prop),
    0 <= h < n -> (forall d, 0 <= d < n -> P (pos n h d)) -> forall i, 0 <= i < n -> P i.
  Proof.
    intros n h P Hh H i Hi. rewrite <- (pos_dist n h i Hh Hi). apply H. apply dist_range; assumption.
  Qed.

  Lemma rehash_loop_ok : forall old st,
    shape_ok st -> slots_ok hf (h_n st) (h_ent st) -> no_tomb (h_ent st) ->
    NoDup (map rkey (live_recs old ++ live_recs (h_ent st))) ->
    old_codes_ok old ->
    Z.of_nat (length (live_recs old)) + Z.of_nat (length (live_recs (h_ent st))) < h_n st ->
    exists st', fst (rehash_loop old st) = Ret st' /\
      h_n st' = h_n st /\ h_mask st' = h_mask st /\ h_count st' = h_count st /\
      shape_ok st' /\ slots_ok hf (h_n st) (h_ent st') /\ no_tomb (h_ent st') /\
      Permutation (live_recs (h_ent st')) (live_recs old ++ live_recs (h_ent st)).
  Proof.
    induction old as [|e rest IH]; intros st SH SL NT ND OC CNT.
    - exists st. simpl.
      split; [reflexivity|]. split; [reflexivity|]. split; [reflexivity|]. split; [reflexivity|].
      split; [assumption|]. split; [assumption|]. split; [assumption|]. apply Permutation_refl.
    - cbn [rehash_loop]. destruct e as [| |c r]; cbn [s_value].
      + (* Empty *)
        apply IH; auto. intros c r I. apply OC. right. assumption.
      + (* Tomb *)
        apply IH; auto. intros c r I. apply OC. right. assumption.
      + (* Live c r *)
        destruct SH as (P2 & M & L). cbn [s_hash].
        rewrite live_recs_cons in ND, CNT. change (vals (Live c r)) with [r] in ND, CNT. cbn [app map length] in ND, CNT.
        assert (Hc : c = code_of hf (rkey r)) by (apply OC; left; reflexivity).
        assert (Hh : 0 <= fold_hash c (h_mask st) < h_n st) by (rewrite M; apply fold_hash_range; assumption).
        pose proof (find_entry_spec st (KOfRec r) (fold_hash c (h_mask st)) c (conj P2 (conj M L)) Hh) as FS.
        destruct (find_entry st (KOfRec r) (fold_hash c (h_mask st)) c) as [fr lg] eqn:FE.
        simpl in FS.
        assert (Abs : absent (rkey r) (h_ent st)).
        { apply absent_not_in. inversion ND as [|? ? Nin _]; subst. intros I. apply Nin.
          rewrite map_app. apply in_or_app. right. assumption. }
        assert (NoMatch : forall j, matchp (zget (h_ent st) j) c (Z.eqb (rkey r)) = false).
        { intros j. destruct (matchp (zget (h_ent st) j) c (Z.eqb (rkey r))) eqn:Mj; auto. exfalso.
          apply matchp_true in Mj as (r' & E & K).
          destruct (Z.lt_ge_cases j 0) as [Neg|NonNeg].
          - (* negative index aliases slot 0 *)
            unfold zget in E. replace (Z.to_nat j) with (Z.to_nat 0) in E by lia.
            apply (Abs r'); [|lia]. apply In_live_recs. exists 0, c. split; [|exact E].
            pose proof (pow2size_ge4 _ P2). lia.
          - destruct (Z.lt_ge_cases j (h_n st)).
            + apply (Abs r'); [|lia]. apply In_live_recs. exists j, c. split; [lia|assumption].
            + rewrite zget_oob in E by lia. discriminate. }
        destruct fr as [j| |]; [| |contradiction].
        * (* FeAt j: it is an Empty slot *)
          destruct FS as (k' & K1 & K2 & K3 & K4).
          simpl in K3, K4. unfold stopb in K4. rewrite NoMatch, orb_false_r in K4.
          apply is_empty_iff in K4.
          assert (Hj : 0 <= j < h_n st) by (subst j; apply pos_range; lia).
          rewrite M in Hh, K2, K3.
          assert (SL1 : slots_ok hf (h_n st) (zset (h_ent st) j (Live c r))).
          { apply slots_store; auto.
            - rewrite K4. reflexivity.
            - intros d Hd. subst j. rewrite dist_pos in Hd by lia.
              specialize (K3 d ltac:(lia)). unfold stopb in K3. apply orb_false_iff in K3 as [K3 _].
              apply is_empty_false_iff. assumption. }
          pose proof (live_recs_store (h_ent st) j c r ltac:(lia) ltac:(rewrite K4; reflexivity)) as PS.
          set (st1 := set_ent st (zset (h_ent st) j (Live c r))).
          assert (SH1 : shape_ok st1).
          { unfold st1, shape_ok; simpl. rewrite zset_length. auto. }
          specialize (IH st1 SH1).
          destruct IH as (st' & R1 & R2 & R3 & R4 & R5 & R6 & R7 & R8); simpl; auto.
          -- intros i. destruct (Z.lt_ge_cases i 0).
             ++ unfold zget. replace (Z.to_nat i) with (Z.to_nat 0) by lia. fold (zget (zset (h_ent st) j (Live c r)) 0).
                rewrite zget_zset by lia. destruct (j =? 0); [discriminate|apply NT].
             ++ rewrite zget_zset by lia. destruct (j =? i); [discriminate|apply NT].
          -- eapply Permutation_NoDup; [|exact ND].
             change (rkey r :: map rkey (live_recs rest ++ live_recs (h_ent st)))
               with (map rkey (r :: live_recs rest ++ live_recs (h_ent st))).
             apply Permutation_map.
             rewrite PS. apply Permutation_middle.
          -- intros c' r' I. apply OC. right. assumption.
          -- rewrite (Permutation_length PS). cbn [length]. lia.
          -- exists st'. destruct (rehash_loop rest st1) as [o lg'] eqn:RL. simpl in R1. subst o.
             simpl in R2, R3, R4, R6.
             split; [reflexivity|]. split; [exact R2|]. split; [exact R3|]. split; [exact R4|].
             split; [exact R5|]. split; [exact R6|]. split; [exact R7|].
             rewrite R8. unfold st1. cbn [set_ent h_ent]. rewrite PS.
             symmetry. apply Permutation_middle.
        * (* FeEnd: every slot is non-Empty, hence holds a record: too many records *)
          exfalso.
          assert (AllLive : forall i, 0 <= i < Z.of_nat (length (h_ent st)) -> has_value (zget (h_ent st) i) = true).
          { rewrite L. rewrite M in *. apply (all_positions (h_n st) (fold_hash c (h_n st - 1))); [lia|].
            intros d Hd. specialize (FS d Hd). simpl in FS. unfold stopb in FS.
            apply orb_false_iff in FS as [FS _]. apply is_empty_false_iff in FS.
            destruct (zget (h_ent st) (pos (h_n st) (fold_hash c (h_n st - 1)) d)) eqn:Zg.
            - congruence.
            - exfalso. eapply NT. exact Zg.
            - reflexivity. }
          apply all_live_length_z in AllLive. lia.
  Qed.
End WithHash.
