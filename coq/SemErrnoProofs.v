(* Lemmas about the errno -> status mapping (shared by C17, C18, C19). *)
From Coq Require Import ZArith List Bool Lia.
From Zix Require Import SemErrnoModel.
Import ListNotations.
Local Open Scope Z_scope.

Lemma status_eqb_eq a b : status_eqb a b = true <-> a = b.
Proof.
  unfold status_eqb. rewrite Z.eqb_eq. split; [|intros ->; reflexivity].
  destruct a, b; cbn; intros H; try reflexivity; discriminate.
Qed.

(* the linear search written as a decision list *)
Lemma errno_status_unfold e :
  errno_status e =
  if e =? 0 then SUCCESS else if e =? EACCES then BAD_PERMS else if e =? EAGAIN then UNAVAILABLE
  else if e =? EEXIST then EXISTS else if e =? EINVAL then BAD_ARG else if e =? EMLINK then MAX_LINKS
  else if e =? ENOENT then NOT_FOUND else if e =? ENOMEM then NO_MEM else if e =? ENOSPC then NO_SPACE
  else if e =? ENOSYS then NOT_SUPPORTED else if e =? EPERM then BAD_PERMS
  else if e =? ETIMEDOUT then TIMEOUT else if e =? ENOTSUP then NOT_SUPPORTED else ERROR.
Proof.
  unfold errno_status, errno_map. cbn [errno_lookup].
  rewrite !(Z.eqb_sym _ e). reflexivity.
Qed.

Ltac errno_cases e :=
  rewrite (errno_status_unfold e);
  repeat match goal with
         | |- context [if ?x =? ?y then _ else _] => destruct (Z.eqb_spec x y)
         end.

Lemma errno_status_success_iff e : errno_status e = SUCCESS <-> e = 0.
Proof.
  split.
  - errno_cases e; intros H; try discriminate; assumption.
  - intros ->. reflexivity.
Qed.

Lemma errno_status_unavailable_iff e : errno_status e = UNAVAILABLE <-> e = EAGAIN.
Proof.
  split.
  - errno_cases e; intros H; try discriminate; assumption.
  - intros ->. reflexivity.
Qed.

Lemma errno_status_timeout_iff e : errno_status e = TIMEOUT <-> e = ETIMEDOUT.
Proof.
  split.
  - errno_cases e; intros H; try discriminate; assumption.
  - intros ->. reflexivity.
Qed.

Definition mapped_codes : list Z := map fst errno_map.

Lemma errno_status_fallback e : ~ In e mapped_codes -> errno_status e = ERROR.
Proof.
  intros H. unfold mapped_codes, errno_map in H. cbn [map fst In] in H.
  errno_cases e; try reflexivity; exfalso; apply H; subst; tauto.
Qed.

Lemma errno_status_in_map e s : In (e, s) errno_map -> errno_status e = s.
Proof.
  unfold errno_map. cbn [In]. intros H.
  repeat (destruct H as [H|H]; [inversion H; subst; reflexivity|]). contradiction.
Qed.

Lemma errno_status_if_success_iff r : errno_status_if r = SUCCESS <-> r = KOk \/ r = KErr 0.
Proof.
  destruct r as [|e]; cbn [errno_status_if].
  - split; auto.
  - rewrite errno_status_success_iff. split.
    + intros ->. auto.
    + intros [H|H]; [discriminate|]. inversion H. reflexivity.
Qed.
