(* C15 — lemmas, part 4: zix_file_equals under read/open/fstat/close errors (no short reads): the answer is
   never true for two files with different bytes.  A failed read of the first file ends the loop with match still
   true; only the pending errno, turned into a status by zix_system_close_fds, makes the answer false. *)
From Coq Require Import ZArith List Bool Lia.
From Zix Require Import CopySpec CopyModel CopyProofs FsSpec FsModel FsProofs.
Import ListNotations.
Local Open Scope Z_scope.

Definition no_short (o : outcome) : Prop := match o with Short _ => False | _ => True end.

Lemma errno_status_nonzero : forall e, e <> 0 -> is_success (zix_errno_status e) = false.
Proof.
  intros e H. destruct (zix_errno_status e) eqn:E; try reflexivity.
  apply errno_status_success_iff in E. contradiction.
Qed.

(* a pending errno makes zix_system_close_fds report an error, whatever the closes do *)
Lemma e_close_fds_pending : forall w, e_errno w <> 0 -> is_success (fst (e_close_fds w true true)) = false.
Proof.
  intros w H. unfold e_close_fds.
  destruct (e_close w 1) as [r1 w1]. destruct (e_close w1 0) as [r2 w2]. cbn [fst].
  unfold st_or at 1. rewrite (errno_status_nonzero _ H). apply errno_status_nonzero. exact H.
Qed.

Lemma equals_loop_errors : forall bs a b, (0 < bs)%nat -> length a = length b ->
  forall fuel w off, Forall no_short (e_script w) -> e_aoff w = off -> e_boff w = off -> e_errno w = 0 ->
  match equals_loop fuel w a b bs with
  | Some (true, w') => e_errno w' <> 0 \/ list_eqb (skipn off a) (skipn off b) = true
  | _ => True
  end.
Proof.
  intros bs a b Hbs Hlen. induction fuel as [|f IH]; intros w off Hs Ha Hb He; [exact I|].
  destruct w as [ao bo er sc tr op]. cbn [e_script e_aoff e_boff e_errno] in Hs, Ha, Hb, He. subst ao bo er.
  cbn [equals_loop]. unfold e_read at 1, epop. cbn [e_script e_aoff e_boff].
  assert (Hsplit : forall n (l : list Z), skipn off l = firstn n (skipn off l) ++ skipn (off + n) l).
  { intros n l. rewrite <- skipn_skipn_add. symmetry. apply firstn_skipn. }
  (* the step after a full read of n bytes from both files *)
  assert (Hstep : forall sc1 sc2 tr1 n, n = Nat.min bs (length a - off) -> (0 < n)%nat ->
            Forall no_short sc2 ->
            match (if negb (Z.of_nat n =? Z.of_nat n) ||
                      negb (list_eqb (firstn n (skipn off a)) (firstn n (skipn off b)))
                   then Some (false, mkE (off + n) (off + n) 0 sc1 tr1 op)
                   else equals_loop f (mkE (off + n) (off + n) 0 sc2 tr1 op) a b bs) with
            | Some (true, w') => e_errno w' <> 0 \/ list_eqb (skipn off a) (skipn off b) = true
            | _ => True
            end).
  { intros sc1 sc2 tr1 n Hn Hpos Hs2. rewrite Z.eqb_refl. cbn [negb orb].
    destruct (list_eqb (firstn n (skipn off a)) (firstn n (skipn off b))) eqn:E; cbn [negb]; [|exact I].
    specialize (IH (mkE (off + n) (off + n) 0 sc2 tr1 op) (off + n)%nat Hs2 eq_refl eq_refl eq_refl).
    destruct (equals_loop f (mkE (off + n) (off + n) 0 sc2 tr1 op) a b bs) as [[[|] w']|]; try exact I.
    destruct IH as [IH|IH]; [left; exact IH|right].
    rewrite (Hsplit n a), (Hsplit n b). rewrite list_eqb_app by (rewrite !firstn_length, !skipn_length; lia).
    rewrite E, IH. reflexivity. }
  set (n := Nat.min bs (length a - off)).
  assert (Hend : n = O -> list_eqb (skipn off a) (skipn off b) = true).
  { intro Hn0. assert (length a <= off)%nat by lia. rewrite (skipn_all2 a), (skipn_all2 b) by lia. reflexivity. }
  destruct sc as [|o r].
  - (* no scripted outcome left: full reads *)
    cbn [rd_count]. fold n. cbn [eset_off elog e_aoff e_boff e_errno e_script e_trace e_open].
    destruct (0 <? Z.of_nat n) eqn:Hn.
    + apply Z.ltb_lt in Hn. unfold e_read, epop. cbn [e_script e_boff rd_count eset_off elog e_aoff e_errno e_trace e_open].
      rewrite <- Hlen. fold n. apply Hstep; [reflexivity|lia|constructor].
    + apply Z.ltb_ge in Hn. right. apply Hend. lia.
  - inversion Hs as [|? ? Ho Hr]; subst. destruct o as [|k|e]; [|contradiction Ho|].
    + cbn [rd_count]. fold n. cbn [eset_off elog e_aoff e_boff e_errno e_script e_trace e_open].
      destruct (0 <? Z.of_nat n) eqn:Hn.
      * apply Z.ltb_lt in Hn. unfold e_read, epop. cbn [e_script e_boff].
        destruct r as [|o2 r2].
        { cbn [rd_count eset_off elog e_aoff e_boff e_errno e_script e_trace e_open].
          rewrite <- Hlen. fold n. apply Hstep; [reflexivity|lia|constructor]. }
        inversion Hr as [|? ? Ho2 Hr2]; subst. destruct o2 as [|k2|e2]; [|contradiction Ho2|].
        { cbn [rd_count eset_off elog e_aoff e_boff e_errno e_script e_trace e_open].
          rewrite <- Hlen. fold n. apply Hstep; [reflexivity|lia|exact Hr2]. }
        (* the read of the second file fails: -1 <> n *)
        cbn [eset_errno elog e_aoff e_boff e_errno e_script e_trace e_open].
        destruct (Z.eqb_spec (-1) (Z.of_nat n)); [lia|]. cbn [negb orb]. exact I.
      * apply Z.ltb_ge in Hn. right. apply Hend. lia.
    + (* the read of the first file fails: the loop ends with match = true and errno set *)
      cbn [eset_errno elog e_aoff e_boff e_errno e_script e_trace e_open].
      change (0 <? -1) with false. cbn iota. left. cbn [e_errno]. discriminate.
Qed.

Definition einv (w : eqw) : Prop := Forall no_short (e_script w) /\ e_aoff w = O /\ e_boff w = O.

Lemma e_open_inv : forall w f which ok w', einv w -> e_open_file w (Some f) which = (ok, w') ->
  einv w' /\ (ok = true -> e_errno w' = e_errno w).
Proof.
  intros [ao bo er sc tr op] f which ok w' (Hs & Ha & Hb) H. cbn [e_script e_aoff e_boff] in *.
  unfold e_open_file, epop in H. cbn [e_script] in H.
  destruct sc as [|o r].
  - inversion H; subst. cbn. repeat split; auto.
  - inversion Hs as [|? ? Ho Hr]; subst. destruct o as [|k|e]; [|contradiction Ho|]; inversion H; subst; cbn.
    + repeat split; auto.
    + split; [repeat split; auto|discriminate].
Qed.

Lemma e_fstat_inv : forall w which ok w', einv w -> e_fstat w which = (ok, w') ->
  einv w' /\ (ok = true -> e_errno w' = e_errno w).
Proof.
  intros [ao bo er sc tr op] which ok w' (Hs & Ha & Hb) H. cbn [e_script e_aoff e_boff] in *.
  unfold e_fstat, epop in H. cbn [e_script] in H.
  destruct sc as [|o r].
  - inversion H; subst. cbn. repeat split; auto.
  - inversion Hs as [|? ? Ho Hr]; subst. destruct o as [|k|e]; [|contradiction Ho|]; inversion H; subst; cbn.
    + repeat split; auto.
    + split; [repeat split; auto|discriminate].
Qed.

Lemma alloc_ev_inv : forall w size al, einv w -> einv (alloc_ev w size al).
Proof.
  intros [ao bo er sc tr op] size [|e] H; cbn [alloc_ev]; [exact H|]. destruct (e =? 0); exact H.
Qed.

(* open/fstat/read/close may fail with any errno at any call (no short reads): two files with different bytes
   are never reported equal *)
Lemma file_equals_errors_false : forall ia a ib b page al1 al2 errno0 script,
  (0 < page)%nat -> ia <> ib -> Forall no_short script -> a <> b ->
  fst (file_equals false (Some (ia, a)) (Some (ib, b)) page al1 al2 errno0 script) = false.
Proof.
  intros ia a ib b page al1 al2 errno0 script Hp Hi Hs Hab. unfold file_equals.
  set (w0 := eset_errno (mkE 0 0 errno0 script [] 0) 0).
  assert (I0 : einv w0) by (repeat split; assumption).
  assert (E0 : e_errno w0 = 0) by reflexivity.
  destruct (e_open_file w0 (Some (ia, a)) 0) as [a_ok w1] eqn:A.
  destruct (e_open_inv _ _ _ _ _ I0 A) as [I1 E1].
  destruct (e_open_file w1 (Some (ib, b)) 1) as [b_ok w2] eqn:B.
  destruct (e_open_inv _ _ _ _ _ I1 B) as [I2 E2].
  destruct a_ok; cbn [andb negb]; [|destruct (e_close_fds w2 b_ok false); reflexivity].
  destruct b_ok; cbn [andb negb]; [|destruct (e_close_fds w2 false true); reflexivity].
  destruct (e_fstat w2 0) as [sa_ok w3] eqn:SA.
  destruct (e_fstat_inv _ _ _ _ I2 SA) as [I3 E3].
  destruct sa_ok; cbn [andb negb]; [|destruct (e_close_fds w3 true true); reflexivity].
  destruct (e_fstat w3 1) as [sb_ok w4] eqn:SB.
  destruct (e_fstat_inv _ _ _ _ I3 SB) as [I4 E4].
  destruct sb_ok; cbn [andb negb]; [|destruct (e_close_fds w4 true true); reflexivity].
  assert (Hino : negb (ia =? 0) && negb (ib =? 0) && (ia =? ib) = false)
    by (destruct (Z.eqb_spec ia ib); [contradiction|apply andb_false_r]).
  rewrite Hino.
  destruct (length a =? length b)%nat eqn:Hl.
  2: { destruct (e_close_fds w4 true true) as [st w5]. cbn [fst]. apply andb_false_r. }
  apply Nat.eqb_eq in Hl.
  set (w5 := eset_errno (alloc_ev (alloc_ev w4 (Z.of_nat page) al1) (Z.of_nat page) al2) 0).
  assert (I5 : einv w5).
  { pose proof (alloc_ev_inv _ (Z.of_nat page) al2 (alloc_ev_inv _ (Z.of_nat page) al1 I4)) as X.
    unfold w5. destruct (alloc_ev (alloc_ev w4 (Z.of_nat page) al1) (Z.of_nat page) al2). exact X. }
  destruct I5 as (S5 & A5 & B5).
  assert (E5 : e_errno w5 = 0) by (unfold w5; destruct (alloc_ev _ _ al2); reflexivity).
  set (bs := if alloc_okb al1 && alloc_okb al2 then page else stack_buf_size).
  assert (Hbs : (0 < bs)%nat) by (unfold bs; destruct (alloc_okb al1 && alloc_okb al2); [exact Hp|unfold stack_buf_size; lia]).
  pose proof (equals_loop_errors bs a b Hbs Hl (S (length a)) w5 O S5 A5 B5 E5) as L.
  destruct (equals_loop (S (length a)) w5 a b bs) as [[mt w6]|].
  - destruct mt.
    + destruct L as [L|L].
      * match goal with |- context [e_close_fds ?wx true true] =>
          pose proof (e_close_fds_pending wx) as C end.
        destruct (e_close_fds _ true true) as [st w7]. cbn [fst] in *. rewrite C; [reflexivity|].
        destruct w6; cbn in *. exact L.
      * cbn [skipn] in L. apply list_eqb_eq in L. contradiction.
    + destruct (e_close_fds _ true true) as [st w7]. cbn [fst]. apply andb_false_r.
  - destruct (e_close_fds _ true true) as [st w7]. cbn [fst]. apply andb_false_r.
Qed.
