(* BTreeProofsInsert — zix_btree_insert: split_node / split_child / grow_up / insert_down / insert of the
   model preserve the invariant [Inv] and refine the sorted-list spec [set_insert]. *)
From Coq Require Import ZArith List Bool Arith Lia ZifyBool ZifyNat.
From Zix Require Import BTreeSpec BTreeModel BTreeProofsBase.
Import ListNotations.
Ltac Zify.zify_post_hook ::= Z.div_mod_to_equations.
Set Default Proof Using "All".

Section Insert.
  Variable elt : Type.  Variable rank : elt -> Z.  Variable dflt : elt.  Variables L I : nat.
  Hypothesis HI : I = L / 2.  Hypothesis HI3 : 3 <= I.
  Notation node := (node elt).  Notation tree := (tree elt).  Notation dnode := (@dnode elt).
  Notation asc := (@asc elt rank).  Notation mono := (@monotone elt).
  Notation ins_sorted := (@ins_sorted elt).
  Notation set_find := (@set_find elt).
  Notation set_insert := (@set_insert elt).

  (* ------------------------------------------------------------------ list facts *)
  Lemma nth_firstn_lt : forall (A : Type) (l : list A) n i d, i < n -> nth i (firstn n l) d = nth i l d.
  Proof.
    induction l as [|a l IH]; intros [|n] [|i] d H; cbn; try lia; auto. apply IH. lia.
  Qed.

  Lemma nth_skipn_add : forall (A : Type) (l : list A) n i d, nth i (skipn n l) d = nth (n + i) l d.
  Proof.
    induction l as [|a l IH]; intros [|n] i d; cbn; auto; destruct i; reflexivity.
  Qed.

  Lemma In_firstn_nth : forall (A : Type) (l : list A) n x d, In x (firstn n l) ->
    exists j, j < n /\ j < length l /\ nth j l d = x.
  Proof.
    intros A l n x d H. apply (In_nth _ _ d) in H as [j [Hj E]].
    rewrite firstn_length in Hj. exists j. repeat split; try lia.
    rewrite nth_firstn_lt in E by lia. exact E.
  Qed.

  Lemma In_skipn_nth : forall (A : Type) (l : list A) n x d, In x (skipn n l) ->
    exists j, n <= j < length l /\ nth j l d = x.
  Proof.
    intros A l n x d H. apply (In_nth _ _ d) in H as [j [Hj E]].
    rewrite skipn_length in Hj. exists (n + j). split; [lia|].
    rewrite nth_skipn_add in E. exact E.
  Qed.

  Lemma nth_ainsert_lt : forall (A : Type) (l : list A) i j e d, j < i -> i <= length l ->
    nth j (ainsert l i e) d = nth j l d.
  Proof.
    intros. unfold ainsert. rewrite app_nth1 by (rewrite firstn_length; lia).
    apply nth_firstn_lt. assumption.
  Qed.

  Lemma nth_ainsert_eq : forall (A : Type) (l : list A) i e d, i <= length l ->
    nth i (ainsert l i e) d = e.
  Proof.
    intros. unfold ainsert. rewrite app_nth2 by (rewrite firstn_length; lia).
    rewrite firstn_length. replace (i - Nat.min i (length l)) with 0 by lia. reflexivity.
  Qed.

  Lemma nth_ainsert_gt : forall (A : Type) (l : list A) i j e d, i < j -> i <= length l ->
    nth j (ainsert l i e) d = nth (j - 1) l d.
  Proof.
    intros. unfold ainsert. rewrite app_nth2 by (rewrite firstn_length; lia).
    rewrite firstn_length. replace (j - Nat.min i (length l)) with (S (j - 1 - i)) by lia.
    cbn [nth]. rewrite nth_skipn_add. f_equal. lia.
  Qed.

  Lemma Forall_firstn : forall (A : Type) (P : A -> Prop) (l : list A) n, Forall P l -> Forall P (firstn n l).
  Proof.
    intros A P l n H. rewrite <- (firstn_skipn n l) in H. apply Forall_app in H. tauto.
  Qed.

  Lemma Forall_skipn : forall (A : Type) (P : A -> Prop) (l : list A) n, Forall P l -> Forall P (skipn n l).
  Proof.
    intros A P l n H. rewrite <- (firstn_skipn n l) in H. apply Forall_app in H. tauto.
  Qed.

  (* ------------------------------------------------------------------ the sorted-list spec *)
  Lemma ins_sorted_pre : forall e l1 l2, (forall x, In x l1 -> (rank x < rank e)%Z) ->
    ins_sorted rank e (l1 ++ l2) = l1 ++ ins_sorted rank e l2.
  Proof.
    induction l1 as [|a l1 IH]; intros l2 H; cbn [app BTreeSpec.ins_sorted]; auto.
    destruct (Z.ltb_spec (rank e) (rank a)).
    - specialize (H a (or_introl eq_refl)). lia.
    - f_equal. apply IH. intros x Hx. apply H. right. assumption.
  Qed.

  Lemma ins_sorted_post : forall e l1 l2, (forall x, In x l2 -> (rank e < rank x)%Z) ->
    ins_sorted rank e (l1 ++ l2) = ins_sorted rank e l1 ++ l2.
  Proof.
    induction l1 as [|a l1 IH]; intros l2 H; cbn [app BTreeSpec.ins_sorted].
    - destruct l2 as [|b l2]; cbn [app BTreeSpec.ins_sorted]; auto.
      destruct (Z.ltb_spec (rank e) (rank b)); auto.
      specialize (H b (or_introl eq_refl)). lia.
    - destruct (Z.ltb_spec (rank e) (rank a)); cbn [app]; auto.
      f_equal. apply IH. assumption.
  Qed.

  Lemma ins_sorted_sandwich : forall e l1 m l2,
    (forall x, In x l1 -> (rank x < rank e)%Z) -> (forall x, In x l2 -> (rank e < rank x)%Z) ->
    ins_sorted rank e (l1 ++ m ++ l2) = l1 ++ ins_sorted rank e m ++ l2.
  Proof.
    intros. rewrite ins_sorted_pre by assumption. rewrite ins_sorted_post by assumption. reflexivity.
  Qed.

  Lemma in_ins_sorted : forall e l x, In x (ins_sorted rank e l) <-> x = e \/ In x l.
  Proof.
    induction l as [|a l IH]; intros x; cbn [BTreeSpec.ins_sorted].
    - cbn [In]. intuition (subst; auto).
    - destruct (rank e <? rank a)%Z; cbn [In].
      + intuition (subst; auto).
      + rewrite IH. intuition (subst; auto).
  Qed.

  Lemma length_ins_sorted : forall e l, length (ins_sorted rank e l) = S (length l).
  Proof.
    induction l as [|a l IH]; cbn [BTreeSpec.ins_sorted]; auto.
    destruct (rank e <? rank a)%Z; cbn [length]; auto.
  Qed.

  Lemma asc_ins_sorted : forall e l, asc l -> (forall x, In x l -> rank x <> rank e) ->
    asc (ins_sorted rank e l).
  Proof.
    induction l as [|a l IH]; intros Ha Hne; cbn [BTreeSpec.ins_sorted].
    - cbn. split; [intros b []|trivial].
    - destruct Ha as [H1 H2]. destruct (Z.ltb_spec (rank e) (rank a)).
      + cbn [BTreeSpec.asc]. repeat split; auto.
        intros b [<-|Hb]; auto. specialize (H1 _ Hb). lia.
      + cbn [BTreeSpec.asc]. split.
        * intros b Hb. apply in_ins_sorted in Hb as [->|Hb]; auto.
          specialize (Hne a (or_introl eq_refl)). lia.
        * apply IH; auto. intros x Hx. apply Hne. right. assumption.
  Qed.

  Lemma set_find_none : forall l k, (forall x, In x l -> rank x <> k) -> set_find rank l k = None.
  Proof.
    induction l as [|a l IH]; intros k H; cbn; auto.
    destruct (Z.eqb_spec (rank a) k) as [E|E].
    - exfalso. apply (H a); cbn; auto.
    - apply IH. intros x Hx. apply H. right. assumption.
  Qed.

  Lemma set_find_some : forall l k x, In x l -> rank x = k -> exists y, set_find rank l k = Some y.
  Proof.
    induction l as [|a l IH]; intros k x Hx E; cbn in *; [contradiction|].
    destruct (Z.eqb_spec (rank a) k) as [E'|E']; eauto.
    destruct Hx as [->|Hx]; [contradiction|]. eapply IH; eauto.
  Qed.

  (* ------------------------------------------------------------------ zix_btree_split_child *)
  Lemma leaf_eq_vals : forall a b : node, is_leaf a = is_leaf b ->
    max_vals L I a = max_vals L I b /\ min_vals L I a = min_vals L I b.
  Proof. intros a b H. unfold min_vals, max_vals. rewrite H. auto. Qed.

  (* the two halves of a full page *)
  Lemma split_node_spec : forall h n l m r,
    kids_ok L I h n -> n_vals n = max_vals L I n ->
    split_node dflt L I n = (l, m, r) ->
    elements n = elements l ++ m :: elements r /\ wfn L I h l /\ wfn L I h r /\
    is_leaf l = is_leaf n /\ is_leaf r = is_leaf n /\
    n_vals l = max_vals L I n / 2 /\ n_vals r = max_vals L I n - max_vals L I n / 2 - 1 /\
    In m (vals n).
  Proof.
    intros h [vs|vs cs] l m r Hk Hf E; unfold split_node in E; cbv beta iota zeta in E;
      apply pair_equal_spec in E as [E <-]; apply pair_equal_spec in E as [<- <-];
      unfold n_vals in *; cbn [max_vals is_leaf vals] in *;
      (destruct h as [|h]; [contradiction|]).
    - cbn [kids_ok] in Hk. subst h.
      rewrite (firstn_all2 (skipn (length vs / 2 + 1) vs)) by (rewrite skipn_length; lia).
      replace (length vs / 2 + 1) with (S (length vs / 2)) by lia.
      cbn [elements wfn is_leaf vals]. rewrite skipn_length, firstn_length. unfold minL.
      repeat split; try lia.
      + apply firstn_skipn_nth. lia.
      + apply nth_In. lia.
    - destruct Hk as (Hh & Hl & Hfa).
      rewrite (firstn_all2 (skipn (length vs / 2 + 1) vs)) by (rewrite skipn_length; lia).
      rewrite (firstn_all2 (skipn (length vs / 2 + 1) cs)) by (rewrite skipn_length; lia).
      replace (length vs / 2 + 1) with (S (length vs / 2)) by lia.
      set (k := length vs / 2) in *. assert (Hk : k < length vs) by (unfold k; lia).
      cbn [wfn is_leaf vals]. rewrite !skipn_length, !firstn_length. unfold minI.
      repeat split; try lia.
      + rewrite (elements_split _ rank dflt vs cs k) by lia.
        rewrite (elements_split _ rank dflt (firstn k vs) (firstn (S k) cs) k)
          by (rewrite !firstn_length; lia).
        rewrite (post_end _ rank dflt (firstn k vs)) by (rewrite firstn_length; lia). rewrite app_nil_r.
        unfold pre. rewrite !firstn_firstn.
        replace (Nat.min k (S k)) with k by lia. replace (Nat.min k k) with k by lia.
        rewrite nth_firstn_lt by lia.
        unfold post. rewrite (skipn_nth_cons vs k dflt) by lia.
        cbn [elements]. rewrite <- app_assoc. reflexivity.
      + apply Forall_firstn. assumption.
      + apply Forall_skipn. assumption.
      + apply nth_In. lia.
  Qed.

  Lemma max_vals_ge3 : forall n : node, 3 <= max_vals L I n.
  Proof. intros n. unfold max_vals. destruct (is_leaf n); lia. Qed.

  Lemma ainsert_aset : forall (A : Type) (cs : list A) i l r, i < length cs ->
    ainsert (aset cs i l) (i + 1) r = firstn i cs ++ l :: r :: skipn (S i) cs.
  Proof.
    intros A cs i l r H. unfold ainsert. replace (i + 1) with (S i) by lia.
    rewrite skipn_aset by lia. unfold aset.
    rewrite firstn_app, firstn_firstn, firstn_length.
    replace (Nat.min (S i) i) with i by lia. replace (S i - Nat.min i (length cs)) with 1 by lia.
    cbn [firstn]. rewrite <- app_assoc. reflexivity.
  Qed.

  Lemma wfn_in_vals_elements : forall h (n : node) v, wfn L I h n -> In v (vals n) -> In v (elements n).
  Proof.
    intros h [vs|vs cs] v Hw Hv; cbn [vals] in Hv; [exact Hv|].
    destruct h as [|h]; [contradiction|]. destruct Hw as (_ & Hl & _).
    apply (in_vals_elements _ rank dflt); assumption.
  Qed.

  Lemma split_child_spec : forall h vs cs i l m r,
    kids_ok L I (S h) (Inode vs cs) -> i <= length vs ->
    n_vals (nth i cs dnode) = max_vals L I (nth i cs dnode) ->
    split_node dflt L I (nth i cs dnode) = (l, m, r) ->
    let cs' := firstn i cs ++ l :: r :: skipn (S i) cs in
    split_child dflt L I (Inode vs cs) i = Inode (ainsert vs i m) cs' /\
    elements (Inode (ainsert vs i m) cs') = elements (Inode vs cs) /\
    kids_ok L I (S h) (Inode (ainsert vs i m) cs') /\
    nth i cs' dnode = l /\ nth (i + 1) cs' dnode = r /\
    n_vals l < max_vals L I l /\ n_vals r < max_vals L I r /\
    In m (elements (Inode vs cs)).
  Proof.
    intros h vs cs i l m r Hk Hi Hfull E cs'.
    pose proof (kids_ok_child _ rank dflt L I HI HI3 h vs cs i Hk Hi) as Hc.
    destruct Hk as (Hh & Hl & Hfa).
    destruct (split_node_spec h _ l m r (wfn_kids_ok _ rank dflt L I HI HI3 _ _ Hc) Hfull E)
      as (Hel & Hwl & Hwr & Hll & Hlr & Hnl & Hnr & Hm).
    pose proof (max_vals_ge3 (nth i cs dnode)) as H3.
    destruct (leaf_eq_vals _ _ Hll) as [Hml _]. destruct (leaf_eq_vals _ _ Hlr) as [Hmr _].
    assert (Hfi : length (firstn i cs) = i) by (rewrite firstn_length; lia).
    repeat split.
    - unfold split_child. rewrite E. rewrite ainsert_aset by lia. reflexivity.
    - rewrite (elements_split _ rank dflt vs cs i) by lia. rewrite Hel.
      unfold pre, post, cs', ainsert. cbn [elements]. rewrite map_app. cbn [map].
      rewrite (inter_app _ rank dflt) by (rewrite map_length, !firstn_length; lia).
      f_equal. cbn [inter]. destruct (skipn i vs) as [|v vs'].
      + rewrite app_nil_r. reflexivity.
      + rewrite <- app_assoc. reflexivity.
    - assumption.
    - unfold cs'. rewrite app_length. cbn [length]. rewrite length_ainsert by lia.
      rewrite firstn_length, skipn_length. lia.
    - unfold cs'. apply Forall_app. split; [apply Forall_firstn; assumption|].
      constructor; [assumption|]. constructor; [assumption|]. apply Forall_skipn. assumption.
    - unfold cs'. rewrite app_nth2 by lia. rewrite Hfi. replace (i - i) with 0 by lia. reflexivity.
    - unfold cs'. rewrite app_nth2 by lia. rewrite Hfi. replace (i + 1 - i) with 1 by lia. reflexivity.
    - lia.
    - lia.
    - apply (in_child_elements _ rank dflt vs cs i); try assumption.
      eapply wfn_in_vals_elements; eassumption.
  Qed.

  (* the same in terms of split_child alone *)
  Lemma split_child_correct : forall h vs cs i,
    kids_ok L I (S h) (Inode vs cs) -> i <= length vs -> is_full L I (nth i cs dnode) = true ->
    let n' := split_child dflt L I (Inode vs cs) i in
    elements n' = elements (Inode vs cs) /\ kids_ok L I (S h) n' /\
    n_vals n' = S (length vs) /\ is_leaf n' = false /\ height n' = S h.
  Proof.
    intros h vs cs i Hk Hi Efull n'. unfold n'.
    assert (Hfull : n_vals (nth i cs dnode) = max_vals L I (nth i cs dnode))
      by (unfold is_full in Efull; apply Nat.eqb_eq in Efull; exact Efull).
    destruct (split_node dflt L I (nth i cs dnode)) as [[l m] r] eqn:Esp.
    pose proof (split_child_spec h vs cs i l m r Hk Hi Hfull Esp) as Hs. cbv zeta in Hs.
    destruct Hs as (Hsc & Hel & Hk1 & _). rewrite Hsc.
    split; [assumption|]. split; [assumption|]. split; [|split; [reflexivity|]].
    - unfold n_vals. cbn [vals]. apply length_ainsert. lia.
    - apply (kids_ok_height _ rank dflt L I HI HI3). assumption.
  Qed.

  (* ------------------------------------------------------------------ zix_btree_insert: the descent *)
  (* what a status says about the listing before and after *)
  Definition ins_rel (e : elt) (st : status) (old new : list elt) : Prop :=
    match st with
    | SUCCESS => (forall x, In x old -> rank x <> rank e) /\ new = ins_sorted rank e old
    | EXISTS => (exists x, In x old /\ rank x = rank e) /\ new = old
    | NO_MEM => new = old
    | _ => False
    end.

  Lemma ins_rel_lift : forall e st l1 m m' l2,
    (forall x, In x l1 -> (rank x < rank e)%Z) -> (forall x, In x l2 -> (rank e < rank x)%Z) ->
    ins_rel e st m m' -> ins_rel e st (l1 ++ m ++ l2) (l1 ++ m' ++ l2).
  Proof.
    intros e st l1 m m' l2 H1 H2 H. destruct st; cbn [ins_rel] in *; try contradiction.
    - destruct H as [Hne ->]. split; [|symmetry; apply ins_sorted_sandwich; assumption].
      intros x Hx. apply in_app_or in Hx as [Hx|Hx]; [specialize (H1 _ Hx); lia|].
      apply in_app_or in Hx as [Hx|Hx]; [auto|specialize (H2 _ Hx); lia].
    - subst. reflexivity.
    - destruct H as [[x [Hx E]] ->]. split; [|reflexivity]. exists x. split; auto.
      apply in_or_app. right. apply in_or_app. auto.
  Qed.

  (* postcondition of insert_down on a subtree of height f *)
  Definition post_ok (f : nat) (e : elt) (n : node) (o : list bool)
             (res : status * node * list bool * list elt) : Prop :=
    let '(st, n', o', lg) := res in
    kids_ok L I f n' /\ is_leaf n' = is_leaf n /\ n_vals n <= n_vals n' <= max_vals L I n' /\
    ins_rel e st (elements n) (elements n') /\
    (forall b, In b o' -> In b o) /\ ((forall b, In b o -> b = true) -> st <> NO_MEM) /\
    (forall x, In x lg -> In x (elements n)).

  Lemma post_ok_transfer : forall f e n n1 o o1 res,
    elements n1 = elements n -> is_leaf n1 = is_leaf n -> n_vals n <= n_vals n1 ->
    (forall b, In b o1 -> In b o) ->
    post_ok f e n1 o1 res -> post_ok f e n o res.
  Proof.
    intros f e n n1 o o1 [[[st n'] o'] lg] Hel Hleaf Hn Ho (H1 & H2 & H3 & H4 & H5 & H6 & H7).
    unfold post_ok. rewrite <- Hel, <- Hleaf.
    split; [|split; [|split; [|split; [|split; [|split]]]]]; auto; try lia.
  Qed.

  Lemma alloc_spec : forall o ok o1, alloc o = (ok, o1) ->
    (forall b, In b o1 -> In b o) /\ ((forall b, In b o -> b = true) -> ok = true).
  Proof.
    intros [|b o] ok o1 E; cbn in E; injection E as <- <-; split; auto.
    - intros b0 Hb. right. assumption.
    - intros H. apply H. left. reflexivity.
  Qed.

  Lemma descend_bounds : forall e vs cs i, length cs = S (length vs) -> i <= length vs ->
    asc (elements (Inode vs cs)) ->
    (forall j, j < i -> cmpk rank e (nth j vs dflt) = Lt) ->
    (forall j, i <= j < length vs -> cmpk rank e (nth j vs dflt) = Gt) ->
    (forall x, In x (pre vs cs i) -> (rank x < rank e)%Z) /\
    (forall x, In x (post vs cs i) -> (rank e < rank x)%Z).
  Proof.
    intros e vs cs i Hl Hi Ha Hlt Hgt.
    pose proof (cmpk_mono _ rank dflt e _ Ha) as Hm.
    split; intros x Hx.
    - apply (cmpk_Lt _ rank dflt). apply (sep_pre _ rank dflt (cmpk rank e) vs cs i); assumption.
    - apply (cmpk_Gt _ rank dflt). apply (sep_post_gt _ rank dflt (cmpk rank e) vs cs i); assumption.
  Qed.

  (* going down into child i and putting the rebuilt child back *)
  Lemma descend : forall f e vs cs i o st c' o' lg lg0,
    kids_ok L I (S f) (Inode vs cs) -> length vs <= I -> asc (elements (Inode vs cs)) ->
    i <= length vs ->
    (forall j, j < i -> cmpk rank e (nth j vs dflt) = Lt) ->
    (forall j, i <= j < length vs -> cmpk rank e (nth j vs dflt) = Gt) ->
    (forall x, In x lg0 -> In x (elements (Inode vs cs))) ->
    post_ok f e (nth i cs dnode) o (st, c', o', lg) ->
    post_ok (S f) e (Inode vs cs) o (st, Inode vs (aset cs i c'), o', lg0 ++ lg).
  Proof.
    intros f e vs cs i o st c' o' lg lg0 Hk HvI Ha Hi Hlt Hgt Hlg0 Hp.
    pose proof (kids_ok_child _ rank dflt L I HI HI3 f vs cs i Hk Hi) as Hc.
    destruct Hk as (Hf & Hl & Hfa).
    destruct (descend_bounds e vs cs i Hl Hi Ha Hlt Hgt) as [Hpre Hpost].
    destruct Hp as (Hk' & Hleaf & Hn & Hrel & Ho & Hnm & Hlg).
    unfold post_ok. split; [|split; [|split; [|split; [|split; [|split]]]]]; auto.
    - cbn [kids_ok]. split; [assumption|]. split; [rewrite length_aset; lia|].
      apply (Forall_aset _ rank dflt L I HI HI3); [assumption|].
      apply (wfn_iff _ rank dflt L I HI HI3). split; [assumption|].
      apply (wfn_iff _ rank dflt L I HI HI3) in Hc. destruct (leaf_eq_vals _ _ Hleaf) as [Hmx Hmn]. lia.
    - rewrite (elements_aset _ rank dflt) by lia. rewrite (elements_split _ rank dflt vs cs i) by lia.
      apply ins_rel_lift; assumption.
    - intros x Hx. apply in_app_or in Hx as [Hx|Hx]; [auto|].
      apply (in_child_elements _ rank dflt vs cs i); auto.
  Qed.

  Lemma not_full_lt : forall h (c : node), wfn L I h c -> is_full L I c = false ->
    n_vals c < max_vals L I c.
  Proof.
    intros h c Hw Hf. apply (wfn_iff _ rank dflt L I HI HI3) in Hw. destruct Hw as [_ Hw].
    unfold is_full in Hf. apply Nat.eqb_neq in Hf. lia.
  Qed.

  Lemma insert_down_spec : forall f o n e,
    kids_ok L I f n -> n_vals n < max_vals L I n -> asc (elements n) ->
    post_ok f e n o (insert_down rank dflt L I f o n e).
  Proof.
    induction f as [|f IH]; intros o n e Hk Hnf Ha; [destruct n; destruct Hk|].
    destruct n as [vs|vs cs]; cbn [insert_down].
    - (* leaf *)
      cbn [elements] in Ha.
      pose proof (find_value_spec _ rank dflt (cmpk rank e) vs (cmpk_mono _ rank dflt e vs Ha)) as Hfv.
      destruct (find_value dflt (cmpk rank e) vs) as [[i eq] lg] eqn:Efv.
      destruct Hfv as (Hi & Ht & Hff & Hlg & _).
      unfold n_vals, max_vals in Hnf. cbn [vals is_leaf] in Hnf.
      destruct eq.
      + destruct (Ht eq_refl) as [Hi' Heq].
        unfold post_ok. split; [|split; [|split; [|split; [|split; [|split]]]]]; auto; try discriminate.
        * unfold n_vals, max_vals. cbn [vals is_leaf]. lia.
        * cbn [ins_rel elements]. split; [|reflexivity]. exists (nth i vs dflt). split.
          -- apply nth_In. assumption.
          -- apply (cmpk_Eq _ rank dflt). assumption.
      + destruct (Hff eq_refl) as [Hlt Hgt].
        unfold post_ok. split; [|split; [|split; [|split; [|split; [|split]]]]]; auto; try discriminate.
        * unfold n_vals, max_vals. cbn [vals is_leaf]. rewrite length_ainsert by lia. lia.
        * cbn [ins_rel elements]. split.
          -- intros x Hx. apply (In_nth _ _ dflt) in Hx as [j [Hj <-]].
             destruct (Nat.lt_ge_cases j i) as [Hji|Hji].
             ++ pose proof (proj1 (cmpk_Lt _ rank dflt e _) (Hlt j Hji)). lia.
             ++ pose proof (proj1 (cmpk_Gt _ rank dflt e _) (Hgt j (conj Hji Hj))). lia.
          -- transitivity (ins_sorted rank e (firstn i vs ++ [] ++ skipn i vs));
               [|cbn [app]; rewrite firstn_skipn; reflexivity].
             rewrite ins_sorted_sandwich; [reflexivity| |].
             ++ intros x Hx. apply (In_firstn_nth _ _ _ _ dflt) in Hx as [j [Hj [Hj' <-]]].
                apply (cmpk_Lt _ rank dflt). apply Hlt. assumption.
             ++ intros x Hx. apply (In_skipn_nth _ _ _ _ dflt) in Hx as [j [Hj <-]].
                apply (cmpk_Gt _ rank dflt). apply Hgt. assumption.
    - (* internal page *)
      pose proof Hk as (Hf0 & Hl & Hfa).
      unfold n_vals, max_vals in Hnf. cbn [vals is_leaf] in Hnf.
      assert (Hav : asc vs) by (apply (asc_vals _ rank dflt vs cs); assumption).
      pose proof (find_value_spec _ rank dflt (cmpk rank e) vs (cmpk_mono _ rank dflt e vs Hav)) as Hfv.
      destruct (find_value dflt (cmpk rank e) vs) as [[i eq] lg] eqn:Efv.
      destruct Hfv as (Hi & Ht & Hff & Hlg & _).
      assert (Hlg' : forall x, In x lg -> In x (elements (Inode vs cs)))
        by (intros x Hx; apply (in_vals_elements _ rank dflt); auto).
      destruct eq.
      + destruct (Ht eq_refl) as [Hi' Heq].
        unfold post_ok. split; [|split; [|split; [|split; [|split; [|split]]]]]; auto; try discriminate.
        * unfold n_vals, max_vals. cbn [vals is_leaf]. lia.
        * cbn [ins_rel]. split; [|reflexivity]. exists (nth i vs dflt). split.
          -- apply (in_vals_elements _ rank dflt); auto. apply nth_In. assumption.
          -- apply (cmpk_Eq _ rank dflt). assumption.
      + destruct (Hff eq_refl) as [Hlt Hgt].
        pose proof (kids_ok_child _ rank dflt L I HI HI3 f vs cs i Hk Hi) as Hc.
        destruct (is_full L I (nth i cs dnode)) eqn:Efull.
        * (* pre-emptive split *)
          destruct (alloc o) as [ok o1] eqn:Eal. destruct (alloc_spec _ _ _ Eal) as [Ho1 Hok].
          destruct ok; cbn [negb].
          2:{ unfold post_ok. split; [|split; [|split; [|split; [|split; [|split]]]]]; auto.
              - unfold n_vals, max_vals. cbn [vals is_leaf]. lia.
              - cbn [ins_rel]. reflexivity.
              - intros Hall. specialize (Hok Hall). discriminate. }
          assert (Hfull : n_vals (nth i cs dnode) = max_vals L I (nth i cs dnode))
            by (unfold is_full in Efull; apply Nat.eqb_eq in Efull; exact Efull).
          destruct (split_node dflt L I (nth i cs dnode)) as [[l m] r] eqn:Esp.
          pose proof (split_child_spec f vs cs i l m r Hk Hi Hfull Esp) as Hs. cbv zeta in Hs.
          destruct Hs as (Hsc & Hel & Hk1 & Hni & Hni1 & Hlnf & Hrnf & Hm).
          rewrite Hsc. unfold child. cbn [vals children set_child].
          rewrite nth_ainsert_eq by lia.
          set (vs1 := ainsert vs i m) in *.
          set (cs1 := firstn i cs ++ l :: r :: skipn (S i) cs) in *.
          assert (Hlv1 : length vs1 = S (length vs)) by (unfold vs1; apply length_ainsert; lia).
          assert (Ha1 : asc (elements (Inode vs1 cs1))) by (rewrite Hel; assumption).
          assert (Htr : forall res, post_ok (S f) e (Inode vs1 cs1) o1 res ->
                                    post_ok (S f) e (Inode vs cs) o res).
          { intros res. apply post_ok_transfer; auto. unfold n_vals. cbn [vals]. lia. }
          assert (Hlgm : forall x, In x (lg ++ [m]) -> In x (elements (Inode vs1 cs1))).
          { intros x Hx. rewrite Hel. apply in_app_or in Hx as [Hx|[<-|[]]]; auto. }
          destruct (cmpk rank e m) eqn:Ecm.
          -- (* the separator is the key *)
             apply Htr. unfold post_ok.
             split; [|split; [|split; [|split; [|split; [|split]]]]]; auto; try discriminate.
             ++ unfold n_vals, max_vals. cbn [vals is_leaf]. lia.
             ++ cbn [ins_rel]. split; [|reflexivity]. exists m. split.
                ** rewrite Hel. assumption.
                ** apply (cmpk_Eq _ rank dflt). assumption.
          -- (* separator below the key: right half *)
             assert (Hi1 : i + 1 <= length vs1) by lia.
             pose proof (kids_ok_child _ rank dflt L I HI HI3 f vs1 cs1 (i + 1) Hk1 Hi1) as Hc1.
             pose proof (IH o1 (nth (i + 1) cs1 dnode) e
                            (wfn_kids_ok _ rank dflt L I HI HI3 _ _ Hc1)
                            ltac:(rewrite Hni1; exact Hrnf)
                            (asc_child _ rank dflt vs1 cs1 (i + 1) (proj1 (proj2 Hk1)) Hi1 Ha1)) as Hp.
             destruct (insert_down rank dflt L I f o1 (nth (i + 1) cs1 dnode) e) as [[[st c'] o2] lg2].
             apply Htr. replace (lg ++ m :: lg2) with ((lg ++ [m]) ++ lg2)
               by (rewrite <- app_assoc; reflexivity).
             apply descend; auto; try lia.
             ++ intros j Hj. destruct (Nat.eq_dec j i) as [->|Hne].
                ** unfold vs1. rewrite nth_ainsert_eq by lia. assumption.
                ** unfold vs1. rewrite nth_ainsert_lt by lia. apply Hlt. lia.
             ++ intros j Hj. unfold vs1. rewrite nth_ainsert_gt by lia. apply Hgt. lia.
          -- (* separator above the key: left half *)
             assert (Hi1 : i <= length vs1) by lia.
             pose proof (kids_ok_child _ rank dflt L I HI HI3 f vs1 cs1 i Hk1 Hi1) as Hc1.
             pose proof (IH o1 (nth i cs1 dnode) e
                            (wfn_kids_ok _ rank dflt L I HI HI3 _ _ Hc1)
                            ltac:(rewrite Hni; exact Hlnf)
                            (asc_child _ rank dflt vs1 cs1 i (proj1 (proj2 Hk1)) Hi1 Ha1)) as Hp.
             destruct (insert_down rank dflt L I f o1 (nth i cs1 dnode) e) as [[[st c'] o2] lg2].
             apply Htr. replace (lg ++ m :: lg2) with ((lg ++ [m]) ++ lg2)
               by (rewrite <- app_assoc; reflexivity).
             apply descend; auto; try lia.
             ++ intros j Hj. unfold vs1. rewrite nth_ainsert_lt by lia. apply Hlt. lia.
             ++ intros j Hj. destruct (Nat.eq_dec j i) as [->|Hne].
                ** unfold vs1. rewrite nth_ainsert_eq by lia. assumption.
                ** unfold vs1. rewrite nth_ainsert_gt by lia. apply Hgt. lia.
        * (* the child has room *)
          pose proof (IH o (nth i cs dnode) e (wfn_kids_ok _ rank dflt L I HI HI3 _ _ Hc)
                         (not_full_lt _ _ Hc Efull)
                         (asc_child _ rank dflt vs cs i Hl Hi Ha)) as Hp.
          destruct (insert_down rank dflt L I f o (nth i cs dnode) e) as [[[st c'] o2] lg2].
          apply descend; auto; lia.
  Qed.

  (* what post_ok says in plain words *)
  Lemma post_ok_status : forall f e n o st n' o' lg, post_ok f e n o (st, n', o', lg) ->
    (st = SUCCESS \/ st = EXISTS \/ st = NO_MEM) /\
    (st <> NO_MEM -> (st = EXISTS <-> exists x, In x (elements n) /\ rank x = rank e)) /\
    elements n' = (match st with SUCCESS => ins_sorted rank e (elements n) | _ => elements n end) /\
    height n' = f.
  Proof.
    intros f e n o st n' o' lg (Hk & _ & _ & Hrel & _).
    pose proof (kids_ok_height _ rank dflt L I HI HI3 _ _ Hk) as Hh.
    destruct st; cbn [ins_rel] in Hrel; try contradiction.
    - destruct Hrel as [Hne ->]. split; [auto|]. split; [|auto]. intros _. split; [discriminate|].
      intros [x [Hx Ex]]. exfalso. apply (Hne x); assumption.
    - split; [auto|]. split; [|auto]. intros H. contradiction.
    - destruct Hrel as [Hex ->]. split; [auto|]. split; [|auto]. intros _. split; auto.
  Qed.

End Insert.

(* ---------------------------------------------------------------------- the top level: grow_up and insert
   (H = ZIX_BTREE_MAX_HEIGHT enters here only) *)
Section InsertTop.
  Variable elt : Type.  Variable rank : elt -> Z.  Variable dflt : elt.  Variables L I : nat.
  Hypothesis HI : I = L / 2.  Hypothesis HI3 : 3 <= I.
  Variable H : nat.
  Notation node := (node elt).  Notation tree := (tree elt).  Notation dnode := (@dnode elt).
  Notation asc := (@asc elt rank).
  Notation ins_sorted := (@ins_sorted elt).
  Notation set_find := (@set_find elt).
  Notation set_insert := (@set_insert elt).
  Local Notation P7 l := (l elt rank dflt L I HI HI3) (only parsing).

  (* ------------------------------------------------------------------ zix_btree_grow_up *)
  Lemma grow_up_spec : forall h o r st r' o',
    root_ok L I h r -> is_full L I r = true ->
    grow_up dflt L I H o r = (st, r', o') ->
    (forall b, In b o' -> In b o) /\ ((forall b, In b o -> b = true) -> st = SUCCESS \/ st = OVERFLOW) /\
    ((st = NO_MEM /\ r' = r) \/
     (st = OVERFLOW /\ r' = r /\ o' = o /\ H <= height r) \/
     (st = SUCCESS /\ height r < H /\ kids_ok L I (S h) r' /\ n_vals r' = 1 /\ is_leaf r' = false /\
      height r' = S (height r) /\ elements r' = elements r)).
  Proof.
    intros h o r st r' o' (Hk & Hn & Hge) Efull E. unfold grow_up in E.
    destruct (H <=? height r) eqn:EH.
    { apply pair_equal_spec in E as [E <-]. apply pair_equal_spec in E as [<- <-].
      apply Nat.leb_le in EH. split; [auto|]. split; [auto|]. right. left. auto. }
    apply Nat.leb_gt in EH.
    destruct (alloc o) as [ok1 o1] eqn:E1. destruct (P7 alloc_spec _ _ _ E1) as [Ho1 Hok1].
    destruct ok1; cbn [negb] in E.
    2:{ apply pair_equal_spec in E as [E <-]. apply pair_equal_spec in E as [<- <-].
        split; [assumption|]. split; [|left; auto]. intros Hall. specialize (Hok1 Hall). discriminate. }
    destruct (alloc o1) as [ok2 o2] eqn:E2. destruct (P7 alloc_spec _ _ _ E2) as [Ho2 Hok2].
    destruct ok2; cbn [negb] in E.
    2:{ apply pair_equal_spec in E as [E <-]. apply pair_equal_spec in E as [<- <-].
        split; [auto|]. split; [|left; auto]. intros Hall.
        assert (Hall1 : forall b, In b o1 -> b = true) by auto. specialize (Hok2 Hall1). discriminate. }
    apply pair_equal_spec in E as [E <-]. apply pair_equal_spec in E as [<- <-].
    split; [auto|]. split; [auto|]. right. right.
    assert (Hfull : n_vals r = max_vals L I r)
      by (unfold is_full in Efull; apply Nat.eqb_eq in Efull; exact Efull).
    assert (Hh : h <> 0) by (intros ->; destruct r; destruct Hk).
    assert (Hw : wfn L I h r).
    { apply (wfn_iff _ rank dflt L I HI HI3). split; [assumption|].
      pose proof (min_max_vals _ rank dflt L I HI HI3 r). lia. }
    assert (Hkp : kids_ok L I (S h) (Inode [] [r])).
    { cbn [kids_ok]. split; [assumption|]. split; [reflexivity|]. constructor; [assumption|constructor]. }
    destruct (split_node dflt L I r) as [[l m] rr] eqn:Esp.
    pose proof (P7 split_child_spec h [] [r] 0 l m rr Hkp (Nat.le_refl 0) Hfull Esp) as Hs. cbv zeta in Hs.
    destruct Hs as (Hsc & Hel & Hk1 & _).
    rewrite Hsc.
    pose proof (kids_ok_height _ rank dflt L I HI HI3 _ _ Hk1) as Hh1.
    pose proof (kids_ok_height _ rank dflt L I HI HI3 _ _ Hk) as Hh0.
    split; [reflexivity|]. split; [assumption|]. split; [assumption|]. split; [reflexivity|]. split; [reflexivity|].
    split; [rewrite Hh1, Hh0; reflexivity|].
    rewrite Hel. cbn [elements map inter]. reflexivity.
  Qed.

  (* ------------------------------------------------------------------ zix_btree_insert *)
  Definition insert_post (t : tree) (e : elt) (o : list bool)
             (res : status * tree * list bool * list elt) : Prop :=
    let '(st, t', o', lg) := res in
    Inv rank L I t' /\
    (st = SUCCESS \/ st = EXISTS \/ st = NO_MEM \/ st = OVERFLOW) /\
    (st <> NO_MEM -> st <> OVERFLOW -> (st, elements (root t')) = set_insert rank (elements (root t)) e) /\
    (st = NO_MEM -> elements (root t') = elements (root t)) /\
    ((forall b, In b o -> b = true) -> st <> NO_MEM) /\
    (forall x, In x lg -> In x (elements (root t))) /\
    (st = OVERFLOW -> t' = t /\ o' = o /\ lg = [] /\ is_full L I (root t) = true /\ H <= height (root t)) /\
    (height (root t) <= H -> height (root t') <= H).

  Lemma insert_finish : forall h0 o o0 t r0 e,
    asc (elements (root t)) -> size t = Z.of_nat (length (elements (root t))) ->
    kids_ok L I h0 r0 -> n_vals r0 < max_vals L I r0 -> (is_leaf r0 = false -> 1 <= n_vals r0) ->
    elements r0 = elements (root t) -> (forall b, In b o0 -> In b o) ->
    (height (root t) <= H -> height r0 <= H) ->
    insert_post t e o
      (let '(st, r1, o1, lg) := insert_down rank dflt L I (height r0) o0 r0 e in
       (st, mkTree r1 (match st with SUCCESS => Z.succ (size t) | _ => size t end), o1, lg)).
  Proof.
    intros h0 o o0 t r0 e Ha Hsz Hk0 Hnf Hge Hel0 Ho HH.
    rewrite (kids_ok_height _ rank dflt L I HI HI3 h0 r0 Hk0) in *.
    assert (Ha0 : asc (elements r0)) by (rewrite Hel0; assumption).
    pose proof (P7 insert_down_spec h0 o0 r0 e Hk0 Hnf Ha0) as Hp.
    destruct (insert_down rank dflt L I h0 o0 r0 e) as [[[st r1] o1] lg].
    destruct Hp as (Hk1 & Hleaf & Hn & Hrel & Ho1 & Hnm & Hlg).
    rewrite Hel0 in Hrel, Hlg.
    assert (Hroot : exists h, root_ok L I h r1).
    { exists h0. unfold root_ok. split; [assumption|]. split; [lia|].
      intros Hl. rewrite Hleaf in Hl. specialize (Hge Hl). lia. }
    assert (Hor : (forall b, In b o -> b = true) -> st <> NO_MEM) by (intros Hall; apply Hnm; auto).
    assert (Hht : height (root t) <= H -> height r1 <= H).
    { intros Hle. rewrite (kids_ok_height _ rank dflt L I HI HI3 h0 r1 Hk1). auto. }
    unfold insert_post, Inv. cbn [root size].
    destruct st; cbn [ins_rel] in Hrel; try contradiction.
    - destruct Hrel as [Hne Hel1]. rewrite Hel1.
      split; [split; [assumption|split]|].
      + apply (P7 asc_ins_sorted); assumption.
      + rewrite (P7 length_ins_sorted). lia.
      + split; [auto|]. split; [|split; [discriminate|split; [assumption|split; [assumption|split; [discriminate|assumption]]]]].
        intros _ _. unfold BTreeSpec.set_insert. rewrite (P7 set_find_none) by assumption. reflexivity.
    - rewrite Hrel.
      split; [split; [assumption|split; assumption]|].
      split; [auto|]. split; [intros Hc; contradiction|]. split; [reflexivity|].
      split; [assumption|split; [assumption|split; [discriminate|assumption]]].
    - destruct Hrel as [[x [Hx Ex]] Hel1]. rewrite Hel1.
      split; [split; [assumption|split; assumption]|].
      split; [auto|]. split; [|split; [discriminate|split; [assumption|split; [assumption|split; [discriminate|assumption]]]]].
      intros _ _. unfold BTreeSpec.set_insert.
      destruct (P7 set_find_some _ _ x Hx Ex) as [y ->]. reflexivity.
  Qed.

  Lemma insert_refines' : forall o t e, Inv rank L I t ->
    insert_post t e o (insert rank dflt L I H o t e).
  Proof.
    intros o t e [[h Hr] [Ha Hsz]]. unfold insert.
    pose proof Hr as (Hk & Hn & Hge).
    destruct (is_full L I (root t)) eqn:Efull.
    - destruct (grow_up dflt L I H o (root t)) as [[st0 r0] o0] eqn:Eg.
      destruct (grow_up_spec h o (root t) st0 r0 o0 Hr Efull Eg)
        as (Ho & Hok & [[-> ->]|[(-> & -> & -> & HH)|(-> & HH & Hk0 & Hn0 & Hl0 & Hh0 & Hel0)]]).
      + unfold insert_post.
        split; [split; [exists h; assumption|split; assumption]|].
        split; [auto|]. split; [intros Hc; contradiction|]. split; [reflexivity|].
        split; [|split; [intros x []|split; [discriminate|auto]]].
        intros Hall. destruct (Hok Hall); discriminate.
      + unfold insert_post.
        split; [split; [exists h; assumption|split; assumption]|].
        split; [auto|]. split; [intros _ Hc; contradiction|]. split; [discriminate|].
        split; [discriminate|]. split; [intros x []|]. split; [auto 6|auto].
      + apply (insert_finish (S h)); auto.
        * rewrite Hn0. unfold max_vals. rewrite Hl0. lia.
        * intros _. lia.
        * intros _. lia.
    - apply (insert_finish h); auto.
      unfold is_full in Efull. apply Nat.eqb_neq in Efull. lia.
  Qed.

  Theorem insert_refines : forall o t e, Inv rank L I t ->
    let '(st, t', o', lg) := insert rank dflt L I H o t e in
    Inv rank L I t' /\
    (st = SUCCESS \/ st = EXISTS \/ st = NO_MEM \/ st = OVERFLOW) /\
    (st <> NO_MEM -> st <> OVERFLOW -> (st, elements (root t')) = set_insert rank (elements (root t)) e) /\
    (st = NO_MEM -> elements (root t') = elements (root t)) /\
    ((forall b, In b o -> b = true) -> st <> NO_MEM) /\
    (forall x, In x lg -> In x (elements (root t))) /\
    (st = OVERFLOW -> t' = t /\ o' = o /\ lg = [] /\ is_full L I (root t) = true /\ H <= height (root t)) /\
    (height (root t) <= H -> height (root t') <= H).
  Proof. exact insert_refines'. Qed.

End InsertTop.
