(* C13: lemmas.  Part 2: the sensitivity theorems on the reference transcription (DigestSpec). *)
From Coq Require Import ZArith List Lia Bool ZifyBool ZifyNat Arith.
From Zix Require Import DigestSpec DigestProofs.
Import ListNotations.
Local Open Scope Z_scope.
Ltac Zify.zify_post_hook ::= Z.div_mod_to_equations.

(* ------------------------------------------------------------------ folds of an injective step *)
Section Fold.
  Variable step : Z -> Z -> Z.
  Variable R : Z -> Prop.
  Hypothesis step_range : forall h k, R (step h k).
  Hypothesis step_inj_h : forall k h h', R h -> R h' -> step h k = step h' k -> h = h'.

  Lemma fold_range : forall ks h, R h -> R (fold_left step ks h).
  Proof. induction ks as [|k ks IH]; intros h Hh; cbn; auto. Qed.

  Lemma fold_inj : forall ks h h', R h -> R h' ->
    fold_left step ks h = fold_left step ks h' -> h = h'.
  Proof.
    induction ks as [|k ks IH]; intros h h' Hh Hh' H; cbn in H; auto.
    apply IH in H; auto. eapply step_inj_h; eauto.
  Qed.
End Fold.

(* ------------------------------------------------------------------ little-endian words *)

Lemma le_word_range : forall bs, Forall byte bs -> 0 <= le_word bs < 256 ^ Z.of_nat (length bs).
Proof.
  induction 1 as [|b r Hb Hr IH]; cbn [le_word length].
  - cbn. lia.
  - rewrite Nat2Z.inj_succ, Z.pow_succ_r by lia. unfold byte in Hb. lia.
Qed.

Lemma le_word_R64 : forall bs, (length bs <= 8)%nat -> Forall byte bs -> R64 (le_word bs).
Proof.
  intros bs Hl Hb. pose proof (le_word_range bs Hb) as [H0 H1]. split; [assumption|].
  eapply Z.lt_le_trans; [exact H1|].
  change (2 ^ 64) with (256 ^ 8). apply Z.pow_le_mono_r; lia.
Qed.

Lemma le_word_R32 : forall bs, (length bs <= 4)%nat -> Forall byte bs -> R32 (le_word bs).
Proof.
  intros bs Hl Hb. pose proof (le_word_range bs Hb) as [H0 H1]. split; [assumption|].
  eapply Z.lt_le_trans; [exact H1|].
  change (2 ^ 32) with (256 ^ 4). apply Z.pow_le_mono_r; lia.
Qed.

Lemma le_word_inj : forall a b, length a = length b -> Forall byte a -> Forall byte b ->
  le_word a = le_word b -> a = b.
Proof.
  induction a as [|x a IH]; intros [|y b] Hl Ha Hb H; cbn in Hl; try discriminate; auto.
  inversion Ha; inversion Hb; subst. cbn [le_word] in H. unfold byte in *.
  assert (x = y /\ le_word a = le_word b) as [-> E] by lia.
  f_equal. apply IH; auto.
Qed.

Lemma le_word_zeros : forall j, le_word (repeat 0 j) = 0.
Proof. induction j; cbn [repeat le_word]; lia. Qed.

Lemma le_word_app_zeros : forall bs j, le_word (bs ++ repeat 0 j) = le_word bs.
Proof.
  induction bs as [|b bs IH]; intro j; cbn [app le_word].
  - apply le_word_zeros.
  - now rewrite IH.
Qed.

Lemma firstn_app_le : forall (w : nat) (l l' : list Z), (w <= length l)%nat ->
  firstn w (l ++ l') = firstn w l.
Proof.
  intros. rewrite firstn_app. replace (w - length l)%nat with 0%nat by lia.
  cbn. apply app_nil_r.
Qed.

Lemma skipn_app_le : forall (w : nat) (l l' : list Z), (w <= length l)%nat ->
  skipn w (l ++ l') = skipn w l ++ l'.
Proof.
  intros. rewrite skipn_app. replace (w - length l)%nat with 0%nat by lia. reflexivity.
Qed.

Lemma skipn_app_exact : forall (a b : nat) (l1 l2 : list Z), length l1 = a ->
  skipn (a + b) (l1 ++ l2) = skipn b l2.
Proof.
  intros a b l1 l2 <-. rewrite skipn_app, skipn_all2 by lia.
  cbn. f_equal. lia.
Qed.

Lemma skipn_app_exact0 : forall (a : nat) (l1 l2 : list Z), length l1 = a ->
  skipn a (l1 ++ l2) = l2.
Proof.
  intros a l1 l2 H. rewrite <- (Nat.add_0_r a), (skipn_app_exact a 0 l1 l2 H). reflexivity.
Qed.

Lemma words_app_enough : forall w n l l', (w * n <= length l)%nat ->
  words w n (l ++ l') = words w n l.
Proof.
  induction n as [|n IH]; intros l l' H; cbn [words]; auto.
  rewrite firstn_app_le, skipn_app_le by lia. f_equal.
  apply IH. rewrite skipn_length. lia.
Qed.

Lemma words_split : forall w i n pre rest, length pre = (w * i)%nat ->
  words w (i + n) (pre ++ rest) = words w i pre ++ words w n rest.
Proof.
  induction i as [|i IH]; intros n pre rest H.
  - rewrite Nat.mul_0_r in H. apply length_zero_iff_nil in H. subst. reflexivity.
  - cbn [Nat.add words app].
    rewrite firstn_app_le, skipn_app_le by lia. f_equal.
    apply IH. rewrite skipn_length. lia.
Qed.

Lemma words_block : forall w k blk post, length blk = w ->
  words w (S k) (blk ++ post) = le_word blk :: words w k post.
Proof.
  intros w k blk post H. cbn [words].
  rewrite firstn_app_le, firstn_all2, skipn_app_le, skipn_all2 by lia. reflexivity.
Qed.

(* ------------------------------------------------------------------ fasthash64 *)

Definition fh_tail (h : Z) (tail : list Z) : Z :=
  match tail with [] => h | t :: T => fh_step h (le_word (t :: T)) end.

Definition fh_h0 (seed : Z) (n : nat) : Z := Z.lxor seed ((Z.of_nat n * fh_m) mod M64).

Definition finish64 (B T : list Z) (h : Z) : Z := fh_mix (fh_tail (fold_left fh_step B h) T).

Lemma fasthash64_unfold : forall seed bytes,
  fasthash64 seed bytes =
  finish64 (words 8 (length bytes / 8) bytes) (skipn (8 * (length bytes / 8)) bytes)
           (fh_h0 seed (length bytes)).
Proof. reflexivity. Qed.

Lemma fh_h0_range : forall seed n, R64 seed -> R64 (fh_h0 seed n).
Proof. intros. apply (lxor_range 64); auto; [lia|apply R64_mod]. Qed.

Lemma fh_fold_range : forall B h, R64 h -> R64 (fold_left fh_step B h).
Proof. apply fold_range. apply fh_step_range. Qed.

Lemma fh_fold_inj : forall B h h', R64 h -> R64 h' ->
  fold_left fh_step B h = fold_left fh_step B h' -> h = h'.
Proof. apply fold_inj; [apply fh_step_range|apply fh_step_inj_h]. Qed.

Lemma fh_tail_range : forall h T, R64 h -> R64 (fh_tail h T).
Proof. intros h [|t T] Hh; cbn; auto. apply fh_step_range. Qed.

Lemma finish64_inj : forall B T h h', R64 h -> R64 h' -> finish64 B T h = finish64 B T h' -> h = h'.
Proof.
  intros B T h h' Hh Hh' H. unfold finish64 in H.
  apply fh_mix_inj in H; try (apply fh_tail_range; apply fh_fold_range; assumption).
  apply (fh_fold_inj B); auto.
  destruct T as [|t T]; cbn [fh_tail] in H; auto.
  apply fh_step_inj_h in H; auto using fh_fold_range.
Qed.

Lemma finish64_app : forall A k B T h,
  finish64 (A ++ k :: B) T h = finish64 B T (fh_step (fold_left fh_step A h) k).
Proof. intros. unfold finish64. rewrite fold_left_app. reflexivity. Qed.

Theorem fasthash64_seed_injective : forall bytes s s', R64 s -> R64 s' ->
  fasthash64 s bytes = fasthash64 s' bytes -> s = s'.
Proof.
  intros bytes s s' Hs Hs' H. rewrite !fasthash64_unfold in H.
  apply finish64_inj in H; auto using fh_h0_range.
  unfold fh_h0 in H. eapply lxor_cancel_r; eauto.
Qed.

Lemma div_block : forall (w i p : nat), (0 < w)%nat -> ((w * i + (w + p)) / w = i + S (p / w))%nat.
Proof.
  intros w i p Hw.
  replace (w * i + (w + p))%nat with (p + (i + 1) * w)%nat by lia.
  rewrite Nat.div_add by lia. lia.
Qed.

Theorem fasthash64_block_injective : forall seed pre blk blk' post i,
  R64 seed -> length pre = (8 * i)%nat -> length blk = 8%nat -> length blk' = 8%nat ->
  Forall byte blk -> Forall byte blk' ->
  fasthash64 seed (pre ++ blk ++ post) = fasthash64 seed (pre ++ blk' ++ post) -> blk = blk'.
Proof.
  intros seed pre blk blk' post i Hs Hpre Hb Hb' Fb Fb' H.
  rewrite !fasthash64_unfold in H. rewrite !app_length, Hpre, Hb, Hb' in H.
  rewrite (div_block 8 i (length post)) in H by lia.
  rewrite !words_split, !words_block in H by assumption.
  replace (8 * (i + S (length post / 8)))%nat with (8 * i + (8 + 8 * (length post / 8)))%nat in H by lia.
  rewrite !(skipn_app_exact (8 * i)) in H by assumption.
  rewrite !(skipn_app_exact 8) in H by assumption.
  rewrite !finish64_app in H.
  apply finish64_inj in H; try apply fh_step_range.
  apply fh_step_inj_v in H; auto using le_word_R64, fh_fold_range, fh_h0_range.
  - apply le_word_inj; auto. lia.
  - apply le_word_R64; auto; lia.
  - apply le_word_R64; auto; lia.
Qed.

Lemma div_exact_small : forall (w q t : nat), (t < w)%nat -> ((w * q + t) / w = q)%nat.
Proof.
  intros w q t H. replace (w * q + t)%nat with (t + q * w)%nat by lia.
  rewrite Nat.div_add by lia. rewrite Nat.div_small by lia. lia.
Qed.

Theorem fasthash64_tail_injective : forall seed pre tl tl' q,
  R64 seed -> length pre = (8 * q)%nat -> length tl = length tl' -> (0 < length tl < 8)%nat ->
  Forall byte tl -> Forall byte tl' ->
  fasthash64 seed (pre ++ tl) = fasthash64 seed (pre ++ tl') -> tl = tl'.
Proof.
  intros seed pre tl tl' q Hs Hpre Hl Ht Fb Fb' H.
  rewrite !fasthash64_unfold in H. rewrite !app_length, Hpre, <- Hl in H.
  rewrite (div_exact_small 8 q (length tl)) in H by lia.
  rewrite !words_app_enough in H by lia.
  rewrite !(skipn_app_exact0 (8 * q)) in H by assumption.
  unfold finish64 in H.
  apply fh_mix_inj in H; try (apply fh_tail_range; apply fh_fold_range; apply fh_h0_range; assumption).
  destruct tl as [|a tl]; [cbn in Ht; lia|]. destruct tl' as [|a' tl']; [discriminate|].
  cbn [fh_tail] in H.
  apply fh_step_inj_v in H; auto using fh_fold_range, fh_h0_range.
  - apply le_word_inj; auto.
  - apply le_word_R64; auto; lia.
  - apply le_word_R64; auto; lia.
Qed.

(* zero-extension that stays inside the (non-empty) tail: everything but the initial length mix is equal *)
Theorem fasthash64_length_sensitive : forall seed bytes j,
  R64 seed -> (0 < j)%nat -> (length bytes mod 8 <> 0)%nat ->
  (length bytes / 8 = (length bytes + j) / 8)%nat -> Z.of_nat (length bytes + j) < 2 ^ 64 ->
  fasthash64 seed bytes <> fasthash64 seed (bytes ++ repeat 0 j).
Proof.
  intros seed bytes j Hs Hj Hr Hq Hlen H.
  rewrite !fasthash64_unfold in H. rewrite app_length, repeat_length, <- Hq in H.
  set (n := length bytes) in *. set (nb := (n / 8)%nat) in *.
  assert (Hnb : (8 * nb <= n)%nat) by (subst nb; lia).
  rewrite words_app_enough in H by assumption.
  rewrite skipn_app_le in H by assumption.
  assert (Tl : length (skipn (8 * nb) bytes) = (n mod 8)%nat) by (rewrite skipn_length; subst nb n; lia).
  destruct (skipn (8 * nb) bytes) as [|t T] eqn:ET; [cbn [length] in Tl; lia|].
  unfold finish64 in H. cbn [app fh_tail] in H.
  change (t :: T ++ repeat 0 j) with ((t :: T) ++ repeat 0 j) in H.
  rewrite le_word_app_zeros in H.
  apply fh_mix_inj in H; try apply fh_step_range.
  apply fh_step_inj_h in H; auto using fh_fold_range, fh_h0_range.
  apply fh_fold_inj in H; auto using fh_h0_range.
  unfold fh_h0 in H. apply lxor_cancel_l in H.
  apply (mul_unit_inj M64 fh_m fh_m_inv) in H; auto using M64_pos, fh_m_unit; unfold M64; lia.
Qed.

(* ---- the boundary case: from a multiple of 8 to a zero tail.  h mod 4 is an invariant channel
        because fh_m = 1 (mod 4); it separates the two lengths unless they agree mod 4. *)

Lemma mulm_mod4 : forall x, ((x * fh_m) mod M64) mod 4 = x mod 4.
Proof. intro x. unfold fh_m, M64. change (2 ^ 64) with 18446744073709551616. lia. Qed.

Lemma fh_step_mod4 : forall h v, fh_step h v mod 4 = Z.lxor (h mod 4) (fh_mix v mod 4).
Proof.
  intros. unfold fh_step. rewrite mulm_mod4. change 4 with (2 ^ 2). apply lxor_mod_pow2. lia.
Qed.

Lemma fh_fold_mod4 : forall B h h', h mod 4 <> h' mod 4 ->
  fold_left fh_step B h mod 4 <> fold_left fh_step B h' mod 4.
Proof.
  induction B as [|k B IH]; intros h h' H; cbn [fold_left]; auto.
  apply IH. rewrite !fh_step_mod4. intro E. apply lxor_cancel_r in E. contradiction.
Qed.

Theorem fasthash64_boundary_partial : forall seed bytes j,
  R64 seed -> (length bytes mod 8 = 0)%nat -> (0 < j < 8)%nat -> (j mod 4 <> 0)%nat ->
  fasthash64 seed bytes <> fasthash64 seed (bytes ++ repeat 0 j).
Proof.
  intros seed bytes j Hs Hr Hj Hj4 H.
  rewrite !fasthash64_unfold in H. rewrite app_length, repeat_length in H.
  set (n := length bytes) in *.
  assert (Hq : ((n + j) / 8 = n / 8)%nat) by lia.
  rewrite Hq in H. set (nb := (n / 8)%nat) in *.
  assert (Hnb : (8 * nb = n)%nat) by (subst nb; lia).
  rewrite words_app_enough in H by lia.
  rewrite skipn_app_le in H by lia.
  rewrite skipn_all2 in H by lia.
  unfold finish64 in H. cbn [app fh_tail] in H.
  destruct j as [|j]; [lia|]. cbn [repeat fh_tail] in H.
  change (0 :: repeat 0 j) with (repeat 0 (S j)) in H. rewrite le_word_zeros in H.
  set (W := words 8 nb bytes) in *.
  assert (D : fold_left fh_step W (fh_h0 seed n) mod 4 <> fold_left fh_step W (fh_h0 seed (n + S j)) mod 4).
  { apply fh_fold_mod4. unfold fh_h0. change 4 with (2 ^ 2). rewrite !lxor_mod_pow2 by lia.
    change (2 ^ 2) with 4. rewrite !mulm_mod4. intro X. apply lxor_cancel_l in X. lia. }
  apply fh_mix_inj in H; auto using fh_fold_range, fh_h0_range, fh_step_range.
  apply D. rewrite H, fh_step_mod4, fh_mix_0. change (0 mod 4) with 0. apply Z.lxor_0_r.
Qed.

Definition boundary_witness : list Z :=
  [0x81; 0x75; 0xce; 0x73; 0x20; 0x1c; 0x74; 0x08; 0xe1; 0x66; 0xe9; 0xb6; 0xc8; 0xf0; 0x68; 0x60].

Theorem fasthash64_boundary_refuted :
  exists seed bytes, R64 seed /\ Forall byte bytes /\ (length bytes mod 8 = 0)%nat /\
    fasthash64 seed bytes = fasthash64 seed (bytes ++ repeat 0 4).
Proof.
  exists 0, boundary_witness. split; [split; [lia|reflexivity]|].
  split; [repeat constructor; unfold byte; lia|].
  split; [reflexivity|]. vm_compute. reflexivity.
Qed.

(* ------------------------------------------------------------------ murmur3_32 *)

Definition mm_tail (h : Z) (tail : list Z) : Z :=
  match tail with [] => h | t :: T => Z.lxor h (mm_k (le_word (t :: T))) end.

Definition finish32 (B T : list Z) (n : nat) (h : Z) : Z :=
  fmix32 (Z.lxor (mm_tail (fold_left mm_step B h) T) (Z.of_nat n mod M32)).

Lemma murmur3_32_unfold : forall seed bytes,
  murmur3_32 seed bytes =
  finish32 (words 4 (length bytes / 4) bytes) (skipn (4 * (length bytes / 4)) bytes) (length bytes) seed.
Proof. reflexivity. Qed.

Lemma mm_fold_range : forall B h, R32 h -> R32 (fold_left mm_step B h).
Proof. apply fold_range. apply mm_step_range. Qed.

Lemma mm_fold_inj : forall B h h', R32 h -> R32 h' ->
  fold_left mm_step B h = fold_left mm_step B h' -> h = h'.
Proof. apply fold_inj; [apply mm_step_range|apply mm_step_inj_h]. Qed.

Lemma mm_tail_range : forall h T, R32 h -> R32 (mm_tail h T).
Proof.
  intros h [|t T] Hh; cbn [mm_tail]; auto. apply (lxor_range 32); auto; [lia|apply mm_k_range].
Qed.

Lemma pre32_range : forall B T h n, R32 h ->
  R32 (Z.lxor (mm_tail (fold_left mm_step B h) T) (Z.of_nat n mod M32)).
Proof.
  intros. apply (lxor_range 32); [lia| |apply R32_mod]. apply mm_tail_range, mm_fold_range; assumption.
Qed.

Lemma finish32_inj : forall B T n h h', R32 h -> R32 h' ->
  finish32 B T n h = finish32 B T n h' -> h = h'.
Proof.
  intros B T n h h' Hh Hh' H. unfold finish32 in H.
  apply fmix32_inj in H; auto using pre32_range.
  apply lxor_cancel_r in H.
  apply (mm_fold_inj B); auto.
  destruct T as [|t T]; cbn [mm_tail] in H; auto.
  eapply lxor_cancel_r; eauto.
Qed.

Lemma finish32_app : forall A k B T n h,
  finish32 (A ++ k :: B) T n h = finish32 B T n (mm_step (fold_left mm_step A h) k).
Proof. intros. unfold finish32. rewrite fold_left_app. reflexivity. Qed.

Theorem murmur3_seed_injective : forall bytes s s', R32 s -> R32 s' ->
  murmur3_32 s bytes = murmur3_32 s' bytes -> s = s'.
Proof.
  intros bytes s s' Hs Hs' H. rewrite !murmur3_32_unfold in H.
  apply finish32_inj in H; auto.
Qed.

Theorem murmur3_block_injective : forall seed pre blk blk' post i,
  R32 seed -> length pre = (4 * i)%nat -> length blk = 4%nat -> length blk' = 4%nat ->
  Forall byte blk -> Forall byte blk' ->
  murmur3_32 seed (pre ++ blk ++ post) = murmur3_32 seed (pre ++ blk' ++ post) -> blk = blk'.
Proof.
  intros seed pre blk blk' post i Hs Hpre Hb Hb' Fb Fb' H.
  rewrite !murmur3_32_unfold in H. rewrite !app_length, Hpre, Hb, Hb' in H.
  rewrite (div_block 4 i (length post)) in H by lia.
  rewrite !words_split, !words_block in H by assumption.
  replace (4 * (i + S (length post / 4)))%nat with (4 * i + (4 + 4 * (length post / 4)))%nat in H by lia.
  rewrite !(skipn_app_exact (4 * i)) in H by assumption.
  rewrite !(skipn_app_exact 4) in H by assumption.
  rewrite !finish32_app in H.
  apply finish32_inj in H; try apply mm_step_range.
  apply mm_step_inj_k in H; auto using mm_fold_range.
  - apply le_word_inj; auto. lia.
  - apply le_word_R32; auto; lia.
  - apply le_word_R32; auto; lia.
Qed.

Theorem murmur3_tail_injective : forall seed pre tl tl' q,
  R32 seed -> length pre = (4 * q)%nat -> length tl = length tl' -> (0 < length tl < 4)%nat ->
  Forall byte tl -> Forall byte tl' ->
  murmur3_32 seed (pre ++ tl) = murmur3_32 seed (pre ++ tl') -> tl = tl'.
Proof.
  intros seed pre tl tl' q Hs Hpre Hl Ht Fb Fb' H.
  rewrite !murmur3_32_unfold in H. rewrite !app_length, Hpre, <- Hl in H.
  rewrite (div_exact_small 4 q (length tl)) in H by lia.
  rewrite !words_app_enough in H by lia.
  rewrite !(skipn_app_exact0 (4 * q)) in H by assumption.
  unfold finish32 in H.
  apply fmix32_inj in H; auto using pre32_range.
  apply lxor_cancel_r in H.
  destruct tl as [|a tl]; [cbn in Ht; lia|]. destruct tl' as [|a' tl']; [discriminate|].
  cbn [mm_tail] in H. apply lxor_cancel_l in H.
  apply mm_k_inj in H.
  - apply le_word_inj; auto.
  - apply le_word_R32; auto; lia.
  - apply le_word_R32; auto; lia.
Qed.

(* zero bytes appended inside a 4-byte block contribute nothing to the tail word (and an all-zero
   tail contributes nothing at all), so only the final `h ^= len` separates the two inputs -- and it does. *)
Theorem murmur3_length_sensitive : forall seed bytes j,
  R32 seed -> (0 < j)%nat -> (length bytes / 4 = (length bytes + j) / 4)%nat ->
  murmur3_32 seed bytes <> murmur3_32 seed (bytes ++ repeat 0 j).
Proof.
  intros seed bytes j Hs Hj Hq H.
  rewrite !murmur3_32_unfold in H. rewrite app_length, repeat_length, <- Hq in H.
  set (n := length bytes) in *. set (nb := (n / 4)%nat) in *.
  assert (Hnb : (4 * nb <= n)%nat) by (subst nb; lia).
  rewrite words_app_enough in H by assumption.
  rewrite skipn_app_le in H by assumption.
  unfold finish32 in H.
  assert (ET : forall h T, mm_tail h (T ++ repeat 0 j) = mm_tail h T).
  { intros h [|t T].
    - destruct j as [|j']; [lia|]. cbn [app repeat mm_tail].
      change (0 :: repeat 0 j') with (repeat 0 (S j')). rewrite le_word_zeros, mm_k_0. apply Z.lxor_0_r.
    - cbn [app mm_tail]. change (t :: T ++ repeat 0 j) with ((t :: T) ++ repeat 0 j).
      now rewrite le_word_app_zeros. }
  rewrite ET in H.
  apply fmix32_inj in H; auto using pre32_range.
  apply lxor_cancel_l in H. unfold M32 in H. change (2 ^ 32) with 4294967296 in H. lia.
Qed.
