(* C07 — allocation failure is reported, atomic, leak-free and survivable.
   Part 1: the contract itself (FaultSpec: what any report may look like) and its consequences.
   Part 2: the allocation skeletons of the fixed-pattern functions (AllocModel), for EVERY oracle
           (any request may be refused, once or from then on, or any other pattern).
   Part 3 (containers with data-dependent allocation): the B-tree / hash / AVL theorems at an
           arbitrary oracle live in Properties_C01 / C03 / C06 and are re-exported in
           Properties_C07_containers.v when those developments provide them. *)
From Coq Require Import ZArith List Bool.
From Zix Require Import FaultSpec FaultProofs AllocModel AllocProofs.
Import ListNotations.

(* -- Part 1 -------------------------------------------------------------------------------- *)

(* contents afterwards are either exactly the previous contents or exactly those of the completed
   operation, never anything in between *)
Theorem fault_never_in_between :
  forall dup s o r s', tol_step dup s o r = Some s' -> s' = s \/ s' = snd (exact_step dup s o).
Proof. exact tol_two_outcomes. Qed.
Print Assumptions fault_never_in_between.

(* always so when an insertion reports failure *)
Theorem fault_failed_insert_unchanged :
  forall dup s k out s', tol_step dup s (Ins k) {| r_status := NoMem; r_out := out |} = Some s' -> s' = s.
Proof. exact tol_failed_insert_unchanged. Qed.
Print Assumptions fault_failed_insert_unchanged.

(* out-parameters tell which *)
Theorem fault_removal_out_param_tells :
  forall dup s k out s', tol_step dup s (Rem k) {| r_status := NoMem; r_out := out |} = Some s' ->
    (out = None /\ s' = s) \/ (out = Some k /\ s' = remove_one k s).
Proof. exact tol_removed_tells. Qed.
Print Assumptions fault_removal_out_param_tells.

(* "once memory is available again all operations behave as specified": the fault-free answer is
   allowed in every state the contract can reach, and every reachable state is a sorted listing *)
Theorem fault_free_answer_always_allowed :
  forall dup s o, tol_step dup s o (fst (exact_step dup s o)) = Some (snd (exact_step dup s o)).
Proof. exact tol_exact. Qed.
Print Assumptions fault_free_answer_always_allowed.

Theorem fault_contract_keeps_sorted :
  forall dup s o r s', sorted s = true -> tol_step dup s o r = Some s' -> sorted s' = true.
Proof. exact tol_step_sorted. Qed.
Print Assumptions fault_contract_keeps_sorted.

(* -- Part 2 -------------------------------------------------------------------------------- *)

(* zix_ring_new: NULL exactly when one of its two requests is refused, and then nothing is left
   outstanding; otherwise exactly the two blocks, both released by zix_ring_free *)
Theorem ring_new_fault :
  forall o,
    match ring_new (ast0 o) with
    | (Some rb, s) => log_ok (log s) [fst rb; snd rb] = true /\ log_ok (log (ring_free rb s)) [] = true
    | (None, s) => log_ok (log s) [] = true /\ (hd true o = false \/ hd true (tl o) = false)
    end.
Proof. exact ring_new_spec. Qed.
Print Assumptions ring_new_fault.

(* string_view_copy, path_join, path_preferred, lexically_normal, lexically_relative,
   canonical_path, current_path, temp_directory_path, create_temporary_directory:
   one request; NULL iff it is refused (nothing allocated), else exactly the returned block *)
Theorem one_block_fault :
  forall o,
    match one_block (ast0 o) with
    | (Some id, s) => log_ok (log s) [id] = true /\ log_ok (log (caller_free (Some id) s)) [] = true
    | (None, s) => log s = [] /\ hd true o = false
    end.
Proof. exact one_block_spec. Qed.
Print Assumptions one_block_fault.

(* expand_environment_strings: a realloc chain of any length; a refusal anywhere frees the partial
   result and yields NULL *)
Theorem realloc_chain_fault :
  forall n o,
    let '(r, s) := realloc_chain n None (ast0 o) in
    match r with
    | Some b => log_ok (log s) [b] = true /\ log_ok (log (caller_free (Some b) s)) [] = true
    | None => log_ok (log s) [] = true
    end.
Proof. exact realloc_chain_spec. Qed.
Print Assumptions realloc_chain_fault.

Theorem create_directories_fault :
  forall o, let '(ok, s) := create_directories (ast0 o) in
            log_ok (log s) [] = true /\ (ok = false <-> hd true o = false).
Proof. exact create_directories_spec. Qed.
Print Assumptions create_directories_fault.

(* documented fall-backs: copy_file and file_equals complete through stack buffers *)
Theorem copy_file_block_fault : forall o, log_ok (log (copy_file_block (ast0 o))) [] = true.
Proof. exact copy_file_block_spec. Qed.
Print Assumptions copy_file_block_fault.

Theorem file_equals_blocks_fault : forall o, log_ok (log (file_equals_blocks (ast0 o))) [] = true.
Proof. exact file_equals_blocks_spec. Qed.
Print Assumptions file_equals_blocks_fault.

(* ZixTree: a refused insertion changes nothing; whatever the oracle and the history, nothing is
   left outstanding after zix_tree_free *)
Theorem tree_refused_insert_unchanged :
  forall nodes s nodes' s', tree_step nodes TIns s = (nodes', s', true) -> nodes' = nodes /\ log s' = log s.
Proof. exact tree_step_nomem. Qed.
Print Assumptions tree_refused_insert_unchanged.

Theorem tree_life_leak_free : forall o ops, log_ok (tree_life o ops) [] = true.
Proof. exact tree_life_ok. Qed.
Print Assumptions tree_life_leak_free.

(* non-vacuity: a history with a refused request in the middle *)
Example tree_life_example :
  tree_life [true; true; false; true] [TIns; TIns; TIns; TRem 0; TIns] =
  [EAlloc Caller Plain 0; EAlloc Caller Plain 1; EAlloc Caller Plain 3; EFree Caller Plain 1;
   EAlloc Caller Plain 4; EFree Caller Plain 3; EFree Caller Plain 4; EFree Caller Plain 0].
Proof. reflexivity. Qed.
