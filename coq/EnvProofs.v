(* C16: lemmas relating EnvModel (the C scanner) to EnvSpec (the reference expander). *)
From Coq Require Import ZArith List Bool Arith Lia.
From Zix Require Import EnvSpec EnvModel.
Import ListNotations.
Local Open Scope Z_scope.

Definition nz (l : list Z) : Prop := Forall (fun c => c <> 0) l.

(* ------------------------------------------------------------------ reads *)

Lemma rd_mid : forall pre c suf, rd (pre ++ c :: suf) (length pre) = Ok c.
Proof.
  intros. unfold rd. rewrite app_length. cbn [length].
  destruct (Nat.ltb_spec (length pre) (length pre + S (length suf))); [|lia].
  rewrite app_nth2 by lia. rewrite Nat.sub_diag. reflexivity.
Qed.

Lemma rd_end : forall l, rd l (length l) = Ok 0.
Proof.
  intros. unfold rd. rewrite Nat.ltb_irrefl, Nat.eqb_refl. reflexivity.
Qed.

(* the byte at the position after `pre`: the next byte or the terminator *)
Definition hd0 (l : list Z) : Z := match l with [] => 0 | c :: _ => c end.

Lemma rd_at : forall pre suf, rd (pre ++ suf) (length pre) = Ok (hd0 suf).
Proof.
  intros. destruct suf.
  - rewrite app_nil_r. apply rd_end.
  - apply rd_mid.
Qed.

Lemma skipn_at : forall (pre suf : list Z), skipn (length pre) (pre ++ suf) = suf.
Proof. intros. rewrite skipn_app, skipn_all, Nat.sub_diag. reflexivity. Qed.

Lemma firstn_at : forall (l suf : list Z), firstn (length l) (l ++ suf) = l.
Proof. intros. rewrite firstn_app, firstn_all, Nat.sub_diag, firstn_O, app_nil_r. reflexivity. Qed.

(* ------------------------------------------------------------------ names *)

Lemma is_var_name_char_eq : forall c, is_var_name_char c = is_name_char c.
Proof. reflexivity. Qed.

Lemma name_char_nz : forall c, is_name_char c = true -> c <> 0 /\ c <> 61.
Proof. unfold is_name_char. intros c H. lia. Qed.

Fixpoint drop_name (l : list Z) : list Z :=
  match l with c :: r => if is_name_char c then drop_name r else l | [] => [] end.

Lemma take_drop_name : forall l, l = take_name l ++ drop_name l.
Proof.
  induction l as [|c r IH]; [reflexivity|]. cbn [take_name drop_name].
  destruct (is_name_char c); [cbn; f_equal; exact IH | reflexivity].
Qed.

Lemma take_name_all : forall l, Forall (fun c => is_name_char c = true) (take_name l).
Proof.
  induction l as [|c r IH]; [constructor|]. cbn [take_name].
  destruct (is_name_char c) eqn:E; [constructor; assumption | constructor].
Qed.

Lemma drop_name_hd : forall l, is_name_char (hd0 (drop_name l)) = false.
Proof.
  induction l as [|c r IH]; [reflexivity|]. cbn [drop_name].
  destruct (is_name_char c) eqn:E; [exact IH | exact E].
Qed.

Lemma take_name_nil : forall l, is_name_char (hd0 l) = false -> take_name l = [].
Proof. destruct l as [|c r]; [reflexivity|]. cbn. intros ->. reflexivity. Qed.

Lemma take_name_nonnil : forall l, is_name_char (hd0 l) = true -> take_name l <> [].
Proof. destruct l as [|c r]; [discriminate|]. cbn. intros ->. discriminate. Qed.

Definition good_name (n : list Z) : Prop := Forall (fun c => c <> 0 /\ c <> 61) n.

Lemma take_name_good : forall l, good_name (take_name l).
Proof.
  intros. eapply Forall_impl; [|apply take_name_all]. intros; apply name_char_nz; assumption.
Qed.

Lemma HOME_good : good_name HOME.
Proof. repeat constructor; discriminate. Qed.

(* ------------------------------------------------------------------ find_env = lookup *)

Fixpoint lcp (entry name : list Z) : nat :=
  match name, entry with
  | c :: n', c' :: e' => if c' =? c then S (lcp e' n') else O
  | _, _ => O
  end.

Lemma match_prefix_lcp : forall name p entry, good_name name ->
  match_prefix (length name) (p ++ entry) (p ++ name) (length p) = Ok (length p + lcp entry name)%nat.
Proof.
  induction name as [|c n IH]; intros p entry G.
  - cbn. f_equal. destruct entry; cbn; lia.
  - cbn [length match_prefix]. rewrite rd_at. cbn [bind].
    rewrite app_nth2 by lia. rewrite Nat.sub_diag. cbn [nth].
    inversion G as [|? ? [G0 _] G']; subst.
    destruct entry as [|c' e'].
    + cbn [hd0 lcp]. destruct (Z.eqb_spec 0 c); [congruence|]. f_equal. lia.
    + cbn [hd0 lcp]. destruct (Z.eqb_spec c' c).
      * subst c'.
        replace (p ++ c :: e') with ((p ++ [c]) ++ e') by (rewrite <- app_assoc; reflexivity).
        replace (p ++ c :: n) with ((p ++ [c]) ++ n) by (rewrite <- app_assoc; reflexivity).
        replace (S (length p)) with (length (p ++ [c])) by (rewrite app_length; cbn; lia).
        rewrite IH by assumption. f_equal. rewrite app_length. cbn. lia.
      * f_equal. lia.
Qed.

Lemma lcp_le : forall name entry, (lcp entry name <= length name)%nat.
Proof.
  induction name; intros; destruct entry; cbn; try lia.
  destruct (_ =? _); [specialize (IHname entry)|]; lia.
Qed.

Lemma lcp_full : forall name entry, lcp entry name = length name -> exists rest, entry = name ++ rest.
Proof.
  induction name as [|c n IH]; intros entry H.
  - exists entry. reflexivity.
  - destruct entry as [|c' e']; cbn in H; [discriminate|].
    destruct (Z.eqb_spec c' c); [|discriminate]. subst.
    injection H as H. destruct (IH _ H) as [rest ->]. exists rest. reflexivity.
Qed.

Lemma lcp_app : forall name rest, lcp (name ++ rest) name = length name.
Proof.
  induction name; intros; cbn; [destruct rest; reflexivity|].
  rewrite Z.eqb_refl, IHname. reflexivity.
Qed.

Lemma split_eq_app : forall name rest, good_name name ->
  split_eq (name ++ rest) =
  match split_eq rest with Some (n, v) => Some (name ++ n, v) | None => None end.
Proof.
  induction name as [|c n IH]; intros rest G.
  - cbn. destruct (split_eq rest) as [[? ?]|]; reflexivity.
  - inversion G as [|? ? [_ G1] G']; subst. cbn [app split_eq].
    destruct (Z.eqb_spec c EQUALS); [contradiction|].
    rewrite IH by assumption. destruct (split_eq rest) as [[? ?]|]; reflexivity.
Qed.

Lemma split_eq_inv : forall e n v, split_eq e = Some (n, v) -> e = n ++ 61 :: v.
Proof.
  induction e as [|c r IH]; intros n v H; [discriminate|]. cbn in H.
  destruct (Z.eqb_spec c EQUALS).
  - injection H as <- <-. subst. reflexivity.
  - destruct (split_eq r) as [[n' v']|]; [|discriminate]. injection H as <- <-.
    cbn. f_equal. apply IH. reflexivity.
Qed.

(* what one entry contributes to a lookup *)
Definition entry_hit (name entry : list Z) : option (list Z) :=
  match split_eq entry with
  | Some (n, v) => if list_eq_dec Z.eq_dec n name then Some v else None
  | None => None
  end.

Lemma lookup_entries_hit : forall name es,
  lookup_entries es name =
  match es with
  | [] => None
  | e :: r => match entry_hit name e with Some v => Some v | None => lookup_entries r name end
  end.
Proof.
  intros name [|e r]; [reflexivity|]. cbn [lookup_entries]. unfold entry_hit.
  destruct (split_eq e) as [[n v]|]; [|reflexivity]. destruct (list_eq_dec Z.eq_dec n name); reflexivity.
Qed.

Lemma entry_step : forall name entry (K : res (option (list Z))), good_name name ->
  (j <- match_prefix (length name) entry name 0 ;;
   hit <- (if (j =? length name)%nat then (c <- rd entry j ;; Ok (c =? 61)) else Ok false) ;;
   if hit then Ok (Some (skipn (j + 1) entry)) else K) =
  match entry_hit name entry with Some v => Ok (Some v) | None => K end.
Proof.
  intros name entry K G.
  pose proof (match_prefix_lcp name [] entry G) as M. cbn [app length] in M. rewrite M. cbn [bind plus].
  destruct (Nat.eqb_spec (lcp entry name) (length name)) as [E|E].
  - destruct (lcp_full _ _ E) as [rest ->]. rewrite E, rd_at. cbn [bind].
    unfold entry_hit. rewrite split_eq_app by assumption.
    destruct rest as [|c v]; cbn [hd0 split_eq].
    + reflexivity.
    + destruct (Z.eqb_spec c 61) as [->|N].
      * cbn. destruct (list_eq_dec Z.eq_dec (name ++ []) name) as [_|X]; [|rewrite app_nil_r in X; congruence].
        replace (length name + 1)%nat with (length (name ++ [61])) by (rewrite app_length; reflexivity).
        replace (name ++ 61 :: v) with ((name ++ [61]) ++ v) by (rewrite <- app_assoc; reflexivity).
        rewrite skipn_at. reflexivity.
      * destruct (Z.eqb_spec c EQUALS); [contradiction|].
        destruct (split_eq v) as [[n' v']|]; [|reflexivity].
        destruct (list_eq_dec Z.eq_dec (name ++ c :: n') name) as [X|_]; [|reflexivity].
        exfalso. apply (f_equal (@length Z)) in X. rewrite app_length in X. cbn in X. lia.
  - cbn [bind]. unfold entry_hit.
    destruct (split_eq entry) as [[n v]|] eqn:S; [|reflexivity].
    destruct (list_eq_dec Z.eq_dec n name) as [->|_]; [|reflexivity].
    exfalso. apply split_eq_inv in S. subst entry. apply E. apply lcp_app.
Qed.

Lemma find_env_lookup : forall e name, good_name name -> find_env e name = Ok (lookup e name).
Proof.
  intros [es|] name G; [|reflexivity]. cbn [find_env lookup].
  induction es as [|entry r IH]; [reflexivity|].
  rewrite lookup_entries_hit. cbn [find_env_entries]. rewrite entry_step by assumption.
  destruct (entry_hit name entry); [reflexivity | exact IH].
Qed.

(* ------------------------------------------------------------------ the inner name scan *)

Lemma name_end_spec : forall n2 fuel pre n1 rest,
  Forall (fun c => is_name_char c = true) n2 -> is_name_char (hd0 rest) = false ->
  (length n2 < fuel)%nat ->
  name_end fuel (pre ++ 36 :: n1 ++ n2 ++ rest) (length pre) (S (length n1)) = Ok (S (length n1 + length n2)).
Proof.
  induction n2 as [|c n IH]; intros fuel pre n1 rest A H F; (destruct fuel as [|f]; [cbn in F; lia|]).
  - cbn [name_end app].
    replace (pre ++ 36 :: n1 ++ rest) with ((pre ++ 36 :: n1) ++ rest) by (rewrite <- app_assoc; reflexivity).
    replace (length pre + S (length n1))%nat with (length (pre ++ 36 :: n1)) by (rewrite app_length; cbn; lia).
    rewrite rd_at. cbn [bind]. rewrite is_var_name_char_eq, H. f_equal. cbn. lia.
  - inversion A; subst. cbn [name_end].
    replace (pre ++ 36 :: n1 ++ (c :: n) ++ rest) with ((pre ++ 36 :: n1) ++ c :: n ++ rest)
      by (rewrite <- app_assoc; reflexivity).
    replace (length pre + S (length n1))%nat with (length (pre ++ 36 :: n1)) by (rewrite app_length; cbn; lia).
    rewrite rd_mid. cbn [bind]. rewrite is_var_name_char_eq. rewrite H2.
    replace ((pre ++ 36 :: n1) ++ c :: n ++ rest) with (pre ++ 36 :: (n1 ++ [c]) ++ n ++ rest)
      by (repeat (rewrite <- app_assoc; cbn [app]); reflexivity).
    replace (S (S (length n1))) with (S (length (n1 ++ [c]))) by (rewrite app_length; cbn; lia).
    rewrite IH; [|assumption|assumption|cbn in F; lia].
    f_equal. rewrite app_length. cbn. lia.
Qed.

(* ------------------------------------------------------------------ spec-side lemmas *)

Definition last_opt (l : list Z) : option Z := match l with [] => None | _ => Some (last l 0) end.

Lemma last_opt_snoc : forall l c, last_opt (l ++ [c]) = Some c.
Proof.
  intros. unfold last_opt. destruct (l ++ [c]) eqn:E; [destruct l; discriminate|].
  rewrite <- E, last_last. reflexivity.
Qed.

Lemma expand_skip : forall e n l rest,
  expand e (length n) (last_opt l) (n ++ rest) = expand e 0 (last_opt (l ++ n)) rest.
Proof.
  induction n as [|c n IH]; intros l rest.
  - rewrite app_nil_r. reflexivity.
  - cbn [length app]. destruct rest as [|x r]; cbn [expand].
    + rewrite <- (last_opt_snoc l c), IH.
      rewrite <- app_assoc. reflexivity.
    + rewrite <- (last_opt_snoc l c), IH.
      rewrite <- app_assoc. reflexivity.
Qed.

(* ------------------------------------------------------------------ allocation bookkeeping *)

Definition has_failed (log : list aev) : bool := existsb failed_request log.
Definition idlist (o : option (nat * list Z)) : list nat := match o with Some (i, _) => [i] | None => [] end.

(* loop invariant on the builder state: no failed request so far, exactly the current block is
   live, and `len` is the length of what has been written *)
Definition Inv (a : st) : Prop :=
  has_failed (s_log a) = false /\ live (s_log a) = idlist (s_out a) /\
  s_len a = length (out_data (s_out a)).

(* state in which the function returns NULL: a request failed, nothing is left allocated *)
Definition Failed (o : list bool) (a' : st) : Prop :=
  s_out a' = None /\ live (s_log a') = [] /\ has_failed (s_log a') = true /\ In false o.

Lemma live_snoc : forall l ev, live (l ++ [ev]) = live_step (live l) ev.
Proof. intros. unfold live. rewrite fold_left_app. reflexivity. Qed.

Lemma has_failed_snoc : forall l ev, has_failed (l ++ [ev]) = has_failed l || failed_request ev.
Proof. intros. unfold has_failed. rewrite existsb_app. cbn. rewrite orb_false_r. reflexivity. Qed.

Lemma remove_idlist : forall o, match out_id o with Some p => remove Nat.eq_dec p (idlist o) | None => idlist o end = [].
Proof.
  intros [[i d]|]; cbn; [|reflexivity]. destruct (Nat.eq_dec i i); [reflexivity|congruence].
Qed.

Lemma append_str_cases : forall a n suf, Inv a -> (n <= length suf)%nat ->
  (fst (append_str a n suf) = true /\ Inv (snd (append_str a n suf)) /\
   (exists i, s_out (snd (append_str a n suf)) = Some (i, out_data (s_out a) ++ firstn n suf)) /\
   incl (s_or (snd (append_str a n suf))) (s_or a))
  \/ (fst (append_str a n suf) = false /\ Failed (s_or a) (snd (append_str a n suf))).
Proof.
  intros a n suf (HF & HL & HN) Hn. unfold append_str.
  destruct (s_or a) as [|b o] eqn:EO; [|destruct b].
  - left. cbn [fst snd s_out s_log s_len s_or]. split; [reflexivity|]. split; [|split].
    + unfold Inv. cbn [s_out s_log s_len out_data idlist]. split; [|split].
      * rewrite has_failed_snoc, HF. reflexivity.
      * rewrite live_snoc, HL. cbn [live_step]. rewrite remove_idlist. reflexivity.
      * rewrite HN, firstn_all, app_length, firstn_length. lia.
    + eexists. rewrite HN, firstn_all. reflexivity.
    + apply incl_refl.
  - left. cbn [fst snd s_out s_log s_len s_or]. split; [reflexivity|]. split; [|split].
    + unfold Inv. cbn [s_out s_log s_len out_data idlist]. split; [|split].
      * rewrite has_failed_snoc, HF. reflexivity.
      * rewrite live_snoc, HL. cbn [live_step]. rewrite remove_idlist. reflexivity.
      * rewrite HN, firstn_all, app_length, firstn_length. lia.
    + eexists. rewrite HN, firstn_all. reflexivity.
    + apply incl_tl, incl_refl.
  - right. cbn [fst snd s_out s_log s_len s_or]. split; [reflexivity|]. unfold Failed.
    cbn [s_out s_log]. split; [reflexivity|]. split; [|split].
    + replace (s_log a ++ [ARealloc (out_id (s_out a)) (s_len a + n + 1) None; AFree (out_id (s_out a))])
        with ((s_log a ++ [ARealloc (out_id (s_out a)) (s_len a + n + 1) None]) ++ [AFree (out_id (s_out a))])
        by (rewrite <- app_assoc; reflexivity).
      rewrite !live_snoc, HL. cbn [live_step].
      pose proof (remove_idlist (s_out a)) as R. destruct (out_id (s_out a)); exact R.
    + replace (s_log a ++ [ARealloc (out_id (s_out a)) (s_len a + n + 1) None; AFree (out_id (s_out a))])
        with ((s_log a ++ [ARealloc (out_id (s_out a)) (s_len a + n + 1) None]) ++ [AFree (out_id (s_out a))])
        by (rewrite <- app_assoc; reflexivity).
      rewrite !has_failed_snoc. cbn. rewrite orb_true_r. reflexivity.
    + left. reflexivity.
Qed.

Lemma Failed_incl : forall o o' a, incl o' o -> Failed o' a -> Failed o a.
Proof. intros o o' a I (A & B & C & D). repeat split; auto. Qed.

Lemma flush_cases : forall a pre chunk suf, Inv a ->
  let r := flush_prefix a (pre ++ chunk ++ suf) (length pre) (length pre + length chunk) in
  (fst r = true /\ Inv (snd r) /\ out_data (s_out (snd r)) = out_data (s_out a) ++ chunk /\
   incl (s_or (snd r)) (s_or a))
  \/ (fst r = false /\ Failed (s_or a) (snd r)).
Proof.
  intros a pre chunk suf I. unfold flush_prefix.
  replace (length pre + length chunk - length pre)%nat with (length chunk) by lia.
  destruct (Nat.eqb_spec (length chunk) 0) as [E|E].
  - left. cbn [fst snd]. destruct chunk; [|discriminate]. rewrite app_nil_r.
    repeat split; try apply I. apply incl_refl.
  - cbn zeta. rewrite skipn_at.
    destruct (append_str_cases a (length chunk) (chunk ++ suf) I) as [(A & B & (i & C) & D)|F].
    + rewrite app_length. lia.
    + left. repeat split; try assumption; try apply B. rewrite C. cbn [out_data]. rewrite firstn_at. reflexivity.
    + right. exact F.
Qed.

(* ------------------------------------------------------------------ one step of the spec *)

Lemma expand_ref : forall e l name rest, name = take_name (name ++ rest) -> name <> [] ->
  expand e 0 (last_opt l) (36 :: name ++ rest) =
  (match lookup e name with Some v => v | None => 36 :: name end) ++
  expand e 0 (last_opt (l ++ 36 :: name)) rest.
Proof.
  intros e l name rest H NE. cbn [expand]. rewrite <- H.
  destruct name as [|n0 nm]; [contradiction|]. cbn [negb andb]. unfold DOLLAR. cbn [Z.eqb Pos.eqb andb].
  rewrite <- (last_opt_snoc l 36). rewrite expand_skip. rewrite <- app_assoc. reflexivity.
Qed.

Lemma expand_plain_dollar : forall e prev r, is_name_char (hd0 r) = false ->
  expand e 0 prev (36 :: r) = 36 :: expand e 0 (Some 36) r.
Proof.
  intros e prev r H. cbn [expand]. rewrite (take_name_nil r H). cbn. reflexivity.
Qed.

Lemma expand_tilde : forall e prev r,
  expand e 0 prev (126 :: r) =
  if is_bound prev && is_bound (hd_error r)
  then (match lookup e HOME with Some v => v | None => [126] end) ++ expand e 0 (Some 126) r
  else 126 :: expand e 0 (Some 126) r.
Proof. intros. cbn [expand]. unfold DOLLAR, TILDE. cbn [Z.eqb Pos.eqb andb]. reflexivity. Qed.

Lemma expand_other : forall e prev c r, c <> 36 -> c <> 126 ->
  expand e 0 prev (c :: r) = c :: expand e 0 (Some c) r.
Proof.
  intros e prev c r A B. cbn [expand]. unfold DOLLAR, TILDE.
  destruct (Z.eqb_spec c 36); [contradiction|]. destruct (Z.eqb_spec c 126); [contradiction|]. reflexivity.
Qed.

(* ------------------------------------------------------------------ append_var *)

Lemma append_var_cases : forall e a name rest, Inv a -> good_name name ->
  exists ok a', append_var e a (S (length name)) (36 :: name ++ rest) = Ok (ok, a') /\
    ((ok = true /\ Inv a' /\
      out_data (s_out a') = out_data (s_out a) ++ (match lookup e name with Some v => v | None => 36 :: name end) /\
      incl (s_or a') (s_or a))
     \/ (ok = false /\ Failed (s_or a) a')).
Proof.
  intros e a name rest I G. unfold append_var.
  replace (S (length name) - 1)%nat with (length name) by lia.
  cbn [skipn]. rewrite firstn_at. rewrite find_env_lookup by assumption. cbn [bind].
  destruct (lookup e name) as [v|].
  - destruct (append_str a (length v) v) as [ok a'] eqn:EA. exists ok, a'. split; [reflexivity|].
    destruct (append_str_cases a (length v) v I (le_n _)) as [(A & B & (i & C) & D)|(A & F)];
      rewrite EA in *; cbn [fst snd] in *.
    + left. repeat split; try assumption; try apply B. rewrite C. cbn [out_data]. rewrite firstn_all. reflexivity.
    + right. split; assumption.
  - destruct (append_str a (S (length name)) (36 :: name ++ rest)) as [ok a'] eqn:EA. exists ok, a'.
    split; [reflexivity|].
    destruct (append_str_cases a (S (length name)) (36 :: name ++ rest) I) as [(A & B & (i & C) & D)|(A & F)];
      [cbn; rewrite app_length; lia| |]; rewrite EA in *; cbn [fst snd] in *.
    + left. repeat split; try assumption; try apply B. rewrite C. cbn [out_data firstn]. rewrite firstn_at. reflexivity.
    + right. split; assumption.
Qed.

(* ------------------------------------------------------------------ the loop body and the loop *)

Definition BodyOK (e : env) (str pre chunk : list Z) (c : Z) (r : list Z) (a : st) (x : step) : Prop :=
  match x with
  | Return a' => Failed (s_or a) a'
  | Continue s' start' a' =>
    exists pre' chunk' suf',
      str = pre' ++ chunk' ++ suf' /\ s' = (length pre' + length chunk')%nat /\ start' = length pre' /\
      Inv a' /\ incl (s_or a') (s_or a) /\ (length suf' <= length r)%nat /\
      out_data (s_out a) ++ chunk ++ expand e 0 (last_opt (pre ++ chunk)) (c :: r) =
      out_data (s_out a') ++ chunk' ++ expand e 0 (last_opt (pre' ++ chunk')) suf'
  end.

Lemma rd_next : forall pre chunk c r,
  rd (pre ++ chunk ++ c :: r) (length pre + length chunk + 1) = Ok (hd0 r).
Proof.
  intros. replace (pre ++ chunk ++ c :: r) with ((pre ++ chunk ++ [c]) ++ r)
    by (repeat (rewrite <- app_assoc; cbn [app]); reflexivity).
  replace (length pre + length chunk + 1)%nat with (length (pre ++ chunk ++ [c]))
    by (rewrite !app_length; cbn; lia).
  apply rd_at.
Qed.

Lemma delim_bound_next : forall r, nz r -> is_path_delim (hd0 r) = is_bound (hd_error r).
Proof.
  intros [|x r] H; [reflexivity|]. inversion H; subst. cbn. unfold is_path_delim, SLASH, COLON.
  destruct (Z.eqb_spec x 0); [contradiction|]. rewrite orb_false_r. reflexivity.
Qed.

Lemma body_copy : forall e pre chunk c r a, Inv a ->
  expand e 0 (last_opt (pre ++ chunk)) (c :: r) = c :: expand e 0 (Some c) r ->
  BodyOK e (pre ++ chunk ++ c :: r) pre chunk c r a
         (Continue (S (length pre + length chunk)) (length pre) a).
Proof.
  intros e pre chunk c r a I H. cbn [BodyOK].
  exists pre, (chunk ++ [c]), r. repeat split; try apply I.
  - repeat (rewrite <- app_assoc; cbn [app]). reflexivity.
  - rewrite app_length. cbn. lia.
  - apply incl_refl.
  - lia.
  - rewrite H. rewrite (app_assoc pre), last_opt_snoc.
    repeat (rewrite <- app_assoc; cbn [app]). reflexivity.
Qed.

Lemma body_ref : forall e pre chunk r a,
  Inv a -> is_name_char (hd0 r) = true ->
  exists x,
    (t <- name_end (length (pre ++ chunk ++ 36 :: r) + 1) (pre ++ chunk ++ 36 :: r) (length pre + length chunk) 1 ;;
     let '(ok1, a1) := flush_prefix a (pre ++ chunk ++ 36 :: r) (length pre) (length pre + length chunk) in
     if negb ok1 then Ok (Return a1)
     else
       r2 <- append_var e a1 t (skipn (length pre + length chunk) (pre ++ chunk ++ 36 :: r)) ;;
       let '(ok2, a2) := r2 in
       if negb ok2 then Ok (Return a2)
       else Ok (Continue (length pre + length chunk + t) (length pre + length chunk + t) a2)) = Ok x /\
    BodyOK e (pre ++ chunk ++ 36 :: r) pre chunk 36 r a x.
Proof.
  intros e pre chunk r a I N.
  pose proof (take_drop_name r) as TD.
  pose proof (take_name_all r) as NA. pose proof (drop_name_hd r) as DH.
  pose proof (take_name_good r) as NG. pose proof (take_name_nonnil r N) as NE.
  remember (take_name r) as name eqn:Hn. remember (drop_name r) as rest eqn:Hr.
  subst r.
  (* the inner scan stops after the name *)
  replace (name_end (length (pre ++ chunk ++ 36 :: name ++ rest) + 1) (pre ++ chunk ++ 36 :: name ++ rest)
                    (length pre + length chunk) 1) with (@Ok nat (S (length name))).
  2:{ symmetry.
      replace (pre ++ chunk ++ 36 :: name ++ rest) with ((pre ++ chunk) ++ 36 :: [] ++ name ++ rest)
        by (rewrite <- app_assoc; reflexivity).
      replace (length pre + length chunk)%nat with (length (pre ++ chunk)) by apply app_length.
      apply (name_end_spec name _ (pre ++ chunk) [] rest NA DH).
      rewrite !app_length. cbn [length]. rewrite !app_length. lia. }
  cbn [bind].
  pose proof (flush_cases a pre chunk (36 :: name ++ rest) I) as FC. cbn zeta in FC.
  destruct (flush_prefix a (pre ++ chunk ++ 36 :: name ++ rest) (length pre) (length pre + length chunk))
    as [ok1 a1] eqn:EF. cbn [fst snd] in FC.
  destruct FC as [(-> & I1 & D1 & O1)|(-> & F1)].
  2:{ cbn [negb]. eexists. split; [reflexivity|]. exact F1. }
  cbn [negb].
  replace (skipn (length pre + length chunk) (pre ++ chunk ++ 36 :: name ++ rest)) with (36 :: name ++ rest).
  2:{ rewrite app_assoc. rewrite <- app_length. rewrite skipn_at. reflexivity. }
  destruct (append_var_cases e a1 name rest I1 NG) as (ok2 & a2 & EV & [(-> & I2 & D2 & O2)|(-> & F2)]);
    rewrite EV; cbn [bind negb].
  2:{ eexists. split; [reflexivity|]. eapply Failed_incl; eassumption. }
  eexists. split; [reflexivity|]. cbn [BodyOK].
  exists (pre ++ chunk ++ 36 :: name), [], rest. repeat split.
  - repeat (rewrite <- app_assoc; cbn [app]). reflexivity.
  - rewrite !app_length. cbn [length]. lia.
  - rewrite !app_length. cbn [length]. lia.
  - apply I2.
  - apply I2.
  - apply I2.
  - eapply incl_tran; eassumption.
  - rewrite app_length. lia.
  - rewrite (expand_ref e (pre ++ chunk) name rest Hn NE).
    rewrite D2, D1. rewrite app_nil_r. cbn [app].
    repeat (rewrite <- app_assoc; cbn [app]). reflexivity.
Qed.

Lemma left_check : forall pre chunk c r, nz (pre ++ chunk) ->
  (if (length pre + length chunk =? 0)%nat then Ok true
   else (p <- rd (pre ++ chunk ++ c :: r) (length pre + length chunk - 1) ;; Ok (is_path_delim p)))
  = Ok (is_bound (last_opt (pre ++ chunk))).
Proof.
  intros pre chunk c r NZ. rewrite app_assoc. rewrite <- app_length.
  destruct (pre ++ chunk) as [|x l] eqn:E using rev_ind; [reflexivity|]. clear IHl.
  rewrite app_length. cbn [length]. destruct (Nat.eqb_spec (length l + 1) 0); [lia|].
  replace (length l + 1 - 1)%nat with (length l) by lia.
  rewrite <- app_assoc. cbn [app]. rewrite rd_mid. cbn [bind]. rewrite last_opt_snoc.
  unfold nz in NZ. rewrite Forall_app in NZ. destruct NZ as (_ & NZ). inversion NZ; subst.
  cbn. unfold is_path_delim, SLASH, COLON. destruct (Z.eqb_spec x 0); [contradiction|].
  rewrite orb_false_r. reflexivity.
Qed.

Lemma body_home : forall e pre chunk r a,
  Inv a -> is_bound (last_opt (pre ++ chunk)) && is_bound (hd_error r) = true ->
  exists x,
    (home <- find_env e HOME ;;
     let value := match home with Some h => h | None => [126] end in
     let '(ok1, a1) := flush_prefix a (pre ++ chunk ++ 126 :: r) (length pre) (length pre + length chunk) in
     if negb ok1 then Ok (Return a1)
     else
       let '(ok2, a2) := append_str a1 (length value) value in
       if negb ok2 then Ok (Return a2)
       else Ok (Continue (S (length pre + length chunk)) (S (length pre + length chunk)) a2)) = Ok x /\
    BodyOK e (pre ++ chunk ++ 126 :: r) pre chunk 126 r a x.
Proof.
  intros e pre chunk r a I B.
  rewrite (find_env_lookup e HOME HOME_good). cbn [bind]. cbn zeta.
  set (value := match lookup e HOME with Some h => h | None => [126] end).
  pose proof (flush_cases a pre chunk (126 :: r) I) as FC. cbn zeta in FC.
  destruct (flush_prefix a (pre ++ chunk ++ 126 :: r) (length pre) (length pre + length chunk))
    as [ok1 a1] eqn:EF. cbn [fst snd] in FC.
  destruct FC as [(-> & I1 & D1 & O1)|(-> & F1)].
  2:{ cbn [negb]. eexists. split; [reflexivity|]. exact F1. }
  cbn [negb].
  pose proof (append_str_cases a1 (length value) value I1 (le_n _)) as AC.
  destruct (append_str a1 (length value) value) as [ok2 a2] eqn:EA. cbn [fst snd] in AC.
  destruct AC as [(-> & I2 & (i & D2) & O2)|(-> & F2)]; cbn [negb].
  2:{ eexists. split; [reflexivity|]. eapply Failed_incl; eassumption. }
  eexists. split; [reflexivity|]. cbn [BodyOK].
  exists (pre ++ chunk ++ [126]), [], r. repeat split.
  - repeat (rewrite <- app_assoc; cbn [app]). reflexivity.
  - rewrite !app_length. cbn [length]. lia.
  - rewrite !app_length. cbn [length]. lia.
  - apply I2.
  - apply I2.
  - apply I2.
  - eapply incl_tran; eassumption.
  - lia.
  - rewrite expand_tilde, B. rewrite D2. cbn [out_data]. rewrite firstn_all, D1.
    rewrite app_nil_r. cbn [app]. rewrite (app_assoc pre chunk), last_opt_snoc.
    fold value. repeat (rewrite <- app_assoc; cbn [app]). reflexivity.
Qed.

Lemma scan_body_ok : forall e pre chunk c r a,
  nz (pre ++ chunk ++ c :: r) -> Inv a ->
  exists x, scan_body e (pre ++ chunk ++ c :: r) c (length pre + length chunk) (length pre) a = Ok x /\
            BodyOK e (pre ++ chunk ++ c :: r) pre chunk c r a x.
Proof.
  intros e pre chunk c r a NZ I.
  assert (NZr : nz r).
  { unfold nz in *. rewrite !Forall_app in NZ. destruct NZ as (_ & _ & NZ). inversion NZ; assumption. }
  assert (NZp : nz (pre ++ chunk)).
  { unfold nz in *. rewrite app_assoc, Forall_app in NZ. apply NZ. }
  unfold scan_body.
  destruct (Z.eqb_spec c 36) as [->|C36].
  - rewrite rd_next. cbn [bind]. rewrite is_var_name_char_eq.
    destruct (is_name_char (hd0 r)) eqn:N.
    + apply body_ref; assumption.
    + cbn [Z.eqb Pos.eqb bind]. eexists. split; [reflexivity|].
      apply body_copy; [assumption|]. apply expand_plain_dollar. exact N.
  - cbn [bind]. destruct (Z.eqb_spec c 126) as [->|C126].
    + rewrite left_check by assumption. cbn [bind].
      destruct (is_bound (last_opt (pre ++ chunk))) eqn:BL.
      * rewrite rd_next. cbn [bind]. rewrite delim_bound_next by assumption.
        destruct (is_bound (hd_error r)) eqn:BR.
        -- apply body_home; [assumption|]. rewrite BL, BR. reflexivity.
        -- eexists. split; [reflexivity|]. apply body_copy; [assumption|].
           rewrite expand_tilde, BL, BR. reflexivity.
      * cbn [bind]. eexists. split; [reflexivity|]. apply body_copy; [assumption|].
        rewrite expand_tilde, BL. reflexivity.
    + cbn [bind]. eexists. split; [reflexivity|]. apply body_copy; [assumption|].
      apply expand_other; assumption.
Qed.

(* the state in which the function returns: NULL after a failed request with nothing left
   allocated, or one live block holding exactly X *)
Definition Final (o : list bool) (X : list Z) (a' : st) : Prop :=
  Failed o a' \/
  (exists i, s_out a' = Some (i, X) /\ live (s_log a') = [i] /\ has_failed (s_log a') = false /\
             s_len a' = length X).

Lemma Final_incl : forall o o' X a, incl o' o -> Final o' X a -> Final o X a.
Proof. intros o o' X a I [F|S]; [left; eapply Failed_incl; eassumption | right; exact S]. Qed.

Lemma Inv_Final : forall o a i X, Inv a -> s_out a = Some (i, X) -> Final o X a.
Proof.
  intros o a i X (A & B & C) E. right. exists i. rewrite E in *. cbn in *. auto.
Qed.

Lemma finish_ok : forall a pre chunk, Inv a -> nz (pre ++ chunk) ->
  exists a', finish a (pre ++ chunk) (length pre) = Ok a' /\
             Final (s_or a) (out_data (s_out a) ++ chunk) a'.
Proof.
  intros a pre chunk I NZ. unfold finish. rewrite rd_at. cbn [bind].
  destruct chunk as [|c ch].
  - cbn [hd0 Z.eqb negb]. rewrite app_nil_r.
    destruct (s_out a) as [[i d]|] eqn:EO.
    + eexists. split; [reflexivity|]. cbn [out_data]. eapply Inv_Final; [exact I|]. exact EO.
    + eexists. split; [reflexivity|].
      destruct (append_str_cases a 0 [] I (le_n _)) as [(A & B & (i & C) & D)|(A & F)].
      * eapply Inv_Final; [exact B|]. rewrite C, EO. reflexivity.
      * left. exact F.
  - cbn [hd0]. unfold nz in NZ. rewrite Forall_app in NZ. destruct NZ as (_ & NZ). inversion NZ; subst.
    destruct (Z.eqb_spec c 0); [contradiction|]. cbn [negb]. rewrite skipn_at.
    eexists. split; [reflexivity|].
    destruct (append_str_cases a (length (c :: ch)) (c :: ch) I (le_n _)) as [(A & B & (i & C) & D)|(A & F)].
    + eapply Inv_Final; [exact B|]. rewrite C, firstn_all. reflexivity.
    + left. exact F.
Qed.

Lemma scan_ok : forall fuel e str pre chunk suf a,
  str = pre ++ chunk ++ suf -> nz str -> Inv a -> (length suf < fuel)%nat ->
  exists a', scan fuel e str (length pre + length chunk) (length pre) a = Ok a' /\
             Final (s_or a) (out_data (s_out a) ++ chunk ++ expand e 0 (last_opt (pre ++ chunk)) suf) a'.
Proof.
  induction fuel as [|f IH]; intros e str pre chunk suf a ES NZ I F; [lia|].
  cbn [scan]. destruct suf as [|c r].
  - subst str. rewrite app_nil_r in *. rewrite <- app_length, rd_end. cbn [bind Z.eqb].
    cbn [expand]. rewrite app_nil_r. apply finish_ok; assumption.
  - subst str. rewrite app_assoc, <- app_length, rd_mid. cbn [bind].
    assert (c <> 0) as C0.
    { unfold nz in NZ. rewrite !Forall_app in NZ. destruct NZ as (_ & _ & NZ). inversion NZ; assumption. }
    destruct (Z.eqb_spec c 0); [contradiction|].
    rewrite app_length, <- app_assoc.
    destruct (scan_body_ok e pre chunk c r a NZ I) as (x & EX & OK). rewrite EX. cbn [bind].
    destruct x as [a'|s' start' a'].
    + eexists. split; [reflexivity|]. left. exact OK.
    + cbn [BodyOK] in OK. destruct OK as (pre' & chunk' & suf' & E1 & -> & -> & I' & O' & L' & EQ).
      destruct (IH e _ pre' chunk' suf' a' E1 NZ I') as (a'' & ES & FS); [cbn in F; lia|].
      exists a''. split; [exact ES|]. rewrite EQ. eapply Final_incl; eassumption.
Qed.

(* ------------------------------------------------------------------ the whole function *)

Lemma Inv_init : forall o, Inv (init_st o).
Proof. intros. repeat split. Qed.

Lemma expand_run_ok : forall e str o, nz str ->
  exists a, expand_run e str o = Ok a /\ Final o (expand e 0 None str) a.
Proof.
  intros e str o NZ. unfold expand_run.
  destruct (scan_ok (length str + 1) e str [] [] str (init_st o) eq_refl NZ (Inv_init o)) as (a & EA & FA);
    [lia|].
  exists a. split; [exact EA | exact FA].
Qed.

Lemma Final_result_ok : forall o X a, Final o X a -> ~ In false o -> result a = Some X.
Proof.
  intros o X a [(_ & _ & _ & F)|(i & E & _)] N; [contradiction|]. unfold result. rewrite E. reflexivity.
Qed.

Lemma Final_failed : forall o X a, Final o X a -> has_failed (s_log a) = true ->
  result a = None /\ live (s_log a) = [] /\ In false o.
Proof.
  intros o X a [(A & B & _ & D)|(i & _ & _ & C & _)] H; [|congruence].
  unfold result. rewrite A. auto.
Qed.

Lemma Final_not_failed : forall o X a, Final o X a -> has_failed (s_log a) = false ->
  exists i, s_out a = Some (i, X) /\ live (s_log a) = [i] /\ s_len a = length X.
Proof.
  intros o X a [(_ & _ & C & _)|(i & A & B & _ & D)] H; [congruence|]. exists i. auto.
Qed.


(* ------------------------------------------------------------------ the state changes only through append_str *)

Lemma bind_ok : forall (A B : Type) (x : res A) (f : A -> res B) y,
  bind x f = Ok y -> exists a, x = Ok a /\ f a = Ok y.
Proof. intros A B [a| |] f y H; try discriminate. exists a. auto. Qed.

Section Preserve.
  Variable P : st -> Prop.
  Hypothesis P_append : forall a n suf, P a -> P (snd (append_str a n suf)).

  Lemma flush_pres : forall a str start s, P a -> P (snd (flush_prefix a str start s)).
  Proof. intros. unfold flush_prefix. destruct (_ =? _)%nat; [assumption | apply P_append; assumption]. Qed.

  Lemma append_var_pres : forall e a t ref ok a', P a -> append_var e a t ref = Ok (ok, a') -> P a'.
  Proof.
    intros e a t ref ok a' HP H. unfold append_var in H. apply bind_ok in H as (val & _ & H).
    destruct val; injection H as H; apply (f_equal snd) in H; cbn [snd] in H; rewrite <- H; apply P_append; assumption.
  Qed.

  Lemma finish_pres : forall a str start a', P a -> finish a str start = Ok a' -> P a'.
  Proof.
    intros a str start a' HP H. unfold finish in H. apply bind_ok in H as (c & _ & H).
    destruct (negb (c =? 0)).
    - injection H as <-. apply P_append; assumption.
    - destruct (s_out a); injection H as <-; [assumption | apply P_append; assumption].
  Qed.

  Lemma scan_body_pres : forall e str c s start a x, P a -> scan_body e str c s start a = Ok x ->
    match x with Return a' => P a' | Continue _ _ a' => P a' end.
  Proof.
    intros e str c s start a x HP H. unfold scan_body in H.
    apply bind_ok in H as (is_ref & _ & H). destruct is_ref.
    - apply bind_ok in H as (t & _ & H).
      pose proof (flush_pres a str start s HP) as P1.
      destruct (flush_prefix a str start s) as [ok1 a1]. cbn [snd] in P1.
      destruct ok1; cbn [negb] in H; [|injection H as <-; assumption].
      apply bind_ok in H as ([ok2 a2] & EV & H).
      pose proof (append_var_pres _ _ _ _ _ _ P1 EV) as P2.
      destruct ok2; cbn [negb] in H; injection H as <-; assumption.
    - apply bind_ok in H as (is_home & _ & H). destruct is_home.
      + apply bind_ok in H as (home & _ & H). cbn zeta in H.
        pose proof (flush_pres a str start s HP) as P1.
        destruct (flush_prefix a str start s) as [ok1 a1]. cbn [snd] in P1.
        destruct ok1; cbn [negb] in H; [|injection H as <-; assumption].
        match type of H with context [append_str a1 ?n ?v] =>
          pose proof (P_append a1 n v P1) as P2; destruct (append_str a1 n v) as [ok2 a2] end.
        cbn [snd] in P2. destruct ok2; cbn [negb] in H; injection H as <-; assumption.
      + injection H as <-. assumption.
  Qed.

  Lemma scan_pres : forall fuel e str s start a a', P a -> scan fuel e str s start a = Ok a' -> P a'.
  Proof.
    induction fuel as [|f IH]; intros e str s start a a' HP H; [discriminate|].
    cbn [scan] in H. apply bind_ok in H as (c & _ & H).
    destruct (c =? 0); [eapply finish_pres; eassumption|].
    apply bind_ok in H as (x & EX & H). pose proof (scan_body_pres _ _ _ _ _ _ _ HP EX) as PX.
    destruct x; [injection H as <-; assumption | eapply IH; eassumption].
  Qed.
End Preserve.

(* ------------------------------------------------------------------ the log records the allocator's answers *)

Definition outcome (ev : aev) : list bool :=
  match ev with ARealloc _ _ (Some _) => [true] | ARealloc _ _ None => [false] | AFree _ => [] end.
Definition outcomes (log : list aev) : list bool := flat_map outcome log.

(* the k-th answer of the allocator ([] = all succeed) *)
Definition answer (o : list bool) (k : nat) : bool := nth k o true.

Definition Agree (o : list bool) (a : st) : Prop :=
  forall k, answer (outcomes (s_log a) ++ s_or a) k = answer o k.

Lemma answer_snoc_true : forall l k, answer (l ++ [true]) k = answer l k.
Proof.
  intros l k. unfold answer. destruct (Nat.lt_ge_cases k (length l)).
  - apply app_nth1. assumption.
  - rewrite app_nth2 by assumption. rewrite (nth_overflow l) by assumption.
    destruct (k - length l)%nat as [|[|]]; reflexivity.
Qed.

Lemma append_str_agree : forall o a n suf, Agree o a -> Agree o (snd (append_str a n suf)).
Proof.
  intros o a n suf H k. specialize (H k). unfold append_str.
  destruct (s_or a) as [|b r] eqn:EO; [|destruct b]; cbn [snd s_log s_or];
    unfold outcomes in *; rewrite flat_map_app; cbn [flat_map outcome app].
  - rewrite !app_nil_r in *. rewrite answer_snoc_true. exact H.
  - rewrite <- app_assoc. exact H.
  - rewrite <- app_assoc. exact H.
Qed.

Lemma has_failed_outcomes : forall log, has_failed log = true <-> In false (outcomes log).
Proof.
  induction log as [|ev l IH]; [cbn; split; [discriminate|tauto]|].
  unfold has_failed, outcomes in *. cbn [existsb flat_map]. rewrite orb_true_iff, in_app_iff, IH.
  destruct ev as [old sz [n|]|p]; cbn; intuition discriminate.
Qed.

Lemma expand_run_agree : forall e str o a, expand_run e str o = Ok a -> Agree o a.
Proof.
  intros e str o a H. eapply (scan_pres (Agree o) (append_str_agree o)); [|exact H].
  intros k. reflexivity.
Qed.

(* a request that was made and that the allocator refused shows as a failure in the log *)
Lemma refused_in_log : forall e str o a k, expand_run e str o = Ok a ->
  (k < length (outcomes (s_log a)))%nat -> answer o k = false -> has_failed (s_log a) = true.
Proof.
  intros e str o a k H L A. apply has_failed_outcomes.
  rewrite <- (expand_run_agree e str o a H k) in A. unfold answer in A.
  rewrite app_nth1 in A by assumption. rewrite <- A. apply nth_In. assumption.
Qed.

(* ------------------------------------------------------------------ statements used by Properties_C16 *)

Lemma expand_terminates_l : forall e str o, nz str -> exists a, expand_run e str o = Ok a.
Proof. intros e str o NZ. destruct (expand_run_ok e str o NZ) as (a & E & _). eauto. Qed.

Lemma expand_eq_expander_l : forall e str o, nz str -> ~ In false o ->
  exists a, expand_run e str o = Ok a /\ result a = Some (expand e 0 None str).
Proof.
  intros e str o NZ N. destruct (expand_run_ok e str o NZ) as (a & E & F).
  exists a. split; [exact E | eapply Final_result_ok; eassumption].
Qed.

Lemma expand_eq_spec_l : forall e str o r, nz str -> ~ In false o -> spec_expand e str = Some r ->
  exists a, expand_run e str o = Ok a /\ result a = Some r.
Proof.
  intros e str o r NZ N S. unfold spec_expand in S. destruct (glued None str); [discriminate|].
  injection S as <-. apply expand_eq_expander_l; assumption.
Qed.

Lemma run_Final : forall e str o a, nz str -> expand_run e str o = Ok a -> Final o (expand e 0 None str) a.
Proof.
  intros e str o a NZ H. destruct (expand_run_ok e str o NZ) as (a' & E & F). congruence.
Qed.

Lemma expand_alloc_failure_l : forall e str o a k, nz str -> expand_run e str o = Ok a ->
  (k < length (outcomes (s_log a)))%nat -> answer o k = false ->
  result a = None /\ live (s_log a) = [].
Proof.
  intros e str o a k NZ H L A.
  pose proof (refused_in_log e str o a k H L A) as HF.
  destruct (Final_failed _ _ _ (run_Final e str o a NZ H) HF) as (R & LV & _). auto.
Qed.

Lemma expand_alloc_success_l : forall e str o a, nz str -> expand_run e str o = Ok a ->
  has_failed (s_log a) = false ->
  exists i, s_out a = Some (i, expand e 0 None str) /\ live (s_log a) = [i] /\
            s_len a = length (expand e 0 None str).
Proof.
  intros e str o a NZ H HF. exact (Final_not_failed _ _ _ (run_Final e str o a NZ H) HF).
Qed.

Lemma expand_null_only_on_refusal_l : forall e str o a, nz str -> expand_run e str o = Ok a ->
  result a = None -> In false o /\ has_failed (s_log a) = true /\ live (s_log a) = [].
Proof.
  intros e str o a NZ H R. destruct (run_Final e str o a NZ H) as [(A & B & C & D)|(i & E & _)]; [auto|].
  unfold result in R. rewrite E in R. discriminate.
Qed.

(* whatever the allocator does: a string that IS returned is the expansion (NULL or the right answer) *)
Lemma expand_result_is_expansion_l : forall e str o a d, nz str -> expand_run e str o = Ok a ->
  result a = Some d -> d = expand e 0 None str.
Proof.
  intros e str o a d NZ H R.
  destruct (has_failed (s_log a)) eqn:HF.
  - destruct (Final_failed _ _ _ (run_Final e str o a NZ H) HF) as (RN & _). congruence.
  - destruct (Final_not_failed _ _ _ (run_Final e str o a NZ H) HF) as (i & E & _).
    unfold result in R. rewrite E in R. congruence.
Qed.
