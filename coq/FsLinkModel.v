(* C15 — models over the file system with symbolic links (FsLinkSpec.v):
   - zix_create_directories: the SAME loop as FsModel.mkdirs_loop (path iterator of path.c, NUL-chopped prefixes,
     zix_file_type on each prefix, zix_create_directory when it is not a directory), written once over an arbitrary
     file system state with its stat-based type query and its mkdir (Section Generic; the model of FsModel.v is
     the instance for the link-free file system: FsLinkProofs.create_directories_is_generic);
   - zix_file_type / zix_symlink_type: stat / lstat, then the table walk stat_file_type on st_mode;
   - zix_dir_for_each: opendir, the readdir loop skipping exactly the names that strcmp equal to "." and "..",
     the callback, closedir; the entry list is what the kernel returns, "." and ".." included, in any order;
   - descriptor accounting for all of them.
   Definitions only. *)
From Coq Require Import ZArith List Bool Lia.
From Zix Require Import CopySpec CopyModel FsSpec FsModel FsLinkSpec.
Import ListNotations.
Local Open Scope Z_scope.

(* ---------------------------------------------------------------- zix_create_directories, any file system *)
Section Generic.
  Variable FS : Type.
  Variable g_type : FS -> list Z -> ftype.       (* zix_file_type(prefix) in this state *)
  Variable g_mkdir : FS -> list Z -> Z * FS.     (* mkdir(prefix, 0777): 0 or errno, new state *)

  (* zix_create_directory *)
  Definition g_create_directory (fs : FS) (s : list Z) : status * FS * list fsev :=
    match s with
    | [] => (BAD_ARG, fs, [])
    | _ => let (e, fs') := g_mkdir fs s in
           (if e =? 0 then SUCCESS else zix_errno_status e, fs', [EvMkdir s (if e =? 0 then 0 else -1)])
    end.

  Fixpoint g_mkdirs_loop (fuel : nat) (fs : FS) (s : list Z) (p : piter) (tr : list fsev)
    : status * FS * list fsev :=
    match fuel with
    | O => (OUT_OF_FUEL, fs, tr)
    | S f =>
      match p_st p with
      | PEnd => (SUCCESS, fs, tr)
      | _ =>
        let prefix := firstn (p_e p) s in
        let t := g_type fs prefix in
        let tr := tr ++ [EvStat prefix t] in
        match t with
        | FT_DIRECTORY => g_mkdirs_loop f fs s (path_next s p) tr
        | _ =>
          let '(st, fs', ev) := g_create_directory fs prefix in
          if is_success st then g_mkdirs_loop f fs' s (path_next s p) (tr ++ ev)
          else (st, fs', tr ++ ev)
        end
      end
    end.

  Definition g_create_directories (alloc_ok : bool) (fs : FS) (s : list Z) : status * FS * list fsev :=
    match s with
    | [] => (BAD_ARG, fs, [])
    | _ =>
      if negb alloc_ok then (NO_MEM, fs, [])
      else g_mkdirs_loop (S (S (length s))) fs s (skip_root 3 s (path_begin s)) []
    end.
End Generic.

(* ---------------------------------------------------------------- zix_file_type / zix_symlink_type *)
(* [perms]: the permission bits of the node at a location (any function) *)
Definition type_of_res (perms : loc -> Z) (r : rres) : ftype :=
  match r with
  | RErr _ => FT_NONE                                     (* stat/lstat returned non-zero *)
  | RAt l n _ => stat_file_type (mode_of_node n (perms l))
  end.
Definition file_type_l (perms : loc -> Z) (B : nat) (fs : lfs) (cwd : loc) (s : list Z) : ftype :=
  type_of_res perms (stat_l B fs cwd s).
Definition symlink_type_l (perms : loc -> Z) (B : nat) (fs : lfs) (cwd : loc) (s : list Z) : ftype :=
  type_of_res perms (lstat_l B fs cwd s).

(* zix_file_size: -1 when stat fails, st_size otherwise (the bytes of a regular file; [other] for the rest) *)
Definition file_size_l (other : node -> Z) (B : nat) (fs : lfs) (cwd : loc) (s : list Z) : Z :=
  match stat_l B fs cwd s with
  | RErr _ => -1
  | RAt _ (NFile bytes) _ => Z.of_nat (length bytes)
  | RAt _ n _ => other n
  end.

(* ---------------------------------------------------------------- zix_create_directories with links *)
Definition create_directories_l (perms : loc -> Z) (B : nat) (alloc_ok : bool) (fs : lfs) (cwd : loc) (s : list Z)
  : status * lfs * list fsev :=
  g_create_directories lfs (fun fs p => file_type_l perms B fs cwd p) (fun fs p => mkdir_l B fs cwd p)
                       alloc_ok fs s.

(* ---------------------------------------------------------------- zix_dir_for_each *)
(* strcmp on NUL-terminated strings given without their terminator *)
Fixpoint c_strcmp (a b : list Z) : Z :=
  match a, b with
  | [], [] => 0
  | [], y :: _ => 0 - y
  | x :: _, [] => x
  | x :: a', y :: b' => if x =? y then (if x =? 0 then 0 else c_strcmp a' b') else x - y
  end.

Inductive dcall :=
  | DOpendir (path : list Z) (ok : bool) | DReaddir (r : option (list Z))
  | DCallback (path name : list Z) (data : Z) | DClosedir.
Record dstate := mkD {
  d_open : nat;                                  (* directory streams (descriptors) open *)
  d_calls : list dcall;                          (* library calls and callback invocations, in order *)
  d_log : list (list Z * list Z * Z)             (* callback invocations f(path, name, data), in order *)
}.
Definition d_call (st : dstate) (c : dcall) : dstate := mkD (d_open st) (d_calls st ++ [c]) (d_log st).
Definition d_visit (st : dstate) (v : list Z * list Z * Z) : dstate :=
  mkD (d_open st) (d_calls st ++ [DCallback (fst (fst v)) (snd (fst v)) (snd v)]) (d_log st ++ [v]).
Definition d_set_open (st : dstate) (n : nat) : dstate := mkD n (d_calls st) (d_log st).

(* `for (entry = NULL; (entry = readdir(dir));) if (!!strcmp(d_name, ".") && !!strcmp(d_name, "..")) f(path, d_name, data);` *)
Fixpoint dfe_loop (path : list Z) (data : Z) (ents : list (list Z)) (st : dstate) : dstate :=
  match ents with
  | [] => d_call st (DReaddir None)
  | e :: rest =>
    let st := d_call st (DReaddir (Some e)) in
    let st := if negb (c_strcmp e [DOT] =? 0) && negb (c_strcmp e [DOT; DOT] =? 0)
              then d_visit st (path, e, data) else st in
    dfe_loop path data rest st
  end.

(* [dir]: None = opendir fails; Some ents = the names readdir returns, in that order *)
Definition dir_for_each (path : list Z) (data : Z) (dir : option (list (list Z))) (st : dstate) : dstate :=
  match dir with
  | None => d_call st (DOpendir path false)
  | Some ents =>
    let st := d_set_open (d_call st (DOpendir path true)) (S (d_open st)) in
    let st := dfe_loop path data ents st in
    d_set_open (d_call st DClosedir) (pred (d_open st))
  end.

Definition d_init : dstate := mkD O [] [].

(* what opendir answers on the abstract file system: the path must lead to a directory; the kernel then returns
   its names together with "." and ".." in an order of its choosing ([order] puts them in some order) *)
Definition opendir_l (order : list name -> list name) (B : nat) (fs : lfs) (cwd : loc) (s : list Z)
  : option (list name) :=
  match stat_l B fs cwd s with
  | RAt l NDir _ => Some (order ([DOT] :: [DOT; DOT] :: children fs l))
  | _ => None
  end.

(* ---------------------------------------------------------------- descriptor accounting *)
(* system/library calls made by these functions and their effect on the number of open descriptors *)
Inductive sys := SysStat | SysLstat | SysMkdir | SysOpendir (ok : bool) | SysReaddir | SysClosedir | SysCallback.
Definition fd_delta (c : sys) : Z :=
  match c with SysOpendir true => 1 | SysClosedir => -1 | _ => 0 end.
Fixpoint fd_balance (l : list sys) : Z :=
  match l with [] => 0 | c :: r => fd_delta c + fd_balance r end.
Definition sys_of_fsev (e : fsev) : sys := match e with EvStat _ _ => SysStat | EvMkdir _ _ => SysMkdir end.
Definition sys_of_dcall (c : dcall) : sys :=
  match c with
  | DOpendir _ ok => SysOpendir ok | DReaddir _ => SysReaddir | DCallback _ _ _ => SysCallback
  | DClosedir => SysClosedir
  end.

(* the queries make one call each: zix_file_type and zix_file_size stat(2), zix_symlink_type lstat(2) *)
Definition file_type_calls : list sys := [SysStat].
Definition symlink_type_calls : list sys := [SysLstat].
Definition file_size_calls : list sys := [SysStat].
