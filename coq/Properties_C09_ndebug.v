(* C09 in the library's normal configuration (-DNDEBUG: assertions compiled out).
   Property theorems only.

   zix_bump_aligned_alloc asserts `size % alignment == 0`.  Properties_C09 models the assertion as
   an outcome, so there a request whose size is not a multiple of the alignment ends the history
   and nothing more is claimed.  The normal build has no assertion: the code goes on (the size is
   rounded up to the 8-byte unit by zix_bump_malloc), and the property text says "all request
   sizes including odd sizes".  This file closes that gap.

   Model   : BumpModel.bump_aligned_alloc_nd  (= bump_aligned_alloc without the size assertion;
             the alignment must still be a power of two >= 8: the documented precondition, whose
             violation is undefined without the assertion).
   Caller  : BumpNdebug.bump_run_nd  (BumpSpec.bump_run with aligned_alloc replaced by the above).
   Spec    : BumpNdebug.spec_check_nd  (BumpSpec.spec_check judging ALSO the aligned_alloc requests
             whose size is not a multiple of the alignment, and everything after them; what is
             demanded of one response is BumpSpec.spec_step, unchanged - its clauses are stated in
             Properties_C09: spec_accepted_allocation_means, spec_accepted_failure_means, ...).
             The same extracted function judges the real allocator built with -DNDEBUG. *)
From Coq Require Import ZArith List Bool.
From Zix Require Import BumpModel BumpSpec BumpProofs BumpProofsSafe BumpNdebug.
Import ListNotations.
Local Open Scope Z_scope.

(* ------------------------------------------------------------------------------------------ *)
(* MAIN THEOREM (NDEBUG build).  For every buffer address, capacity, initial memory and list of
   requests - aligned_alloc with ANY size in [0, 2^64), multiple of the alignment or not - the
   trace of the model is accepted by the specification: the block of an aligned_alloc(al, n) is in
   bounds, at least n bytes, aligned to al (and 8), apart from every live block; it occupies
   rounded n = 8 * ceil(max n 1 / 8) bytes of the remaining space, so that the NEXT block, of any
   kind, is again 8-aligned and apart from it; it fails exactly when padding + rounded n does not
   fit, returning NULL and changing nothing.  All other requests as in bump_safe. *)
Theorem bump_ndebug_safe :
  forall A C m0 rs, 0 < A -> 0 <= C -> A + C < 2 ^ 64 ->
    spec_check_nd A C (trace_of (bump_run_nd A C m0 rs)) = true.
Proof.
  exact bump_safe_all_nd.
Qed.
Print Assumptions bump_ndebug_safe.

(* the whole history is executed whenever every alignment is a power of two >= 8 (no condition on
   the sizes): the alignment check of malloc inside aligned_alloc, modelled as an outcome, never
   fires, so compiling it out changes nothing *)
Theorem bump_ndebug_never_aborts :
  forall A C m0 rs, 0 < A -> 0 <= C -> A + C < 2 ^ 64 -> forallb req_ok_nd rs = true ->
    length (bump_run_nd A C m0 rs) = length rs /\
    Forall (fun e => e_resp e <> OAbort) (bump_run_nd A C m0 rs).
Proof.
  exact bump_never_aborts_nd.
Qed.
Print Assumptions bump_ndebug_never_aborts.

(* exact outcome of aligned_alloc without the assertion, for every size *)
Theorem bump_aligned_alloc_ndebug_exact :
  forall A C s al n, 0 < A -> 0 <= C -> A + C < 2 ^ 64 -> st_ok A C s -> 0 <= n < 2 ^ 64 ->
    align_ok_nd al = true ->                     (* power of two, 8 <= al < 2^64; nothing about n *)
    let pad := (- (A + top s)) mod al in
    bump_aligned_alloc_nd A C s al n =
      if top s + pad + rounded n <=? C
      then ({| top := top s + pad + rounded n; last := top s + pad |}, RPtr (A + top s + pad))
      else (s, RNull).
Proof.
  exact bump_aligned_alloc_nd_char.
Qed.
Print Assumptions bump_aligned_alloc_ndebug_exact.

(* ------------------------------------------------------------------------------------------ *)
(* The two builds on the documented domain: the same function, the same histories.  Hence every
   theorem of Properties_C09 about bump_aligned_alloc / bump_run is also a theorem about the
   NDEBUG build there. *)
Theorem bump_aligned_alloc_ndebug_same_on_documented_domain :
  forall A C s al n, n mod al = 0 -> bump_aligned_alloc_nd A C s al n = bump_aligned_alloc A C s al n.
Proof.
  exact bump_aligned_alloc_nd_agrees.
Qed.
Print Assumptions bump_aligned_alloc_ndebug_same_on_documented_domain.

Theorem bump_ndebug_run_same_on_documented_domain :
  forall A C m0 rs, forallb req_ok rs = true -> bump_run_nd A C m0 rs = bump_run A C m0 rs.
Proof.
  exact bump_run_nd_agrees.
Qed.
Print Assumptions bump_ndebug_run_same_on_documented_domain.

(* ... and outside it the default build does nothing but stop at the assertion *)
Theorem bump_aligned_alloc_default_build_stops_at_assertion :
  forall A C s al n, n mod al <> 0 -> al >= 8 -> bump_aligned_alloc A C s al n = (s, RAbort).
Proof.
  exact bump_aligned_alloc_nd_differs.
Qed.
Print Assumptions bump_aligned_alloc_default_build_stops_at_assertion.

(* the NDEBUG checker demands everything the original checker demands (and goes on judging where
   the original one stops promising) *)
Theorem spec_check_ndebug_demands_more :
  forall A C tr, spec_check_nd A C tr = true -> spec_check A C tr = true.
Proof.
  exact spec_check_nd_stronger.
Qed.
Print Assumptions spec_check_ndebug_demands_more.

(* a failed request returns NULL and changes nothing - in ANY state, for ANY arguments *)
Theorem bump_aligned_alloc_ndebug_failure_changes_nothing :
  forall A C s al n s', bump_aligned_alloc_nd A C s al n = (s', RNull) -> s' = s.
Proof.
  exact bump_aligned_alloc_nd_null.
Qed.
Print Assumptions bump_aligned_alloc_ndebug_failure_changes_nothing.

(* ------------------------------------------------------------------------------------------ *)
(* Non-vacuity.  aligned_alloc(16, 20) followed by malloc(1): both succeed, the second block starts
   at the rounded end (+24) of the first, and the checker accepts; on an odd buffer address too. *)
Example bump_ndebug_example_history :
  map e_resp (bump_run_nd 4096 64 (fun _ => 165) [AlignedAlloc 16 20; Malloc 1]) = [OPtr 0; OPtr 24] /\
  spec_check_nd 4096 64 (trace_of (bump_run_nd 4096 64 (fun _ => 165) [AlignedAlloc 16 20; Malloc 1])) = true /\
  map e_resp (bump_run_nd 4099 100 (fun _ => 165)
                [Malloc 3; AlignedAlloc 32 33; Realloc (PBlk 1) 41; AlignedAlloc 8 1; Free (PBlk 3); Calloc 1 7]) =
    [OPtr 5; OPtr 29; OPtr 29; OPtr 77; OVoid; OPtr 77] /\
  spec_check_nd 4099 100 (trace_of (bump_run_nd 4099 100 (fun _ => 165)
                [Malloc 3; AlignedAlloc 32 33; Realloc (PBlk 1) 41; AlignedAlloc 8 1; Free (PBlk 3); Calloc 1 7])) = true.
Proof.
  vm_compute. repeat split.
Qed.

(* The checker is not trivially true on such histories: it rejects a second block at +20 (what an
   aligned_alloc that "need not round, the size is a multiple of the alignment" produces without
   the assertion: misaligned), at +16 (overlapping), a spurious failure, and a failure that is
   missing; the original checker accepts all of them, because it stops at the first request *)
Example spec_ndebug_rejects_bad_traces :
  spec_check_nd 4096 64 [(AlignedAlloc 16 20, OPtr 0, true); (Malloc 1, OPtr 20, true)] = false /\
  spec_check    4096 64 [(AlignedAlloc 16 20, OPtr 0, true); (Malloc 1, OPtr 20, true)] = true /\
  spec_check_nd 4096 64 [(AlignedAlloc 16 20, OPtr 0, true); (Malloc 1, OPtr 16, true)] = false /\
  spec_check_nd 4096 64 [(AlignedAlloc 16 20, OPtr 0, true); (Malloc 40, ONull, true)] = false /\
  spec_check_nd 4096 64 [(AlignedAlloc 16 20, OPtr 0, true); (Malloc 41, OPtr 24, true)] = false /\
  spec_check_nd 4096 64 [(AlignedAlloc 16 60, ONull, true)] = false /\
  spec_check_nd 4104 64 [(AlignedAlloc 16 57, OPtr 8, true)] = false /\
  spec_check_nd 4096 64 [(AlignedAlloc 16 20, OPtr 0, true); (Malloc 1, OPtr 24, true)] = true.
Proof.
  vm_compute. repeat split.
Qed.
