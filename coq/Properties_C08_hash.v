(* C08, hash-table part — property theorems only.
   "All memory goes through the caller's allocator and is released exactly once through the matching
   entry; nothing outstanding after zix_hash_free."

   Model: coq/HashAllocModel.v = HashModel (the model of /repo/src/hash.c of C03) instrumented with the
   blocks requested from / returned to the caller's allocator, events in the C code's order; block
   ids are request serial numbers (AllocModel.v, harness/valloc.h).  Log discipline: FaultSpec.log_run
   / log_ok.  Every theorem is for every hash function hf, every history of API calls and every
   allocation oracle o (false = the request is refused), including zix_hash_new being refused its
   first or its second request. *)
From Coq Require Import ZArith List Bool.
From Zix Require Import HashSpec HashModel HashProofsProbe HashProofsCalls HashProofsHist
  FaultSpec AllocModel AllocProofs HashAllocModel HashAllocProofs.
Import ListNotations.
Local Open Scope Z_scope.

(* (a) Erasing the block ids of the instrumented model gives HashModel, call by call and history by
   history: same results, same callback logs, same consumption of the oracle. *)
Theorem hash_alloc_erasure_step :
  forall hf rs c s x lg s',
    astep hf rs c s = (x, lg, s') -> step hf (er_rs rs) c (oracle s) = (er_step x, lg, oracle s').
Proof. exact astep_erase. Qed.
Print Assumptions hash_alloc_erasure_step.

Theorem hash_alloc_erasure :
  forall hf cs rs s x rs' s',
    arun hf rs cs s = (x, rs', s') -> run hf (er_rs rs) cs (oracle s) = (x, er_rs rs').
Proof. exact arun_erase. Qed.
Print Assumptions hash_alloc_erasure.

(* hence the C03 theorems hold of the instrumented table: every history on a freshly created table
   runs to completion with results the map allows, and the final table satisfies the invariant *)
Theorem hash_alloc_c03_transfer :
  forall hf o cs,
    match anew (ast0 o) with
    | (Some h, s) =>
        forall x rs' s', arun hf (h, None) cs s = (x, rs', s') ->
          exists l, x = Ret l /\ spec_run [] None cs (map fst l) /\ Inv hf (a_st (fst rs'))
    | (None, _) => True
    end.
Proof.
  intros hf o cs. pose proof (anew_blocks o) as N.
  destruct (anew (ast0 o)) as [[h|] s]; [|exact I].
  destruct N as (_ & ST & _). intros x rs' s' R. apply arun_erase in R.
  unfold er_rs in R. cbn [fst snd] in R. rewrite ST in R.
  destruct (run_ok hf cs hash_new None (oracle s) (Inv_new hf) Logic.I) as (l & st' & pend' & R' & SR & I' & _).
  rewrite R in R'. inversion R'; subst. exists l. split; [reflexivity|]. split; [exact SR|exact I'].
Qed.
Print Assumptions hash_alloc_c03_transfer.

(* (b) At every moment between two calls exactly two blocks are live -- the table struct and the
   current entries array (both obtained from the caller's allocator through the plain entry) -- the
   log is free of protocol errors (no double free, no foreign or mismatched release), and
   zix_hash_free leaves nothing outstanding.  When zix_hash_new is refused a request it returns NULL
   with nothing outstanding: no event at all (first request refused), or the struct requested and
   released again (second request refused). *)
Theorem hash_two_blocks :
  forall hf o cs,
    match anew (ast0 o) with
    | (Some h, s) =>
        forall x rs' s', arun hf (h, None) cs s = (x, rs', s') ->
          (exists l, x = Ret l) /\
          log_run [] (log s') = Some [(a_arr (fst rs'), Plain); (a_self (fst rs'), Plain)] /\
          log_ok (log (afree (fst rs') s')) [] = true
    | (None, s) =>
        log_ok (log s) [] = true /\
        (log s = [] \/ log s = [EAlloc Caller Plain 0; EFree Caller Plain 0])
    end.
Proof.
  intros hf o cs. pose proof (hash_alloc_c03_transfer hf o cs) as T. pose proof (anew_blocks o) as N.
  destruct (anew (ast0 o)) as [[h|] s].
  - destruct N as (W & _). intros x rs' s' R.
    destruct (T x rs' s' R) as (l & -> & _). split; [eauto|].
    pose proof (arun_blocks hf cs (h, None) s l rs' s' W R) as W'.
    split; [apply W'|]. apply wf_log_ok_nil. apply afree_ok. exact W'.
  - destruct N as (W & L). split; [apply wf_log_ok_nil; exact W|exact L].
Qed.
Print Assumptions hash_two_blocks.

(* the whole life of a table: zix_hash_new, any history, zix_hash_free -- nothing outstanding *)
Theorem hash_life_releases_everything :
  forall hf o cs, log_ok (hash_life hf o cs) [] = true.
Proof.
  intros hf o cs. unfold hash_life. pose proof (hash_two_blocks hf o cs) as T.
  destruct (anew (ast0 o)) as [[h|] s].
  - destruct (arun hf (h, None) cs s) as [[x rs'] s'] eqn:R.
    destruct (T x rs' s' eq_refl) as (_ & _ & OK). exact OK.
  - apply T.
Qed.
Print Assumptions hash_life_releases_everything.

(* ---- non-vacuity: a life with two grows, a refused shrink and a successful one *)
Example hash_life_example :
  hash_life hf_id [true; true; true; true; false]
    (map (fun k => OInsert (k, k)) [0; 1; 2; 3; 4; 5] ++ map ORemove [0; 1; 2; 3; 4; 5]) =
  [EAlloc Caller Plain 0; EAlloc Caller Plain 1;
   EAlloc Caller Plain 2; EFree Caller Plain 1;       (* grow 4 -> 8 *)
   EAlloc Caller Plain 3; EFree Caller Plain 2;       (* grow 8 -> 16 *)
                                                      (* request 4 refused: shrink fails, nothing released *)
   EAlloc Caller Plain 5; EFree Caller Plain 3;       (* shrink 16 -> 8 *)
   EAlloc Caller Plain 6; EFree Caller Plain 5;       (* shrink 8 -> 4 *)
   EFree Caller Plain 6; EFree Caller Plain 0].       (* zix_hash_free: array, struct *)
Proof. vm_compute. reflexivity. Qed.

Example hash_new_refused :
  hash_life hf_id [false] [] = [] /\
  hash_life hf_id [true; false] [] = [EAlloc Caller Plain 0; EFree Caller Plain 0].
Proof. split; vm_compute; reflexivity. Qed.
