(* C07 / C08 — the observable contract under allocation failure, as the simplest possible object.
   Containers are abstracted to a sorted list of integer keys (set or multiset).  The spec is
   TOLERANT: it is told which status the implementation reported for each operation and says
   whether that status is allowed and what the contents must be afterwards:
     - a documented failure (NO_MEM) leaves the contents exactly as before
       (except a removal that reports NO_MEM but hands back the removed element: then it completed);
     - anything else must be exactly what the fault-free abstract container answers.
   Definitions only. *)
From Coq Require Import ZArith List Bool.
Import ListNotations.
Local Open Scope Z_scope.

Inductive status := Success | Exists | NotFound | NoMem | OtherStatus.

Definition status_eqb (a b : status) : bool :=
  match a, b with
  | Success, Success | Exists, Exists | NotFound, NotFound | NoMem, NoMem | OtherStatus, OtherStatus => true
  | _, _ => false
  end.

Inductive op :=
| Ins (k : Z)
| Rem (k : Z)
| Find (k : Z)
| Clear.

Fixpoint mem (k : Z) (s : list Z) : bool :=
  match s with [] => false | x :: s' => Z.eqb x k || mem k s' end.

(* sorted insertion, after equal keys (stable) *)
Fixpoint sorted_insert (k : Z) (s : list Z) : list Z :=
  match s with
  | [] => [k]
  | x :: s' => if Z.leb x k then x :: sorted_insert k s' else k :: s
  end.

Fixpoint remove_one (k : Z) (s : list Z) : list Z :=
  match s with
  | [] => []
  | x :: s' => if Z.eqb x k then s' else x :: remove_one k s'
  end.

(* what the implementation reported for one operation *)
Record report := { r_status : status; r_out : option Z }.   (* r_out: element handed back (remove/find) *)

(* tol_step dup s o r = Some s'  : report r is allowed for op o in contents s, contents become s'
                      = None     : the report contradicts the contract *)
Definition tol_step (dup : bool) (s : list Z) (o : op) (r : report) : option (list Z) :=
  match o with
  | Ins k =>
      match r_status r with
      | NoMem => Some s                                   (* failed insertion: nothing changed *)
      | Exists => if negb dup && mem k s then Some s else None
      | Success => if negb dup && mem k s then None else Some (sorted_insert k s)
      | _ => None
      end
  | Rem k =>
      match r_status r, r_out r with
      | Success, Some k' => if mem k s && Z.eqb k k' then Some (remove_one k s) else None
      | NotFound, None => if mem k s then None else Some s
      | NoMem, Some k' => if mem k s && Z.eqb k k' then Some (remove_one k s) else None  (* completed; only the shrink failed *)
      | NoMem, None => if mem k s then Some s else None   (* failed before anything changed *)
      | _, _ => None
      end
  | Find k =>
      match r_status r, r_out r with
      | Success, Some k' => if mem k s && Z.eqb k k' then Some s else None
      | NotFound, None => if mem k s then None else Some s
      | _, _ => None
      end
  | Clear => match r_status r with Success => Some [] | _ => None end
  end.

Fixpoint tol_run (dup : bool) (s : list Z) (ops : list op) (rs : list report) : option (list Z) :=
  match ops, rs with
  | [], [] => Some s
  | o :: ops', r :: rs' =>
      match tol_step dup s o r with
      | Some s' => tol_run dup s' ops' rs'
      | None => None
      end
  | _, _ => None
  end.

(* the fault-free abstract container: the unique allowed non-NoMem report *)
Definition exact_step (dup : bool) (s : list Z) (o : op) : report * list Z :=
  match o with
  | Ins k => if negb dup && mem k s then ({| r_status := Exists; r_out := None |}, s)
             else ({| r_status := Success; r_out := None |}, sorted_insert k s)
  | Rem k => if mem k s then ({| r_status := Success; r_out := Some k |}, remove_one k s)
             else ({| r_status := NotFound; r_out := None |}, s)
  | Find k => if mem k s then ({| r_status := Success; r_out := Some k |}, s)
              else ({| r_status := NotFound; r_out := None |}, s)
  | Clear => ({| r_status := Success; r_out := None |}, [])
  end.

(* ---- allocation event logs (C08): every block requested from the caller's allocator and released
   exactly once through the matching entry *)
Inductive akind := Plain | Aligned.
Inductive owner := Caller | Default.
Inductive aevent :=
| EAlloc (w : owner) (k : akind) (id : nat)
| EFree (w : owner) (k : akind) (id : nat).

Definition akind_eqb a b := match a, b with Plain, Plain | Aligned, Aligned => true | _, _ => false end.
Definition owner_eqb a b := match a, b with Caller, Caller | Default, Default => true | _, _ => false end.

(* live blocks after a log; None = protocol error (double free, foreign/mismatched release, wrong allocator) *)
Fixpoint log_run (live : list (nat * akind)) (l : list aevent) : option (list (nat * akind)) :=
  match l with
  | [] => Some live
  | EAlloc w k id :: l' =>
      if owner_eqb w Caller && negb (existsb (fun b => Nat.eqb (fst b) id) live)
      then log_run ((id, k) :: live) l' else None
  | EFree w k id :: l' =>
      if owner_eqb w Caller && existsb (fun b => Nat.eqb (fst b) id && akind_eqb (snd b) k) live
      then log_run (filter (fun b => negb (Nat.eqb (fst b) id)) live) l' else None
  end.

(* a well-behaved call: no protocol error and exactly the blocks in `keep` outstanding *)
Definition log_ok (l : list aevent) (keep : list nat) : bool :=
  match log_run [] l with
  | Some live => Nat.eqb (length live) (length keep) && forallb (fun id => existsb (fun b => Nat.eqb (fst b) id) live) keep
  | None => false
  end.
