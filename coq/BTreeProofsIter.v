(* BTreeProofsIter — iterators of the B-tree model (leftmost, iter_get, btree_begin, climb,
   iter_increment, iter_equals) against positions in the in-order listing. *)
From Coq Require Import ZArith List Bool Arith Lia ZifyBool ZifyNat.
From Zix Require Import BTreeSpec BTreeModel BTreeProofsBase.
Import ListNotations.
Ltac Zify.zify_post_hook ::= Z.div_mod_to_equations.
Set Default Proof Using "All".

Section Iter.
  Variable elt : Type.
  Variable rank : elt -> Z.
  Variable dflt : elt.
  Variables L I : nat.
  Hypothesis HI : I = L / 2.
  Hypothesis HI3 : 3 <= I.

  Notation node := (node elt).
  Notation tree := (tree elt).
  Notation dnode := (@dnode elt).
  Notation asc := (@asc elt rank).
  Notation mono := (@monotone elt).

  (* ---------------------------------------------------------------- unfolding valid / pos *)
  Lemma valid_nil : forall n : node, valid n [] <-> False.
  Proof. reflexivity. Qed.

  Lemma valid_single : forall (n : node) i, valid n [i] <-> i < n_vals n.
  Proof. reflexivity. Qed.

  Lemma valid_cons : forall (n : node) i j q,
    valid n (i :: j :: q) <-> is_leaf n = false /\ i <= n_vals n /\ valid (child n i) (j :: q).
  Proof. reflexivity. Qed.

  Lemma valid_nonnil : forall (n : node) p, valid n p -> p <> [].
  Proof. intros n [|i p] H; [exact (False_ind _ H)|discriminate]. Qed.

  Lemma pos_leaf : forall (vs : list elt) i q, pos (Leaf vs) (i :: q) = i.
  Proof. intros vs i [|j q]; reflexivity. Qed.

  Lemma pos_single_inode : forall (vs : list elt) cs i,
    pos (Inode vs cs) [i] = length (pre vs cs i) + length (elements (nth i cs dnode)).
  Proof. reflexivity. Qed.

  Lemma pos_cons_inode : forall (vs : list elt) cs i j q,
    pos (Inode vs cs) (i :: j :: q) = length (pre vs cs i) + pos (nth i cs dnode) (j :: q).
  Proof. reflexivity. Qed.

  Lemma subnode_app : forall (n : node) p q, subnode n (p ++ q) = subnode (subnode n p) q.
  Proof. intros n p. revert n. induction p as [|i p IH]; intros n q; cbn [app subnode]; auto. Qed.

  Lemma root_ok_kids : forall h (n : node), root_ok L I h n -> kids_ok L I h n.
  Proof. intros h n [H _]. exact H. Qed.

  (* ---------------------------------------------------------------- 1. leftmost *)
  Lemma leftmost_nonnil : forall n : node, leftmost n <> [].
  Proof. intros [vs|vs cs]; cbn; discriminate. Qed.

  Lemma leftmost_pos : forall h (n : node), wfn L I h n -> valid n (leftmost n) /\ pos n (leftmost n) = 0.
  Proof.
    induction h as [|h IH]; intros [vs|vs cs] H; cbn [wfn] in H; try tauto.
    - destruct H as [_ H]. pose proof (minL_ge1 _ rank dflt L I HI HI3) as HmL.
      cbn [leftmost]. rewrite valid_single, pos_leaf. unfold n_vals; cbn [vals]. lia.
    - destruct H as (Hh & Hl & Hb & Hf). destruct cs as [|c cs]; [cbn in Hl; lia|].
      pose proof (Forall_inv Hf) as Hc. destruct (IH c Hc) as [Hv Hp].
      cbn [leftmost]. destruct (leftmost c) as [|j q] eqn:E; [exfalso; eapply leftmost_nonnil; eauto|].
      split.
      + apply valid_cons. cbn [is_leaf child children nth]. repeat split; auto. lia.
      + rewrite pos_cons_inode. rewrite (pre_0 _ rank dflt vs (c :: cs)). cbn [nth length]. lia.
  Qed.

  (* the same for a page whose own occupancy is not bounded below, provided it is not empty *)
  Lemma leftmost_pos_kids : forall h (n : node), kids_ok L I h n -> elements n <> [] ->
    valid n (leftmost n) /\ pos n (leftmost n) = 0.
  Proof.
    intros [|h] [vs|vs cs] H Hne; cbn [kids_ok] in H; try tauto.
    - cbn [leftmost]. rewrite valid_single, pos_leaf. unfold n_vals; cbn [vals elements] in *.
      destruct vs; [congruence|cbn; lia].
    - destruct H as (Hh & Hl & Hf). destruct cs as [|c cs]; [cbn in Hl; lia|].
      pose proof (Forall_inv Hf) as Hc. destruct (leftmost_pos h c Hc) as [Hv Hp].
      cbn [leftmost]. destruct (leftmost c) as [|j q] eqn:E; [exfalso; eapply leftmost_nonnil; eauto|].
      split.
      + apply valid_cons. cbn [is_leaf child children nth]. repeat split; auto. lia.
      + rewrite pos_cons_inode. rewrite (pre_0 _ rank dflt vs (c :: cs)). cbn [nth length]. lia.
  Qed.

  (* ---------------------------------------------------------------- 2. iter_get *)
  Lemma get_pos_kids : forall p h (n : node), kids_ok L I h n -> valid n p ->
    pos n p < length (elements n) /\
    nth (last p 0) (vals (subnode n (removelast p))) dflt = nth (pos n p) (elements n) dflt.
  Proof.
    induction p as [|i p IH]; intros h n Hk Hv; [exact (False_ind _ Hv)|].
    destruct p as [|j q].
    - cbn [last removelast subnode]. apply (proj1 (valid_single _ _)) in Hv. unfold n_vals in Hv.
      destruct n as [vs|vs cs]; cbn [vals] in *.
      + rewrite pos_leaf. cbn [elements]. auto.
      + destruct h as [|h]; cbn [kids_ok] in Hk; [tauto|]. destruct Hk as (Hh & Hl & Hf).
        rewrite pos_single_inode. rewrite (elements_split _ rank dflt vs cs i) by lia.
        rewrite (post_step _ rank dflt vs cs i) by lia. rewrite !app_length. cbn [length]. split; [lia|].
        rewrite app_nth2 by lia. rewrite app_nth2 by lia.
        replace (_ - _ - _) with 0 by lia. reflexivity.
    - apply (proj1 (valid_cons _ _ _ _)) in Hv as (Hleaf & Hi & Hv). destruct n as [vs|vs cs]; [discriminate|].
      unfold n_vals in Hi. cbn [vals child children] in *.
      destruct h as [|h]; [exact (False_ind _ Hk)|].
      pose proof (kids_ok_child _ rank dflt L I HI HI3 h vs cs i Hk Hi) as Hw.
      apply (wfn_kids_ok _ rank dflt L I HI HI3) in Hw.
      destruct (IH h _ Hw Hv) as [Hlt Hnth].
      destruct Hk as (Hh & Hl & Hf).
      rewrite pos_cons_inode.
      change (last (i :: j :: q) 0) with (last (j :: q) 0).
      change (removelast (i :: j :: q)) with (i :: removelast (j :: q)).
      change (subnode (Inode vs cs) (i :: removelast (j :: q)))
        with (subnode (nth i cs dnode) (removelast (j :: q))). rewrite Hnth.
      rewrite (elements_split _ rank dflt vs cs i) by lia. rewrite !app_length. split; [lia|].
      rewrite app_nth2 by lia.
      replace (_ + _ - _) with (pos (nth i cs dnode) (j :: q)) by lia.
      rewrite app_nth1 by lia. reflexivity.
  Qed.

  Lemma get_pos : forall (r : node) p, shape_ok L I r -> valid r p ->
    pos r p < length (elements r) /\ iter_get dflt r (IAt p) = nth (pos r p) (elements r) dflt.
  Proof.
    intros r p [h Hr] Hv. unfold iter_get. apply (get_pos_kids p h r); auto. apply Hr.
  Qed.
End Iter.
