(* BTreeProofsIter — iterators of the B-tree model (leftmost, iter_get, btree_begin, climb,
   iter_increment, iter_equals) against positions in the in-order listing. *)
From Coq Require Import ZArith List Bool Arith Lia ZifyBool ZifyNat.
From Zix Require Import BTreeSpec BTreeModel BTreeProofsBase.
Import ListNotations.
Ltac Zify.zify_post_hook ::= Z.div_mod_to_equations.
Set Default Proof Using "All".

Section Iter.
  Variable elt : Type.
  Variable rank : elt -> Z.
  Variable dflt : elt.
  Variables L I : nat.
  Hypothesis HI : I = L / 2.
  Hypothesis HI3 : 3 <= I.

  Notation node := (node elt).
  Notation tree := (tree elt).
  Notation dnode := (@dnode elt).
  Notation asc := (@asc elt rank).
  Notation mono := (@monotone elt).

  (* ---------------------------------------------------------------- unfolding valid / pos *)
  Lemma valid_nil : forall n : node, valid n [] <-> False.
  Proof. reflexivity. Qed.

  Lemma valid_single : forall (n : node) i, valid n [i] <-> i < n_vals n.
  Proof. reflexivity. Qed.

  Lemma valid_cons : forall (n : node) i j q,
    valid n (i :: j :: q) <-> is_leaf n = false /\ i <= n_vals n /\ valid (child n i) (j :: q).
  Proof. reflexivity. Qed.

  Lemma valid_nonnil : forall (n : node) p, valid n p -> p <> [].
  Proof. intros n [|i p] H; [exact (False_ind _ H)|discriminate]. Qed.

  Lemma pos_leaf : forall (vs : list elt) i q, pos (Leaf vs) (i :: q) = i.
  Proof. intros vs i [|j q]; reflexivity. Qed.

  Lemma pos_single_inode : forall (vs : list elt) cs i,
    pos (Inode vs cs) [i] = length (pre vs cs i) + length (elements (nth i cs dnode)).
  Proof. reflexivity. Qed.

  Lemma pos_cons_inode : forall (vs : list elt) cs i j q,
    pos (Inode vs cs) (i :: j :: q) = length (pre vs cs i) + pos (nth i cs dnode) (j :: q).
  Proof. reflexivity. Qed.

  Lemma subnode_app : forall (n : node) p q, subnode n (p ++ q) = subnode (subnode n p) q.
  Proof. intros n p. revert n. induction p as [|i p IH]; intros n q; cbn [app subnode]; auto. Qed.

  Lemma root_ok_kids : forall h (n : node), root_ok L I h n -> kids_ok L I h n.
  Proof. intros h n [H _]. exact H. Qed.

  (* ---------------------------------------------------------------- 1. leftmost *)
  Lemma leftmost_nonnil : forall n : node, leftmost n <> [].
  Proof. intros [vs|vs cs]; cbn; discriminate. Qed.

  Lemma leftmost_pos : forall h (n : node), wfn L I h n -> valid n (leftmost n) /\ pos n (leftmost n) = 0.
  Proof.
    induction h as [|h IH]; intros [vs|vs cs] H; cbn [wfn] in H; try tauto.
    - destruct H as [_ H]. pose proof (minL_ge1 _ rank dflt L I HI HI3) as HmL.
      cbn [leftmost]. rewrite valid_single, pos_leaf. unfold n_vals; cbn [vals]. lia.
    - destruct H as (Hh & Hl & Hb & Hf). destruct cs as [|c cs]; [cbn in Hl; lia|].
      pose proof (Forall_inv Hf) as Hc. destruct (IH c Hc) as [Hv Hp].
      cbn [leftmost]. destruct (leftmost c) as [|j q] eqn:E; [exfalso; eapply leftmost_nonnil; eauto|].
      split.
      + apply valid_cons. cbn [is_leaf child children nth]. repeat split; auto. lia.
      + rewrite pos_cons_inode. rewrite (pre_0 _ rank dflt vs (c :: cs)). cbn [nth length]. lia.
  Qed.

  (* the same for a page whose own occupancy is not bounded below, provided it is not empty *)
  Lemma leftmost_pos_kids : forall h (n : node), kids_ok L I h n -> elements n <> [] ->
    valid n (leftmost n) /\ pos n (leftmost n) = 0.
  Proof.
    intros [|h] [vs|vs cs] H Hne; cbn [kids_ok] in H; try tauto.
    - cbn [leftmost]. rewrite valid_single, pos_leaf. unfold n_vals; cbn [vals elements] in *.
      destruct vs; [congruence|cbn; lia].
    - destruct H as (Hh & Hl & Hf). destruct cs as [|c cs]; [cbn in Hl; lia|].
      pose proof (Forall_inv Hf) as Hc. destruct (leftmost_pos h c Hc) as [Hv Hp].
      cbn [leftmost]. destruct (leftmost c) as [|j q] eqn:E; [exfalso; eapply leftmost_nonnil; eauto|].
      split.
      + apply valid_cons. cbn [is_leaf child children nth]. repeat split; auto. lia.
      + rewrite pos_cons_inode. rewrite (pre_0 _ rank dflt vs (c :: cs)). cbn [nth length]. lia.
  Qed.

  (* ---------------------------------------------------------------- 2. iter_get *)
  Lemma get_pos_kids : forall p h (n : node), kids_ok L I h n -> valid n p ->
    pos n p < length (elements n) /\
    nth (last p 0) (vals (subnode n (removelast p))) dflt = nth (pos n p) (elements n) dflt.
  Proof.
    induction p as [|i p IH]; intros h n Hk Hv; [exact (False_ind _ Hv)|].
    destruct p as [|j q].
    - cbn [last removelast subnode]. apply (proj1 (valid_single _ _)) in Hv. unfold n_vals in Hv.
      destruct n as [vs|vs cs]; cbn [vals] in *.
      + rewrite pos_leaf. cbn [elements]. auto.
      + destruct h as [|h]; cbn [kids_ok] in Hk; [tauto|]. destruct Hk as (Hh & Hl & Hf).
        rewrite pos_single_inode. rewrite (elements_split _ rank dflt vs cs i) by lia.
        rewrite (post_step _ rank dflt vs cs i) by lia. rewrite !app_length. cbn [length]. split; [lia|].
        rewrite app_nth2 by lia. rewrite app_nth2 by lia.
        replace (_ - _ - _) with 0 by lia. reflexivity.
    - apply (proj1 (valid_cons _ _ _ _)) in Hv as (Hleaf & Hi & Hv). destruct n as [vs|vs cs]; [discriminate|].
      unfold n_vals in Hi. cbn [vals child children] in *.
      destruct h as [|h]; [exact (False_ind _ Hk)|].
      pose proof (kids_ok_child _ rank dflt L I HI HI3 h vs cs i Hk Hi) as Hw.
      apply (wfn_kids_ok _ rank dflt L I HI HI3) in Hw.
      destruct (IH h _ Hw Hv) as [Hlt Hnth].
      destruct Hk as (Hh & Hl & Hf).
      rewrite pos_cons_inode.
      change (last (i :: j :: q) 0) with (last (j :: q) 0).
      change (removelast (i :: j :: q)) with (i :: removelast (j :: q)).
      change (subnode (Inode vs cs) (i :: removelast (j :: q)))
        with (subnode (nth i cs dnode) (removelast (j :: q))). rewrite Hnth.
      rewrite (elements_split _ rank dflt vs cs i) by lia. rewrite !app_length. split; [lia|].
      rewrite app_nth2 by lia.
      replace (_ + _ - _) with (pos (nth i cs dnode) (j :: q)) by lia.
      rewrite app_nth1 by lia. reflexivity.
  Qed.

  Lemma get_pos : forall (r : node) p, shape_ok L I r -> valid r p ->
    pos r p < length (elements r) /\ iter_get dflt r (IAt p) = nth (pos r p) (elements r) dflt.
  Proof.
    intros r p [h Hr] Hv. unfold iter_get. apply (get_pos_kids p h r); auto. apply Hr.
  Qed.

  (* ---------------------------------------------------------------- 3. iter_increment *)
  (* the longest non-empty prefix of p whose last index is a value index of its page: what the
     climbing loop computes, as a recursion from the root *)
  Fixpoint up_in (n : node) (p : list nat) : option (list nat) :=
    match p with
    | [] => None
    | i :: q => match up_in (child n i) q with
                | Some q' => Some (i :: q')
                | None => if i <? n_vals n then Some [i] else None
                end
    end.

  (* the successor of path p inside the subtree n; None = p was the last position of n *)
  Fixpoint next_in (n : node) (p : list nat) : option (list nat) :=
    match p with
    | [] => None
    | i :: q =>
      match q with
      | [] => if is_leaf n then (if S i <? n_vals n then Some [S i] else None)
              else Some (S i :: leftmost (child n (S i)))
      | _ :: _ => match next_in (child n i) q with
                  | Some q' => Some (i :: q')
                  | None => if i <? n_vals n then Some [i] else None
                  end
      end
    end.

  Lemma next_in_cons : forall (n : node) i q, q <> [] ->
    next_in n (i :: q) = match next_in (child n i) q with
                         | Some q' => Some (i :: q')
                         | None => if i <? n_vals n then Some [i] else None
                         end.
  Proof. intros n i [|j q] H; [congruence|reflexivity]. Qed.

  Lemma climb_cons : forall (r : node) i rest,
    climb r (i :: rest) =
    if n_vals (subnode r (rev rest)) <=? i then climb r rest else IAt (rev (i :: rest)).
  Proof.
    intros r i rest. cbn [climb]. destruct (n_vals (subnode r (rev rest)) <=? i); [|reflexivity].
    destruct rest; reflexivity.
  Qed.

  Lemma climb_up : forall (r : node) s pfx,
    climb r (rev (pfx ++ s)) =
    match up_in (subnode r pfx) s with Some q => IAt (pfx ++ q) | None => climb r (rev pfx) end.
  Proof.
    intros r. induction s as [|i q IH]; intros pfx.
    - rewrite app_nil_r. reflexivity.
    - replace (pfx ++ i :: q) with ((pfx ++ [i]) ++ q) by (rewrite <- app_assoc; reflexivity).
      rewrite IH. rewrite subnode_app. cbn [subnode up_in].
      destruct (up_in (child (subnode r pfx) i) q) as [q'|].
      + rewrite <- app_assoc. reflexivity.
      + rewrite rev_app_distr. cbn [rev app]. rewrite climb_cons. rewrite rev_involutive.
        destruct (i <? n_vals (subnode r pfx)) eqn:E1;
          destruct (n_vals (subnode r pfx) <=? i) eqn:E2; try lia; try reflexivity.
        cbn [rev]. rewrite rev_involutive. reflexivity.
  Qed.

  Lemma next_in_leaf : forall pre (n : node) l, is_leaf (subnode n pre) = true ->
    next_in n (pre ++ [l]) = up_in n (pre ++ [S l]).
  Proof.
    induction pre as [|i pre IH]; intros n l H.
    - cbn [app subnode] in *. cbn [next_in up_in]. rewrite H. reflexivity.
    - cbn [app subnode] in *. rewrite next_in_cons by (destruct pre; discriminate).
      cbn [up_in]. rewrite IH by assumption. reflexivity.
  Qed.

  Lemma next_in_inode : forall pre (n : node) l, is_leaf (subnode n pre) = false ->
    next_in n (pre ++ [l]) = Some (pre ++ S l :: leftmost (child (subnode n pre) (S l))).
  Proof.
    induction pre as [|i pre IH]; intros n l H.
    - cbn [app subnode] in *. cbn [next_in]. rewrite H. reflexivity.
    - cbn [app subnode] in *. rewrite next_in_cons by (destruct pre; discriminate).
      rewrite IH by assumption. reflexivity.
  Qed.

  (* iter_increment is next_in from the root (no invariant needed) *)
  Lemma incr_next_in : forall (r : node) p, p <> [] ->
    iter_increment r (IAt p) =
    match next_in r p with Some q => (SUCCESS, IAt q) | None => (REACHED_END, IEnd) end.
  Proof.
    intros r p H. destruct (exists_last H) as [pre [l ->]]. unfold iter_increment.
    rewrite removelast_last, last_last. destruct (is_leaf (subnode r pre)) eqn:E.
    - rewrite next_in_leaf by assumption.
      replace (S l :: rev pre) with (rev ([] ++ pre ++ [S l]))
        by (cbn [app]; rewrite rev_app_distr; reflexivity).
      rewrite climb_up. cbn [subnode rev climb app].
      destruct (up_in r (pre ++ [S l])); reflexivity.
    - rewrite next_in_inode by assumption. reflexivity.
  Qed.

  (* next_in moves the position by one, and fails exactly at the last position of the subtree *)
  Lemma next_in_spec : forall p h (n : node), kids_ok L I h n -> valid n p ->
    match next_in n p with
    | Some q => valid n q /\ pos n q = S (pos n p)
    | None => S (pos n p) = length (elements n)
    end.
  Proof.
    induction p as [|i p IH]; intros h n Hk Hv; [exact (False_ind _ Hv)|].
    destruct p as [|j q].
    - apply (proj1 (valid_single _ _)) in Hv. cbn [next_in].
      destruct n as [vs|vs cs]; cbn [is_leaf].
      + change (n_vals (Leaf vs)) with (length vs) in *. destruct (S i <? length vs) eqn:E.
        * rewrite valid_single, !pos_leaf. change (n_vals (Leaf vs)) with (length vs). lia.
        * rewrite pos_leaf. cbn [elements]. lia.
      + change (n_vals (Inode vs cs)) with (length vs) in Hv.
        change (child (Inode vs cs) (S i)) with (nth (S i) cs dnode).
        destruct h as [|h]; [exact (False_ind _ Hk)|].
        assert (Hi : S i <= length vs) by lia.
        pose proof (kids_ok_child _ rank dflt L I HI HI3 h vs cs (S i) Hk Hi) as Hw.
        destruct (leftmost_pos h _ Hw) as [Hlv Hlp].
        destruct Hk as (Hh & Hl & Hf).
        destruct (leftmost (nth (S i) cs dnode)) as [|j q] eqn:E;
          [exfalso; eapply leftmost_nonnil; eauto|].
        split.
        * apply valid_cons. repeat split; [exact Hi|exact Hlv].
        * rewrite pos_cons_inode, pos_single_inode, Hlp.
          rewrite (pre_S _ rank dflt vs cs i) by lia. rewrite !app_length. cbn [length]. lia.
    - apply (proj1 (valid_cons _ _ _ _)) in Hv as (Hleaf & Hi & Hv).
      destruct n as [vs|vs cs]; [discriminate|].
      unfold n_vals in Hi. cbn [vals child children] in *.
      destruct h as [|h]; [exact (False_ind _ Hk)|].
      pose proof (kids_ok_child _ rank dflt L I HI HI3 h vs cs i Hk Hi) as Hw.
      apply (wfn_kids_ok _ rank dflt L I HI HI3) in Hw.
      specialize (IH h _ Hw Hv). destruct Hk as (Hh & Hl & Hf).
      rewrite next_in_cons by discriminate.
      change (child (Inode vs cs) i) with (nth i cs dnode).
      change (n_vals (Inode vs cs)) with (length vs).
      destruct (next_in (nth i cs dnode) (j :: q)) as [q'|].
      + destruct IH as [Hv' Hp']. destruct q' as [|j' q'']; [exact (False_ind _ Hv')|]. split.
        * apply valid_cons. repeat split; [exact Hi|exact Hv'].
        * rewrite !pos_cons_inode. lia.
      + destruct (i <? length vs) eqn:E.
        * split.
          -- apply valid_single. change (n_vals (Inode vs cs)) with (length vs). lia.
          -- rewrite pos_single_inode, pos_cons_inode. lia.
        * rewrite pos_cons_inode. rewrite (elements_split _ rank dflt vs cs i) by lia.
          rewrite (post_end _ rank dflt vs cs i) by lia. rewrite !app_length. cbn [length]. lia.
  Qed.

  (* for any page whose children are well-formed (root or not) *)
  Lemma increment_pos_kids : forall h (n : node) p, kids_ok L I h n -> valid n p ->
    match iter_increment n (IAt p) with
    | (st, IAt q) => st = SUCCESS /\ valid n q /\ pos n q = S (pos n p)
    | (st, IEnd) => st = REACHED_END /\ S (pos n p) = length (elements n)
    end.
  Proof.
    intros h n p Hk Hv. rewrite incr_next_in by (eapply valid_nonnil; eauto).
    pose proof (next_in_spec p h n Hk Hv) as H. destruct (next_in n p) as [q|]; auto.
  Qed.

  Lemma increment_pos : forall (r : node) p, shape_ok L I r -> valid r p ->
    match iter_increment r (IAt p) with
    | (st, IAt q) => st = SUCCESS /\ valid r q /\ pos r q = S (pos r p)
    | (st, IEnd) => st = REACHED_END /\ S (pos r p) = length (elements r)
    end.
  Proof. intros r p [h Hr] Hv. apply (increment_pos_kids h); auto. apply Hr. Qed.

  (* ---------------------------------------------------------------- 4. btree_begin *)
  Lemma begin_pos : forall t : tree, Inv rank L I t ->
    match btree_begin t with
    | IAt p => valid (root t) p /\ pos (root t) p = 0 /\ elements (root t) <> []
    | IEnd => elements (root t) = []
    end.
  Proof.
    intros t ([h Hr] & Hasc & Hsz). unfold btree_begin. destruct (0 <? size t)%Z eqn:E.
    - assert (Hne : elements (root t) <> []).
      { intros Hnil. rewrite Hnil in Hsz. cbn [length] in Hsz. lia. }
      destruct (leftmost_pos_kids h (root t) (root_ok_kids _ _ Hr) Hne) as [Hv Hp]. auto.
    - destruct (elements (root t)); [reflexivity|]. cbn [length] in Hsz. lia.
  Qed.

  (* ---------------------------------------------------------------- 6. iter_equals *)
  Lemma path_eqb_spec : forall p q : list nat,
    (length p =? length q) && forallb (fun x => fst x =? snd x) (combine p q) = true <-> p = q.
  Proof.
    induction p as [|i p IH]; intros [|j q]; cbn [length combine forallb fst snd]; split; intros H;
      try reflexivity; try discriminate.
    - apply andb_true_iff in H as [H1 H2]. apply andb_true_iff in H2 as [H2 H3].
      apply Nat.eqb_eq in H2. f_equal; [assumption|]. apply IH.
      apply andb_true_iff. split; [|assumption]. apply Nat.eqb_eq. apply Nat.eqb_eq in H1. lia.
    - injection H as Hi Hp. apply IH in Hp. apply andb_true_iff in Hp as [H1 H2].
      apply andb_true_iff. split; [|apply andb_true_iff; split; [apply Nat.eqb_eq; assumption|assumption]].
      apply Nat.eqb_eq. apply Nat.eqb_eq in H1. lia.
  Qed.

  Lemma iter_equals_spec : forall a b, iter_equals a b = true <-> a = b.
  Proof.
    intros [|p] [|q]; cbn [iter_equals]; split; intros H; try reflexivity; try discriminate.
    - f_equal. apply path_eqb_spec. assumption.
    - apply path_eqb_spec. congruence.
  Qed.

  (* ---------------------------------------------------------------- 5. positions identify paths *)
  Lemma pre_mono : forall (vs : list elt) cs i j, i < j -> j <= length vs -> j <= length cs ->
    length (pre vs cs i) + length (elements (nth i cs dnode)) + 1 <= length (pre vs cs j).
  Proof.
    intros vs cs i j Hij. induction j as [|j IH]; intros Hj Hc; [lia|].
    rewrite (pre_S _ rank dflt vs cs j) by lia. rewrite !app_length. cbn [length].
    destruct (Nat.eq_dec i j) as [->|Hne]; [lia|]. assert (i < j) by lia. specialize (IH H). lia.
  Qed.

  (* bounds of the position of a path through child i *)
  Lemma pos_bounds : forall h (vs : list elt) cs i q, kids_ok L I h (Inode vs cs) -> valid (Inode vs cs) (i :: q) ->
    length (pre vs cs i) <= pos (Inode vs cs) (i :: q) /\
    pos (Inode vs cs) (i :: q) <= length (pre vs cs i) + length (elements (nth i cs dnode)) /\
    (pos (Inode vs cs) (i :: q) = length (pre vs cs i) + length (elements (nth i cs dnode)) <-> q = []).
  Proof.
    intros h vs cs i [|j q] Hk Hv.
    - rewrite pos_single_inode. repeat split; auto; lia.
    - apply (proj1 (valid_cons _ _ _ _)) in Hv as (_ & Hi & Hv).
      change (n_vals (Inode vs cs)) with (length vs) in Hi.
      change (child (Inode vs cs) i) with (nth i cs dnode) in Hv.
      destruct h as [|h]; [exact (False_ind _ Hk)|].
      pose proof (kids_ok_child _ rank dflt L I HI HI3 h vs cs i Hk Hi) as Hw.
      apply (wfn_kids_ok _ rank dflt L I HI HI3) in Hw.
      destruct (get_pos_kids _ h _ Hw Hv) as [Hlt _].
      rewrite pos_cons_inode. repeat split; try lia. discriminate.
  Qed.

  Lemma pos_inj_kids : forall p q h (n : node), kids_ok L I h n -> valid n p -> valid n q ->
    pos n p = pos n q -> p = q.
  Proof.
    induction p as [|i p IH]; intros q h n Hk Hp Hq E; [exact (False_ind _ Hp)|].
    destruct q as [|j q]; [exact (False_ind _ Hq)|].
    destruct n as [vs|vs cs].
    - destruct p as [|i' p]; [|apply (proj1 (valid_cons _ _ _ _)) in Hp as (Hl & _); discriminate].
      destruct q as [|j' q]; [|apply (proj1 (valid_cons _ _ _ _)) in Hq as (Hl & _); discriminate].
      rewrite !pos_leaf in E. congruence.
    - pose proof (pos_bounds h vs cs i p Hk Hp) as (Ha1 & Ha2 & Ha3).
      pose proof (pos_bounds h vs cs j q Hk Hq) as (Hb1 & Hb2 & Hb3).
      assert (Hi : i <= length vs).
      { destruct p; [apply (proj1 (valid_single _ _)) in Hp|apply (proj1 (valid_cons _ _ _ _)) in Hp as (_ & Hp & _)];
          change (n_vals (Inode vs cs)) with (length vs) in Hp; lia. }
      assert (Hj : j <= length vs).
      { destruct q; [apply (proj1 (valid_single _ _)) in Hq|apply (proj1 (valid_cons _ _ _ _)) in Hq as (_ & Hq & _)];
          change (n_vals (Inode vs cs)) with (length vs) in Hq; lia. }
      destruct h as [|h]; [exact (False_ind _ Hk)|].
      assert (Hl : length cs = S (length vs)) by apply Hk.
      assert (i = j).
      { destruct (Nat.lt_trichotomy i j) as [Hlt|[Heq|Hgt]]; [|assumption|].
        - pose proof (pre_mono vs cs i j Hlt Hj ltac:(lia)). lia.
        - pose proof (pre_mono vs cs j i Hgt Hi ltac:(lia)). lia. }
      subst j. f_equal.
      destruct p as [|i' p], q as [|j' q]; try reflexivity.
      + exfalso. assert (j' :: q = []) by (apply Hb3; rewrite <- E; apply Ha3; reflexivity). discriminate.
      + exfalso. assert (i' :: p = []) by (apply Ha3; rewrite E; apply Hb3; reflexivity). discriminate.
      + apply (proj1 (valid_cons _ _ _ _)) in Hp as (_ & _ & Hp).
        apply (proj1 (valid_cons _ _ _ _)) in Hq as (_ & _ & Hq).
        change (child (Inode vs cs) i) with (nth i cs dnode) in Hp, Hq.
        pose proof (kids_ok_child _ rank dflt L I HI HI3 h vs cs i Hk Hi) as Hw.
        apply (wfn_kids_ok _ rank dflt L I HI HI3) in Hw.
        rewrite !pos_cons_inode in E. apply (IH _ h _ Hw Hp Hq). lia.
  Qed.

  Lemma pos_inj : forall (r : node) p q, shape_ok L I r -> valid r p -> valid r q -> pos r p = pos r q -> p = q.
  Proof. intros r p q [h Hr] Hp Hq E. apply (pos_inj_kids p q h r); auto. apply Hr. Qed.

  (* ---------------------------------------------------------------- 7./8. walking *)
  Lemma walk_end : forall fuel (r : node), walk dflt fuel r IEnd = [].
  Proof. intros [|f] r; reflexivity. Qed.

  Theorem walk_suffix : forall (r : node) p fuel, shape_ok L I r -> valid r p ->
    length (elements r) - pos r p <= fuel ->
    walk dflt fuel r (IAt p) = skipn (pos r p) (elements r).
  Proof.
    intros r p fuel Hr. revert p. induction fuel as [|f IH]; intros p Hv Hf.
    - destruct (get_pos r p Hr Hv) as [Hlt _]. lia.
    - destruct (get_pos r p Hr Hv) as [Hlt Hget].
      change (walk dflt (S f) r (IAt p))
        with (iter_get dflt r (IAt p) :: walk dflt f r (snd (iter_increment r (IAt p)))).
      rewrite Hget. rewrite (skipn_nth_cons (elements r) (pos r p) dflt) by assumption. f_equal.
      pose proof (increment_pos r p Hr Hv) as Hinc.
      destruct (iter_increment r (IAt p)) as [st [|q]]; cbn [snd].
      + destruct Hinc as [_ Hinc]. rewrite walk_end. rewrite Hinc. rewrite skipn_all. reflexivity.
      + destruct Hinc as (_ & Hq & Hpq). rewrite IH by (auto; lia). rewrite Hpq. reflexivity.
  Qed.

  Theorem iteration : forall t : tree, Inv rank L I t ->
    walk dflt (S (length (elements (root t)))) (root t) (btree_begin t) = elements (root t).
  Proof.
    intros t Ht. pose proof (begin_pos t Ht) as Hb. destruct (btree_begin t) as [|p].
    - rewrite Hb. reflexivity.
    - destruct Hb as (Hv & Hp & _).
      rewrite walk_suffix; [rewrite Hp; reflexivity|exact (Inv_shape _ rank dflt L I HI HI3 t Ht)|assumption|lia].
  Qed.

  (* ---------------------------------------------------------------- 9. equality of iterators *)
  Theorem iter_equals_iff_same_position : forall (r : node) a b, shape_ok L I r ->
    iter_valid r a -> iter_valid r b ->
    (iter_equals a b = true <-> iter_pos r a = iter_pos r b).
  Proof.
    intros r a b Hr Ha Hb. rewrite iter_equals_spec.
    destruct a as [|p], b as [|q]; cbn [iter_pos iter_valid] in *; split; intros H;
      try reflexivity; try discriminate.
    - congruence.
    - f_equal. apply (pos_inj r p q); auto. congruence.
  Qed.
End Iter.

Global Arguments up_in {elt}.
Global Arguments next_in {elt}.
