(* C15 — lemmas, links part 1: path resolution with symbolic links (composition over the names of a path,
   stability when entries are added) and the component-wise spec of "mkdir -p" on it. *)
From Coq Require Import ZArith List Bool Lia.
From Zix Require Import CopySpec CopyModel FsSpec FsModel FsProofs2 FsLinkSpec FsLinkModel.
Import ListNotations.
Local Open Scope Z_scope.

(* ---------------------------------------------------------------- lookups under extension *)
Lemma lassoc_app_some : forall fs x l n, lassoc fs l = Some n -> lassoc (fs ++ x) l = Some n.
Proof.
  induction fs as [|[l' n'] fs IH]; intros x l n H; [discriminate|].
  cbn [lassoc app] in *. destruct (loc_eqb l' l); [exact H|apply IH; exact H].
Qed.

Lemma lassoc_app_new : forall fs l n, lassoc fs l = None -> lassoc (fs ++ [(l, n)]) l = Some n.
Proof.
  induction fs as [|[l' n'] fs IH]; intros l n H.
  - cbn. rewrite loc_eqb_refl. reflexivity.
  - cbn [lassoc app] in *. destruct (loc_eqb l' l); [discriminate|apply IH; exact H].
Qed.

Lemma llookup_app_some : forall fs x l n, llookup fs l = Some n -> llookup (fs ++ x) l = Some n.
Proof. intros fs x [|c l] n H; [exact H|]. cbn [llookup] in *. apply lassoc_app_some. exact H. Qed.

Lemma llookup_app_new : forall fs l c n, llookup fs (l ++ [c]) = None ->
  llookup (fs ++ [(l ++ [c], n)]) (l ++ [c]) = Some n.
Proof.
  intros fs l c n H. destruct (l ++ [c]) eqn:E; [destruct l; discriminate|].
  cbn [llookup] in *. apply lassoc_app_new. exact H.
Qed.

Definition lextends (fs fs' : lfs) : Prop := forall l n, llookup fs l = Some n -> llookup fs' l = Some n.
Lemma lextends_refl : forall fs, lextends fs fs. Proof. intros fs l n H. exact H. Qed.
Lemma lextends_trans : forall a b c, lextends a b -> lextends b c -> lextends a c.
Proof. unfold lextends. auto. Qed.
Lemma lextends_app : forall fs x, lextends fs (fs ++ x).
Proof. intros fs x l n H. apply llookup_app_some. exact H. Qed.

(* ---------------------------------------------------------------- the resolution, one level unfolded *)
Definition link_k (b : nat) (fs : lfs) : follow_fn :=
  match b with
  | O => fun _ _ _ => RErr ELOOP
  | S b' => fun l t rest =>
      match t with
      | [] => RErr ENOENT
      | _ => lwalk b' fs (if absolute t then [] else l) (pcomps t ++ rest)
      end
  end.

Lemma lwalk_eq : forall b fs l cs, lwalk b fs l cs = walk_go (link_k b fs) fs b l cs.
Proof. intros [|b] fs l cs; reflexivity. Qed.

(* continue with more names after a resolution *)
Definition then_walk (fs : lfs) (cs' : list name) (r : rres) : rres :=
  match r with
  | RErr e => RErr e
  | RAt l NDir b => lwalk b fs l cs'
  | RAt l n b => match cs' with [] => RAt l n b | _ => RErr ENOTDIR end
  end.

Lemma walk_go_app : forall fs cs' b,
  (forall l t rest, link_k b fs l t (rest ++ cs') = then_walk fs cs' (link_k b fs l t rest)) ->
  forall cs l, walk_go (link_k b fs) fs b l (cs ++ cs') = then_walk fs cs' (walk_go (link_k b fs) fs b l cs).
Proof.
  intros fs cs' b Hk. induction cs as [|c cs IH]; intro l; cbn [app walk_go].
  - cbn [then_walk]. rewrite lwalk_eq. reflexivity.
  - destruct (is_dot c); [apply IH|]. destruct (is_dotdot c); [apply IH|].
    destruct (llookup fs (l ++ [c])) as [[| | t | | | |]|]; try reflexivity;
      try (destruct cs; [destruct cs'; reflexivity|reflexivity]).
    + apply IH.
    + apply Hk.
Qed.

Lemma lwalk_app : forall fs cs' b cs l, lwalk b fs l (cs ++ cs') = then_walk fs cs' (lwalk b fs l cs).
Proof.
  intros fs cs'. induction b as [|b IHb]; intros cs l; rewrite !lwalk_eq; apply walk_go_app; intros l0 t rest.
  - reflexivity.
  - cbn [link_k]. destruct t; [reflexivity|]. rewrite app_assoc. apply IHb.
Qed.

Lemma lwalk_cons : forall fs b c rest l, lwalk b fs l (c :: rest) = then_walk fs rest (lwalk b fs l [c]).
Proof. intros. change (c :: rest) with ([c] ++ rest). apply lwalk_app. Qed.

Lemma lwalk_nil : forall b fs l, lwalk b fs l [] = RAt l NDir b.
Proof. intros. rewrite lwalk_eq. reflexivity. Qed.

Lemma lwalk_one_dot : forall b fs l c, is_dot c = true -> lwalk b fs l [c] = RAt l NDir b.
Proof. intros b fs l c H. rewrite lwalk_eq. cbn [walk_go]. rewrite H. reflexivity. Qed.

Lemma lwalk_one_dotdot : forall b fs l c, is_dot c = false -> is_dotdot c = true ->
  lwalk b fs l [c] = RAt (removelast l) NDir b.
Proof. intros b fs l c H1 H2. rewrite lwalk_eq. cbn [walk_go]. rewrite H1, H2. reflexivity. Qed.

Lemma lwalk_one_none : forall b fs l c, is_dot c = false -> is_dotdot c = false ->
  llookup fs (l ++ [c]) = None -> lwalk b fs l [c] = RErr ENOENT.
Proof. intros b fs l c H1 H2 L. rewrite lwalk_eq. cbn [walk_go]. rewrite H1, H2, L. reflexivity. Qed.

Lemma lwalk_one_dir : forall b fs l c, is_dot c = false -> is_dotdot c = false ->
  llookup fs (l ++ [c]) = Some NDir -> lwalk b fs l [c] = RAt (l ++ [c]) NDir b.
Proof. intros b fs l c H1 H2 L. rewrite lwalk_eq. cbn [walk_go]. rewrite H1, H2, L. reflexivity. Qed.

(* a successful resolution only looks at entries that exist: stable when entries are added *)
Lemma walk_go_extends : forall fs fs', lextends fs fs' -> forall b,
  (forall l t rest l' n b', link_k b fs l t rest = RAt l' n b' -> link_k b fs' l t rest = RAt l' n b') ->
  forall cs l l' n b', walk_go (link_k b fs) fs b l cs = RAt l' n b' ->
                       walk_go (link_k b fs') fs' b l cs = RAt l' n b'.
Proof.
  intros fs fs' E b Hk. induction cs as [|c cs IH]; intros l l' n b' H; cbn [walk_go] in *; [exact H|].
  destruct (is_dot c); [eapply IH; exact H|].
  destruct (is_dotdot c); [eapply IH; exact H|].
  destruct (llookup fs (l ++ [c])) as [n0|] eqn:L; [|discriminate H].
  rewrite (E _ _ L). destruct n0; try exact H.
  - eapply IH; exact H.
  - apply Hk. exact H.
Qed.

Lemma lwalk_extends : forall fs fs', lextends fs fs' ->
  forall b cs l l' n b', lwalk b fs l cs = RAt l' n b' -> lwalk b fs' l cs = RAt l' n b'.
Proof.
  intros fs fs' E. induction b as [|b IHb]; intros cs l l' n b' H; rewrite lwalk_eq in *;
    eapply walk_go_extends; try exact E; try exact H; intros l0 t rest l1 n1 b1 Hk.
  - exact Hk.
  - cbn [link_k] in *. destruct t; [discriminate Hk|]. eapply IHb. exact Hk.
Qed.

(* ---------------------------------------------------------------- the spec only adds entries *)
Lemma lmkdirs_walk_extends : forall cs fs l b r fs', lmkdirs_walk fs l b cs = (r, fs') -> lextends fs fs'.
Proof.
  induction cs as [|c cs IH]; intros fs l b r fs' H; cbn [lmkdirs_walk] in H.
  - inversion H; subst. apply lextends_refl.
  - destruct (is_dot c); [eapply IH; exact H|].
    destruct (is_dotdot c); [eapply IH; exact H|].
    destruct (llookup fs (l ++ [c])) as [n0|] eqn:L.
    + destruct (lwalk b fs l [c]) as [e|l1 n1 b1]; [inversion H; subst; apply lextends_refl|].
      destruct n1; try (inversion H; subst; apply lextends_refl). eapply IH; exact H.
    + eapply lextends_trans; [|eapply IH; exact H]. apply lextends_app.
Qed.

(* S1: after a successful mkdir -p the names lead to a directory *)
Lemma lmkdirs_walk_ok : forall cs fs l b l' b' fs', lmkdirs_walk fs l b cs = (LOk l' b', fs') ->
  lwalk b fs' l cs = RAt l' NDir b'.
Proof.
  induction cs as [|c cs IH]; intros fs l b l' b' fs' H; cbn [lmkdirs_walk] in H.
  - inversion H; subst. apply lwalk_nil.
  - rewrite lwalk_cons.
    destruct (is_dot c) eqn:D1; [rewrite lwalk_one_dot by exact D1; cbn [then_walk]; eapply IH; exact H|].
    destruct (is_dotdot c) eqn:D2; [rewrite lwalk_one_dotdot by assumption; cbn [then_walk]; eapply IH; exact H|].
    destruct (llookup fs (l ++ [c])) as [n0|] eqn:L.
    + destruct (lwalk b fs l [c]) as [e|l1 n1 b1] eqn:W; [discriminate H|].
      destruct n1; try discriminate H.
      rewrite (lwalk_extends _ _ (lmkdirs_walk_extends _ _ _ _ _ _ H) _ _ _ _ _ _ W). cbn [then_walk].
      eapply IH; exact H.
    + assert (L' : llookup (fs ++ [(l ++ [c], NDir)]) (l ++ [c]) = Some NDir) by (apply llookup_app_new; exact L).
      rewrite (lwalk_one_dir b fs' l c D1 D2 (lmkdirs_walk_extends _ _ _ _ _ _ H _ _ L')). cbn [then_walk].
      eapply IH; exact H.
Qed.

Definition not_dir (r : rres) : Prop := forall l b, r <> RAt l NDir b.

Lemma then_walk_not_dir : forall fs cs r, not_dir r -> not_dir (then_walk fs cs r).
Proof.
  intros fs cs [e|l n b] H l' b'; cbn [then_walk]; [discriminate|].
  destruct n; try (destruct cs; discriminate). exfalso. exact (H l b eq_refl).
Qed.

(* S2: blocked: afterwards the names do not lead to a directory *)
Lemma lmkdirs_walk_blocked : forall cs fs l b fs', lmkdirs_walk fs l b cs = (LBlocked, fs') ->
  not_dir (lwalk b fs' l cs).
Proof.
  induction cs as [|c cs IH]; intros fs l b fs' H; cbn [lmkdirs_walk] in H.
  - discriminate H.
  - rewrite lwalk_cons.
    destruct (is_dot c) eqn:D1; [rewrite lwalk_one_dot by exact D1; cbn [then_walk]; eapply IH; exact H|].
    destruct (is_dotdot c) eqn:D2; [rewrite lwalk_one_dotdot by assumption; cbn [then_walk]; eapply IH; exact H|].
    destruct (llookup fs (l ++ [c])) as [n0|] eqn:L.
    + destruct (lwalk b fs l [c]) as [e|l1 n1 b1] eqn:W.
      * inversion H; subst. rewrite W. intros l' b'. discriminate.
      * destruct n1; try (inversion H; subst; rewrite W; apply then_walk_not_dir; intros l' b'; discriminate).
        rewrite (lwalk_extends _ _ (lmkdirs_walk_extends _ _ _ _ _ _ H) _ _ _ _ _ _ W). cbn [then_walk].
        eapply IH; exact H.
    + assert (L' : llookup (fs ++ [(l ++ [c], NDir)]) (l ++ [c]) = Some NDir) by (apply llookup_app_new; exact L).
      rewrite (lwalk_one_dir b fs' l c D1 D2 (lmkdirs_walk_extends _ _ _ _ _ _ H _ _ L')). cbn [then_walk].
      eapply IH; exact H.
Qed.

(* S3: where the names already lead to a directory, mkdir -p changes nothing *)
Lemma lmkdirs_walk_noop : forall cs fs l b l' b', lwalk b fs l cs = RAt l' NDir b' ->
  lmkdirs_walk fs l b cs = (LOk l' b', fs).
Proof.
  induction cs as [|c cs IH]; intros fs l b l' b' H.
  - rewrite lwalk_nil in H. inversion H; subst. reflexivity.
  - rewrite lwalk_cons in H. cbn [lmkdirs_walk].
    destruct (is_dot c) eqn:D1; [rewrite lwalk_one_dot in H by exact D1; cbn [then_walk] in H; apply IH; exact H|].
    destruct (is_dotdot c) eqn:D2;
      [rewrite lwalk_one_dotdot in H by assumption; cbn [then_walk] in H; apply IH; exact H|].
    destruct (llookup fs (l ++ [c])) as [n0|] eqn:L.
    + destruct (lwalk b fs l [c]) as [e|l1 n1 b1] eqn:W; [discriminate H|].
      cbn [then_walk] in H. destruct n1; try (destruct cs; discriminate H). apply IH. exact H.
    + rewrite (lwalk_one_none b fs l c D1 D2 L) in H. discriminate H.
Qed.

Lemma lmkdirs_walk_app : forall cs cs' fs l b,
  lmkdirs_walk fs l b (cs ++ cs') =
  match lmkdirs_walk fs l b cs with
  | (LOk l1 b1, fs1) => lmkdirs_walk fs1 l1 b1 cs'
  | (LBlocked, fs1) => (LBlocked, fs1)
  end.
Proof.
  induction cs as [|c cs IH]; intros cs' fs l b; cbn [lmkdirs_walk app]; [reflexivity|].
  destruct (is_dot c); [apply IH|]. destruct (is_dotdot c); [apply IH|].
  destruct (llookup fs (l ++ [c])) as [n0|]; [|apply IH].
  destruct (lwalk b fs l [c]) as [e|l1 n1 b1]; [reflexivity|]. destruct n1; try reflexivity. apply IH.
Qed.

(* a name that exists and does not lead to a directory blocks, and nothing is created *)
Lemma lmkdirs_walk_blocks : forall cs k c fs l0 b0 l b n0,
  nth_error cs k = Some c -> lwalk b0 fs l0 (firstn k cs) = RAt l NDir b ->
  is_dot c = false -> is_dotdot c = false -> llookup fs (l ++ [c]) = Some n0 ->
  not_dir (lwalk b fs l [c]) ->
  lmkdirs_walk fs l0 b0 cs = (LBlocked, fs).
Proof.
  intros cs k c fs l0 b0 l b n0 Hn Hw D1 D2 L Hnd.
  assert (Ecs : cs = firstn k cs ++ c :: skipn (S k) cs).
  { clear -Hn. revert cs Hn. induction k as [|k IH]; intros [|x cs] Hn; try discriminate Hn.
    - inversion Hn; subst. reflexivity.
    - cbn [firstn skipn app]. f_equal. apply IH. exact Hn. }
  rewrite Ecs. rewrite lmkdirs_walk_app. rewrite (lmkdirs_walk_noop _ _ _ _ _ _ Hw).
  cbn [lmkdirs_walk]. rewrite D1, D2, L.
  destruct (lwalk b fs l [c]) as [e|l1 n1 b1]; [reflexivity|].
  destruct n1; try reflexivity. exfalso. exact (Hnd l1 b1 eq_refl).
Qed.

(* ---------------------------------------------------------------- stat never ends at a link; lstat and stat *)
Lemma walk_go_not_link : forall fs b,
  (forall l t rest l' t' b', link_k b fs l t rest <> RAt l' (NLink t') b') ->
  forall cs l l' t' b', walk_go (link_k b fs) fs b l cs <> RAt l' (NLink t') b'.
Proof.
  intros fs b Hk. induction cs as [|c cs IH]; intros l l' t' b'; cbn [walk_go]; [discriminate|].
  destruct (is_dot c); [apply IH|]. destruct (is_dotdot c); [apply IH|].
  destruct (llookup fs (l ++ [c])) as [n0|]; [|discriminate].
  destruct n0; try (destruct cs; discriminate); [apply IH|apply Hk].
Qed.

Lemma lwalk_not_link : forall fs b cs l l' t' b', lwalk b fs l cs <> RAt l' (NLink t') b'.
Proof.
  intros fs. induction b as [|b IHb]; intros cs l l' t' b'; rewrite lwalk_eq; apply walk_go_not_link;
    intros l0 t rest l1 t1 b1; cbn [link_k]; [discriminate|]. destruct t; [discriminate|]. apply IHb.
Qed.

(* unless the last name is a link, lstat answers exactly what stat answers (errors included) *)
Lemma lstat_l_stat_l : forall B fs cwd s,
  (forall l t b, lstat_l B fs cwd s <> RAt l (NLink t) b) -> stat_l B fs cwd s = lstat_l B fs cwd s.
Proof.
  intros B fs cwd s H. unfold stat_l, lstat_l in *. destruct s as [|c0 s']; [reflexivity|].
  set (s := c0 :: s') in *.
  destruct (rev (pcomps s)) as [|lastc rparents] eqn:R.
  - apply (f_equal (@rev name)) in R. rewrite rev_involutive in R. rewrite R. cbn [rev].
    exfalso. unfold pcomps in R. apply app_eq_nil in R. destruct R as [R1 R2].
    unfold s in R1, R2. unfold trailing_slash in R2.
    destruct (rev (c0 :: s')) as [|x y] eqn:Rv.
    + apply (f_equal (@length Z)) in Rv. rewrite rev_length in Rv. discriminate Rv.
    + destruct (x =? SLASH) eqn:Ex; [discriminate R2|].
      (* the last character is not a separator: there is a name *)
      assert (Es : c0 :: s' = rev y ++ [x]) by (rewrite <- (rev_involutive (c0 :: s')), Rv; reflexivity).
      unfold components in R1. rewrite Es in R1.
      assert (G : forall p cur, split_acc (p ++ [x]) cur <> []).
      { induction p as [|a p IHp]; intro cur; cbn [app split_acc].
        - rewrite Ex. discriminate.
        - destruct (a =? SLASH); [destruct cur; [apply IHp|discriminate]|apply IHp]. }
      exact (G _ _ R1).
  - assert (Ep : pcomps s = rev rparents ++ [lastc]).
    { rewrite <- (rev_involutive (pcomps s)), R. reflexivity. }
    rewrite Ep, lwalk_app.
    destruct (lwalk B fs (lstart s cwd) (rev rparents)) as [e|l n b] eqn:W; cbn [then_walk]; [reflexivity|].
    destruct n; try reflexivity.
    destruct (is_dot lastc) eqn:D1; [apply lwalk_one_dot; exact D1|].
    destruct (is_dotdot lastc) eqn:D2; [apply lwalk_one_dotdot; assumption|].
    destruct (llookup fs (l ++ [lastc])) as [n0|] eqn:L; [|apply lwalk_one_none; assumption].
    rewrite lwalk_eq. cbn [walk_go]. rewrite D1, D2, L.
    destruct n0; try reflexivity. exfalso. exact (H _ _ _ eq_refl).
Qed.
