(* C03 proofs, part 4: every call preserves the invariant and does to the set of records what the
   map does: resize, insertion plans, insert_at, erase, find. *)
From Coq Require Import ZArith List Bool Lia Permutation.
From Coq Require Import ZifyBool.
From Zix Require Import HashSpec HashModel HashProofsBase HashProofsProbe HashProofsOps.
Import ListNotations.
Local Open Scope Z_scope.
Ltac Zify.zify_post_hook ::= Z.div_mod_to_equations.

Lemma firstn_all_z : forall (l : list slot) n, Z.of_nat (length l) = n -> firstn (Z.to_nat n) l = l.
Proof. intros. apply firstn_all2. lia. Qed.

Lemma hstate_eta : forall st, mkH (h_count st) (h_mask st) (h_n st) (h_ent st) = st.
Proof. destruct st; reflexivity. Qed.

Section WithHash.
  Variable hf : Z -> Z.

  (* ---------------------------------------------------------------- resize (grow / shrink) *)
  Lemma fresh_slots_ok : forall n, 0 <= n -> slots_ok hf n (repeat Empty (Z.to_nat n)).
  Proof.
    intros n Hn. split; [rewrite repeat_length; lia|]. split; [|split].
    - intros j c r _ E. rewrite zget_repeat_empty in E. discriminate.
    - rewrite live_recs_repeat_empty. constructor.
    - intros j c r _ E. rewrite zget_repeat_empty in E. discriminate.
  Qed.

  Lemma codes_ok_old : forall l, codes_ok hf l -> old_codes_ok hf l.
  Proof.
    intros l CO c r I. destruct (In_nth l _ Empty I) as (i & Hi & E).
    apply (CO (Z.of_nat i) c r); [lia|]. unfold zget. rewrite Nat2Z.id. assumption.
  Qed.

  Lemma resize_ok : forall st new_n o,
    shape_ok st -> slots_ok hf (h_n st) (h_ent st) -> pow2size new_n ->
    Z.of_nat (length (live_recs (h_ent st))) < new_n ->
    match resize st new_n o with
    | (Ret (SUCCESS, st'), _, o') =>
        shape_ok st' /\ h_n st' = new_n /\ h_count st' = h_count st /\
        slots_ok hf new_n (h_ent st') /\
        Permutation (live_recs (h_ent st')) (live_recs (h_ent st)) /\
        o' = tl o /\ (forall t, o <> false :: t)
    | (Ret (NO_MEM, st'), lg, o') => st' = st /\ lg = [] /\ o = false :: o'
    | _ => False
    end.
  Proof.
    intros st new_n o SH SL P2 CNT.
    destruct SH as (P & M & L). destruct SL as (L' & CH & ND & CO).
    pose proof (pow2size_ge4 _ P2) as [G4 _].
    set (st1 := set_size st new_n (new_n - 1)).
    set (st2 := set_ent st1 (repeat Empty (Z.to_nat (h_n st1)))).
    assert (OK : exists st', fst (rehash_loop (h_ent st) st2) = Ret st' /\
               h_n st' = new_n /\ h_mask st' = new_n - 1 /\ h_count st' = h_count st /\
               shape_ok st' /\ slots_ok hf new_n (h_ent st') /\
               Permutation (live_recs (h_ent st')) (live_recs (h_ent st))).
    { destruct (rehash_loop_ok hf (h_ent st) st2) as (st' & R1 & R2 & R3 & R4 & R5 & R6 & R7 & R8).
      - unfold st2, st1, shape_ok; simpl. rewrite repeat_length. repeat split; auto. lia.
      - unfold st2, st1; simpl. apply fresh_slots_ok. lia.
      - intros i. unfold st2; simpl. rewrite zget_repeat_empty. discriminate.
      - unfold st2; simpl. rewrite live_recs_repeat_empty, app_nil_r. assumption.
      - apply codes_ok_old. assumption.
      - unfold st2, st1; simpl. rewrite live_recs_repeat_empty. simpl. lia.
      - exists st'. unfold st2, st1 in *; simpl in *.
        rewrite live_recs_repeat_empty, app_nil_r in R8. repeat split; auto; apply R5 || apply R6. }
    destruct OK as (st' & R1 & R2 & R3 & R4 & R5 & R6 & R7).
    unfold resize, rehash. fold st1.
    replace (firstn (Z.to_nat (h_n st)) (h_ent st1)) with (h_ent st)
      by (unfold st1; simpl; symmetry; apply firstn_all_z; assumption).
    fold st2.
    destruct (rehash_loop (h_ent st) st2) as [rr lg] eqn:RL. simpl in R1. subst rr.
    destruct o as [|b o1]; [|destruct b]; cbn [tl].
    - repeat split; auto; try apply R5; try apply R6. intros t; discriminate.
    - repeat split; auto; try apply R5; try apply R6. intros t; discriminate.
    - split; [unfold st1, set_size; simpl; apply hstate_eta|]. split; reflexivity.
  Qed.

  (* ---------------------------------------------------------------- insertion plans *)
  (* what a plan for key k is worth: it points at the record with that key, or at a free slot
     reachable from the key's home slot without crossing an Empty slot *)
  Definition plan_ok (st : hstate) (k : Z) (p : plan) : Prop :=
    p_code p = code_of hf k /\ 0 <= p_index p < h_n st /\
    ((exists r, zget (h_ent st) (p_index p) = Live (p_code p) r /\ rkey r = k) \/
     (has_value (zget (h_ent st) (p_index p)) = false /\ absent k (h_ent st) /\
      forall d, 0 <= d < dist (h_n st) (fold_hash (p_code p) (h_n st - 1)) (p_index p) ->
        zget (h_ent st) (pos (h_n st) (fold_hash (p_code p) (h_n st - 1)) d) <> Empty)).

  Lemma no_match_absent : forall n l k,
    Z.of_nat (length l) = n -> codes_ok hf l ->
    (forall j, 0 <= j < n -> matchp (zget l j) (code_of hf k) (Z.eqb k) = false) ->
    absent k l.
  Proof.
    intros n l k L CO NM r I E. apply In_live_recs in I as (i & c & Hi & Z).
    specialize (NM i ltac:(lia)). rewrite Z in NM. simpl in NM.
    rewrite (CO i c r Hi Z) in NM. rewrite E in NM. rewrite !Z.eqb_refl in NM. discriminate.
  Qed.

  Lemma load_lt_size : forall n, 4 <= n -> n / 2 + n / 8 <= n.
  Proof. intros. lia. Qed.

  Lemma plan_prehashed_ok : forall st k ud,
    Inv hf st ->
    exists p, fst (plan_insert_prehashed st (code_of hf k) (Z.eqb k) ud) = Ret p /\ plan_ok st k p.
  Proof.
    intros st k ud ((P & M & L) & H1 & H2 & (L' & CH & ND & CO)).
    pose proof (pow2size_ge4 _ P) as [G4 _].
    set (code := code_of hf k). set (n := h_n st) in *.
    assert (Hh : 0 <= fold_hash code (n - 1) < n) by (apply fold_hash_range; assumption).
    unfold plan_insert_prehashed. rewrite M. fold n.
    pose proof (plan_loop_spec st code (Z.eqb k) ud (fold_hash code (n - 1)) n M Hh
                  (Z.to_nat n) 0 None ltac:(lia) ltac:(lia)) as S.
    rewrite pos_0 in S by lia.
    destruct (plan_loop (Z.to_nat n) st code (Z.eqb k) ud (fold_hash code (n - 1))
                (fold_hash code (n - 1)) None) as [r lg] eqn:PL.
    simpl in S. destruct r as [j|j ft'|]; [| |contradiction].
    - (* a record with this key *)
      destruct S as (k' & K1 & K2 & K3 & K4). eexists. split; [reflexivity|].
      apply matchp_true in K4 as (r & E & Kr).
      split; [reflexivity|]. simpl. split; [subst j; apply pos_range; lia|].
      left. exists r. split; [assumption|lia].
    - destruct S as (k' & K1 & K2 & K3 & K4 & K5).
      assert (ABS : absent k (h_ent st)).
      { apply (no_match_absent n); auto.
        apply (walk_complete n (h_ent st) code (Z.eqb k) k' CH Hh ltac:(lia) K4).
        intros Lt. destruct (K2 Lt) as [<- E]. assumption. }
      assert (NE : forall d, 0 <= d < k' -> zget (h_ent st) (pos n (fold_hash code (n - 1)) d) <> Empty).
      { intros d Hd. specialize (K4 d Hd). unfold stopb in K4. apply orb_false_iff in K4 as [K4 _].
        apply is_empty_false_iff. assumption. }
      unfold ft_spec in K5. destruct K5 as [[-> AllV]|(kt & T1 & -> & T3 & T4)].
      + (* no tombstone on the way: the walk ended at an Empty slot *)
        destruct (Z.eq_dec k' n) as [Full|NotFull].
        * exfalso. subst k'.
          assert (AL : forall i, 0 <= i < Z.of_nat (length (h_ent st)) -> has_value (zget (h_ent st) i) = true).
          { rewrite L. apply (all_positions n (fold_hash code (n - 1))); [lia|]. intros d Hd. apply AllV. lia. }
          apply all_live_length_z in AL. pose proof (load_lt_size n G4). lia.
        * destruct (K2 ltac:(lia)) as [Ej EE]. eexists. split; [reflexivity|].
          split; [reflexivity|]. simpl. split; [subst j; apply pos_range; lia|].
          right. split; [rewrite EE; reflexivity|]. split; [assumption|].
          intros d Hd. subst j. rewrite dist_pos in Hd by lia. apply NE. lia.
      + (* the first tombstone on the way *)
        eexists. split; [reflexivity|]. split; [reflexivity|]. simpl.
        split; [apply pos_range; lia|].
        right. split; [rewrite T3; reflexivity|]. split; [assumption|].
        intros d Hd. rewrite dist_pos in Hd by lia. apply NE. lia.
  Qed.

  Lemma plan_insert_ok : forall st key,
    Inv hf st ->
    exists p, fst (plan_insert hf st key) = Ret p /\ plan_ok st (kval key) p.
  Proof.
    intros st key I. unfold plan_insert.
    destruct (plan_prehashed_ok st (kval key) key I) as (p & E & OK).
    destruct (plan_insert_prehashed st (code_of hf (kval key)) (Z.eqb (kval key)) key) as [r lg].
    simpl in *. eauto.
  Qed.

  (* ---------------------------------------------------------------- insert_at *)
  Lemma insert_at_ok : forall st p r o,
    Inv hf st -> plan_ok st (rkey r) p ->
    match insert_at st p r o with
    | (Ret (EXISTS, st'), lg, o') => st' = st /\ o' = o /\ lg = [] /\ ~ absent (rkey r) (h_ent st)
    | (Ret (SUCCESS, st'), _, _) =>
        Inv hf st' /\ absent (rkey r) (h_ent st) /\
        Permutation (live_recs (h_ent st')) (r :: live_recs (h_ent st))
    | (Ret (NO_MEM, st'), _, o') => st' = st /\ absent (rkey r) (h_ent st) /\ o = false :: o'
    | _ => False
    end.
  Proof.
    intros st p r o ((P & M & L) & H1 & H2 & SL) (PC & PI & PD).
    pose proof (pow2size_ge4 _ P) as [G4 G4m].
    unfold insert_at. destruct PD as [(r' & E & K)|(HV & ABS & CHN)].
    - rewrite E. simpl. repeat split; auto. intros A. apply (A r'); [|assumption].
      apply In_live_recs. exists (p_index p), (p_code p). split; [lia|assumption].
    - rewrite HV.
      set (st1 := set_ent st (zset (h_ent st) (p_index p) (Live (p_code p) r))).
      assert (SL1 : slots_ok hf (h_n st) (h_ent st1)).
      { unfold st1; simpl. apply slots_store; auto. }
      pose proof (live_recs_store (h_ent st) (p_index p) (p_code p) r ltac:(lia) HV) as PS.
      assert (SH1 : shape_ok st1).
      { unfold st1, shape_ok; simpl. rewrite zset_length. auto. }
      destruct (h_n st / 2 + h_n st / 8 <=? h_count st + 1) eqn:Load.
      + (* grow *)
        unfold grow.
        pose proof (resize_ok st1 (Z.shiftl (h_n st1) 1) o SH1 SL1) as R.
        assert (Hn1 : h_n st1 = h_n st) by reflexivity.
        rewrite Hn1 in *.
        specialize (R (pow2size_double _ P)).
        rewrite shiftl1 in *.
        assert (CNT : Z.of_nat (length (live_recs (h_ent st1))) < 2 * h_n st).
        { unfold st1; cbn [set_ent h_ent]. rewrite (Permutation_length PS). cbn [length].
          pose proof (load_lt_size _ G4). lia. }
        specialize (R CNT).
        destruct (resize st1 (2 * h_n st) o) as [[g lg] o'] eqn:RS.
        destruct g as [[s st2]| |]; try contradiction.
        destruct s; try contradiction.
        * destruct R as (R1 & R2 & R3 & R4 & R5 & R6 & R7).
          split; [|split; [assumption|]].
          -- split; [exact R1|]. simpl. rewrite R2.
             split; [rewrite (Permutation_length R5); unfold st1; simpl;
                     rewrite (Permutation_length PS); simpl length; lia|].
             split; [lia|assumption].
          -- simpl. rewrite R5. exact PS.
        * destruct R as (-> & -> & ->). split; [|split; [assumption|reflexivity]].
          unfold st1, set_ent; cbn [h_ent h_count h_mask h_n]. rewrite zset_restore by lia. apply hstate_eta.
      + (* room left *)
        split; [|split; [assumption|exact PS]].
        split; [exact SH1|]. simpl.
        split; [rewrite (Permutation_length PS); simpl length; lia|].
        split; [lia|exact SL1].
  Qed.

  (* ---------------------------------------------------------------- erase *)
  Lemma erase_ok : forall st i c r o,
    Inv hf st -> 0 <= i < h_n st -> zget (h_ent st) i = Live c r ->
    match erase st i o with
    | (Ret (s, rem, st'), _, _) =>
        (s = SUCCESS \/ s = NO_MEM) /\ rem = Some r /\ Inv hf st' /\
        Permutation (live_recs (h_ent st)) (r :: live_recs (h_ent st'))
    | _ => False
    end.
  Proof.
    intros st i c r o ((P & M & L) & H1 & H2 & SL) Hi E.
    pose proof (pow2size_ge4 _ P) as [G4 G4m].
    unfold erase. rewrite E. cbn [s_value].
    set (st1 := set_ent st (zset (h_ent st) i Tomb)).
    set (st2 := set_count st1 (h_count st1 - 1)).
    pose proof (live_recs_kill (h_ent st) i c r Tomb ltac:(lia) E eq_refl) as PK.
    assert (SL2 : slots_ok hf (h_n st) (h_ent st2)).
    { unfold st2, st1; simpl. eapply slots_kill; eauto. }
    assert (SH2 : shape_ok st2).
    { unfold st2, st1, shape_ok; simpl. rewrite zset_length. auto. }
    assert (C2 : h_count st2 = Z.of_nat (length (live_recs (h_ent st2)))).
    { unfold st2, st1; simpl. rewrite H1. rewrite (Permutation_length PK). simpl length. lia. }
    assert (C2' : h_count st2 = h_count st - 1) by reflexivity.
    assert (I2 : Inv hf st2).
    { split; [exact SH2|]. split; [exact C2|]. split; [|exact SL2].
      unfold st2, st1; simpl. lia. }
    assert (Hn2 : h_n st2 = h_n st) by reflexivity.
    destruct (h_count st2 <? h_n st2 / 4) eqn:Low.
    - unfold shrink. destruct (min_n_entries <? h_n st2) eqn:Big.
      + unfold min_n_entries in Big. rewrite Hn2 in *.
        destruct (pow2size_half _ P ltac:(lia)) as [PH HH].
        pose proof (resize_ok st2 (Z.shiftr (h_n st2) 1) o SH2) as R.
        rewrite Hn2 in R. specialize (R SL2 PH ltac:(lia)).
        destruct (resize st2 (Z.shiftr (h_n st) 1) o) as [[g lg] o'] eqn:RS.
        destruct g as [[s st3]| |]; try contradiction.
        destruct s; try contradiction.
        * destruct R as (R1 & R2 & R3 & R4 & R5 & R6 & R7).
          split; [auto|]. split; [reflexivity|]. split.
          -- split; [exact R1|]. rewrite R2, R3.
             split; [rewrite (Permutation_length R5); exact C2|].
             split; [lia|assumption].
          -- rewrite R5. exact PK.
        * destruct R as (-> & _ & _). split; [auto|]. split; [reflexivity|]. split; [exact I2|exact PK].
      + split; [auto|]. split; [reflexivity|]. split; [exact I2|exact PK].
    - split; [auto|]. split; [reflexivity|]. split; [exact I2|exact PK].
  Qed.

  (* ---------------------------------------------------------------- find *)
  Lemma find_entry_inv : forall st key,
    Inv hf st ->
    let k := kval key in
    match fst (find_entry st key (fold_hash (code_of hf k) (h_mask st)) (code_of hf k)) with
    | FeAt i => 0 <= i < h_n st /\
                ((zget (h_ent st) i = Empty /\ absent k (h_ent st)) \/
                 (exists r, zget (h_ent st) i = Live (code_of hf k) r /\ rkey r = k))
    | FeEnd => absent k (h_ent st)
    | FeFuel => False
    end.
  Proof.
    intros st key ((P & M & L) & H1 & H2 & (L' & CH & ND & CO)) k.
    set (code := code_of hf k). set (n := h_n st) in *.
    assert (Hh : 0 <= fold_hash code (n - 1) < n) by (apply fold_hash_range; assumption).
    rewrite M.
    pose proof (find_entry_spec st key (fold_hash code (n - 1)) code (conj P (conj M L)) Hh) as S.
    destruct (find_entry st key (fold_hash code (n - 1)) code) as [fr lg]. simpl in *.
    fold n in S. fold k in S.
    destruct fr as [j| |]; [| |contradiction].
    - destruct S as (k' & K1 & K2 & K3 & K4). split; [subst j; apply pos_range; lia|].
      unfold stopb in K4. apply orb_true_iff in K4 as [K4|K4].
      + apply is_empty_iff in K4. left. split; [assumption|].
        apply (no_match_absent n); auto.
        apply (walk_complete n (h_ent st) code (Z.eqb k) k' CH Hh ltac:(lia) K3).
        intros _. rewrite <- K2. assumption.
      + right. apply matchp_true in K4 as (r & E & Kr). exists r. split; [assumption|lia].
    - apply (no_match_absent n); auto.
      apply (walk_complete n (h_ent st) code (Z.eqb k) n CH Hh ltac:(lia) S). lia.
  Qed.

  Lemma find_ok : forall st k, Inv hf st ->
    exists i, fst (find hf st k) = Ret i /\
      ((i = h_n st /\ absent k (h_ent st)) \/
       (0 <= i < h_n st /\ exists r, zget (h_ent st) i = Live (code_of hf k) r /\ rkey r = k)).
  Proof.
    intros st k I. unfold find. pose proof (find_entry_inv st (KArg k) I) as F. simpl in F.
    destruct (find_entry st (KArg k) (fold_hash (code_of hf k) (h_mask st)) (code_of hf k)) as [fr lg].
    simpl in *. destruct fr as [j| |]; [| |contradiction].
    - destruct F as (Hj & [(E & A)|(r & E & K)]).
      + exists (h_n st). rewrite E. simpl. split; [reflexivity|]. left. auto.
      + exists j. rewrite E. simpl. split; [reflexivity|]. right. split; [assumption|]. eauto.
    - exists (h_n st). split; [reflexivity|]. left. auto.
  Qed.

  Lemma find_record_ok : forall st k, Inv hf st ->
    exists ro, fst (find_record hf st k) = Ret ro /\
      ((ro = None /\ absent k (h_ent st)) \/
       (exists i r, ro = Some r /\ 0 <= i < h_n st /\ zget (h_ent st) i = Live (code_of hf k) r /\ rkey r = k)).
  Proof.
    intros st k I. unfold find_record. pose proof (find_entry_inv st (KArg k) I) as F. simpl in F.
    destruct (find_entry st (KArg k) (fold_hash (code_of hf k) (h_mask st)) (code_of hf k)) as [fr lg].
    simpl in *. destruct fr as [j| |]; [| |contradiction].
    - destruct F as (Hj & [(E & A)|(r & E & K)]).
      + exists None. rewrite E. simpl. split; [reflexivity|]. left. auto.
      + exists (Some r). rewrite E. simpl. split; [reflexivity|]. right. exists j, r. auto.
    - exists None. split; [reflexivity|]. left. auto.
  Qed.

  (* ---------------------------------------------------------------- the initial table *)
  Lemma Inv_new : Inv hf hash_new.
  Proof.
    split; [|split; [|split]].
    - split; [exists 2; split; [lia|reflexivity]|]. split; reflexivity.
    - reflexivity.
    - vm_compute. reflexivity.
    - apply (fresh_slots_ok 4). lia.
  Qed.
End WithHash.

(* ------------------------------------------------------------------ termination needs no invariant:
   with the full-cycle guard every probe loop returns within n steps in ANY table of a
   power-of-two size, whatever its contents (all tombstones, all records, ...) *)
Section Termination.
  Variable hf : Z -> Z.

  Lemma probes_terminate : forall st, shape_ok st ->
    (forall k, fst (find hf st k) <> OutOfFuel /\ fst (find_record hf st k) <> OutOfFuel) /\
    (forall key, fst (plan_insert hf st key) <> OutOfFuel) /\
    (forall code pred ud, fst (plan_insert_prehashed st code pred ud) <> OutOfFuel).
  Proof.
    intros st (P & M & L). split; [|split].
    - intros k.
      assert (Hh : 0 <= fold_hash (code_of hf k) (h_mask st) < h_n st)
        by (rewrite M; apply fold_hash_range; assumption).
      pose proof (find_entry_spec st (KArg k) _ (code_of hf k) (conj P (conj M L)) Hh) as S.
      unfold find, find_record.
      destruct (find_entry st (KArg k) (fold_hash (code_of hf k) (h_mask st)) (code_of hf k)) as [fr lg].
      simpl in *. destruct fr; try contradiction; split; discriminate.
    - intros key. unfold plan_insert, plan_insert_prehashed.
      set (code := code_of hf (kval key)).
      assert (Hh : 0 <= fold_hash code (h_mask st) < h_n st)
        by (rewrite M; apply fold_hash_range; assumption).
      pose proof (pow2size_ge4 _ P) as [G4 _].
      pose proof (plan_loop_spec st code (Z.eqb (kval key)) key (fold_hash code (h_mask st)) (h_n st) M Hh
                    (Z.to_nat (h_n st)) 0 None ltac:(lia) ltac:(lia)) as S.
      rewrite pos_0 in S by lia.
      destruct (plan_loop (Z.to_nat (h_n st)) st code (Z.eqb (kval key)) key (fold_hash code (h_mask st))
                  (fold_hash code (h_mask st)) None) as [r lg].
      simpl in *. destruct r as [j|j [t|]|]; try contradiction; discriminate.
    - intros code pred ud. unfold plan_insert_prehashed.
      assert (Hh : 0 <= fold_hash code (h_mask st) < h_n st)
        by (rewrite M; apply fold_hash_range; assumption).
      pose proof (pow2size_ge4 _ P) as [G4 _].
      pose proof (plan_loop_spec st code pred ud (fold_hash code (h_mask st)) (h_n st) M Hh
                    (Z.to_nat (h_n st)) 0 None ltac:(lia) ltac:(lia)) as S.
      rewrite pos_0 in S by lia.
      destruct (plan_loop (Z.to_nat (h_n st)) st code pred ud (fold_hash code (h_mask st))
                  (fold_hash code (h_mask st)) None) as [r lg].
      simpl in *. destruct r as [j|j [t|]|]; try contradiction; discriminate.
  Qed.
End Termination.
