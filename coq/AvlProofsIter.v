(* C06 — lemmas about the AVL model, part 4: iteration (begin/next, rbegin/prev on the functional
   tree) and the destroy log *)
From Coq Require Import ZArith List Bool Lia ZifyBool Permutation.
From Zix Require Import AvlSpec AvlModel AvlProofs AvlProofsRemove AvlProofsState.
Import ListNotations.
Local Open Scope Z_scope.

Lemma hd_error_app : forall (A : Type) (l1 l2 : list A),
  hd_error (l1 ++ l2) = match hd_error l1 with Some a => Some a | None => hd_error l2 end.
Proof. intros A [|a l1] l2; reflexivity. Qed.

Lemma NoDup_app_inv : forall (A : Type) (l1 l2 : list A), NoDup (l1 ++ l2) -> NoDup l1 /\ NoDup l2.
Proof.
  intros A l1 l2. induction l1 as [|a l1 IH]; cbn [app]; intros H.
  - split; [constructor|assumption].
  - inversion H as [|? ? Hn Hd]; subst. destruct (IH Hd) as [H1 H2]. split; [|assumption].
    constructor; [|assumption]. intros Hi. apply Hn. apply in_or_app. left. assumption.
Qed.

Lemma ids_N : forall i d b l r, ids (N i d b l r) = ids l ++ i :: ids r.
Proof. intros. unfold ids. cbn [elems]. rewrite map_app. reflexivity. Qed.

Lemma ids_nonempty : forall i d b l r, exists a, hd_error (ids (N i d b l r)) = Some a.
Proof.
  intros. rewrite ids_N. rewrite hd_error_app. destruct (hd_error (ids l)); eexists; reflexivity.
Qed.

Lemma leftmost_hd : forall t, leftmost t = hd_error (ids t).
Proof.
  induction t as [|i d b l IHl r IHr]; [reflexivity|].
  rewrite ids_N, hd_error_app. cbn [leftmost]. destruct l as [|li ld lb ll lr]; [reflexivity|].
  rewrite IHl. destruct (ids_nonempty li ld lb ll lr) as [a ->]. reflexivity.
Qed.

Lemma succ_in_app_l : forall id l1 l2, In id l1 ->
  succ_in id (l1 ++ l2) = match succ_in id l1 with Some s => Some s | None => hd_error l2 end.
Proof.
  intros id l1 l2. induction l1 as [|a l1 IH]; [intros []|].
  cbn [app succ_in In]. intros H. destruct (a =? id) eqn:C.
  - apply hd_error_app.
  - apply IH. destruct H as [H|H]; [lia|assumption].
Qed.

Lemma succ_in_app_r : forall id l1 l2, ~ In id l1 -> succ_in id (l1 ++ l2) = succ_in id l2.
Proof.
  intros id l1 l2. induction l1 as [|a l1 IH]; [reflexivity|].
  cbn [app succ_in In]. intros H. destruct (a =? id) eqn:C; [exfalso; apply H; left; lia|].
  apply IH. intros H1. apply H. right. assumption.
Qed.

Lemma next_in_none : forall id t anc, ~ In id (ids t) -> next_in id t anc = None.
Proof.
  intros id. induction t as [|i d b l IHl r IHr]; intros anc H; [reflexivity|].
  rewrite ids_N in H. rewrite in_app_iff in H. cbn [In] in H. cbn [next_in].
  destruct (i =? id) eqn:C; [exfalso; apply H; right; left; lia|].
  rewrite IHl by (intros H1; apply H; left; assumption).
  apply IHr. intros H1. apply H. right. right. assumption.
Qed.

Lemma next_in_spec : forall id t anc, In id (ids t) -> NoDup (ids t) ->
  next_in id t anc = Some (match succ_in id (ids t) with Some s => Some s | None => anc end).
Proof.
  intros id. induction t as [|i d b l IHl r IHr]; intros anc H ND; [destruct H|].
  rewrite ids_N in *. cbn [next_in].
  pose proof (NoDup_remove_2 _ _ _ ND) as Ni. rewrite in_app_iff in Ni.
  pose proof (NoDup_remove_1 _ _ _ ND) as ND1.
  destruct (NoDup_app_inv _ _ _ ND1) as [NDl NDr].
  destruct (i =? id) eqn:C.
  - assert (i = id) as -> by lia.
    rewrite succ_in_app_r by (intros H1; apply Ni; left; assumption).
    cbn [succ_in]. rewrite Z.eqb_refl. rewrite <- leftmost_hd.
    destruct r as [|ri rd rb rl rr]; [reflexivity|].
    rewrite leftmost_hd. destruct (ids_nonempty ri rd rb rl rr) as [a ->]. reflexivity.
  - apply in_app_or in H. destruct (in_dec Z.eq_dec id (ids l)) as [Hl|Hl].
    + rewrite (IHl (Some i) Hl NDl). rewrite succ_in_app_l by assumption.
      destruct (succ_in id (ids l)); reflexivity.
    + rewrite next_in_none by assumption.
      destruct H as [H|[H|H]]; [contradiction|lia|].
      rewrite (IHr anc H NDr). rewrite succ_in_app_r by assumption.
      cbn [succ_in]. rewrite C. reflexivity.
Qed.

Lemma tnext_spec : forall id t, In id (ids t) -> NoDup (ids t) -> tnext id t = succ_in id (ids t).
Proof.
  intros id t H ND. unfold tnext. rewrite next_in_spec by assumption.
  destruct (succ_in id (ids t)); reflexivity.
Qed.

Lemma walk_suffix : forall step pre l, NoDup (pre ++ l) ->
  (forall i, In i (pre ++ l) -> step i = succ_in i (pre ++ l)) ->
  walk step (length l) (hd_error l) = l.
Proof.
  intros step pre l. revert pre. induction l as [|a l IH]; intros pre ND ST; [reflexivity|].
  cbn [length hd_error walk]. f_equal.
  assert (Ha : step a = hd_error l).
  { rewrite ST by (apply in_or_app; right; left; reflexivity).
    pose proof (NoDup_remove_2 _ _ _ ND) as Na. rewrite in_app_iff in Na.
    rewrite succ_in_app_r by (intros H1; apply Na; left; assumption).
    cbn [succ_in]. rewrite Z.eqb_refl. reflexivity. }
  rewrite Ha. apply (IH (pre ++ [a])); rewrite <- app_assoc; assumption.
Qed.

Lemma walk_ext : forall f g n cur, (forall i, f i = g i) -> walk f n cur = walk g n cur.
Proof.
  intros f g. induction n as [|n IH]; intros cur H; [reflexivity|].
  destruct cur as [i|]; [|reflexivity]. cbn [walk]. rewrite H. f_equal. apply IH. assumption.
Qed.

Lemma count_ids : forall t, Z.to_nat (count t) = length (ids t).
Proof. intros. rewrite count_length. unfold ids. rewrite map_length. apply Nat2Z.id. Qed.

Lemma walk_fwd_ids : forall t, NoDup (ids t) -> walk_fwd t = ids t.
Proof.
  intros t ND. unfold walk_fwd. rewrite count_ids, leftmost_hd.
  apply (walk_suffix _ []); [assumption|]. cbn [app]. intros i Hi. apply tnext_spec; assumption.
Qed.

(* backwards = forwards in the mirror image *)
Fixpoint mirror (t : tree) : tree :=
  match t with E => E | N i d b l r => N i d b (mirror r) (mirror l) end.

Lemma mirror_ids : forall t, ids (mirror t) = rev (ids t).
Proof.
  induction t as [|i d b l IHl r IHr]; [reflexivity|].
  cbn [mirror]. rewrite !ids_N, IHl, IHr. rewrite rev_app_distr. cbn [rev]. rewrite <- app_assoc. reflexivity.
Qed.

Lemma mirror_count : forall t, count (mirror t) = count t.
Proof. induction t; cbn [mirror count]; lia. Qed.

Lemma mirror_rightmost : forall t, rightmost t = leftmost (mirror t).
Proof.
  induction t as [|i d b l IHl r IHr]; [reflexivity|].
  cbn [rightmost mirror leftmost]. destruct r; [reflexivity|]. rewrite IHr. reflexivity.
Qed.

Lemma mirror_prev_in : forall id t anc, prev_in id t anc = next_in id (mirror t) anc.
Proof.
  intros id. induction t as [|i d b l IHl r IHr]; intros anc; [reflexivity|].
  cbn [prev_in mirror next_in]. rewrite IHr, IHl.
  destruct (i =? id); [|reflexivity].
  destruct l; [reflexivity|]. rewrite mirror_rightmost. reflexivity.
Qed.

Lemma walk_bwd_ids : forall t, NoDup (ids t) -> walk_bwd t = rev (ids t).
Proof.
  intros t ND. unfold walk_bwd. rewrite mirror_rightmost, <- mirror_count, <- mirror_ids.
  rewrite <- walk_fwd_ids by (rewrite mirror_ids; apply NoDup_rev; assumption).
  unfold walk_fwd. apply walk_ext. intros i. unfold tprev, tnext. rewrite mirror_prev_in. reflexivity.
Qed.

Lemma tprev_spec : forall id t, In id (ids t) -> NoDup (ids t) -> tprev id t = succ_in id (rev (ids t)).
Proof.
  intros id t H ND. unfold tprev. rewrite mirror_prev_in. rewrite <- mirror_ids.
  apply (tnext_spec id (mirror t)); rewrite mirror_ids; [apply in_rev in H; assumption|apply NoDup_rev; assumption].
Qed.

(* ------------------------------------------------------------------ destroy log *)
Lemma free_log_perm : forall t, Permutation (free_log t) (elems t).
Proof.
  induction t as [|i d b l IHl r IHr]; [constructor|].
  cbn [free_log elems]. apply Permutation_app; [assumption|].
  eapply Permutation_trans; [apply Permutation_sym, Permutation_cons_append|].
  apply perm_skip. assumption.
Qed.

Lemma slookup_perm : forall id (l : list item) e, NoDup (map fst l) -> slookup id l = Some e ->
  Permutation (e :: sremove id l) l.
Proof.
  intros id l e ND H. unfold slookup in H. apply find_some in H as [H1 H2].
  apply in_split in H1 as (l1 & l2 & ->). destruct e as [i x]. cbn [fst] in H2. assert (i = id) as -> by lia.
  rewrite map_app in ND. cbn [map fst] in ND.
  pose proof (NoDup_remove_2 _ _ _ ND) as Ni. rewrite in_app_iff in Ni.
  rewrite sremove_mid; [apply Permutation_middle| |]; intros H; apply Ni; [left|right]; assumption.
Qed.

Section Destroy.
Variable rank : elt -> Z.

Lemma run_destroy : forall dup ops o st, inv rank dup st ->
  let '(fin, evs) := run rank dup ops o st in
  Permutation (destroyed_of evs ++ elems (root fin)) (elems (root st) ++ inserted_of ops evs) /\
  Forall (fun y => nextid st <= fst y < nextid fin) (inserted_of ops evs) /\
  NoDup (map fst (inserted_of ops evs)) /\ nextid st <= nextid fin.
Proof.
  intros dup. induction ops as [|op ops IH]; intros o st I.
  - cbn. rewrite app_nil_r. repeat split; try constructor; try lia. apply Permutation_refl.
  - destruct op as [x|id|x]; cbn [run].
    + pose proof (insert_refines rank dup x o st I) as IR.
      destruct (insert rank dup x o st) as [[[[s it] st'] o'] c].
      destruct IR as [E1 I1]. specialize (IH o' st' I1).
      destruct (run rank dup ops o' st') as [fin evs]. destruct IH as (P & F & ND & LE).
      unfold sp_insert, abs in E1.
      assert (CASES : (s = SUCCESS /\ it = Some (nextid st) /\ elems (root st') = sins rank (nextid st, x) (elems (root st)) /\ nextid st' = nextid st + 1) \/
                      ((s = EXISTS \/ s = NO_MEM) /\ elems (root st') = elems (root st) /\ nextid st' = nextid st + 1)).
      { destruct (if dup then None else sfind rank x (elems (root st))) as [e|].
        - injection E1 as -> -> E2 E3 _. right. repeat split; try assumption. left; reflexivity.
        - destruct (alloc o) as [ok o2]. destruct ok.
          + injection E1 as -> -> E2 E3 _. left. repeat split; assumption.
          + injection E1 as -> -> E2 E3 _. right. repeat split; try assumption. right; reflexivity. }
      destruct CASES as [(-> & -> & EL & EN)|(ES & EL & EN)].
      * cbn [destroyed_of inserted_of]. rewrite EL in P.
        split.
        { eapply Permutation_trans; [exact P|].
          eapply Permutation_trans; [apply Permutation_app_tail; apply Permutation_sym; apply sins_perm|].
          cbn [app]. apply Permutation_middle. }
        split.
        { constructor; [cbn [fst]; lia|]. eapply Forall_impl; [|exact F]. cbv beta. intros; lia. }
        split; [|lia].
        cbn [map fst]. constructor; [|assumption].
        intros H. apply in_map_iff in H as (y & Hy1 & Hy2). rewrite Forall_forall in F. specialize (F y Hy2). lia.
      * assert (EI : inserted_of (OIns x :: ops) (EvIns s it :: evs) = inserted_of ops evs).
        { cbn [inserted_of]. destruct ES as [-> | ->]; reflexivity. }
        rewrite EI. cbn [destroyed_of]. rewrite EL in P.
        split; [assumption|]. split; [|split; [assumption|lia]].
        eapply Forall_impl; [|exact F]. cbv beta. intros; lia.
    + pose proof (remove_refines rank dup id st I) as RR.
      destruct (remove id st) as [[[s st'] dl] c].
      destruct RR as [E1 I1]. specialize (IH o st' I1).
      destruct (run rank dup ops o st') as [fin evs]. destruct IH as (P & F & ND & LE).
      unfold sp_remove, abs in E1. cbn [destroyed_of inserted_of].
      destruct I as (_ & _ & _ & NDi & _).
      destruct (slookup id (elems (root st))) as [e|] eqn:SL.
      * injection E1 as -> E2 E3 ->. rewrite E2 in P. rewrite <- E3.
        split; [|split; [assumption|split; assumption]].
        cbn [app]. eapply Permutation_trans; [apply perm_skip; exact P|].
        change (e :: sremove id (elems (root st)) ++ inserted_of ops evs)
          with ((e :: sremove id (elems (root st))) ++ inserted_of ops evs).
        apply Permutation_app_tail. apply slookup_perm; assumption.
      * injection E1 as -> E2 E3 ->. rewrite E2 in P. rewrite <- E3.
        split; [|split; [assumption|split; assumption]]. exact P.
    + destruct (tfind rank x st) as [[s it] lg]. specialize (IH o st I).
      destruct (run rank dup ops o st) as [fin evs]. cbn [destroyed_of inserted_of]. exact IH.
Qed.

End Destroy.
