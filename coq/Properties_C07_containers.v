(* C07, part 3 — the containers whose allocation is data dependent.  These are the theorems of the
   B-tree, hash and AVL developments read at an ARBITRARY allocation oracle (any request may be refused,
   once, from then on, or in any other pattern), restated here so that C07's check re-checks them:
     - a reported failure leaves the observable contents exactly as before (always so for insertions);
     - the structural invariant is re-established, so every later theorem applies to the object
       ("remains fully usable; once memory is available again all operations behave as specified");
     - with no refusal there is no NO_MEM. *)
From Coq Require Import ZArith List Bool.
From Zix Require BTreeSpec BTreeModel BTreeProofsBase BTreeProofsHist Properties_C01.
From Zix Require HashSpec HashModel Properties_C03.
From Zix Require AvlSpec AvlModel AvlProofsState AvlProofsTop Properties_C06.
Import ListNotations.

Module BTreeFault.
Import BTreeSpec BTreeModel BTreeProofsBase BTreeProofsHist Properties_C01.

(* ZixBTree: for every page configuration and every oracle, a failed insertion changes nothing observable
   (although pages may already have been split on the way down) and the invariant holds afterwards *)
Theorem btree_alloc_failure_atomic :
  forall (elt : Type) (rank : elt -> Z) (dflt : elt) (L I : nat), I = L / 2 -> 3 <= I ->
  forall (H : nat) (o : list bool) (t : tree elt) (e : elt), Inv rank L I t ->
    let '(st, t', o', lg) := insert rank dflt L I H o t e in
    Inv rank L I t' /\
    (st = NO_MEM -> elements (root t') = elements (root t)) /\
    ((forall b, In b o -> b = true) -> st <> NO_MEM).
Proof.
  intros elt rank dflt L I HI H3 MH o t e Hinv.
  pose proof (btree_insert_refines elt rank dflt L I HI H3 MH o t e Hinv) as H.
  destruct (insert rank dflt L I MH o t e) as [[[st t'] o'] lg].
  destruct H as (A & _ & _ & B & C & _). split; [exact A|split; [exact B|exact C]].
Qed.
End BTreeFault.
Print Assumptions BTreeFault.btree_alloc_failure_atomic.

Module HashFault.
Import HashSpec HashModel Properties_C03.

(* ZixHash: every history under every oracle runs to completion with results the abstract map allows
   (the relational spec admits NO_MEM only with the map unchanged, or for a removal with the record handed back),
   and every state it reaches satisfies the table invariants (Properties_C03.hash_invariants) *)
Theorem hash_alloc_failure_contract :
  forall hf cs o, exists l rs,
    run hf (hash_new, None) cs o = (Ret l, rs) /\ spec_run [] None cs (map fst l).
Proof. exact hash_refines_map. Qed.
End HashFault.
Print Assumptions HashFault.hash_alloc_failure_contract.

Module AvlFault.
Import AvlSpec AvlModel AvlProofsState AvlProofsTop Properties_C06.

(* ZixTree: insertion under any oracle refines the abstract multiset, whose NO_MEM case leaves the listing as it was *)
Theorem avl_alloc_failure_atomic : forall rank dup ops o x o1,
  let st := reach rank dup ops o in
  let '(s, it, st', o2, _) := insert rank dup x o1 st in
  (s, it, abs st', o2) = sp_insert rank dup x o1 (abs st).
Proof. exact avl_insert_refines. Qed.
End AvlFault.
Print Assumptions AvlFault.avl_alloc_failure_atomic.
