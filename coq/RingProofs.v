(* C05: invariant, abstraction function, and what each ring operation does in terms of them. *)
From Coq Require Import ZArith Znumtheory List Bool Lia ZifyBool.
From Zix Require Import RingSpec RingModel RingProofsNpot RingProofsBase.
Import ListNotations.
Local Open Scope Z_scope.

(* ---------- invariant and abstraction ---------- *)

Record inv (rg : ring) : Prop := mkInv {
  inv_k : exists k, 0 <= k <= 31 /\ size rg = 2 ^ k;
  inv_mask : size_mask rg = size rg - 1;
  inv_r : 0 <= read_head rg < size rg;
  inv_w : 0 <= write_head rg < size rg;
  inv_len : len (buf rg) = size rg
}.

(* n bytes of the circular buffer starting at index s *)
Definition ring_bytes (b : list Z) (N s n : Z) : list Z :=
  map (fun i => znth b ((s + i) mod N)) (zrange n).

(* the stored bytes: from the read head up to the write head *)
Definition abs (rg : ring) : list Z :=
  ring_bytes (buf rg) (size rg) (read_head rg) (ring_read_space rg).

Lemma inv_N rg : inv rg -> 0 < size rg <= 2 ^ 31.
Proof.
  intros [[k [Hk E]] _ _ _ _]. rewrite E. split; [apply pow2_pos; lia|].
  apply Z.pow_le_mono_r; lia.
Qed.

Lemma mask_u32 rg x : inv rg -> Z.land (u32 x) (size_mask rg) = x mod size rg.
Proof.
  intros [[k [Hk E]] M _ _ _]. rewrite M, E, land_mask by lia. apply u32_mod_pow2. lia.
Qed.

Lemma mask_plain rg x : inv rg -> Z.land x (size_mask rg) = x mod size rg.
Proof. intros [[k [Hk E]] M _ _ _]. rewrite M, E. apply land_mask. lia. Qed.

Lemma rsi_spec rg r w : inv rg -> read_space_internal rg r w = (w - r) mod size rg.
Proof. intros H. unfold read_space_internal. now apply mask_u32. Qed.

Lemma wsi_spec rg r w : inv rg -> write_space_internal rg r w = (r - w - 1) mod size rg.
Proof.
  intros H. unfold write_space_internal. rewrite mask_u32 by exact H.
  destruct H as [[k [Hk E]] _ _ _ _]. rewrite E.
  rewrite <- Zminus_mod_idemp_l. rewrite u32_mod_pow2 by lia. apply Zminus_mod_idemp_l.
Qed.

Ltac modc N x :=
  let H := fresh "Hm" in
  destruct (mod_3cases N x ltac:(lia) ltac:(lia)) as [[? H]|[[? H]|[? H]]]; rewrite ?H in *.

(* read space + write space = size - 1, for any two in-range heads *)
Lemma space_sum N r w :
  0 < N -> 0 <= r < N -> 0 <= w < N -> (w - r) mod N + (r - w - 1) mod N = N - 1.
Proof. intros HN Hr Hw. modc N (w - r); modc N (r - w - 1); lia. Qed.

Lemma ring_bytes_len b N s n : 0 <= n -> len (ring_bytes b N s n) = n.
Proof. intros. unfold ring_bytes. now apply len_map_zrange. Qed.

Lemma ring_bytes_app b N s n m :
  0 <= n -> 0 <= m -> ring_bytes b N s (n + m) = ring_bytes b N s n ++ ring_bytes b N (s + n) m.
Proof.
  intros Hn Hm. unfold ring_bytes. rewrite zrange_app, map_app, map_map by lia.
  f_equal. apply map_ext. intros i. do 2 f_equal. lia.
Qed.

Lemma ring_bytes_mod_start b N s n : ring_bytes b N (s mod N) n = ring_bytes b N s n.
Proof.
  unfold ring_bytes. apply map_ext. intros i. f_equal. apply Zplus_mod_idemp_l.
Qed.

Lemma ring_bytes_ext b b' N s n :
  (forall i, 0 <= i < n -> znth b' ((s + i) mod N) = znth b ((s + i) mod N)) ->
  ring_bytes b' N s n = ring_bytes b N s n.
Proof. intros H. unfold ring_bytes. apply map_zrange_ext. exact H. Qed.

Lemma ring_bytes_take b N s n m : 0 <= n <= m -> ztake n (ring_bytes b N s m) = ring_bytes b N s n.
Proof. intros H. unfold ztake, ring_bytes. now apply firstn_map_zrange. Qed.

Lemma ring_bytes_drop b N s n m :
  0 <= n <= m -> zdrop n (ring_bytes b N s m) = ring_bytes b N (s + n) (m - n).
Proof.
  intros H. unfold zdrop, ring_bytes. rewrite skipn_map_zrange by exact H.
  apply map_ext. intros i. do 2 f_equal. lia.
Qed.

Lemma abs_len rg : inv rg -> len (abs rg) = ring_read_space rg.
Proof.
  intros H. unfold abs. apply ring_bytes_len. unfold ring_read_space. rewrite rsi_spec by exact H.
  pose proof (inv_N rg H). apply Z.mod_pos_bound. lia.
Qed.

(* ---------- peek_internal: the two-part copy delivers ring_bytes ---------- *)

Lemma peek_internal_spec rg r w n :
  inv rg -> 0 <= r < size rg -> 0 <= n ->
  peek_internal rg r w n =
    if n <=? (w - r) mod size rg then (n, ring_bytes (buf rg) (size rg) r n) else (0, []).
Proof.
  intros H Hr Hn. pose proof (inv_N rg H) as HN. pose proof (inv_len rg H) as HL.
  unfold peek_internal. rewrite rsi_spec by exact H.
  pose proof (Z.mod_pos_bound (w - r) (size rg) ltac:(lia)) as Hrs.
  set (N := size rg) in *. set (rs := (w - r) mod N) in *.
  destruct (rs <? n) eqn:E1; destruct (n <=? rs) eqn:E2; try lia; [reflexivity|].
  apply Z.leb_le in E2.
  assert (H32 : 2 ^ 31 + 2 ^ 31 = 2 ^ 32) by reflexivity.
  rewrite (u32_small (r + n)) by lia.
  destruct (r + n <? N) eqn:E3.
  - apply Z.ltb_lt in E3. f_equal. rewrite mem_read_spec by lia.
    unfold ring_bytes. apply map_zrange_ext. intros i Hi. f_equal.
    symmetry. apply Z.mod_small. lia.
  - apply Z.ltb_ge in E3. f_equal.
    rewrite (u32_small (N - r)) by lia. rewrite (u32_small (n - (N - r))) by lia.
    rewrite !mem_read_spec by lia.
    assert (Hsplit : ring_bytes (buf rg) N r n =
                     ring_bytes (buf rg) N r (N - r) ++ ring_bytes (buf rg) N (r + (N - r)) (n - (N - r))).
    { rewrite <- ring_bytes_app by lia. f_equal. lia. }
    rewrite Hsplit. unfold ring_bytes. f_equal.
    + apply map_zrange_ext. intros i Hi. f_equal. symmetry. apply Z.mod_small. lia.
    + apply map_zrange_ext. intros i Hi. f_equal. symmetry.
      apply (mod_shift N _ i 1); lia.
Qed.

(* ---------- amend_write: the two-part copy stores src at tw, tw+1, ... modulo N ---------- *)

Definition written (b : list Z) (N tw : Z) (src b' : list Z) : Prop :=
  len b' = len b /\
  forall j, 0 <= j < N ->
    znth b' j = if (j - tw) mod N <? len src then znth src ((j - tw) mod N) else znth b j.

Lemma amend_spec rg t src :
  inv rg -> 0 <= tx_write_head t < size rg ->
  let N := size rg in
  let room := (tx_read_head t - tx_write_head t - 1) mod N in
  if len src <=? room
  then exists b', ring_amend_write rg t src =
                    (set_buf rg b', mkTx (tx_read_head t) ((tx_write_head t + len src) mod N), ST_SUCCESS)
                  /\ written (buf rg) N (tx_write_head t) src b'
  else ring_amend_write rg t src = (rg, t, ST_NO_MEM).
Proof.
  intros H Hw N room. pose proof (inv_N rg H) as HN. pose proof (inv_len rg H) as HL.
  unfold ring_amend_write. rewrite wsi_spec by exact H.
  change (Z.of_nat (length src)) with (len src).
  pose proof (len_nonneg src) as Hs.
  fold N in HN, HL, Hw |- *. fold room.
  pose proof (Z.mod_pos_bound (tx_read_head t - tx_write_head t - 1) N ltac:(lia)) as Hroom.
  fold room in Hroom.
  set (tw := tx_write_head t) in *. set (sz := len src) in *.
  destruct (room <? sz) eqn:E1; destruct (sz <=? room) eqn:E2; try lia; [reflexivity|].
  apply Z.leb_le in E2.
  assert (H32 : 2 ^ 31 + 2 ^ 31 = 2 ^ 32) by reflexivity.
  rewrite (u32_small (tw + sz)) by lia.
  destruct (tw + sz <=? N) eqn:E3.
  - apply Z.leb_le in E3. eexists. split.
    + rewrite mask_plain by exact H. reflexivity.
    + split; [apply mem_write_len; fold sz; lia|].
      intros j Hj. rewrite mem_write_znth by (fold sz; lia). fold sz.
      modc N (j - tw).
      * destruct (tw <=? j) eqn:A; [|lia]. cbn [andb].
        destruct (j <? tw + sz) eqn:B; destruct (j - tw <? sz) eqn:C; try lia; reflexivity.
      * destruct (tw <=? j) eqn:A; [lia|]. cbn [andb].
        destruct (j - tw + N <? sz) eqn:C; [lia|reflexivity].
      * lia.
  - apply Z.leb_gt in E3.
    rewrite (u32_small (N - tw)) by lia. rewrite (u32_small (sz - (N - tw))) by lia.
    assert (Hr1 : len (mem_read src 0 (N - tw)) = N - tw) by (apply mem_read_len; fold sz; lia).
    assert (Hr2 : len (mem_read src (N - tw) (sz - (N - tw))) = sz - (N - tw))
      by (apply mem_read_len; fold sz; lia).
    assert (Hw1 : len (mem_write (buf rg) tw (mem_read src 0 (N - tw))) = N)
      by (rewrite mem_write_len; lia).
    eexists. split.
    + f_equal. f_equal. f_equal. symmetry. apply (mod_shift N _ _ 1); lia.
    + split; [rewrite mem_write_len; lia|].
      intros j Hj. rewrite mem_write_znth by lia. rewrite Hr2. fold sz.
      destruct (0 <=? j) eqn:A; [|lia]. cbn [andb].
      destruct (j <? 0 + (sz - (N - tw))) eqn:B.
      * (* second part: the bytes that wrapped to the start of the buffer *)
        apply Z.ltb_lt in B. modc N (j - tw); try lia.
        destruct (j - tw + N <? sz) eqn:C. 2:{ lia. }
        rewrite mem_read_spec by (fold sz; lia).
        rewrite znth_map_zrange by lia. f_equal. lia.
      * apply Z.ltb_ge in B. rewrite mem_write_znth by lia. rewrite Hr1.
        destruct (tw <=? j) eqn:C.
        -- apply Z.leb_le in C. destruct (j <? tw + (N - tw)) eqn:D; [|lia]. cbn [andb].
           modc N (j - tw); try lia.
           destruct (j - tw <? sz) eqn:F; [|lia].
           rewrite mem_read_spec by (fold sz; lia).
           rewrite znth_map_zrange by lia. f_equal.
        -- apply Z.leb_gt in C. cbn [andb]. modc N (j - tw); try lia.
           destruct (j - tw + N <? sz) eqn:F; [lia|reflexivity].
Qed.
