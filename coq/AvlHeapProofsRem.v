(* C06 — heap model of tree.c, lemmas part 4: zix_tree_remove on a heap that represents a tree
   (unlinking, successor relinking with every parent update, upward retrace loop over parent
   pointers) simulates the functional removal. *)
From Coq Require Import ZArith List Bool Lia ZifyBool Permutation.
From Zix Require Import AvlSpec AvlModel AvlProofs AvlProofsIter AvlProofsRemove AvlProofsState
  AvlHeapModel AvlHeapProofsBase AvlHeapProofsRot.
Import ListNotations.
Local Open Scope Z_scope.

(* ------------------------------------------------------------------ the functional removal in zipper form *)
(* the upward loop: the subtree in the hole has changed height by hc *)
Fixpoint up_del (c : ctx) (t : tree) (hc : Z) (lg : list Z) : tree * Z * list Z :=
  match c with
  | Top => (t, hc, lg)
  | CL i d b r c' => let '(t', hc', lg') := retrace_del (N i d b t r) (- hc) in up_del c' t' hc' (lg ++ lg')
  | CR i d b l c' => let '(t', hc', lg') := retrace_del (N i d b l t) hc in up_del c' t' hc' (lg ++ lg')
  end.

Lemma up_del_capp : forall c1 c2 t hc lg,
  up_del (capp c1 c2) t hc lg = let '(t', hc', lg') := up_del c1 t hc lg in up_del c2 t' hc' lg'.
Proof.
  induction c1 as [|i d b r c IH|i d b l c IH]; intros c2 t hc lg; cbn [capp up_del]; [reflexivity| |].
  - destruct (retrace_del (N i d b t r) (- hc)) as [[t' hc'] lg']. apply IH.
  - destruct (retrace_del (N i d b l t) hc) as [[t' hc'] lg']. apply IH.
Qed.

Lemma retrace_del_zero : forall i d b l r, retrace_del (N i d b l r) 0 = (N i d b l r, 0, []).
Proof. intros. unfold retrace_del. cbn [Z.eqb orb]. rewrite Z.add_0_r. reflexivity. Qed.

Lemma up_del_zero : forall c t lg, up_del c t 0 lg = (plug c t, 0, lg).
Proof.
  induction c as [|i d b r c IH|i d b l c IH]; intros t lg; cbn [up_del plug]; [reflexivity| |].
  - change (- 0) with 0. rewrite retrace_del_zero. rewrite app_nil_r. apply IH.
  - rewrite retrace_del_zero. rewrite app_nil_r. apply IH.
Qed.

Lemma rem_plug : forall id c t t' hc lg x,
  rem id t = Some (t', hc, lg, x) -> ~ In id (cids c) ->
  rem id (plug c t) = Some (up_del c t' hc lg, x).
Proof.
  intros id. induction c as [|i d b r c IH|i d b l c IH]; intros t t' hc lg x R NI; cbn [plug up_del cids] in *.
  - exact R.
  - destruct (retrace_del (N i d b t' r) (- hc)) as [[t2 hc2] lg2] eqn:RD.
    apply IH; [|intros X; apply NI; right; apply in_or_app; right; assumption].
    cbn [rem]. replace (i =? id) with false by (symmetry; apply Z.eqb_neq; intros ->; apply NI; left; reflexivity).
    rewrite R. rewrite RD. reflexivity.
  - destruct (retrace_del (N i d b l t') hc) as [[t2 hc2] lg2] eqn:RD.
    apply IH; [|intros X; apply NI; right; apply in_or_app; right; assumption].
    cbn [rem]. replace (i =? id) with false by (symmetry; apply Z.eqb_neq; intros ->; apply NI; left; reflexivity).
    assert (RN : rem id l = None).
    { apply rem_none. intros X. apply NI. right. apply in_or_app. left. assumption. }
    rewrite RN, R, RD. reflexivity.
Qed.

(* a left spine *)
Fixpoint spine (c : ctx) : Prop :=
  match c with Top => True | CL _ _ _ _ c' => spine c' | CR _ _ _ _ _ => False end.

Lemma spine_capp : forall c1 c2, spine c1 -> spine c2 -> spine (capp c1 c2).
Proof. induction c1 as [|i d b r c IH|i d b l c IH]; intros c2 S1 S2; cbn [capp spine] in *; [assumption|apply IH; assumption|contradiction]. Qed.

(* the tree without its leftmost node *)
Fixpoint unmin (t : tree) : tree :=
  match t with
  | E => E
  | N j dj bj lj rj => match lj with E => rj | _ => N j dj bj (unmin lj) rj end
  end.

Lemma unmin_plug : forall cs u, spine cs -> u <> E -> unmin (plug cs u) = plug cs (unmin u).
Proof.
  induction cs as [|k dk bk rk cs IH|k dk bk lk cs IH]; intros u S NE; cbn [plug spine] in *; [reflexivity| |contradiction].
  rewrite IH by (assumption || discriminate). cbn [unmin]. destruct u; [congruence|reflexivity].
Qed.

Lemma remove_min_zip : forall lj j dj bj rj,
  exists cs m dm bm rm,
    N j dj bj lj rj = plug cs (N m dm bm E rm) /\ spine cs /\
    remove_min j dj bj lj rj = (let '(T, h, l) := up_del cs rm (-1) [] in (T, (m, dm), h, l)).
Proof.
  induction lj as [|k dk bk lk IHl rk _]; intros j dj bj rj.
  - exists Top, j, dj, bj, rj. repeat split.
  - destruct (IHl k dk bk rk) as (cs & m & dm & bm & rm & P & S & RM).
    exists (capp cs (CL j dj bj rj Top)), m, dm, bm, rm. split; [|split].
    + rewrite plug_capp. rewrite <- P. reflexivity.
    + apply spine_capp; [assumption|exact I].
    + cbn [remove_min]. rewrite RM. rewrite up_del_capp.
      destruct (up_del cs rm (-1) []) as [[T h] l]. cbn [up_del].
      destruct (retrace_del (N j dj bj T rj) (- h)) as [[t' hc'] c']. reflexivity.
Qed.

(* the removal of a node located by its context *)
Lemma rem_at : forall id c d b l r t' hc lg,
  ~ In id (cids c) -> delete_here b l r = (t', hc, lg) ->
  rem id (plug c (N id d b l r)) = Some (up_del c t' hc lg, d).
Proof.
  intros id c d b l r t' hc lg NI D. apply rem_plug; [|exact NI].
  cbn [rem]. rewrite Z.eqb_refl. rewrite D. reflexivity.
Qed.

Lemma rem_two : forall id c d b l j dj bj lj rj,
  l <> E -> ~ In id (cids c) ->
  exists cs m dm bm rm,
    N j dj bj lj rj = plug cs (N m dm bm E rm) /\ spine cs /\
    rem id (plug c (N id d b l (N j dj bj lj rj))) = Some (up_del (capp cs (CR m dm b l c)) rm (-1) [], d).
Proof.
  intros id c d b l j dj bj lj rj NE NI.
  destruct (remove_min_zip lj j dj bj rj) as (cs & m & dm & bm & rm & P & S & RM).
  exists cs, m, dm, bm, rm. split; [assumption|]. split; [assumption|].
  rewrite up_del_capp. 
  destruct (up_del cs rm (-1) []) as [[r' hc] lg] eqn:U. cbn [up_del].
  destruct (retrace_del (N m dm b l r') hc) as [[t2 hc2] lg2] eqn:RD.
  apply rem_at; [assumption|]. unfold delete_here. destruct l as [|li ld lb ll lr]; [congruence|].
  rewrite RM. cbn [fst snd]. rewrite RD. reflexivity.
Qed.

(* ------------------------------------------------------------------ the heap side: the retrace loop *)
Lemma bal_root : forall h t par i, rep h t par -> root_id t = Some i -> bal h i = bal_of t.
Proof.
  intros h [|j d b l r] par i R Ri; [discriminate|]. cbn in Ri. inversion Ri. subst j.
  cbn [rep] in R. destruct R as (Hi & _). rewrite (bal_get _ _ _ Hi). reflexivity.
Qed.

Lemma parent_root : forall h t par i, rep h t par -> root_id t = Some i -> parent h i = par.
Proof.
  intros h [|j d b l r] par i R Ri; [discriminate|]. cbn in Ri. inversion Ri. subst j.
  cbn [rep] in R. destruct R as (Hi & _). unfold parent. rewrite Hi. reflexivity.
Qed.

Definition dbal_of (c : ctx) (hc : Z) : Z := match c with CL _ _ _ _ _ => - hc | _ => hc end.

Lemma next_dbal : forall h c repl hc' dbal t2,
  repc h c (Some repl) -> rep h t2 (ctx_id c) -> root_id t2 = Some repl -> NoDup (ids t2 ++ cids c) ->
  ctx_id c <> None ->
  match parent h repl with
  | Some g => if ptr_is (left h g) repl then - hc' else hc'
  | None => dbal
  end = dbal_of c hc'.
Proof.
  intros h c repl hc' dbal t2 RC R Ri ND NT. rewrite (parent_root _ _ _ _ R Ri).
  apply root_id_in in Ri.
  destruct c as [|g d b r c|g d b l c]; cbn [ctx_id dbal_of repc cids] in *; [congruence| |].
  - destruct RC as (Hg & _). unfold left. rewrite Hg. cbn [nleft]. rewrite ptr_is_refl. reflexivity.
  - destruct RC as (Hg & _). unfold left. rewrite Hg. cbn [nleft].
    rewrite ptr_is_false; [reflexivity|]. intros X. apply root_id_in in X. nd_absurd ND repl.
Qed.

Lemma h_rem_retrace_sim : forall c t hc lg h rt fuel dbal,
  NoDup (ids t ++ cids c) -> rep h t (ctx_id c) -> repc h c (root_id t) ->
  avl t -> avlc c (height t - hc) -> (hc = 0 \/ hc = -1) ->
  rt = ctx_root c (root_id t) -> (clen c <= fuel)%nat ->
  (ctx_id c <> None -> dbal = dbal_of c hc) ->
  exists h', h_rem_retrace fuel h rt (ctx_id c) dbal lg =
               Some (h', root_id (fst (fst (up_del c t hc lg))), snd (up_del c t hc lg)) /\
             rep h' (fst (fst (up_del c t hc lg))) None /\
             (forall j, ~ In j (ids t ++ cids c) -> hget h' j = hget h j).
Proof.
  induction c as [|g d b r c IH|g d b l c IH]; intros t hc lg h rt fuel dbal ND R RC A AC HC Hrt F DB.
  - cbn [ctx_id up_del fst snd]. destruct fuel; cbn [h_rem_retrace]; exists h; cbn in Hrt; subst rt; repeat split; auto.
  - destruct fuel as [|f]; [cbn in F; lia|]. cbn [clen] in F.
    cbn [repc] in RC. destruct RC as (Hg & Rr & RC).
    cbn [avlc] in AC. destruct AC as (Ar & Hb & Rb & AC).
    cbn [cids] in ND. cbn [cids ctx_id].
    rewrite (DB ltac:(discriminate)). cbn [dbal_of]. clear DB.
    cbn [h_rem_retrace]. rewrite !(bal_get _ _ _ Hg). cbn [nbal].
    set (h1 := set_bal h g (b + - hc)).
    assert (Hg1 : hget h1 g = Some (mkNode d (b + - hc) (ctx_id c) (root_id t) (root_id r))).
    { subst h1. rewrite hget_set_bal. eqb_simp. rewrite Hg. reflexivity. }
    assert (F1 : forall j, j <> g -> hget h1 j = hget h j) by (intros; subst h1; apply hget_set_bal_other; assumption).
    rewrite !(bal_get _ _ _ Hg1). cbn [nbal].
    set (t1 := N g d (b + - hc) t r).
    assert (ND1 : NoDup (ids t1 ++ cids c)) by (subst t1; rewrite ids_N; nd_perm ND).
    assert (R1 : rep h1 t1 (ctx_id c)).
    { subst t1. cbn [rep]. repeat split; [assumption| |].
      - eapply rep_ext; [|exact R]. intros j Hj. apply F1. nd_neq ND.
      - eapply rep_ext; [|exact Rr]. intros j Hj. apply F1. nd_neq ND. }
    assert (RC1 : repc h1 c (Some g)).
    { eapply repc_ext; [|exact RC]. intros j Hj. apply F1. nd_neq ND. }
    assert (Frame1 : forall j, ~ In j (ids t ++ g :: ids r ++ cids c) -> ~ In j (ids t1 ++ cids c)).
    { intros j Hj X. apply Hj. subst t1. rewrite ids_N in X. revert X. in_tauto. }
    cbn [up_del].
    destruct (retrace_del (N g d b t r) (- hc)) as [[t2 hc2] lg2] eqn:RD.
    pose proof (retrace_del_left g d b t r (height t - hc) hc t2 hc2 lg2 A Ar Hb Rb ltac:(lia) HC RD) as (A2 & H2 & HC2).
    unfold retrace_del in RD. fold t1 in RD.
    destruct ((- hc =? 0) || (b + - hc =? -1) || (b + - hc =? 1)) eqn:BR.
    + inversion RD. subst t2 hc2 lg2. rewrite up_del_zero, app_nil_r. cbn [fst snd].
      exists h1. rewrite root_id_plug. cbn [root_id]. split; [rewrite Hrt; reflexivity|]. split.
      * apply rep_plug. split; assumption.
      * intros j Hj. apply F1. intros ->. apply Hj. in_tauto.
    + assert (Hb1 : b + - hc = height r - height t) by lia.
      destruct (h_rebalance_sim h1 c g d (b + - hc) t r rt ND1 R1 RC1 A Ar Hb1) as (h2 & repl & Erepl & Ereb & OK).
      { rewrite Hrt. reflexivity. }
      fold t1 in Erepl, Ereb, OK. rewrite Ereb.
      destruct (rebalance t1) as [[t3 hc3] lg3]. cbn [fst snd] in *.
      inversion RD. subst t3 lg3. clear RD.
      destruct OK as (R2 & RC2 & Eids & Fr).
      rewrite (bal_root _ _ _ _ R2 Erepl). rewrite H1.
      assert (ND2 : NoDup (ids t2 ++ cids c)) by (rewrite Eids; assumption).
      rewrite Erepl in RC2.
      rewrite (parent_root _ _ _ _ R2 Erepl).
      destruct (IH t2 hc2 (lg ++ lg2) h2 (ctx_root c (Some repl)) f
                  (match ctx_id c with Some g0 => if ptr_is (left h2 g0) repl then - hc2 else hc2 | None => - hc end))
        as (h' & E1 & R' & Fr').
      * assumption.
      * assumption.
      * rewrite Erepl. assumption.
      * assumption.
      * replace (height t2 - hc2) with (1 + Z.max (height t - hc) (height r)) by lia. assumption.
      * assumption.
      * rewrite Erepl. reflexivity.
      * lia.
      * intros NT. rewrite <- (next_dbal h2 c repl hc2 (- hc) t2 RC2 R2 Erepl ND2 NT).
        rewrite (parent_root _ _ _ _ R2 Erepl). reflexivity.
      * exists h'. split; [exact E1|]. split; [exact R'|].
        intros j Hj. rewrite Fr'.
        -- rewrite Fr by (apply Frame1; assumption). apply F1. intros ->. apply Hj. in_tauto.
        -- rewrite Eids. apply Frame1. assumption.
  - destruct fuel as [|f]; [cbn in F; lia|]. cbn [clen] in F.
    cbn [repc] in RC. destruct RC as (Hg & Rl & RC).
    cbn [avlc] in AC. destruct AC as (Al & Hb & Rb & AC).
    cbn [cids] in ND. cbn [cids ctx_id].
    rewrite (DB ltac:(discriminate)). cbn [dbal_of]. clear DB.
    cbn [h_rem_retrace]. rewrite !(bal_get _ _ _ Hg). cbn [nbal].
    set (h1 := set_bal h g (b + hc)).
    assert (Hg1 : hget h1 g = Some (mkNode d (b + hc) (ctx_id c) (root_id l) (root_id t))).
    { subst h1. rewrite hget_set_bal. eqb_simp. rewrite Hg. reflexivity. }
    assert (F1 : forall j, j <> g -> hget h1 j = hget h j) by (intros; subst h1; apply hget_set_bal_other; assumption).
    rewrite !(bal_get _ _ _ Hg1). cbn [nbal].
    set (t1 := N g d (b + hc) l t).
    assert (ND1 : NoDup (ids t1 ++ cids c)) by (subst t1; rewrite ids_N; nd_perm ND).
    assert (R1 : rep h1 t1 (ctx_id c)).
    { subst t1. cbn [rep]. repeat split; [assumption| |].
      - eapply rep_ext; [|exact Rl]. intros j Hj. apply F1. nd_neq ND.
      - eapply rep_ext; [|exact R]. intros j Hj. apply F1. nd_neq ND. }
    assert (RC1 : repc h1 c (Some g)).
    { eapply repc_ext; [|exact RC]. intros j Hj. apply F1. nd_neq ND. }
    assert (Frame1 : forall j, ~ In j (ids t ++ g :: ids l ++ cids c) -> ~ In j (ids t1 ++ cids c)).
    { intros j Hj X. apply Hj. subst t1. rewrite ids_N in X. revert X. in_tauto. }
    cbn [up_del].
    destruct (retrace_del (N g d b l t) hc) as [[t2 hc2] lg2] eqn:RD.
    pose proof (retrace_del_right g d b l t (height t - hc) hc t2 hc2 lg2 Al A Hb Rb ltac:(lia) HC RD) as (A2 & H2 & HC2).
    unfold retrace_del in RD. fold t1 in RD.
    destruct ((hc =? 0) || (b + hc =? -1) || (b + hc =? 1)) eqn:BR.
    + inversion RD. subst t2 hc2 lg2. rewrite up_del_zero, app_nil_r. cbn [fst snd].
      exists h1. rewrite root_id_plug. cbn [root_id]. split; [rewrite Hrt; reflexivity|]. split.
      * apply rep_plug. split; assumption.
      * intros j Hj. apply F1. intros ->. apply Hj. in_tauto.
    + assert (Hb1 : b + hc = height t - height l) by lia.
      destruct (h_rebalance_sim h1 c g d (b + hc) l t rt ND1 R1 RC1 Al A Hb1) as (h2 & repl & Erepl & Ereb & OK).
      { rewrite Hrt. reflexivity. }
      fold t1 in Erepl, Ereb, OK. rewrite Ereb.
      destruct (rebalance t1) as [[t3 hc3] lg3]. cbn [fst snd] in *.
      inversion RD. subst t3 lg3. clear RD.
      destruct OK as (R2 & RC2 & Eids & Fr).
      rewrite (bal_root _ _ _ _ R2 Erepl). rewrite H1.
      assert (ND2 : NoDup (ids t2 ++ cids c)) by (rewrite Eids; assumption).
      rewrite Erepl in RC2.
      rewrite (parent_root _ _ _ _ R2 Erepl).
      destruct (IH t2 hc2 (lg ++ lg2) h2 (ctx_root c (Some repl)) f
                  (match ctx_id c with Some g0 => if ptr_is (left h2 g0) repl then - hc2 else hc2 | None => hc end))
        as (h' & E1 & R' & Fr').
      * assumption.
      * assumption.
      * rewrite Erepl. assumption.
      * assumption.
      * replace (height t2 - hc2) with (1 + Z.max (height l) (height t - hc)) by lia. assumption.
      * assumption.
      * rewrite Erepl. reflexivity.
      * lia.
      * intros NT. rewrite <- (next_dbal h2 c repl hc2 hc t2 RC2 R2 Erepl ND2 NT).
        rewrite (parent_root _ _ _ _ R2 Erepl). reflexivity.
      * exists h'. split; [exact E1|]. split; [exact R'|].
        intros j Hj. rewrite Fr'.
        -- rewrite Fr by (apply Frame1; assumption). apply F1. intros ->. apply Hj. in_tauto.
        -- rewrite Eids. apply Frame1. assumption.
Qed.
