(* C06 — heap model of tree.c, lemmas part 4: zix_tree_remove on a heap that represents a tree
   (unlinking, successor relinking with every parent update, upward retrace loop over parent
   pointers) simulates the functional removal. *)
From Coq Require Import ZArith List Bool Lia ZifyBool Permutation.
From Zix Require Import AvlSpec AvlModel AvlProofs AvlProofsIter AvlProofsRemove AvlProofsState
  AvlHeapModel AvlHeapProofsBase AvlHeapProofsRot AvlHeapProofsIter.
Import ListNotations.
Local Open Scope Z_scope.

(* ------------------------------------------------------------------ the functional removal in zipper form *)
(* the upward loop: the subtree in the hole has changed height by hc *)
Fixpoint up_del (c : ctx) (t : tree) (hc : Z) (lg : list Z) : tree * Z * list Z :=
  match c with
  | Top => (t, hc, lg)
  | CL i d b r c' => let '(t', hc', lg') := retrace_del (N i d b t r) (- hc) in up_del c' t' hc' (lg ++ lg')
  | CR i d b l c' => let '(t', hc', lg') := retrace_del (N i d b l t) hc in up_del c' t' hc' (lg ++ lg')
  end.

Lemma up_del_capp : forall c1 c2 t hc lg,
  up_del (capp c1 c2) t hc lg = let '(t', hc', lg') := up_del c1 t hc lg in up_del c2 t' hc' lg'.
Proof.
  induction c1 as [|i d b r c IH|i d b l c IH]; intros c2 t hc lg; cbn [capp up_del]; [reflexivity| |].
  - destruct (retrace_del (N i d b t r) (- hc)) as [[t' hc'] lg']. apply IH.
  - destruct (retrace_del (N i d b l t) hc) as [[t' hc'] lg']. apply IH.
Qed.

Lemma retrace_del_zero : forall i d b l r, retrace_del (N i d b l r) 0 = (N i d b l r, 0, []).
Proof. intros. unfold retrace_del. cbn [Z.eqb orb]. rewrite Z.add_0_r. reflexivity. Qed.

Lemma up_del_zero : forall c t lg, up_del c t 0 lg = (plug c t, 0, lg).
Proof.
  induction c as [|i d b r c IH|i d b l c IH]; intros t lg; cbn [up_del plug]; [reflexivity| |].
  - change (- 0) with 0. rewrite retrace_del_zero. rewrite app_nil_r. apply IH.
  - rewrite retrace_del_zero. rewrite app_nil_r. apply IH.
Qed.

Lemma rem_plug : forall id c t t' hc lg x,
  rem id t = Some (t', hc, lg, x) -> ~ In id (cids c) ->
  rem id (plug c t) = Some (up_del c t' hc lg, x).
Proof.
  intros id. induction c as [|i d b r c IH|i d b l c IH]; intros t t' hc lg x R NI; cbn [plug up_del cids] in *.
  - exact R.
  - destruct (retrace_del (N i d b t' r) (- hc)) as [[t2 hc2] lg2] eqn:RD.
    apply IH; [|intros X; apply NI; right; apply in_or_app; right; assumption].
    cbn [rem]. replace (i =? id) with false by (symmetry; apply Z.eqb_neq; intros ->; apply NI; left; reflexivity).
    rewrite R. rewrite RD. reflexivity.
  - destruct (retrace_del (N i d b l t') hc) as [[t2 hc2] lg2] eqn:RD.
    apply IH; [|intros X; apply NI; right; apply in_or_app; right; assumption].
    cbn [rem]. replace (i =? id) with false by (symmetry; apply Z.eqb_neq; intros ->; apply NI; left; reflexivity).
    assert (RN : rem id l = None).
    { apply rem_none. intros X. apply NI. right. apply in_or_app. left. assumption. }
    rewrite RN, R, RD. reflexivity.
Qed.

(* a left spine *)
Fixpoint spine (c : ctx) : Prop :=
  match c with Top => True | CL _ _ _ _ c' => spine c' | CR _ _ _ _ _ => False end.

Lemma spine_capp : forall c1 c2, spine c1 -> spine c2 -> spine (capp c1 c2).
Proof. induction c1 as [|i d b r c IH|i d b l c IH]; intros c2 S1 S2; cbn [capp spine] in *; [assumption|apply IH; assumption|contradiction]. Qed.

(* the tree without its leftmost node *)
Fixpoint unmin (t : tree) : tree :=
  match t with
  | E => E
  | N j dj bj lj rj => match lj with E => rj | _ => N j dj bj (unmin lj) rj end
  end.

Lemma unmin_plug : forall cs u, spine cs -> u <> E -> unmin (plug cs u) = plug cs (unmin u).
Proof.
  induction cs as [|k dk bk rk cs IH|k dk bk lk cs IH]; intros u S NE; cbn [plug spine] in *; [reflexivity| |contradiction].
  rewrite IH by (assumption || discriminate). cbn [unmin]. destruct u; [congruence|reflexivity].
Qed.

Lemma remove_min_zip : forall lj j dj bj rj,
  exists cs m dm bm rm,
    N j dj bj lj rj = plug cs (N m dm bm E rm) /\ spine cs /\
    remove_min j dj bj lj rj = (let '(T, h, l) := up_del cs rm (-1) [] in (T, (m, dm), h, l)).
Proof.
  induction lj as [|k dk bk lk IHl rk _]; intros j dj bj rj.
  - exists Top, j, dj, bj, rj. repeat split.
  - destruct (IHl k dk bk rk) as (cs & m & dm & bm & rm & P & S & RM).
    exists (capp cs (CL j dj bj rj Top)), m, dm, bm, rm. split; [|split].
    + rewrite plug_capp. rewrite <- P. reflexivity.
    + apply spine_capp; [assumption|exact I].
    + cbn [remove_min]. rewrite RM. rewrite up_del_capp.
      destruct (up_del cs rm (-1) []) as [[T h] l]. cbn [up_del].
      destruct (retrace_del (N j dj bj T rj) (- h)) as [[t' hc'] c']. reflexivity.
Qed.

(* the removal of a node located by its context *)
Lemma rem_at : forall id c d b l r t' hc lg,
  ~ In id (cids c) -> delete_here b l r = (t', hc, lg) ->
  rem id (plug c (N id d b l r)) = Some (up_del c t' hc lg, d).
Proof.
  intros id c d b l r t' hc lg NI D. apply rem_plug; [|exact NI].
  cbn [rem]. rewrite Z.eqb_refl. rewrite D. reflexivity.
Qed.

Lemma rem_two : forall id c d b l j dj bj lj rj,
  l <> E -> ~ In id (cids c) ->
  exists cs m dm bm rm,
    N j dj bj lj rj = plug cs (N m dm bm E rm) /\ spine cs /\
    rem id (plug c (N id d b l (N j dj bj lj rj))) = Some (up_del (capp cs (CR m dm b l c)) rm (-1) [], d).
Proof.
  intros id c d b l j dj bj lj rj NE NI.
  destruct (remove_min_zip lj j dj bj rj) as (cs & m & dm & bm & rm & P & S & RM).
  exists cs, m, dm, bm, rm. split; [assumption|]. split; [assumption|].
  rewrite up_del_capp. 
  destruct (up_del cs rm (-1) []) as [[r' hc] lg] eqn:U. cbn [up_del].
  destruct (retrace_del (N m dm b l r') hc) as [[t2 hc2] lg2] eqn:RD.
  apply rem_at; [assumption|]. unfold delete_here. destruct l as [|li ld lb ll lr]; [congruence|].
  rewrite RM. cbn [fst snd]. rewrite RD. reflexivity.
Qed.

(* ------------------------------------------------------------------ the heap side: the retrace loop *)
Lemma bal_root : forall h t par i, rep h t par -> root_id t = Some i -> bal h i = bal_of t.
Proof.
  intros h [|j d b l r] par i R Ri; [discriminate|]. cbn in Ri. inversion Ri. subst j.
  cbn [rep] in R. destruct R as (Hi & _). rewrite (bal_get _ _ _ Hi). reflexivity.
Qed.

Lemma parent_root : forall h t par i, rep h t par -> root_id t = Some i -> parent h i = par.
Proof.
  intros h [|j d b l r] par i R Ri; [discriminate|]. cbn in Ri. inversion Ri. subst j.
  cbn [rep] in R. destruct R as (Hi & _). unfold parent. rewrite Hi. reflexivity.
Qed.

Definition dbal_of (c : ctx) (hc : Z) : Z := match c with CL _ _ _ _ _ => - hc | _ => hc end.

Lemma next_dbal : forall h c repl hc' dbal t2,
  repc h c (Some repl) -> rep h t2 (ctx_id c) -> root_id t2 = Some repl -> NoDup (ids t2 ++ cids c) ->
  ctx_id c <> None ->
  match parent h repl with
  | Some g => if ptr_is (left h g) repl then - hc' else hc'
  | None => dbal
  end = dbal_of c hc'.
Proof.
  intros h c repl hc' dbal t2 RC R Ri ND NT. rewrite (parent_root _ _ _ _ R Ri).
  apply root_id_in in Ri.
  destruct c as [|g d b r c|g d b l c]; cbn [ctx_id dbal_of repc cids] in *; [congruence| |].
  - destruct RC as (Hg & _). unfold left. rewrite Hg. cbn [nleft]. rewrite ptr_is_refl. reflexivity.
  - destruct RC as (Hg & _). unfold left. rewrite Hg. cbn [nleft].
    rewrite ptr_is_false; [reflexivity|]. intros X. apply root_id_in in X. nd_absurd ND repl.
Qed.

Lemma h_rem_retrace_sim : forall c t hc lg h rt fuel dbal,
  NoDup (ids t ++ cids c) -> rep h t (ctx_id c) -> repc h c (root_id t) ->
  avl t -> avlc c (height t - hc) -> (hc = 0 \/ hc = -1) ->
  rt = ctx_root c (root_id t) -> (clen c <= fuel)%nat ->
  (ctx_id c <> None -> dbal = dbal_of c hc) ->
  exists h', h_rem_retrace fuel h rt (ctx_id c) dbal lg =
               Some (h', root_id (fst (fst (up_del c t hc lg))), snd (up_del c t hc lg)) /\
             rep h' (fst (fst (up_del c t hc lg))) None /\
             (forall j, ~ In j (ids t ++ cids c) -> hget h' j = hget h j).
Proof.
  induction c as [|g d b r c IH|g d b l c IH]; intros t hc lg h rt fuel dbal ND R RC A AC HC Hrt F DB.
  - cbn [ctx_id up_del fst snd]. destruct fuel; cbn [h_rem_retrace]; exists h; cbn in Hrt; subst rt; repeat split; auto.
  - destruct fuel as [|f]; [cbn in F; lia|]. cbn [clen] in F.
    cbn [repc] in RC. destruct RC as (Hg & Rr & RC).
    cbn [avlc] in AC. destruct AC as (Ar & Hb & Rb & AC).
    cbn [cids] in ND. cbn [cids ctx_id].
    rewrite (DB ltac:(discriminate)). cbn [dbal_of]. clear DB.
    cbn [h_rem_retrace]. rewrite !(bal_get _ _ _ Hg). cbn [nbal].
    set (h1 := set_bal h g (b + - hc)).
    assert (Hg1 : hget h1 g = Some (mkNode d (b + - hc) (ctx_id c) (root_id t) (root_id r))).
    { subst h1. rewrite hget_set_bal. eqb_simp. rewrite Hg. reflexivity. }
    assert (F1 : forall j, j <> g -> hget h1 j = hget h j) by (intros; subst h1; apply hget_set_bal_other; assumption).
    rewrite !(bal_get _ _ _ Hg1). cbn [nbal].
    set (t1 := N g d (b + - hc) t r).
    assert (ND1 : NoDup (ids t1 ++ cids c)) by (subst t1; rewrite ids_N; nd_perm ND).
    assert (R1 : rep h1 t1 (ctx_id c)).
    { subst t1. cbn [rep]. repeat split; [assumption| |].
      - eapply rep_ext; [|exact R]. intros j Hj. apply F1. nd_neq ND.
      - eapply rep_ext; [|exact Rr]. intros j Hj. apply F1. nd_neq ND. }
    assert (RC1 : repc h1 c (Some g)).
    { eapply repc_ext; [|exact RC]. intros j Hj. apply F1. nd_neq ND. }
    assert (Frame1 : forall j, ~ In j (ids t ++ g :: ids r ++ cids c) -> ~ In j (ids t1 ++ cids c)).
    { intros j Hj X. apply Hj. subst t1. rewrite ids_N in X. revert X. in_tauto. }
    cbn [up_del].
    destruct (retrace_del (N g d b t r) (- hc)) as [[t2 hc2] lg2] eqn:RD.
    pose proof (retrace_del_left g d b t r (height t - hc) hc t2 hc2 lg2 A Ar Hb Rb ltac:(lia) HC RD) as (A2 & H2 & HC2).
    unfold retrace_del in RD. fold t1 in RD.
    destruct ((- hc =? 0) || (b + - hc =? -1) || (b + - hc =? 1)) eqn:BR.
    + inversion RD. subst t2 hc2 lg2. rewrite up_del_zero, app_nil_r. cbn [fst snd].
      exists h1. rewrite root_id_plug. cbn [root_id]. split; [rewrite Hrt; reflexivity|]. split.
      * apply rep_plug. split; assumption.
      * intros j Hj. apply F1. intros ->. apply Hj. in_tauto.
    + assert (Hb1 : b + - hc = height r - height t) by lia.
      destruct (h_rebalance_sim h1 c g d (b + - hc) t r rt ND1 R1 RC1 A Ar Hb1) as (h2 & repl & Erepl & Ereb & OK).
      { rewrite Hrt. reflexivity. }
      fold t1 in Erepl, Ereb, OK. rewrite Ereb.
      destruct (rebalance t1) as [[t3 hc3] lg3]. cbn [fst snd] in *.
      inversion RD. subst t3 lg3. clear RD.
      destruct OK as (R2 & RC2 & Eids & Fr).
      rewrite (bal_root _ _ _ _ R2 Erepl). rewrite H1.
      assert (ND2 : NoDup (ids t2 ++ cids c)) by (rewrite Eids; assumption).
      rewrite Erepl in RC2.
      rewrite (parent_root _ _ _ _ R2 Erepl).
      destruct (IH t2 hc2 (lg ++ lg2) h2 (ctx_root c (Some repl)) f
                  (match ctx_id c with Some g0 => if ptr_is (left h2 g0) repl then - hc2 else hc2 | None => - hc end))
        as (h' & E1 & R' & Fr').
      * assumption.
      * assumption.
      * rewrite Erepl. assumption.
      * assumption.
      * replace (height t2 - hc2) with (1 + Z.max (height t - hc) (height r)) by lia. assumption.
      * assumption.
      * rewrite Erepl. reflexivity.
      * lia.
      * intros NT. rewrite <- (next_dbal h2 c repl hc2 (- hc) t2 RC2 R2 Erepl ND2 NT).
        rewrite (parent_root _ _ _ _ R2 Erepl). reflexivity.
      * exists h'. split; [exact E1|]. split; [exact R'|].
        intros j Hj. rewrite Fr'.
        -- rewrite Fr by (apply Frame1; assumption). apply F1. intros ->. apply Hj. in_tauto.
        -- rewrite Eids. apply Frame1. assumption.
  - destruct fuel as [|f]; [cbn in F; lia|]. cbn [clen] in F.
    cbn [repc] in RC. destruct RC as (Hg & Rl & RC).
    cbn [avlc] in AC. destruct AC as (Al & Hb & Rb & AC).
    cbn [cids] in ND. cbn [cids ctx_id].
    rewrite (DB ltac:(discriminate)). cbn [dbal_of]. clear DB.
    cbn [h_rem_retrace]. rewrite !(bal_get _ _ _ Hg). cbn [nbal].
    set (h1 := set_bal h g (b + hc)).
    assert (Hg1 : hget h1 g = Some (mkNode d (b + hc) (ctx_id c) (root_id l) (root_id t))).
    { subst h1. rewrite hget_set_bal. eqb_simp. rewrite Hg. reflexivity. }
    assert (F1 : forall j, j <> g -> hget h1 j = hget h j) by (intros; subst h1; apply hget_set_bal_other; assumption).
    rewrite !(bal_get _ _ _ Hg1). cbn [nbal].
    set (t1 := N g d (b + hc) l t).
    assert (ND1 : NoDup (ids t1 ++ cids c)) by (subst t1; rewrite ids_N; nd_perm ND).
    assert (R1 : rep h1 t1 (ctx_id c)).
    { subst t1. cbn [rep]. repeat split; [assumption| |].
      - eapply rep_ext; [|exact Rl]. intros j Hj. apply F1. nd_neq ND.
      - eapply rep_ext; [|exact R]. intros j Hj. apply F1. nd_neq ND. }
    assert (RC1 : repc h1 c (Some g)).
    { eapply repc_ext; [|exact RC]. intros j Hj. apply F1. nd_neq ND. }
    assert (Frame1 : forall j, ~ In j (ids t ++ g :: ids l ++ cids c) -> ~ In j (ids t1 ++ cids c)).
    { intros j Hj X. apply Hj. subst t1. rewrite ids_N in X. revert X. in_tauto. }
    cbn [up_del].
    destruct (retrace_del (N g d b l t) hc) as [[t2 hc2] lg2] eqn:RD.
    pose proof (retrace_del_right g d b l t (height t - hc) hc t2 hc2 lg2 Al A Hb Rb ltac:(lia) HC RD) as (A2 & H2 & HC2).
    unfold retrace_del in RD. fold t1 in RD.
    destruct ((hc =? 0) || (b + hc =? -1) || (b + hc =? 1)) eqn:BR.
    + inversion RD. subst t2 hc2 lg2. rewrite up_del_zero, app_nil_r. cbn [fst snd].
      exists h1. rewrite root_id_plug. cbn [root_id]. split; [rewrite Hrt; reflexivity|]. split.
      * apply rep_plug. split; assumption.
      * intros j Hj. apply F1. intros ->. apply Hj. in_tauto.
    + assert (Hb1 : b + hc = height t - height l) by lia.
      destruct (h_rebalance_sim h1 c g d (b + hc) l t rt ND1 R1 RC1 Al A Hb1) as (h2 & repl & Erepl & Ereb & OK).
      { rewrite Hrt. reflexivity. }
      fold t1 in Erepl, Ereb, OK. rewrite Ereb.
      destruct (rebalance t1) as [[t3 hc3] lg3]. cbn [fst snd] in *.
      inversion RD. subst t3 lg3. clear RD.
      destruct OK as (R2 & RC2 & Eids & Fr).
      rewrite (bal_root _ _ _ _ R2 Erepl). rewrite H1.
      assert (ND2 : NoDup (ids t2 ++ cids c)) by (rewrite Eids; assumption).
      rewrite Erepl in RC2.
      rewrite (parent_root _ _ _ _ R2 Erepl).
      destruct (IH t2 hc2 (lg ++ lg2) h2 (ctx_root c (Some repl)) f
                  (match ctx_id c with Some g0 => if ptr_is (left h2 g0) repl then - hc2 else hc2 | None => hc end))
        as (h' & E1 & R' & Fr').
      * assumption.
      * assumption.
      * rewrite Erepl. assumption.
      * assumption.
      * replace (height t2 - hc2) with (1 + Z.max (height l) (height t - hc)) by lia. assumption.
      * assumption.
      * rewrite Erepl. reflexivity.
      * lia.
      * intros NT. rewrite <- (next_dbal h2 c repl hc2 hc t2 RC2 R2 Erepl ND2 NT).
        rewrite (parent_root _ _ _ _ R2 Erepl). reflexivity.
      * exists h'. split; [exact E1|]. split; [exact R'|].
        intros j Hj. rewrite Fr'.
        -- rewrite Fr by (apply Frame1; assumption). apply F1. intros ->. apply Hj. in_tauto.
        -- rewrite Eids. apply Frame1. assumption.
Qed.

(* ------------------------------------------------------------------ the heap side: unlinking *)
(* NoDup of a sub-multiset of the segments of a NoDup list *)
Ltac nd_sub ND :=
  apply (proj2 (NoDup_count_occ Z.eq_dec _)); intros x;
  let X := fresh "X" in
  pose proof (nodup_occ _ ND x) as X; unfold occ in X;
  repeat (rewrite ?count_occ_app in X; cbn [count_occ] in X);
  repeat (rewrite ?count_occ_app; cbn [count_occ]);
  repeat match goal with
         | |- context [Z.eq_dec ?a ?b] => destruct (Z.eq_dec a b)
         | H : context [Z.eq_dec ?a ?b] |- _ => destruct (Z.eq_dec a b)
         end; lia.

Lemma up_del_perm : forall c t hc lg, Permutation (ids (fst (fst (up_del c t hc lg)))) (ids t ++ cids c).
Proof.
  induction c as [|i d b r c IH|i d b l c IH]; intros t hc lg; cbn [up_del cids].
  - cbn [fst]. rewrite app_nil_r. apply Permutation_refl.
  - pose proof (retrace_del_elems (N i d b t r) (- hc)) as E2.
    destruct (retrace_del (N i d b t r) (- hc)) as [[t' hc'] lg']. cbn [fst] in E2.
    assert (E3 : ids t' = ids (N i d b t r)) by (unfold ids; rewrite E2; reflexivity). rewrite ids_N in E3.
    eapply Permutation_trans; [apply IH|]. rewrite E3. rewrite <- app_assoc. reflexivity.
  - pose proof (retrace_del_elems (N i d b l t) hc) as E2.
    destruct (retrace_del (N i d b l t) hc) as [[t' hc'] lg']. cbn [fst] in E2.
    assert (E3 : ids t' = ids (N i d b l t)) by (unfold ids; rewrite E2; reflexivity). rewrite ids_N in E3.
    eapply Permutation_trans; [apply IH|]. rewrite E3. rewrite <- app_assoc.
    change (ids l ++ (i :: ids t) ++ cids c) with (ids l ++ ((i :: ids t) ++ cids c)).
    eapply Permutation_trans; [apply Permutation_app_swap_app|]. cbn [app].
    apply (Permutation_middle (ids t) (ids l ++ cids c) i).
Qed.

Lemma avlc_capp : forall c1 c2 u,
  avlc (capp c1 c2) (height u) <-> avlc c1 (height u) /\ avlc c2 (height (plug c1 u)).
Proof.
  induction c1 as [|i d b r c IH|i d b l c IH]; intros c2 u; cbn [capp avlc plug].
  - tauto.
  - specialize (IH c2 (N i d b u r)). cbn [height] in IH. rewrite IH. tauto.
  - specialize (IH c2 (N i d b l u)). cbn [height] in IH. rewrite IH. tauto.
Qed.

Lemma cids_capp : forall c1 c2, cids (capp c1 c2) = cids c1 ++ cids c2.
Proof.
  induction c1 as [|i d b r c IH|i d b l c IH]; intros c2; cbn [capp cids]; [reflexivity| |];
    rewrite IH; cbn [app]; rewrite app_assoc; reflexivity.
Qed.

Lemma clen_capp : forall c1 c2, clen (capp c1 c2) = (clen c1 + clen c2)%nat.
Proof. induction c1 as [|i d b r c IH|i d b l c IH]; intros c2; cbn [capp clen]; [reflexivity| |]; rewrite IH; reflexivity. Qed.

Lemma leftmost_spine : forall cs u, spine cs -> u <> E -> leftmost (plug cs u) = leftmost u.
Proof.
  induction cs as [|k dk bk rk cs IH|k dk bk lk cs IH]; intros u S NE; cbn [plug spine] in *; [reflexivity| |contradiction].
  rewrite IH by (assumption || discriminate). cbn [leftmost]. destruct u; [congruence|reflexivity].
Qed.

(* the child link of the node above the hole *)
Lemma child_link : forall h c n g, repc h c (Some n) -> ~ In n (cids c) -> ctx_id c = Some g ->
  ptr_is (left h g) n = match c with CL _ _ _ _ _ => true | _ => false end.
Proof.
  intros h c n g RC NI Eg. destruct c as [|g' d b r c|g' d b l c]; cbn [ctx_id repc cids] in *; [discriminate| |];
    inversion Eg; subst g'; destruct RC as (Hg & _); unfold left; rewrite Hg; cbn [nleft].
  - apply ptr_is_refl.
  - apply ptr_is_false. intros X. apply root_id_in in X. apply NI. right. apply in_or_app. left. assumption.
Qed.

Lemma repc_set_hole : forall h c n v g, repc h c (Some n) -> ~ In n (cids c) -> NoDup (cids c) -> ctx_id c = Some g ->
  let h1 := if ptr_is (left h g) n then set_left h g v else set_right h g v in
  repc h1 c v /\ (forall j, j <> g -> hget h1 j = hget h j).
Proof.
  intros h c n v g RC NI ND Eg. rewrite (child_link h c n g RC NI Eg).
  destruct c as [|g' d b r c|g' d b l c]; cbn [ctx_id repc cids] in *; [discriminate| |];
    inversion Eg; subst g'; destruct RC as (Hg & R1 & RC); inversion ND as [|? ? Ng ND']; subst; cbn zeta.
  - split.
    + split; [|split].
      * rewrite hget_set_left. eqb_simp. rewrite Hg. reflexivity.
      * eapply rep_ext; [|exact R1]. intros j Hj. rewrite hget_set_left.
        assert (j <> g) by (intros ->; apply Ng; apply in_or_app; left; assumption). eqb_simp. reflexivity.
      * eapply repc_ext; [|exact RC]. intros j Hj. rewrite hget_set_left.
        assert (j <> g) by (intros ->; apply Ng; apply in_or_app; right; assumption). eqb_simp. reflexivity.
    + intros j Hj. rewrite hget_set_left. eqb_simp. reflexivity.
  - split.
    + split; [|split].
      * rewrite hget_set_right. eqb_simp. rewrite Hg. reflexivity.
      * eapply rep_ext; [|exact R1]. intros j Hj. rewrite hget_set_right.
        assert (j <> g) by (intros ->; apply Ng; apply in_or_app; left; assumption). eqb_simp. reflexivity.
      * eapply repc_ext; [|exact RC]. intros j Hj. rewrite hget_set_right.
        assert (j <> g) by (intros ->; apply Ng; apply in_or_app; right; assumption). eqb_simp. reflexivity.
    + intros j Hj. rewrite hget_set_right. eqb_simp. reflexivity.
Qed.

(* *pp = v / t->root = v *)
Lemma set_pp_sim : forall h c n v, repc h c (Some n) -> ~ In n (cids c) -> NoDup (cids c) ->
  let pp := match ctx_id c with Some g => Some (g, ptr_is (left h g) n) | None => None end in
  repc (fst (set_pp h (ctx_root c (Some n)) pp v)) c v /\
  snd (set_pp h (ctx_root c (Some n)) pp v) = ctx_root c v /\
  (forall j, ctx_id c <> Some j -> hget (fst (set_pp h (ctx_root c (Some n)) pp v)) j = hget h j) /\
  match pp with Some (_, true) => 1 | Some (_, false) => -1 | None => 0 end =
    match c with Top => 0 | _ => dbal_of c (-1) end.
Proof.
  intros h c n v RC NI ND. destruct (ctx_id c) as [g|] eqn:Eg.
  - destruct (repc_set_hole h c n v g RC NI ND Eg) as (A & B). cbn zeta in *.
    rewrite (child_link h c n g RC NI Eg) in *.
    destruct c as [|g' d b r c|g' d b l c]; cbn [ctx_id] in Eg; [discriminate| |]; inversion Eg; subst g';
      cbn [set_pp fst snd ctx_root dbal_of]; (split; [exact A|]); (split; [reflexivity|]); (split; [|reflexivity]);
      intros j Hj; apply B; congruence.
  - destruct c; cbn in Eg; try discriminate. cbn. repeat split; auto.
Qed.

Lemma clen_le_cids : forall c, (clen c <= length (cids c))%nat.
Proof. induction c as [|i d b r c IH|i d b l c IH]; cbn [clen cids length]; [lia| |]; rewrite app_length; lia. Qed.

Lemma remove_finish : forall st fs n cc t hK rtK dbal,
  Rep st fs -> NoDup (ids (root fs)) -> size fs = count (root fs) ->
  NoDup (ids t ++ cids cc) -> rep hK t (ctx_id cc) -> repc hK cc (root_id t) ->
  avl t -> avlc cc (height t + 1) -> rtK = ctx_root cc (root_id t) ->
  (ctx_id cc <> None -> dbal = dbal_of cc (-1)) ->
  (forall j, In j (ids t ++ cids cc) <-> In j (ids (root fs)) /\ j <> n) ->
  (forall j, ~ In j (ids (root fs)) -> hget hK j = hget (hp st) j) ->
  exists h', h_rem_retrace (fuel_of st) hK rtK (ctx_id cc) dbal [] =
               Some (h', root_id (fst (fst (up_del cc t (-1) []))), snd (up_del cc t (-1) [])) /\
             Rep (mkH (hdel h' n) (root_id (fst (fst (up_del cc t (-1) [])))) (hsize st - 1) (hnextid st))
                 (mkState (fst (fst (up_del cc t (-1) []))) (size fs - 1) (nextid fs)).
Proof.
  intros st fs n cc t hK rtK dbal (R & Hroot & Hsize & Hnext & Dom) ND Sz NDt Rt RCt At ACt Hrt DB IN FR.
  assert (FU : (clen cc <= fuel_of st)%nat).
  { unfold fuel_of. rewrite Hsize, Sz, count_length. rewrite Nat2Z.id.
    pose proof (clen_le_cids cc).
    assert (length (ids t ++ cids cc) <= length (ids (root fs)))%nat.
    { apply NoDup_incl_length; [assumption|]. intros j Hj. apply IN in Hj. tauto. }
    rewrite app_length in H0.
    assert (length (ids (root fs)) = length (elems (root fs))) by (unfold ids; apply map_length). lia. }
  destruct (h_rem_retrace_sim cc t (-1) [] hK rtK (fuel_of st) dbal NDt Rt RCt At) as (h' & E1 & R' & Fr).
  { replace (height t - -1) with (height t + 1) by lia. assumption. }
  { right. reflexivity. }
  { assumption. }
  { assumption. }
  { assumption. }
  exists h'. split; [exact E1|].
  pose proof (up_del_perm cc t (-1) []) as PM.
  set (T' := fst (fst (up_del cc t (-1) []))) in *.
  assert (IN' : forall j, In j (ids T') <-> In j (ids (root fs)) /\ j <> n).
  { intros j. rewrite <- IN. split; intros X.
    - eapply Permutation_in; [exact PM|exact X].
    - eapply Permutation_in; [apply Permutation_sym; exact PM|exact X]. }
  unfold Rep. cbn [hp hroot hsize hnextid root size nextid]. split; [|split; [reflexivity|split; [lia|split; [assumption|]]]].
  - eapply rep_ext; [|exact R']. intros j Hj. rewrite hget_hdel. apply IN' in Hj. destruct Hj as [_ Hj].
    eqb_simp. reflexivity.
  - intros j Hj. rewrite hget_hdel in Hj. destruct (j =? n) eqn:C; [congruence|].
    destruct (in_dec Z.eq_dec j (ids T')) as [Y|N]; [assumption|]. exfalso.
    assert (NI : ~ In j (ids t ++ cids cc)).
    { intros X. apply N. eapply Permutation_in; [apply Permutation_sym; exact PM|exact X]. }
    rewrite (Fr j NI) in Hj.
    destruct (in_dec Z.eq_dec j (ids (root fs))) as [Y2|N2].
    + apply NI. apply IN. split; [assumption|lia].
    + rewrite (FR j N2) in Hj. apply N2. apply Dom. assumption.
Qed.

Lemma ctx_root_in : forall c x, ctx_id c <> None -> exists g, ctx_root c x = Some g /\ In g (cids c).
Proof.
  induction c as [|i d b r c IH|i d b l c IH]; intros x H; cbn [ctx_id ctx_root cids] in *; [congruence| |].
  - destruct c as [|i2 d2 b2 r2 c2|i2 d2 b2 l2 c2].
    + exists i. split; [reflexivity|left; reflexivity].
    + destruct (IH (Some i)) as (g & A & B); [discriminate|]. exists g. split; [exact A|]. right. apply in_or_app. right. exact B.
    + destruct (IH (Some i)) as (g & A & B); [discriminate|]. exists g. split; [exact A|]. right. apply in_or_app. right. exact B.
  - destruct c as [|i2 d2 b2 r2 c2|i2 d2 b2 l2 c2].
    + exists i. split; [reflexivity|left; reflexivity].
    + destruct (IH (Some i)) as (g & A & B); [discriminate|]. exists g. split; [exact A|]. right. apply in_or_app. right. exact B.
    + destruct (IH (Some i)) as (g & A & B); [discriminate|]. exists g. split; [exact A|]. right. apply in_or_app. right. exact B.
Qed.

(* what is known about the node to remove and its surroundings *)
Record located (st : hstate) (fs : state) (n : Z) (c : ctx) (d : elt) (b : Z) (l r : tree) : Prop := {
  loc_root : root fs = plug c (N n d b l r);
  loc_hn : hget (hp st) n = Some (mkNode d b (ctx_id c) (root_id l) (root_id r));
  loc_rl : rep (hp st) l (Some n);
  loc_rr : rep (hp st) r (Some n);
  loc_rc : repc (hp st) c (Some n);
  loc_nd : NoDup (ids l ++ n :: ids r ++ cids c);
  loc_al : avl l; loc_ar : avl r; loc_b : b = height r - height l; loc_rb : -1 <= b <= 1;
  loc_ac : avlc c (1 + Z.max (height l) (height r));
  loc_hroot : hroot st = ctx_root c (Some n);
  loc_in : forall j, In j (ids (root fs)) <-> In j (ids l) \/ j = n \/ In j (ids r) \/ In j (cids c) }.

Lemma locate : forall st fs n, Rep st fs -> avl (root fs) -> NoDup (ids (root fs)) -> In n (ids (root fs)) ->
  exists c d b l r, located st fs n c d b l r.
Proof.
  intros st fs n (R & Hroot & _) A ND IN.
  destruct (in_ids_split _ _ IN) as (c & d & b & l & r & HT).
  rewrite HT in R, A, ND, Hroot. apply rep_plug in R. destruct R as (Rn & RC).
  apply nodup_plug in ND. apply avl_plug in A. destruct A as (An & AC).
  cbn [rep] in Rn. destruct Rn as (Hn & Rl & Rr). cbn [avl] in An. destruct An as (Al & Ar & Hb & Rb).
  exists c, d, b, l, r. constructor; try assumption.
  - rewrite ids_N in ND. rewrite <- app_assoc in ND. exact ND.
  - rewrite root_id_plug in Hroot. exact Hroot.
  - intros j. rewrite HT. rewrite in_ids_plug. rewrite ids_N. rewrite in_app_iff. cbn [In].
    intuition congruence.
Qed.

(* replacing n by its only child ch (or by nothing), then retracing *)
Lemma splice_sim : forall st fs n c d b l r ch h2 rt1 dbal,
  Rep st fs -> NoDup (ids (root fs)) -> size fs = count (root fs) ->
  located st fs n c d b l r ->
  (ch = l /\ r = E \/ ch = r /\ l = E) ->
  rep h2 ch (ctx_id c) -> repc h2 c (root_id ch) -> rt1 = ctx_root c (root_id ch) ->
  (ctx_id c <> None -> dbal = dbal_of c (-1)) ->
  (forall j, ~ In j (ids (root fs)) -> hget h2 j = hget (hp st) j) ->
  exists h', h_rem_retrace (fuel_of st) h2 rt1 (ctx_id c) dbal [] =
               Some (h', root_id (fst (fst (up_del c ch (-1) []))), snd (up_del c ch (-1) [])) /\
             Rep (mkH (hdel h' n) (root_id (fst (fst (up_del c ch (-1) [])))) (hsize st - 1) (hnextid st))
                 (mkState (fst (fst (up_del c ch (-1) []))) (size fs - 1) (nextid fs)) /\
             rem n (root fs) = Some (up_del c ch (-1) [], d).
Proof.
  intros st fs n c d b l r ch h2 rt1 dbal RP ND Sz L CH R2 RC2 Hrt DB FR.
  destruct L as [HT Hn Rl Rr RC NDl Al Ar Hb Rb AC Hroot IN].
  assert (NDch : NoDup (ids ch ++ cids c)).
  { destruct CH as [[-> ->]|[-> ->]]; change (ids E) with (@nil Z) in NDl; cbn [app] in NDl; nd_sub NDl. }
  assert (Ach : avl ch) by (destruct CH as [[-> ->]|[-> ->]]; assumption).
  assert (ACch : avlc c (height ch + 1)).
  { destruct CH as [[-> ->]|[-> ->]]; cbn [height] in AC.
    - pose proof (height_nonneg l). replace (height l + 1) with (1 + Z.max (height l) 0) by lia. assumption.
    - pose proof (height_nonneg r). replace (height r + 1) with (1 + Z.max 0 (height r)) by lia. assumption. }
  assert (INch : forall j, In j (ids ch ++ cids c) <-> In j (ids (root fs)) /\ j <> n).
  { intros j. rewrite IN. rewrite in_app_iff.
    assert (Nl : In j (ids l) -> j <> n) by (intros X; nd_neq NDl).
    assert (Nr : In j (ids r) -> j <> n) by (intros X; nd_neq NDl).
    assert (Nc : In j (cids c) -> j <> n) by (intros X; nd_neq NDl).
    destruct CH as [[-> ->]|[-> ->]]; cbn [ids elems map In]; tauto. }
  destruct (remove_finish st fs n c ch h2 rt1 dbal RP ND Sz NDch R2 RC2 Ach ACch Hrt DB INch FR) as (h' & E1 & RP').
  exists h'. split; [exact E1|]. split; [exact RP'|].
  rewrite HT. apply rem_at.
  - intros X. nd_absurd NDl n.
  - unfold delete_here. destruct CH as [[-> ->]|[-> ->]].
    + destruct l; reflexivity.
    + destruct r; reflexivity.
Qed.

(* unlinking the leftmost node m of t when m is not the root of t:
   replace->parent->left = replace->right; if (replace->right) replace->right->parent = replace->parent *)
Lemma unlink_inner : forall t h par m ym,
  NoDup (ids t) -> rep h t par -> leftmost t = Some m -> root_id t <> Some m -> right h m = ym ->
  exists k, parent h m = Some k /\ In k (ids t) /\ k <> m /\ ptr_is (left h k) m = true /\
    let h1 := set_left h k ym in
    let h2 := match ym with Some y => set_parent h1 y (Some k) | None => h1 end in
    rep h2 (unmin t) par /\ root_id (unmin t) = root_id t /\
    (forall j, ~ In j (ids t) -> hget h2 j = hget h j) /\ hget h2 m = hget h m /\
    (forall j, In j (ids (unmin t)) <-> In j (ids t) /\ j <> m) /\
    (forall i, root_id t = Some i -> hget h2 i = option_map (fun nd => if ptr_is (nleft nd) m then w_left ym nd else nd) (hget h i)).
Proof.
  induction t as [|z dz bz lz IHl rz _]; intros h par m ym ND R LM NR RM; [discriminate|].
  cbn [rep] in R. destruct R as (Hz & Rlz & Rrz). rewrite ids_N in ND.
  destruct lz as [|z2 dz2 bz2 lz2 rz2]; [cbn in LM, NR; congruence|].
  destruct lz2 as [|z3 dz3 bz3 lz3 rz3].
  - (* m = z2 is the left child of z *)
    cbn in LM. inversion LM. subst z2. clear LM.
    cbn [rep root_id] in Rlz. destruct Rlz as (Hm & _ & Rrz2).
    unfold right in RM. rewrite Hm in RM. cbn [nright] in RM. subst ym.
    rewrite ids_N in ND. change (ids E) with (@nil Z) in ND. cbn [app] in ND.
    assert (Nzm : z <> m) by nd_neq ND.
    exists z. split; [unfold parent; rewrite Hm; reflexivity|]. split; [rewrite ids_N; in_tauto|]. split; [assumption|].
    split; [unfold left; rewrite Hz; cbn [nleft root_id]; apply ptr_is_refl|].
    cbn zeta. cbn [unmin root_id].
    set (h1 := set_left h z (root_id rz2)).
    assert (G1 : forall j, hget h1 j = if j =? z then Some (mkNode dz bz par (root_id rz2) (root_id rz)) else hget h j).
    { intros j. subst h1. rewrite hget_set_left. rewrite Hz. reflexivity. }
    destruct rz2 as [|y dy by_ ly ry].
    + cbn [root_id] in *. split; [|split; [reflexivity|split; [|split; [|split]]]].
      * cbn [rep root_id]. repeat split.
        -- rewrite G1. eqb_simp. reflexivity.
        -- eapply rep_ext; [|exact Rrz]. intros j Hj. rewrite G1. assert (j <> z) by nd_neq ND. eqb_simp. reflexivity.
      * intros j Hj. rewrite G1. rewrite !ids_N in Hj. assert (j <> z) by (intros ->; apply Hj; in_tauto). eqb_simp. reflexivity.
      * rewrite G1. eqb_simp. reflexivity.
      * intros j. rewrite !ids_N. change (ids E) with (@nil Z). cbn [app].
        assert (In j (ids rz) -> j <> m) by (intros X; nd_neq ND).
        repeat first [rewrite in_app_iff | progress cbn [In]]. intuition congruence.
      * intros i Hi. inversion Hi. subst i. rewrite G1. eqb_simp. rewrite Hz. cbn [option_map nleft]. rewrite ptr_is_refl. reflexivity.
    + cbn [root_id] in *. cbn [rep root_id] in Rrz2. destruct Rrz2 as (Hy & Rly & Rry). rewrite ids_N in ND.
      assert (Nyz : y <> z) by nd_neq ND.
      assert (G2 : forall j, hget (set_parent h1 y (Some z)) j =
                 if j =? y then Some (mkNode dy by_ (Some z) (root_id ly) (root_id ry)) else hget h1 j).
      { intros j. rewrite hget_set_parent. rewrite G1. eqb_simp. rewrite Hy. reflexivity. }
      split; [|split; [reflexivity|split; [|split; [|split]]]].
      * cbn [rep root_id]. repeat split.
        -- rewrite G2, G1. eqb_simp. reflexivity.
        -- rewrite G2. eqb_simp. reflexivity.
        -- eapply rep_ext; [|exact Rly]. intros j Hj. rewrite G2, G1.
           assert (j <> y) by nd_neq ND. assert (j <> z) by nd_neq ND. eqb_simp. reflexivity.
        -- eapply rep_ext; [|exact Rry]. intros j Hj. rewrite G2, G1.
           assert (j <> y) by nd_neq ND. assert (j <> z) by nd_neq ND. eqb_simp. reflexivity.
        -- eapply rep_ext; [|exact Rrz]. intros j Hj. rewrite G2, G1.
           assert (j <> y) by nd_neq ND. assert (j <> z) by nd_neq ND. eqb_simp. reflexivity.
      * intros j Hj. rewrite G2, G1. rewrite !ids_N in Hj.
        assert (j <> z) by (intros ->; apply Hj; in_tauto). assert (j <> y) by (intros ->; apply Hj; in_tauto).
        eqb_simp. reflexivity.
      * rewrite G2, G1. assert (m <> y) by nd_neq ND. eqb_simp. reflexivity.
      * intros j. rewrite !ids_N. change (ids E) with (@nil Z). cbn [app].
        assert (In j (ids rz) -> j <> m) by (intros X; nd_neq ND).
        assert (In j (ids ly) -> j <> m) by (intros X; nd_neq ND).
        assert (In j (ids ry) -> j <> m) by (intros X; nd_neq ND).
        assert (y <> m) by nd_neq ND.
        repeat first [rewrite in_app_iff | progress cbn [In]]. intuition congruence.
      * intros i Hi. inversion Hi. subst i. rewrite G2, G1. eqb_simp. rewrite Hz. cbn [option_map nleft]. rewrite ptr_is_refl. reflexivity.
  - (* m is deeper *)
    remember (N z3 dz3 bz3 lz3 rz3) as lz2 eqn:E2.
    assert (NDl : NoDup (ids (N z2 dz2 bz2 lz2 rz2))) by (apply NoDup_app_inv in ND; tauto).
    assert (LM2 : leftmost (N z2 dz2 bz2 lz2 rz2) = Some m) by (rewrite E2 in *; exact LM).
    assert (Im : In m (ids lz2)).
    { apply leftmost_in. rewrite E2 in *. cbn [leftmost] in LM2. cbn [leftmost]. exact LM2. }
    assert (NR2 : root_id (N z2 dz2 bz2 lz2 rz2) <> Some m).
    { cbn [root_id]. intros X. inversion X. subst z2. rewrite ids_N in NDl. nd_absurd NDl m. }
    destruct (IHl h (Some z) m ym NDl Rlz LM2 NR2 RM) as (k & Pk & Ik & Nkm & PL & IH).
    cbn zeta in IH. destruct IH as (R2 & RI & F2 & M2 & IN2 & RT2).
    exists k. split; [assumption|]. split; [rewrite ids_N; in_tauto|]. split; [assumption|]. split; [assumption|].
    cbn zeta.
    set (h2 := match ym with Some y => set_parent (set_left h k ym) y (Some k) | None => set_left h k ym end) in *.
    assert (UM : unmin (N z dz bz (N z2 dz2 bz2 lz2 rz2) rz) = N z dz bz (unmin (N z2 dz2 bz2 lz2 rz2)) rz) by reflexivity.
    rewrite UM. clear UM.
    assert (Hz2 : hget h2 z = hget h z).
    { apply F2. intros X. nd_absurd ND z. }
    split; [|split; [reflexivity|split; [|split; [assumption|split]]]].
    + cbn [rep]. rewrite RI. repeat split.
      * rewrite Hz2. exact Hz.
      * exact R2.
      * eapply rep_ext; [|exact Rrz]. intros j Hj. apply F2. intros X. nd_absurd ND j.
    + intros j Hj. apply F2. intros X. apply Hj. rewrite ids_N. in_tauto.
    + intros j. rewrite !(ids_N z). rewrite !in_app_iff. cbn [In]. rewrite IN2.
      assert (Im2 : In m (ids (N z2 dz2 bz2 lz2 rz2))) by (rewrite ids_N; in_tauto).
      assert (In j (ids rz) -> j <> m) by (intros X; nd_neq ND).
      assert (z <> m) by nd_neq ND. intuition congruence.
    + intros i Hi. cbn in Hi. inversion Hi. subst i. rewrite Hz2, Hz. cbn [option_map nleft root_id].
      rewrite ptr_is_false; [reflexivity|]. exact NR2.
Qed.

(* ------------------------------------------------------------------ the heap side: successor relinking *)
Lemma h_place_sim : forall h2 c n m d b lroot nr nm pp,
  hget h2 n = Some (mkNode d b (ctx_id c) (Some lroot) nr) ->
  hget h2 m = Some nm ->
  repc h2 c (Some n) -> ~ In n (cids c) -> ~ In m (cids c) -> NoDup (cids c) ->
  m <> n -> lroot <> m -> lroot <> n -> ~ In lroot (cids c) ->
  (forall z, nr = Some z -> z <> m /\ z <> n /\ z <> lroot /\ ~ In z (cids c)) ->
  pp = match ctx_id c with Some g => Some (g, ptr_is (left h2 g) n) | None => None end ->
  let h9 := fst (h_place h2 (ctx_root c (Some n)) pp n m) in
  let rt4 := snd (h_place h2 (ctx_root c (Some n)) pp n m) in
  hget h9 m = Some (mkNode (ndata nm) b (ctx_id c) (Some lroot) nr) /\
  hget h9 lroot = option_map (w_par (Some m)) (hget h2 lroot) /\
  (forall z, nr = Some z -> hget h9 z = option_map (w_par (Some m)) (hget h2 z)) /\
  repc h9 c (Some m) /\ rt4 = ctx_root c (Some m) /\
  (forall j, j <> m -> j <> lroot -> nr <> Some j -> ctx_id c <> Some j -> hget h9 j = hget h2 j).
Proof.
  intros h2 c n m d b lroot nr nm pp Hn Hm RC NIn NIm NDc Nmn Nlm Nln NIl Hz Epp.
  unfold h_place. rewrite (bal_get _ _ _ Hn). cbn [nbal].
  set (h3 := set_bal h2 m b).
  assert (G3 : forall j, hget h3 j = if j =? m then Some (w_bal b nm) else hget h2 j).
  { intros j. subst h3. rewrite hget_set_bal. rewrite Hm. reflexivity. }
  assert (RC3 : repc h3 c (Some n)).
  { eapply repc_ext; [|exact RC]. intros j Hj. rewrite G3. assert (j <> m) by (intros ->; contradiction). eqb_simp. reflexivity. }
  assert (Epp3 : pp = match ctx_id c with Some g => Some (g, ptr_is (left h3 g) n) | None => None end).
  { rewrite Epp. destruct (ctx_id c) as [g|] eqn:Eg; [|reflexivity]. unfold left. rewrite G3.
    assert (g <> m) by (intros ->; apply NIm; apply ctx_id_in; assumption). eqb_simp. reflexivity. }
  pose proof (set_pp_sim h3 c n (Some m) RC3 NIn NDc) as SP. cbn zeta in SP. rewrite <- Epp3 in SP.
  destruct (set_pp h3 (ctx_root c (Some n)) pp (Some m)) as [h4 rt4]. cbn [fst snd] in *.
  destruct SP as (RC4 & Ert & F4 & _).
  assert (Ng : forall j, ctx_id c = Some j -> j <> m /\ j <> n /\ j <> lroot).
  { intros j Ej. apply ctx_id_in in Ej. repeat split; intros ->; contradiction. }
  assert (Hn4 : hget h4 n = Some (mkNode d b (ctx_id c) (Some lroot) nr)).
  { rewrite F4. - rewrite G3. eqb_simp. assumption. - intros X. destruct (Ng n X) as (_ & A & _). congruence. }
  assert (Hm4 : hget h4 m = Some (w_bal b nm)).
  { rewrite F4. - rewrite G3. eqb_simp. reflexivity. - intros X. destruct (Ng m X) as (A & _). congruence. }
  assert (P4 : parent h4 n = ctx_id c) by (unfold parent; rewrite Hn4; reflexivity). rewrite !P4.
  set (h5 := set_parent h4 m (ctx_id c)).
  assert (L5 : left h5 n = Some lroot).
  { unfold left. subst h5. rewrite hget_set_parent. eqb_simp. rewrite Hn4. reflexivity. }
  rewrite !L5.
  set (h6 := set_left h5 m (Some lroot)).
  assert (G6 : forall j, hget h6 j = if j =? m then Some (mkNode (ndata nm) b (ctx_id c) (Some lroot) (nright nm)) else hget h4 j).
  { intros j. subst h6 h5. rewrite hget_set_left, !hget_set_parent. eqb_simp. rewrite Hm4. cbn.
    destruct (j =? m); reflexivity. }
  assert (L6 : left h6 n = Some lroot).
  { unfold left. rewrite G6. eqb_simp. rewrite Hn4. reflexivity. }
  rewrite !L6.
  set (h7 := set_parent h6 lroot (Some m)).
  assert (G7 : forall j, hget h7 j = if j =? lroot then option_map (w_par (Some m)) (hget h4 lroot) else hget h6 j).
  { intros j. subst h7. rewrite hget_set_parent. rewrite G6. eqb_simp. reflexivity. }
  assert (R7 : right h7 n = nr).
  { unfold right. rewrite G7, G6. eqb_simp. rewrite Hn4. reflexivity. }
  rewrite !R7.
  set (h8 := set_right h7 m nr).
  assert (G8 : forall j, hget h8 j = if j =? m then Some (mkNode (ndata nm) b (ctx_id c) (Some lroot) nr) else hget h7 j).
  { intros j. subst h8. rewrite hget_set_right. rewrite G7, G6. eqb_simp. reflexivity. }
  assert (R8 : right h8 n = nr).
  { unfold right. rewrite G8, G7, G6. eqb_simp. rewrite Hn4. reflexivity. }
  rewrite !R8.
  assert (H4l : hget h4 lroot = hget h2 lroot).
  { rewrite F4. - rewrite G3. eqb_simp. reflexivity. - intros X. destruct (Ng lroot X) as (_ & _ & A). congruence. }
  assert (FR : forall j, j <> m -> j <> lroot -> ctx_id c <> Some j -> hget h8 j = hget h2 j).
  { intros j A B C. rewrite G8, G7, G6. eqb_simp. rewrite F4 by assumption. rewrite G3. eqb_simp. reflexivity. }
  destruct nr as [z|].
  - destruct (Hz z eq_refl) as (Z1 & Z2 & Z3 & Z4).
    assert (G9 : forall j, hget (set_parent h8 z (Some m)) j = if j =? z then option_map (w_par (Some m)) (hget h2 z) else hget h8 j).
    { intros j. rewrite hget_set_parent. rewrite FR; [reflexivity|assumption|assumption|].
      intros X. apply ctx_id_in in X. contradiction. }
    split; [rewrite G9, G8; eqb_simp; reflexivity|].
    split; [rewrite G9, G8, G7; eqb_simp; rewrite H4l; reflexivity|].
    split; [intros z' Ez; inversion Ez; subst z'; rewrite G9; eqb_simp; reflexivity|].
    split; [|split; [assumption|]].
    + eapply repc_ext; [|exact RC4]. intros j Hj. rewrite G9, G8, G7, G6.
      assert (j <> z) by (intros ->; contradiction). assert (j <> m) by (intros ->; contradiction).
      assert (j <> lroot) by (intros ->; contradiction). eqb_simp. reflexivity.
    + intros j A B C D. rewrite G9. assert (j <> z) by congruence. eqb_simp. apply FR; assumption.
  - split; [rewrite G8; eqb_simp; reflexivity|].
    split; [rewrite G8, G7; eqb_simp; rewrite H4l; reflexivity|].
    split; [intros z' Ez; discriminate|].
    split; [|split; [assumption|]].
    + eapply repc_ext; [|exact RC4]. intros j Hj. rewrite G8, G7, G6.
      assert (j <> m) by (intros ->; contradiction).
      assert (j <> lroot) by (intros ->; contradiction). eqb_simp. reflexivity.
    + intros j A B C D. apply FR; assumption.
Qed.

Lemma ctx_id_capp : forall c1 c2, ctx_id (capp c1 c2) = match c1 with Top => ctx_id c2 | _ => ctx_id c1 end.
Proof. destruct c1; reflexivity. Qed.

Lemma ctx_root_capp : forall c1 c2 x, ctx_root (capp c1 c2) x = ctx_root c2 (ctx_root c1 x).
Proof. induction c1 as [|i d b r c IH|i d b l c IH]; intros c2 x; cbn [capp ctx_root]; [reflexivity| |]; apply IH. Qed.

Lemma occ_perm : forall l1 l2 x, Permutation l1 l2 -> occ l1 x = occ l2 x.
Proof. intros l1 l2 x P. unfold occ. apply Permutation_count_occ. assumption. Qed.

(* the pure facts about the context of the successor *)
Lemma replace_pure : forall st fs n c d b l r cs m dm bm rm,
  located st fs n c d b l r -> r = plug cs (N m dm bm E rm) -> spine cs ->
  let cc := capp cs (CR m dm b l c) in
  NoDup (ids rm ++ cids cc) /\ avl rm /\ avlc cc (height rm + 1) /\
  (forall j, In j (ids rm ++ cids cc) <-> In j (ids (root fs)) /\ j <> n) /\
  NoDup (m :: ids rm ++ cids cs) /\
  (forall j, In j (ids r) <-> j = m \/ In j (ids rm) \/ In j (cids cs)).
Proof.
  intros st fs n c d b l r cs m dm bm rm L Er S cc.
  destruct L as [HT Hn Rl Rr RC ND Al Ar Hb Rb AC Hroot IN].
  assert (PR : Permutation (ids r) (m :: ids rm ++ cids cs)).
  { rewrite Er. eapply Permutation_trans; [apply ids_plug_perm|]. rewrite ids_N. reflexivity. }
  assert (INr : forall j, In j (ids r) <-> j = m \/ In j (ids rm) \/ In j (cids cs)).
  { intros j. split; intros X.
    - apply (Permutation_in _ PR) in X. cbn [In] in X. rewrite in_app_iff in X. intuition congruence.
    - apply (Permutation_in _ (Permutation_sym PR)). cbn [In]. rewrite in_app_iff. intuition congruence. }
  assert (OC : forall x, (occ (ids l) x + (Nat.b2n (Z.eqb n x) + (occ (m :: ids rm ++ cids cs) x + occ (cids c) x)) <= 1)%nat).
  { intros x. pose proof (nodup_occ _ ND x) as X. rewrite !occ_app, occ_cons, occ_app in X.
    rewrite (occ_perm _ _ x PR) in X. exact X. }
  assert (ND1 : NoDup (ids rm ++ cids cc)).
  { subst cc. rewrite cids_capp. cbn [cids].
    apply (proj2 (NoDup_count_occ Z.eq_dec _)). intros x. specialize (OC x).
    change (count_occ Z.eq_dec ?l x) with (occ l x).
    rewrite !occ_app, occ_cons, occ_app. rewrite occ_cons, occ_app in OC. lia. }
  assert (ND2 : NoDup (m :: ids rm ++ cids cs)).
  { apply (proj2 (NoDup_count_occ Z.eq_dec _)). intros x. specialize (OC x).
    change (count_occ Z.eq_dec ?l x) with (occ l x). lia. }
  rewrite Er in Ar. apply avl_plug in Ar. destruct Ar as (Am & ACs).
  cbn [avl] in Am. destruct Am as (_ & Arm & _ & _).
  split; [assumption|]. split; [assumption|]. split; [|split; [|split; assumption]].
  - subst cc. pose proof (height_nonneg rm).
    replace (height rm + 1) with (height (N m dm bm E rm)) by (cbn [height]; lia).
    apply avlc_capp. split; [assumption|]. cbn [avlc]. rewrite <- Er. repeat split; try assumption; lia.
  - intros j. subst cc. rewrite cids_capp. cbn [cids]. rewrite IN. rewrite INr.
    assert (N1 : In j (ids l) -> j <> n) by (intros X; nd_neq ND).
    assert (N3 : In j (cids c) -> j <> n) by (intros X; nd_neq ND).
    assert (N2 : In j (ids r) -> j <> n) by (intros X; nd_neq ND).
    rewrite INr in N2.
    repeat first [rewrite in_app_iff | progress cbn [In]]. assert (EM : m = j <-> j = m) by (split; congruence). rewrite EM. tauto.
Qed.

Lemma h_replace_sim : forall st fs n c d b l r cs m dm bm rm,
  located st fs n c d b l r -> l <> E -> r = plug cs (N m dm bm E rm) -> spine cs ->
  let cc := capp cs (CR m dm b l c) in
  exists rp, parent (hp st) m = Some rp /\
    let res := h_replace (hp st) (hroot st) n m rp in
    let h9 := fst (fst (fst res)) in
    rep h9 rm (ctx_id cc) /\ repc h9 cc (root_id rm) /\ snd (fst (fst res)) = ctx_root cc (root_id rm) /\
    Some (snd (fst res)) = ctx_id cc /\ snd res = dbal_of cc (-1) /\
    (forall j, ~ In j (ids (root fs)) -> hget h9 j = hget (hp st) j).
Proof.
  intros st fs n c d b l r cs m dm bm rm L NEl Er S cc.
  destruct (replace_pure st fs n c d b l r cs m dm bm rm L Er S) as (_ & _ & _ & _ & NDr & INr).
  destruct L as [HT Hn Rl Rr RC ND Al Ar Hb Rb AC Hroot IN].
  set (h := hp st) in *.
  destruct l as [|lroot ld lb ll lr]; [congruence|]. clear NEl.
  cbn [root_id] in Hn.
  (* the successor node *)
  assert (RT : rep h (plug (capp cs (CR n d b (N lroot ld lb ll lr) c)) (N m dm bm E rm)) None).
  { rewrite plug_capp. cbn [plug]. rewrite <- Er. apply rep_plug. cbn [rep root_id]. repeat split; try assumption; apply Rl. }
  apply rep_plug in RT. destruct RT as (Rm & RCm). cbn [rep root_id] in Rm. destruct Rm as (Hm & _ & Rrm).
  rewrite ctx_id_capp in Hm.
  assert (Im : In m (ids r)) by (apply INr; left; reflexivity).
  assert (Nmn : m <> n) by nd_neq ND.
  assert (NIn : ~ In n (cids c)) by (intros X; nd_absurd ND n).
  assert (NIm : ~ In m (cids c)) by (intros X; nd_absurd ND m).
  assert (NDc : NoDup (cids c)) by (apply nodup_app_disj in ND; destruct ND as (_ & ND & _); inversion ND as [|? ? _ ND2]; apply nodup_app_disj in ND2; tauto).
  rewrite ids_N in ND.
  assert (Nlm : lroot <> m) by nd_neq ND.
  assert (Nln : lroot <> n) by nd_neq ND.
  assert (NIl : ~ In lroot (cids c)) by (intros X; nd_absurd ND lroot).
  assert (Ppar : parent h n = ctx_id c) by (unfold parent; rewrite Hn; reflexivity).
  assert (Efin : forall h9, rep h9 (N m dm b (N lroot ld lb ll lr) (unmin r)) (ctx_id c) -> repc h9 c (Some m) ->
            rep h9 rm (ctx_id cc) /\ repc h9 cc (root_id rm)).
  { intros h9 A B. apply rep_plug. subst cc. rewrite plug_capp. cbn [plug].
    replace (plug cs rm) with (unmin r) by (rewrite Er; apply (unmin_plug cs (N m dm bm E rm) S); discriminate).
    apply rep_plug. cbn [root_id]. split; assumption. }
  assert (Ert : ctx_root cc (root_id rm) = ctx_root c (Some m)).
  { subst cc. rewrite ctx_root_capp. reflexivity. }
  unfold h_replace. rewrite Ppar. rewrite Hroot.
  destruct cs as [|k dk bk rk cs1|]; [| |cbn in S; contradiction].
  - (* the successor is n's right child *)
    cbn [plug] in Er. cbn [ctx_id capp] in Hm.
    exists n. split; [unfold parent; rewrite Hm; reflexivity|].
    cbn zeta. unfold h_unlink.
    assert (PL : ptr_is (left h n) m = false).
    { unfold left. rewrite Hn. cbn [nleft ptr_is]. apply Z.eqb_neq. assumption. }
    rewrite !PL. rewrite Z.eqb_refl.
    assert (RM : right h m = root_id rm) by (unfold right; rewrite Hm; reflexivity). rewrite !RM.
    set (h1 := set_right h n (root_id rm)).
    assert (G1 : forall j, hget h1 j = if j =? n then Some (mkNode d b (ctx_id c) (Some lroot) (root_id rm)) else hget h j).
    { intros j. subst h1. rewrite hget_set_right. rewrite Hn. reflexivity. }
    assert (RM1 : right h1 m = root_id rm) by (unfold right; rewrite G1; eqb_simp; rewrite Hm; reflexivity).
    assert (PM1 : parent h1 m = Some n) by (unfold parent; rewrite G1; eqb_simp; rewrite Hm; reflexivity).
    rewrite !RM1, !PM1.
    set (h2 := match root_id rm with Some c0 => set_parent h1 c0 (Some n) | None => h1 end).
    assert (G2 : forall j, hget h2 j = if ptr_is (root_id rm) j then option_map (w_par (Some n)) (hget h j) else hget h1 j).
    { intros j. subst h2. destruct (root_id rm) as [y|] eqn:Ey; cbn [ptr_is]; [|reflexivity].
      rewrite hget_set_parent. rewrite G1. apply root_id_in in Ey. rewrite Er, ids_N in ND.
      assert (y <> n) by nd_neq ND. destruct (Z.eq_dec j y) as [->|Ny]; eqb_simp; reflexivity. }
    clearbody h2. 
    rewrite Er, ids_N in ND. change (ids E) with (@nil Z) in ND. cbn [app] in ND.
    assert (NRn : root_id rm <> Some n) by (intros X; apply root_id_in in X; nd_absurd ND n).
    assert (NRm : root_id rm <> Some m) by (intros X; apply root_id_in in X; nd_absurd ND m).
    assert (Hn2 : hget h2 n = Some (mkNode d b (ctx_id c) (Some lroot) (root_id rm))).
    { rewrite G2, G1. rewrite (ptr_is_false _ _ NRn). eqb_simp. reflexivity. }
    assert (Hm2 : hget h2 m = Some (mkNode dm bm (Some n) None (root_id rm))).
    { rewrite G2, G1. rewrite (ptr_is_false _ _ NRm). eqb_simp. assumption. }
    assert (Fc : forall j, In j (cids c) -> hget h2 j = hget h j).
    { intros j Hj. rewrite G2, G1. assert (j <> n) by nd_neq ND.
      rewrite ptr_is_false by (intros X; apply root_id_in in X; nd_absurd ND j). eqb_simp. reflexivity. }
    assert (RC2 : repc h2 c (Some n)) by (eapply repc_ext; [|exact RC]; exact Fc).
    assert (Epp : match ctx_id c with Some g => Some (g, ptr_is (left h g) n) | None => None end =
                  match ctx_id c with Some g => Some (g, ptr_is (left h2 g) n) | None => None end).
    { destruct (ctx_id c) as [g|] eqn:Eg; [|reflexivity]. unfold left. rewrite Fc by (apply ctx_id_in; assumption). reflexivity. }
    pose proof (h_place_sim h2 c n m d b lroot (root_id rm) _
                  (match ctx_id c with Some g => Some (g, ptr_is (left h g) n) | None => None end)
                  Hn2 Hm2 RC2 NIn NIm NDc Nmn Nlm Nln NIl) as PS.
    destruct PS as (P1 & P2 & P3 & P4 & P5 & P6).
    { intros z Ez. apply root_id_in in Ez. repeat split; [nd_neq ND|nd_neq ND|nd_neq ND|intros X; nd_absurd ND z]. }
    { exact Epp. }
    destruct (h_place h2 (ctx_root c (Some n)) _ n m) as [h9 rt4]. cbn [fst snd ndata] in *.
    assert (A1 : rep h9 (N m dm b (N lroot ld lb ll lr) (unmin r)) (ctx_id c)).
    { rewrite Er. cbn [unmin]. cbn [rep root_id]. cbn [rep root_id] in Rl. destruct Rl as (Hl & Rll & Rlr).
      assert (H2l : hget h2 lroot = hget h lroot).
      { rewrite G2, G1. rewrite ptr_is_false by (intros X; apply root_id_in in X; nd_absurd ND lroot). eqb_simp. reflexivity. }
      repeat split.
      - exact P1.
      - rewrite P2, H2l, Hl. reflexivity.
      - eapply rep_ext; [|exact Rll]. intros j Hj. rewrite P6.
        + rewrite G2, G1. rewrite ptr_is_false by (intros X; apply root_id_in in X; nd_absurd ND j).
          assert (j <> n) by nd_neq ND. eqb_simp. reflexivity.
        + nd_neq ND. + nd_neq ND. + intros X. apply root_id_in in X. nd_absurd ND j.
        + intros X. apply ctx_id_in in X. nd_absurd ND j.
      - eapply rep_ext; [|exact Rlr]. intros j Hj. rewrite P6.
        + rewrite G2, G1. rewrite ptr_is_false by (intros X; apply root_id_in in X; nd_absurd ND j).
          assert (j <> n) by nd_neq ND. eqb_simp. reflexivity.
        + nd_neq ND. + nd_neq ND. + intros X. apply root_id_in in X. nd_absurd ND j.
        + intros X. apply ctx_id_in in X. nd_absurd ND j.
      - destruct rm as [|y dy by_ ly ry]; [exact I|]. cbn [rep root_id] in *. destruct Rrm as (Hy & Rly & Rry).
        rewrite ids_N in ND. repeat split.
        + rewrite (P3 y eq_refl). rewrite G2. cbn [ptr_is]. rewrite Z.eqb_refl. rewrite Hy. reflexivity.
        + eapply rep_ext; [|exact Rly]. intros j Hj. rewrite P6.
          * rewrite G2, G1. cbn [ptr_is]. assert (j <> n) by nd_neq ND. assert (y <> j) by nd_neq ND. eqb_simp. reflexivity.
          * nd_neq ND. * nd_neq ND. * intros X. inversion X. subst. nd_absurd ND j.
          * intros X. apply ctx_id_in in X. nd_absurd ND j.
        + eapply rep_ext; [|exact Rry]. intros j Hj. rewrite P6.
          * rewrite G2, G1. cbn [ptr_is]. assert (j <> n) by nd_neq ND. assert (y <> j) by nd_neq ND. eqb_simp. reflexivity.
          * nd_neq ND. * nd_neq ND. * intros X. inversion X. subst. nd_absurd ND j.
          * intros X. apply ctx_id_in in X. nd_absurd ND j. }
    destruct (Efin h9 A1 P4) as (B1 & B2).
    split; [exact B1|]. split; [exact B2|]. split; [rewrite Ert; exact P5|].
    split; [reflexivity|]. split; [reflexivity|].
    intros j Hj. rewrite IN in Hj. rewrite P6.
    + rewrite G2, G1. rewrite ptr_is_false.
      * assert (j <> n) by tauto. eqb_simp. reflexivity.
      * intros X. apply root_id_in in X. apply Hj. right. right. left. rewrite Er, ids_N. in_tauto.
    + intros ->. apply Hj. right. right. left. rewrite Er, ids_N. in_tauto.
    + intros ->. apply Hj. left. rewrite ids_N. in_tauto.
    + intros X. apply root_id_in in X. apply Hj. right. right. left. rewrite Er, ids_N. in_tauto.
    + intros X. apply ctx_id_in in X. tauto.
  - (* the successor is deeper in the right subtree *)
    cbn [ctx_id capp] in Hm. cbn [spine] in S.
    set (cs := CL k dk bk rk cs1) in *.
    assert (NR : root_id r <> Some m).
    { rewrite Er, root_id_plug. cbn [root_id]. destruct (ctx_root_in cs (Some m)) as (g & Eg & Ig); [discriminate|].
      rewrite Eg. intros X. inversion X. subst g. inversion NDr as [|? ? Nm _]. apply Nm. apply in_or_app. right. assumption. }
    assert (LM : leftmost r = Some m).
    { rewrite Er. rewrite leftmost_spine; [reflexivity|exact S|discriminate]. }
    assert (NDr' : NoDup (ids r)).
    { apply nodup_app_disj in ND. destruct ND as (_ & ND' & _). inversion ND' as [|? ? _ ND2]. apply nodup_app_disj in ND2. tauto. }
    assert (RM : right h m = root_id rm) by (unfold right; rewrite Hm; reflexivity).
    destruct (unlink_inner r h (Some n) m (root_id rm) NDr' Rr LM NR RM) as (k' & Pk & Ik & Nkm & PL & UI).
    assert (k' = k) by (unfold parent in Pk; rewrite Hm in Pk; cbn in Pk; congruence). subst k'.
    cbn zeta in UI. destruct UI as (R2 & RI & F2 & M2 & IN2 & _).
    exists k. split; [assumption|].
    cbn zeta. unfold h_unlink. rewrite !PL. rewrite !RM.
    assert (Nkn : k <> n) by nd_neq ND.
    replace (k =? n) with false by (symmetry; apply Z.eqb_neq; assumption).
    set (h1 := set_left h k (root_id rm)) in *.
    assert (RM1 : right h1 m = root_id rm).
    { unfold right. subst h1. rewrite hget_set_left. replace (m =? k) with false by (symmetry; apply Z.eqb_neq; congruence). rewrite Hm. reflexivity. }
    assert (PM1 : parent h1 m = Some k).
    { unfold parent. subst h1. rewrite hget_set_left. replace (m =? k) with false by (symmetry; apply Z.eqb_neq; congruence). rewrite Hm. reflexivity. }
    rewrite !RM1, !PM1.
    set (h2 := match root_id rm with Some y => set_parent h1 y (Some k) | None => h1 end) in *.
    clearbody h2. 
    assert (NInr : ~ In n (ids r)) by (intros X; nd_absurd ND n).
    assert (Hn2 : hget h2 n = Some (mkNode d b (ctx_id c) (Some lroot) (root_id r))).
    { rewrite F2 by assumption. assumption. }
    assert (Hm2 : hget h2 m = Some (mkNode dm bm (Some k) None (root_id rm))) by (rewrite M2; assumption).
    assert (Fc : forall j, In j (cids c) -> hget h2 j = hget h j).
    { intros j Hj. apply F2. intros X. nd_absurd ND j. }
    assert (RC2 : repc h2 c (Some n)) by (eapply repc_ext; [|exact RC]; exact Fc).
    assert (Epp : match ctx_id c with Some g => Some (g, ptr_is (left h g) n) | None => None end =
                  match ctx_id c with Some g => Some (g, ptr_is (left h2 g) n) | None => None end).
    { destruct (ctx_id c) as [g|] eqn:Eg; [|reflexivity]. unfold left. rewrite Fc by (apply ctx_id_in; assumption). reflexivity. }
    pose proof (h_place_sim h2 c n m d b lroot (root_id r) _
                  (match ctx_id c with Some g => Some (g, ptr_is (left h g) n) | None => None end)
                  Hn2 Hm2 RC2 NIn NIm NDc Nmn Nlm Nln NIl) as PS.
    destruct PS as (P1 & P2 & P3 & P4 & P5 & P6).
    { intros z Ez. split; [congruence|]. apply root_id_in in Ez. repeat split; [nd_neq ND|nd_neq ND|intros X; nd_absurd ND z]. }
    { exact Epp. }
    destruct (h_place h2 (ctx_root c (Some n)) _ n m) as [h9 rt4]. cbn [fst snd ndata] in *.
    assert (NDu : NoDup (ids (unmin r))).
    { rewrite Er. rewrite (unmin_plug cs (N m dm bm E rm) S) by discriminate. cbn [unmin].
      apply nodup_plug. inversion NDr. assumption. }
    assert (A1 : rep h9 (N m dm b (N lroot ld lb ll lr) (unmin r)) (ctx_id c)).
    { cbn [rep root_id]. cbn [rep root_id] in Rl. destruct Rl as (Hl & Rll & Rlr).
      assert (H2l : hget h2 lroot = hget h lroot) by (apply F2; intros X; nd_absurd ND lroot).
      split; [rewrite RI; exact P1|]. split; [split; [|split]|].
      - rewrite P2, H2l, Hl. reflexivity.
      - eapply rep_ext; [|exact Rll]. intros j Hj. rewrite P6.
        + apply F2. intros X. nd_absurd ND j.
        + nd_neq ND. + nd_neq ND. + intros X. apply root_id_in in X. nd_absurd ND j.
        + intros X. apply ctx_id_in in X. nd_absurd ND j.
      - eapply rep_ext; [|exact Rlr]. intros j Hj. rewrite P6.
        + apply F2. intros X. nd_absurd ND j.
        + nd_neq ND. + nd_neq ND. + intros X. apply root_id_in in X. nd_absurd ND j.
        + intros X. apply ctx_id_in in X. nd_absurd ND j.
      - destruct (unmin r) as [|z dz bz lz rz] eqn:EU; [exact I|].
        cbn [root_id] in RI. cbn [rep root_id] in *. destruct R2 as (Hz & Rlz & Rrz).
        rewrite ids_N in NDu.
        assert (INz : forall j, In j (ids lz) \/ j = z \/ In j (ids rz) -> In j (ids r) /\ j <> m).
        { intros j Hj. apply IN2. rewrite ids_N. rewrite in_app_iff. cbn [In]. intuition congruence. }
        split; [rewrite (P3 z (eq_sym RI)), Hz; reflexivity|]. split.
        + eapply rep_ext; [|exact Rlz]. intros j Hj. destruct (INz j (or_introl Hj)) as (X1 & X2). apply P6.
          * assumption. * intros ->. nd_absurd ND lroot.
          * rewrite <- RI. intros X. inversion X. subst j. nd_absurd NDu z.
          * intros X. apply ctx_id_in in X. nd_absurd ND j.
        + eapply rep_ext; [|exact Rrz]. intros j Hj. destruct (INz j (or_intror (or_intror Hj))) as (X1 & X2). apply P6.
          * assumption. * intros ->. nd_absurd ND lroot.
          * rewrite <- RI. intros X. inversion X. subst j. nd_absurd NDu z.
          * intros X. apply ctx_id_in in X. nd_absurd ND j. }
    destruct (Efin h9 A1 P4) as (B1 & B2).
    split; [exact B1|]. split; [exact B2|]. split; [rewrite Ert; exact P5|].
    split; [reflexivity|]. split; [reflexivity|].
    intros j Hj. rewrite IN in Hj. rewrite P6.
    + apply F2. tauto.
    + intros ->. tauto.
    + intros ->. apply Hj. left. rewrite ids_N. in_tauto.
    + intros X. apply root_id_in in X. tauto.
    + intros X. apply ctx_id_in in X. tauto.
Qed.

(* ------------------------------------------------------------------ zix_tree_remove *)
(* zix_tree_remove of a live node *)
Lemma h_remove_sim : forall n st fs,
  Rep st fs -> avl (root fs) -> NoDup (ids (root fs)) -> size fs = count (root fs) ->
  In n (ids (root fs)) ->
  exists st' T' hc lg x,
    rem n (root fs) = Some (T', hc, lg, x) /\
    h_remove n st = Some (st', [(n, x)], lg) /\
    Rep st' (mkState T' (size fs - 1) (nextid fs)).
Proof.
  intros n st fs RP A ND Sz IN.
  destruct (locate st fs n RP A ND IN) as (c & d & b & l & r & L).
  pose proof L as L0.
  destruct L as [HT Hn Rl Rr RC NDl Al Ar Hb Rb AC Hroot INT].
  set (h := hp st) in *.
  assert (NIn : ~ In n (cids c)) by (intros X; nd_absurd NDl n).
  assert (NDc : NoDup (cids c)).
  { apply nodup_app_disj in NDl. destruct NDl as (_ & ND' & _). inversion ND' as [|? ? _ ND2]. apply nodup_app_disj in ND2. tauto. }
  assert (Ppar : parent h n = ctx_id c) by (unfold parent; rewrite Hn; reflexivity).
  assert (Dn : data_of h n = d) by (unfold data_of; rewrite Hn; reflexivity).
  assert (Ln : left h n = root_id l) by (unfold left; rewrite Hn; reflexivity).
  assert (Rn : right h n = root_id r) by (unfold right; rewrite Hn; reflexivity).
  unfold h_remove. fold h. rewrite !Ln, !Rn. rewrite Dn.
  destruct l as [|lroot ld lb ll lr]; destruct r as [|rroot rd rb rl rr]; cbn [root_id].
  - (* leaf *)
    destruct (ctx_id c) as [g|] eqn:Eg.
    + destruct (ctx_root_in c (Some n)) as (g0 & Eg0 & Ig0); [congruence|].
      assert (PR : ptr_is (hroot st) n = false).
      { rewrite Hroot, Eg0. cbn [ptr_is]. apply Z.eqb_neq. intros ->. contradiction. }
      rewrite PR. rewrite Ppar.
      destruct (repc_set_hole h c n None g RC NIn NDc Eg) as (RC1 & F1). cbn zeta in RC1, F1.
      set (h1 := if ptr_is (left h g) n then set_left h g None else set_right h g None) in *.
      destruct (splice_sim st fs n c d b E E E h1 (hroot st) (if ptr_is (left h g) n then 1 else -1) RP ND Sz L0) as (h' & E1 & RP' & ER).
      * left. split; reflexivity.
      * exact I.
      * exact RC1.
      * rewrite Hroot. apply ctx_root_nontop. congruence.
      * intros _. rewrite (child_link h c n g RC NIn Eg). destruct c; cbn in Eg; try discriminate; reflexivity.
      * intros j Hj. apply F1. intros ->. apply Hj. apply INT. right. right. right. apply ctx_id_in. assumption.
      * rewrite Eg in E1. rewrite E1.
        destruct (up_del c E (-1) []) as [[T' hc] lg] eqn:EU. cbn [fst snd] in *.
        do 5 eexists. split; [exact ER|]. split; [reflexivity|exact RP'].
    + destruct c; cbn in Eg; try discriminate. cbn [ctx_root] in Hroot. rewrite Hroot. cbn [ptr_is]. rewrite Z.eqb_refl.
      cbn [plug] in HT.
      do 5 eexists. split; [rewrite HT; cbn [rem]; rewrite Z.eqb_refl; cbn [delete_here]; reflexivity|].
      split; [reflexivity|].
      destruct RP as (R0 & _ & Hsize & Hnext & Dom).
      unfold Rep. cbn [hp hroot hsize hnextid root size nextid rep root_id]. repeat split; try lia; try assumption.
      intros j Hj. rewrite hget_hdel in Hj. destruct (j =? n) eqn:C; [congruence|].
      apply Dom in Hj. rewrite HT in Hj. cbn in Hj. lia.
  - (* right child only *)
    rewrite Ppar.
    pose proof (set_pp_sim h c n (Some rroot) RC NIn NDc) as SP. cbn zeta in SP. rewrite <- Hroot in SP.
    destruct (set_pp h (hroot st) _ (Some rroot)) as [h1 rt1]. cbn [fst snd] in SP.
    destruct SP as (RC1 & Ert & F1 & DB).
    assert (Nng : ctx_id c <> Some n) by (intros X; apply ctx_id_in in X; contradiction).
    assert (P1 : parent h1 n = ctx_id c) by (unfold parent; rewrite F1 by assumption; fold h; rewrite Hn; reflexivity).
    rewrite P1.
    set (h2 := set_parent h1 rroot (ctx_id c)).
    change (ids E) with (@nil Z) in NDl. cbn [app] in NDl. rewrite ids_N in NDl.
    assert (Nrg : ctx_id c <> Some rroot) by (intros X; apply ctx_id_in in X; nd_absurd NDl rroot).
    cbn [rep root_id] in Rr. destruct Rr as (Hr & Rrl & Rrr).
    assert (F2 : forall j, j <> rroot -> ctx_id c <> Some j -> hget h2 j = hget h j).
    { intros j X Y. subst h2. rewrite hget_set_parent. eqb_simp. apply F1. assumption. }
    match goal with |- context [h_rem_retrace _ _ _ _ ?dd _] => set (dbal := dd) in * end.
    destruct (splice_sim st fs n c d b E (N rroot rd rb rl rr) (N rroot rd rb rl rr) h2 rt1 dbal RP ND Sz L0) as (h' & E1 & RP' & ER).
    + right. split; reflexivity.
    + cbn [rep root_id]. repeat split.
      * subst h2. rewrite hget_set_parent. eqb_simp. rewrite F1 by assumption. fold h. rewrite Hr. reflexivity.
      * eapply rep_ext; [|exact Rrl]. intros j Hj. apply F2; [nd_neq NDl|]. intros X. apply ctx_id_in in X. nd_absurd NDl j.
      * eapply rep_ext; [|exact Rrr]. intros j Hj. apply F2; [nd_neq NDl|]. intros X. apply ctx_id_in in X. nd_absurd NDl j.
    + cbn [root_id]. eapply repc_ext; [|exact RC1]. intros j Hj. subst h2. rewrite hget_set_parent.
      assert (j <> rroot) by nd_neq NDl. eqb_simp. reflexivity.
    + exact Ert.
    + intros NT. rewrite DB. destruct c; [cbn in NT; congruence|reflexivity|reflexivity].
    + intros j Hj. apply F2.
      * intros ->. apply Hj. apply INT. right. right. left. rewrite ids_N. in_tauto.
      * intros X. apply ctx_id_in in X. apply Hj. apply INT. tauto.
    + rewrite E1. destruct (up_del c (N rroot rd rb rl rr) (-1) []) as [[T' hc] lg] eqn:EU. cbn [fst snd] in *.
      do 5 eexists. split; [exact ER|]. split; [reflexivity|exact RP'].
  - (* left child only *)
    rewrite Ppar.
    pose proof (set_pp_sim h c n (Some lroot) RC NIn NDc) as SP. cbn zeta in SP. rewrite <- Hroot in SP.
    destruct (set_pp h (hroot st) _ (Some lroot)) as [h1 rt1]. cbn [fst snd] in SP.
    destruct SP as (RC1 & Ert & F1 & DB).
    assert (Nng : ctx_id c <> Some n) by (intros X; apply ctx_id_in in X; contradiction).
    assert (P1 : parent h1 n = ctx_id c) by (unfold parent; rewrite F1 by assumption; fold h; rewrite Hn; reflexivity).
    rewrite P1.
    set (h2 := set_parent h1 lroot (ctx_id c)).
    change (ids E) with (@nil Z) in NDl. cbn [app] in NDl. rewrite ids_N in NDl.
    assert (Nrg : ctx_id c <> Some lroot) by (intros X; apply ctx_id_in in X; nd_absurd NDl lroot).
    cbn [rep root_id] in Rl. destruct Rl as (Hl & Rll & Rlr).
    assert (F2 : forall j, j <> lroot -> ctx_id c <> Some j -> hget h2 j = hget h j).
    { intros j X Y. subst h2. rewrite hget_set_parent. eqb_simp. apply F1. assumption. }
    match goal with |- context [h_rem_retrace _ _ _ _ ?dd _] => set (dbal := dd) in * end.
    destruct (splice_sim st fs n c d b (N lroot ld lb ll lr) E (N lroot ld lb ll lr) h2 rt1 dbal RP ND Sz L0) as (h' & E1 & RP' & ER).
    + left. split; reflexivity.
    + cbn [rep root_id]. repeat split.
      * subst h2. rewrite hget_set_parent. eqb_simp. rewrite F1 by assumption. fold h. rewrite Hl. reflexivity.
      * eapply rep_ext; [|exact Rll]. intros j Hj. apply F2; [nd_neq NDl|]. intros X. apply ctx_id_in in X. nd_absurd NDl j.
      * eapply rep_ext; [|exact Rlr]. intros j Hj. apply F2; [nd_neq NDl|]. intros X. apply ctx_id_in in X. nd_absurd NDl j.
    + cbn [root_id]. eapply repc_ext; [|exact RC1]. intros j Hj. subst h2. rewrite hget_set_parent.
      assert (j <> lroot) by nd_neq NDl. eqb_simp. reflexivity.
    + exact Ert.
    + intros NT. rewrite DB. destruct c; [cbn in NT; congruence|reflexivity|reflexivity].
    + intros j Hj. apply F2.
      * intros ->. apply Hj. apply INT. left. rewrite ids_N. in_tauto.
      * intros X. apply ctx_id_in in X. apply Hj. apply INT. tauto.
    + rewrite E1. destruct (up_del c (N lroot ld lb ll lr) (-1) []) as [[T' hc] lg] eqn:EU. cbn [fst snd] in *.
      do 5 eexists. split; [exact ER|]. split; [reflexivity|exact RP'].
  - (* two children *)
    destruct (rem_two n c d b (N lroot ld lb ll lr) rroot rd rb rl rr ltac:(discriminate) NIn)
      as (cs & m & dm & bm & rm & Er & S & ER).
    rewrite <- HT in ER.
    set (r := N rroot rd rb rl rr) in *.
    assert (LM : h_leftmost (fuel_of st) h rroot = Some m).
    { rewrite (h_leftmost_rep r h (Some n) (fuel_of st) rroot Rr eq_refl).
      - rewrite Er. rewrite leftmost_spine; [reflexivity|exact S|discriminate].
      - pose proof (Rep_fuel st fs RP Sz) as FU. rewrite HT in FU.
        pose proof (height_plug_bound c (N n d b (N lroot ld lb ll lr) r)) as HB. cbn [heightn] in HB. lia. }
    rewrite LM.
    destruct (h_replace_sim st fs n c d b (N lroot ld lb ll lr) r cs m dm bm rm L0 ltac:(discriminate) Er S)
      as (rp & Prp & HR). fold h in Prp, HR. rewrite Prp. cbn zeta in HR.
    destruct (replace_pure st fs n c d b (N lroot ld lb ll lr) r cs m dm bm rm L0 Er S) as (NDcc & Arm & ACcc & INcc & _ & _).
    destruct (h_replace h (hroot st) n m rp) as [[[h9 rt4] tb] dbal]. cbn [fst snd] in HR.
    destruct HR as (R9 & RC9 & Ert & Etb & Edb & F9).
    set (cc := capp cs (CR m dm b (N lroot ld lb ll lr) c)) in *.
    destruct (remove_finish st fs n cc rm h9 rt4 dbal RP ND Sz NDcc R9 RC9 Arm ACcc Ert (fun _ => Edb) INcc F9)
      as (h' & E1 & RP').
    rewrite Etb. rewrite E1.
    destruct (up_del cc rm (-1) []) as [[T' hc] lg] eqn:EU. cbn [fst snd] in *.
    do 5 eexists. split; [exact ER|]. split; [reflexivity|exact RP'].
Qed.
