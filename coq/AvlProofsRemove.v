(* C06 — lemmas about the AVL model, part 2: removal *)
From Coq Require Import ZArith List Bool Lia ZifyBool Permutation.
From Zix Require Import AvlSpec AvlModel AvlProofs.
Import ListNotations.
Local Open Scope Z_scope.
Ltac Zify.zify_post_hook ::= Z.div_mod_to_equations.

Lemma retrace_del_elems : forall t dbal, elems (fst (fst (retrace_del t dbal))) = elems t.
Proof.
  intros [|i d b l r] dbal; [reflexivity|]. unfold retrace_del.
  destruct ((dbal =? 0) || (b + dbal =? -1) || (b + dbal =? 1)); [reflexivity|].
  pose proof (rebalance_elems (N i d (b + dbal) l r)) as R.
  destruct (rebalance (N i d (b + dbal) l r)) as [[t' hc] c]. cbn [fst] in *. exact R.
Qed.

(* the left subtree (old height hl0) has been replaced by l with height hl0 + hc *)
Lemma retrace_del_left : forall i d b l r hl0 hc t' hc' c,
  avl l -> avl r -> b = height r - hl0 -> -1 <= b <= 1 -> height l = hl0 + hc -> (hc = 0 \/ hc = -1) ->
  retrace_del (N i d b l r) (- hc) = (t', hc', c) ->
  avl t' /\ height t' = 1 + Z.max hl0 (height r) + hc' /\ (hc' = 0 \/ hc' = -1).
Proof.
  intros i d b l r hl0 hc t' hc' c Al Ar Hb Rb Hl Hc. unfold retrace_del.
  destruct ((- hc =? 0) || (b + - hc =? -1) || (b + - hc =? 1)) eqn:C.
  - intros HH. inj3 HH. cbn [avl height]. repeat split; try assumption; lia.
  - assert (hc = -1) as -> by lia. change (- -1) with 1 in *.
    assert (b + 1 = 0 \/ b + 1 = 2) as [B|B] by lia.
    + rewrite B. cbn [rebalance]. change (0 =? -2) with false. change (0 =? 2) with false. cbv iota.
      cbn [bal_of]. change (0 =? 0) with true. cbv iota.
      intros HH. inj3 HH. cbn [avl height]. repeat split; try assumption; lia.
    + rewrite B. destruct (rebalance (N i d 2 l r)) as [[t1 hc1] c1] eqn:R.
      apply rebalance_p2 in R; [|assumption|assumption|lia].
      destruct R as (A1 & H1 & H2 & H3 & _ & _).
      intros HH. inj3 HH. split; [assumption|].
      destruct (bal_of t1 =? 0) eqn:Z0.
      * assert (hc1 = -1) by (apply H3; lia). split; [lia|right; reflexivity].
      * split; [lia|]. destruct H2 as [->| ->]; [left; reflexivity|].
        exfalso. assert (bal_of t1 = 0) by (apply H3; reflexivity). lia.
Qed.

Lemma retrace_del_right : forall i d b l r hr0 hc t' hc' c,
  avl l -> avl r -> b = hr0 - height l -> -1 <= b <= 1 -> height r = hr0 + hc -> (hc = 0 \/ hc = -1) ->
  retrace_del (N i d b l r) hc = (t', hc', c) ->
  avl t' /\ height t' = 1 + Z.max (height l) hr0 + hc' /\ (hc' = 0 \/ hc' = -1).
Proof.
  intros i d b l r hr0 hc t' hc' c Al Ar Hb Rb Hr Hc. unfold retrace_del.
  destruct ((hc =? 0) || (b + hc =? -1) || (b + hc =? 1)) eqn:C.
  - intros HH. inj3 HH. cbn [avl height]. repeat split; try assumption; lia.
  - assert (hc = -1) as -> by lia.
    assert (b + -1 = 0 \/ b + -1 = -2) as [B|B] by lia.
    + rewrite B. cbn [rebalance]. change (0 =? -2) with false. change (0 =? 2) with false. cbv iota.
      cbn [bal_of]. change (0 =? 0) with true. cbv iota.
      intros HH. inj3 HH. cbn [avl height]. repeat split; try assumption; lia.
    + rewrite B. destruct (rebalance (N i d (-2) l r)) as [[t1 hc1] c1] eqn:R.
      apply rebalance_m2 in R; [|assumption|assumption|lia].
      destruct R as (A1 & H1 & H2 & H3 & _ & _).
      intros HH. inj3 HH. split; [assumption|].
      destruct (bal_of t1 =? 0) eqn:Z0.
      * assert (hc1 = -1) by (apply H3; lia). split; [lia|right; reflexivity].
      * split; [lia|]. destruct H2 as [->| ->]; [left; reflexivity|].
        exfalso. assert (bal_of t1 = 0) by (apply H3; reflexivity). lia.
Qed.

(* unlinking the in-order successor *)
Lemma remove_min_spec : forall lj j dj bj rj t' m hc c,
  avl (N j dj bj lj rj) -> remove_min j dj bj lj rj = (t', m, hc, c) ->
  avl t' /\ height t' = height (N j dj bj lj rj) + hc /\ (hc = 0 \/ hc = -1) /\
  m :: elems t' = elems (N j dj bj lj rj).
Proof.
  induction lj as [|k dk bk lk IHl rk _]; intros j dj bj rj t' m hc c A.
  - cbn [remove_min]. intros HH. apply pair_equal_spec in HH as [HH <-]. inj3 HH.
    cbn [avl height] in *. destruct A as (_ & Ar & Hb & Rb). pose proof (height_nonneg rj).
    repeat split; try assumption; try lia.
  - cbn [remove_min].
    destruct (remove_min k dk bk lk rk) as [[[lj' m1] hc1] c1] eqn:R1.
    destruct (proj1 (avl_N _ _ _ _ _) A) as (Al & Ar & Hb & Rb).
    destruct (IHl k dk bk rk lj' m1 hc1 c1 Al R1) as (A1 & H1 & C1 & L1).
    pose proof (retrace_del_elems (N j dj bj lj' rj) (- hc1)) as EL.
    destruct (retrace_del (N j dj bj lj' rj) (- hc1)) as [[t2 hc2] c2] eqn:R2.
    intros HH. apply pair_equal_spec in HH as [HH <-]. inj3 HH. cbn [fst] in EL.
    eapply retrace_del_left in R2; try eassumption.
    destruct R2 as (A2 & H2 & C2).
    repeat split; try assumption.
    rewrite EL. cbn [elems]. cbn [elems] in L1. rewrite <- L1. reflexivity.
Qed.

Lemma delete_here_spec : forall i d b l r t' hc c,
  avl (N i d b l r) -> delete_here b l r = (t', hc, c) ->
  avl t' /\ height t' = height (N i d b l r) + hc /\ (hc = 0 \/ hc = -1) /\
  elems t' = elems l ++ elems r.
Proof.
  intros i d b l r t' hc c A. destruct (proj1 (avl_N _ _ _ _ _) A) as (Al & Ar & Hb & Rb).
  unfold delete_here. rewrite height_N.
  destruct l as [|li ld lb ll lr].
  - assert (HE : height E = 0) by reflexivity. rewrite HE in *.
    pose proof (height_nonneg r).
    destruct r as [|ri rd rb rl rr]; intros HH; inj3 HH.
    + split; [exact I|]. split; [cbn; lia|]. split; [lia|reflexivity].
    + split; [assumption|]. split; [lia|]. split; [lia|reflexivity].
  - remember (N li ld lb ll lr) as L eqn:EL0.
    destruct r as [|ri rd rb rl rr].
    + assert (HE : height E = 0) by reflexivity. rewrite HE in *. pose proof (height_nonneg L).
      rewrite EL0. intros HH; inj3 HH. rewrite <- EL0.
      split; [assumption|]. split; [lia|]. split; [lia|].
      cbn [elems]. rewrite app_nil_r. reflexivity.
    + rewrite EL0. rewrite <- EL0.
      destruct (remove_min ri rd rb rl rr) as [[[r' m] hc1] c1] eqn:R1.
      destruct (remove_min_spec rl ri rd rb rr r' m hc1 c1 Ar R1) as (A1 & H1 & C1 & L1).
      pose proof (retrace_del_elems (N (fst m) (snd m) b L r') hc1) as EL.
      destruct (retrace_del (N (fst m) (snd m) b L r') hc1) as [[t2 hc2] c2] eqn:R2.
      intros HH; inj3 HH. cbn [fst] in EL.
      eapply retrace_del_right in R2; try eassumption.
      destruct R2 as (A2 & H2 & C2).
      split; [assumption|]. split; [lia|]. split; [assumption|].
      rewrite EL. rewrite <- L1. destruct m; reflexivity.
Qed.

(* removal by identity *)
Lemma rem_none : forall id t, rem id t = None <-> ~ In id (ids t).
Proof.
  intros id. unfold ids. induction t as [|i d b l IHl r IHr].
  - cbn. split; [intros _ []|reflexivity].
  - cbn [rem elems]. rewrite map_app. cbn [map fst]. rewrite in_app_iff. cbn [In].
    destruct (i =? id) eqn:Ei.
    + destruct (delete_here b l r) as [[t' hc] c]. split; [discriminate|]. intros H. exfalso. apply H. right. left. lia.
    + destruct (rem id l) as [[[[l' hc] c] x]|] eqn:Rl.
      * destruct (retrace_del (N i d b l' r) (- hc)) as [[t' hc'] c']. split; [discriminate|].
        intros H. exfalso. apply H. left. destruct (in_dec Z.eq_dec id (map fst (elems l))) as [Hi|Hi]; [assumption|].
        apply IHl in Hi. discriminate.
      * destruct (rem id r) as [[[[r' hc] c] x]|] eqn:Rr.
        -- destruct (retrace_del (N i d b l r') hc) as [[t' hc'] c']. split; [discriminate|].
           intros H. exfalso. apply H. right. right.
           destruct (in_dec Z.eq_dec id (map fst (elems r))) as [Hi|Hi]; [assumption|].
           apply IHr in Hi. discriminate.
        -- split; [|reflexivity]. intros _ [H|[H|H]].
           ++ apply IHl in H; [assumption|reflexivity].
           ++ lia.
           ++ apply IHr in H; [assumption|reflexivity].
Qed.

Lemma rem_spec : forall id t t' hc c x,
  avl t -> rem id t = Some (t', hc, c, x) ->
  avl t' /\ height t' = height t + hc /\ (hc = 0 \/ hc = -1) /\
  exists l1 l2, elems t = l1 ++ (id, x) :: l2 /\ elems t' = l1 ++ l2.
Proof.
  intros id. induction t as [|i d b l IHl r IHr]; intros t' hc c x A; [discriminate|].
  destruct (proj1 (avl_N _ _ _ _ _) A) as (Al & Ar & Hb & Rb).
  cbn [rem].
  destruct (i =? id) eqn:Ei.
  - destruct (delete_here b l r) as [[t1 hc1] c1] eqn:D. intros HH. injection HH as <- <- <- <-.
    assert (i = id) as -> by lia.
    destruct (delete_here_spec id d b l r t1 hc1 c1 A D) as (A1 & H1 & C1 & L1).
    split; [assumption|]. split; [assumption|]. split; [assumption|].
    exists (elems l), (elems r). split; [reflexivity|assumption].
  - destruct (rem id l) as [[[[l' hc1] c1] x1]|] eqn:Rl.
    + destruct (IHl l' hc1 c1 x1 Al eq_refl) as (A1 & H1 & C1 & (l1 & l2 & E1 & E2)).
      pose proof (retrace_del_elems (N i d b l' r) (- hc1)) as EL.
      destruct (retrace_del (N i d b l' r) (- hc1)) as [[t2 hc2] c2] eqn:R2.
      intros HH. injection HH as <- <- <- <-. cbn [fst] in EL.
      eapply retrace_del_left in R2; try eassumption.
      destruct R2 as (A2 & H2 & C2).
      split; [assumption|]. split; [rewrite height_N; lia|]. split; [assumption|].
      exists l1, (l2 ++ (i, d) :: elems r). rewrite EL. cbn [elems]. rewrite E1, E2.
      rewrite <- !app_assoc. split; reflexivity.
    + destruct (rem id r) as [[[[r' hc1] c1] x1]|] eqn:Rr; [|discriminate].
      destruct (IHr r' hc1 c1 x1 Ar eq_refl) as (A1 & H1 & C1 & (l1 & l2 & E1 & E2)).
      pose proof (retrace_del_elems (N i d b l r') hc1) as EL.
      destruct (retrace_del (N i d b l r') hc1) as [[t2 hc2] c2] eqn:R2.
      intros HH. injection HH as <- <- <- <-. cbn [fst] in EL.
      eapply retrace_del_right in R2; try eassumption.
      destruct R2 as (A2 & H2 & C2).
      split; [assumption|]. split; [rewrite height_N; lia|]. split; [assumption|].
      exists (elems l ++ (i, d) :: l1), l2. rewrite EL. cbn [elems]. rewrite E1, E2.
      rewrite <- !app_assoc. split; reflexivity.
Qed.
