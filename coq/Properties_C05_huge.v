(* C05 — requests of more bytes than the ring's whole buffer (anything up to 2^32-1): refused, nothing changes.
   The correspondence cannot feed a 4 GiB source through the list-based model, so the model driver answers the
   ops W:<n> / A:<n> with [huge_step] / [spec_huge_step]; these theorems say that this is what the model of ring.c
   and the byte-queue spec compute for EVERY source of such a length. *)
From Coq Require Import ZArith List Bool.
From Zix Require Import RingSpec RingModel RingProofs RingHuge.
Import ListNotations.
Local Open Scope Z_scope.

Theorem huge_request_model :
  forall rg t src, inv rg -> size rg <= len src ->
    ring_step (rg, t) (OWrite src) = huge_step (rg, t) false /\
    ring_step (rg, t) (OAmend src) = huge_step (rg, t) true.
Proof.
  exact huge_step_is_model.
Qed.
Print Assumptions huge_request_model.

Theorem huge_request_spec :
  forall cap st src, 0 <= len (sq st) -> cap < len src ->
    (forall p room, stx st = Some (p, room) -> room <= cap) ->
    spec_step cap st (OWrite src) = spec_huge_step st false /\
    spec_step cap st (OAmend src) = spec_huge_step st true.
Proof.
  exact huge_step_is_spec.
Qed.
Print Assumptions huge_request_spec.

(* non-vacuity: a reachable ring state meets the hypotheses, and a request of 2^32-1 bytes is such a request *)
Example huge_request_example :
  let st := fst (ring_run (ring_init 4 (fun _ => 165)) [OWrite [1; 2]; ORead 1]) in
  size (fst st) = 4 /\ size (fst st) <= 4294967295 /\ huge_step st true = (st, (ST_NO_MEM, [])).
Proof.
  vm_compute. repeat split; congruence.
Qed.
