(* C19: the specification — an exclusive advisory lock is `option owner`.  Nothing here mentions
   flock, flags or errno. *)
From Coq Require Import List Arith Bool.
Import ListNotations.

Inductive xop := XTry | XBlock | XUnlock | XClose | XOpen.
Inductive xres := XSuccess | XUnavailable | XOther.

Definition free_for (owner : option nat) (i : nat) : bool :=
  match owner with None => true | Some j => Nat.eqb j i end.

Definition release (owner : option nat) (i : nat) : option nat :=
  match owner with
  | Some j => if Nat.eqb j i then None else owner
  | None => None
  end.

(* handle i performs o; None = it must wait *)
Definition spec_lock_op (owner : option nat) (i : nat) (o : xop) : option (option nat * xres) :=
  match o with
  | XTry => if free_for owner i then Some (Some i, XSuccess) else Some (owner, XUnavailable)
  | XBlock => if free_for owner i then Some (Some i, XSuccess) else None
  | XUnlock => Some (release owner i, XSuccess)
  | XClose => Some (release owner i, XSuccess)
  | XOpen => Some (owner, XSuccess)
  end.

Record xhandle := { x_todo : list xop; x_done : list (xop * xres); x_waiting : bool }.
Record xstate := { x_owner : option nat; x_handles : list xhandle }.

Inductive xchoice :=
| XRun (i : nat)        (* handle i performs / completes its current operation if it can *)
| XInterrupt (i : nat). (* a waiting blocking lock of handle i is abandoned (reported as an error) *)

Fixpoint xupd {A} (i : nat) (x : A) (l : list A) : list A :=
  match l, i with
  | [], _ => []
  | _ :: l', O => x :: l'
  | y :: l', S i' => y :: xupd i' x l'
  end.

Definition spec_lock_step (ch : xchoice) (st : xstate) : xstate :=
  match ch with
  | XRun i =>
      match nth_error (x_handles st) i with
      | None => st
      | Some h =>
          match x_todo h with
          | [] => st
          | o :: rest =>
              match spec_lock_op (x_owner st) i o with
              | None =>
                  {| x_owner := x_owner st;
                     x_handles := xupd i {| x_todo := x_todo h; x_done := x_done h; x_waiting := true |}
                                       (x_handles st) |}
              | Some (owner', r) =>
                  {| x_owner := owner';
                     x_handles := xupd i {| x_todo := rest; x_done := x_done h ++ [(o, r)]; x_waiting := false |}
                                       (x_handles st) |}
              end
          end
      end
  | XInterrupt i =>
      match nth_error (x_handles st) i with
      | None => st
      | Some h =>
          if x_waiting h then
            match x_todo h with
            | [] => st
            | o :: rest =>
                {| x_owner := x_owner st;
                   x_handles := xupd i {| x_todo := rest; x_done := x_done h ++ [(o, XOther)]; x_waiting := false |}
                                     (x_handles st) |}
            end
          else st
      end
  end.

Fixpoint spec_lock_run (sched : list xchoice) (st : xstate) : xstate :=
  match sched with
  | [] => st
  | ch :: rest => spec_lock_run rest (spec_lock_step ch st)
  end.

Definition spec_lock_init (progs : list (list xop)) : xstate :=
  {| x_owner := None;
     x_handles := map (fun p => {| x_todo := p; x_done := []; x_waiting := false |}) progs |}.
