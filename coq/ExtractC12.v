Require Extraction.
Require Import ExtrOcamlBasic.
From Zix Require Import PathJoinSpec PathJoinModel.
Separate Extraction
  PathJoinModel.zix_path_join PathJoinModel.zix_path_preferred PathJoinModel.zix_path_lexically_relative
  PathJoinModel.path_begin PathJoinModel.path_next PathJoinModel.buf_text
  PathJoinSpec.std_join_opt PathJoinSpec.std_relative PathJoinSpec.std_preferred
  PathJoinSpec.path_of PathJoinSpec.elements PathJoinSpec.has_root.
