(* C14 — environment model ("scripted kernel") and the abstract spec of a file copy.

   The world is: the source inode (kind + bytes), the destination path's state (absent, another regular
   file, an alias of the source inode — same path / hard link / symlink to it —, a directory), the two file
   offsets, the table of open descriptors, errno, and a SCRIPT: one outcome per system call, consumed in call
   order.  [Full] means "behave truthfully and completely", [Short k] a legal short count (never 0 for
   read/copy_file_range unless at end of file; possibly 0 for write), [Err e] a failure with errno e > 0.
   An exhausted script answers [Full].  Nothing here mentions how zix copies. *)
From Coq Require Import ZArith List Bool Lia.
Import ListNotations.
Local Open Scope Z_scope.

Inductive status :=
| SUCCESS | ERROR | NO_MEM | NOT_FOUND | EXISTS | BAD_ARG | BAD_PERMS | REACHED_END | TIMEOUT
| OVERFLOW | NOT_SUPPORTED | UNAVAILABLE | NO_SPACE | MAX_LINKS
| OUT_OF_FUEL (* not a ZixStatus: the model's loops ran out of fuel (proved impossible) *).

Definition status_eqb (a b : status) : bool :=
  match a, b with
  | SUCCESS, SUCCESS | ERROR, ERROR | NO_MEM, NO_MEM | NOT_FOUND, NOT_FOUND | EXISTS, EXISTS
  | BAD_ARG, BAD_ARG | BAD_PERMS, BAD_PERMS | REACHED_END, REACHED_END | TIMEOUT, TIMEOUT
  | OVERFLOW, OVERFLOW | NOT_SUPPORTED, NOT_SUPPORTED | UNAVAILABLE, UNAVAILABLE
  | NO_SPACE, NO_SPACE | MAX_LINKS, MAX_LINKS | OUT_OF_FUEL, OUT_OF_FUEL => true
  | _, _ => false
  end.

(* errno values (Linux, generic) *)
Definition EPERM := 1.   Definition ENOENT := 2.  Definition EIO := 5.     Definition EAGAIN := 11.
Definition ENOMEM := 12. Definition EACCES := 13. Definition EEXIST := 17. Definition EXDEV := 18.
Definition EISDIR := 21. Definition EINVAL := 22. Definition ENOSPC := 28. Definition EMLINK := 31.
Definition ENOSYS := 38. Definition ENOTSUP := 95. Definition ETIMEDOUT := 110.

Inductive outcome := Full | Short (k : nat) | Err (e : positive).

Inductive skind := SReg | SDir | SOther | SMissing.
Inductive dstate := DAbsent | DFile (b : list Z) | DAlias | DDir.
Inductive fdtok := FSrc | FDst.

Inductive call := KOpen | KFstat | KStat | KCfr | KRead | KWrite | KFdatasync | KClose | KFadvise
                | KAlloc | KFree.
(* (call, argument, return value): argument = requested count, or 0/1/2 = source / destination-exclusive /
   destination-truncate for open, 0/1 = source/destination for fstat and close *)
Definition ev := (call * Z * Z)%type.

Record world := mkW {
  w_skind : skind;
  w_src : list Z;          (* bytes of the source inode *)
  w_dst : dstate;
  w_soff : nat;            (* offset of the source descriptor *)
  w_doff : nat;            (* offset of the destination descriptor *)
  w_fds : list fdtok;      (* open descriptors *)
  w_errno : Z;
  w_script : list outcome;
  w_trace : list ev;       (* newest first *)
}.

Definition set_src w b := mkW (w_skind w) b (w_dst w) (w_soff w) (w_doff w) (w_fds w) (w_errno w) (w_script w) (w_trace w).
Definition set_dst w d := mkW (w_skind w) (w_src w) d (w_soff w) (w_doff w) (w_fds w) (w_errno w) (w_script w) (w_trace w).
Definition set_soff w n := mkW (w_skind w) (w_src w) (w_dst w) n (w_doff w) (w_fds w) (w_errno w) (w_script w) (w_trace w).
Definition set_doff w n := mkW (w_skind w) (w_src w) (w_dst w) (w_soff w) n (w_fds w) (w_errno w) (w_script w) (w_trace w).
Definition set_fds w f := mkW (w_skind w) (w_src w) (w_dst w) (w_soff w) (w_doff w) f (w_errno w) (w_script w) (w_trace w).
Definition set_errno w e := mkW (w_skind w) (w_src w) (w_dst w) (w_soff w) (w_doff w) (w_fds w) e (w_script w) (w_trace w).
Definition set_script w s := mkW (w_skind w) (w_src w) (w_dst w) (w_soff w) (w_doff w) (w_fds w) (w_errno w) s (w_trace w).
Definition log w (c : call) (a r : Z) := mkW (w_skind w) (w_src w) (w_dst w) (w_soff w) (w_doff w) (w_fds w) (w_errno w) (w_script w) ((c, a, r) :: w_trace w).

Definition pop (w : world) : outcome * world :=
  match w_script w with
  | [] => (Full, w)
  | o :: r => (o, set_script w r)
  end.

Definition fail w (c : call) (a : Z) (e : positive) : world := log (set_errno w (Z.pos e)) c a (-1).
Definition failz w (c : call) (a : Z) (e : Z) : world := log (set_errno w e) c a (-1).

(* pwrite-like update of a byte list (a hole is filled with zeros) *)
Definition write_at (b : list Z) (off : nat) (data : list Z) : list Z :=
  firstn off b ++ repeat 0 (off - length b) ++ data ++ skipn (off + length data) b.

Definition tok_eqb (a b : fdtok) : bool :=
  match a, b with FSrc, FSrc | FDst, FDst => true | _, _ => false end.
Fixpoint remove_tok (t : fdtok) (l : list fdtok) : list fdtok :=
  match l with
  | [] => []
  | x :: r => if tok_eqb t x then r else x :: remove_tok t r
  end.

(* how many bytes a read-like call transfers: never 0 unless nothing is requested or available *)
Definition rd_count (o : outcome) (req avail : nat) : nat :=
  let m := Nat.min req avail in
  match o with
  | Short k => match m with O => O | _ => Nat.max 1 (Nat.min k m) end
  | _ => m
  end.
(* a write may transfer anything from 0 to the whole request *)
Definition wr_count (o : outcome) (req : nat) : nat :=
  match o with Short k => Nat.min k req | _ => req end.

(* ---- the system calls ---- *)

Definition k_open_src (w : world) : bool * world :=
  let (o, w) := pop w in
  match o with
  | Err e => (false, fail w KOpen 0 e)
  | _ => match w_skind w with
         | SMissing => (false, failz w KOpen 0 ENOENT)
         | _ => (true, log (set_soff (set_fds w (FSrc :: w_fds w)) 0) KOpen 0 0)
         end
  end.

Definition k_fstat (w : world) (which : Z) : bool * world :=
  let (o, w) := pop w in
  match o with
  | Err e => (false, fail w KFstat which e)
  | _ => (true, log w KFstat which 0)
  end.

Inductive statres := StatFail | StatSame | StatOther.
Definition k_stat_dst (w : world) : statres * world :=
  let (o, w) := pop w in
  match o with
  | Err e => (StatFail, fail w KStat 0 e)
  | _ => match w_dst w with
         | DAbsent => (StatFail, failz w KStat 0 ENOENT)
         | DAlias => (StatSame, log w KStat 0 0)
         | _ => (StatOther, log w KStat 0 0)
         end
  end.

Definition k_open_dst (w : world) (overwrite : bool) : bool * world :=
  let a := if overwrite then 2 else 1 in
  let (o, w) := pop w in
  match o with
  | Err e => (false, fail w KOpen a e)
  | _ =>
    let opened w' := (true, log (set_doff (set_fds w' (FDst :: w_fds w')) 0) KOpen a 0) in
    match w_dst w with
    | DAbsent => opened (set_dst w (DFile []))
    | DFile _ => if overwrite then opened (set_dst w (DFile [])) else (false, failz w KOpen a EEXIST)
    | DAlias => if overwrite then opened (set_src w []) else (false, failz w KOpen a EEXIST)
    | DDir => (false, failz w KOpen a (if overwrite then EISDIR else EEXIST))
    end
  end.

(* bytes written through the destination descriptor land in the destination inode, which is the source
   inode when the destination path is an alias *)
Definition put_dst (w : world) (data : list Z) : world :=
  let w' :=
    match w_dst w with
    | DFile b => set_dst w (DFile (write_at b (w_doff w) data))
    | DAlias => set_src w (write_at (w_src w) (w_doff w) data)
    | _ => w
    end in
  set_doff w' (w_doff w + length data).

Definition k_cfr (w : world) (req : nat) : Z * world :=
  let (o, w) := pop w in
  match o with
  | Err e => (-1, fail w KCfr (Z.of_nat req) e)
  | _ =>
    let n := rd_count o req (length (w_src w) - w_soff w) in
    match w_dst w, n with
    | DAlias, S _ => (-1, failz w KCfr (Z.of_nat req) EINVAL)   (* Linux: overlapping ranges of one inode *)
    | _, _ =>
      let data := firstn n (skipn (w_soff w) (w_src w)) in
      let w := set_soff (put_dst w data) (w_soff w + n) in
      (Z.of_nat n, log w KCfr (Z.of_nat req) (Z.of_nat n))
    end
  end.

Definition k_read (w : world) (req : nat) : Z * list Z * world :=
  let (o, w) := pop w in
  match o with
  | Err e => (-1, [], fail w KRead (Z.of_nat req) e)
  | _ =>
    let n := rd_count o req (length (w_src w) - w_soff w) in
    let data := firstn n (skipn (w_soff w) (w_src w)) in
    (Z.of_nat n, data, log (set_soff w (w_soff w + n)) KRead (Z.of_nat req) (Z.of_nat n))
  end.

Definition k_write (w : world) (data : list Z) : Z * world :=
  let req := length data in
  let (o, w) := pop w in
  match o with
  | Err e => (-1, fail w KWrite (Z.of_nat req) e)
  | _ =>
    let n := wr_count o req in
    (Z.of_nat n, log (put_dst w (firstn n data)) KWrite (Z.of_nat req) (Z.of_nat n))
  end.

Definition k_fdatasync (w : world) : Z * world :=
  let (o, w) := pop w in
  match o with
  | Err e => (-1, fail w KFdatasync 0 e)
  | _ => (0, log w KFdatasync 0 0)
  end.

(* close releases the descriptor even when it reports an error (Linux) *)
Definition k_close (w : world) (t : fdtok) : Z * world :=
  let a := match t with FSrc => 0 | FDst => 1 end in
  let (o, w) := pop w in
  let w := set_fds w (remove_tok t (w_fds w)) in
  match o with
  | Err e => (-1, fail w KClose a e)
  | _ => (0, log w KClose a 0)
  end.

(* posix_fadvise returns its error and leaves errno alone; the result is ignored by the caller *)
Definition k_fadvise (w : world) (which : Z) : world :=
  let (o, w) := pop w in
  match o with
  | Err e => log w KFadvise which (Z.pos e)
  | _ => log w KFadvise which 0
  end.

(* ---- what the property talks about ---- *)

Definition dst_bytes (w : world) : option (list Z) :=
  match w_dst w with
  | DFile b => Some b
  | DAlias => Some (w_src w)
  | _ => None
  end.

(* an error, or a count of 0 (a write that makes no progress; read-like calls never answer 0 before the end) *)
Definition is_err (o : outcome) : bool := match o with Err _ => true | Short O => true | _ => false end.
Definition fault_free (s : list outcome) : Prop := forall o, In o s -> is_err o = false.
Definition fault_freeb (s : list outcome) : bool := forallb (fun o => negb (is_err o)) s.

(* "no I/O operation fails", allowing the kernel copy to be unavailable: the first copy_file_range call
   (call index 5: open, fstat, stat, open, fstat come before it; made only for a non-empty source) may answer EXDEV, EINVAL or ENOSYS *)
Definition unsupported_errno (e : positive) : bool :=
  (Z.pos e =? EXDEV) || (Z.pos e =? EINVAL) || (Z.pos e =? ENOSYS).
Definition benignb (src_empty : bool) (s : list outcome) : bool :=
  fault_freeb s ||
  (negb src_empty && fault_freeb (firstn 5 s) &&
   match nth_error s 5 with Some (Err e) => unsupported_errno e | _ => false end &&
   fault_freeb (skipn 6 s)).

(* the one fault the same-file guard cannot survive: stat(destination) failing (call index 2) *)
Definition stat_faultedb (s : list outcome) : bool :=
  match nth_error s 2 with Some (Err _) => true | _ => false end.

(* The spec of one copy, as the property text states it, for a starting world in which nothing is open.
   [expected status] when the property fixes it, and what must hold of the destination. *)
Inductive dst_req := DstAny | DstEqualsSource | DstUntouched.
Definition copy_spec (sk : skind) (d : dstate) (overwrite : bool) (faultfree : bool)
  : option status * dst_req :=
  match sk with
  | SReg =>
    match d, overwrite with
    | DAbsent, _ => (if faultfree then Some SUCCESS else None, DstAny)
    | DFile _, true => (if faultfree then Some SUCCESS else None, DstAny)
    | DAlias, true => (None, DstAny)                     (* same file: any refusal, source intact *)
    | DDir, true => (None, DstAny)
    | _, false => (if faultfree then Some EXISTS else None, DstUntouched)
    end
  | _ => (None, match d, overwrite with
                | DAbsent, _ => DstAny
                | _, false => DstUntouched
                | _, _ => DstAny end)
  end.
