(* C05: arithmetic modulo a power of two, and the list lemmas behind memcpy in/out of the buffer. *)
From Coq Require Import ZArith Znumtheory List Bool Lia.
From Zix Require Import RingSpec RingModel.
Import ListNotations.
Local Open Scope Z_scope.

(* ---------- modular arithmetic with a symbolic modulus ---------- *)

Lemma mod_3cases N x :
  0 < N -> - N <= x < 2 * N ->
  (0 <= x < N /\ x mod N = x) \/ (x < 0 /\ x mod N = x + N) \/ (N <= x /\ x mod N = x - N).
Proof.
  intros HN Hx.
  destruct (Z_lt_dec x 0) as [Hneg|Hnn].
  - right. left. split; [lia|]. symmetry. apply (Z.mod_unique x N (-1)); lia.
  - destruct (Z_lt_dec x N) as [Hlt|Hge].
    + left. split; [lia|]. apply Z.mod_small. lia.
    + right. right. split; [lia|]. symmetry. apply (Z.mod_unique x N 1); lia.
Qed.

Lemma mod_shift N x y k : 0 <= y < N -> x = y + k * N -> x mod N = y.
Proof. intros Hy ->. rewrite Z.mod_add by lia. apply Z.mod_small. exact Hy. Qed.

Lemma pow2_pos k : 0 <= k -> 0 < 2 ^ k.
Proof. intros. apply Z.pow_pos_nonneg; lia. Qed.

Lemma land_mask x k : 0 <= k -> Z.land x (2 ^ k - 1) = x mod 2 ^ k.
Proof.
  intros Hk. rewrite <- Z.land_ones by exact Hk. rewrite Z.ones_equiv. reflexivity.
Qed.

Lemma u32_mod_pow2 x k : 0 <= k <= 32 -> (u32 x) mod 2 ^ k = x mod 2 ^ k.
Proof.
  intros Hk. unfold u32. symmetry. apply Zmod_div_mod.
  - apply pow2_pos; lia.
  - apply pow2_pos; lia.
  - exists (2 ^ (32 - k)). rewrite <- Z.pow_add_r by lia. f_equal. lia.
Qed.

(* ---------- zrange ---------- *)

Lemma zrange_from_length s n : length (zrange_from s n) = n.
Proof. revert s. induction n; intros; cbn; [reflexivity|]. now rewrite IHn. Qed.

Lemma zrange_from_app s a b :
  zrange_from s (a + b) = zrange_from s a ++ zrange_from (s + Z.of_nat a) b.
Proof.
  revert s. induction a as [|a IH]; intros s.
  - cbn. now rewrite Z.add_0_r.
  - cbn [Nat.add zrange_from app]. rewrite IH.
    replace (s + 1 + Z.of_nat a) with (s + Z.of_nat (S a)) by lia. reflexivity.
Qed.

Lemma zrange_from_shift s d n : zrange_from (s + d) n = map (Z.add d) (zrange_from s n).
Proof.
  revert s. induction n as [|n IH]; intros s; cbn; [reflexivity|].
  f_equal; [lia|]. replace (s + d + 1) with (s + 1 + d) by lia. apply IH.
Qed.

Lemma zrange_from_In s n i : In i (zrange_from s n) <-> s <= i < s + Z.of_nat n.
Proof.
  revert s. induction n as [|n IH]; intros s; cbn [zrange_from In].
  - lia.
  - rewrite IH. lia.
Qed.

Lemma zrange_length n : length (zrange n) = Z.to_nat n.
Proof. apply zrange_from_length. Qed.

Lemma zrange_In n i : In i (zrange n) <-> 0 <= i < n.
Proof. unfold zrange. rewrite zrange_from_In. lia. Qed.

Lemma zrange_app a b : 0 <= a -> 0 <= b -> zrange (a + b) = zrange a ++ map (Z.add a) (zrange b).
Proof.
  intros Ha Hb. unfold zrange. rewrite Z2Nat.inj_add by lia. rewrite zrange_from_app.
  f_equal. rewrite Z2Nat.id by lia. rewrite <- zrange_from_shift. f_equal.
Qed.

Lemma zrange_0 n : n <= 0 -> zrange n = [].
Proof. intros H. unfold zrange. destruct n; try reflexivity. lia. Qed.

Lemma map_zrange_ext {A} (f g : Z -> A) n :
  (forall i, 0 <= i < n -> f i = g i) -> map f (zrange n) = map g (zrange n).
Proof. intros H. apply map_ext_in. intros i Hi. apply H. now apply zrange_In. Qed.

(* ---------- Z-indexed list access ---------- *)

Definition znth (l : list Z) (i : Z) : Z := nth (Z.to_nat i) l 0.

Lemma len_nonneg l : 0 <= len l.
Proof. unfold len. lia. Qed.

Lemma len_app a b : len (a ++ b) = len a + len b.
Proof. unfold len. rewrite app_length. lia. Qed.

Lemma len_map_zrange (f : Z -> Z) n : 0 <= n -> len (map f (zrange n)) = n.
Proof. intros H. unfold len. rewrite map_length, zrange_length. lia. Qed.

Lemma list_as_zrange l : l = map (znth l) (zrange (len l)).
Proof.
  unfold zrange, len, znth. rewrite Nat2Z.id.
  assert (G : forall s, l = map (fun i => nth (Z.to_nat (i - Z.of_nat s)) l 0)
                            (zrange_from (Z.of_nat s) (length l))).
  { induction l as [|a l IH]; intros s; [reflexivity|].
    cbn [length zrange_from map]. f_equal.
    - now rewrite Z.sub_diag.
    - rewrite (IH (S s)) at 1. replace (Z.of_nat s + 1) with (Z.of_nat (S s)) by lia.
      apply map_ext_in. intros i Hi. apply zrange_from_In in Hi.
      replace (Z.to_nat (i - Z.of_nat s)) with (S (Z.to_nat (i - Z.of_nat (S s)))) by lia.
      reflexivity. }
  rewrite (G 0%nat) at 1. apply map_ext. intros i. now rewrite Z.sub_0_r.
Qed.

Lemma znth_map_zrange (f : Z -> Z) n i : 0 <= i < n -> znth (map f (zrange n)) i = f i.
Proof.
  intros Hi. unfold znth, zrange.
  assert (G : forall s m k, (k < m)%nat ->
             nth k (map f (zrange_from s m)) 0 = f (s + Z.of_nat k)).
  { intros s m. revert s. induction m as [|m IH]; intros s k Hk; [lia|].
    destruct k as [|k]; cbn [zrange_from map nth].
    - f_equal. lia.
    - rewrite IH by lia. f_equal. lia. }
  rewrite G by lia. f_equal. lia.
Qed.

Lemma list_ext_znth a b : len a = len b -> (forall i, 0 <= i < len a -> znth a i = znth b i) -> a = b.
Proof.
  intros Hl H. rewrite (list_as_zrange a), (list_as_zrange b), <- Hl.
  apply map_zrange_ext. exact H.
Qed.

Lemma firstn_map_zrange {A} (f : Z -> A) n m :
  0 <= n <= m -> firstn (Z.to_nat n) (map f (zrange m)) = map f (zrange n).
Proof.
  intros H. replace m with (n + (m - n)) by lia. rewrite zrange_app by lia.
  rewrite map_app, firstn_app.
  rewrite map_length, zrange_length, Nat.sub_diag. cbn [firstn]. rewrite app_nil_r.
  apply firstn_all2. rewrite map_length, zrange_length. lia.
Qed.

Lemma skipn_map_zrange {A} (f : Z -> A) n m :
  0 <= n <= m -> skipn (Z.to_nat n) (map f (zrange m)) = map (fun i => f (n + i)) (zrange (m - n)).
Proof.
  intros H. replace m with (n + (m - n)) at 1 by lia. rewrite zrange_app by lia.
  rewrite map_app, skipn_app.
  rewrite map_length, zrange_length, Nat.sub_diag. cbn [skipn].
  rewrite skipn_all2 by (rewrite map_length, zrange_length; lia).
  cbn [app]. now rewrite map_map.
Qed.

(* ---------- memcpy out of / into the buffer ---------- *)

Lemma nth_skipn_add {A} (l : list A) n k d : nth k (skipn n l) d = nth (n + k) l d.
Proof.
  revert l. induction n as [|n IH]; intros l; [reflexivity|].
  destruct l as [|a l]; cbn [skipn Nat.add nth]; [destruct k; reflexivity|apply IH].
Qed.

Lemma nth_firstn_lt {A} (l : list A) n k d : (k < n)%nat -> nth k (firstn n l) d = nth k l d.
Proof.
  revert l k. induction n as [|n IH]; intros l k Hk; [lia|].
  destruct l as [|a l]; [reflexivity|]. destruct k as [|k]; [reflexivity|].
  cbn [firstn nth]. apply IH. lia.
Qed.

Lemma mem_read_spec b off n :
  0 <= off -> 0 <= n -> off + n <= len b ->
  mem_read b off n = map (fun i => znth b (off + i)) (zrange n).
Proof.
  intros Ho Hn Hb. unfold mem_read.
  rewrite (list_as_zrange b) at 1.
  rewrite skipn_map_zrange by lia. rewrite firstn_map_zrange by lia. reflexivity.
Qed.

Lemma mem_read_len b off n : 0 <= off -> 0 <= n -> off + n <= len b -> len (mem_read b off n) = n.
Proof. intros. rewrite mem_read_spec by lia. apply len_map_zrange. lia. Qed.

Lemma mem_write_len b off src :
  0 <= off -> off + len src <= len b -> len (mem_write b off src) = len b.
Proof.
  intros Ho Hb. unfold mem_write, len in *. rewrite !app_length, firstn_length, skipn_length. lia.
Qed.

Lemma mem_write_znth b off src j :
  0 <= off -> off + len src <= len b -> 0 <= j < len b ->
  znth (mem_write b off src) j =
    if (off <=? j) && (j <? off + len src) then znth src (j - off) else znth b j.
Proof.
  intros Ho Hb Hj. unfold mem_write, znth, len in *.
  destruct (off <=? j) eqn:E1; cbn [andb].
  - apply Z.leb_le in E1.
    rewrite app_nth2 by (rewrite firstn_length; lia).
    rewrite firstn_length, Nat.min_l by lia.
    destruct (j <? off + Z.of_nat (length src)) eqn:E2.
    + apply Z.ltb_lt in E2. rewrite app_nth1 by lia. f_equal. lia.
    + apply Z.ltb_ge in E2. rewrite app_nth2 by lia.
      rewrite nth_skipn_add. f_equal. lia.
  - apply Z.leb_gt in E1. rewrite app_nth1 by (rewrite firstn_length; lia).
    apply nth_firstn_lt. lia.
Qed.
