(* Page-geometry helpers and constants of /repo/src/btree.c, REGENERATED from the C source on every run (gen/Leaf.v,
   gen/Constants.v, module BTree, by tools/translate_leaf.py), are what the hand-written B-tree model of C01/C02
   (BTreeModel, parameters L I H) is instantiated with and uses.  zix_btree_max_vals, zix_btree_min_vals,
   zix_btree_can_remove_from and zix_btree_is_full are translated once per page size the checks build
   (clang -DZIX_BTREE_PAGE_SIZE=64U|128U|256U|4096U, suffix _p<size>) and for the default configuration; node->is_leaf
   and node->n_vals are the parameters node_is_leaf / n_is_leaf / n_n_vals.  ZIX_BTREE_LEAF_VALS, ZIX_BTREE_INODE_VALS,
   ZIX_BTREE_MAX_HEIGHT, ZIX_BTREE_PAGE_SIZE and sizeof(ZixBTreeNode) are printed by compiled probes that include
   btree.c.  A model page n corresponds to is_leaf = Z.b2z (is_leaf n) (zix_btree_node_new stores the bool) and
   n_vals = Z.of_nat (n_vals n). *)
From Coq Require Import ZArith Bool List Lia ZifyBool Arith.
From Zix Require Import BTreeModel.
From Zix.gen Require Leaf Constants.
Local Open Scope Z_scope.
Module L := Leaf.BTree.
Module C := Constants.BTree.

(* the formulas the model driver (ocaml/drv_c01.ml) instantiates L, I, H with *)
Definition cfg_L (page : Z) : Z := (page - 8) / 8 - 1.
Definition cfg_I (page : Z) : Z := cfg_L page / 2.
Definition cfg_H : Z := 6.

Theorem btree_constants_are_model :
  C.default_page_size = 4096 /\ C.default_leaf_vals = C.p4096_leaf_vals /\ C.default_inode_vals = C.p4096_inode_vals /\
  C.default_max_height = cfg_H /\
  (C.p64_page_size = 64 /\ C.p64_leaf_vals = 6 /\ C.p64_inode_vals = 3 /\ C.p64_leaf_vals = cfg_L 64 /\
   C.p64_inode_vals = cfg_I 64 /\ C.p64_max_height = cfg_H /\ C.p64_sizeof_node = 64) /\
  (C.p128_page_size = 128 /\ C.p128_leaf_vals = 14 /\ C.p128_inode_vals = 7 /\ C.p128_leaf_vals = cfg_L 128 /\
   C.p128_inode_vals = cfg_I 128 /\ C.p128_max_height = cfg_H /\ C.p128_sizeof_node = 128) /\
  (C.p256_page_size = 256 /\ C.p256_leaf_vals = 30 /\ C.p256_inode_vals = 15 /\ C.p256_leaf_vals = cfg_L 256 /\
   C.p256_inode_vals = cfg_I 256 /\ C.p256_max_height = cfg_H /\ C.p256_sizeof_node = 256) /\
  (C.p4096_page_size = 4096 /\ C.p4096_leaf_vals = 510 /\ C.p4096_inode_vals = 255 /\ C.p4096_leaf_vals = cfg_L 4096 /\
   C.p4096_inode_vals = cfg_I 4096 /\ C.p4096_max_height = cfg_H /\ C.p4096_sizeof_node = 4096).
Proof. repeat split; reflexivity.
Qed.
Print Assumptions btree_constants_are_model.

(* every accepted configuration used by the checks has INODE_VALS = LEAF_VALS / 2 >= 3, LEAF_VALS <= 65535 (the
   hypotheses of the C01/C02 theorems) *)
Theorem btree_configurations_meet_hypotheses :
  (C.p64_inode_vals = C.p64_leaf_vals / 2 /\ 3 <= C.p64_inode_vals /\ C.p64_leaf_vals <= 65535) /\
  (C.p128_inode_vals = C.p128_leaf_vals / 2 /\ 3 <= C.p128_inode_vals /\ C.p128_leaf_vals <= 65535) /\
  (C.p256_inode_vals = C.p256_leaf_vals / 2 /\ 3 <= C.p256_inode_vals /\ C.p256_leaf_vals <= 65535) /\
  (C.p4096_inode_vals = C.p4096_leaf_vals / 2 /\ 3 <= C.p4096_inode_vals /\ C.p4096_leaf_vals <= 65535).
Proof. repeat split; vm_compute; congruence.
Qed.
Print Assumptions btree_configurations_meet_hypotheses.

Ltac page_helpers fmax fmin fcan ffull :=
  intros elt n Hn;
  unfold fcan, ffull, can_remove_from, is_full, min_vals, max_vals;
  destruct (is_leaf elt n); cbn [Z.b2z];
  match goal with |- context [fmin ?b] => let v := eval vm_compute in (fmin b) in change (fmin b) with v end;
  match goal with |- context [fmax ?b] => let v := eval vm_compute in (fmax b) in change (fmax b) with v end;
  match goal with |- context [Nat.ltb ?c _] => let v := eval vm_compute in c in change c with v end;
  repeat split; try reflexivity; lia.

Theorem leaf_btree_helpers_p64_are_model :
  forall (elt : Type) (n : node elt), Z.of_nat (n_vals elt n) < 2 ^ 32 ->
    L.leaf_zix_btree_max_vals_p64 (Z.b2z (is_leaf elt n)) = Z.of_nat (max_vals elt 6 3 n) /\
    L.leaf_zix_btree_min_vals_p64 (Z.b2z (is_leaf elt n)) = Z.of_nat (min_vals elt 6 3 n) /\
    L.leaf_zix_btree_can_remove_from_p64 (Z.of_nat (n_vals elt n)) (Z.b2z (is_leaf elt n)) = can_remove_from elt 6 3 n /\
    L.leaf_zix_btree_is_full_p64 (Z.of_nat (n_vals elt n)) (Z.b2z (is_leaf elt n)) = is_full elt 6 3 n.
Proof.
  page_helpers L.leaf_zix_btree_max_vals_p64 L.leaf_zix_btree_min_vals_p64 L.leaf_zix_btree_can_remove_from_p64
               L.leaf_zix_btree_is_full_p64.
Qed.
Print Assumptions leaf_btree_helpers_p64_are_model.

Theorem leaf_btree_helpers_p128_are_model :
  forall (elt : Type) (n : node elt), Z.of_nat (n_vals elt n) < 2 ^ 32 ->
    L.leaf_zix_btree_max_vals_p128 (Z.b2z (is_leaf elt n)) = Z.of_nat (max_vals elt 14 7 n) /\
    L.leaf_zix_btree_min_vals_p128 (Z.b2z (is_leaf elt n)) = Z.of_nat (min_vals elt 14 7 n) /\
    L.leaf_zix_btree_can_remove_from_p128 (Z.of_nat (n_vals elt n)) (Z.b2z (is_leaf elt n)) = can_remove_from elt 14 7 n /\
    L.leaf_zix_btree_is_full_p128 (Z.of_nat (n_vals elt n)) (Z.b2z (is_leaf elt n)) = is_full elt 14 7 n.
Proof.
  page_helpers L.leaf_zix_btree_max_vals_p128 L.leaf_zix_btree_min_vals_p128 L.leaf_zix_btree_can_remove_from_p128
               L.leaf_zix_btree_is_full_p128.
Qed.
Print Assumptions leaf_btree_helpers_p128_are_model.

Theorem leaf_btree_helpers_p256_are_model :
  forall (elt : Type) (n : node elt), Z.of_nat (n_vals elt n) < 2 ^ 32 ->
    L.leaf_zix_btree_max_vals_p256 (Z.b2z (is_leaf elt n)) = Z.of_nat (max_vals elt 30 15 n) /\
    L.leaf_zix_btree_min_vals_p256 (Z.b2z (is_leaf elt n)) = Z.of_nat (min_vals elt 30 15 n) /\
    L.leaf_zix_btree_can_remove_from_p256 (Z.of_nat (n_vals elt n)) (Z.b2z (is_leaf elt n)) = can_remove_from elt 30 15 n /\
    L.leaf_zix_btree_is_full_p256 (Z.of_nat (n_vals elt n)) (Z.b2z (is_leaf elt n)) = is_full elt 30 15 n.
Proof.
  page_helpers L.leaf_zix_btree_max_vals_p256 L.leaf_zix_btree_min_vals_p256 L.leaf_zix_btree_can_remove_from_p256
               L.leaf_zix_btree_is_full_p256.
Qed.
Print Assumptions leaf_btree_helpers_p256_are_model.

Theorem leaf_btree_helpers_p4096_are_model :
  forall (elt : Type) (n : node elt), Z.of_nat (n_vals elt n) < 2 ^ 32 ->
    L.leaf_zix_btree_max_vals_p4096 (Z.b2z (is_leaf elt n)) = Z.of_nat (max_vals elt 510 255 n) /\
    L.leaf_zix_btree_min_vals_p4096 (Z.b2z (is_leaf elt n)) = Z.of_nat (min_vals elt 510 255 n) /\
    L.leaf_zix_btree_can_remove_from_p4096 (Z.of_nat (n_vals elt n)) (Z.b2z (is_leaf elt n)) = can_remove_from elt 510 255 n /\
    L.leaf_zix_btree_is_full_p4096 (Z.of_nat (n_vals elt n)) (Z.b2z (is_leaf elt n)) = is_full elt 510 255 n.
Proof.
  page_helpers L.leaf_zix_btree_max_vals_p4096 L.leaf_zix_btree_min_vals_p4096 L.leaf_zix_btree_can_remove_from_p4096
               L.leaf_zix_btree_is_full_p4096.
Qed.
Print Assumptions leaf_btree_helpers_p4096_are_model.

Theorem leaf_btree_helpers_default_are_model :
  forall (elt : Type) (n : node elt), Z.of_nat (n_vals elt n) < 2 ^ 32 ->
    L.leaf_zix_btree_max_vals (Z.b2z (is_leaf elt n)) = Z.of_nat (max_vals elt 510 255 n) /\
    L.leaf_zix_btree_min_vals (Z.b2z (is_leaf elt n)) = Z.of_nat (min_vals elt 510 255 n) /\
    L.leaf_zix_btree_can_remove_from (Z.of_nat (n_vals elt n)) (Z.b2z (is_leaf elt n)) = can_remove_from elt 510 255 n /\
    L.leaf_zix_btree_is_full (Z.of_nat (n_vals elt n)) (Z.b2z (is_leaf elt n)) = is_full elt 510 255 n.
Proof.
  page_helpers L.leaf_zix_btree_max_vals L.leaf_zix_btree_min_vals L.leaf_zix_btree_can_remove_from
               L.leaf_zix_btree_is_full.
Qed.
Print Assumptions leaf_btree_helpers_default_are_model.

(* any non-zero is_leaf selects LEAF_VALS (the C condition is `node->is_leaf ? ... : ...`), on the whole uint32 domain *)
Theorem leaf_btree_max_vals_select :
  forall il, L.leaf_zix_btree_max_vals_p64_dom il ->
    L.leaf_zix_btree_max_vals_p64 il = (if il =? 0 then C.p64_inode_vals else C.p64_leaf_vals) /\
    L.leaf_zix_btree_max_vals_p128 il = (if il =? 0 then C.p128_inode_vals else C.p128_leaf_vals) /\
    L.leaf_zix_btree_max_vals_p256 il = (if il =? 0 then C.p256_inode_vals else C.p256_leaf_vals) /\
    L.leaf_zix_btree_max_vals_p4096 il = (if il =? 0 then C.p4096_inode_vals else C.p4096_leaf_vals).
Proof. intros il _. repeat split; match goal with |- ?f il = _ => unfold f end; destruct (il =? 0); reflexivity.
Qed.
Print Assumptions leaf_btree_max_vals_select.
