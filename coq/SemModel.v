(* C17: model of src/posix/sem_posix.c.  Definitions only.
   Three layers:
   1. timed_wait_deadline: the deadline arithmetic of zix_sem_timed_wait with the C types
      (time_t and long are 64-bit signed here, the parameters uint32_t);
   2. the retry loops of zix_sem_wait / zix_sem_try_wait / zix_sem_timed_wait over a SCRIPT of
      results of the successive sem_* calls;
   3. the wrappers running against an ideal counting semaphore (the environment model: an explicit
      small model of the kernel primitive, trusted, only smoke-tested) under an interleaving semantics:
      threads are lists of operations, a schedule is a list of choices. *)
From Coq Require Import ZArith List Bool Arith.
From Zix Require Import SemErrnoModel.
Import ListNotations.
Local Open Scope Z_scope.

(* ------------------------------------------------------------------ 1. deadline *)
Definition NS_PER_SECOND := 1000000000.

(* value of a 64-bit signed object after storing the mathematical result x (two's complement) *)
Definition wrap_s64 (x : Z) : Z := (x + 2^63) mod 2^64 - 2^63.

(*  ts.tv_sec  += (time_t)seconds;
    ts.tv_nsec += (long)nanoseconds;
    ts.tv_sec  += (time_t)(ts.tv_nsec / NS_PER_SECOND);     C division truncates: Z.quot / Z.rem
    ts.tv_nsec %= NS_PER_SECOND;                                                                   *)
Definition timed_wait_deadline (now_sec now_nsec s ns : Z) : Z * Z :=
  let sec1 := wrap_s64 (now_sec + s) in
  let nsec1 := wrap_s64 (now_nsec + ns) in
  let sec2 := wrap_s64 (sec1 + Z.quot nsec1 NS_PER_SECOND) in
  let nsec2 := Z.rem nsec1 NS_PER_SECOND in
  (sec2, nsec2).

(* ------------------------------------------------------------------ 2. retry loops *)
Inductive loop_out := Again | Ret (s : status).

(* one evaluation of `(r = sem_xxx(...)) && errno == EINTR` followed, when the loop exits,
   by zix_errno_status_if(r) *)
Definition retry_iter (r : kres) : loop_out :=
  match r with
  | KOk => Ret (errno_status_if KOk)
  | KErr e => if Z.eqb e EINTR then Again else Ret (errno_status_if (KErr e))
  end.

Inductive outcome :=
| Returned (s : status) (calls : nat)   (* the function returned s after `calls` sem_* calls *)
| StillWaiting (calls : nat).           (* script exhausted: the loop is still running *)

Fixpoint retry_loop (script : list kres) (calls : nat) : outcome :=
  match script with
  | [] => StillWaiting calls
  | r :: rest =>
      match retry_iter r with
      | Again => retry_loop rest (S calls)
      | Ret s => Returned s (S calls)
      end
  end.

Definition wait_model (script : list kres) : outcome := retry_loop script 0.
Definition try_wait_model (script : list kres) : outcome := retry_loop script 0.

(* clock: result of clock_gettime and the time it stored; the second component is the timespec
   every sem_timedwait call receives (None: sem_timedwait never called) *)
Definition timed_wait_model (clock : kres) (now_sec now_nsec s ns : Z) (script : list kres)
  : outcome * option (Z * Z) :=
  match clock with
  | KErr e => (Returned (errno_status_if (KErr e)) 0, None)
  | KOk => (retry_loop script 0, Some (timed_wait_deadline now_sec now_nsec s ns))
  end.

Definition post_model (r : kres) : status := errno_status_if r.

(* ------------------------------------------------------------------ 3. interleavings *)
Inductive op := OPost | OWait | OTry | OTimed.

Definition op_is_post (o : op) : bool := match o with OPost => true | _ => false end.

(* the ideal counting semaphore: what one sem_* call does on count c.
   None = the caller sleeps (no change).  `expire` = the deadline of a timed wait has passed. *)
Definition kernel_call (o : op) (c : nat) (expire : bool) : option (nat * kres) :=
  match o with
  | OPost => Some (S c, KOk)
  | OWait => match c with O => None | S c' => Some (c', KOk) end
  | OTry => match c with O => Some (O, KErr EAGAIN) | S c' => Some (c', KOk) end
  | OTimed => match c with
              | O => if expire then Some (O, KErr ETIMEDOUT) else None
              | S c' => Some (c', KOk)
              end
  end.

(* what the zix function does with the result of one call *)
Definition wrapper (o : op) (r : kres) : loop_out :=
  match o with
  | OPost => Ret (post_model r)
  | _ => retry_iter r
  end.

Record thread := {
  t_todo : list op;                     (* operations still to do; the head is the current one *)
  t_log : list (op * status * nat);     (* completed: operation, status returned, EINTR retries *)
  t_inkernel : bool;                    (* sleeping inside sem_wait/sem_timedwait *)
  t_retries : nat                       (* EINTR retries of the current operation so far *)
}.

Record sys := {
  s_count : nat;
  s_threads : list thread;
  s_posts : nat                         (* posts begun *)
}.

Inductive choice :=
| Run (i : nat)      (* thread i performs / completes its current sem_* call if it can *)
| Expire (i : nat)   (* same, and the deadline of its timed wait has passed *)
| Sig (i : nat).     (* a signal handler runs in thread i *)

Fixpoint upd {A} (i : nat) (x : A) (l : list A) : list A :=
  match l, i with
  | [], _ => []
  | _ :: l', O => x :: l'
  | y :: l', S i' => y :: upd i' x l'
  end.

Definition attempt (i : nat) (expire : bool) (st : sys) : sys :=
  match nth_error (s_threads st) i with
  | None => st
  | Some t =>
      match t_todo t with
      | [] => st
      | o :: rest =>
          match kernel_call o (s_count st) expire with
          | None =>
              {| s_count := s_count st;
                 s_threads := upd i {| t_todo := t_todo t; t_log := t_log t; t_inkernel := true;
                                       t_retries := t_retries t |} (s_threads st);
                 s_posts := s_posts st |}
          | Some (c', r) =>
              let posts' := if op_is_post o then S (s_posts st) else s_posts st in
              match wrapper o r with
              | Again =>
                  {| s_count := c';
                     s_threads := upd i {| t_todo := t_todo t; t_log := t_log t; t_inkernel := false;
                                           t_retries := S (t_retries t) |} (s_threads st);
                     s_posts := posts' |}
              | Ret s =>
                  {| s_count := c';
                     s_threads := upd i {| t_todo := rest; t_log := t_log t ++ [(o, s, t_retries t)];
                                           t_inkernel := false; t_retries := O |} (s_threads st);
                     s_posts := posts' |}
              end
          end
      end
  end.

(* a signal handler runs in thread i: if the thread sleeps in sem_wait/sem_timedwait the call
   returns -1/EINTR and the wrapper decides; otherwise nothing the semaphore can see happens *)
Definition signal (i : nat) (st : sys) : sys :=
  match nth_error (s_threads st) i with
  | None => st
  | Some t =>
      if t_inkernel t then
        match t_todo t with
        | [] => st
        | o :: rest =>
            match wrapper o (KErr EINTR) with
            | Again =>   (* the loop calls sem_wait again at once: still in the kernel *)
                {| s_count := s_count st;
                   s_threads := upd i {| t_todo := t_todo t; t_log := t_log t; t_inkernel := true;
                                         t_retries := S (t_retries t) |} (s_threads st);
                   s_posts := s_posts st |}
            | Ret s =>
                {| s_count := s_count st;
                   s_threads := upd i {| t_todo := rest; t_log := t_log t ++ [(o, s, t_retries t)];
                                         t_inkernel := false; t_retries := O |} (s_threads st);
                   s_posts := s_posts st |}
            end
        end
      else st
  end.

Definition step (ch : choice) (st : sys) : sys :=
  match ch with
  | Run i => attempt i false st
  | Expire i => attempt i true st
  | Sig i => signal i st
  end.

Fixpoint run (sched : list choice) (st : sys) : sys :=
  match sched with
  | [] => st
  | ch :: rest => run rest (step ch st)
  end.

Definition new_thread (prog : list op) : thread :=
  {| t_todo := prog; t_log := []; t_inkernel := false; t_retries := O |}.

Definition init_sys (initial : nat) (progs : list (list op)) : sys :=
  {| s_count := initial; s_threads := map new_thread progs; s_posts := O |}.

(* observations *)
Definition is_take (e : op * status * nat) : bool :=
  match e with (o, s, _) => negb (op_is_post o) && status_eqb s SUCCESS end.

Definition takes_of (t : thread) : nat := length (filter is_take (t_log t)).
Definition takes (st : sys) : nat := list_sum (map takes_of (s_threads st)).

(* thread i could complete its current call now *)
Definition runnable (st : sys) (t : thread) : bool :=
  match t_todo t with
  | [] => false
  | o :: _ => match kernel_call o (s_count st) false with None => false | Some _ => true end
  end.

Definition blocked_waiter (t : thread) : bool :=
  match t_todo t with
  | OWait :: _ => true
  | OTimed :: _ => true
  | _ => false
  end.
