(* C16 — property theorems only.  EnvModel.expand_run is the model of zix_expand_environment_strings
   (/repo/src/posix/environment_posix.c as repaired by 93a479b, 17db61d, e7b260b, bda4119);
   EnvSpec.spec_expand is the reference expander; `nz str` says the input is a C string (no interior
   NUL); the environment is arbitrary (None = null environ, any entries, any order, duplicates,
   entries without '='), and `o` is an arbitrary script of allocator answers. *)
From Coq Require Import ZArith List Bool.
From Zix Require Import EnvSpec EnvModel EnvProofs.
Import ListNotations.
Local Open Scope Z_scope.

(* the scan terminates (never OutOfFuel) and never reads outside the NUL-terminated input or an
   environment entry (never BadRead): every string, every environment, every allocator behaviour *)
Theorem expand_terminates :
  forall (e : env) (str : list Z) (o : list bool), nz str -> exists a, expand_run e str o = Ok a.
Proof. exact expand_terminates_l. Qed.
Print Assumptions expand_terminates.

(* when the allocator does not refuse, the returned string is exactly the reference expansion,
   for every input outside the excluded class (a '~' directly preceded by a name character) *)
Theorem expand_eq_spec :
  forall (e : env) (str : list Z) (o : list bool) (r : list Z),
    nz str -> ~ In false o -> spec_expand e str = Some r ->
    exists a, expand_run e str o = Ok a /\ result a = Some r.
Proof. exact expand_eq_spec_l. Qed.
Print Assumptions expand_eq_spec.

(* stronger: also inside the excluded class the code behaves as the reference expander does
   (there a '~' glued to a preceding name character is copied) *)
Theorem expand_eq_expander :
  forall (e : env) (str : list Z) (o : list bool),
    nz str -> ~ In false o ->
    exists a, expand_run e str o = Ok a /\ result a = Some (expand e 0 None str).
Proof. exact expand_eq_expander_l. Qed.
Print Assumptions expand_eq_expander.

(* the lookup of the C code (prefix match over environ, then '=') is the first entry NAME=value *)
Theorem find_env_is_lookup :
  forall (e : env) (name : list Z), good_name name -> find_env e name = Ok (lookup e name).
Proof. exact find_env_lookup. Qed.
Print Assumptions find_env_is_lookup.

(* any refused allocation request: NULL is returned and no block stays allocated *)
Theorem expand_alloc_failure :
  forall (e : env) (str : list Z) (o : list bool) (a : st) (k : nat),
    nz str -> expand_run e str o = Ok a ->
    (k < length (outcomes (s_log a)))%nat ->       (* the k-th request was made *)
    answer o k = false ->                          (* and the allocator refused it *)
    result a = None /\ live (s_log a) = [].
Proof. exact expand_alloc_failure_l. Qed.
Print Assumptions expand_alloc_failure.

(* no refused request: exactly the returned block is live and it holds the expansion *)
Theorem expand_alloc_success :
  forall (e : env) (str : list Z) (o : list bool) (a : st),
    nz str -> expand_run e str o = Ok a -> has_failed (s_log a) = false ->
    exists i, s_out a = Some (i, expand e 0 None str) /\ live (s_log a) = [i] /\
              s_len a = length (expand e 0 None str).
Proof. exact expand_alloc_success_l. Qed.
Print Assumptions expand_alloc_success.

(* NULL is returned only when the allocator refused a request (never for the empty input,
   an unset HOME or a null environ) *)
Theorem expand_null_only_on_refusal :
  forall (e : env) (str : list Z) (o : list bool) (a : st),
    nz str -> expand_run e str o = Ok a -> result a = None ->
    In false o /\ has_failed (s_log a) = true /\ live (s_log a) = [].
Proof. exact expand_null_only_on_refusal_l. Qed.
Print Assumptions expand_null_only_on_refusal.

(* under EVERY allocator script (refusals anywhere, memory coming back afterwards): a string that is
   returned is exactly the expansion - never a truncated or partly built one *)
Theorem expand_result_is_expansion :
  forall (e : env) (str : list Z) (o : list bool) (a : st) (d : list Z),
    nz str -> expand_run e str o = Ok a -> result a = Some d -> d = expand e 0 None str.
Proof. exact expand_result_is_expansion_l. Qed.
Print Assumptions expand_result_is_expansion.

(* ---- non-vacuity and regression witnesses (bytes: '$'=36 '~'=126 '/'=47 ':'=58 '='=61) ---- *)

(* X=val; "ab$X$X/~:$Y" : references at offset > 0, adjacent, an unset one, '~' with HOME unset *)
Example witness_offsets :
  let e := Some [[88; 61; 118; 97; 108]] in
  let s := [97; 98; 36; 88; 36; 88; 47; 126; 58; 36; 89] in
  nz s /\ spec_expand e s = Some [97; 98; 118; 97; 108; 118; 97; 108; 47; 126; 58; 36; 89] /\
  match expand_run e s [] with Ok a => result a | _ => None end = spec_expand e s.
Proof. split; [repeat constructor; discriminate | split; vm_compute; reflexivity]. Qed.

(* HOME=/h; "f.c~" is copied, "~/x:~" expands twice; AB=n before A=y does not shadow A; the value
   "$A~" of B is not expanded again *)
Example witness_tilde_and_lookup :
  let e := Some [[72; 79; 77; 69; 61; 47; 104]; [65; 66; 61; 110]; [65; 61; 121]; [66; 61; 36; 65; 126]] in
  spec_expand e [102; 46; 99; 126] = Some [102; 46; 99; 126] /\
  spec_expand e [126; 47; 120; 58; 126] = Some [47; 104; 47; 120; 58; 47; 104] /\
  spec_expand e [36; 65; 58; 36; 66] = Some [121; 58; 36; 65; 126] /\
  spec_expand e [65; 126] = None /\
  match expand_run e [126; 47; 120; 58; 126] [] with Ok a => result a | _ => None end
    = Some [47; 104; 47; 120; 58; 47; 104].
Proof. repeat split; vm_compute; reflexivity. Qed.

(* empty input with a null environ: "" (not NULL); second request refused: NULL, nothing live *)
Example witness_empty_and_failure :
  match expand_run None [] [] with Ok a => result a | _ => None end = Some [] /\
  match expand_run (Some [[65; 61; 118]]) [120; 36; 65] [true; false] with
  | Ok a => (result a, live (s_log a), outcomes (s_log a)) | _ => (None, [0%nat], []) end
    = (None, [], [true; false]).
Proof. split; vm_compute; reflexivity. Qed.
