(* C16 — property theorems only (first stage: regression witnesses; the general theorems follow). *)
From Coq Require Import ZArith List Bool.
From Zix Require Import EnvSpec EnvModel.
Import ListNotations.
Local Open Scope Z_scope.

(* "a$X/rest" with X=val: the reference at offset 1 is replaced once and the scan continues after it *)
Theorem expand_witness_offset :
  let e := Some [[88; 61; 118; 97; 108]] in
  let s := [97; 36; 88; 47; 114; 101; 115; 116] in
  match expand_run e s [] with Ok a => result a | _ => None end = spec_expand e s.
Proof. vm_compute. reflexivity. Qed.
Print Assumptions expand_witness_offset.
