(* C15 — lemmas, part 2: the component-wise spec of "mkdir -p" (mkdirs_walk) and its properties. *)
From Coq Require Import ZArith List Bool Lia.
From Zix Require Import CopySpec CopyModel FsSpec FsModel.
Import ListNotations.
Local Open Scope Z_scope.

(* ---------------------------------------------------------------- lookups under extension *)
Lemma assoc_app_some : forall fs x l k, assoc fs l = Some k -> assoc (fs ++ x) l = Some k.
Proof.
  induction fs as [|[l' k'] fs IH]; intros x l k H; [discriminate|].
  cbn [assoc app] in *. destruct (loc_eqb l' l); [exact H|apply IH; exact H].
Qed.

Lemma name_eqb_refl : forall n, name_eqb n n = true.
Proof. induction n as [|x n IH]; [reflexivity|]. cbn. rewrite Z.eqb_refl, IH. reflexivity. Qed.
Lemma loc_eqb_refl : forall l, loc_eqb l l = true.
Proof. induction l as [|x l IH]; [reflexivity|]. cbn. rewrite name_eqb_refl, IH. reflexivity. Qed.

Lemma assoc_app_new : forall fs l k, assoc fs l = None -> assoc (fs ++ [(l, k)]) l = Some k.
Proof.
  induction fs as [|[l' k'] fs IH]; intros l k H.
  - cbn. rewrite loc_eqb_refl. reflexivity.
  - cbn [assoc app] in *. destruct (loc_eqb l' l); [discriminate|apply IH; exact H].
Qed.

Lemma lookup_app_some : forall fs x l k, lookup fs l = Some k -> lookup (fs ++ x) l = Some k.
Proof. intros fs x [|n l] k H; [exact H|]. cbn [lookup] in *. apply assoc_app_some. exact H. Qed.

Lemma lookup_app_new : forall fs l c k, lookup fs (l ++ [c]) = None -> lookup (fs ++ [(l ++ [c], k)]) (l ++ [c]) = Some k.
Proof.
  intros fs l c k H. destruct (l ++ [c]) eqn:E; [destruct l; discriminate|].
  cbn [lookup] in *. apply assoc_app_new. exact H.
Qed.

(* ---------------------------------------------------------------- mkdirs_walk only adds entries *)
Definition extends (fs fs' : fsT) : Prop := forall l k, lookup fs l = Some k -> lookup fs' l = Some k.
Lemma extends_refl : forall fs, extends fs fs. Proof. intros fs l k H. exact H. Qed.
Lemma extends_trans : forall a b c, extends a b -> extends b c -> extends a c.
Proof. unfold extends. auto. Qed.

Lemma mkdirs_walk_extends : forall cs fs l r fs', mkdirs_walk fs l cs = (r, fs') -> extends fs fs'.
Proof.
  induction cs as [|c cs IH]; intros fs l r fs' H; cbn [mkdirs_walk] in H.
  - inversion H; subst. apply extends_refl.
  - destruct (is_dot c); [eapply IH; exact H|].
    destruct (is_dotdot c); [eapply IH; exact H|].
    destruct (lookup fs (l ++ [c])) as [[|]|] eqn:L.
    + inversion H; subst. apply extends_refl.
    + eapply IH; exact H.
    + eapply extends_trans; [|eapply IH; exact H]. intros q k Hq. apply lookup_app_some. exact Hq.
Qed.

(* walking through directories only looks at entries that exist: stable under extension *)
Lemma walk_dir_extends : forall cs fs fs' l l', extends fs fs' -> walk fs l cs = WDir l' -> walk fs' l cs = WDir l'.
Proof.
  induction cs as [|c cs IH]; intros fs fs' l l' E H; cbn [walk] in *; [exact H|].
  destruct (is_dot c); [eapply IH; eassumption|].
  destruct (is_dotdot c); [eapply IH; eassumption|].
  destruct (lookup fs (l ++ [c])) as [[|]|] eqn:L; try discriminate.
  - destruct cs; discriminate.
  - rewrite (E _ _ L). eapply IH; eassumption.
Qed.

Lemma walk_app_dir : forall cs cs' fs l l', walk fs l cs = WDir l' -> walk fs l (cs ++ cs') = walk fs l' cs'.
Proof.
  induction cs as [|c cs IH]; intros cs' fs l l' H; cbn [walk app] in *.
  - inversion H; subst. reflexivity.
  - destruct (is_dot c); [apply IH; exact H|].
    destruct (is_dotdot c); [apply IH; exact H|].
    destruct (lookup fs (l ++ [c])) as [[|]|] eqn:L; try discriminate.
    + destruct cs; discriminate.
    + apply IH. exact H.
Qed.

(* S1: after a successful mkdir -p the components lead to a directory *)
Lemma mkdirs_walk_ok : forall cs fs l l' fs', mkdirs_walk fs l cs = (MkOk l', fs') -> walk fs' l cs = WDir l'.
Proof.
  induction cs as [|c cs IH]; intros fs l l' fs' H; cbn [mkdirs_walk walk] in *.
  - inversion H; subst. reflexivity.
  - destruct (is_dot c); [eapply IH; exact H|].
    destruct (is_dotdot c); [eapply IH; exact H|].
    destruct (lookup fs (l ++ [c])) as [[|]|] eqn:L.
    + discriminate.
    + rewrite (mkdirs_walk_extends _ _ _ _ _ H _ _ L). eapply IH; exact H.
    + assert (L' : lookup (fs ++ [(l ++ [c], KDir)]) (l ++ [c]) = Some KDir) by (apply lookup_app_new; exact L).
      rewrite (mkdirs_walk_extends _ _ _ _ _ H _ _ L'). eapply IH; exact H.
Qed.

(* S2: blocked by a file: afterwards the components do not lead to a directory *)
Lemma mkdirs_walk_blocked : forall cs fs l fs', mkdirs_walk fs l cs = (MkBlocked, fs') ->
  forall l', walk fs' l cs <> WDir l'.
Proof.
  induction cs as [|c cs IH]; intros fs l fs' H l'; cbn [mkdirs_walk walk] in *.
  - discriminate.
  - destruct (is_dot c); [eapply IH; exact H|].
    destruct (is_dotdot c); [eapply IH; exact H|].
    destruct (lookup fs (l ++ [c])) as [[|]|] eqn:L.
    + inversion H; subst. rewrite L. destruct cs; discriminate.
    + rewrite (mkdirs_walk_extends _ _ _ _ _ H _ _ L). eapply IH; exact H.
    + assert (L' : lookup (fs ++ [(l ++ [c], KDir)]) (l ++ [c]) = Some KDir) by (apply lookup_app_new; exact L).
      rewrite (mkdirs_walk_extends _ _ _ _ _ H _ _ L'). eapply IH; exact H.
Qed.

(* S3: where the components already lead to a directory, mkdir -p changes nothing *)
Lemma mkdirs_walk_noop : forall cs fs l l', walk fs l cs = WDir l' -> mkdirs_walk fs l cs = (MkOk l', fs).
Proof.
  induction cs as [|c cs IH]; intros fs l l' H; cbn [mkdirs_walk walk] in *.
  - inversion H; subst. reflexivity.
  - destruct (is_dot c); [apply IH; exact H|].
    destruct (is_dotdot c); [apply IH; exact H|].
    destruct (lookup fs (l ++ [c])) as [[|]|] eqn:L; try discriminate.
    + destruct cs; discriminate.
    + apply IH. exact H.
Qed.

(* stepping the spec one component at a time *)
Lemma mkdirs_walk_app : forall cs cs' fs l, 
  mkdirs_walk fs l (cs ++ cs') =
  match mkdirs_walk fs l cs with
  | (MkOk l1, fs1) => mkdirs_walk fs1 l1 cs'
  | (MkBlocked, fs1) => (MkBlocked, fs1)
  end.
Proof.
  induction cs as [|c cs IH]; intros cs' fs l; cbn [mkdirs_walk app]; [reflexivity|].
  destruct (is_dot c); [apply IH|]. destruct (is_dotdot c); [apply IH|].
  destruct (lookup fs (l ++ [c])) as [[|]|]; [reflexivity|apply IH|apply IH].
Qed.
