From Coq Require Import ZArith List Bool Lia.
From Zix Require Import FaultSpec.
Import ListNotations.
Local Open Scope Z_scope.

(* the fault-free answer of the abstract container is always an allowed report *)
Lemma tol_exact dup s o :
  tol_step dup s o (fst (exact_step dup s o)) = Some (snd (exact_step dup s o)).
Proof.
  unfold tol_step, exact_step. destruct o as [k|k|k|].
  - destruct (negb dup && mem k s) eqn:E; cbn [fst snd r_status r_out]; now rewrite E.
  Show. Abort. (* DEBUG *)
