(* C05: a committed multi-part transaction leaves the ring in EXACTLY the state of a single write
   of the accepted bytes — every field and every buffer byte. *)
From Coq Require Import ZArith Znumtheory List Bool Lia ZifyBool.
From Zix Require Import RingSpec RingModel RingProofsNpot RingProofsBase RingProofs RingProofsSim
  RingProofsHist RingProofsTx.
Import ListNotations.
Local Open Scope Z_scope.

Ltac modc N x :=
  let H := fresh "Hm" in
  destruct (mod_3cases N x ltac:(lia) ltac:(lia)) as [[? H]|[[? H]|[? H]]]; rewrite ?H in *.

Lemma znth_app l1 l2 i :
  0 <= i -> znth (l1 ++ l2) i = if i <? len l1 then znth l1 i else znth l2 (i - len l1).
Proof.
  intros Hi. unfold znth, len. destruct (i <? Z.of_nat (length l1)) eqn:E.
  - rewrite app_nth1 by lia. reflexivity.
  - rewrite app_nth2 by lia. f_equal. lia.
Qed.

Lemma written_nil b N tw : 0 < N -> written b N tw [] b.
Proof.
  intros HN. split; [reflexivity|]. intros j Hj. change (len []) with 0.
  pose proof (Z.mod_pos_bound (j - tw) N HN).
  destruct ((j - tw) mod N <? 0) eqn:E; [lia|reflexivity].
Qed.

Lemma written_compose b N tw s1 s2 b1 b2 :
  0 < N -> len s1 + len s2 <= N ->
  written b N tw s1 b1 -> written b1 N ((tw + len s1) mod N) s2 b2 ->
  written b N tw (s1 ++ s2) b2.
Proof.
  intros HN Hl [L1 W1] [L2 W2]. split; [congruence|].
  intros j Hj. rewrite (W2 j Hj), (W1 j Hj). rewrite len_app.
  pose proof (len_nonneg s1). pose proof (len_nonneg s2).
  rewrite Zminus_mod_idemp_r.
  replace (j - (tw + len s1)) with (j - tw - len s1) by lia.
  rewrite <- (Zminus_mod_idemp_l (j - tw)).
  pose proof (Z.mod_pos_bound (j - tw) N HN) as Hd.
  set (d := (j - tw) mod N) in *.
  rewrite znth_app by lia.
  modc N (d - len s1); try lia.
  - (* d >= |s1| *)
    destruct (d - len s1 <? len s2) eqn:A; destruct (d <? len s1 + len s2) eqn:B; try lia;
      destruct (d <? len s1) eqn:C; try lia; reflexivity.
  - (* d < |s1| *)
    destruct (d - len s1 + N <? len s2) eqn:A; [lia|].
    destruct (d <? len s1 + len s2) eqn:B; [|lia].
    destruct (d <? len s1) eqn:C; [reflexivity|lia].
Qed.

Lemma written_unique b N tw s b1 b2 :
  len b = N -> written b N tw s b1 -> written b N tw s b2 -> b1 = b2.
Proof.
  intros HL [L1 W1] [L2 W2]. apply list_ext_znth; [congruence|].
  intros i Hi. rewrite W1, W2 by lia. reflexivity.
Qed.

Lemma ring_eq a b :
  write_head a = write_head b -> read_head a = read_head b -> size a = size b ->
  size_mask a = size_mask b -> buf a = buf b -> a = b.
Proof. destruct a, b; cbn; intros; subst; reflexivity. Qed.

(* the buffer after the amends = the buffer at begin with the accepted bytes stored at w, w+1, ... *)
Lemma amend_all_written cap parts : forall rg t q p room b0,
  R cap (rg, t) (mkS q (Some (p, room))) ->
  written b0 (size rg) (write_head rg) p (buf rg) ->
  let rg1 := fst (fst (amend_all rg t parts)) in
  written b0 (size rg) (write_head rg) (p ++ amend_accepted room (len p) parts) (buf rg1) /\
  size_mask rg1 = size_mask rg.
Proof.
  induction parts as [|b bs IH]; intros rg t q p room b0 HR W0; cbn [amend_all amend_accepted].
  - cbn [fst]. rewrite app_nil_r. split; [exact W0|reflexivity].
  - pose proof (R_amend _ _ _ _ _ _ b HR) as A.
    pose proof HR as (H & Ht & Hc & Ha & Htw & Hp & Hroom & Hlp & Hws). cbn [fst snd sq stx] in *.
    pose proof (inv_N rg H) as HN. pose proof (ws_range rg H) as WSr.
    destruct (len p + len b <=? room) eqn:E.
    + destruct A as (rg' & t' & Eq & HR' & Hr & Hw & Hs & Hm & Wr). rewrite Eq.
      rewrite Htw in Wr.
      pose proof (len_nonneg p). pose proof (len_nonneg b).
      assert (HNpos : 0 < size rg) by lia.
      assert (Hfit : len p + len b <= size rg) by lia.
      pose proof (written_compose b0 (size rg) (write_head rg) p b (buf rg) (buf rg') HNpos Hfit W0 Wr) as W1.
      rewrite <- Hs, <- Hw in W1.
      specialize (IH rg' t' q (p ++ b) room b0 HR' W1). cbv zeta in IH.
      destruct (amend_all rg' t' bs) as [[rg2 t2] ss]. cbn [fst] in *.
      rewrite len_app, <- app_assoc, Hs, Hw, Hm in IH. exact IH.
    + rewrite A. specialize (IH rg t q p room b0 HR W0). cbv zeta in IH.
      destruct (amend_all rg t bs) as [[rg2 t2] ss]. cbn [fst] in *. exact IH.
Qed.

Lemma ring_write_written rg src :
  inv rg -> len src <= ring_write_space rg ->
  written (buf rg) (size rg) (write_head rg) src (buf (fst (ring_write rg src))) /\
  size_mask (fst (ring_write rg src)) = size_mask rg.
Proof.
  intros H Hle.
  pose proof (R_of_inv rg (ring_begin_write rg) H (inv_w rg H)) as HR0.
  pose proof (R_begin _ _ _ _ HR0) as HB. pose proof (R_free _ _ _ _ HR0) as Hf.
  cbn [sq] in HB, Hf. rewrite Hf in HB.
  pose proof (R_amend _ _ _ _ _ _ src HB) as A. change (len []) with 0 in A.
  destruct (0 + len src <=? ring_write_space rg) eqn:E; [|lia].
  destruct A as (rg' & t' & Eq & _ & _ & _ & _ & Hm & Wr).
  unfold ring_write. rewrite Eq. cbn [negb Z.eqb ST_SUCCESS fst ring_commit_write].
  cbn [buf size_mask set_write_head]. split; [exact Wr|exact Hm].
Qed.

Lemma tx_state_eq rg parts :
  inv rg ->
  let acc := amend_accepted (ring_write_space rg) 0 parts in
  let rg1 := fst (fst (amend_all rg (ring_begin_write rg) parts)) in
  let t1 := snd (fst (amend_all rg (ring_begin_write rg) parts)) in
  fst (ring_commit_write rg1 t1) = fst (ring_write rg acc).
Proof.
  intros H acc rg1 t1.
  destruct (tx_lemma rg parts H) as (rg1' & t1' & Eq & I1 & _ & Hr1 & _ & _ & _ & I2 & _ &
                                     rgw & Eqw & _ & Hrw & Hww & Hsw).
  fold acc in Eqw.
  assert (rg1 = rg1') by (unfold rg1; now rewrite Eq).
  assert (t1 = t1') by (unfold t1; now rewrite Eq). subst rg1' t1'.
  pose proof (R_of_inv rg (ring_begin_write rg) H (inv_w rg H)) as HR0.
  pose proof (R_begin _ _ _ _ HR0) as HB. pose proof (R_free _ _ _ _ HR0) as Hf.
  cbn [sq] in HB, Hf. rewrite Hf in HB.
  pose proof (inv_N rg H) as HN.
  assert (HNpos : 0 < size rg) by lia.
  destruct (amend_all_written _ parts _ _ _ _ _ (buf rg) HB (written_nil (buf rg) (size rg) (write_head rg) HNpos)) as [W1 M1].
  change (len []) with 0 in W1. cbn [app] in W1. fold acc rg1 in W1, M1.
  pose proof (amend_accepted_fits (ring_write_space rg) 0 parts) as F. fold acc in F.
  pose proof (ws_range rg H) as WSr.
  assert (Hacc : len acc <= ring_write_space rg) by lia.
  destruct (ring_write_written rg acc H Hacc) as [Ww Mw].
  rewrite Eqw in *. cbn [fst] in *.
  apply ring_eq; cbn [ring_commit_write fst write_head read_head size size_mask buf set_write_head].
  - symmetry. exact Hww.
  - symmetry. exact Hrw.
  - symmetry. exact Hsw.
  - congruence.
  - exact (written_unique _ _ _ _ _ _ (inv_len rg H) W1 Ww).
Qed.
