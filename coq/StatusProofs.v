From Coq Require Import ZArith String Ascii List Bool Arith Lia.
From Zix Require Import StatusModel.
Import ListNotations.
Local Open Scope Z_scope.

Section Status.
  Variable enum_table : list (string * Z * string).
  Variable switch_table : list (string * string).
  Variable default_msg : string.
  Notation strerror := (strerror enum_table switch_table default_msg).

  Lemma literal_of_case_in n t s : literal_of_case n t = Some s -> In s (map snd t).
  Proof.
    induction t as [|[n' s'] t IH]; cbn; [discriminate|].
    destruct (String.eqb n n'); [intros [= <-]; now left | intros H; right; auto].
  Qed.

  Lemma strerror_range v : In (strerror v) (default_msg :: map snd switch_table).
  Proof.
    unfold StatusModel.strerror.
    destruct (name_of_value v enum_table) as [n|]; [|now left].
    destruct (literal_of_case n switch_table) as [s|] eqn:E; [|now left].
    right. eapply literal_of_case_in; eauto.
  Qed.

  Lemma name_of_value_none v t : ~ In v (map (fun e => snd (fst e)) t) -> name_of_value v t = None.
  Proof.
    induction t as [|[[n v'] d] t IH]; cbn; [reflexivity|].
    intros H. destruct (Z.eqb_spec v v') as [->|Hne]; [exfalso; apply H; now left|].
    apply IH. intros Hin. apply H. now right.
  Qed.

  Lemma strerror_outside v : ~ In v (defined_values enum_table) -> strerror v = default_msg.
  Proof. intros H. unfold StatusModel.strerror. now rewrite (name_of_value_none v _ H). Qed.

  Lemma strerror_all (P : string -> bool) :
    forallb P (default_msg :: map snd switch_table) = true -> forall v, P (strerror v) = true.
  Proof. intros H v. rewrite forallb_forall in H. apply H, strerror_range. Qed.

  (* a decidable check over the finite table implies the statement for all entries *)
  Lemma forall_enum (P : string * Z * string -> bool) :
    forallb P enum_table = true -> forall e, In e enum_table -> P e = true.
  Proof. intros H e. rewrite forallb_forall in H. apply H. Qed.
End Status.

Lemma nodup_str_NoDup l : nodup_str l = true -> NoDup l.
Proof.
  induction l as [|s l IH]; cbn; [constructor|].
  rewrite andb_true_iff, negb_true_iff. intros [H1 H2]. constructor; [|auto].
  intros Hin. assert (existsb (String.eqb s) l = true); [|congruence].
  apply existsb_exists. exists s. split; [assumption|apply String.eqb_refl].
Qed.

Lemma NoDup_map_inj {A B} (f : A -> B) l a b :
  NoDup (map f l) -> In a l -> In b l -> f a = f b -> a = b.
Proof.
  induction l as [|x l IH]; cbn; [tauto|].
  intros Hnd [->|Ha] [->|Hb] Hf; inversion Hnd as [|? ? Hni Hnd']; subst; auto.
  - exfalso. apply Hni. rewrite Hf. now apply in_map.
  - exfalso. apply Hni. rewrite <- Hf. now apply in_map.
Qed.

(* ---- string views *)
Lemma nth_skipn_firstn (mem : list Z) off len i :
  (i < len)%nat -> (off + len <= length mem)%nat ->
  nth i (firstn len (skipn off mem)) 0 = nth (off + i) mem 0.
Proof.
  intros Hi Hb. revert i len Hi Hb. revert mem.
  induction off as [|off IH]; intros mem i len Hi Hb.
  - cbn [skipn Nat.add]. revert i len Hi Hb. induction mem as [|x mem IHm]; intros i len Hi Hb.
    + cbn in Hb. lia.
    + destruct len; [lia|]. destruct i; cbn; [reflexivity|]. apply IHm; cbn in Hb; lia.
  - destruct mem as [|x mem]; [cbn in Hb; lia|]. cbn [skipn Nat.add nth]. apply IH; cbn in Hb; lia.
Qed.

Lemma slice_length mem v : in_bounds mem v -> length (slice mem v) = v_len v.
Proof.
  unfold in_bounds, slice. intros H. rewrite firstn_length, skipn_length. lia.
Qed.

Lemma bytes_eq_loop_spec mem pa pb n :
  bytes_eq_loop mem pa pb n = true <->
  (forall i, (i < n)%nat -> nth (pa + i) mem 0 = nth (pb + i) mem 0).
Proof.
  revert pa pb. induction n as [|n IH]; intros pa pb; cbn.
  - split; [intros _ i Hi; lia | reflexivity].
  - destruct (Z.eqb_spec (nth pa mem 0) (nth pb mem 0)) as [E|NE].
    + rewrite IH. split.
      * intros H i Hi. destruct i; [now rewrite !Nat.add_0_r|].
        specialize (H i ltac:(lia)). now rewrite !Nat.add_succ_r, <- !Nat.add_succ_l.
      * intros H i Hi. specialize (H (S i) ltac:(lia)). now rewrite !Nat.add_succ_r, <- !Nat.add_succ_l in H.
    + split; [discriminate|]. intros H. exfalso. apply NE. specialize (H 0%nat ltac:(lia)).
      now rewrite !Nat.add_0_r in H.
Qed.

Lemma list_eq_nth (l1 l2 : list Z) :
  length l1 = length l2 -> (forall i, (i < length l1)%nat -> nth i l1 0 = nth i l2 0) -> l1 = l2.
Proof.
  revert l2. induction l1 as [|x l1 IH]; intros [|y l2] Hl H; cbn in Hl; try discriminate; [reflexivity|].
  f_equal; [apply (H 0%nat); cbn; lia|]. apply IH; [lia|]. intros i Hi. apply (H (S i)). cbn. lia.
Qed.

Lemma sv_equals_iff mem a b :
  in_bounds mem a -> in_bounds mem b ->
  (sv_equals mem a b = true <-> v_len a = v_len b /\ slice mem a = slice mem b).
Proof.
  intros Ha Hb. unfold sv_equals.
  destruct (Nat.eqb_spec (v_len a) (v_len b)) as [El|Nl]; cbn [negb].
  2:{ split; [discriminate| intros [? _]; contradiction]. }
  destruct (Nat.eqb_spec (v_off a) (v_off b)) as [Eo|No].
  - split; [|reflexivity]. intros _. split; [assumption|]. unfold slice. now rewrite El, Eo.
  - rewrite bytes_eq_loop_spec. split.
    + intros H. split; [assumption|]. apply list_eq_nth.
      * rewrite !slice_length by assumption. assumption.
      * rewrite slice_length by assumption. intros i Hi. unfold slice.
        rewrite !nth_skipn_firstn; unfold in_bounds in *; try lia. apply H; lia.
    + intros [_ H] i Hi. unfold slice in H.
      rewrite <- (nth_skipn_firstn mem (v_off a) (v_len a)); unfold in_bounds in *; try lia.
      rewrite <- (nth_skipn_firstn mem (v_off b) (v_len b)); try lia. now rewrite H.
Qed.

Lemma sv_copy_exact mem v :
  in_bounds mem v ->
  exists c, sv_copy true mem v = Some c /\ length c = S (v_len v) /\
            firstn (v_len v) c = slice mem v /\ nth (v_len v) c 1 = 0.
Proof.
  intros H. exists (slice mem v ++ [0]). split; [reflexivity|].
  pose proof (slice_length mem v H) as L. split; [|split].
  - rewrite app_length, L. cbn. lia.
  - rewrite firstn_app, L, Nat.sub_diag. cbn. rewrite app_nil_r. rewrite <- L. apply firstn_all.
  - rewrite app_nth2; rewrite L; [|lia]. now rewrite Nat.sub_diag.
Qed.

Lemma sv_copy_fail mem v : sv_copy false mem v = None.
Proof. reflexivity. Qed.
