(* BTreeModel — executable model of /repo/src/btree.c (definitions only, no proofs).

   Follows the C code as it is now (after the fix: commits 78e86b7, 4c78417, f52714a, 627c158, 1a03612),
   function by function and branch by branch.  Conventions:
   * a page is [Leaf vals] or [Inode vals children]; the arrays hold exactly n_vals (+1) entries;
   * (L, I, H) = (ZIX_BTREE_LEAF_VALS, ZIX_BTREE_INODE_VALS, ZIX_BTREE_MAX_HEIGHT) are parameters;
   * elements are opaque; the tree comparator is Z.compare on [rank]; every comparator call is
     logged (the stored value that was passed as FIRST argument; the second is always the key);
   * [dflt] stands for whatever an out-of-range array read would return (never reached under Inv);
   * node allocation consults an oracle [list bool] ([] = every request succeeds);
   * loops over the depth are recursion on fuel (= height of the subtree);
   * iterators are index paths: [IAt [i0;..;ik]] is the ZixBTreeIter with level = k,
     indexes[j] = ij and nodes[j] = the page reached from the root through i0..i(j-1);
     [IEnd] is any iterator with level = 0 and nodes[0] = NULL.
   Not modelled: the uint16_t truncation of iterator indexes (needs L >= 65536, page >= 512 KiB);
   size_t wrap of the size field (needs 2^64 elements). *)
From Coq Require Import ZArith List Bool Arith.
From Zix Require Import BTreeSpec.
Import ListNotations.

Section BTreeModel.
  Variable elt : Type.
  Variable rank : elt -> Z.
  Variable dflt : elt.
  Variables L I : nat.
  Variable H : nat.                 (* ZIX_BTREE_MAX_HEIGHT *)

  Inductive node := Leaf (vs : list elt) | Inode (vs : list elt) (cs : list node).

  Record tree := mkTree { root : node; size : Z }.

  Definition dnode : node := Leaf [].
  Definition empty_tree : tree := mkTree (Leaf []) 0%Z.         (* zix_btree_new *)

  (* t->cmp(stored, key, t->cmp_data), with the key fixed *)
  Definition cmpk (key : elt) (stored : elt) : comparison := Z.compare (rank stored) (rank key).

  (* ---- page accessors ---- *)
  Definition vals (n : node) : list elt := match n with Leaf vs => vs | Inode vs _ => vs end.
  Definition children (n : node) : list node := match n with Leaf _ => [] | Inode _ cs => cs end.
  Definition n_vals (n : node) : nat := length (vals n).
  Definition is_leaf (n : node) : bool := match n with Leaf _ => true | Inode _ _ => false end.
  Definition child (n : node) (i : nat) : node := nth i (children n) dnode.
  Definition max_vals (n : node) : nat := if is_leaf n then L else I.
  Definition min_vals (n : node) : nat := (max_vals n + 1) / 2 - 1.
  Definition can_remove_from (n : node) : bool := min_vals n <? n_vals n.
  Definition is_full (n : node) : bool := n_vals n =? max_vals n.

  Fixpoint height (n : node) : nat :=
    match n with
    | Leaf _ => 1
    | Inode _ cs => S (match cs with c :: _ => height c | [] => 0 end)
    end.

  (* in-order listing *)
  Fixpoint inter (cs : list (list elt)) (vs : list elt) : list elt :=
    match cs with
    | [] => []
    | c :: cs' => match vs with
                  | [] => c
                  | v :: vs' => c ++ v :: inter cs' vs'
                  end
    end.
  Fixpoint elements (n : node) : list elt :=
    match n with
    | Leaf vs => vs
    | Inode vs cs => inter (map elements cs) vs
    end.

  (* ---- array helpers (zix_btree_ainsert / zix_btree_aerase / a[i] = e) ---- *)
  Definition ainsert {A} (l : list A) (i : nat) (e : A) : list A := firstn i l ++ e :: skipn i l.
  Definition aerase {A} (l : list A) (i : nat) : list A := firstn i l ++ skipn (S i) l.
  Definition aset {A} (l : list A) (i : nat) (e : A) : list A := firstn i l ++ e :: skipn (S i) l.
  Definition set_child (n : node) (i : nat) (c : node) : node :=
    match n with Leaf _ => n | Inode vs cs => Inode vs (aset cs i c) end.

  (* ---- allocation oracle ---- *)
  Definition alloc (o : list bool) : bool * list bool :=
    match o with [] => (true, []) | b :: o' => (b, o') end.

  (* ---- zix_btree_find_value: binary search, stops at the first equal probe ---- *)
  Definition tick (v : elt) (r : nat * bool * list elt) : nat * bool * list elt :=
    let '(i, eq, lg) := r in (i, eq, v :: lg).

  Fixpoint fv_loop (fuel : nat) (c : elt -> comparison) (vs : list elt) (first count : nat)
    : nat * bool * list elt :=
    match fuel with
    | O => (first, false, [])
    | S f =>
      if count =? 0 then (first, false, []) else
      let half := count / 2 in
      let i := first + half in
      let v := nth i vs dflt in
      match c v with
      | Eq => (i, true, [v])
      | Lt => tick v (fv_loop f c vs (first + half + 1) (count - (half + 1)))
      | Gt => tick v (fv_loop f c vs first half)
      end
    end.
  Definition find_value (c : elt -> comparison) (vs : list elt) : nat * bool * list elt :=
    fv_loop (length vs) c vs 0 (length vs).

  (* ---- zix_btree_find_pattern: binary search for the leftmost match ---- *)
  Fixpoint fp_loop (fuel : nat) (c : elt -> comparison) (vs : list elt) (first count : nat) (equal : bool)
    : nat * bool * list elt :=
    match fuel with
    | O => (first, equal, [])
    | S f =>
      if count =? 0 then (first, equal, []) else
      let half := count / 2 in
      let i := first + half in
      let v := nth i vs dflt in
      match c v with
      | Eq => tick v (fp_loop f c vs first half true)
      | Lt => tick v (fp_loop f c vs (first + half + 1) (count - (half + 1)) equal)
      | Gt => tick v (fp_loop f c vs first half equal)
      end
    end.
  Definition find_pattern (c : elt -> comparison) (vs : list elt) : nat * bool * list elt :=
    fp_loop (length vs) c vs 0 (length vs) false.

  (* ---- zix_btree_split_child ---- *)
  (* the two halves and the middle value of a full page *)
  Definition split_node (lhs : node) : node * elt * node :=
    let mx := max_vals lhs in
    let k := n_vals lhs / 2 in           (* lhs->n_vals /= 2 *)
    let rn := mx - k - 1 in              (* rhs->n_vals *)
    match lhs with
    | Leaf vs => (Leaf (firstn k vs), nth k vs dflt, Leaf (firstn rn (skipn (k + 1) vs)))
    | Inode vs cs =>
      (Inode (firstn k vs) (firstn (k + 1) cs), nth k vs dflt,
       Inode (firstn rn (skipn (k + 1) vs)) (firstn (rn + 1) (skipn (k + 1) cs)))
    end.
  (* n: parent, i: index of the full child; allocation already granted *)
  Definition split_child (n : node) (i : nat) : node :=
    match n with
    | Leaf _ => n
    | Inode vs cs =>
      let '(l, m, r) := split_node (nth i cs dnode) in
      Inode (ainsert vs i m) (ainsert (aset cs i l) (i + 1) r)
    end.

  (* ---- zix_btree_insert ---- *)
  (* result: status, new subtree, rest of the oracle, comparator log *)
  Fixpoint insert_down (fuel : nat) (o : list bool) (n : node) (e : elt)
    : status * node * list bool * list elt :=
    match fuel with
    | O => (OUT_OF_FUEL, n, o, [])
    | S f =>
      match n with
      | Leaf vs =>
        let '(i, eq, lg) := find_value (cmpk e) vs in
        if eq then (EXISTS, n, o, lg) else (SUCCESS, Leaf (ainsert vs i e), o, lg)
      | Inode vs cs =>
        let '(i, eq, lg) := find_value (cmpk e) vs in
        if eq then (EXISTS, n, o, lg) else
        let c := nth i cs dnode in
        if is_full c then
          let '(ok, o1) := alloc o in
          if negb ok then (NO_MEM, n, o1, lg) else
          let n1 := split_child n i in
          let m := nth i (vals n1) dflt in
          match cmpk e m with
          | Eq => (EXISTS, n1, o1, lg ++ [m])
          | Lt => (* split value is less than the new value: move right *)
            let '(st, c', o2, lg2) := insert_down f o1 (child n1 (i + 1)) e in
            (st, set_child n1 (i + 1) c', o2, lg ++ m :: lg2)
          | Gt =>
            let '(st, c', o2, lg2) := insert_down f o1 (child n1 i) e in
            (st, set_child n1 i c', o2, lg ++ m :: lg2)
          end
        else
          let '(st, c', o2, lg2) := insert_down f o c e in
          (st, Inode vs (aset cs i c'), o2, lg ++ lg2)
      end
    end.

  (* zix_btree_grow_up: first the height is measured along the leftmost path ("height = 1; for (n = root; !n->is_leaf;
     n = child(n, 0)) ++height") and growth beyond ZIX_BTREE_MAX_HEIGHT is refused with OVERFLOW before any request is
     made (fix 1a03612); then the new root is allocated and the old root split (second allocation) *)
  Definition grow_up (o : list bool) (r : node) : status * node * list bool :=
    if H <=? height r then (OVERFLOW, r, o) else
    let '(ok1, o1) := alloc o in
    if negb ok1 then (NO_MEM, r, o1) else
    let '(ok2, o2) := alloc o1 in
    if negb ok2 then (NO_MEM, r, o2) else
    (SUCCESS, split_child (Inode [] [r]) 0, o2).

  Definition insert (o : list bool) (t : tree) (e : elt) : status * tree * list bool * list elt :=
    let '(st0, r0, o0) :=
      if is_full (root t) then grow_up o (root t) else (SUCCESS, root t, o) in
    match st0 with
    | SUCCESS =>
      let '(st, r1, o1, lg) := insert_down (height r0) o0 r0 e in
      (st, mkTree r1 (match st with SUCCESS => Z.succ (size t) | _ => size t end), o1, lg)
    | _ => (st0, t, o0, [])
    end.

  (* ---- iterators ---- *)
  Inductive iter := IEnd | IAt (p : list nat).

  Fixpoint subnode (n : node) (p : list nat) : node :=
    match p with [] => n | i :: q => subnode (child n i) q end.

  (* the frames pushed by "move down and left until we hit a leaf" *)
  Fixpoint leftmost (n : node) : list nat :=
    match n with
    | Leaf _ => [0]
    | Inode _ cs => 0 :: match cs with c :: _ => leftmost c | [] => [] end
    end.

  Definition iter_get (r : node) (it : iter) : elt :=
    match it with
    | IEnd => dflt
    | IAt p => nth (last p 0) (vals (subnode r (removelast p))) dflt
    end.

  Definition btree_begin (t : tree) : iter :=
    if (0 <? size t)%Z then IAt (leftmost (root t)) else IEnd.

  Definition iter_is_end (it : iter) : bool := match it with IEnd => true | IAt _ => false end.

  Definition iter_equals (a b : iter) : bool :=
    match a, b with
    | IEnd, IEnd => true
    | IAt p, IAt q => (length p =? length q) && forallb (fun x => fst x =? snd x) (combine p q)
    | _, _ => false
    end.

  (* while (indexes[level] >= nodes[level]->n_vals) { level == 0 ? end : pop }  (rp: deepest first) *)
  Fixpoint climb (r : node) (rp : list nat) : iter :=
    match rp with
    | [] => IEnd
    | i :: rest =>
      if n_vals (subnode r (rev rest)) <=? i
      then match rest with [] => IEnd | _ => climb r rest end
      else IAt (rev rp)
    end.

  Definition iter_increment (r : node) (it : iter) : status * iter :=
    match it with
    | IEnd => (SUCCESS, IEnd)                       (* excluded by assert(!is_end) *)
    | IAt p =>
      let pre := removelast p in
      let idx := S (last p 0) in                   (* ++indexes[level] *)
      let nd := subnode r pre in
      if is_leaf nd then
        match climb r (idx :: rev pre) with
        | IEnd => (REACHED_END, IEnd)
        | it' => (SUCCESS, it')
        end
      else (SUCCESS, IAt (pre ++ idx :: leftmost (child nd idx)))
    end.

  (* ---- zix_btree_find ---- *)
  Fixpoint find_down (fuel : nat) (n : node) (e : elt) : option (list nat) * list elt :=
    match fuel with
    | O => (None, [])
    | S f =>
      match n with
      | Leaf vs =>
        let '(i, eq, lg) := find_value (cmpk e) vs in
        (if eq then Some [i] else None, lg)
      | Inode vs cs =>
        let '(i, eq, lg) := find_value (cmpk e) vs in
        if eq then (Some [i], lg) else
        let '(r, lg2) := find_down f (nth i cs dnode) e in
        (match r with Some p => Some (i :: p) | None => None end, lg ++ lg2)
      end
    end.
  Definition find (t : tree) (e : elt) : status * iter * list elt :=
    match find_down (height (root t)) (root t) e with
    | (Some p, lg) => (SUCCESS, IAt p, lg)
    | (None, lg) => (NOT_FOUND, IEnd, lg)
    end.

  (* ---- zix_btree_lower_bound (ck v = compare_key(v, key)) ---- *)
  Fixpoint lb_down (fuel : nat) (n : node) (ck : elt -> comparison) : list nat * bool * list elt :=
    match fuel with
    | O => ([], false, [])
    | S f =>
      match n with
      | Leaf vs => let '(i, eq, lg) := find_pattern ck vs in ([i], eq, lg)
      | Inode vs cs =>
        let '(i, _, lg) := find_pattern ck vs in
        let '(fr, eq, lg2) := lb_down f (nth i cs dnode) ck in
        (i :: fr, eq, lg ++ lg2)
      end
    end.
  (* while (indexes[level] == nodes[level]->n_vals) { level == 0 ? end : pop } *)
  Fixpoint lb_climb (r : node) (rp : list nat) : iter :=
    match rp with
    | [] => IEnd
    | i :: rest =>
      if i =? n_vals (subnode r (rev rest))
      then match rest with [] => IEnd | _ => lb_climb r rest end
      else IAt (rev rp)
    end.
  Definition lower_bound (t : tree) (ck : elt -> comparison) : iter * list elt :=
    let '(fr, eq, lg) := lb_down (height (root t)) (root t) ck in
    (if eq then IAt fr else lb_climb (root t) (rev fr), lg).

  (* ---- rotations and merge (parent n, child index i) ---- *)
  (* enlarge child i by stealing from its right sibling *)
  Definition rotate_left (n : node) (i : nat) : node :=
    match n with
    | Leaf _ => n
    | Inode vs cs =>
      let pv := nth i vs dflt in
      match nth i cs dnode, nth (S i) cs dnode with
      | Leaf lv, Leaf rv =>
        Inode (aset vs i (nth 0 rv dflt))
              (aset (aset cs i (Leaf (lv ++ [pv]))) (S i) (Leaf (aerase rv 0)))
      | Inode lv lc, Inode rv rc =>
        Inode (aset vs i (nth 0 rv dflt))
              (aset (aset cs i (Inode (lv ++ [pv]) (lc ++ [nth 0 rc dnode]))) (S i)
                    (Inode (aerase rv 0) (aerase rc 0)))
      | _, _ => n                                  (* assert(lhs->is_leaf == rhs->is_leaf) *)
      end
    end.

  (* enlarge child i by stealing from its left sibling *)
  Definition rotate_right (n : node) (i : nat) : node :=
    match n with
    | Leaf _ => n
    | Inode vs cs =>
      let pv := nth (i - 1) vs dflt in
      match nth (i - 1) cs dnode, nth i cs dnode with
      | Leaf lv, Leaf rv =>
        let ln := length lv - 1 in                 (* --lhs->n_vals *)
        Inode (aset vs (i - 1) (nth ln lv dflt))
              (aset (aset cs (i - 1) (Leaf (firstn ln lv))) i (Leaf (pv :: rv)))
      | Inode lv lc, Inode rv rc =>
        let ln := length lv - 1 in
        Inode (aset vs (i - 1) (nth ln lv dflt))
              (aset (aset cs (i - 1) (Inode (firstn ln lv) (firstn (ln + 1) lc))) i
                    (Inode (pv :: rv) (nth (length lv) lc dnode :: rc)))
      | _, _ => n
      end
    end.

  (* move n[i] down and merge children i and i+1; the result is the parent page (possibly left with
     no value: the caller replaces it by its only child, see [plug]) *)
  Definition merge (n : node) (i : nat) : node :=
    match n with
    | Leaf _ => n
    | Inode vs cs =>
      let pv := nth i vs dflt in
      let m :=
        match nth i cs dnode, nth (S i) cs dnode with
        | Leaf lv, Leaf rv => Leaf (lv ++ pv :: rv)
        | Inode lv lc, Inode rv rc => Inode (lv ++ pv :: rv) (lc ++ rc)
        | l, _ => l
        end in
      Inode (aerase vs i) (aerase (aset cs i m) (S i))
    end.

  (* put the rebuilt child c back under n1 = merge n i; "if (--n->n_vals == 0) t->root = lhs" *)
  Definition plug (n1 : node) (i : nat) (c : node) : node :=
    match n1 with
    | Leaf _ => n1
    | Inode [] _ => c
    | Inode vs cs => Inode vs (aset cs i c)
    end.

  (* ---- zix_btree_remove_min / remove_max ---- *)
  Fixpoint remove_min (fuel : nat) (n : node) : elt * node :=
    match fuel with
    | O => (dflt, n)
    | S f =>
      match n with
      | Leaf vs => (nth 0 vs dflt, Leaf (aerase vs 0))
      | Inode vs cs =>
        if can_remove_from (nth 0 cs dnode) then
          let '(m, c') := remove_min f (nth 0 cs dnode) in (m, Inode vs (aset cs 0 c'))
        else if can_remove_from (nth 1 cs dnode) then
          let n1 := rotate_left n 0 in
          let '(m, c') := remove_min f (child n1 0) in (m, set_child n1 0 c')
        else
          let n1 := merge n 0 in
          let '(m, c') := remove_min f (child n1 0) in (m, plug n1 0 c')
      end
    end.

  Fixpoint remove_max (fuel : nat) (n : node) : elt * node :=
    match fuel with
    | O => (dflt, n)
    | S f =>
      match n with
      | Leaf vs => (nth (length vs - 1) vs dflt, Leaf (firstn (length vs - 1) vs))
      | Inode vs cs =>
        let y := length vs - 1 in
        let z := length vs in
        if can_remove_from (nth z cs dnode) then
          let '(m, c') := remove_max f (nth z cs dnode) in (m, Inode vs (aset cs z c'))
        else if can_remove_from (nth y cs dnode) then
          let n1 := rotate_right n z in
          let '(m, c') := remove_max f (child n1 z) in (m, set_child n1 z c')
        else
          let n1 := merge n y in
          let '(m, c') := remove_max f (child n1 y) in (m, plug n1 y c')
      end
    end.

  (* ---- zix_btree_fatten_child: returns the new parent and the (possibly decremented) frame index,
     which is also the index of the child to descend into ---- *)
  Definition fatten_child (n : node) (i : nat) : node * nat :=
    if (0 <? i) && can_remove_from (child n (i - 1)) then (rotate_right n i, i)
    else if (i <? n_vals n) && can_remove_from (child n (i + 1)) then (rotate_left n i, i)
    else if i =? n_vals n then (merge n (i - 1), i - 1)
    else (merge n i, i).

  (* ---- zix_btree_replace_value: None = NOT_FOUND (both neighbours minimal) ---- *)
  Definition replace_value (fuel : nat) (n : node) (i : nat) : option (elt * node) :=
    let lhs := child n i in
    let rhs := child n (i + 1) in
    if negb (can_remove_from lhs) && negb (can_remove_from rhs) then None else
    let out := nth i (vals n) dflt in
    let use_max := if n_vals rhs <? n_vals lhs then true
                   else if n_vals lhs <? n_vals rhs then false
                   else Nat.odd i in
    match n with
    | Leaf _ => None
    | Inode vs cs =>
      if use_max then
        let '(m, c') := remove_max fuel lhs in Some (out, Inode (aset vs i m) (aset cs i c'))
      else
        let '(m, c') := remove_min fuel rhs in Some (out, Inode (aset vs i m) (aset cs (i + 1) c'))
    end.

  (* ---- zix_btree_remove ---- *)
  (* what happens to the iterator whose frames were set on the way down *)
  Inductive iact := AReset (* *ti = end_iter *) | AKeep | AIncr (* zix_btree_iter_increment(ti) *).

  Record rm_res := mkRm {
    rr_st : status; rr_out : option elt; rr_node : node;
    rr_frames : list nat; rr_act : iact; rr_log : list elt }.

  Fixpoint remove_down (fuel : nat) (n : node) (e : elt) : rm_res :=
    match fuel with
    | O => mkRm OUT_OF_FUEL None n [] AReset []
    | S f =>
      match n with
      | Leaf vs =>
        let '(i, eq, lg) := find_value (cmpk e) vs in
        if negb eq then mkRm NOT_FOUND None n [] AReset lg else
        let vs' := aerase vs i in
        let out := Some (nth i vs dflt) in
        if length vs' =? 0 then mkRm SUCCESS out (Leaf vs') [] AReset lg
        else if i =? length vs' then mkRm SUCCESS out (Leaf vs') [i - 1] AIncr lg
        else mkRm SUCCESS out (Leaf vs') [i] AKeep lg
      | Inode vs cs =>
        let '(i, eq, lg) := find_value (cmpk e) vs in
        if eq then
          match replace_value f n i with
          | Some (out, n') =>
            let v' := nth i (vals n') dflt in
            (* t->cmp(n->vals[i], e) < 0: replaced with the predecessor, advance *)
            mkRm SUCCESS (Some out) n' [i]
                 (match cmpk e v' with Lt => AIncr | _ => AKeep end) (lg ++ [v'])
          | None =>
            let n1 := merge n i in
            let r := remove_down f (child n1 i) e in
            mkRm (rr_st r) (rr_out r) (plug n1 i (rr_node r)) (i :: rr_frames r) (rr_act r)
                 (lg ++ rr_log r)
          end
        else if can_remove_from (nth i cs dnode) then
          let r := remove_down f (nth i cs dnode) e in
          mkRm (rr_st r) (rr_out r) (Inode vs (aset cs i (rr_node r))) (i :: rr_frames r) (rr_act r)
               (lg ++ rr_log r)
        else
          let '(n1, i') := fatten_child n i in
          let r := remove_down f (child n1 i') e in
          let n2 := plug n1 i' (rr_node r) in
          mkRm (rr_st r) (rr_out r) n2 (i' :: rr_frames r) (rr_act r) (lg ++ rr_log r)
      end
    end.

  Definition remove (t : tree) (e : elt) : status * option elt * tree * iter * list elt :=
    let n := root t in
    let n0 :=
      if negb (is_leaf n) && (n_vals n =? 1) && negb (can_remove_from (child n 0))
         && negb (can_remove_from (child n 1))
      then child (merge n 0) 0     (* root had two minimal children: merged page is the new root *)
      else n in
    let r := remove_down (height n0) n0 e in
    let it := match rr_act r with
              | AReset => IEnd
              | AKeep => IAt (rr_frames r)
              | AIncr => snd (iter_increment (rr_node r) (IAt (rr_frames r)))
              end in
    (rr_st r, rr_out r,
     mkTree (rr_node r) (match rr_st r with SUCCESS => Z.pred (size t) | _ => size t end),
     it, rr_log r).

  (* ---- zix_btree_clear / zix_btree_free: order of the destroy calls ---- *)
  Fixpoint destroy_log (n : node) : list elt :=
    match n with
    | Leaf vs => vs
    | Inode vs cs => concat (map destroy_log cs) ++ vs
    end.
  Definition clear (t : tree) (with_destroy : bool) : tree * list elt :=
    (empty_tree, if with_destroy then destroy_log (root t) else []).

  Definition btree_size (t : tree) : Z := size t.
End BTreeModel.
