(* C06 — abstract specification of ZixTree: a list of (id, data) sorted non-strictly by the rank
   of the data.  Nothing here mentions trees, balance or rotations.

   * data  = (key, tag); the comparator is Z.compare on [rank data] (rank is a section variable, so
     nothing ever looks at the tag);
   * id    = identity of the stored element (the serial number of the insert call that stored it);
     an iterator is an id;
   * insert is STABLE: a new element goes after all stored elements that compare equal to it. *)
From Coq Require Import ZArith List Bool.
Import ListNotations.
Local Open Scope Z_scope.

Definition elt := (Z * Z)%type.    (* key, tag *)
Definition item := (Z * elt)%type. (* id, data *)

Inductive status := SUCCESS | EXISTS | NO_MEM | NOT_FOUND | BAD_ARG.

(* allocation oracle: one answer per request, [] = every request succeeds *)
Definition alloc (o : list bool) : bool * list bool :=
  match o with [] => (true, []) | b :: o' => (b, o') end.

(* operations of a history; the element stored by the k-th OIns of a history has identity k *)
Inductive op := OIns (x : elt) | ORem (id : Z) | OFind (x : elt).

(* Fibonacci numbers: an AVL tree of height h has at least fib (h+2) - 1 nodes, i.e.
   h <= log_phi (n+2) - 0.33 ~ 1.44 log2 (n+2) *)
Fixpoint fib (n : nat) : nat :=
  match n with
  | O => O
  | S m => match m with O => 1%nat | S k => (fib k + fib m)%nat end
  end.

Section Spec.
Variable rank : elt -> Z.

Definition irank (y : item) : Z := rank (snd y).

(* sorted, non-strictly *)
Fixpoint sorted (l : list item) : Prop :=
  match l with
  | [] => True
  | x :: l' => Forall (fun y => irank x <= irank y) l' /\ sorted l'
  end.

(* stable sorted insertion: before the first strictly greater element *)
Fixpoint sins (x : item) (l : list item) : list item :=
  match l with
  | [] => [x]
  | y :: l' => if irank x <? irank y then x :: y :: l' else y :: sins x l'
  end.

(* an element comparing equal to x (the first one) *)
Definition sfind (x : elt) (l : list item) : option item :=
  find (fun y => irank y =? rank x) l.

(* removal by identity *)
Definition sremove (id : Z) (l : list item) : list item :=
  filter (fun y => negb (fst y =? id)) l.

Definition slookup (id : Z) (l : list item) : option item :=
  find (fun y => fst y =? id) l.

(* iteration: first / last / neighbours of an id in the listing *)
Definition sbegin (l : list item) : option Z := option_map fst (hd_error l).
Definition srbegin (l : list item) : option Z := option_map fst (hd_error (rev l)).

Fixpoint succ_in (id : Z) (l : list Z) : option Z :=
  match l with
  | [] => None
  | a :: l' => if a =? id then hd_error l' else succ_in id l'
  end.

Definition snext (id : Z) (l : list item) : option Z := succ_in id (map fst l).
Definition sprev (id : Z) (l : list item) : option Z := succ_in id (rev (map fst l)).

(* the abstract container: listing + serial number of the next insert call *)
Definition sstate := (list item * Z)%type.

Definition sp_insert (dup : bool) (x : elt) (o : list bool) (s : sstate)
  : status * option Z * sstate * list bool :=
  let '(l, n) := s in
  match (if dup then None else sfind x l) with
  | Some e => (EXISTS, Some (fst e), (l, n + 1), o)
  | None =>
      let '(ok, o') := alloc o in
      if ok then (SUCCESS, Some n, (sins (n, x) l, n + 1), o')
      else (NO_MEM, None, (l, n + 1), o')
  end.

(* returns the status, the new state and the destroy log *)
Definition sp_remove (id : Z) (s : sstate) : status * sstate * list item :=
  let '(l, n) := s in
  match slookup id l with
  | Some e => (SUCCESS, (sremove id l, n), [e])
  | None => (BAD_ARG, s, [])
  end.

Definition sp_size (s : sstate) : Z := Z.of_nat (length (fst s)).

(* histories: the listing after a history (find does not change it) *)
Fixpoint srun (dup : bool) (ops : list op) (o : list bool) (s : sstate) : sstate :=
  match ops with
  | [] => s
  | OIns x :: ops' => let '(_, _, s', o') := sp_insert dup x o s in srun dup ops' o' s'
  | ORem id :: ops' => let '(_, s', _) := sp_remove id s in srun dup ops' o s'
  | OFind _ :: ops' => srun dup ops' o s
  end.

End Spec.
