(* BTreeAllocModel — the B-tree model of BTreeModel.v INSTRUMENTED with page identities (C08 for the B-tree).

   Same algorithm, branch for branch; in addition every page carries the id of its block and every request to /
   release through the caller's allocator is an event of the allocator state [ast] of AllocModel.v (oracle + next
   serial + event log).  Ids are request serial numbers (a refused request consumes a serial), exactly as the
   tracking allocators of the C drivers number them: the tree struct is the first request, the root leaf the second.
   All B-tree blocks are obtained with zix_aligned_alloc and released with zix_aligned_free ([Aligned]).

   Releases are emitted where the C code performs them and in its order:
     zix_btree_new        tree struct released if the root page cannot be allocated
     zix_btree_grow_up    new root released when the split of the old root fails
     zix_btree_merge      "if (--n->n_vals == 0) { t->root = lhs; free(n); }  free(rhs);"
     zix_btree_clear      zix_btree_free_children: for each child: its subtree, then the child page
     zix_btree_free       clear, then the root page, then the tree struct
   Erasing the ids gives BTreeModel (BTreeAllocProofs.v), so the C01/C02 theorems transfer.
   Definitions only. *)
From Coq Require Import ZArith List Bool Arith.
From Zix Require Import BTreeSpec BTreeModel FaultSpec AllocModel.
Import ListNotations.

Section BTreeAllocModel.
  Variable elt : Type.
  Variable rank : elt -> Z.
  Variable dflt : elt.
  Variables L I : nat.
  Variable H : nat.                 (* ZIX_BTREE_MAX_HEIGHT *)

  Inductive anode := ALeaf (id : nat) (vs : list elt) | AInode (id : nat) (vs : list elt) (cs : list anode).

  Record atree := mkATree { a_self : nat; a_root : anode; a_size : Z }.

  Definition adnode : anode := ALeaf 0 [].

  Definition aid (n : anode) : nat := match n with ALeaf id _ => id | AInode id _ _ => id end.
  Definition avals (n : anode) : list elt := match n with ALeaf _ vs => vs | AInode _ vs _ => vs end.
  Definition achildren (n : anode) : list anode := match n with ALeaf _ _ => [] | AInode _ _ cs => cs end.
  Definition an_vals (n : anode) : nat := length (avals n).
  Definition ais_leaf (n : anode) : bool := match n with ALeaf _ _ => true | AInode _ _ _ => false end.
  Definition achild (n : anode) (i : nat) : anode := nth i (achildren n) adnode.
  Definition amax_vals (n : anode) : nat := if ais_leaf n then L else I.
  Definition amin_vals (n : anode) : nat := (amax_vals n + 1) / 2 - 1.
  Definition acan_remove_from (n : anode) : bool := amin_vals n <? an_vals n.
  Definition ais_full (n : anode) : bool := an_vals n =? amax_vals n.

  Fixpoint aheight (n : anode) : nat :=
    match n with
    | ALeaf _ _ => 1
    | AInode _ _ cs => S (match cs with c :: _ => aheight c | [] => 0 end)
    end.

  (* forgetting the page identities *)
  Fixpoint erase (n : anode) : node elt :=
    match n with
    | ALeaf _ vs => Leaf elt vs
    | AInode _ vs cs => Inode elt vs (map erase cs)
    end.
  Definition erase_tree (t : atree) : tree elt := mkTree elt (erase (a_root t)) (a_size t).

  (* the blocks of a subtree *)
  Fixpoint pages (n : anode) : list nat :=
    match n with
    | ALeaf id _ => [id]
    | AInode id _ cs => id :: concat (map pages cs)
    end.

  Definition aset_child (n : anode) (i : nat) (c : anode) : anode :=
    match n with ALeaf _ _ => n | AInode id vs cs => AInode id vs (aset cs i c) end.

  (* ---- zix_btree_split_child: rid = the block just obtained for the right half ---- *)
  Definition asplit_node (rid : nat) (lhs : anode) : anode * elt * anode :=
    let mx := amax_vals lhs in
    let k := an_vals lhs / 2 in
    let rn := mx - k - 1 in
    match lhs with
    | ALeaf id vs => (ALeaf id (firstn k vs), nth k vs dflt, ALeaf rid (firstn rn (skipn (k + 1) vs)))
    | AInode id vs cs =>
      (AInode id (firstn k vs) (firstn (k + 1) cs), nth k vs dflt,
       AInode rid (firstn rn (skipn (k + 1) vs)) (firstn (rn + 1) (skipn (k + 1) cs)))
    end.
  Definition asplit_child (rid : nat) (n : anode) (i : nat) : anode :=
    match n with
    | ALeaf _ _ => n
    | AInode id vs cs =>
      let '(l, m, r) := asplit_node rid (nth i cs adnode) in
      AInode id (ainsert vs i m) (ainsert (aset cs i l) (i + 1) r)
    end.

  (* ---- zix_btree_insert ---- *)
  Fixpoint ainsert_down (fuel : nat) (s : ast) (n : anode) (e : elt) : BTreeSpec.status * anode * ast * list elt :=
    match fuel with
    | O => (OUT_OF_FUEL, n, s, [])
    | S f =>
      match n with
      | ALeaf id vs =>
        let '(i, eq, lg) := find_value elt dflt (cmpk elt rank e) vs in
        if eq then (EXISTS, n, s, lg) else (SUCCESS, ALeaf id (ainsert vs i e), s, lg)
      | AInode id vs cs =>
        let '(i, eq, lg) := find_value elt dflt (cmpk elt rank e) vs in
        if eq then (EXISTS, n, s, lg) else
        let c := nth i cs adnode in
        if ais_full c then
          match alloc Aligned s with
          | (None, s1) => (NO_MEM, n, s1, lg)
          | (Some rid, s1) =>
            let n1 := asplit_child rid n i in
            let m := nth i (avals n1) dflt in
            match cmpk elt rank e m with
            | Eq => (EXISTS, n1, s1, lg ++ [m])
            | Lt =>
              let '(st, c', s2, lg2) := ainsert_down f s1 (achild n1 (i + 1)) e in
              (st, aset_child n1 (i + 1) c', s2, lg ++ m :: lg2)
            | Gt =>
              let '(st, c', s2, lg2) := ainsert_down f s1 (achild n1 i) e in
              (st, aset_child n1 i c', s2, lg ++ m :: lg2)
            end
          end
        else
          let '(st, c', s2, lg2) := ainsert_down f s c e in
          (st, AInode id vs (aset cs i c'), s2, lg ++ lg2)
      end
    end.

  (* zix_btree_grow_up: height check first (fix 1a03612), then the new root page, then the right half of the old root; the new root is released again when
     the second request is refused *)
  Definition agrow_up (s : ast) (r : anode) : BTreeSpec.status * anode * ast :=
    if H <=? aheight r then (OVERFLOW, r, s) else          (* refused before any request is made *)
    match alloc Aligned s with
    | (None, s1) => (NO_MEM, r, s1)
    | (Some nid, s1) =>
      match alloc Aligned s1 with
      | (None, s2) => (NO_MEM, r, release Aligned nid s2)
      | (Some rid, s2) => (SUCCESS, asplit_child rid (AInode nid [] [r]) 0, s2)
      end
    end.

  Definition ainsert_op (s : ast) (t : atree) (e : elt) : BTreeSpec.status * atree * ast * list elt :=
    let '(st0, r0, s0) :=
      if ais_full (a_root t) then agrow_up s (a_root t) else (SUCCESS, a_root t, s) in
    match st0 with
    | SUCCESS =>
      let '(st, r1, s1, lg) := ainsert_down (aheight r0) s0 r0 e in
      (st, mkATree (a_self t) r1 (match st with SUCCESS => Z.succ (a_size t) | _ => a_size t end), s1, lg)
    | _ => (st0, t, s0, [])
    end.

  (* ---- rotations (no allocator traffic: pages keep their identity, children move with their pages) ---- *)
  Definition arotate_left (n : anode) (i : nat) : anode :=
    match n with
    | ALeaf _ _ => n
    | AInode id vs cs =>
      let pv := nth i vs dflt in
      match nth i cs adnode, nth (S i) cs adnode with
      | ALeaf lid lv, ALeaf rid rv =>
        AInode id (aset vs i (nth 0 rv dflt))
               (aset (aset cs i (ALeaf lid (lv ++ [pv]))) (S i) (ALeaf rid (aerase rv 0)))
      | AInode lid lv lc, AInode rid rv rc =>
        AInode id (aset vs i (nth 0 rv dflt))
               (aset (aset cs i (AInode lid (lv ++ [pv]) (lc ++ [nth 0 rc adnode]))) (S i)
                     (AInode rid (aerase rv 0) (aerase rc 0)))
      | _, _ => n
      end
    end.

  Definition arotate_right (n : anode) (i : nat) : anode :=
    match n with
    | ALeaf _ _ => n
    | AInode id vs cs =>
      let pv := nth (i - 1) vs dflt in
      match nth (i - 1) cs adnode, nth i cs adnode with
      | ALeaf lid lv, ALeaf rid rv =>
        let ln := length lv - 1 in
        AInode id (aset vs (i - 1) (nth ln lv dflt))
               (aset (aset cs (i - 1) (ALeaf lid (firstn ln lv))) i (ALeaf rid (pv :: rv)))
      | AInode lid lv lc, AInode rid rv rc =>
        let ln := length lv - 1 in
        AInode id (aset vs (i - 1) (nth ln lv dflt))
               (aset (aset cs (i - 1) (AInode lid (firstn ln lv) (firstn (ln + 1) lc))) i
                     (AInode rid (pv :: rv) (nth (length lv) lc adnode :: rc)))
      | _, _ => n
      end
    end.

  (* ---- zix_btree_merge: the merged page keeps the left page's block; the parent's block is released first if the
     parent is left without a value (root collapse), then the right page's block ---- *)
  Definition amerge (s : ast) (n : anode) (i : nat) : anode * ast :=
    match n with
    | ALeaf _ _ => (n, s)
    | AInode id vs cs =>
      let pv := nth i vs dflt in
      let rhs := nth (S i) cs adnode in
      let m :=
        match nth i cs adnode, rhs with
        | ALeaf lid lv, ALeaf _ rv => ALeaf lid (lv ++ pv :: rv)
        | AInode lid lv lc, AInode _ rv rc => AInode lid (lv ++ pv :: rv) (lc ++ rc)
        | l, _ => l
        end in
      let vs' := aerase vs i in
      let s1 := match vs' with [] => release Aligned id s | _ :: _ => s end in
      (AInode id vs' (aerase (aset cs i m) (S i)), release Aligned (aid rhs) s1)
    end.

  Definition aplug (n1 : anode) (i : nat) (c : anode) : anode :=
    match n1 with
    | ALeaf _ _ => n1
    | AInode _ [] _ => c
    | AInode id vs cs => AInode id vs (aset cs i c)
    end.

  (* ---- zix_btree_remove_min / remove_max ---- *)
  Fixpoint aremove_min (fuel : nat) (s : ast) (n : anode) : elt * anode * ast :=
    match fuel with
    | O => (dflt, n, s)
    | S f =>
      match n with
      | ALeaf id vs => (nth 0 vs dflt, ALeaf id (aerase vs 0), s)
      | AInode id vs cs =>
        if acan_remove_from (nth 0 cs adnode) then
          let '(m, c', s1) := aremove_min f s (nth 0 cs adnode) in (m, AInode id vs (aset cs 0 c'), s1)
        else if acan_remove_from (nth 1 cs adnode) then
          let n1 := arotate_left n 0 in
          let '(m, c', s1) := aremove_min f s (achild n1 0) in (m, aset_child n1 0 c', s1)
        else
          let '(n1, s0) := amerge s n 0 in
          let '(m, c', s1) := aremove_min f s0 (achild n1 0) in (m, aplug n1 0 c', s1)
      end
    end.

  Fixpoint aremove_max (fuel : nat) (s : ast) (n : anode) : elt * anode * ast :=
    match fuel with
    | O => (dflt, n, s)
    | S f =>
      match n with
      | ALeaf id vs => (nth (length vs - 1) vs dflt, ALeaf id (firstn (length vs - 1) vs), s)
      | AInode id vs cs =>
        let y := length vs - 1 in
        let z := length vs in
        if acan_remove_from (nth z cs adnode) then
          let '(m, c', s1) := aremove_max f s (nth z cs adnode) in (m, AInode id vs (aset cs z c'), s1)
        else if acan_remove_from (nth y cs adnode) then
          let n1 := arotate_right n z in
          let '(m, c', s1) := aremove_max f s (achild n1 z) in (m, aset_child n1 z c', s1)
        else
          let '(n1, s0) := amerge s n y in
          let '(m, c', s1) := aremove_max f s0 (achild n1 y) in (m, aplug n1 y c', s1)
      end
    end.

  Definition afatten_child (s : ast) (n : anode) (i : nat) : anode * nat * ast :=
    if (0 <? i) && acan_remove_from (achild n (i - 1)) then (arotate_right n i, i, s)
    else if (i <? an_vals n) && acan_remove_from (achild n (i + 1)) then (arotate_left n i, i, s)
    else if i =? an_vals n then let '(n1, s1) := amerge s n (i - 1) in (n1, i - 1, s1)
    else let '(n1, s1) := amerge s n i in (n1, i, s1).

  Definition areplace_value (fuel : nat) (s : ast) (n : anode) (i : nat) : option (elt * anode) * ast :=
    let lhs := achild n i in
    let rhs := achild n (i + 1) in
    if negb (acan_remove_from lhs) && negb (acan_remove_from rhs) then (None, s) else
    let out := nth i (avals n) dflt in
    let use_max := if an_vals rhs <? an_vals lhs then true
                   else if an_vals lhs <? an_vals rhs then false
                   else Nat.odd i in
    match n with
    | ALeaf _ _ => (None, s)
    | AInode id vs cs =>
      if use_max then
        let '(m, c', s1) := aremove_max fuel s lhs in (Some (out, AInode id (aset vs i m) (aset cs i c')), s1)
      else
        let '(m, c', s1) := aremove_min fuel s rhs in (Some (out, AInode id (aset vs i m) (aset cs (i + 1) c')), s1)
    end.

  (* ---- zix_btree_remove ---- *)
  Record arm_res := mkARm {
    ar_st : BTreeSpec.status; ar_out : option elt; ar_node : anode;
    ar_frames : list nat; ar_act : iact; ar_log : list elt; ar_ast : ast }.

  Fixpoint aremove_down (fuel : nat) (s : ast) (n : anode) (e : elt) : arm_res :=
    match fuel with
    | O => mkARm OUT_OF_FUEL None n [] AReset [] s
    | S f =>
      match n with
      | ALeaf id vs =>
        let '(i, eq, lg) := find_value elt dflt (cmpk elt rank e) vs in
        if negb eq then mkARm NOT_FOUND None n [] AReset lg s else
        let vs' := aerase vs i in
        let out := Some (nth i vs dflt) in
        if length vs' =? 0 then mkARm SUCCESS out (ALeaf id vs') [] AReset lg s
        else if i =? length vs' then mkARm SUCCESS out (ALeaf id vs') [i - 1] AIncr lg s
        else mkARm SUCCESS out (ALeaf id vs') [i] AKeep lg s
      | AInode id vs cs =>
        let '(i, eq, lg) := find_value elt dflt (cmpk elt rank e) vs in
        if eq then
          match areplace_value f s n i with
          | (Some (out, n'), s1) =>
            let v' := nth i (avals n') dflt in
            mkARm SUCCESS (Some out) n' [i]
                  (match cmpk elt rank e v' with Lt => AIncr | _ => AKeep end) (lg ++ [v']) s1
          | (None, s1) =>
            let '(n1, s2) := amerge s1 n i in
            let r := aremove_down f s2 (achild n1 i) e in
            mkARm (ar_st r) (ar_out r) (aplug n1 i (ar_node r)) (i :: ar_frames r) (ar_act r)
                  (lg ++ ar_log r) (ar_ast r)
          end
        else if acan_remove_from (nth i cs adnode) then
          let r := aremove_down f s (nth i cs adnode) e in
          mkARm (ar_st r) (ar_out r) (AInode id vs (aset cs i (ar_node r))) (i :: ar_frames r) (ar_act r)
                (lg ++ ar_log r) (ar_ast r)
        else
          let '(n1, i', s1) := afatten_child s n i in
          let r := aremove_down f s1 (achild n1 i') e in
          mkARm (ar_st r) (ar_out r) (aplug n1 i' (ar_node r)) (i' :: ar_frames r) (ar_act r)
                (lg ++ ar_log r) (ar_ast r)
      end
    end.

  (* the iterator is a function of the erased tree; it is not part of the allocation story *)
  Definition aremove_op (s : ast) (t : atree) (e : elt) : BTreeSpec.status * option elt * atree * ast * list elt :=
    let n := a_root t in
    let '(n0, s0) :=
      if negb (ais_leaf n) && (an_vals n =? 1) && negb (acan_remove_from (achild n 0))
         && negb (acan_remove_from (achild n 1))
      then let '(n1, s1) := amerge s n 0 in (achild n1 0, s1)
      else (n, s) in
    let r := aremove_down (aheight n0) s0 n0 e in
    (ar_st r, ar_out r,
     mkATree (a_self t) (ar_node r) (match ar_st r with SUCCESS => Z.pred (a_size t) | _ => a_size t end),
     ar_ast r, ar_log r).

  (* ---- zix_btree_free_children / clear / free / new ---- *)
  Fixpoint afree_children (n : anode) (s : ast) : ast :=
    match n with
    | ALeaf _ _ => s
    | AInode _ _ cs => fold_left (fun s' c => release Aligned (aid c) (afree_children c s')) cs s
    end.

  (* memset(t->root, 0, ...); t->root->is_leaf = true: the root page stays allocated *)
  Definition aclear_op (s : ast) (t : atree) : atree * ast :=
    (mkATree (a_self t) (ALeaf (aid (a_root t)) []) 0%Z, afree_children (a_root t) s).

  Definition afree_op (s : ast) (t : atree) : ast :=
    let '(t1, s1) := aclear_op s t in
    release Aligned (a_self t1) (release Aligned (aid (a_root t1)) s1).

  Definition anew_op (s : ast) : option atree * ast :=
    match alloc Aligned s with
    | (None, s1) => (None, s1)
    | (Some tid, s1) =>
      match alloc Aligned s1 with
      | (None, s2) => (None, release Aligned tid s2)
      | (Some rid, s2) => (Some (mkATree tid (ALeaf rid []) 0%Z), s2)
      end
    end.
End BTreeAllocModel.
