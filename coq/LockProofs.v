(* C19: lemmas about LockModel. *)
From Coq Require Import ZArith List Bool Arith Lia.
From Zix Require Import SemErrnoModel SemErrnoProofs LockModel LockSpec.
Import ListNotations.

(* ------------------------------------------------------------------ flock with zix's flags *)
Lemma kflock_lock m holder d :
  kernel_flock holder d (lock_flags m) =
  if k_free holder d then Some (Some d, KOk)
  else match m with TRY => Some (holder, KErr EWOULDBLOCK) | BLOCK => None end.
Proof. destruct m; reflexivity. Qed.

Lemma kflock_unlock m holder d :
  kernel_flock holder d (unlock_flags m) = Some (k_release holder d, KOk).
Proof. destruct m; reflexivity. Qed.

Definition lock_outcome (m : lmode) (holder : option nat) (i : nat) (h : handle)
  : option (option nat * status * bool * bool) :=
  if k_free holder i then Some (Some i, SUCCESS, true, true)
  else match m with
       | TRY => Some (holder, UNAVAILABLE, h_believes h, true)
       | BLOCK => None
       end.

Lemma perform_lock_open m holder i h :
  h_open h = true -> perform holder i h (LLock m) = lock_outcome m holder i h.
Proof.
  intros O. unfold perform, lock_outcome. rewrite O, kflock_lock.
  destruct (k_free holder i); [reflexivity|]. destruct m; reflexivity.
Qed.

Lemma perform_unlock_open m holder i h :
  h_open h = true -> perform holder i h (LUnlock m) = Some (k_release holder i, SUCCESS, false, true).
Proof. intros O. unfold perform. rewrite O, kflock_unlock. reflexivity. Qed.

Lemma k_free_other j i : j <> i -> k_free (Some j) i = false.
Proof. intros H. cbn. apply Nat.eqb_neq. exact H. Qed.

Lemma k_release_other j i : j <> i -> k_release (Some j) i = Some j.
Proof. intros H. cbn. destruct (Nat.eqb_spec j i); [contradiction|reflexivity]. Qed.

Lemma k_free_true holder i : k_free holder i = true -> holder = None \/ holder = Some i.
Proof.
  destruct holder as [j|]; cbn; auto. intros H. apply Nat.eqb_eq in H. subst. auto.
Qed.

(* ------------------------------------------------------------------ list helpers *)
Lemma nth_error_lupd_same {A} (l : list A) : forall i x t, nth_error l i = Some t -> nth_error (lupd i x l) i = Some x.
Proof. induction l as [|y l IH]; intros [|i] x t H; cbn in *; try discriminate; eauto. Qed.

Lemma nth_error_lupd_other {A} (l : list A) : forall i j x, i <> j -> nth_error (lupd i x l) j = nth_error l j.
Proof.
  induction l as [|y l IH]; intros [|i] [|j] x H; cbn; try reflexivity; try contradiction.
  apply IH. congruence.
Qed.

Lemma nth_error_lupd {A} (l : list A) i j x t h :
  nth_error l i = Some t -> nth_error (lupd i x l) j = Some h ->
  (j = i /\ h = x) \/ (j <> i /\ nth_error l j = Some h).
Proof.
  intros N H. destruct (Nat.eq_dec i j) as [<-|Hne].
  - rewrite (nth_error_lupd_same _ _ _ _ N) in H. inversion H. auto.
  - rewrite nth_error_lupd_other in H by assumption. right. split; [congruence | exact H].
Qed.

(* ------------------------------------------------------------------ mutual exclusion *)
(* whoever was told it holds the lock (and has not released it) is the holder *)
Definition excl (st : lsys) : Prop :=
  forall i h, nth_error (l_handles st) i = Some h -> h_believes h = true -> l_holder st = Some i.

Lemma perform_excl holder i h o holder' s bel opn :
  perform holder i h o = Some (holder', s, bel, opn) ->
  (h_believes h = true -> holder = Some i) ->
  (bel = true -> holder' = Some i) /\ (forall j, j <> i -> holder = Some j -> holder' = Some j).
Proof.
  intros P B. destruct o as [m|m| |]; cbn [perform] in P.
  - destruct (h_open h) eqn:O.
    + rewrite kflock_lock in P. destruct (k_free holder i) eqn:F.
      * inversion P; subst. split; [reflexivity|]. intros j Hj E. subst holder.
        rewrite k_free_other in F by assumption. discriminate.
      * destruct m; [discriminate|]. inversion P; subst. cbn. split; [|auto].
        intros Hb. specialize (B Hb). rewrite B in F. cbn in F. rewrite Nat.eqb_refl in F. discriminate.
    + inversion P; subst. split; auto.
  - destruct (h_open h) eqn:O.
    + rewrite kflock_unlock in P. inversion P; subst. cbn. split; [discriminate|].
      intros j Hj E. subst holder. apply k_release_other. exact Hj.
    + inversion P; subst. split; auto.
  - inversion P; subst. split; [discriminate|].
    intros j Hj E. subst holder. apply k_release_other. exact Hj.
  - inversion P; subst. split; auto.
Qed.

Lemma excl_step ch st : excl st -> excl (lstep ch st).
Proof.
  intros X. destruct ch as [i|i]; cbn [lstep];
    destruct (nth_error (l_handles st) i) as [h|] eqn:N; try exact X.
  - destruct (h_todo h) as [|o rest] eqn:T; [exact X|].
    destruct (perform (l_holder st) i h o) as [[[[holder' s] bel] opn]|] eqn:P.
    + destruct (perform_excl _ _ _ _ _ _ _ _ P (X i h N)) as [P1 P2].
      intros j hj Hj Hb. cbn [l_handles l_holder] in *.
      destruct (nth_error_lupd _ _ _ _ _ _ N Hj) as [[-> ->]|[Hne Hj']].
      * cbn in Hb. auto.
      * apply P2; [exact Hne|]. exact (X j hj Hj' Hb).
    + intros j hj Hj Hb. cbn [l_handles l_holder] in *.
      destruct (nth_error_lupd _ _ _ _ _ _ N Hj) as [[-> ->]|[Hne Hj']].
      * cbn in Hb. exact (X _ h N Hb).
      * exact (X j hj Hj' Hb).
  - destruct (h_waiting h); [|exact X].
    destruct (h_todo h) as [|o rest] eqn:T; [exact X|].
    intros j hj Hj Hb. cbn [l_handles l_holder] in *.
    destruct (nth_error_lupd _ _ _ _ _ _ N Hj) as [[-> ->]|[Hne Hj']].
    + cbn in Hb. exact (X _ h N Hb).
    + exact (X j hj Hj' Hb).
Qed.

Lemma excl_init progs : excl (linit progs).
Proof.
  intros i h H Hb. cbn in H. rewrite nth_error_map in H.
  destruct (nth_error progs i); [|discriminate]. cbn in H. inversion H; subst. discriminate.
Qed.

Lemma excl_run sched : forall st, excl st -> excl (lrun sched st).
Proof. induction sched as [|ch rest IH]; intros st X; cbn [lrun]; auto using excl_step. Qed.

(* ------------------------------------------------------------------ results of lock calls *)
(* a lock call never reports SUCCESS without the caller being the holder at that moment *)
Definition lock_entry_ok (e : lop * status) : bool :=
  match e with
  | (LLock BLOCK, s) => status_eqb s SUCCESS || status_eqb s ERROR
  | (LLock TRY, s) => status_eqb s SUCCESS || status_eqb s UNAVAILABLE || status_eqb s ERROR
  | (LUnlock _, s) => status_eqb s SUCCESS || status_eqb s ERROR
  | (_, s) => status_eqb s SUCCESS || status_eqb s ERROR
  end.

Definition llogs_ok (st : lsys) : Prop :=
  forall i h, nth_error (l_handles st) i = Some h -> forallb lock_entry_ok (h_log h) = true.

Lemma forallb_snoc {A} (f : A -> bool) l x : forallb f (l ++ [x]) = forallb f l && f x.
Proof. rewrite forallb_app. cbn. rewrite andb_true_r. reflexivity. Qed.

Lemma perform_entry_ok holder i h o holder' s bel opn :
  perform holder i h o = Some (holder', s, bel, opn) -> lock_entry_ok (o, s) = true.
Proof.
  intros P. destruct o as [m|m| |]; cbn [perform] in P.
  - destruct (h_open h).
    + rewrite kflock_lock in P. destruct (k_free holder i).
      * inversion P; subst. destruct m; reflexivity.
      * destruct m; [discriminate|]. inversion P; subst. reflexivity.
    + inversion P; subst. destruct m; reflexivity.
  - destruct (h_open h).
    + rewrite kflock_unlock in P. inversion P; subst. reflexivity.
    + inversion P; subst. reflexivity.
  - inversion P; subst. reflexivity.
  - inversion P; subst. reflexivity.
Qed.

Lemma llogs_ok_step ch st : llogs_ok st -> llogs_ok (lstep ch st).
Proof.
  intros L. destruct ch as [i|i]; cbn [lstep];
    destruct (nth_error (l_handles st) i) as [h|] eqn:N; try exact L.
  - destruct (h_todo h) as [|o rest] eqn:T; [exact L|].
    destruct (perform (l_holder st) i h o) as [[[[holder' s] bel] opn]|] eqn:P;
      intros j hj Hj; cbn [l_handles] in Hj;
      (destruct (nth_error_lupd _ _ _ _ _ _ N Hj) as [[-> ->]|[Hne Hj']]; [|exact (L j hj Hj')]); cbn [h_log].
    + rewrite forallb_snoc, (L _ h N), (perform_entry_ok _ _ _ _ _ _ _ _ P). reflexivity.
    + exact (L _ h N).
  - destruct (h_waiting h); [|exact L].
    destruct (h_todo h) as [|o rest] eqn:T; [exact L|].
    intros j hj Hj; cbn [l_handles] in Hj.
    destruct (nth_error_lupd _ _ _ _ _ _ N Hj) as [[-> ->]|[Hne Hj']]; [|exact (L j hj Hj')]. cbn [h_log].
    rewrite forallb_snoc, (L _ h N). destruct o as [[|]|[|]| |]; reflexivity.
Qed.

Lemma llogs_ok_init progs : llogs_ok (linit progs).
Proof.
  intros i h H. cbn in H. rewrite nth_error_map in H.
  destruct (nth_error progs i); [|discriminate]. cbn in H. inversion H; subst. reflexivity.
Qed.

Lemma llogs_ok_run sched : forall st, llogs_ok st -> llogs_ok (lrun sched st).
Proof. induction sched as [|ch rest IH]; intros st X; cbn [lrun]; auto using llogs_ok_step. Qed.

(* ------------------------------------------------------------------ single steps *)
Lemma try_lock_lemma st i h rest :
  nth_error (l_handles st) i = Some h -> h_open h = true -> h_todo h = LLock TRY :: rest ->
  let free := k_free (l_holder st) i in
  let st' := lstep (LRun i) st in
  nth_error (l_handles st') i =
    Some {| h_open := true; h_todo := rest;
            h_log := h_log h ++ [(LLock TRY, if free then SUCCESS else UNAVAILABLE)];
            h_waiting := false; h_believes := if free then true else h_believes h |} /\
  l_holder st' = (if free then Some i else l_holder st).
Proof.
  intros N O T. cbv zeta. cbn [lstep]. rewrite N, T, (perform_lock_open _ _ _ _ O). unfold lock_outcome.
  destruct (k_free (l_holder st) i); cbn [l_handles l_holder];
    (split; [eapply nth_error_lupd_same; eauto | reflexivity]).
Qed.

Lemma block_lock_lemma st i h rest :
  nth_error (l_handles st) i = Some h -> h_open h = true -> h_todo h = LLock BLOCK :: rest ->
  let st' := lstep (LRun i) st in
  if k_free (l_holder st) i then
    nth_error (l_handles st') i =
      Some {| h_open := true; h_todo := rest; h_log := h_log h ++ [(LLock BLOCK, SUCCESS)];
              h_waiting := false; h_believes := true |} /\
    l_holder st' = Some i
  else
    nth_error (l_handles st') i =
      Some {| h_open := true; h_todo := LLock BLOCK :: rest; h_log := h_log h;
              h_waiting := true; h_believes := h_believes h |} /\
    l_holder st' = l_holder st.
Proof.
  intros N O T. cbv zeta. cbn [lstep]. rewrite N, T, (perform_lock_open _ _ _ _ O). unfold lock_outcome.
  destruct (k_free (l_holder st) i); cbn [l_handles l_holder]; rewrite ?O, ?T;
    (split; [eapply nth_error_lupd_same; eauto | reflexivity]).
Qed.

Lemma unlock_lemma st i h m rest :
  nth_error (l_handles st) i = Some h -> h_open h = true -> h_todo h = LUnlock m :: rest ->
  l_holder st = Some i ->
  let st' := lstep (LRun i) st in
  l_holder st' = None /\
  nth_error (l_handles st') i =
    Some {| h_open := true; h_todo := rest; h_log := h_log h ++ [(LUnlock m, SUCCESS)];
            h_waiting := false; h_believes := false |} /\
  (* every open handle that wants the lock, waiting or arriving later, now gets it in one step *)
  forall j hj m' restj,
    nth_error (l_handles st') j = Some hj -> h_open hj = true -> h_todo hj = LLock m' :: restj ->
    lrunnable st' j hj = true /\
    l_holder (lstep (LRun j) st') = Some j /\
    exists hj', nth_error (l_handles (lstep (LRun j) st')) j = Some hj' /\
                h_log hj' = h_log hj ++ [(LLock m', SUCCESS)] /\ h_believes hj' = true.
Proof.
  intros N O T H. cbv zeta.
  assert (E : lstep (LRun i) st =
              {| l_holder := None;
                 l_handles := lupd i {| h_open := true; h_todo := rest; h_log := h_log h ++ [(LUnlock m, SUCCESS)];
                                        h_waiting := false; h_believes := false |} (l_handles st) |}).
  { cbn [lstep]. rewrite N, T, (perform_unlock_open _ _ _ _ O), H. cbn. rewrite Nat.eqb_refl. reflexivity. }
  rewrite E. cbn [l_holder l_handles]. split; [reflexivity|]. split; [eapply nth_error_lupd_same; eauto|].
  intros j hj m' restj Nj Oj Tj.
  unfold lrunnable. rewrite Tj. cbn [l_holder]. rewrite (perform_lock_open _ _ _ _ Oj). unfold lock_outcome. cbn [k_free].
  split; [reflexivity|]. cbn [lstep l_handles l_holder]. rewrite Nj, Tj, (perform_lock_open _ _ _ _ Oj).
  unfold lock_outcome. cbn [k_free l_holder l_handles]. split; [reflexivity|].
  eexists. split; [eapply nth_error_lupd_same; eauto|]. cbn. split; reflexivity.
Qed.

(* quiescence: nobody can move => every unfinished handle sleeps in a BLOCK lock held by another *)
Lemma lquiescent_lemma st :
  (forall i h, nth_error (l_handles st) i = Some h -> lrunnable st i h = false) ->
  forall i h, nth_error (l_handles st) i = Some h -> h_todo h <> [] ->
    exists rest j, h_todo h = LLock BLOCK :: rest /\ l_holder st = Some j /\ j <> i.
Proof.
  intros Q i h N Hne. specialize (Q i h N). unfold lrunnable in Q.
  destruct (h_todo h) as [|o rest] eqn:T; [contradiction|].
  destruct (perform (l_holder st) i h o) eqn:P; [discriminate|].
  destruct o as [m|m| |]; cbn [perform] in P; try discriminate.
  - destruct (h_open h); [|discriminate]. rewrite kflock_lock in P.
    destruct (k_free (l_holder st) i) eqn:F; [discriminate|]. destruct m; [|discriminate].
    destruct (l_holder st) as [j|]; [|discriminate]. exists rest, j. repeat split; auto.
    cbn in F. apply Nat.eqb_neq in F. exact F.
  - destruct (h_open h); [|discriminate]. rewrite kflock_unlock in P. discriminate.
Qed.

(* ------------------------------------------------------------------ refinement of the specification *)
Definition abs_lop (o : lop) : xop :=
  match o with LLock TRY => XTry | LLock BLOCK => XBlock | LUnlock _ => XUnlock | LClose => XClose | LOpen => XOpen end.
Definition abs_lstatus (s : status) : xres :=
  match s with SUCCESS => XSuccess | UNAVAILABLE => XUnavailable | _ => XOther end.
Definition abs_lentry (e : lop * status) : xop * xres := (abs_lop (fst e), abs_lstatus (snd e)).
Definition abs_handle (h : handle) : xhandle :=
  {| x_todo := map abs_lop (h_todo h); x_done := map abs_lentry (h_log h); x_waiting := h_waiting h |}.
Definition abs_lsys (st : lsys) : xstate :=
  {| x_owner := l_holder st; x_handles := map abs_handle (l_handles st) |}.
Definition abs_lchoice (ch : lchoice) : xchoice :=
  match ch with LRun i => XRun i | LSig i => XInterrupt i end.

(* the refinement holds while every handle that still has work is open (operating on a closed FILE
   is outside the specification) *)
Definition all_open (st : lsys) : Prop :=
  forall i h, nth_error (l_handles st) i = Some h ->
    match h_todo h with LOpen :: _ => True | [] => True | _ => h_open h = true end.

Lemma map_lupd {A B} (f : A -> B) (l : list A) : forall i x, map f (lupd i x l) = xupd i (f x) (map f l).
Proof. induction l as [|y l IH]; intros [|i] x; cbn; try reflexivity. f_equal. apply IH. Qed.

Lemma k_free_spec holder i : k_free holder i = free_for holder i.
Proof. reflexivity. Qed.
Lemma k_release_spec holder i : k_release holder i = release holder i.
Proof. reflexivity. Qed.

Lemma lstep_refines ch st : all_open st ->
  abs_lsys (lstep ch st) = spec_lock_step (abs_lchoice ch) (abs_lsys st).
Proof.
  intros AO. unfold abs_lsys. destruct ch as [i|i];
    cbn [lstep abs_lchoice spec_lock_step x_handles x_owner]; rewrite nth_error_map;
    destruct (nth_error (l_handles st) i) as [h|] eqn:N; cbn [option_map]; try reflexivity.
  - specialize (AO i h N). cbn [abs_handle x_todo x_done].
    destruct (h_todo h) as [|o rest] eqn:T; cbn [map]; [reflexivity|].
    destruct o as [m|m| |].
    + rewrite (perform_lock_open _ _ _ _ AO). unfold lock_outcome, spec_lock_op. rewrite k_free_spec.
      destruct m; cbn [abs_lop]; destruct (free_for (l_holder st) i);
        cbn [l_holder l_handles]; rewrite map_lupd; unfold abs_handle at 1;
        cbn [h_todo h_log h_waiting]; rewrite ?map_app, ?T; reflexivity.
    + rewrite (perform_unlock_open _ _ _ _ AO). cbn [abs_lop spec_lock_op]. rewrite k_release_spec.
      cbn [l_holder l_handles]; rewrite map_lupd; unfold abs_handle at 1;
        cbn [h_todo h_log h_waiting]; rewrite map_app; reflexivity.
    + cbn [perform abs_lop spec_lock_op]. rewrite k_release_spec.
      cbn [l_holder l_handles]; rewrite map_lupd; unfold abs_handle at 1;
        cbn [h_todo h_log h_waiting]; rewrite map_app; reflexivity.
    + cbn [perform abs_lop spec_lock_op].
      cbn [l_holder l_handles]; rewrite map_lupd; unfold abs_handle at 1;
        cbn [h_todo h_log h_waiting]; rewrite map_app; reflexivity.
  - cbn [abs_handle x_waiting]. destruct (h_waiting h); [|reflexivity].
    cbn [abs_handle x_todo x_done]. destruct (h_todo h) as [|o rest] eqn:T; cbn [map]; [reflexivity|].
    cbn [l_holder l_handles]; rewrite map_lupd; unfold abs_handle at 1;
      cbn [h_todo h_log h_waiting]; rewrite map_app; reflexivity.
Qed.

(* programs that never operate on a closed FILE (that is undefined behaviour in C) *)
Fixpoint prog_ok (opn : bool) (p : list lop) : Prop :=
  match p with
  | [] => True
  | LOpen :: p' => prog_ok true p'
  | LClose :: p' => opn = true /\ prog_ok false p'
  | _ :: p' => opn = true /\ prog_ok true p'
  end.

Definition hwf (h : handle) : Prop :=
  prog_ok (h_open h) (h_todo h) /\
  (h_waiting h = true -> exists m rest, h_todo h = LLock m :: rest).

Definition lwf (st : lsys) : Prop := forall i h, nth_error (l_handles st) i = Some h -> hwf h.

Lemma lwf_all_open st : lwf st -> all_open st.
Proof.
  intros W i h N. destruct (W i h N) as [P _].
  destruct (h_todo h) as [|[m|m| |] rest]; cbn in P; tauto.
Qed.

Lemma lwf_step ch st : lwf st -> lwf (lstep ch st).
Proof.
  intros W. destruct ch as [i|i]; cbn [lstep];
    destruct (nth_error (l_handles st) i) as [h|] eqn:N; try exact W.
  - destruct (W i h N) as [P Wt].
    destruct (h_todo h) as [|o rest] eqn:T; [exact W|].
    destruct (perform (l_holder st) i h o) as [[[[holder' s] bel] opn]|] eqn:Pf;
      intros j hj Hj; cbn [l_handles] in Hj;
      (destruct (nth_error_lupd _ _ _ _ _ _ N Hj) as [[-> ->]|[Hne Hj']]; [|exact (W j hj Hj')]);
      split; cbn [h_open h_todo h_waiting]; try discriminate.
    + destruct o as [m|m| |]; cbn in P; cbn [perform] in Pf.
      * destruct P as [O P]. rewrite O in Pf. destruct (kernel_flock (l_holder st) i (lock_flags m)) as [[? ?]|]; [|discriminate].
        inversion Pf; subst. exact P.
      * destruct P as [O P]. rewrite O in Pf. destruct (kernel_flock (l_holder st) i (unlock_flags m)) as [[? ?]|]; [|discriminate].
        inversion Pf; subst. exact P.
      * inversion Pf; subst. tauto.
      * inversion Pf; subst. exact P.
    + rewrite ?T. exact P.
    + intros _. destruct o as [m|m| |]; cbn [perform] in Pf; try discriminate; eauto.
      destruct (h_open h); [|discriminate]. rewrite kflock_unlock in Pf. discriminate.
  - destruct (W i h N) as [P Wt]. destruct (h_waiting h) eqn:Wa; [|exact W].
    destruct (h_todo h) as [|o rest] eqn:T; [exact W|].
    destruct (Wt eq_refl) as (m & rest' & E). inversion E; subst o rest'.
    intros j hj Hj; cbn [l_handles] in Hj.
    destruct (nth_error_lupd _ _ _ _ _ _ N Hj) as [[-> ->]|[Hne Hj']]; [|exact (W j hj Hj')].
    split; cbn [h_open h_todo h_waiting]; [|discriminate]. cbn in P. destruct P as [O P]. rewrite O. exact P.
Qed.

Lemma lrun_refines sched : forall st, lwf st ->
  abs_lsys (lrun sched st) = spec_lock_run (map abs_lchoice sched) (abs_lsys st).
Proof.
  induction sched as [|ch rest IH]; intros st W; cbn [lrun map spec_lock_run]; [reflexivity|].
  rewrite IH by (apply lwf_step; exact W). rewrite lstep_refines by (apply lwf_all_open; exact W). reflexivity.
Qed.

Lemma lwf_init progs : Forall (prog_ok true) progs -> lwf (linit progs).
Proof.
  intros F i h H. cbn in H. rewrite nth_error_map in H.
  destruct (nth_error progs i) as [p|] eqn:N; [|discriminate]. cbn in H. inversion H; subst.
  split; cbn; [|discriminate]. rewrite Forall_forall in F. apply F. eapply nth_error_In; eauto.
Qed.

Lemma abs_linit progs : abs_lsys (linit progs) = spec_lock_init (map (map abs_lop) progs).
Proof.
  unfold abs_lsys, linit, spec_lock_init. cbn [l_holder l_handles]. f_equal. rewrite !map_map. reflexivity.
Qed.
