(* C19 — property theorems only.  PARTIAL by design: zix_file_lock / zix_file_unlock choose the
   flock flags from the mode and map the result.  Proved: that wrapper running against an explicit
   ideal model of flock (LockModel.kernel_flock: one lock per file, held by at most one open file
   description; LOCK_NB never sleeps; close releases), over ALL interleavings of any number of
   independently opened handles.  Trusted and only smoke-tested: that the kernel's flock behaves like
   kernel_flock (between processes and between descriptions of one process). *)
From Coq Require Import ZArith List Bool Arith Lia.
From Zix Require Import SemErrnoModel SemErrnoProofs LockModel LockSpec LockProofs.
Import ListNotations.

(* the calls the wrapper prescribes *)
Theorem lock_flags_prescribed :
  lock_flags BLOCK = LOCK_EX /\ lock_flags TRY = Z.lor LOCK_EX LOCK_NB /\
  unlock_flags BLOCK = LOCK_UN /\ unlock_flags TRY = Z.lor LOCK_UN LOCK_NB /\
  (lock_flags BLOCK = 2 /\ lock_flags TRY = 6 /\ unlock_flags BLOCK = 8 /\ unlock_flags TRY = 12)%Z.
Proof. repeat split; reflexivity. Qed.
Print Assumptions lock_flags_prescribed.

(* status mapping of the flock result, for every result: SUCCESS only for 0, UNAVAILABLE exactly for
   EWOULDBLOCK/EAGAIN; in particular EINTR is an error, never SUCCESS or UNAVAILABLE *)
Theorem lock_status_sound :
  (forall r, file_lock_status r = SUCCESS <-> r = KOk \/ r = KErr 0%Z) /\
  (forall e, file_lock_status (KErr e) = UNAVAILABLE <-> e = EWOULDBLOCK) /\
  EWOULDBLOCK = EAGAIN /\ file_lock_status (KErr EINTR) = ERROR.
Proof.
  repeat split; try reflexivity.
  - apply errno_status_if_success_iff.
  - apply errno_status_if_success_iff.
  - apply errno_status_unavailable_iff.
  - intros ->. reflexivity.
Qed.
Print Assumptions lock_status_sound.

(* at most one holder at any time: in every state reachable by any schedule (signals included) from
   any number of handles with any programs, whoever has been told SUCCESS and has not released since
   is THE holder of the ideal lock — so two such callers are the same handle *)
Theorem mutual_exclusion :
  forall progs sched,
    let st := lrun sched (linit progs) in
    (forall i h, nth_error (l_handles st) i = Some h -> h_believes h = true -> l_holder st = Some i) /\
    (forall i j hi hj, nth_error (l_handles st) i = Some hi -> nth_error (l_handles st) j = Some hj ->
                       h_believes hi = true -> h_believes hj = true -> i = j).
Proof.
  intros progs sched st.
  assert (X : excl st) by (apply excl_run, excl_init).
  split; [exact X|]. intros i j hi hj Ni Nj Bi Bj.
  pose proof (X i hi Ni Bi) as E1. pose proof (X j hj Nj Bj) as E2. congruence.
Qed.
Print Assumptions mutual_exclusion.

(* TRY: one step, in every state; SUCCESS iff the lock is free or already held by this very
   description, otherwise UNAVAILABLE and nothing changes *)
Theorem try_returns_in_one_step :
  forall st i h rest,
    nth_error (l_handles st) i = Some h -> h_open h = true -> h_todo h = LLock TRY :: rest ->
    let free := k_free (l_holder st) i in
    let st' := lstep (LRun i) st in
    nth_error (l_handles st') i =
      Some {| h_open := true; h_todo := rest;
              h_log := h_log h ++ [(LLock TRY, if free then SUCCESS else UNAVAILABLE)];
              h_waiting := false; h_believes := if free then true else h_believes h |} /\
    l_holder st' = (if free then Some i else l_holder st).
Proof. exact try_lock_lemma. Qed.
Print Assumptions try_returns_in_one_step.

(* BLOCK: the call completes only in a step that makes the caller the holder (with SUCCESS);
   while another description holds the lock it sleeps and nothing changes *)
Theorem block_returns_only_holding :
  forall st i h rest,
    nth_error (l_handles st) i = Some h -> h_open h = true -> h_todo h = LLock BLOCK :: rest ->
    let st' := lstep (LRun i) st in
    if k_free (l_holder st) i then
      nth_error (l_handles st') i =
        Some {| h_open := true; h_todo := rest; h_log := h_log h ++ [(LLock BLOCK, SUCCESS)];
                h_waiting := false; h_believes := true |} /\
      l_holder st' = Some i
    else
      nth_error (l_handles st') i =
        Some {| h_open := true; h_todo := LLock BLOCK :: rest; h_log := h_log h;
                h_waiting := true; h_believes := h_believes h |} /\
      l_holder st' = l_holder st.
Proof. exact block_lock_lemma. Qed.
Print Assumptions block_returns_only_holding.

(* in every reachable state the results logged for lock calls are: BLOCK -> SUCCESS, or ERROR (only
   an interrupted sleep or a closed FILE produce it), never UNAVAILABLE; TRY -> SUCCESS / UNAVAILABLE / ERROR *)
Theorem lock_results :
  forall progs sched i h,
    nth_error (l_handles (lrun sched (linit progs))) i = Some h ->
    forallb lock_entry_ok (h_log h) = true.
Proof. intros progs sched. apply llogs_ok_run, llogs_ok_init. Qed.
Print Assumptions lock_results.

(* unlock by the holder frees the lock, and every open handle that wants it — one already sleeping
   in a BLOCK call or one arriving later, in either mode — obtains it in its next step *)
Theorem unlock_enables_locker :
  forall st i h m rest,
    nth_error (l_handles st) i = Some h -> h_open h = true -> h_todo h = LUnlock m :: rest ->
    l_holder st = Some i ->
    let st' := lstep (LRun i) st in
    l_holder st' = None /\
    nth_error (l_handles st') i =
      Some {| h_open := true; h_todo := rest; h_log := h_log h ++ [(LUnlock m, SUCCESS)];
              h_waiting := false; h_believes := false |} /\
    forall j hj m' restj,
      nth_error (l_handles st') j = Some hj -> h_open hj = true -> h_todo hj = LLock m' :: restj ->
      lrunnable st' j hj = true /\
      l_holder (lstep (LRun j) st') = Some j /\
      exists hj', nth_error (l_handles (lstep (LRun j) st')) j = Some hj' /\
                  h_log hj' = h_log hj ++ [(LLock m', SUCCESS)] /\ h_believes hj' = true.
Proof. exact unlock_lemma. Qed.
Print Assumptions unlock_enables_locker.

(* when nobody can move, every unfinished handle sleeps in a BLOCK lock that another handle holds *)
Theorem stuck_only_behind_a_holder :
  forall st,
    (forall i h, nth_error (l_handles st) i = Some h -> lrunnable st i h = false) ->
    forall i h, nth_error (l_handles st) i = Some h -> h_todo h <> [] ->
      exists rest j, h_todo h = LLock BLOCK :: rest /\ l_holder st = Some j /\ j <> i.
Proof. exact lquiescent_lemma. Qed.
Print Assumptions stuck_only_behind_a_holder.

(* the wrapper over the ideal flock implements the specification (option owner) on every schedule,
   for programs that never use a closed FILE *)
Theorem lock_run_refines_spec :
  forall progs sched,
    Forall (prog_ok true) progs ->
    abs_lsys (lrun sched (linit progs)) =
    spec_lock_run (map abs_lchoice sched) (spec_lock_init (map (map abs_lop) progs)).
Proof.
  intros progs sched F. rewrite lrun_refines by (apply lwf_init; exact F). rewrite abs_linit. reflexivity.
Qed.
Print Assumptions lock_run_refines_spec.

(* ---------------------------------------------------------------- non-vacuity *)
Example lock_example :   (* 1 tries and is refused, sleeps in BLOCK, gets the lock at 0's unlock; 2 is refused meanwhile *)
  let st := lrun [LRun 0; LRun 1; LRun 1; LRun 2; LRun 0; LRun 1; LRun 2]
                 (linit [[LLock TRY; LUnlock TRY]; [LLock TRY; LLock BLOCK]; [LLock TRY; LLock TRY]]) in
  l_holder st = Some 1%nat /\
  map h_log (l_handles st) =
    [[(LLock TRY, SUCCESS); (LUnlock TRY, SUCCESS)];
     [(LLock TRY, UNAVAILABLE); (LLock BLOCK, SUCCESS)];
     [(LLock TRY, UNAVAILABLE); (LLock TRY, UNAVAILABLE)]] /\
  map h_believes (l_handles st) = [false; true; false].
Proof. cbv zeta. vm_compute. repeat split; reflexivity. Qed.

Example interrupted_block_example :   (* a signal during the sleep: ERROR, the caller does not hold the lock *)
  let st := lrun [LRun 0; LRun 1; LSig 1] (linit [[LLock BLOCK]; [LLock BLOCK]]) in
  l_holder st = Some 0%nat /\ map h_log (l_handles st) = [[(LLock BLOCK, SUCCESS)]; [(LLock BLOCK, ERROR)]] /\
  map h_believes (l_handles st) = [true; false].
Proof. cbv zeta. vm_compute. repeat split; reflexivity. Qed.

Example prog_ok_example : Forall (prog_ok true) [[LLock TRY; LUnlock TRY; LClose; LOpen; LLock BLOCK]; []].
Proof. repeat constructor. Qed.
