(* C05: requests larger than the whole buffer (up to 2^32-1 bytes) cannot be run through the list-based model
   functions by the correspondence (a 4 GiB source list), so their effect is stated once and proved here for
   EVERY source of such a length: the call is refused and nothing changes.  The model driver uses [huge_step] /
   [spec_huge_step] for the ops W:<n> / A:<n> (n >= buffer size); the two theorems say that this is exactly what
   ring_step / spec_step would have computed. *)
From Coq Require Import ZArith List Bool Lia ZifyBool.
From Zix Require Import RingSpec RingModel RingProofsNpot RingProofsBase RingProofs.
Import ListNotations.
Local Open Scope Z_scope.

Definition huge_step (st : mstate) (amend : bool) : mstate * (Z * list Z) :=
  (st, (if amend then ST_NO_MEM else 0, [])).

Definition spec_huge_step (st : sstate) (amend : bool) : option (sstate * (Z * list Z)) :=
  if amend then match stx st with None => None | Some _ => Some (st, (ST_NO_MEM, [])) end
  else Some (st, (0, [])).

(* zix_ring_mlock: mlock() of the struct and of the buffer; no effect on any modelled field *)
Definition ring_mlock (st : mstate) : mstate * (Z * list Z) := (st, (0, [])).

Lemma amend_too_big rg t src :
  inv rg -> size rg <= len src -> ring_amend_write rg t src = (rg, t, ST_NO_MEM).
Proof.
  intros Hi Hs. unfold ring_amend_write. fold (len src).
  rewrite (wsi_spec rg (tx_read_head t) (tx_write_head t) Hi).
  destruct Hi as [[k [Hk Hsz]] _ _ _ _].
  assert (Hpos : 0 < size rg) by (rewrite Hsz; apply Z.pow_pos_nonneg; lia).
  pose proof (Z.mod_pos_bound (tx_read_head t - tx_write_head t - 1) (size rg) Hpos) as Hb.
  destruct (Z.ltb_spec ((tx_read_head t - tx_write_head t - 1) mod size rg) (len src)) as [_|Hc]; [reflexivity|lia].
Qed.

Lemma huge_step_is_model rg t src :
  inv rg -> size rg <= len src ->
  ring_step (rg, t) (OWrite src) = huge_step (rg, t) false /\
  ring_step (rg, t) (OAmend src) = huge_step (rg, t) true.
Proof.
  intros Hi Hs. unfold ring_step, huge_step, ring_write. split.
  - rewrite (amend_too_big rg (ring_begin_write rg) src Hi Hs). reflexivity.
  - rewrite (amend_too_big rg t src Hi Hs). reflexivity.
Qed.

Lemma huge_step_is_spec cap st src :
  0 <= len (sq st) -> cap < len src ->
  (forall p room, stx st = Some (p, room) -> room <= cap) ->
  spec_step cap st (OWrite src) = spec_huge_step st false /\
  spec_step cap st (OAmend src) = spec_huge_step st true.
Proof.
  intros Hq Hs Hroom. unfold spec_step, spec_huge_step. split.
  - destruct (Z.leb_spec (len src) (cap - len (sq st))) as [Hc|_]; [lia|reflexivity].
  - destruct (stx st) as [[p room]|] eqn:E; [|reflexivity].
    specialize (Hroom p room eq_refl).
    assert (0 <= len p) by (unfold len; lia).
    destruct (Z.leb_spec (len p + len src) room) as [Hc|_]; [lia|reflexivity].
Qed.
