(* C04: witnesses (vm_compute) showing why the memory orders matter *)
From Coq Require Import ZArith List Bool.
From Zix Require Import RingConcModel.
Import ListNotations.
Local Open Scope Z_scope.

Definition relaxed_commit (k : Z) : cfg := mkCfg k false true.
Definition relaxed_read_store (k : Z) : cfg := mkCfg k true false.

(* commit store relaxed: the reader sees the new head but has no happens-before to the bytes *)
Lemma relaxed_commit_races :
  race (sm (run (relaxed_commit 2) (wprog_of_list [WWrite [1; 2]]) (rprog_of_list [RRead 2])
                (repeat (true, O) 5 ++ repeat (false, O) 5))) = true.
Proof. vm_compute. reflexivity. Qed.

(* the reader's store relaxed: the writer reuses a cell whose read is not ordered before *)
Lemma relaxed_read_store_races :
  race (sm (run (relaxed_read_store 1) (wprog_of_list [WWrite [1]; WWrite [2]; WWrite [3]])
                (rprog_of_list [RRead 1; RRead 1])
                (repeat (true, O) 4 ++ repeat (false, O) 4 ++ repeat (true, O) 4 ++ repeat (false, O) 4
                 ++ repeat (true, O) 4))) = true.
Proof. vm_compute. reflexivity. Qed.

(* the same schedules on the faithful model: no race *)
Lemma faithful_same_schedules_no_race :
  race (sm (run (faithful 2) (wprog_of_list [WWrite [1; 2]]) (rprog_of_list [RRead 2])
                (repeat (true, O) 5 ++ repeat (false, O) 5))) = false /\
  race (sm (run (faithful 1) (wprog_of_list [WWrite [1]; WWrite [2]; WWrite [3]])
                (rprog_of_list [RRead 1; RRead 1])
                (repeat (true, O) 4 ++ repeat (false, O) 4 ++ repeat (true, O) 4 ++ repeat (false, O) 4
                 ++ repeat (true, O) 4))) = false.
Proof. vm_compute. split; reflexivity. Qed.
