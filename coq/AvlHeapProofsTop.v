(* C06 — heap model of tree.c, lemmas part 5: whole histories.  The pointer-level model refines
   the functional model (same statuses, iterators, destroy logs; Rep after every history), and the
   statements about iteration and iterator stability are transported to the heap. *)
From Coq Require Import ZArith List Bool Lia ZifyBool Permutation.
From Zix Require Import AvlSpec AvlModel AvlProofs AvlProofsIter AvlProofsRemove AvlProofsState AvlProofsTop
  AvlHeapModel AvlHeapProofsBase AvlHeapProofsRot AvlHeapProofsIter AvlHeapProofsIns AvlHeapProofsRem.
Import ListNotations.
Local Open Scope Z_scope.

Section HeapTop.
Variable rank : elt -> Z.

Lemma lookup_none : forall j t, ~ In j (ids t) -> lookup j t = None.
Proof. intros j t H. unfold lookup. apply slookup_none. exact H. Qed.

Lemma lookup_some_in : forall j t x, lookup j t = Some x -> In j (ids t).
Proof.
  intros j t x H. unfold lookup, slookup in H. apply find_some in H. destruct H as [H1 H2].
  unfold ids. apply in_map_iff. exists x. split; [lia|assumption].
Qed.

(* zix_tree_get through a held iterator = the functional lookup *)
Lemma Rep_lookup : forall st fs j, Rep st fs -> NoDup (ids (root fs)) -> h_lookup st j = lookup j (root fs).
Proof.
  intros st fs j (R & _ & _ & _ & Dom) ND. unfold h_lookup.
  destruct (lookup j (root fs)) as [x|] eqn:L.
  - destruct (rep_lookup _ _ _ _ _ R ND L) as (n & Hn & ->). rewrite Hn. reflexivity.
  - destruct (hget (hp st) j) as [n|] eqn:G; [|reflexivity]. exfalso.
    assert (In j (ids (root fs))) by (apply Dom; rewrite G; discriminate).
    unfold lookup, slookup in L. unfold ids in H. apply in_map_iff in H. destruct H as (y & Ey & Iy).
    apply (find_none _ _ L) in Iy. cbv beta in Iy. lia.
Qed.

Lemma Rep_live : forall st fs j, Rep st fs -> (hget (hp st) j <> None <-> In j (ids (root fs))).
Proof.
  intros st fs j (R & _ & _ & _ & Dom). split; [apply Dom|]. intros H. eapply rep_in; eassumption.
Qed.

(* ------------------------------------------------------------------ histories *)
Lemma h_run_sim : forall dup ops o st fs,
  Rep st fs -> inv rank dup fs ->
  exists st', h_run rank dup ops o st = Some (st', snd (run rank dup ops o fs)) /\
              Rep st' (fst (run rank dup ops o fs)) /\ inv rank dup (fst (run rank dup ops o fs)).
Proof.
  intros dup ops. induction ops as [|op ops IH]; intros o st fs RP I.
  - exists st. cbn. split; [reflexivity|]. split; assumption.
  - destruct op as [x|id|x]; cbn [h_run run].
    + pose proof (insert_refines rank dup x o fs I) as IR.
      destruct (insert rank dup x o fs) as [[[[s it] fs'] o'] rc] eqn:EI. destruct IR as [_ I'].
      destruct (h_insert_sim rank dup x o st fs s it fs' o' rc RP I EI) as (st1 & E1 & RP1).
      rewrite E1. destruct (IH o' st1 fs' RP1 I') as (st' & E2 & RP2 & I2).
      rewrite E2. destruct (run rank dup ops o' fs') as [fin evs]. cbn [fst snd] in *.
      exists st'. split; [reflexivity|]. split; assumption.
    + pose proof (remove_refines rank dup id fs I) as RR.
      destruct I as (Srt & A & Sz & ND & Bd & Nn & RI).
      destruct (hget (hp st) id) as [nd|] eqn:G.
      * assert (IN : In id (ids (root fs))) by (apply (Rep_live st fs id RP); rewrite G; discriminate).
        destruct (h_remove_sim id st fs RP A ND Sz IN) as (st1 & T' & hc & lg & x & ER & E1 & RP1).
        unfold remove in *. rewrite ER in *. destruct RR as [_ I'].
        rewrite E1. destruct (IH o st1 _ RP1 I') as (st' & E2 & RP2 & I2).
        rewrite E2. destruct (run rank dup ops o _) as [fin evs]. cbn [fst snd] in *.
        exists st'. split; [reflexivity|]. split; assumption.
      * assert (NI : ~ In id (ids (root fs))) by (intros X; apply (Rep_live st fs id RP) in X; congruence).
        unfold remove in *. rewrite (proj2 (rem_none id (root fs)) NI) in *. destruct RR as [_ I'].
        destruct (IH o st fs RP I') as (st' & E2 & RP2 & I2).
        rewrite E2. destruct (run rank dup ops o fs) as [fin evs]. cbn [fst snd] in *.
        exists st'. split; [reflexivity|]. split; assumption.
    + destruct I as (Srt & A & Sz & ND & Bd & Nn & RI).
      rewrite (h_tfind_sim rank x st fs RP Sz).
      destruct (tfind rank x fs) as [[s it] lg].
      destruct (IH o st fs RP (conj Srt (conj A (conj Sz (conj ND (conj Bd (conj Nn RI))))))) as (st' & E2 & RP2 & I2).
      rewrite E2. destruct (run rank dup ops o fs) as [fin evs]. cbn [fst snd] in *.
      exists st'. split; [reflexivity|]. split; assumption.
Qed.

(* the heap state after a history *)
Definition hreach (dup : bool) (ops : list op) (o : list bool) : hstate :=
  match h_run rank dup ops o hinit with Some (st, _) => st | None => hinit end.

Lemma hreach_spec : forall dup ops o,
  h_run rank dup ops o hinit = Some (hreach dup ops o, snd (run rank dup ops o init)) /\
  Rep (hreach dup ops o) (reach rank dup ops o).
Proof.
  intros dup ops o. destruct (h_run_sim dup ops o hinit init Rep_init (inv_init rank dup)) as (st' & E & RP & _).
  unfold hreach. rewrite E. split; [reflexivity|exact RP].
Qed.

Lemma hreach_refines : forall dup ops o,
  exists hst, h_run rank dup ops o hinit = Some (hst, snd (run rank dup ops o init)) /\
              Rep hst (fst (run rank dup ops o init)).
Proof. intros. exists (hreach dup ops o). apply hreach_spec. Qed.

(* ------------------------------------------------------------------ iteration on the heap after any history *)
Lemma hreach_iter : forall dup ops o,
  let hst := hreach dup ops o in
  let l := fst (srun rank dup ops o ([], 0)) in
  h_begin hst = At (sbegin l) /\ h_rbegin hst = At (srbegin l) /\
  h_walk_fwd hst = Some (map fst l) /\ h_walk_bwd hst = Some (rev (map fst l)) /\
  (forall id, In id (map fst l) ->
     h_iter_next hst id = At (snext id l) /\ h_iter_prev hst id = At (sprev id l)).
Proof.
  intros dup ops o hst l. destruct (hreach_spec dup ops o) as (_ & RP). fold hst in RP.
  pose proof (reach_inv rank dup ops o) as (_ & _ & Sz & ND & _).
  pose proof (reach_iter rank dup ops o) as (W1 & W2 & B1 & B2 & NP). cbv zeta in *.
  pose proof (reach_history rank dup ops o) as HH. unfold abs in HH.
  assert (El : l = elems (root (reach rank dup ops o))) by (subst l; rewrite <- HH; reflexivity).
  rewrite El.
  split; [rewrite (h_begin_sim _ _ RP Sz), B1; reflexivity|].
  split; [rewrite (h_rbegin_sim _ _ RP Sz), B2; reflexivity|].
  split; [rewrite (h_walk_fwd_sim _ _ RP Sz ND), W1; reflexivity|].
  split; [rewrite (h_walk_bwd_sim _ _ RP Sz ND), W2; reflexivity|].
  intros id Hid. destruct (NP id Hid) as (N1 & P1).
  split.
  - rewrite (h_iter_next_sim _ _ id RP Sz ND Hid), N1. reflexivity.
  - rewrite (h_iter_prev_sim _ _ id RP Sz ND Hid), P1. reflexivity.
Qed.

(* ------------------------------------------------------------------ iterator stability on the heap *)
Definition no_rem (j : Z) (ops : list op) : Prop :=
  Forall (fun op => match op with ORem i => i <> j | _ => True end) ops.

Lemma insert_stable : forall dup x o fs j, inv rank dup fs -> In j (ids (root fs)) ->
  lookup j (root (snd (fst (fst (insert rank dup x o fs))))) = lookup j (root fs).
Proof.
  intros dup x o fs j I Hj. pose proof (insert_refines rank dup x o fs I) as H.
  destruct I as (_ & _ & _ & _ & Bd & _).
  destruct (insert rank dup x o fs) as [[[[s it] st'] o2] c]. destruct H as [E _]. cbn [fst snd].
  apply Bd in Hj. unfold lookup. unfold sp_insert, abs in E.
  destruct (if dup then None else sfind rank x (elems (root fs))) as [e|].
  - injection E as _ _ E _ _. rewrite E. reflexivity.
  - destruct (alloc o) as [ok o3]. destruct ok; injection E as _ _ E _ _; rewrite E; [|reflexivity].
    apply slookup_sins. lia.
Qed.

Lemma remove_stable : forall dup id fs j, inv rank dup fs -> j <> id ->
  lookup j (root (snd (fst (fst (remove id fs))))) = lookup j (root fs).
Proof.
  intros dup id fs j I Hj. pose proof (remove_refines rank dup id fs I) as H.
  destruct (remove id fs) as [[[s st'] dl] c]. destruct H as [E _]. cbn [fst snd].
  unfold lookup. unfold sp_remove, abs in E.
  destruct (slookup id (elems (root fs))) as [e|].
  - injection E as _ E _ _. rewrite E. apply slookup_sremove. assumption.
  - injection E as _ E _ _. rewrite E. reflexivity.
Qed.

Lemma run_stable : forall dup ops o fs j e, inv rank dup fs -> no_rem j ops ->
  lookup j (root fs) = Some e -> lookup j (root (fst (run rank dup ops o fs))) = Some e.
Proof.
  intros dup ops. induction ops as [|op ops IH]; intros o fs j e I NR L; [exact L|].
  inversion NR as [|? ? N1 N2]. subst.
  destruct op as [x|id|x]; cbn [run].
  - pose proof (insert_refines rank dup x o fs I) as IR.
    pose proof (insert_stable dup x o fs j I (lookup_some_in _ _ _ L)) as ST.
    destruct (insert rank dup x o fs) as [[[[s it] fs'] o'] rc]. destruct IR as [_ I']. cbn [fst snd] in ST.
    specialize (IH o' fs' j e I' N2). rewrite ST in IH. specialize (IH L).
    destruct (run rank dup ops o' fs') as [fin evs]. exact IH.
  - pose proof (remove_refines rank dup id fs I) as RR.
    pose proof (remove_stable dup id fs j I (not_eq_sym N1)) as ST.
    destruct (remove id fs) as [[[s fs'] dl] rc]. destruct RR as [_ I']. cbn [fst snd] in ST.
    specialize (IH o fs' j e I' N2). rewrite ST in IH. specialize (IH L).
    destruct (run rank dup ops o fs') as [fin evs]. exact IH.
  - destruct (tfind rank x fs) as [[s it] lg].
    specialize (IH o fs j e I N2 L). destruct (run rank dup ops o fs) as [fin evs]. exact IH.
Qed.

(* from the state after ANY history ops1, across ANY further history ops2 that does not remove j:
   the held iterator j stays in the heap's domain and keeps its data *)
Lemma hreach_stable : forall dup ops1 o1 ops2 o2 j e,
  no_rem j ops2 ->
  h_lookup (hreach dup ops1 o1) j = Some e ->
  exists hst', h_run rank dup ops2 o2 (hreach dup ops1 o1) = Some (hst', snd (run rank dup ops2 o2 (reach rank dup ops1 o1))) /\
               h_lookup hst' j = Some e /\ hget (hp hst') j <> None.
Proof.
  intros dup ops1 o1 ops2 o2 j e NR L.
  destruct (hreach_spec dup ops1 o1) as (_ & RP).
  pose proof (reach_inv rank dup ops1 o1) as I.
  destruct (h_run_sim dup ops2 o2 _ _ RP I) as (hst' & E & RP' & I').
  exists hst'. split; [exact E|].
  assert (ND : NoDup (ids (root (reach rank dup ops1 o1)))) by (destruct I as (_ & _ & _ & ND & _); exact ND).
  assert (ND' : NoDup (ids (root (fst (run rank dup ops2 o2 (reach rank dup ops1 o1)))))) by (destruct I' as (_ & _ & _ & ND' & _); exact ND').
  rewrite (Rep_lookup _ _ j RP ND) in L.
  pose proof (run_stable dup ops2 o2 _ j e I NR L) as L'.
  split.
  - rewrite (Rep_lookup _ _ j RP' ND'). exact L'.
  - apply (Rep_live _ _ j RP'). eapply lookup_some_in. exact L'.
Qed.

End HeapTop.
