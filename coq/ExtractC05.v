Require Extraction.
Require Import ExtrOcamlBasic.
From Zix Require Import RingSpec RingModel RingHuge.
Separate Extraction RingModel.next_power_of_two RingModel.ring_init RingModel.ring_step
  RingModel.ring_read_space RingModel.ring_write_space RingModel.ring_capacity RingModel.ring_peek
  RingModel.u32 RingModel.size RingHuge.huge_step RingHuge.spec_huge_step RingHuge.ring_mlock
  RingSpec.spec_step RingSpec.spec_init RingSpec.spec_capacity RingSpec.len.
