(* C11 — lemmas for inputs with ".." elements: the second pass (dot-dot collapsing with
   memmove and restart) refined to a loop over the text, then to cancellation on fields. *)
From Coq Require Import ZArith List Bool Lia ZifyBool.
From Zix Require Import PathNormSpec PathNormModel PathNormProofsSpec PathNormProofsModel.
Import ListNotations.
Local Open Scope Z_scope.

Definition W64 : Z := 18446744073709551616.

Lemma sz_small : forall x, 0 <= x < W64 -> sz x = x.
Proof. intros x H. unfold sz. apply Z.mod_small. exact H. Qed.

(* ---- the buffer as  text ++ NUL :: stale bytes ---------------------------------------------- *)
Lemma get_txt : forall t junk i, 0 <= i <= Z.of_nat (length t) ->
  get (t ++ 0 :: junk) i = nth (Z.to_nat i) t 0.
Proof.
  intros t junk i H. unfold get. replace (i <? 0) with false by lia.
  destruct (Nat.lt_ge_cases (Z.to_nat i) (length t)) as [L | L].
  - rewrite app_nth1 by exact L. reflexivity.
  - assert (Z.to_nat i = length t) as -> by lia.
    rewrite app_nth2 by lia. rewrite Nat.sub_diag. cbn. rewrite nth_overflow by lia. reflexivity.
Qed.

Lemma get_txt_nat : forall t junk (i : nat), (i <= length t)%nat ->
  get (t ++ 0 :: junk) (Z.of_nat i) = nth i t 0.
Proof. intros. rewrite get_txt by lia. rewrite Nat2Z.id. reflexivity. Qed.

Lemma set_mid : forall (a : list Z) x b v, set (a ++ x :: b) (Z.of_nat (length a)) v = a ++ v :: b.
Proof.
  intros a x b v. unfold set. replace (Z.of_nat (length a) <? 0) with false by lia.
  rewrite Nat2Z.id, app_length. cbn [length].
  destruct (length a <? length a + S (length b))%nat eqn:E; [|apply Nat.ltb_ge in E; lia].
  rewrite firstn_app, firstn_all, Nat.sub_diag. cbn [firstn]. rewrite app_nil_r.
  replace (S (length a)) with (length a + 1)%nat by lia.
  rewrite skipn_app, skipn_all2 by lia.
  replace (length a + 1 - length a)%nat with 1%nat by lia. reflexivity.
Qed.

(* ---- the second pass on the text --------------------------------------------------------------- *)
Definition nsd (c : Z) : bool := negb (c =? SEP) && negb (c =? DOT).

Definition fire (t : list Z) (i last : nat) : bool :=
  (last <? length t)%nat && (2 <? i)%nat && (nth (i - 2) t 0 =? SEP) && (nth (i - 1) t 0 =? DOT) &&
  (nth i t 0 =? DOT) && ((nth (i + 1) t 0 =? 0) || (nth (i + 1) t 0 =? SEP)).

Definition cut_i1 (t : list Z) (i : nat) : nat := if nth (i + 1) t 0 =? SEP then (i + 1)%nat else i.
Definition cut (t : list Z) (i last : nat) : list Z := firstn last t ++ skipn (cut_i1 t i + 1) t.

Definition nxt (t : list Z) (i next : nat) : nat :=
  if (1 <=? i)%nat && (nth (i - 1) t 0 =? SEP) then i else next.
(* "this byte shows that the current entry is a name": not a separator, and either not a dot
   or (at least) the third byte of the entry *)
Definition lcond (c : Z) (nx i : nat) : bool :=
  negb (c =? SEP) && (negb (c =? DOT) || (nx + 2 <=? i)%nat).
Definition lst (t : list Z) (i last next : nat) : nat :=
  if lcond (nth i t 0) (nxt t i next) i then nxt t i next else last.
(* an entry that is neither "." nor "..": it has a non-dot byte or at least three bytes *)
Definition isname (e : elem) : bool := existsb nsd e || (3 <=? length e)%nat.

Lemma nxt_le : forall t i next, (next <= i)%nat -> (nxt t i next <= i)%nat.
Proof. intros. unfold nxt. destruct ((1 <=? i)%nat && (nth (i - 1) t 0 =? SEP)); lia. Qed.

Fixpoint dd_abs (fuel : nat) (i : nat) (t : list Z) (last next : nat) : option (list Z) :=
  match fuel with
  | O => None
  | S f =>
      if (i <? length t)%nat then
        if fire t i last then
          let t' := cut t i last in dd_abs f O t' (length t') O
        else
          dd_abs f (S i) t (lst t i last next) (nxt t i next)
      else Some t
  end.

Lemma dotdot_at_fire : forall t junk i last, (i < length t)%nat ->
  dotdot_at (t ++ 0 :: junk) (Z.of_nat i) (Z.of_nat (length t)) (Z.of_nat last) = fire t i last.
Proof.
  intros t junk i last Hi. unfold dotdot_at, fire, is_sep.
  replace (Z.of_nat last <? Z.of_nat (length t)) with (last <? length t)%nat by lia.
  replace (Z.of_nat i >? 2) with (2 <? i)%nat by lia.
  destruct (2 <? i)%nat eqn:E2.
  - replace (Z.of_nat i - 2) with (Z.of_nat (i - 2)) by lia.
    replace (Z.of_nat i - 1) with (Z.of_nat (i - 1)) by lia.
    replace (Z.of_nat i + 1) with (Z.of_nat (i + 1)) by lia.
    rewrite !get_txt_nat by lia. reflexivity.
  - rewrite !andb_false_r. reflexivity.
Qed.

Lemma nth_nonzero_lt : forall (t : list Z) n, nth n t 0 <> 0 -> (n < length t)%nat.
Proof.
  intros t n H. destruct (Nat.lt_ge_cases n (length t)); [assumption|].
  rewrite nth_overflow in H by lia. congruence.
Qed.

Lemma cut_length : forall t i last, (i < length t)%nat -> (last <= i)%nat ->
  (length (cut t i last) < length t)%nat /\
  length (cut t i last) = (last + (length t - (cut_i1 t i + 1)))%nat /\ (cut_i1 t i < length t)%nat.
Proof.
  intros t i last Hi Hl. unfold cut.
  assert (Hi1 : (cut_i1 t i < length t)%nat).
  { unfold cut_i1. destruct (nth (i + 1) t 0 =? SEP) eqn:E; [|exact Hi]. apply nth_nonzero_lt. apply Z.eqb_eq in E. rewrite E. discriminate. }
  rewrite app_length, firstn_length, skipn_length. repeat split; try lia.
  assert (i <= cut_i1 t i)%nat by (unfold cut_i1; destruct (nth (i + 1) t 0 =? SEP); lia). lia.
Qed.

Lemma dd_abs_refine : forall fuel i t last next junk t',
  (last = length t \/ last <= i)%nat -> (next <= i)%nat ->
  Z.of_nat (length t + 1 + length junk) < W64 ->
  dd_abs fuel i t last next = Some t' ->
  exists junk',
    dotdot_loop fuel (Z.of_nat i) (Z.of_nat (length t)) (Z.of_nat last) (Z.of_nat next) (t ++ 0 :: junk)
    = Some (Z.of_nat (length t'), t' ++ 0 :: junk') /\
    (length t' + length junk' = length t + length junk)%nat.
Proof.
  induction fuel as [|f IH]; intros i t last next junk t' Hl Hn HW H; [discriminate|].
  cbn [dd_abs] in H. cbn [dotdot_loop].
  replace (Z.of_nat i <? Z.of_nat (length t)) with (i <? length t)%nat by lia.
  destruct (i <? length t)%nat eqn:Ei.
  2:{ inversion H; subst. exists junk. split; reflexivity. }
  apply Nat.ltb_lt in Ei. rewrite dotdot_at_fire by exact Ei.
  destruct (fire t i last) eqn:Ef.
  - (* collapse and restart *)
    assert (Hlast : (last <= i)%nat).
    { unfold fire in Ef. destruct (last <? length t)%nat eqn:E; [|discriminate]. apply Nat.ltb_lt in E. lia. }
    destruct (cut_length t i last Ei Hlast) as (CL1 & CL2 & Hi1).
    set (i1 := cut_i1 t i) in *.
    assert (Hii1 : (i <= i1)%nat) by (unfold i1, cut_i1; destruct (nth (i + 1) t 0 =? SEP); lia).
    replace (Z.of_nat i + 1) with (Z.of_nat (i + 1)) by lia.
    rewrite get_txt_nat by lia.
    assert (Ei1 : (if nth (i + 1) t 0 =? SEP then Z.of_nat (i + 1) else Z.of_nat i) = Z.of_nat i1).
    { unfold i1, cut_i1. destruct (nth (i + 1) t 0 =? SEP); reflexivity. }
    rewrite Ei1.
    set (k := (length t - (i1 + 1))%nat) in *.
    assert (Esl : sz (sz (Z.of_nat (length t) - Z.of_nat i1) - 1) = Z.of_nat k).
    { rewrite (sz_small (Z.of_nat (length t) - Z.of_nat i1)) by lia. rewrite sz_small by lia. lia. }
    rewrite Esl.
    assert (Er1 : sz (Z.of_nat (length t) - sz (sz (Z.of_nat (length t) - Z.of_nat last) - Z.of_nat k))
                  = Z.of_nat (length (cut t i last))).
    { rewrite (sz_small (Z.of_nat (length t) - Z.of_nat last)) by lia.
      rewrite (sz_small (Z.of_nat (length t) - Z.of_nat last - Z.of_nat k)) by lia. rewrite sz_small by lia. lia. }
    rewrite Er1.
    (* the memmove *)
    assert (Emm : exists x junk', memmove (t ++ 0 :: junk) (Z.of_nat last) (Z.of_nat i1 + 1) (Z.of_nat k)
                   = cut t i last ++ x :: junk' /\
                   (length (cut t i last) + length junk' = length t + length junk)%nat).
    { unfold memmove. rewrite !Nat2Z.id. replace (Z.to_nat (Z.of_nat i1 + 1)) with (i1 + 1)%nat by lia.
      assert (Esk : skipn (i1 + 1) (t ++ 0 :: junk) = skipn (i1 + 1) t ++ 0 :: junk).
      { rewrite skipn_app. replace (i1 + 1 - length t)%nat with 0%nat by lia. reflexivity. }
      rewrite Esk.
      assert (Efn : firstn k (skipn (i1 + 1) t ++ 0 :: junk) = skipn (i1 + 1) t).
      { rewrite firstn_app. rewrite skipn_length. replace (k - (length t - (i1 + 1)))%nat with 0%nat by lia.
        cbn [firstn]. rewrite app_nil_r. apply firstn_all2. rewrite skipn_length. lia. }
      rewrite Efn. rewrite skipn_length.
      assert (Ef1 : firstn last (t ++ 0 :: junk) = firstn last t).
      { rewrite firstn_app. replace (last - length t)%nat with 0%nat by lia. cbn [firstn]. apply app_nil_r. }
      rewrite Ef1.
      remember (skipn (last + (length t - (i1 + 1))) (t ++ 0 :: junk)) as rest eqn:Erest.
      assert (Lrest : length rest = (length t + 1 + length junk - (last + (length t - (i1 + 1))))%nat).
      { rewrite Erest, skipn_length, app_length. cbn [length]. lia. }
      destruct rest as [|x junk']; [cbn [length] in Lrest; lia|].
      exists x, junk'. split; [unfold cut; fold i1; rewrite <- app_assoc; reflexivity|].
      cbn [length] in Lrest. rewrite CL2. lia. }
    destruct Emm as (x & junk' & Emm & Lj). rewrite Emm. rewrite set_mid.
    destruct (IH 0%nat (cut t i last) (length (cut t i last)) 0%nat junk' t') as (junk'' & D1 & D2).
    + left. reflexivity.
    + lia.
    + lia.
    + exact H.
    + exists junk''. split; [exact D1|lia].
  - (* advance *)
    replace (Z.of_nat i >=? 1) with (1 <=? i)%nat by lia.
    assert (En : ((1 <=? i)%nat && (get (t ++ 0 :: junk) (Z.of_nat i - 1) =? SEP)) =
                 ((1 <=? i)%nat && (nth (i - 1) t 0 =? SEP))).
    { destruct (1 <=? i)%nat eqn:E1; [|reflexivity]. cbn [andb].
      replace (Z.of_nat i - 1) with (Z.of_nat (i - 1)) by lia. rewrite get_txt_nat by lia. reflexivity. }
    rewrite En. rewrite get_txt_nat by lia.
    set (next1 := nxt t i next) in *.
    set (last1 := lst t i last next) in *.
    assert (Hn1 : (next1 <= i)%nat) by (apply nxt_le; exact Hn).
    replace (if (1 <=? i)%nat && (nth (i - 1) t 0 =? SEP) then Z.of_nat i else Z.of_nat next) with (Z.of_nat next1)
      by (unfold next1, nxt; destruct ((1 <=? i)%nat && (nth (i - 1) t 0 =? SEP)); reflexivity).
    rewrite (sz_small (Z.of_nat next1 + 2)) by lia.
    replace (Z.of_nat i >=? Z.of_nat next1 + 2) with (next1 + 2 <=? i)%nat by lia.
    change (negb (nth i t 0 =? SEP) && (negb (nth i t 0 =? DOT) || (next1 + 2 <=? i)%nat)) with (lcond (nth i t 0) next1 i).
    replace (if lcond (nth i t 0) next1 i then Z.of_nat next1 else Z.of_nat last) with (Z.of_nat last1)
      by (unfold last1, lst; fold next1; destruct (lcond (nth i t 0) next1 i); reflexivity).
    replace (Z.of_nat i + 1) with (Z.of_nat (S i)) by lia.
    apply (IH (S i) t last1 next1 junk t'); [|lia|exact HW|exact H].
    unfold last1, lst. fold next1. destruct (lcond (nth i t 0) next1 i); [right; lia|destruct Hl; [left; assumption|right; lia]].
Qed.

(* ---- fuel-free reasoning about dd_abs --------------------------------------------------------- *)
Lemma dd_abs_mono : forall f i t last next r, dd_abs f i t last next = Some r ->
  forall f', (f <= f')%nat -> dd_abs f' i t last next = Some r.
Proof.
  induction f as [|f IH]; intros i t last next r H f' Hf; [discriminate|].
  destruct f' as [|f']; [lia|]. cbn [dd_abs] in *.
  destruct (i <? length t)%nat; [|exact H].
  destruct (fire t i last); apply (IH _ _ _ _ _ H); lia.
Qed.

Definition dd_res (i : nat) (t : list Z) (last next : nat) (r : list Z) : Prop :=
  exists f, dd_abs f i t last next = Some r.

Lemma dd_res_det : forall i t last next a b f,
  dd_res i t last next a -> dd_abs f i t last next = Some b -> a = b.
Proof.
  intros i t last next a b f [fa Ha] Hb.
  pose proof (dd_abs_mono _ _ _ _ _ _ Ha (Nat.max fa f) (Nat.le_max_l _ _)) as A.
  pose proof (dd_abs_mono _ _ _ _ _ _ Hb (Nat.max fa f) (Nat.le_max_r _ _)) as B0.
  congruence.
Qed.

Lemma dd_res_exit : forall i t last next, (length t <= i)%nat -> dd_res i t last next t.
Proof.
  intros. exists 1%nat. cbn [dd_abs]. destruct (i <? length t)%nat eqn:E; [apply Nat.ltb_lt in E; lia|reflexivity].
Qed.

Lemma dd_res_adv : forall i t last next r, (i < length t)%nat -> fire t i last = false ->
  dd_res (S i) t (lst t i last next) (nxt t i next) r ->
  dd_res i t last next r.
Proof.
  intros i t last next r Hi Hf [f H]. exists (S f). cbn [dd_abs].
  apply Nat.ltb_lt in Hi. rewrite Hi, Hf. exact H.
Qed.

Lemma dd_res_fire : forall i t last next r, (i < length t)%nat -> fire t i last = true ->
  dd_res 0 (cut t i last) (length (cut t i last)) 0 r -> dd_res i t last next r.
Proof.
  intros i t last next r Hi Hf [f H]. exists (S f). cbn [dd_abs].
  apply Nat.ltb_lt in Hi. rewrite Hi, Hf. exact H.
Qed.

Lemma dd_res_adv_inv : forall i t last next r, (i < length t)%nat -> fire t i last = false ->
  dd_res i t last next r ->
  dd_res (S i) t (lst t i last next) (nxt t i next) r.
Proof.
  intros i t last next r Hi Hf [f H]. destruct f as [|f]; [discriminate|]. cbn [dd_abs] in H.
  apply Nat.ltb_lt in Hi. rewrite Hi, Hf in H. exists f. exact H.
Qed.

(* termination for every text *)
Lemma dd_abs_total : forall fuel i t last next,
  (last = length t \/ last <= i)%nat -> (next <= i)%nat ->
  ((length t - i) + length t * (length t + 2) < fuel)%nat ->
  exists r, dd_abs fuel i t last next = Some r.
Proof.
  induction fuel as [|f IH]; intros i t last next Hl Hn Hf; [lia|].
  cbn [dd_abs]. destruct (i <? length t)%nat eqn:Ei; [|eexists; reflexivity].
  apply Nat.ltb_lt in Ei. destruct (fire t i last) eqn:Efire.
  - assert (Hlast : (last <= i)%nat).
    { unfold fire in Efire. destruct (last <? length t)%nat eqn:E; [|discriminate]. apply Nat.ltb_lt in E. lia. }
    destruct (cut_length t i last Ei Hlast) as (CL1 & _ & _).
    apply IH; [left; reflexivity|lia|]. nia.
  - pose proof (nxt_le t i next Hn) as Hn1.
    apply IH; [|lia|lia].
    unfold lst. destruct (lcond _ _ _); [right; lia|].
    destruct Hl; [left; assumption|right; lia].
Qed.

(* ---- reading the text around a position ------------------------------------------------------------ *)
Definition nonzero (e : list Z) : Prop := Forall (fun c => c <> 0) e.

Lemma nth_at : forall (A : list Z) c Bx, nth (length A) (A ++ c :: Bx) 0 = c.
Proof. intros. rewrite app_nth2 by lia. rewrite Nat.sub_diag. reflexivity. Qed.

Lemma nth_next : forall (A : list Z) c Bx, nth (length A + 1) (A ++ c :: Bx) 0 = hd 0 Bx.
Proof.
  intros. rewrite app_nth2 by lia. replace (length A + 1 - length A)%nat with 1%nat by lia.
  destruct Bx; reflexivity.
Qed.

Lemma nth_prev1 : forall (A' : list Z) y c Bx, nth (length (A' ++ [y]) - 1) ((A' ++ [y]) ++ c :: Bx) 0 = y.
Proof.
  intros. rewrite app_length. cbn [length]. replace (length A' + 1 - 1)%nat with (length A') by lia.
  rewrite <- app_assoc. apply nth_at.
Qed.

Lemma fire_needs : forall t i L, fire t i L = true ->
  (L < length t)%nat /\ (2 < i)%nat /\ nth (i - 2) t 0 = SEP /\ nth (i - 1) t 0 = DOT /\ nth i t 0 = DOT /\
  (nth (i + 1) t 0 = 0 \/ nth (i + 1) t 0 = SEP).
Proof.
  intros t i L H. unfold fire in H.
  apply andb_true_iff in H as [H H6]. apply andb_true_iff in H as [H H5]. apply andb_true_iff in H as [H H4].
  apply andb_true_iff in H as [H H3]. apply andb_true_iff in H as [H1 H2].
  apply orb_true_iff in H6. repeat split; lia.
Qed.

Lemma fire_at : forall A' x y c Bx L,
  fire ((A' ++ [x; y]) ++ c :: Bx) (length (A' ++ [x; y])) L =
  (L <? length ((A' ++ [x; y]) ++ c :: Bx))%nat && (1 <=? length A')%nat && (x =? SEP) && (y =? DOT) &&
  (c =? DOT) && ((hd 0 Bx =? 0) || (hd 0 Bx =? SEP)).
Proof.
  intros. unfold fire. rewrite nth_at, nth_next.
  assert (E1 : nth (length (A' ++ [x; y]) - 1) ((A' ++ [x; y]) ++ c :: Bx) 0 = y).
  { replace (A' ++ [x; y]) with ((A' ++ [x]) ++ [y]) by (rewrite <- app_assoc; reflexivity). apply nth_prev1. }
  assert (E2 : nth (length (A' ++ [x; y]) - 2) ((A' ++ [x; y]) ++ c :: Bx) 0 = x).
  { rewrite app_length. cbn [length]. replace (length A' + 2 - 2)%nat with (length A') by lia.
    rewrite <- app_assoc. apply nth_at. }
  rewrite E1, E2.
  replace (2 <? length (A' ++ [x; y]))%nat with (1 <=? length A')%nat
    by (rewrite app_length; cbn [length]; lia). reflexivity.
Qed.

Lemma fire_small : forall t i L, (i <= 2)%nat -> fire t i L = false.
Proof. intros. unfold fire. replace (2 <? i)%nat with false by lia. rewrite andb_false_r. reflexivity. Qed.

(* ---- scanning one element (a maximal run of non-separator bytes) ------------------------------ *)
Section ScanElem.
  Variables pre post e : list Z.
  Variables last next : nat.
  Variable r : list Z.
  Let T := pre ++ e ++ post.
  Hypothesis Hsf : sepfree e.
  Hypothesis Hnz : nonzero e.
  Hypothesis Hne : e <> [].
  Hypothesis Hpre : pre = [] \/ exists p', pre = p' ++ [SEP].
  Hypothesis Hnext : pre = [] -> next = 0%nat.
  Hypothesis Hpost : post = [] \/ exists q, post = SEP :: q.

  Lemma scan_chars : forall e2 e1, e = e1 ++ e2 ->
    ~ (e = DD /\ (last < length T)%nat /\ (2 <= length pre)%nat) ->
    dd_res (length pre + length e) T (if isname e then length pre else last) (length pre) r ->
    dd_res (length pre + length e1) T (if isname e1 then length pre else last)
           (match e1 with [] => next | _ => length pre end) r.
  Proof.
    induction e2 as [|c e2' IH]; intros e1 He Hnf Hr.
    - rewrite app_nil_r in He. subst e1. destruct e; [congruence|exact Hr].
    - assert (ET : T = (pre ++ e1) ++ c :: (e2' ++ post)).
      { unfold T. rewrite He. rewrite <- !app_assoc. reflexivity. }
      assert (Ei : (length pre + length e1)%nat = length (pre ++ e1)) by (rewrite app_length; reflexivity).
      assert (Hc : c <> SEP /\ c <> 0).
      { unfold sepfree, nonzero in *. rewrite He in Hsf, Hnz. apply Forall_app in Hsf as [_ S2]. apply Forall_app in Hnz as [_ Z2].
        inversion S2; inversion Z2; subst. split; assumption. }
      assert (Hhd : e2' <> [] -> hd 0 (e2' ++ post) <> 0 /\ hd 0 (e2' ++ post) <> SEP).
      { intro N. destruct e2' as [|c2 e3]; [congruence|]. cbn [app hd].
        unfold sepfree, nonzero in *. rewrite He in Hsf, Hnz. apply Forall_app in Hsf as [_ S2]. apply Forall_app in Hnz as [_ Z2].
        inversion S2; inversion Z2; subst. inversion H2; inversion H6; subst. split; assumption. }
      apply dd_res_adv.
      + rewrite Ei, ET. rewrite !app_length. cbn [length]. lia.
      + (* no collapse inside the element *)
        rewrite Ei, ET.
        destruct e1 as [|y e1'] using rev_ind.
        * rewrite app_nil_r. destruct Hpre as [-> | [p' ->]]; [apply fire_small; cbn; lia|].
          destruct p' as [|z p''] using rev_ind; [apply fire_small; cbn; lia|].
          replace ((p'' ++ [z]) ++ [SEP]) with (p'' ++ [z; SEP]) by (rewrite <- app_assoc; reflexivity).
          rewrite fire_at.
          replace (SEP =? DOT) with false by reflexivity. rewrite !andb_false_r. reflexivity.
        * clear IHe1'. destruct e1' as [|x e1''] using rev_ind.
          -- cbn [app]. destruct Hpre as [-> | [p' ->]]; [apply fire_small; cbn; lia|].
             replace ((p' ++ [SEP]) ++ [y]) with (p' ++ [SEP; y]) by (rewrite <- app_assoc; reflexivity).
             rewrite fire_at.
             destruct ((y =? DOT) && (c =? DOT)) eqn:Edd.
             ++ apply andb_true_iff in Edd as [Ey Ec]. apply Z.eqb_eq in Ey, Ec. subst y c.
                destruct e2' as [|c2 e3].
                ** (* the element is "..": excluded by the hypothesis *)
                   cbn [app] in He. destruct ((last <? length ((p' ++ [SEP; DOT]) ++ DOT :: [] ++ post))%nat && (1 <=? length p')%nat) eqn:EL.
                   --- exfalso. apply Hnf. apply andb_true_iff in EL as [L1 L2]. split; [exact He|]. split.
                       +++ unfold T. rewrite He. apply Nat.ltb_lt in L1. rewrite !app_length in *. cbn [length app] in *. lia.
                       +++ rewrite app_length. cbn [length]. apply Nat.leb_le in L2. lia.
                   --- change (isname [DOT]) with false. cbv iota.
                       apply andb_false_iff in EL as [L1 | L2]; [rewrite L1|rewrite L2, andb_false_r]; reflexivity.
                ** destruct (Hhd ltac:(discriminate)) as [H0 HS]. cbn [app hd] in *.
                   replace (c2 =? 0) with false by lia. replace (c2 =? SEP) with false by lia. rewrite !andb_false_r. reflexivity.
             ++ destruct (y =? DOT); [|rewrite !andb_false_r; reflexivity]. cbn [andb] in Edd. rewrite Edd.
                rewrite !andb_false_r. reflexivity.
          -- clear IHe1''. replace (pre ++ (e1'' ++ [x]) ++ [y]) with ((pre ++ e1'') ++ [x; y])
               by (rewrite <- !app_assoc; reflexivity).
             rewrite fire_at.
             assert (x <> SEP).
             { unfold sepfree in Hsf. rewrite He in Hsf. rewrite Forall_app in Hsf. destruct Hsf as [S1 _].
               rewrite Forall_app in S1. destruct S1 as [S1 _]. rewrite Forall_app in S1. destruct S1 as [_ S1].
               inversion S1; assumption. }
             replace (x =? SEP) with false by lia. rewrite !andb_false_r. reflexivity.
      + (* the state after the byte *)
        assert (En : nxt T (length pre + length e1) (match e1 with [] => next | _ => length pre end) = length pre).
        { unfold nxt. rewrite Ei, ET. destruct e1 as [|y e1'] using rev_ind.
          - rewrite app_nil_r. destruct Hpre as [-> | [p' ->]].
            + cbn. apply Hnext. reflexivity.
            + rewrite nth_prev1. rewrite Z.eqb_refl, andb_true_r.
              replace (1 <=? length (p' ++ [SEP]))%nat with true by (rewrite app_length; cbn [length]; lia).
              reflexivity.
          - clear IHe1'. rewrite app_assoc. rewrite nth_prev1.
            assert (y <> SEP).
            { unfold sepfree in Hsf. rewrite He in Hsf. rewrite Forall_app in Hsf. destruct Hsf as [S1 _].
              rewrite Forall_app in S1. destruct S1 as [_ S1]. inversion S1; assumption. }
            replace (y =? SEP) with false by lia. rewrite andb_false_r.
            destruct (e1' ++ [y]) eqn:E; [destruct e1'; discriminate|reflexivity]. }
        assert (Ec : nth (length pre + length e1) T 0 = c) by (rewrite Ei, ET; apply nth_at).
        unfold lst. rewrite En, Ec.
        assert (Elc : lcond c (length pre) (length pre + length e1) = nsd c || (2 <=? length e1)%nat).
        { unfold lcond, nsd. destruct Hc as [Hc1 _]. replace (c =? SEP) with false by lia. cbn [negb andb].
          f_equal. lia. }
        rewrite Elc.
        assert (Ename : isname (e1 ++ [c]) = (nsd c || (2 <=? length e1)%nat) || isname e1).
        { unfold isname. rewrite existsb_app, app_length. cbn [existsb length]. rewrite orb_false_r.
          destruct (existsb nsd e1), (nsd c); cbn [orb]; try reflexivity;
            destruct (2 <=? length e1)%nat eqn:A1, (3 <=? length e1)%nat eqn:A2, (3 <=? length e1 + 1)%nat eqn:A3;
            try reflexivity; lia. }
        specialize (IH (e1 ++ [c])). rewrite <- app_assoc in IH. specialize (IH He Hnf Hr).
        rewrite app_length in IH. cbn [length] in IH. replace (length pre + (length e1 + 1))%nat with (S (length pre + length e1)) in IH by lia.
        rewrite Ename in IH.
        destruct (e1 ++ [c]) eqn:E1c; [destruct e1; discriminate|]. cbv beta iota in IH.
        destruct (nsd c || (2 <=? length e1)%nat); cbn [orb] in IH; exact IH.
  Qed.
End ScanElem.

(* ---- skipping / collapsing whole fields ------------------------------------------------------------ *)

Lemma last_not_sep : forall e, sepfree e -> e <> [] -> exists e' y, e = e' ++ [y] /\ y <> SEP.
Proof.
  intros e Hs Hne. destruct (exists_last Hne) as (e' & y & ->). exists e', y. split; [reflexivity|].
  unfold sepfree in Hs. rewrite Forall_app in Hs. destruct Hs as [_ Hs]. inversion Hs; assumption.
Qed.

(* a field followed by a separator, no collapse *)
Lemma skip1 : forall pre e q last next r,
  sepfree e -> nonzero e -> e <> [] ->
  (pre = [] \/ exists p', pre = p' ++ [SEP]) -> (pre = [] -> next = 0%nat) ->
  ~ (e = DD /\ (last < length (pre ++ e ++ SEP :: q))%nat /\ (2 <= length pre)%nat) ->
  (forall nx, dd_res (length (pre ++ e ++ [SEP])) (pre ++ e ++ SEP :: q)
                     (if isname e then length pre else last) nx r) ->
  dd_res (length pre) (pre ++ e ++ SEP :: q) last next r.
Proof.
  intros pre e q last next r Hsf Hnz Hne Hpre Hnext Hnf Hr.
  pose proof (scan_chars pre (SEP :: q) e last next r Hsf Hnz Hne Hpre Hnext e [] eq_refl Hnf) as SC.
  cbn [length existsb] in SC. rewrite Nat.add_0_r in SC. apply SC. clear SC.
  (* the separator byte *)
  destruct (last_not_sep e Hsf Hne) as (e' & y & Ee & Hy).
  assert (ET : pre ++ e ++ SEP :: q = ((pre ++ e') ++ [y]) ++ SEP :: q).
  { rewrite Ee. rewrite <- !app_assoc. reflexivity. }
  assert (Ei : (length pre + length e)%nat = length ((pre ++ e') ++ [y])).
  { rewrite Ee. rewrite !app_length. cbn [length]. lia. }
  apply dd_res_adv.
  - rewrite Ei, ET. rewrite (app_length _ (SEP :: q)). cbn [length]. lia.
  - destruct (fire _ _ _) eqn:Ef; [|reflexivity]. apply fire_needs in Ef as (_ & _ & _ & _ & Ef & _).
    rewrite Ei, ET, nth_at in Ef. discriminate.
  - assert (En : nxt (pre ++ e ++ SEP :: q) (length pre + length e) (length pre) = length pre).
    { unfold nxt. rewrite Ei, ET, nth_prev1. replace (y =? SEP) with false by lia. rewrite andb_false_r. reflexivity. }
    assert (Ec : nth (length pre + length e) (pre ++ e ++ SEP :: q) 0 = SEP) by (rewrite Ei, ET; apply nth_at).
    unfold lst, lcond. rewrite En, Ec. rewrite Z.eqb_refl. cbn [negb andb].
    specialize (Hr (length pre)).
    replace (length (pre ++ e ++ [SEP])) with (S (length pre + length e)) in Hr
      by (rewrite !app_length; cbn [length]; lia).
    exact Hr.
Qed.

(* the last field (no separator after it), no collapse: the pass ends, text unchanged *)
Lemma skip_last : forall pre e last next,
  sepfree e -> nonzero e -> e <> [] ->
  (pre = [] \/ exists p', pre = p' ++ [SEP]) -> (pre = [] -> next = 0%nat) ->
  ~ (e = DD /\ (last < length (pre ++ e))%nat /\ (2 <= length pre)%nat) ->
  dd_res (length pre) (pre ++ e) last next (pre ++ e).
Proof.
  intros pre e last next Hsf Hnz Hne Hpre Hnext Hnf.
  pose proof (scan_chars pre [] e last next (pre ++ e) Hsf Hnz Hne Hpre Hnext e [] eq_refl) as SC.
  rewrite app_nil_r in SC. cbn [length existsb] in SC. rewrite Nat.add_0_r in SC. apply SC; [exact Hnf|].
  apply dd_res_exit. rewrite app_length. lia.
Qed.

(* a ".." field with a name before it: collapse and restart *)
Lemma fire_dd : forall p' post last next r,
  (post = [] \/ exists q, post = SEP :: q) ->
  (last < length ((p' ++ [SEP]) ++ DD ++ post))%nat -> (1 <= length p')%nat ->
  dd_res 0 (firstn last ((p' ++ [SEP]) ++ DD ++ post) ++ tl post)
           (length (firstn last ((p' ++ [SEP]) ++ DD ++ post) ++ tl post)) 0 r ->
  dd_res (length (p' ++ [SEP])) ((p' ++ [SEP]) ++ DD ++ post) last next r.
Proof.
  intros p' post last next r Hpost Hl Hp Hr.
  set (T := (p' ++ [SEP]) ++ DD ++ post) in *.
  assert (ET0 : T = (p' ++ [SEP]) ++ DOT :: (DOT :: post)) by reflexivity.
  assert (ET1 : T = (p' ++ [SEP; DOT]) ++ DOT :: post) by (unfold T; rewrite <- !app_assoc; reflexivity).
  (* first dot *)
  apply dd_res_adv.
  - rewrite ET0. rewrite (app_length _ (DOT :: DOT :: post)). cbn [length]. lia.
  - destruct (fire _ _ _) eqn:Ef; [|reflexivity]. apply fire_needs in Ef as (_ & _ & _ & Ef & _).
    rewrite ET0 in Ef. rewrite nth_prev1 in Ef. discriminate.
  - assert (E0 : nth (length (p' ++ [SEP])) T 0 = DOT) by (rewrite ET0; apply nth_at).
    assert (En0 : nxt T (length (p' ++ [SEP])) next = length (p' ++ [SEP])).
    { unfold nxt. rewrite ET0, nth_prev1, Z.eqb_refl, andb_true_r.
      replace (1 <=? length (p' ++ [SEP]))%nat with true by (rewrite app_length; cbn [length]; lia). reflexivity. }
    unfold lst, lcond. rewrite En0, E0. rewrite Z.eqb_refl.
    replace (length (p' ++ [SEP]) + 2 <=? length (p' ++ [SEP]))%nat with false by lia. cbn [negb orb]. rewrite andb_false_r.
    (* second dot: collapse *)
    assert (Ei : S (length (p' ++ [SEP])) = length (p' ++ [SEP; DOT])) by (rewrite !app_length; cbn [length]; lia).
    rewrite Ei. apply dd_res_fire.
    + rewrite ET1. rewrite (app_length _ (DOT :: post)). cbn [length]. lia.
    + rewrite ET1 at 1. rewrite fire_at. rewrite <- ET1.
      replace (last <? length T)%nat with true by lia. replace (1 <=? length p')%nat with true by lia.
      rewrite !Z.eqb_refl. cbn [andb]. destruct Hpost as [-> | [q ->]]; reflexivity.
    + assert (Ecut : cut T (length (p' ++ [SEP; DOT])) last = firstn last T ++ tl post).
      { assert (Enx : nth (length (p' ++ [SEP; DOT]) + 1) T 0 = hd 0 post) by (rewrite ET1; apply nth_next).
        unfold cut, cut_i1. rewrite Enx. f_equal.
        destruct Hpost as [-> | [q ->]].
        - cbn [hd]. replace (0 =? SEP) with false by reflexivity. cbn [tl].
          rewrite ET1. rewrite skipn_all2; [reflexivity|]. rewrite !app_length. cbn [length]. lia.
        - cbn [hd tl]. rewrite Z.eqb_refl. rewrite ET1.
          replace (length (p' ++ [SEP; DOT]) + 1 + 1)%nat with (length ((p' ++ [SEP; DOT]) ++ [DOT; SEP]) + 0)%nat
            by (rewrite !app_length; cbn [length]; lia).
          replace ((p' ++ [SEP; DOT]) ++ DOT :: SEP :: q) with (((p' ++ [SEP; DOT]) ++ [DOT; SEP]) ++ q)
            by (rewrite <- !app_assoc; reflexivity).
          rewrite skipn_app, Nat.add_0_r, skipn_all, Nat.sub_diag. reflexivity. }
      rewrite Ecut. exact Hr.
Qed.

(* ---- skipping a block of fields ------------------------------------------------------------------------ *)
Definition gf0 (e : elem) : Prop := sepfree e /\ nonzero e /\ e <> [].

Fixpoint track (p L : nat) (X : list elem) : nat :=
  match X with
  | [] => L
  | e :: X' => track (p + length e + 1) (if isname e then p else L) X'
  end.

Fixpoint nofire (Tl p L : nat) (X : list elem) : Prop :=
  match X with
  | [] => True
  | e :: X' => ~ (e = DD /\ (L < Tl)%nat /\ (2 <= p)%nat) /\
               nofire Tl (p + length e + 1) (if isname e then p else L) X'
  end.

Lemma body_cons : forall e X, body (e :: X) = e ++ SEP :: body X.
Proof. intros. unfold body. cbn [map concat]. rewrite <- app_assoc. reflexivity. Qed.

Lemma body_length_cons : forall e X, length (body (e :: X)) = (length e + 1 + length (body X))%nat.
Proof. intros. rewrite body_cons, app_length. cbn [length]. lia. Qed.

Lemma skip_block : forall X pre rest T last next r,
  T = pre ++ body X ++ rest ->
  Forall gf0 X -> (pre = [] \/ exists p', pre = p' ++ [SEP]) -> (pre = [] -> next = 0%nat) ->
  nofire (length T) (length pre) last X ->
  (forall nx, (pre ++ body X = [] -> nx = 0%nat) ->
              dd_res (length pre + length (body X)) T (track (length pre) last X) nx r) ->
  dd_res (length pre) T last next r.
Proof.
  induction X as [|e X IH]; intros pre rest T last next r ET HX Hpre Hnext Hnf Hr.
  - cbn in Hr. rewrite Nat.add_0_r in Hr. apply Hr. rewrite app_nil_r. exact Hnext.
  - pose proof (Forall_inv HX) as (Hs & Hz & Hn). pose proof (Forall_inv_tail HX) as HX'.
    cbn [nofire track] in *. destruct Hnf as [Hnf1 Hnf2].
    assert (ET1 : T = pre ++ e ++ SEP :: (body X ++ rest)).
    { rewrite ET, body_cons. rewrite <- !app_assoc. reflexivity. }
    rewrite ET1. apply skip1; try assumption.
    + rewrite <- ET1. exact Hnf1.
    + intros nx. rewrite <- ET1.
      assert (EL : length (pre ++ e ++ [SEP]) = (length pre + length e + 1)%nat)
        by (rewrite !app_length; cbn [length]; lia).
      apply (IH (pre ++ e ++ [SEP]) rest T _ nx r).
      * rewrite ET1. rewrite <- !app_assoc. reflexivity.
      * exact HX'.
      * right. exists (pre ++ e). rewrite <- app_assoc. reflexivity.
      * intro A. destruct pre; destruct e; discriminate.
      * rewrite EL. exact Hnf2.
      * intros nx' _. rewrite EL. specialize (Hr nx'). rewrite body_length_cons in Hr.
        replace (length pre + length e + 1 + length (body X))%nat with (length pre + (length e + 1 + length (body X)))%nat by lia.
        apply Hr. intro A. rewrite body_cons in A. destruct pre; destruct e; discriminate.
Qed.

Lemma track_app : forall X Y p L,
  track p L (X ++ Y) = track (p + length (body X)) (track p L X) Y.
Proof.
  induction X as [|e X IH]; intros Y p L; [cbn; rewrite Nat.add_0_r; reflexivity|].
  cbn [app track]. rewrite IH, body_length_cons. f_equal. lia.
Qed.

Lemma nofire_app : forall X Y Tl p L,
  nofire Tl p L X -> nofire Tl (p + length (body X)) (track p L X) Y -> nofire Tl p L (X ++ Y).
Proof.
  induction X as [|e X IH]; intros Y Tl p L H1 H2; [cbn in *; rewrite Nat.add_0_r in H2; exact H2|].
  cbn [app nofire track] in *. destruct H1 as [H1 H1']. split; [exact H1|].
  apply IH; [exact H1'|]. rewrite body_length_cons in H2.
  replace (p + length e + 1 + length (body X))%nat with (p + (length e + 1 + length (body X)))%nat by lia. exact H2.
Qed.

Definition allDD (D : list elem) : Prop := Forall (fun e => e = DD) D.
Definition nm (e : elem) : Prop := gf0 e /\ isname e = true.
Definition allnm (N : list elem) : Prop := Forall nm N.

Lemma dd_gf0 : gf0 DD.
Proof. repeat split; try discriminate; repeat constructor; discriminate. Qed.

Lemma nm_not_dd : forall e, nm e -> e <> DD.
Proof. intros e [_ H] ->. discriminate. Qed.

Lemma track_dds : forall D Tl p L, allDD D -> ~ (L < Tl)%nat -> nofire Tl p L D /\ track p L D = L.
Proof.
  induction D as [|e D IH]; intros Tl p L HD HL; [split; [exact I|reflexivity]|].
  inversion HD; subst. cbn [nofire track]. change (isname DD) with false. cbv iota.
  destruct (IH Tl (p + length DD + 1)%nat L H2 HL) as [I1 I2]. repeat split; [|exact I1|exact I2].
  intros (_ & A & _). contradiction.
Qed.

Lemma nofire_names : forall N Tl p L, allnm N -> nofire Tl p L N.
Proof.
  induction N as [|e N IH]; intros Tl p L HN; [exact I|].
  inversion HN; subst. cbn [nofire]. split; [|apply IH; assumption].
  intros (A & _). apply (nm_not_dd e H1). exact A.
Qed.

Lemma track_names_last : forall N n p L, allnm (N ++ [n]) -> track p L (N ++ [n]) = (p + length (body N))%nat.
Proof.
  intros N n p L H. rewrite track_app. cbn [track].
  apply Forall_app in H as [_ H]. inversion H; subst. destruct H2 as [_ Hn]. rewrite Hn. reflexivity.
Qed.

Lemma allDD_gf0 : forall D, allDD D -> Forall gf0 D.
Proof. intros D H. eapply Forall_impl; [|exact H]. intros a ->. apply dd_gf0. Qed.

Lemma allnm_gf0 : forall N, allnm N -> Forall gf0 N.
Proof. intros N H. eapply Forall_impl; [|exact H]. intros a [A _]. exact A. Qed.

(* ---- the text of a field list, and one scan over it ------------------------------------------------- *)
Definition TX (k : Z) (F : list elem) : list Z := root_acc k ++ join_elems F.

Lemma join_app_body : forall A Y, Y <> [] -> join_elems (A ++ Y) = body A ++ join_elems Y.
Proof.
  induction A as [|a A IH]; intros Y HY; [reflexivity|].
  cbn [app]. destruct (A ++ Y) as [|b rest] eqn:E; [destruct A; [cbn in E; congruence|discriminate]|].
  change (join_elems (a :: b :: rest)) with (a ++ SEP :: join_elems (b :: rest)).
  rewrite <- E, IH by exact HY. rewrite body_cons, <- app_assoc. reflexivity.
Qed.

Lemma pre_body : forall k X, (k = 0 \/ k = 1) ->
  root_acc k ++ body X = [] \/ exists p', root_acc k ++ body X = p' ++ [SEP].
Proof.
  intros k X Hk. destruct X as [|x X'] using rev_ind.
  - cbn. rewrite app_nil_r. destruct Hk as [-> | ->]; [left; reflexivity|right; exists []; reflexivity].
  - right. rewrite body_snoc. exists (root_acc k ++ body X' ++ x). rewrite <- !app_assoc. reflexivity.
Qed.

Lemma dn_snoc : forall D N X' e, allDD D -> allnm N -> D ++ N = X' ++ [e] ->
  exists D' N', X' = D' ++ N' /\ allDD D' /\ allnm N' /\ ((e = DD /\ N' = []) \/ nm e).
Proof.
  intros D N X' e HD HN E. destruct N as [|n N0] using rev_ind.
  - rewrite app_nil_r in E. subst D. apply Forall_app in HD as [HD' He]. inversion He; subst.
    exists X', []. rewrite app_nil_r. repeat split; auto; try constructor.
  - clear IHN0. rewrite app_assoc in E. apply app_inj_tail in E as [<- <-].
    apply Forall_app in HN as [HN0 Hn]. inversion Hn; subst.
    exists D, N0. repeat split; auto.
Qed.

Lemma nofire_dn : forall Tl p D N, allDD D -> allnm N -> nofire Tl p Tl (D ++ N) /\
  track p Tl (D ++ N) = track (p + length (body D)) Tl N.
Proof.
  intros Tl p D N HD HN. destruct (track_dds D Tl p Tl HD ltac:(lia)) as [A1 A2]. split.
  - apply nofire_app; [exact A1|]. apply nofire_names. exact HN.
  - rewrite track_app, A2. reflexivity.
Qed.

(* what may follow the kept fields: nothing, a trailing separator (empty last field), or a last "." *)
Definition tlok (tl : list elem) : Prop := tl = [] \/ tl = [[]] \/ tl = [[DOT]].

Lemma scan_nocancel : forall k D N tl, (k = 0 \/ k = 1) -> allDD D -> allnm N -> tlok tl ->
  dd_res (length (root_acc k)) (TX k (D ++ N ++ tl)) (length (TX k (D ++ N ++ tl))) 0 (TX k (D ++ N ++ tl)).
Proof.
  intros k D N tl Hk HD HN Htl.
  assert (Hroot : root_acc k = [] \/ exists p', root_acc k = p' ++ [SEP]).
  { destruct Hk as [-> | ->]; [left; reflexivity|right; exists []; reflexivity]. }
  destruct Htl as [-> | [-> | ->]].
  - rewrite app_nil_r. destruct (D ++ N) as [|a0 l0] eqn:EX.
    + apply dd_res_exit. unfold TX. cbn. rewrite app_nil_r. lia.
    + destruct (exists_last (l := a0 :: l0) ltac:(discriminate)) as (X' & e & EX'). rewrite EX' in *. clear EX' a0 l0.
      destruct (dn_snoc D N X' e HD HN EX) as (D' & N' & -> & HD' & HN' & He).
      set (T := TX k ((D' ++ N') ++ [e])).
      assert (ET : T = root_acc k ++ body (D' ++ N') ++ e) by (unfold T, TX; rewrite join_snoc; reflexivity).
      destruct (nofire_dn (length T) (length (root_acc k)) D' N' HD' HN') as [NF TR].
      assert (Hge : gf0 e) by (destruct He as [[-> _] | [A _]]; [apply dd_gf0|exact A]).
      destruct Hge as (Hs & Hz & Hne).
      apply (skip_block (D' ++ N') (root_acc k) e T _ 0%nat T ET); auto.
      * apply Forall_app. split; [apply allDD_gf0|apply allnm_gf0]; assumption.
      * intros nx Hnx.
        replace (length (root_acc k) + length (body (D' ++ N')))%nat with (length (root_acc k ++ body (D' ++ N')))
          by apply app_length.
        assert (ET2 : T = (root_acc k ++ body (D' ++ N')) ++ e) by (rewrite ET, <- app_assoc; reflexivity).
        rewrite ET2 at 1 3. apply skip_last; auto; [apply pre_body; exact Hk|].
        intros (Ed & A & _). rewrite <- ET2 in A. destruct He as [[_ ->] | Hnm].
        -- rewrite app_nil_r in *. destruct (track_dds D' (length T) (length (root_acc k)) (length T) HD' ltac:(lia)) as [_ TD].
           rewrite TD in A. lia.
        -- apply (nm_not_dd e Hnm Ed).
  - set (T := TX k (D ++ N ++ [[]])).
    assert (ET : T = root_acc k ++ body (D ++ N) ++ []).
    { unfold T, TX. rewrite app_assoc, join_snoc. reflexivity. }
    destruct (nofire_dn (length T) (length (root_acc k)) D N HD HN) as [NF TR].
    apply (skip_block (D ++ N) (root_acc k) [] T _ 0%nat T ET); auto.
    + apply Forall_app. split; [apply allDD_gf0|apply allnm_gf0]; assumption.
    + intros nx _. apply dd_res_exit. rewrite ET, !app_length. cbn [length]. lia.
  - (* a last "." field: scanned like a field that is not ".." *)
    set (T := TX k (D ++ N ++ [[DOT]])).
    assert (ET : T = root_acc k ++ body (D ++ N) ++ [DOT]).
    { unfold T, TX. rewrite app_assoc, join_snoc. reflexivity. }
    destruct (nofire_dn (length T) (length (root_acc k)) D N HD HN) as [NF TR].
    apply (skip_block (D ++ N) (root_acc k) [DOT] T _ 0%nat T ET); auto.
    + apply Forall_app. split; [apply allDD_gf0|apply allnm_gf0]; assumption.
    + intros nx Hnx.
      replace (length (root_acc k) + length (body (D ++ N)))%nat with (length (root_acc k ++ body (D ++ N)))
        by apply app_length.
      assert (ET2 : T = (root_acc k ++ body (D ++ N)) ++ [DOT]) by (rewrite ET, <- app_assoc; reflexivity).
      rewrite ET2 at 1 3. apply skip_last; auto.
      * repeat constructor; discriminate.
      * repeat constructor; discriminate.
      * discriminate.
      * apply pre_body; exact Hk.
      * intros (Ed & _). discriminate.
Qed.

Lemma firstn_exact : forall (A Bx : list Z), firstn (length A) (A ++ Bx) = A.
Proof. intros. rewrite firstn_app, firstn_all, Nat.sub_diag. cbn. apply app_nil_r. Qed.

(* a scan that meets  name ".."  : collapse, then restart on the shorter text *)
Lemma scan_cancel : forall k D N' n Y r, (k = 0 \/ k = 1) -> allDD D -> allnm (N' ++ [n]) ->
  dd_res 0 (TX k ((D ++ N') ++ match Y with [] => [[]] | _ => Y end))
           (length (TX k ((D ++ N') ++ match Y with [] => [[]] | _ => Y end))) 0 r ->
  dd_res (length (root_acc k)) (TX k ((D ++ N' ++ [n]) ++ DD :: Y))
         (length (TX k ((D ++ N' ++ [n]) ++ DD :: Y))) 0 r.
Proof.
  intros k D N' n Y r Hk HD HN Hr.
  set (X := D ++ N' ++ [n]). set (T := TX k (X ++ DD :: Y)).
  set (post := match Y with [] => [] | _ => SEP :: join_elems Y end).
  assert (Hroot : root_acc k = [] \/ exists p', root_acc k = p' ++ [SEP]).
  { destruct Hk as [-> | ->]; [left; reflexivity|right; exists []; reflexivity]. }
  assert (EJ : join_elems (X ++ DD :: Y) = body X ++ DD ++ post).
  { destruct Y as [|y Y'].
    - unfold post. rewrite join_snoc, app_nil_r. reflexivity.
    - rewrite join_app_body by discriminate. reflexivity. }
  assert (ET : T = root_acc k ++ body X ++ DD ++ post) by (unfold T, TX; rewrite EJ; reflexivity).
  pose proof (Forall_app_l := proj1 (Forall_app nm N' [n])).
  assert (Hn : nm n) by (apply Forall_app in HN as [_ H]; inversion H; assumption).
  assert (HN'n : allnm (N' ++ [n])) by exact HN.
  destruct (nofire_dn (length T) (length (root_acc k)) D (N' ++ [n]) HD HN) as [NF TR].
  rewrite track_names_last in TR by exact HN.
  apply (skip_block X (root_acc k) (DD ++ post) T _ 0%nat r ET); auto.
  - unfold X. apply Forall_app. split; [apply allDD_gf0|apply allnm_gf0]; assumption.
  - intros nx _. unfold X at 2. rewrite TR.
    (* position of the ".." field *)
    destruct Hn as ((Hns & Hnz & Hnne) & _).
    set (p' := root_acc k ++ body (D ++ N') ++ n).
    assert (EP : root_acc k ++ body X = p' ++ [SEP]).
    { unfold X, p'. rewrite (app_assoc D N' [n]), body_snoc. rewrite <- !app_assoc. reflexivity. }
    assert (ET2 : T = (p' ++ [SEP]) ++ DD ++ post) by (rewrite ET, <- EP, <- app_assoc; reflexivity).
    replace (length (root_acc k) + length (body X))%nat with (length (p' ++ [SEP])) by (rewrite <- EP; apply app_length).
    rewrite ET2.
    assert (EL : (length (root_acc k) + length (body D) + length (body N'))%nat = length (root_acc k ++ body (D ++ N'))).
    { assert (EB : body (D ++ N') = body D ++ body N') by (unfold body; rewrite map_app, concat_app; reflexivity).
      rewrite EB, !app_length. lia. }
    rewrite EL.
    assert (ET3 : (p' ++ [SEP]) ++ DD ++ post = (root_acc k ++ body (D ++ N')) ++ (n ++ [SEP] ++ DD ++ post)).
    { unfold p'. rewrite <- !app_assoc. reflexivity. }
    apply fire_dd.
    + unfold post. destruct Y; [left; reflexivity|right; eexists; reflexivity].
    + rewrite ET3. rewrite (app_length (root_acc k ++ body (D ++ N'))). rewrite (app_length n).
      destruct n; [congruence|cbn [length]; lia].
    + unfold p'. rewrite !app_length. destruct n; [congruence|cbn [length]; lia].
    + rewrite ET3 at 1 2. rewrite firstn_exact.
      assert (EF : (root_acc k ++ body (D ++ N')) ++ tl post =
                   TX k ((D ++ N') ++ match Y with [] => [[]] | _ => Y end)).
      { unfold TX, post. destruct Y as [|y Y'].
        - rewrite join_snoc. cbn [tl]. rewrite <- app_assoc. reflexivity.
        - rewrite join_app_body by discriminate. cbn [tl]. rewrite <- app_assoc. reflexivity. }
      rewrite EF. exact Hr.
Qed.

Lemma dd_res_root : forall q L r, dd_res 1 (SEP :: q) L 0 r -> dd_res 0 (SEP :: q) L 0 r.
Proof.
  intros q L r H. apply dd_res_adv; [cbn; lia|apply fire_small; lia|].
  unfold lst, lcond, nxt. cbn [nth Nat.leb andb]. rewrite Z.eqb_refl. cbn [negb andb]. exact H.
Qed.

(* ---- the spec machine is invariant under the collapse ------------------------------------------------ *)
Lemma nm_proper : forall n, nm n -> proper n = true.
Proof.
  intros n ((_ & _ & Hne) & Hn). apply proper_intro.
  - destruct n; [congruence|reflexivity].
  - destruct (is_dot n) eqn:E; [|reflexivity]. apply is_dot_eq in E. subst n. discriminate.
  - destruct (is_dotdot n) eqn:E; [|reflexivity]. apply is_dotdot_eq in E. subst n. discriminate.
Qed.

Lemma machine_cancel : forall R A n Y, nm n ->
  normal_elems R (A ++ [n; DD] ++ Y) = normal_elems R (A ++ match Y with [] => [[]] | _ => Y end).
Proof.
  intros R A n Y Hn. pose proof (nm_proper n Hn) as P.
  unfold normal_elems. rewrite !fold_left_app.
  destruct (fold_left (norm_step R) A ([], false)) as [o t].
  assert (S2 : fold_left (norm_step R) [n; DD] (o, t) = (o, true)).
  { cbn [fold_left]. unfold norm_step at 2. rewrite (proper_not_empty n P), (proper_not_dot n P), (proper_not_dotdot n P).
    cbn [orb]. unfold norm_step. cbn. rewrite (proper_not_dotdot n P). reflexivity. }
  rewrite S2. destruct Y as [|y Y'].
  - reflexivity.
  - cbn [fold_left]. rewrite (step_trail_irrelevant R o true t). reflexivity.
Qed.

(* ---- field lists in which every field is ".." or a name -------------------------------------------------- *)
Definition fld (e : elem) : Prop := e = DD \/ nm e.

Lemma split_plain : forall H, Forall fld H ->
  (exists D N, H = D ++ N /\ allDD D /\ allnm N) \/
  (exists D N' n C, H = (D ++ N' ++ [n]) ++ DD :: C /\ allDD D /\ allnm (N' ++ [n]) /\ Forall fld C).
Proof.
  induction H as [|e H IH]; intro HF.
  - left. exists [], []. repeat split; constructor.
  - pose proof (Forall_inv HF) as He. specialize (IH (Forall_inv_tail HF)).
    destruct He as [-> | He].
    + destruct IH as [(D & N & -> & HD & HN) | (D & N' & n & C & -> & HD & HN & HC)].
      * left. exists (DD :: D), N. repeat split; [constructor; auto|exact HN].
      * right. exists (DD :: D), N', n, C. repeat split; [constructor; auto|exact HN|exact HC].
    + destruct IH as [(D & N & -> & HD & HN) | (D & N' & n & C & -> & HD & HN & HC)].
      * destruct D as [|d D'].
        -- left. exists [], (e :: N). repeat split; [constructor|constructor; assumption].
        -- inversion HD; subst. right. exists [], [], e, (D' ++ N). repeat split.
           ++ constructor.
           ++ cbn [app]. constructor; [exact He|constructor].
           ++ apply Forall_app. split; [eapply Forall_impl; [|exact H2]; intros a ->; left; reflexivity|].
              eapply Forall_impl; [|exact HN]. intros a Ha. right. exact Ha.
      * destruct D as [|d D'].
        -- right. exists [], (e :: N'), n, C. repeat split; [constructor|constructor; assumption|exact HC].
        -- inversion HD; subst. right. exists [], [], e, ((D' ++ N' ++ [n]) ++ DD :: C). repeat split.
           ++ constructor.
           ++ cbn [app]. constructor; [exact He|constructor].
           ++ apply Forall_app. split.
              ** apply Forall_app. split; [eapply Forall_impl; [|exact H2]; intros a ->; left; reflexivity|].
                 eapply Forall_impl; [|exact HN]. intros a Ha. right. exact Ha.
              ** constructor; [left; reflexivity|exact HC].
Qed.

Lemma pass2_plain : forall k, (k = 0 \/ k = 1) -> forall n H tl,
  (length H <= n)%nat -> Forall fld H -> tlok tl ->
  exists D N tl', allDD D /\ allnm N /\ tlok tl' /\
    dd_res (length (root_acc k)) (TX k (H ++ tl)) (length (TX k (H ++ tl))) 0 (TX k (D ++ N ++ tl')) /\
    (forall R, normal_elems R (H ++ tl) = normal_elems R (D ++ N ++ tl')) /\
    (forall P : elem -> Prop, Forall P H -> Forall P (D ++ N)).
Proof.
  intros k Hk. induction n as [|n IH]; intros H tl Hlen HF Htl.
  - destruct H; [|cbn in Hlen; lia]. exists [], [], tl.
    split; [constructor|]. split; [constructor|]. split; [exact Htl|]. split; [|split; [reflexivity|intros; constructor]].
    apply (scan_nocancel k [] [] tl Hk); [constructor|constructor|exact Htl].
  - destruct (split_plain H HF) as [(D & N & -> & HD & HN) | (D & N' & n0 & C & -> & HD & HN & HC)].
    + exists D, N, tl. repeat split; auto.
      * rewrite <- app_assoc. apply scan_nocancel; auto.
      * intro R. rewrite <- app_assoc. reflexivity.
    + (* one collapse, then the induction hypothesis on the shorter list *)
      assert (Hn0 : nm n0) by (apply Forall_app in HN as [_ A]; inversion A; assumption).
      assert (HN' : allnm N') by (apply Forall_app in HN as [A _]; exact A).
      assert (HDN : Forall fld (D ++ N')).
      { apply Forall_app. split; [eapply Forall_impl; [|exact HD]; intros a ->; left; reflexivity|].
        eapply Forall_impl; [|exact HN']. intros a Ha. right. exact Ha. }
      set (Y := C ++ tl).
      assert (EF : ((D ++ N' ++ [n0]) ++ DD :: C) ++ tl = (D ++ N' ++ [n0]) ++ DD :: Y).
      { unfold Y. rewrite <- !app_assoc. reflexivity. }
      assert (Hshort : exists H' tl'', (D ++ N') ++ match Y with [] => [[]] | _ => Y end = H' ++ tl'' /\
                        Forall fld H' /\ tlok tl'' /\ (length H' <= n)%nat /\
                        (forall P : elem -> Prop, Forall P ((D ++ N' ++ [n0]) ++ DD :: C) -> Forall P H')).
      { repeat (rewrite ?app_length in Hlen; cbn [length] in Hlen).
        assert (Sub : forall P : elem -> Prop, Forall P ((D ++ N' ++ [n0]) ++ DD :: C) -> Forall P (D ++ N') /\ Forall P C).
        { intros P HP. rewrite !Forall_app in HP. destruct HP as [[P1 [P2 _]] P3]. rewrite Forall_app.
          inversion P3; subst. repeat split; assumption. }
        destruct C as [|c C'].
        - destruct Htl as [-> | [-> | ->]]; unfold Y; cbn [app].
          + exists (D ++ N'), [[]]. repeat split; auto; [right; left; reflexivity|rewrite app_length; lia|intros P HP; apply (Sub P HP)].
          + exists (D ++ N'), [[]]. repeat split; auto; [right; left; reflexivity|rewrite app_length; lia|intros P HP; apply (Sub P HP)].
          + exists (D ++ N'), [[DOT]]. repeat split; auto; [right; right; reflexivity|rewrite app_length; lia|intros P HP; apply (Sub P HP)].
        - exists ((D ++ N') ++ c :: C'), tl. unfold Y. cbn [app]. repeat split; auto.
          + rewrite <- !app_assoc. reflexivity.
          + apply Forall_app. split; assumption.
          + cbn [length] in Hlen. rewrite !app_length. cbn [length]. lia.
          + intros P HP. destruct (Sub P HP). apply Forall_app. split; assumption. }
      destruct Hshort as (H' & tl'' & EH & HF' & Htl'' & Hlen' & Hsub).
      destruct (IH H' tl'' Hlen' HF' Htl'') as (D2 & N2 & tl2 & HD2 & HN2 & Htl2 & Hres & Hm & HP2).
      exists D2, N2, tl2. repeat split; auto.
      * rewrite EF. apply scan_cancel; auto. rewrite EH.
        destruct Hk as [-> | ->]; [exact Hres|].
        unfold TX in *. change (root_acc 1) with [SEP] in *. cbn [app length] in *. apply dd_res_root. exact Hres.
      * intro R. rewrite EF. rewrite <- Hm, <- EH.
        replace ((D ++ N' ++ [n0]) ++ DD :: Y) with ((D ++ N') ++ [n0; DD] ++ Y) by (rewrite <- !app_assoc; reflexivity).
        apply machine_cancel. exact Hn0.
Qed.
