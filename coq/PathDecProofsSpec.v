(* C10 — lemmas about the C++17 spec functions of PathDecSpec.v (lists only, no indices) *)
From Coq Require Import ZArith List Bool Lia ZifyBool.
From Zix Require Import PathDecSpec.
Import ListNotations.
Local Open Scope Z_scope.

Definition seps (r : str) : Prop := Forall (fun c => is_sep c = true) r.
Definition nosep (n : str) : Prop := Forall (fun c => is_sep c = false) n.
Definition nodot (n : str) : Prop := Forall (fun c => is_dot c = false) n.

Definition nonnil (x : str) : bool := negb (is_nil x).

(* ---- generic list facts ---- *)
Lemma last_app_nonnil : forall {A} (a b : list A) d, b <> [] -> last (a ++ b) d = last b d.
Proof.
  induction a; intros b d Hb; [reflexivity|].
  cbn [app]. specialize (IHa b d Hb). cbn [last].
  destruct (a0 ++ b) eqn:E; [|exact IHa].
  apply app_eq_nil in E. destruct E; contradiction.
Qed.

Lemma removelast_snoc : forall {A} (a : list A) x, removelast (a ++ [x]) = a.
Proof. intros. apply removelast_last. Qed.

Lemma filter_repeat_nil : forall k, filter nonnil (repeat [] k) = [].
Proof. induction k; cbn; auto. Qed.

Lemma filter_single_nonnil : forall L : str, L <> [] -> filter nonnil [L] = [L].
Proof. intros [|c L] H; [contradiction|reflexivity]. Qed.

(* ---- drop_seps ---- *)
Lemma drop_seps_seps_app : forall r x, seps r -> drop_seps (r ++ x) = drop_seps x.
Proof.
  induction r; intros x H; [reflexivity|]. inversion H; subst. cbn [app drop_seps].
  rewrite H2. now apply IHr.
Qed.

Lemma drop_seps_head : forall c t, is_sep c = false -> drop_seps (c :: t) = c :: t.
Proof. intros c t H. cbn [drop_seps]. now rewrite H. Qed.

Lemma lead_split : forall s, exists l, s = l ++ drop_seps s /\ seps l.
Proof.
  induction s as [|c s IH]; [exists []; split; [reflexivity|constructor]|].
  destruct (is_sep c) eqn:E.
  - destruct IH as (l & Hl & Hs). exists (c :: l). cbn [drop_seps]. rewrite E. split.
    + cbn [app]. now f_equal.
    + constructor; assumption.
  - exists []. rewrite drop_seps_head by assumption. split; [reflexivity|constructor].
Qed.

Lemma seps_drop_nil : forall r, seps r -> drop_seps r = [].
Proof. intros r H. rewrite <- (app_nil_r r). now rewrite drop_seps_seps_app. Qed.

(* ---- split_sep ---- *)
Lemma split_sep_not_nil : forall x, split_sep x <> [].
Proof.
  destruct x as [|c t]; cbn [split_sep]; [discriminate|].
  destruct (is_sep c); [discriminate|]. destruct (split_sep t); discriminate.
Qed.

Lemma split_sep_app_sep : forall a c b, is_sep c = true ->
  split_sep (a ++ c :: b) = split_sep a ++ split_sep b.
Proof.
  induction a as [|h a IH]; intros c b Hc.
  - cbn [app split_sep]. rewrite Hc. reflexivity.
  - cbn [app split_sep]. rewrite (IH c b Hc).
    destruct (is_sep h); [reflexivity|].
    destruct (split_sep a) eqn:E; [exfalso; now apply (split_sep_not_nil a)|reflexivity].
Qed.

Lemma split_sep_nosep : forall n, nosep n -> split_sep n = [n].
Proof.
  induction n as [|c n IH]; intros H; [reflexivity|]. inversion H; subst.
  cbn [split_sep]. rewrite H2, (IH H3). reflexivity.
Qed.

Lemma split_sep_seps_app : forall r x, seps r ->
  split_sep (r ++ x) = repeat [] (length r) ++ split_sep x.
Proof.
  induction r as [|c r IH]; intros x H; [reflexivity|]. inversion H; subst.
  cbn [app split_sep length repeat]. rewrite H2. now rewrite IH.
Qed.

Lemma last_piece_snoc_nonnil : forall x c, is_sep c = false -> last (split_sep (x ++ [c])) [] <> [].
Proof.
  induction x as [|h x IH]; intros c Hc.
  - cbn [app split_sep]. rewrite Hc. cbn. discriminate.
  - cbn [app split_sep]. specialize (IH c Hc).
    destruct (split_sep (x ++ [c])) as [|h' r'] eqn:E; [exfalso; now apply (split_sep_not_nil (x ++ [c]))|].
    destruct (is_sep h).
    + exact IH.
    + destruct r'; [cbn; discriminate|exact IH].
Qed.

(* ---- elements ---- *)
Definition pieces_to_elems (ps : list str) : list str :=
  filter nonnil (removelast ps) ++ [last ps []].

Lemma elements_unfold : forall s,
  elements s = match drop_seps s with [] => [] | _ => pieces_to_elems (split_sep (drop_seps s)) end.
Proof. intros. unfold elements. destruct (drop_seps s); reflexivity. Qed.

Lemma elements_seps_app : forall r x, seps r -> elements (r ++ x) = elements x.
Proof. intros. rewrite !elements_unfold. now rewrite drop_seps_seps_app. Qed.

Lemma elements_seps : forall r, seps r -> elements r = [].
Proof. intros. rewrite elements_unfold. now rewrite seps_drop_nil. Qed.

Lemma elements_name : forall n, nosep n -> n <> [] -> elements n = [n].
Proof.
  intros n H Hn. rewrite elements_unfold. destruct n as [|c t]; [contradiction|].
  inversion H; subst. rewrite (drop_seps_head c t H2).
  rewrite (split_sep_nosep _ H). reflexivity.
Qed.

(* the element list of  a r n  where a starts and ends with a name character, r is a non-empty
   separator run and n (possibly empty) has no separator *)
Lemma elements_snoc : forall h t a0 c r n,
  is_sep h = false -> h :: t = a0 ++ [c] -> is_sep c = false ->
  seps r -> r <> [] -> nosep n ->
  elements ((h :: t) ++ r ++ n) = elements (h :: t) ++ [n].
Proof.
  intros h t a0 c r n Hh Ha Hc Hr Hrn Hn.
  rewrite !elements_unfold. cbn [app]. rewrite !drop_seps_head by assumption.
  destruct r as [|c0 r']; [contradiction|]. inversion Hr; subst.
  change (h :: t ++ (c0 :: r') ++ n) with ((h :: t) ++ c0 :: (r' ++ n)).
  rewrite split_sep_app_sep by assumption.
  rewrite split_sep_seps_app by assumption. rewrite (split_sep_nosep n Hn).
  set (X := split_sep (h :: t)).
  assert (HX : X <> []) by apply split_sep_not_nil.
  assert (HL : last X [] <> []) by (unfold X; rewrite Ha; now apply last_piece_snoc_nonnil).
  unfold pieces_to_elems.
  replace (X ++ repeat [] (length r') ++ [n]) with ((X ++ repeat [] (length r')) ++ [n])
    by now rewrite <- app_assoc.
  rewrite removelast_snoc, last_last.
  rewrite filter_app, filter_repeat_nil, app_nil_r.
  f_equal.
  rewrite (app_removelast_last [] HX) at 1. rewrite filter_app. f_equal.
  now apply filter_single_nonnil.
Qed.

(* ---- filename ---- *)
Lemma std_filename_last_piece : forall s, std_filename s = last (split_sep s) [].
Proof.
  intros s. unfold std_filename. rewrite elements_unfold.
  destruct (lead_split s) as (l & Hl & Hs).
  remember (drop_seps s) as rel eqn:Hrel. clear Hrel. subst s.
  rewrite split_sep_seps_app by assumption.
  rewrite last_app_nonnil by apply split_sep_not_nil.
  destruct rel; [reflexivity|].
  unfold pieces_to_elems. now rewrite last_last.
Qed.

Lemma std_filename_app : forall a n, nosep n ->
  (a = [] \/ exists a0 c, a = a0 ++ [c] /\ is_sep c = true) ->
  std_filename (a ++ n) = n.
Proof.
  intros a n Hn [->|(a0 & c & -> & Hc)]; rewrite std_filename_last_piece.
  - cbn [app]. now rewrite (split_sep_nosep n Hn).
  - rewrite <- app_assoc. cbn [app]. rewrite split_sep_app_sep by assumption.
    rewrite (split_sep_nosep n Hn). apply last_last.
Qed.

(* ---- stem / extension ---- *)
Lemma last_dot_none : forall y, nodot y -> last_dot y = None.
Proof.
  induction y as [|c y IH]; intros H; [reflexivity|]. inversion H; subst.
  cbn [last_dot]. rewrite (IH H3), H2. reflexivity.
Qed.

Lemma last_dot_app : forall x y, nodot y -> last_dot (x ++ 46 :: y) = Some (length x).
Proof.
  induction x as [|c x IH]; intros y H.
  - cbn [app last_dot]. rewrite (last_dot_none y H). reflexivity.
  - cbn [app last_dot length]. now rewrite (IH y H).
Qed.

Lemma str_eqb_eq : forall a b, str_eqb a b = true <-> a = b.
Proof.
  induction a as [|x a IH]; destruct b as [|y b]; cbn [str_eqb]; split; intros H; try discriminate; try reflexivity.
  - apply andb_true_iff in H as [H1 H2]. apply IH in H2. f_equal; [lia|assumption].
  - injection H as -> ->. apply andb_true_iff. split; [lia|now apply IH].
Qed.

Lemma str_eqb_neq : forall a b, str_eqb a b = false <-> a <> b.
Proof.
  intros a b. split.
  - intros H E. apply str_eqb_eq in E. congruence.
  - intros H. destruct (str_eqb a b) eqn:E; [apply str_eqb_eq in E; contradiction|reflexivity].
Qed.

(* ---- paths ---- *)
Lemma path_is_empty_as_path : forall t, path_is_empty (as_path t) = is_nil t.
Proof.
  intros [|c t]; [reflexivity|]. unfold path_is_empty, as_path. cbn [fst snd has_root_dir is_nil].
  destruct (is_sep c) eqn:E; [reflexivity|]. cbn [negb andb].
  rewrite elements_unfold. rewrite drop_seps_head by assumption.
  unfold pieces_to_elems. destruct (filter nonnil _); reflexivity.
Qed.
