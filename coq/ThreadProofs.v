(* C18: lemmas about ThreadModel. *)
From Coq Require Import ZArith List Bool Arith Lia.
From Zix Require Import SemErrnoModel SemErrnoProofs ThreadModel.
Import ListNotations.
Local Open Scope Z_scope.

Definition create_env (sc : create_script) (size fn arg : Z) (e : penv) : penv :=
  snd (thread_create_model sc size fn arg e).

(* the stack size carried by the attribute object when pthread_create receives it *)
Definition attr_stack (sc : create_script) (size : Z) (e : penv) : Z :=
  if r_set sc =? 0 then size
  else if r_init sc =? 0 then e_default e
  else attr_lookup (e_attrs e) O (e_default e).

Lemma create_calls_lemma sc size fn arg e :
  e_calls (create_env sc size fn arg e) =
  e_calls e ++ [CAttrInit O; CSetStack O size; CCreate (Some O) fn arg; CAttrDestroy O].
Proof.
  unfold create_env, thread_create_model, env_attr_destroy, env_create, env_setstacksize, env_attr_init.
  cbn [snd]. destruct (r_init sc =? 0), (r_set sc =? 0), (r_create sc =? 0);
    cbn; rewrite <- ?app_assoc; reflexivity.
Qed.

Lemma create_started_lemma sc size fn arg e :
  e_started (create_env sc size fn arg e) =
  e_started e ++ (if r_create sc =? 0
                  then [{| th_fn := fn; th_arg := arg; th_stack := attr_stack sc size e |}] else []).
Proof.
  unfold create_env, thread_create_model, env_attr_destroy, env_create, env_setstacksize, env_attr_init,
    attr_stack.
  cbn [snd]. destruct (r_init sc =? 0), (r_set sc =? 0), (r_create sc =? 0);
    cbn; rewrite ?app_nil_r; reflexivity.
Qed.

Lemma create_status_lemma sc size fn arg e :
  fst (thread_create_model sc size fn arg e) = errno_status (r_create sc).
Proof. reflexivity. Qed.

Lemma stack_at_least_lemma sc size e :
  r_init sc = 0 -> r_set sc = glibc_setstack_result size -> STACK_MIN <= e_default e ->
  size <= attr_stack sc size e.
Proof.
  intros Hi Hs Hd. unfold attr_stack, glibc_setstack_result in *. rewrite Hs, Hi.
  destruct (Z.ltb_spec size STACK_MIN).
  - change (EINVAL =? 0) with false. cbn. lia.
  - cbn. lia.
Qed.

(* ------------------------------------------------------------------ ideal life cycle *)
Lemma nth_error_iupd_same {A} (l : list A) : forall i x t, nth_error l i = Some t -> nth_error (iupd i x l) i = Some x.
Proof. induction l as [|y l IH]; intros [|i] x t H; cbn in *; try discriminate; eauto. Qed.

Lemma nth_error_iupd_other {A} (l : list A) : forall i j x, i <> j -> nth_error (iupd i x l) j = nth_error l j.
Proof.
  induction l as [|y l IH]; intros [|i] [|j] x H; cbn; try reflexivity; try contradiction.
  apply IH. congruence.
Qed.

Lemma writes_of_app i m1 m2 : writes_of i (m1 ++ m2) = writes_of i m1 ++ writes_of i m2.
Proof. unfold writes_of. rewrite filter_app, map_app. reflexivity. Qed.

(* invariant relating the current state to the initial bodies *)
Definition linv (bodies : list (list (Z * Z))) (s : isys) : Prop :=
  length (i_threads s) = length bodies /\
  (forall i t, nth_error (i_threads s) i = Some t ->
     exists b, nth_error bodies i = Some b /\ writes_of i (i_mem s) ++ i_body t = b /\
               (i_returned t = true -> i_body t = [])) /\
  (forall j, In j (i_joins s) ->
     j_status j = SUCCESS /\
     exists b, nth_error bodies (j_thread j) = Some b /\ writes_of (j_thread j) (j_mem j) = b).

Lemma length_iupd {A} (l : list A) : forall i x, length (iupd i x l) = length l.
Proof. induction l as [|y l IH]; intros [|i] x; cbn; auto. Qed.

Lemma linv_step bodies ch s : linv bodies s -> linv bodies (istep ch s).
Proof.
  intros (HL & HT & HJ). destruct ch as [i|i]; cbn [istep];
    destruct (nth_error (i_threads s) i) as [t|] eqn:N; try exact (conj HL (conj HT HJ)).
  - destruct (HT i t N) as (b & Hb & Hw & Hr).
    destruct (i_body t) as [|w rest] eqn:B.
    + (* the function returns *)
      repeat split; cbn [i_threads i_mem i_joins]; [rewrite length_iupd; exact HL | | apply HJ; assumption | apply HJ; assumption].
      intros k t' Hk. destruct (Nat.eq_dec i k) as [<-|Hne].
      * rewrite (nth_error_iupd_same _ _ _ _ N) in Hk. inversion Hk; subst t'. cbn [i_body i_returned].
        exists b. repeat split; auto.
      * rewrite nth_error_iupd_other in Hk by assumption. apply HT. exact Hk.
    + (* one write *)
      repeat split; cbn [i_threads i_mem i_joins]; [rewrite length_iupd; exact HL | | apply HJ; assumption | apply HJ; assumption].
      intros k t' Hk. destruct (Nat.eq_dec i k) as [<-|Hne].
      * rewrite (nth_error_iupd_same _ _ _ _ N) in Hk. inversion Hk; subst t'. cbn [i_body i_returned].
        exists b. repeat split; [exact Hb | | discriminate].
        rewrite writes_of_app. unfold writes_of at 2. cbn [filter fst]. rewrite Nat.eqb_refl. cbn [map snd].
        rewrite <- app_assoc. exact Hw.
      * rewrite nth_error_iupd_other in Hk by assumption.
        destruct (HT k t' Hk) as (b' & Hb' & Hw' & Hr'). exists b'. repeat split; auto.
        rewrite writes_of_app. unfold writes_of at 2. cbn [filter fst].
        destruct (Nat.eqb_spec i k) as [E|_]; [contradiction|]. cbn [map]. rewrite app_nil_r. exact Hw'.
  - destruct (i_returned t) eqn:R; [|exact (conj HL (conj HT HJ))].
    repeat split; cbn [i_threads i_mem i_joins]; try assumption;
      apply in_app_or in H as [H|[<-|[]]]; try (apply HJ; exact H); cbn [j_status j_thread j_mem].
    + reflexivity.
    + destruct (HT i t N) as (b & Hb & Hw & Hr). exists b. split; [exact Hb|].
      rewrite (Hr R), app_nil_r in Hw. exact Hw.
Qed.

Lemma linv_init bodies : linv bodies (iinit bodies).
Proof.
  repeat split; cbn [iinit i_threads i_mem i_joins].
  - apply map_length.
  - intros i t H. rewrite nth_error_map in H. destruct (nth_error bodies i) as [b|] eqn:N; [|discriminate].
    cbn in H. inversion H; subst t. exists b. repeat split; auto. discriminate.
  - contradiction.
  - contradiction.
Qed.

Lemma linv_run bodies sched : forall s, linv bodies s -> linv bodies (irun sched s).
Proof. induction sched as [|ch rest IH]; intros s H; cbn [irun]; auto using linv_step. Qed.
