(* C06 — lemmas about the AVL model, part 3: the container (state), refinement of the abstract
   sorted list by every operation, invariants of all reachable states *)
From Coq Require Import ZArith List Bool Lia ZifyBool Permutation.
From Zix Require Import AvlSpec AvlModel AvlProofs AvlProofsRemove.
Import ListNotations.
Local Open Scope Z_scope.

Section State.
Variable rank : elt -> Z.
Notation irank := (irank rank).
Notation sorted := (sorted rank).
Notation sins := (sins rank).

(* no two stored elements compare equal (holds when duplicates are refused) *)
Definition rank_inj (l : list item) : Prop :=
  forall a b, In a l -> In b l -> irank a = irank b -> a = b.

Definition inv (dup : bool) (st : state) : Prop :=
  sorted (elems (root st)) /\ avl (root st) /\ size st = count (root st) /\
  NoDup (ids (root st)) /\ (forall i, In i (ids (root st)) -> 0 <= i < nextid st) /\
  0 <= nextid st /\ (dup = false -> rank_inj (elems (root st))).

Definition abs (st : state) : sstate := (elems (root st), nextid st).

Lemma inv_init : forall dup, inv dup init.
Proof.
  intros dup. unfold inv, init. cbn. repeat split; try lia; try constructor.
  intros _ a b [].
Qed.

Lemma sins_in : forall x l y, In y (sins x l) <-> y = x \/ In y l.
Proof.
  intros x l y. split.
  - intros H. apply (Permutation_in _ (Permutation_sym (sins_perm rank x l))) in H.
    destruct H as [<-|H]; [left; reflexivity|right; assumption].
  - intros H. apply (Permutation_in _ (sins_perm rank x l)). destruct H as [->|H]; [left; reflexivity|right; assumption].
Qed.

Lemma sins_length : forall x l, length (sins x l) = S (length l).
Proof. intros. symmetry. apply (Permutation_length (sins_perm rank x l)). Qed.

Lemma sorted_remove_mid : forall l1 x l2, sorted (l1 ++ x :: l2) -> sorted (l1 ++ l2).
Proof.
  induction l1 as [|a l1 IH]; intros x l2; cbn [app AvlSpec.sorted].
  - intros [_ H]. exact H.
  - intros [F S]. split; [|eapply IH; exact S].
    apply Forall_app in F as [F1 F2]. apply Forall_cons_iff in F2 as [_ F2].
    apply Forall_app. split; assumption.
Qed.

Lemma filter_noid : forall id (l : list item), ~ In id (map fst l) ->
  filter (fun y => negb (fst y =? id)) l = l.
Proof.
  induction l as [|a l IH]; cbn [filter map In]; intros H; [reflexivity|].
  destruct (fst a =? id) eqn:C; [exfalso; apply H; left; lia|].
  cbn [negb]. rewrite IH; [reflexivity|]. intros H1. apply H. right. assumption.
Qed.

Lemma sremove_mid : forall id x l1 l2, ~ In id (map fst l1) -> ~ In id (map fst l2) ->
  sremove id (l1 ++ (id, x) :: l2) = l1 ++ l2.
Proof.
  intros id x l1 l2 H1 H2. unfold sremove. rewrite filter_app. cbn [filter fst].
  rewrite Z.eqb_refl. cbn [negb]. rewrite !filter_noid by assumption. reflexivity.
Qed.

Lemma slookup_mid : forall id x l1 l2, ~ In id (map fst l1) ->
  slookup id (l1 ++ (id, x) :: l2) = Some (id, x).
Proof.
  intros id x l1 l2. unfold slookup. induction l1 as [|a l1 IH]; cbn [app List.find map In fst]; intros H.
  - rewrite Z.eqb_refl. reflexivity.
  - destruct (fst a =? id) eqn:C; [exfalso; apply H; left; lia|].
    apply IH. intros H1. apply H. right. assumption.
Qed.

Lemma slookup_none : forall id l, ~ In id (map fst l) -> slookup id l = None.
Proof.
  intros id l. unfold slookup. induction l as [|a l IH]; cbn [List.find map In]; intros H; [reflexivity|].
  destruct (fst a =? id) eqn:C; [exfalso; apply H; left; lia|].
  apply IH. intros H1. apply H. right. assumption.
Qed.

(* ------------------------------------------------------------------ insert *)
Lemma insert_refines : forall dup x o st, inv dup st ->
  let '(s, it, st', o', _) := insert rank dup x o st in
  (s, it, abs st', o') = sp_insert rank dup x o (abs st) /\ inv dup st'.
Proof.
  intros dup x o st (S & A & Sz & ND & Bd & Nn & RI). unfold insert, sp_insert, abs.
  pose proof (ins_elems rank dup x (nextid st) (root st) S) as IE.
  assert (KEEP : inv dup (mkState (root st) (size st) (nextid st + 1))).
  { unfold inv. cbn [root size nextid].
    split; [assumption|]. split; [assumption|]. split; [assumption|]. split; [assumption|].
    split; [intros i Hi; apply Bd in Hi; lia|]. split; [lia|assumption]. }
  destruct (ins rank dup x (nextid st) (root st)) as [e|t' g c] eqn:EI; cbn [ins_elems_ok] in IE.
  - destruct IE as [-> (d0 & Hin & Hr)].
    assert (F : sfind rank x (elems (root st)) = Some (e, d0)).
    { unfold sfind. destruct (List.find (fun y => irank y =? rank x) (elems (root st))) as [y|] eqn:F.
      - apply find_some in F as [F1 F2]. f_equal. apply (RI eq_refl); [assumption|assumption|].
        unfold AvlSpec.irank in *. cbn [snd]. lia.
      - pose proof (find_none _ _ F (e, d0) Hin) as F1. cbv beta in F1.
        unfold AvlSpec.irank in F1. cbn [snd] in F1. lia. }
    rewrite F. cbn [fst root nextid]. split; [reflexivity|exact KEEP].
  - destruct IE as [EL NE].
    assert (F : (if dup then None else sfind rank x (elems (root st))) = None).
    { destruct dup; [reflexivity|]. apply sfind_none. apply NE. reflexivity. }
    rewrite F. destruct (alloc o) as [ok o']. destruct ok.
    + cbn [root nextid]. split; [rewrite EL; reflexivity|].
      destruct (ins_avl rank dup x (nextid st) (root st) t' g c A EI) as (A' & _).
      unfold inv. cbn [root size nextid]. unfold ids in *. rewrite EL.
      split; [apply sins_sorted; assumption|]. split; [assumption|].
      split; [rewrite Sz, !count_length, EL, sins_length; lia|].
      split.
      { eapply Permutation_NoDup; [apply Permutation_map; apply sins_perm|]. cbn [map fst].
        constructor; [|exact ND]. intros H. apply Bd in H. lia. }
      split.
      { intros i Hi. apply in_map_iff in Hi as (y & <- & Hy). apply sins_in in Hy as [->|Hy].
        - cbn [fst]. lia.
        - assert (H : In (fst y) (map fst (elems (root st)))) by (apply in_map; assumption).
          apply Bd in H. lia. }
      split; [lia|].
      intros Hd a b Ha Hb Hr. apply sins_in in Ha, Hb. destruct Ha as [->|Ha], Hb as [->|Hb].
      * reflexivity.
      * exfalso. apply (NE Hd b Hb). unfold AvlSpec.irank in *. cbn [snd] in *. lia.
      * exfalso. apply (NE Hd a Ha). unfold AvlSpec.irank in *. cbn [snd] in *. lia.
      * apply (RI Hd); assumption.
    + cbn [root nextid]. split; [reflexivity|exact KEEP].
Qed.

(* ------------------------------------------------------------------ remove *)
Lemma remove_refines : forall dup id st, inv dup st ->
  let '(s, st', dl, _) := remove id st in
  (s, abs st', dl) = sp_remove id (abs st) /\ inv dup st'.
Proof.
  intros dup id st I. pose proof I as (S & A & Sz & ND & Bd & Nn & RI). unfold remove, sp_remove, abs.
  destruct (rem id (root st)) as [[[[t' hc] c] x]|] eqn:R.
  - destruct (rem_spec id (root st) t' hc c x A R) as (A' & _ & _ & (l1 & l2 & E1 & E2)).
    unfold ids in *. rewrite E1 in ND. rewrite map_app in ND. cbn [map fst] in ND.
    pose proof (NoDup_remove_1 _ _ _ ND) as ND1. pose proof (NoDup_remove_2 _ _ _ ND) as ND2.
    rewrite in_app_iff in ND2.
    assert (N1 : ~ In id (map fst l1)) by (intros H; apply ND2; left; assumption).
    assert (N2 : ~ In id (map fst l2)) by (intros H; apply ND2; right; assumption).
    cbn [root nextid]. rewrite E1, E2. rewrite slookup_mid by assumption. rewrite sremove_mid by assumption.
    split; [reflexivity|].
    unfold inv. cbn [root size nextid]. unfold ids. rewrite E2.
    split; [rewrite E1 in S; eapply sorted_remove_mid; exact S|]. split; [assumption|].
    split.
    { rewrite Sz, !count_length, E1, E2, !app_length. cbn [length]. lia. }
    split; [rewrite map_app; assumption|].
    split.
    { intros i Hi. apply Bd. rewrite E1. rewrite map_app in *. cbn [map]. apply in_app_or in Hi.
      apply in_or_app. destruct Hi as [Hi|Hi]; [left|right; right]; assumption. }
    split; [assumption|].
    intros Hd a b Ha Hb Hr. apply (RI Hd); try assumption; rewrite E1.
    + apply in_app_or in Ha. apply in_or_app. destruct Ha as [Ha|Ha]; [left|right; right]; assumption.
    + apply in_app_or in Hb. apply in_or_app. destruct Hb as [Hb|Hb]; [left|right; right]; assumption.
  - apply rem_none in R. cbn [root nextid]. unfold ids in R. rewrite slookup_none by assumption.
    split; [reflexivity|exact I].
Qed.

(* ------------------------------------------------------------------ find *)
Lemma tfind_refines : forall dup x st, inv dup st ->
  let '(s, it, lg) := tfind rank x st in
  (it = None <-> sfind rank x (elems (root st)) = None) /\
  (s = NOT_FOUND <-> it = None) /\ (s = SUCCESS <-> it <> None) /\
  (forall y, it = Some y -> In y (elems (root st)) /\ irank y = rank x) /\
  (dup = false -> it = sfind rank x (elems (root st))) /\
  Z.of_nat (length lg) <= height (root st).
Proof.
  intros dup x st (S & A & Sz & ND & Bd & Nn & RI). unfold tfind.
  pose proof (find_spec rank x (root st) S) as [F1 F2]. pose proof (find_cost rank x (root st)) as FC.
  destruct (find rank x (root st)) as [res lg]. cbn [fst snd] in *.
  split; [rewrite F1; symmetry; apply sfind_none|].
  split; [destruct res; split; try discriminate; reflexivity|].
  split; [destruct res; split; try discriminate; try reflexivity; intros H; contradiction H; reflexivity|].
  split; [exact F2|]. split; [|exact FC].
  intros Hd. destruct res as [y|].
  - destruct (F2 y eq_refl) as [Y1 Y2]. unfold sfind.
    destruct (List.find (fun y0 => irank y0 =? rank x) (elems (root st))) as [z|] eqn:F.
    + apply find_some in F as [Z1 Z2]. f_equal. apply (RI Hd); try assumption. lia.
    + pose proof (find_none _ _ F y Y1) as F3. cbv beta in F3. lia.
  - symmetry. apply sfind_none. apply F1. reflexivity.
Qed.

(* ------------------------------------------------------------------ all histories *)
Lemma run_inv_refines : forall dup ops o st, inv dup st ->
  inv dup (fst (run rank dup ops o st)) /\
  abs (fst (run rank dup ops o st)) = srun rank dup ops o (abs st).
Proof.
  intros dup. induction ops as [|op ops IH]; intros o st I.
  - cbn. split; [assumption|reflexivity].
  - destruct op as [x|id|x]; cbn [run srun].
    + pose proof (insert_refines dup x o st I) as IR.
      destruct (insert rank dup x o st) as [[[[s it] st'] o'] c].
      destruct IR as [E1 I1]. rewrite <- E1.
      specialize (IH o' st' I1). destruct (run rank dup ops o' st') as [fin evs]. cbn [fst] in *. exact IH.
    + pose proof (remove_refines dup id st I) as RR.
      destruct (remove id st) as [[[s st'] dl] c].
      destruct RR as [E1 I1]. rewrite <- E1.
      specialize (IH o st' I1). destruct (run rank dup ops o st') as [fin evs]. cbn [fst] in *. exact IH.
    + destruct (tfind rank x st) as [[s it] lg].
      specialize (IH o st I). destruct (run rank dup ops o st) as [fin evs]. cbn [fst] in *. exact IH.
Qed.

End State.
