Require Extraction.
Require Import ExtrOcamlBasic.
From Zix Require Import PathDecSpec PathDecModel PathWinSpec.
Separate Extraction
  PathDecSpec.as_path PathDecSpec.std_root_name PathDecSpec.std_root_directory PathDecSpec.std_root_path
  PathDecSpec.std_relative_path PathDecSpec.std_parent_path PathDecSpec.std_filename PathDecSpec.std_stem
  PathDecSpec.std_extension PathDecSpec.std_queries
  PathDecModel.zix_path_root_name PathDecModel.zix_path_root_directory PathDecModel.zix_path_root_path
  PathDecModel.zix_path_relative_path PathDecModel.zix_path_parent_path PathDecModel.zix_path_filename
  PathDecModel.zix_path_stem PathDecModel.zix_path_extension PathDecModel.zix_queries
  PathDecModel.view_text PathDecModel.slen
  PathWinSpec.win_root_name PathWinSpec.win_has_root_directory PathWinSpec.win_relative_path
  PathWinSpec.win_parent_path PathWinSpec.win_filename PathWinSpec.win_stem PathWinSpec.win_extension
  PathWinSpec.win_queries.
