(* C13 — property theorems only. *)
From Coq Require Import ZArith List.
From Zix Require Import DigestModel DigestSpec.
Import ListNotations.
Local Open Scope Z_scope.

(* zix_digest / zix_digest_aligned are the functions of the native word size (64-bit platform) *)
Theorem native_is_64 :
  (forall mem seed buf len, digest_at mem seed buf len = digest64_at mem seed buf len) /\
  (forall seed bytes, digest seed bytes = digest64 seed bytes) /\
  (forall seed ws, digest_aligned seed ws = digest64_aligned seed ws).
Proof. repeat split. Qed.
Print Assumptions native_is_64.
