(* C13 — property theorems only.

   Objects.  [digest64_at mem seed buf len] / [digest32_at ...] (DigestModel.v) follow zix_digest64 /
   zix_digest32 of /repo/src/digest.c statement for statement over a byte-addressed memory
   [mem : Z -> Z]; [digest64 seed bytes] is the same code run on a byte list placed at address 0;
   [digest64_aligned seed ws] follows zix_digest64_aligned over the buffer's uint64_t objects.
   [fasthash64] / [murmur3_32] (DigestSpec.v) are transcriptions of the published algorithms.

   Purity ("depends only on the seed, the length and the length bytes given ... across calls") is by
   construction -- the model is a Gallina function with no state; what is *proved* is that the only
   part of memory the result depends on is the len bytes at buf, at any address.

   Length sensitivity is stated exactly as far as it is true of the reference algorithms:
   * murmur3: every zero-extension that stays inside one 4-byte block changes the digest;
   * fasthash64: every zero-extension inside a block whose tail is already non-empty changes the
     digest; from a length that is a multiple of 8, extension by j zero bytes changes the digest for
     j in {1,2,3,5,6,7}; for j = 4 it does NOT in general ([length_sensitive64_boundary_refuted]
     exhibits a 16-byte input colliding with its 20-byte zero-extension; this is a property of
     fasthash64 itself, not a defect of zix). *)
From Coq Require Import ZArith List Lia.
From Zix Require Import DigestModel DigestSpec DigestProofs DigestProofsRef DigestProofsModel DigestProofsTop.
Import ListNotations.
Local Open Scope Z_scope.

Definition u64 (x : Z) : Prop := 0 <= x < 2 ^ 64.
Definition u32 (x : Z) : Prop := 0 <= x < 2 ^ 32.
Definition bytes_ok (l : list Z) : Prop := Forall (fun b => 0 <= b < 256) l.
(* the len bytes at buf are byte values *)
Definition buffer_ok (mem : Z -> Z) (buf len : Z) : Prop := forall i, 0 <= i < len -> 0 <= mem (buf + i) < 256.

(* ------------------------------------------------------------------ pure / address independent *)

(* the digest of a buffer is a function of the seed and of the list of its len bytes: whatever the
   address (alignment), whatever the rest of memory holds *)
Theorem digest64_depends_only_on_bytes : forall mem seed buf len, 0 <= len -> buffer_ok mem buf len ->
  digest64_at mem seed buf len = digest64 seed (read mem buf (Z.to_nat len)).
Proof. exact at64_bytes. Qed.
Print Assumptions digest64_depends_only_on_bytes.

Theorem digest32_depends_only_on_bytes : forall mem seed buf len, 0 <= len -> u32 seed -> buffer_ok mem buf len ->
  digest32_at mem seed buf len = digest32 seed (read mem buf (Z.to_nat len)).
Proof. exact at32_bytes. Qed.
Print Assumptions digest32_depends_only_on_bytes.

(* the same bytes in another memory at another address (any alignment) give the same digest *)
Theorem digest64_address_independent : forall mem mem' seed buf buf' len, 0 <= len -> buffer_ok mem buf len ->
  (forall i, 0 <= i < len -> mem' (buf' + i) = mem (buf + i)) ->
  digest64_at mem' seed buf' len = digest64_at mem seed buf len.
Proof. exact at64_same_bytes. Qed.
Print Assumptions digest64_address_independent.

Theorem digest32_address_independent : forall mem mem' seed buf buf' len, 0 <= len -> u32 seed -> buffer_ok mem buf len ->
  (forall i, 0 <= i < len -> mem' (buf' + i) = mem (buf + i)) ->
  digest32_at mem' seed buf' len = digest32_at mem seed buf len.
Proof. exact at32_same_bytes. Qed.
Print Assumptions digest32_address_independent.

(* ------------------------------------------------------------------ the algorithms implemented *)

Theorem digest64_is_fasthash64 : forall seed bytes, bytes_ok bytes -> digest64 seed bytes = fasthash64 seed bytes.
Proof. exact digest64_ref. Qed.
Print Assumptions digest64_is_fasthash64.

Theorem digest32_is_murmur3_32 : forall seed bytes, u32 seed -> bytes_ok bytes ->
  digest32 seed bytes = murmur3_32 seed bytes.
Proof. exact digest32_ref. Qed.
Print Assumptions digest32_is_murmur3_32.

(* ------------------------------------------------------------------ aligned variants, native size *)

(* for every list of words: the aligned variant equals the general one on the words' little-endian bytes *)
Theorem aligned_eq_general64 : forall seed ws, Forall u64 ws ->
  digest64_aligned seed ws = digest64 seed (bytes_le 8 ws).
Proof. exact aligned64_general. Qed.
Print Assumptions aligned_eq_general64.

Theorem aligned_eq_general32 : forall seed ws, u32 seed -> Forall u32 ws ->
  digest32_aligned seed ws = digest32 seed (bytes_le 4 ws).
Proof. exact aligned32_general. Qed.
Print Assumptions aligned_eq_general32.

(* the same, starting from the buffer: any byte list whose length is a multiple of the word *)
Theorem aligned_eq_general64_buffer : forall seed bytes nb, bytes_ok bytes -> length bytes = (8 * nb)%nat ->
  digest64_aligned seed (words_of_bytes 8 nb bytes) = digest64 seed bytes.
Proof. exact aligned64_buffer. Qed.
Print Assumptions aligned_eq_general64_buffer.

Theorem aligned_eq_general32_buffer : forall seed bytes nb, u32 seed -> bytes_ok bytes -> length bytes = (4 * nb)%nat ->
  digest32_aligned seed (words_of_bytes 4 nb bytes) = digest32 seed bytes.
Proof. exact aligned32_buffer. Qed.
Print Assumptions aligned_eq_general32_buffer.

(* zix_digest / zix_digest_aligned are the functions of the native word size (64-bit platform) *)
Theorem native_is_64 :
  (forall mem seed buf len, digest_at mem seed buf len = digest64_at mem seed buf len) /\
  (forall seed bytes, digest seed bytes = digest64 seed bytes) /\
  (forall seed ws, digest_aligned seed ws = digest64_aligned seed ws).
Proof. repeat split. Qed.
Print Assumptions native_is_64.

(* ------------------------------------------------------------------ sensitivity: seed *)

Theorem seed_injective64 : forall bytes s s', bytes_ok bytes -> u64 s -> u64 s' ->
  digest64 s bytes = digest64 s' bytes -> s = s'.
Proof. exact seed_inj64. Qed.
Print Assumptions seed_injective64.

Theorem seed_injective32 : forall bytes s s', bytes_ok bytes -> u32 s -> u32 s' ->
  digest32 s bytes = digest32 s' bytes -> s = s'.
Proof. exact seed_inj32. Qed.
Print Assumptions seed_injective32.

(* ------------------------------------------------------------------ sensitivity: one block *)

(* fixed seed, length and all other bytes: the i-th word-sized block -> digest is injective *)
Theorem block_injective64 : forall seed pre blk blk' post i,
  u64 seed -> bytes_ok pre -> bytes_ok post -> bytes_ok blk -> bytes_ok blk' ->
  length pre = (8 * i)%nat -> length blk = 8%nat -> length blk' = 8%nat ->
  digest64 seed (pre ++ blk ++ post) = digest64 seed (pre ++ blk' ++ post) -> blk = blk'.
Proof. exact block_inj64. Qed.
Print Assumptions block_injective64.

Theorem block_injective32 : forall seed pre blk blk' post i,
  u32 seed -> bytes_ok pre -> bytes_ok post -> bytes_ok blk -> bytes_ok blk' ->
  length pre = (4 * i)%nat -> length blk = 4%nat -> length blk' = 4%nat ->
  digest32 seed (pre ++ blk ++ post) = digest32 seed (pre ++ blk' ++ post) -> blk = blk'.
Proof. exact block_inj32. Qed.
Print Assumptions block_injective32.

(* the same for the trailing partial block *)
Theorem tail_injective64 : forall seed pre tl tl' q,
  u64 seed -> bytes_ok pre -> bytes_ok tl -> bytes_ok tl' ->
  length pre = (8 * q)%nat -> length tl = length tl' -> (0 < length tl < 8)%nat ->
  digest64 seed (pre ++ tl) = digest64 seed (pre ++ tl') -> tl = tl'.
Proof. exact tail_inj64. Qed.
Print Assumptions tail_injective64.

Theorem tail_injective32 : forall seed pre tl tl' q,
  u32 seed -> bytes_ok pre -> bytes_ok tl -> bytes_ok tl' ->
  length pre = (4 * q)%nat -> length tl = length tl' -> (0 < length tl < 4)%nat ->
  digest32 seed (pre ++ tl) = digest32 seed (pre ++ tl') -> tl = tl'.
Proof. exact tail_inj32. Qed.
Print Assumptions tail_injective32.

(* ------------------------------------------------------------------ sensitivity: length *)

(* murmur3: appending j > 0 zero bytes without completing the current 4-byte block (this includes
   starting from a multiple of 4) always changes the digest: the zero bytes contribute nothing to the
   tail word, the final `h ^ len` differs *)
Theorem length_sensitive32 : forall seed bytes j, u32 seed -> bytes_ok bytes ->
  (0 < j)%nat -> (length bytes / 4 = (length bytes + j) / 4)%nat ->
  digest32 seed bytes <> digest32 seed (bytes ++ repeat 0 j).
Proof. exact len_sens32. Qed.
Print Assumptions length_sensitive32.

(* fasthash64: both lengths have the same number of full blocks and a non-empty tail *)
Theorem length_sensitive64 : forall seed bytes j, u64 seed -> bytes_ok bytes ->
  (0 < j)%nat -> (length bytes mod 8 <> 0)%nat -> (length bytes / 8 = (length bytes + j) / 8)%nat ->
  Z.of_nat (length bytes + j) < 2 ^ 64 ->
  digest64 seed bytes <> digest64 seed (bytes ++ repeat 0 j).
Proof. exact len_sens64. Qed.
Print Assumptions length_sensitive64.

(* fasthash64 from a block boundary: true for every j in 1..7 except 4 (the state mod 4 separates the
   two lengths because the multiplier is 1 mod 4) *)
Theorem length_sensitive64_boundary_partial : forall seed bytes j, u64 seed -> bytes_ok bytes ->
  (length bytes mod 8 = 0)%nat -> (0 < j < 8)%nat -> (j <> 4)%nat ->
  digest64 seed bytes <> digest64 seed (bytes ++ repeat 0 j).
Proof. exact len_sens64_boundary_partial. Qed.
Print Assumptions length_sensitive64_boundary_partial.

(* ... and false for j = 4: seed 0, bytes 8175ce73201c7408 e166e9b6c8f06860 and the same followed by
   00000000 have the same fasthash64 (and zix_digest64) value *)
Theorem length_sensitive64_boundary_refuted :
  exists seed bytes, u64 seed /\ bytes_ok bytes /\ (length bytes mod 8 = 0)%nat /\
    digest64 seed bytes = digest64 seed (bytes ++ repeat 0 4).
Proof. exact len_sens64_boundary_refuted. Qed.
Print Assumptions length_sensitive64_boundary_refuted.

(* ------------------------------------------------------------------ the hypotheses are satisfiable *)

Example ex_bytes : list Z := [0x81; 0xff; 0x00; 0x7f; 0x10; 0x20; 0x30; 0x40; 0x50; 0x60; 0xfe].

Example ex_bytes_ok : bytes_ok ex_bytes.
Proof. repeat constructor; lia. Qed.

(* length 11 = 8 + 3: zero-extension by 1..4 stays in the tail and is covered by length_sensitive64 *)
Example ex_length_sensitive64 :
  digest64 5 ex_bytes <> digest64 5 (ex_bytes ++ repeat 0 4).
Proof.
  apply length_sensitive64; try exact ex_bytes_ok; cbn; try lia. unfold u64. lia.
Qed.

Example ex_length_sensitive32 :
  digest32 5 (firstn 8 ex_bytes) <> digest32 5 (firstn 8 ex_bytes ++ repeat 0 3).
Proof.
  apply length_sensitive32; cbn; try lia; [unfold u32; lia|repeat constructor; lia].
Qed.

Example ex_address_independent :
  digest64_at (mem_of 0xAA 4099 ex_bytes) 5 4099 11 = digest64_at (mem_of 0x55 8192 ex_bytes) 5 8192 11
  /\ digest64_at (mem_of 0xAA 4099 ex_bytes) 5 4099 11 = 365408935067594978.
Proof. split; vm_compute; reflexivity. Qed.

Example ex_aligned :
  digest64_aligned 9 [0x0807060504030201; 0x100f0e0d0c0b0a09] =
  digest64 9 [1; 2; 3; 4; 5; 6; 7; 8; 9; 10; 11; 12; 13; 14; 15; 16].
Proof. vm_compute. reflexivity. Qed.
