(* C09: what the specification's acceptance means (soundness of the checker in Prop terms),
   unconditional facts about the model functions, and why each fix: commit was needed. *)
From Coq Require Import ZArith List Bool Lia ZifyBool.
From Zix Require Import BumpModel BumpSpec BumpProofs BumpProofsSafe.
Import ListNotations.
Local Open Scope Z_scope.
Ltac Zify.zify_post_hook ::= Z.div_mod_to_equations.

(* ---------------------------------------------------------------- meaning of the checker *)
Definition apart (o1 n1 o2 n2 : Z) : Prop := o1 + n1 <= o2 \/ o2 + n2 <= o1.

Lemma disjoint_apart o1 n1 o2 n2 : disjoint o1 n1 o2 n2 = true <-> apart o1 n1 o2 n2.
Proof. unfold disjoint, apart. lia. Qed.

(* an accepted successful allocation: in bounds, big enough, aligned, apart from every live block,
   and it did fit; afterwards it is live, it is the most recent block, the frontier is its end *)
Lemma spec_alloc_ptr A C id sp al n off sp' :
  spec_alloc A C id sp al n (OPtr off) = Some sp' ->
  0 <= off /\ off + Z.max n 1 <= C /\ (A + off) mod 8 = 0 /\ (A + off) mod al = 0 /\
  (forall b, In b (sp_live sp) -> apart off (Z.max n 1) (b_off b) (Z.max (b_size b) 1)) /\
  sp_front sp + (- (A + sp_front sp)) mod al + rounded n <= C /\
  sp_live sp' = {| b_id := id; b_off := off; b_size := n |} :: sp_live sp /\
  sp_front sp' = off + rounded n /\ sp_recent sp' = Some id.
Proof.
  unfold spec_alloc. destruct (fits A C (sp_front sp) al n && fresh_ok A C (sp_live sp) al n off) eqn:E; [|discriminate].
  intros [= <-]. apply andb_true_iff in E as [Ef Eo]. unfold fits in Ef. unfold fresh_ok, extent in Eo.
  repeat (apply andb_true_iff in Eo as [Eo ?]).
  cbn [sp_live sp_front sp_recent]. repeat split; try lia.
  intros b Hb. apply disjoint_apart. rewrite forallb_forall in H. apply (H b Hb).
Qed.

(* an accepted failure: the block does not fit in the remaining space, and nothing changes *)
Lemma spec_alloc_null A C id sp al n sp' :
  spec_alloc A C id sp al n ONull = Some sp' ->
  C < sp_front sp + (- (A + sp_front sp)) mod al + rounded n /\ sp' = sp.
Proof.
  unfold spec_alloc, fits. destruct (_ <=? C) eqn:E; [discriminate|]. intros [= <-]. split; [lia | reflexivity].
Qed.

(* the allocator may neither abort nor return anything else *)
Lemma spec_alloc_only A C id sp al n o sp' :
  spec_alloc A C id sp al n o = Some sp' -> (exists off, o = OPtr off) \/ o = ONull.
Proof. destruct o; cbn; try discriminate; eauto. Qed.

(* an accepted successful realloc: only of the most recent block, in place, still in bounds and
   apart from all other live blocks *)
Lemma spec_realloc_ptr A C id sp i n off z sp' :
  spec_step A C id sp (Realloc (PBlk i) n) (OPtr off) z = Some sp' ->
  exists b, find_blk i (sp_live sp) = Some b /\ sp_recent sp = Some i /\ off = b_off b /\
            b_off b + rounded n <= C /\
            (forall b', In b' (sp_live sp) -> b_id b' <> i -> apart off (Z.max n 1) (b_off b') (Z.max (b_size b') 1)) /\
            sp_live sp' = resize_blk i n (sp_live sp) /\ sp_front sp' = b_off b + rounded n.
Proof.
  cbn [spec_step]. destruct (find_blk i (sp_live sp)) as [b|] eqn:Ef; [|discriminate].
  destruct (_ && _) eqn:E; [|discriminate]. intros [= <-].
  apply andb_true_iff in E as [E Ed]. apply andb_true_iff in E as [E Eo]. apply andb_true_iff in E as [Er Ec].
  exists b. cbn [sp_live sp_front]. repeat split; try lia.
  - unfold is_recent in Er. destruct (sp_recent sp) as [r|]; [|discriminate].
    apply Nat.eqb_eq in Er. congruence.
  - intros b' Hb' Hne. rewrite forallb_forall in Ed. specialize (Ed b' Hb').
    apply orb_true_iff in Ed as [Ed | Ed]; [apply Nat.eqb_eq in Ed; contradiction|].
    apply disjoint_apart. exact Ed.
Qed.

(* an accepted failing realloc: not the most recent block, or the resized block does not fit *)
Lemma spec_realloc_null A C id sp i n z sp' b :
  find_blk i (sp_live sp) = Some b ->
  spec_step A C id sp (Realloc (PBlk i) n) ONull z = Some sp' ->
  (sp_recent sp <> Some i \/ C < b_off b + rounded n) /\ sp' = sp.
Proof.
  intros Ef. cbn [spec_step]. rewrite Ef.
  destruct (is_recent sp i && (b_off b + rounded n <=? C)) eqn:E; [discriminate|]. intros [= <-].
  split; [|reflexivity]. apply andb_false_iff in E as [E | E]; [left | right; lia].
  unfold is_recent in E. destruct (sp_recent sp) as [r|]; [|discriminate].
  apply Nat.eqb_neq in E. congruence.
Qed.

(* an accepted free of the most recent block makes its space available again *)
Lemma spec_free_recent sp i o sp' b :
  find_blk i (sp_live sp) = Some b -> sp_recent sp = Some i ->
  spec_free sp (PBlk i) o = Some sp' ->
  o = OVoid /\ sp_front sp' = b_off b /\ sp_live sp' = remove_blk i (sp_live sp).
Proof.
  intros Ef Er. cbn [spec_free]. rewrite Ef. destruct o; try discriminate. intros [= <-].
  cbn [sp_front sp_live]. unfold is_recent. rewrite Er, Nat.eqb_refl. auto.
Qed.

(* ---------------------------------------------------------------- unconditional model facts *)
(* a failed request changes nothing (state equality, and memory for calloc) *)
Lemma bump_malloc_null A C s n s' : bump_malloc A C s n = (s', RNull) -> s' = s.
Proof.
  unfold bump_malloc. destruct (negb _); [discriminate|].
  destruct (_ || _); [intros [= <-]; reflexivity | discriminate].
Qed.

Lemma bump_calloc_null A C s m a b s' m' : bump_calloc A C s m a b = (s', m', RNull) -> s' = s /\ m' = m.
Proof.
  unfold bump_calloc. destruct (_ && _); [intros [= <- <-]; auto|].
  destruct (bump_malloc A C s (wrap (a * b))) as [s1 r] eqn:E.
  destruct r; try discriminate. intros [= <- <-]. apply bump_malloc_null in E. auto.
Qed.

Lemma bump_realloc_null A C s p n s' : bump_realloc A C s p n = (s', RNull) -> s' = s.
Proof.
  unfold bump_realloc. destruct (negb _); [intros [= <-]; reflexivity|].
  destruct (_ || _); [intros [= <-]; reflexivity | discriminate].
Qed.

Lemma bump_aligned_alloc_null A C s al n s' : bump_aligned_alloc A C s al n = (s', RNull) -> s' = s.
Proof.
  unfold bump_aligned_alloc.
  destruct (negb (al >=? min_alignment)); [discriminate|].
  destruct (negb (n mod al =? 0)); [discriminate|].
  destruct (negb (round_asserts al)); [discriminate|].
  destruct (_ >? C); [intros [= <-]; reflexivity|].
  destruct (bump_malloc A C _ n) as [s2 r]. destruct r; try discriminate; intros [= <-]; apply state_eta.
Qed.

(* realloc succeeds only for the block at `last`, returns the same address, leaves `last` alone *)
Lemma bump_realloc_ptr A C s p n s' q :
  bump_realloc A C s p n = (s', RPtr q) -> q = p /\ p = wrap (A + last s) /\ last s' = last s.
Proof.
  unfold bump_realloc. destruct (p =? wrap (A + last s)) eqn:E; cbn [negb]; [|discriminate].
  destruct (_ || _); [discriminate|]. intros [= <- <-]. cbn [last]. repeat split; lia.
Qed.

(* freeing the block just obtained puts `top` back to where that block starts *)
Lemma bump_malloc_then_free A C s n s1 p :
  bump_malloc A C s n = (s1, RPtr p) -> bump_free A s1 p = {| top := top s; last := top s |}.
Proof.
  unfold bump_malloc. destruct (negb _); [discriminate|]. destruct (_ || _); [discriminate|].
  intros [= <- <-]. unfold bump_free; cbn [top last]. rewrite Z.eqb_refl. reflexivity.
Qed.

Lemma bump_aligned_alloc_then_free A C s al n s1 p :
  bump_aligned_alloc A C s al n = (s1, RPtr p) ->
  p = wrap (A + last s1) /\ bump_aligned_free A s1 p = {| top := last s1; last := last s1 |}.
Proof.
  unfold bump_aligned_alloc.
  destruct (negb (al >=? min_alignment)); [discriminate|].
  destruct (negb (n mod al =? 0)); [discriminate|].
  destruct (negb (round_asserts al)); [discriminate|].
  destruct (_ >? C); [discriminate|].
  destruct (bump_malloc A C _ n) as [s2 r] eqn:E. destruct r; try discriminate. intros [= <- <-].
  unfold bump_malloc in E. destruct (negb _); [discriminate|]. destruct (_ || _); [discriminate|].
  injection E as <- <-. cbn [top last]. split; [reflexivity|].
  unfold bump_aligned_free, bump_free; cbn [top last]. rewrite Z.eqb_refl. reflexivity.
Qed.

(* calloc: every byte of the block is zero and no other byte of memory is written;
   the other functions have no memory argument at all *)
Lemma bump_calloc_memory A C s m a b s' m' p :
  0 <= a -> 0 <= b ->
  bump_calloc A C s m a b = (s', m', RPtr p) ->
  (forall i, 0 <= i < a * b -> m' (p + i) = 0) /\
  (forall x, ~ (p <= x < p + a * b) -> m' x = m x).
Proof.
  intros Ha Hb. unfold bump_calloc. rewrite calloc_overflow_test by assumption.
  destruct (W <=? a * b) eqn:E; [discriminate|].
  assert (0 <= a * b) by nia. rewrite (wrap_small (a * b)) by lia.
  destruct (bump_malloc A C s (a * b)) as [s1 r]. destruct r; try discriminate. intros [= <- <- <-].
  unfold memset0. split.
  - intros i Hi. assert (E1 : ((addr <=? addr + i) && (addr + i <? addr + a * b)) = true) by lia. rewrite E1. reflexivity.
  - intros x Hx. assert (E1 : ((addr <=? x) && (x <? addr + a * b)) = false) by lia. rewrite E1. reflexivity.
Qed.

(* ---------------------------------------------------------------- the run never dies *)
Section Complete.
  Variables A C : Z.
  Hypothesis HA : 0 < A.
  Hypothesis HC : 0 <= C.
  Hypothesis HAC : A + C < W.

  Lemma run_complete rs : forall id y sp, Inv A C id y sp -> forallb req_ok rs = true ->
    length (sys_run A C id y rs) = length rs /\
    Forall (fun e => e_resp e <> OAbort) (sys_run A C id y rs).
  Proof.
    induction rs as [|r rs IH]; intros id y sp I Hok; cbn [sys_run]; [split; [reflexivity | constructor]|].
    cbn [forallb] in Hok. apply andb_true_iff in Hok as [Hr Hrs].
    rewrite (inv_dead _ _ _ _ _ I).
    pose proof (step_ok A C HA HC HAC id y sp r I Hr) as Hs. unfold step_good in Hs.
    destruct (sys_step A C id y r) as [[[y' o] z] m'].
    destruct Hs as (sp' & Hstep & I').
    destruct (IH (S id) y' sp' I' Hrs) as [Hlen Hall].
    cbn [length]. split; [congruence|]. constructor; [|exact Hall].
    cbn [e_resp]. intros ->.
    destruct r as [n | a b | [|i] n | [|i] | al n | [|i]]; cbn [spec_step spec_alloc spec_free] in Hstep;
      try discriminate;
      try (destruct (find_blk i (sp_live sp)); discriminate).
  Qed.
End Complete.

(* ---------------------------------------------------------------- why the fixes were needed *)
(* 35c70f7: the old initial offset is misaligned for every buffer address that is odd (mod 8 in {1,2,3,5,6,7}) *)
Lemma bump_init_old_refuted : exists A, 0 < A /\ (A + top (bump_init_old A)) mod 8 <> 0.
Proof. exists 1. vm_compute. split; [reflexivity | discriminate]. Qed.

(* 9c784f1: malloc(SIZE_MAX) "succeeded" without advancing top; malloc(2^64-21) moved top backwards;
   calloc(2^63, 2) succeeded with a wrapped product *)
Lemma bump_malloc_old_refuted :
  bump_malloc_old 4096 64 {| top := 0; last := 0 |} (W - 1) = ({| top := 0; last := 0 |}, RPtr 4096) /\
  bump_malloc_old 4096 64 {| top := 32; last := 0 |} (W - 21) = ({| top := 16; last := 32 |}, RPtr 4128) /\
  bump_calloc_old 4096 64 {| top := 8; last := 0 |} 9223372036854775808 2 = ({| top := 8; last := 8 |}, RPtr 4104).
Proof. vm_compute. auto. Qed.

(* 3640daf: realloc(p, 13) left top unaligned (the next block would be misaligned), and a huge size wrapped *)
Lemma bump_realloc_old_refuted :
  bump_realloc_old 4096 64 {| top := 8; last := 0 |} 4096 13 = ({| top := 13; last := 0 |}, RPtr 4096) /\
  bump_realloc_old 4096 64 {| top := 16; last := 8 |} 4104 (W - 8) = ({| top := 0; last := 8 |}, RPtr 4104).
Proof. vm_compute. auto. Qed.

(* 0f431c9 / 6d455c9: a zero-size block shared its address with the next block *)
Lemma bump_zero_size_old_refuted :
  exists s1 s2 p, bump_malloc_old 4096 64 {| top := 0; last := 0 |} 0 = (s1, RPtr p) /\
                  bump_malloc_old 4096 64 s1 8 = (s2, RPtr p).
Proof. exists {| top := 0; last := 0 |}, {| top := 8; last := 0 |}, 4096. vm_compute. split; reflexivity. Qed.
