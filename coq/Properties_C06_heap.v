(* C06 — property theorems only, pointer level (ZixTree: the parent-pointer part of the property).

   Model: AvlHeapModel.v — a heap (finite map  node id -> {data, balance, parent, left, right})
   plus t->root and t->size, on which rotate(), the four rotations, zix_tree_rebalance,
   zix_tree_insert, zix_tree_remove, zix_tree_find, zix_tree_begin/rbegin and
   zix_tree_iter_next/prev are transcribed assignment by assignment (loops = fuelled recursion,
   fuel = size + 1, out of fuel = None / Fuel).  Functional model: AvlModel.v; spec: AvlSpec.v.

   [Rep hst st] (AvlHeapProofsBase.v): the heap hst represents the functional state st — every node
   of the tree is in the heap with the same data and balance, its left/right fields are the roots
   of its subtrees, its parent field is its unique parent (NULL at the root), t->root is the root,
   sizes and serial numbers agree, and the heap contains nothing else.

   [hreach rank dup ops o] = the heap state after the history ops run by the POINTER-LEVEL model
   from the empty tree; [l] below = the listing of the abstract sorted multiset after the same
   history.  Every theorem is for all comparators induced by a rank, both duplicate policies, all
   histories and all allocation oracles. *)
From Coq Require Import ZArith List Bool.
From Zix Require Import AvlSpec AvlModel AvlProofs AvlProofsState AvlProofsTop
  AvlHeapModel AvlHeapProofsBase AvlHeapProofsIns AvlHeapProofsRem AvlHeapProofsTop.
Import ListNotations.
Local Open Scope Z_scope.

(* refinement, whole histories: the pointer-level run never runs out of fuel, produces exactly the
   events (statuses, returned iterators, destroy logs, find results) of the functional run, and its
   final heap represents the functional final tree (hence, by avl_history_refines, the abstract
   sorted multiset) *)
Theorem heap_refines_functional : forall rank dup ops o,
  exists hst,
    h_run rank dup ops o hinit = Some (hst, snd (run rank dup ops o init)) /\
    Rep hst (fst (run rank dup ops o init)).
Proof. exact hreach_refines. Qed.
Print Assumptions heap_refines_functional.

(* refinement, single calls from ANY represented state (not only reachable ones):
   zix_tree_insert with all its parent-link assignments simulates the functional insertion ... *)
Theorem heap_insert_simulates : forall rank dup x o hst st s it st' o' rc,
  Rep hst st -> inv rank dup st ->
  insert rank dup x o st = (s, it, st', o', rc) ->
  exists hst', h_insert rank dup x o hst = Some (s, it, hst', o', rc, ins_log rank dup x (root st)) /\ Rep hst' st'.
Proof. exact h_insert_sim. Qed.
Print Assumptions heap_insert_simulates.

(* ... and zix_tree_remove (leaf, one child, successor relinking, upward loop) the functional removal *)
Theorem heap_remove_simulates : forall n hst st,
  Rep hst st -> avl (root st) -> NoDup (ids (root st)) -> size st = count (root st) ->
  In n (ids (root st)) ->
  exists hst' T' hc lg x,
    rem n (root st) = Some (T', hc, lg, x) /\
    h_remove n hst = Some (hst', [(n, x)], lg) /\
    Rep hst' (mkState T' (size st - 1) (nextid st)).
Proof. exact h_remove_sim. Qed.
Print Assumptions heap_remove_simulates.

(* zix_tree_iter_next by parent-pointer stepping, after any history, from any live node: the
   in-order successor in the abstract listing (None = end), never out of fuel *)
Theorem heap_iter_next_is_successor : forall rank dup ops o id,
  let l := fst (srun rank dup ops o ([], 0)) in
  In id (map fst l) -> h_iter_next (hreach rank dup ops o) id = At (snext id l).
Proof. intros rank dup ops o id l H. apply (hreach_iter rank dup ops o). exact H. Qed.
Print Assumptions heap_iter_next_is_successor.

Theorem heap_iter_prev_is_predecessor : forall rank dup ops o id,
  let l := fst (srun rank dup ops o ([], 0)) in
  In id (map fst l) -> h_iter_prev (hreach rank dup ops o) id = At (sprev id l).
Proof. intros rank dup ops o id l H. apply (hreach_iter rank dup ops o). exact H. Qed.
Print Assumptions heap_iter_prev_is_predecessor.

(* zix_tree_begin / zix_tree_rbegin are the first / last element, and the forward walk from begin
   by parent-pointer stepping visits exactly the listing (every element once, in sorted order), the
   backward walk from rbegin its reverse *)
Theorem heap_walks : forall rank dup ops o,
  let hst := hreach rank dup ops o in
  let l := fst (srun rank dup ops o ([], 0)) in
  h_begin hst = At (sbegin l) /\ h_rbegin hst = At (srbegin l) /\
  h_walk_fwd hst = Some (map fst l) /\ h_walk_bwd hst = Some (rev (map fst l)).
Proof.
  intros rank dup ops o. destruct (hreach_iter rank dup ops o) as (A & B & C & D & _).
  repeat split; assumption.
Qed.
Print Assumptions heap_walks.

(* iterator stability at pointer level: an iterator j held after ANY history ops1 stays in the
   heap's domain and dereferences to the same element after ANY further history ops2 of
   insertions, finds and removals of OTHER nodes (and that further run does not run out of fuel) *)
Theorem heap_iterators_stable : forall rank dup ops1 o1 ops2 o2 j e,
  no_rem j ops2 ->
  h_lookup (hreach rank dup ops1 o1) j = Some e ->
  exists hst',
    h_run rank dup ops2 o2 (hreach rank dup ops1 o1) =
      Some (hst', snd (run rank dup ops2 o2 (reach rank dup ops1 o1))) /\
    h_lookup hst' j = Some e /\ hget (hp hst') j <> None.
Proof. exact hreach_stable. Qed.
Print Assumptions heap_iterators_stable.

(* non-vacuity: the pointer-level run of a concrete history (duplicates, a failed allocation,
   removals of a two-child root, of a leaf, of an absent id), its parent links, and both walks *)
Example heap_example :
  let rank := (fun e : elt => fst e) in
  let ops := [OIns (5, 0); OIns (3, 1); OIns (8, 2); OIns (5, 3); OIns (9, 4); OIns (5, 5);
              ORem 0; OFind (5, 0); ORem 2; ORem 77] in
  let hst := hreach rank true ops [true; true; true; true; false] in
  map (fun p => (fst p, npar (snd p))) (hp hst) = [(1, Some 3); (3, None); (5, Some 3)] /\
  hroot hst = Some 3 /\
  h_walk_fwd hst = Some [1; 3; 5] /\ h_walk_bwd hst = Some [5; 3; 1] /\
  h_iter_next hst 3 = At (Some 5) /\ h_iter_prev hst 1 = At None.
Proof. vm_compute. repeat split; reflexivity. Qed.
