(* C09 — property theorems only. *)
From Coq Require Import ZArith List Bool.
From Zix Require Import BumpModel BumpSpec BumpProofs.
Import ListNotations.
Local Open Scope Z_scope.

(* the first block offset is the first aligned address of the buffer, whatever its address *)
Theorem bump_init_first_aligned_offset :
  forall A, 0 <= top (bump_init A) < 8 /\ (A + top (bump_init A)) mod 8 = 0 /\ last (bump_init A) = top (bump_init A).
Proof. intros A. destruct (bump_init_aligned A) as [H1 H2]. repeat split; try apply H1; exact H2. Qed.
Print Assumptions bump_init_first_aligned_offset.
