(* C09 — Bump allocator hands out in-bounds, aligned, disjoint blocks or NULL.   Property theorems only.

   Model   : BumpModel.v  (zix_bump_allocator / malloc / calloc / realloc / free / aligned_alloc /
             aligned_free of /repo/src/bump_allocator.c as it is now, 64-bit wrap written out,
             assert()s as the outcome RAbort).
   Caller  : BumpSpec.sys_run  (keeps the shadow list of live blocks, passes the addresses it was
             given, never passes a pointer to a block that is not live, frees in any order).
   Spec    : BumpSpec.spec_check  (a checker of observed traces: shadow list + frontier; it never
             mentions top/last or any wrap-around).  The same extracted function judges the real
             allocator's responses in the correspondence check.
   A = buffer address, C = capacity;  0 < A and A + C < 2^64 hold for every real buffer. *)
From Coq Require Import ZArith List Bool.
From Zix Require Import BumpModel BumpSpec BumpProofs BumpProofsSafe BumpProofsMore BumpProofsPairs.
Import ListNotations.
Local Open Scope Z_scope.

(* ------------------------------------------------------------------------------------------ *)
(* MAIN THEOREM.  For every buffer address, every capacity, every initial memory and every list of
   requests (any sizes; once a request violates the documented preconditions nothing more is
   claimed), the trace produced by the model is accepted by the specification: every successful
   block is inside [0, C), at least as large as requested, aligned to 8 (and to the requested
   alignment), apart from every live block; calloc blocks are zero; realloc succeeds exactly for
   the most recent live block when the resized block fits, in place; free of the most recent block
   moves the frontier back to its offset; a request fails exactly when the aligned, rounded block
   does not fit in C - frontier, returning NULL and changing nothing; no assertion fires. *)
Theorem bump_safe :
  forall A C m0 rs, 0 < A -> 0 <= C -> A + C < 2 ^ 64 ->
    spec_check A C (trace_of (bump_run A C m0 rs)) = true.
Proof. exact bump_safe_all. Qed.
Print Assumptions bump_safe.

(* with all preconditions met the whole history is executed: no assert() ever fires *)
Theorem bump_never_aborts :
  forall A C m0 rs, 0 < A -> 0 <= C -> A + C < 2 ^ 64 -> forallb req_ok rs = true ->
    length (bump_run A C m0 rs) = length rs /\
    Forall (fun e => e_resp e <> OAbort) (bump_run A C m0 rs).
Proof.
  intros A C m0 rs HA HC HAC Hok.
  exact (run_complete A C HA HC HAC rs 0%nat (sys_init A m0) (spec_init A) (Inv_init A C m0) Hok).
Qed.
Print Assumptions bump_never_aborts.

(* ------------------------------------------------------------------------------------------ *)
(* What "accepted by the specification" means, clause by clause (soundness of the checker). *)

(* a successful malloc / calloc / aligned_alloc (al = 8 for the first two) *)
Theorem spec_accepted_allocation_means :
  forall A C id sp al n off sp',
    spec_alloc A C id sp al n (OPtr off) = Some sp' ->
    0 <= off /\ off + Z.max n 1 <= C /\                       (* wholly inside the buffer, >= n bytes *)
    (A + off) mod 8 = 0 /\ (A + off) mod al = 0 /\              (* address aligned *)
    (forall b, In b (sp_live sp) ->                             (* overlaps no live block *)
       apart off (Z.max n 1) (b_off b) (Z.max (b_size b) 1)) /\
    sp_front sp + (- (A + sp_front sp)) mod al + rounded n <= C /\      (* it did fit *)
    sp_live sp' = {| b_id := id; b_off := off; b_size := n |} :: sp_live sp /\
    sp_front sp' = off + rounded n /\ sp_recent sp' = Some id.
Proof. exact spec_alloc_ptr. Qed.
Print Assumptions spec_accepted_allocation_means.

(* a failed allocation: only when the aligned, rounded block does not fit; nothing changes *)
Theorem spec_accepted_failure_means :
  forall A C id sp al n sp',
    spec_alloc A C id sp al n ONull = Some sp' ->
    C < sp_front sp + (- (A + sp_front sp)) mod al + rounded n /\ sp' = sp.
Proof. exact spec_alloc_null. Qed.
Print Assumptions spec_accepted_failure_means.

Theorem spec_accepted_realloc_means :
  forall A C id sp i n off z sp',
    spec_step A C id sp (Realloc (PBlk i) n) (OPtr off) z = Some sp' ->
    exists b, find_blk i (sp_live sp) = Some b /\ sp_recent sp = Some i /\    (* the most recent block *)
              off = b_off b /\                                                  (* not moved *)
              b_off b + rounded n <= C /\
              (forall b', In b' (sp_live sp) -> b_id b' <> i ->
                 apart off (Z.max n 1) (b_off b') (Z.max (b_size b') 1)) /\
              sp_live sp' = resize_blk i n (sp_live sp) /\ sp_front sp' = b_off b + rounded n.
Proof. exact spec_realloc_ptr. Qed.
Print Assumptions spec_accepted_realloc_means.

Theorem spec_accepted_realloc_failure_means :
  forall A C id sp i n z sp' b,
    find_blk i (sp_live sp) = Some b ->
    spec_step A C id sp (Realloc (PBlk i) n) ONull z = Some sp' ->
    (sp_recent sp <> Some i \/ C < b_off b + rounded n) /\ sp' = sp.
Proof. exact spec_realloc_null. Qed.
Print Assumptions spec_accepted_realloc_failure_means.

Theorem spec_accepted_free_of_most_recent_means :
  forall sp i o sp' b,
    find_blk i (sp_live sp) = Some b -> sp_recent sp = Some i ->
    spec_free sp (PBlk i) o = Some sp' ->
    o = OVoid /\ sp_front sp' = b_off b /\ sp_live sp' = remove_blk i (sp_live sp).
Proof. exact spec_free_recent. Qed.
Print Assumptions spec_accepted_free_of_most_recent_means.

(* Because every new or resized block is checked against all live blocks, the live blocks are
   pairwise apart after every accepted trace — for every such trace, from any allocator *)
Theorem spec_accepted_trace_live_blocks_pairwise_apart :
  forall A C tr sp',
    spec_after A C 0 (spec_init A) tr = Some sp' -> ForallOrdPairs blk_apart (sp_live sp').
Proof. exact spec_live_pairwise_apart. Qed.
Print Assumptions spec_accepted_trace_live_blocks_pairwise_apart.

(* ... in particular after every history of the model (every prefix of a history is a history) *)
Theorem bump_live_blocks_pairwise_apart :
  forall A C m0 rs, 0 < A -> 0 <= C -> A + C < 2 ^ 64 -> forallb req_ok rs = true ->
    exists sp', spec_after A C 0 (spec_init A) (trace_of (bump_run A C m0 rs)) = Some sp' /\
                ForallOrdPairs blk_apart (sp_live sp').
Proof. exact bump_live_pairwise_apart. Qed.
Print Assumptions bump_live_blocks_pairwise_apart.

(* ------------------------------------------------------------------------------------------ *)
(* The same facts stated directly about the model functions. *)

(* any buffer address: the first offset is the first 8-aligned address of the buffer *)
Theorem bump_init_first_aligned_offset :
  forall A, 0 <= top (bump_init A) < 8 /\ (A + top (bump_init A)) mod 8 = 0 /\
            last (bump_init A) = top (bump_init A).
Proof.
  intros A. destruct (bump_init_aligned A) as [H1 H2]. destruct (bump_init_spec A) as [Et El].
  split; [exact H1|]. split; [exact H2 | congruence].
Qed.
Print Assumptions bump_init_first_aligned_offset.

(* exact outcome of every allocating call in a state with top aligned: success iff the rounded
   (and, for aligned_alloc, padded) block fits in C - top; all 64-bit wrap-around is harmless *)
Theorem bump_malloc_exact :
  forall A C s n, 0 < A -> 0 <= C -> A + C < 2 ^ 64 -> st_ok A C s -> 0 <= n < 2 ^ 64 ->
    bump_malloc A C s n =
      if top s + rounded n <=? C
      then ({| top := top s + rounded n; last := top s |}, RPtr (A + top s))
      else (s, RNull).
Proof. exact bump_malloc_char. Qed.
Print Assumptions bump_malloc_exact.

Theorem bump_calloc_exact :
  forall A C s m a b, 0 < A -> 0 <= C -> A + C < 2 ^ 64 -> st_ok A C s -> 0 <= a < 2 ^ 64 -> 0 <= b < 2 ^ 64 ->
    bump_calloc A C s m a b =
      if top s + rounded (a * b) <=? C
      then ({| top := top s + rounded (a * b); last := top s |}, memset0 m (A + top s) (a * b), RPtr (A + top s))
      else (s, m, RNull).
Proof. exact bump_calloc_char. Qed.
Print Assumptions bump_calloc_exact.

Theorem bump_realloc_exact :
  forall A C s p n, 0 <= C < 2 ^ 64 -> 0 <= last s -> 0 <= n < 2 ^ 64 ->
    bump_realloc A C s p n =
      if (p =? wrap (A + last s)) && (last s + rounded n <=? C)
      then ({| top := last s + rounded n; last := last s |}, RPtr p)
      else (s, RNull).
Proof. exact bump_realloc_char. Qed.
Print Assumptions bump_realloc_exact.

Theorem bump_aligned_alloc_exact :
  forall A C s al n, 0 < A -> 0 <= C -> A + C < 2 ^ 64 -> st_ok A C s -> 0 <= n < 2 ^ 64 ->
    align_ok al n = true ->            (* power of two, 8 <= al < 2^64, al divides n: the code's assert()s *)
    let pad := (- (A + top s)) mod al in
    bump_aligned_alloc A C s al n =
      if top s + pad + rounded n <=? C
      then ({| top := top s + pad + rounded n; last := top s + pad |}, RPtr (A + top s + pad))
      else (s, RNull).
Proof. exact bump_aligned_alloc_char. Qed.
Print Assumptions bump_aligned_alloc_exact.

(* a failed request returns NULL and changes nothing — in ANY state, for ANY arguments *)
Theorem bump_failed_request_changes_nothing :
  (forall A C s n s', bump_malloc A C s n = (s', RNull) -> s' = s) /\
  (forall A C s m a b s' m', bump_calloc A C s m a b = (s', m', RNull) -> s' = s /\ m' = m) /\
  (forall A C s p n s', bump_realloc A C s p n = (s', RNull) -> s' = s) /\
  (forall A C s al n s', bump_aligned_alloc A C s al n = (s', RNull) -> s' = s).
Proof.
  repeat split.
  - exact bump_malloc_null.
  - eapply bump_calloc_null; eauto.
  - eapply bump_calloc_null; eauto.
  - exact bump_realloc_null.
  - exact bump_aligned_alloc_null.
Qed.
Print Assumptions bump_failed_request_changes_nothing.

(* realloc succeeds only for the block at `last` and returns the very same address *)
Theorem bump_realloc_in_place_last_only :
  forall A C s p n s' q,
    bump_realloc A C s p n = (s', RPtr q) -> q = p /\ p = wrap (A + last s) /\ last s' = last s.
Proof. exact bump_realloc_ptr. Qed.
Print Assumptions bump_realloc_in_place_last_only.

(* freeing the most recent block puts top back to where the block starts *)
Theorem bump_free_most_recent_restores_top :
  (forall A C s n s1 p, bump_malloc A C s n = (s1, RPtr p) ->
     bump_free A s1 p = {| top := top s; last := top s |}) /\
  (forall A C s al n s1 p, bump_aligned_alloc A C s al n = (s1, RPtr p) ->
     p = wrap (A + last s1) /\ bump_aligned_free A s1 p = {| top := last s1; last := last s1 |}).
Proof. split; [exact bump_malloc_then_free | exact bump_aligned_alloc_then_free]. Qed.
Print Assumptions bump_free_most_recent_restores_top.

(* calloc: all nmemb*size bytes of the block are zero, no other byte of memory is written *)
Theorem bump_calloc_zero_and_frame :
  forall A C s m a b s' m' p, 0 <= a -> 0 <= b ->
    bump_calloc A C s m a b = (s', m', RPtr p) ->
    (forall i, 0 <= i < a * b -> m' (p + i) = 0) /\
    (forall x, ~ (p <= x < p + a * b) -> m' x = m x).
Proof. exact bump_calloc_memory. Qed.
Print Assumptions bump_calloc_zero_and_frame.

(* ------------------------------------------------------------------------------------------ *)
(* Why each fix: commit was needed: the code as it was violates the property (witnesses replayed
   on the real code in corpus/C09.txt). *)
Theorem bump_init_old_misaligned_refuted : exists A, 0 < A /\ (A + top (bump_init_old A)) mod 8 <> 0.
Proof. exact bump_init_old_refuted. Qed.
Print Assumptions bump_init_old_misaligned_refuted.

Theorem bump_malloc_old_overflow_refuted :
  bump_malloc_old 4096 64 {| top := 0; last := 0 |} (2 ^ 64 - 1) = ({| top := 0; last := 0 |}, RPtr 4096) /\
  bump_malloc_old 4096 64 {| top := 32; last := 0 |} (2 ^ 64 - 21) = ({| top := 16; last := 32 |}, RPtr 4128) /\
  bump_calloc_old 4096 64 {| top := 8; last := 0 |} (2 ^ 63) 2 = ({| top := 8; last := 8 |}, RPtr 4104).
Proof. exact bump_malloc_old_refuted. Qed.
Print Assumptions bump_malloc_old_overflow_refuted.

Theorem bump_realloc_old_unrounded_refuted :
  bump_realloc_old 4096 64 {| top := 8; last := 0 |} 4096 13 = ({| top := 13; last := 0 |}, RPtr 4096) /\
  bump_realloc_old 4096 64 {| top := 16; last := 8 |} 4104 (2 ^ 64 - 8) = ({| top := 0; last := 8 |}, RPtr 4104).
Proof. exact bump_realloc_old_refuted. Qed.
Print Assumptions bump_realloc_old_unrounded_refuted.

Theorem bump_zero_size_old_aliasing_refuted :
  exists s1 s2 p, bump_malloc_old 4096 64 {| top := 0; last := 0 |} 0 = (s1, RPtr p) /\
                  bump_malloc_old 4096 64 s1 8 = (s2, RPtr p).
Proof. exact bump_zero_size_old_refuted. Qed.
Print Assumptions bump_zero_size_old_aliasing_refuted.

(* ------------------------------------------------------------------------------------------ *)
(* Non-vacuity: a history on an odd buffer address with every kind of request ... *)
Example bump_example_history :
  map e_resp (bump_run 4099 64 (fun _ => 165)
                [Malloc 8; Calloc 2 4; Realloc (PBlk 1) 13; Realloc (PBlk 0) 8; Free (PBlk 0); Malloc 0;
                 AlignedAlloc 16 16; Free (PBlk 6); Malloc 100; Free (PBlk 1); Realloc PNull 8]) =
  [OPtr 5; OPtr 13; OPtr 13; ONull; OVoid; OPtr 29; OPtr 45; OVoid; ONull; OVoid; ONull].
Proof. vm_compute. reflexivity. Qed.

(* ... and the specification is not trivially true: it rejects overlapping blocks, a misaligned
   block, a block sticking out of the buffer, a spurious failure, a moved realloc, a zero-size
   block sharing its address, and dirty calloc memory *)
Example spec_rejects_bad_traces :
  spec_check 4096 64 [(Malloc 8, OPtr 0, true); (Malloc 8, OPtr 4, true)] = false /\
  spec_check 4097 64 [(Malloc 8, OPtr 1, true)] = false /\
  spec_check 4096 64 [(Malloc 60, OPtr 8, true)] = false /\
  spec_check 4096 64 [(Malloc 64, ONull, true)] = false /\
  spec_check 4096 64 [(Malloc 8, OPtr 0, true); (Realloc (PBlk 0) 16, OPtr 8, true)] = false /\
  spec_check 4096 64 [(Malloc 0, OPtr 0, true); (Malloc 8, OPtr 0, true)] = false /\
  spec_check 4096 64 [(Calloc 1 8, OPtr 0, false)] = false /\
  spec_check 4096 64 [(Malloc 8, OPtr 0, true); (Malloc 8, OPtr 8, true); (Free (PBlk 1), OVoid, true);
                      (Malloc 48, ONull, true)] = false.
Proof. vm_compute. repeat split. Qed.
