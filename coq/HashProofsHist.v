(* C03 proofs, part 5: iteration, one API call refines the map, whole histories. *)
From Coq Require Import ZArith List Bool Lia Permutation.
From Coq Require Import ZifyBool.
From Zix Require Import HashSpec HashModel HashProofsBase HashProofsProbe HashProofsOps HashProofsCalls.
Import ListNotations.
Local Open Scope Z_scope.
Ltac Zify.zify_post_hook ::= Z.div_mod_to_equations.

(* ------------------------------------------------------------------ the map spec on lists of records *)
Lemma spec_find_none : forall k m, spec_find k m = None <-> (forall r, In r m -> rkey r <> k).
Proof.
  intros k m. unfold spec_find. induction m as [|a m IH]; simpl.
  - split; [intros _ r []|reflexivity].
  - destruct (rkey a =? k) eqn:E.
    + split; [discriminate|]. intros H. exfalso. apply (H a); [left; reflexivity|lia].
    + rewrite IH. split.
      * intros H r [<-|I]; [lia|apply H; assumption].
      * intros H r I. apply H. right. assumption.
Qed.

Lemma spec_find_some : forall k m r,
  NoDup (map rkey m) -> In r m -> rkey r = k -> spec_find k m = Some r.
Proof.
  intros k m r. unfold spec_find. induction m as [|a m IH]; simpl; intros ND I K; [contradiction|].
  inversion ND as [|? ? Nin ND']; subst.
  destruct (rkey a =? rkey r) eqn:E.
  - destruct I as [->|I]; [reflexivity|]. exfalso. apply Nin.
    replace (rkey a) with (rkey r) by lia. apply in_map. assumption.
  - destruct I as [->|I]; [lia|]. apply IH; auto.
Qed.

Lemma absent_spec_find : forall k l, absent k l <-> spec_find k (live_recs l) = None.
Proof. intros. rewrite spec_find_none. reflexivity. Qed.

(* ------------------------------------------------------------------ iteration *)
(* the records of a suffix of the table, with their indices *)
Fixpoint live_idx (l : list slot) (i : Z) : list (Z * option rec) :=
  match l with
  | [] => []
  | e :: t => (if has_value e then [(i, s_value e)] else []) ++ live_idx t (i + 1)
  end.

Lemma live_idx_snd : forall l i, map snd (live_idx l i) = map Some (live_recs l).
Proof.
  induction l as [|e t IH]; intros i; [reflexivity|].
  cbn [live_idx]. rewrite live_recs_cons, map_app, map_app, IH.
  destruct e; reflexivity.
Qed.

Lemma live_idx_ge : forall l i x, In x (map fst (live_idx l i)) -> i <= x.
Proof.
  induction l as [|e t IH]; intros i x I; [contradiction|].
  cbn [live_idx] in I. rewrite map_app in I. apply in_app_or in I as [I|I].
  - destruct (has_value e); simpl in I; [destruct I as [<-|[]]; lia|contradiction].
  - apply IH in I. lia.
Qed.

Lemma live_idx_nodup : forall l i, NoDup (map fst (live_idx l i)).
Proof.
  induction l as [|e t IH]; intros i; [constructor|].
  cbn [live_idx]. rewrite map_app. destruct (has_value e); simpl; [|apply IH].
  constructor; [|apply IH]. intros I. apply live_idx_ge in I. lia.
Qed.

Lemma skipn_cons_nth : forall (l : list slot) i e t,
  skipn i l = e :: t -> nth i l Empty = e /\ skipn (S i) l = t /\ (i < length l)%nat.
Proof.
  induction l; intros i e t H.
  - destruct i; discriminate.
  - destruct i; simpl in *.
    + inversion H; subst. repeat split; auto. lia.
    + apply IHl in H as (A & B & C). repeat split; auto. lia.
Qed.

Lemma iter_loop_ok : forall st,
  Z.of_nat (length (h_ent st)) = h_n st ->
  forall t i fuel, 0 <= i <= h_n st -> skipn (Z.to_nat i) (h_ent st) = t -> (length t < fuel)%nat ->
  iter_loop fuel st (scan t i) = Ret (live_idx t i).
Proof.
  intros st L. induction t as [|e t IH]; intros i fuel Hi Sk Hf.
  - simpl. destruct fuel; [lia|]. simpl.
    assert (i = h_n st).
    { pose proof (skipn_length (Z.to_nat i) (h_ent st)) as SL. rewrite Sk in SL. simpl in SL. lia. }
    subst i. rewrite Z.eqb_refl. reflexivity.
  - apply skipn_cons_nth in Sk as (A & B & C).
    cbn [scan live_idx]. destruct (has_value e) eqn:HV.
    + destruct fuel; [lia|]. cbn [iter_loop].
      destruct (i =? h_n st) eqn:E; [lia|].
      unfold next. rewrite firstn_all_z by assumption.
      replace (Z.to_nat (i + 1)) with (S (Z.to_nat i)) by lia. rewrite B.
      rewrite (IH (i + 1) fuel); try lia.
      * unfold get, zget. rewrite A. reflexivity.
      * replace (Z.to_nat (i + 1)) with (S (Z.to_nat i)) by lia. assumption.
      * simpl in Hf. lia.
    + simpl. apply IH; try lia.
      * replace (Z.to_nat (i + 1)) with (S (Z.to_nat i)) by lia. assumption.
      * simpl in Hf. lia.
Qed.

Lemma iterate_ok : forall st,
  shape_ok st ->
  iterate st = Ret (live_idx (h_ent st) 0).
Proof.
  intros st (P & M & L). pose proof (pow2size_ge4 _ P) as [G4 _].
  unfold iterate, begin.
  destruct (h_ent st) as [|e t] eqn:E; [simpl in L; lia|].
  assert (L' : Z.of_nat (length (h_ent st)) = h_n st) by (rewrite E; assumption).
  pose proof (iter_loop_ok st L' (e :: t) 0 (S (Z.to_nat (h_n st))) ltac:(lia)) as IT.
  rewrite E in IT. specialize (IT eq_refl ltac:(simpl in *; lia)).
  cbn [scan] in IT. unfold zget. cbn [Z.to_nat nth].
  destruct (has_value e) eqn:HV; [exact IT|].
  unfold next. rewrite E. rewrite firstn_all_z by assumption. exact IT.
Qed.

(* ------------------------------------------------------------------ one call *)
Ltac spl := repeat match goal with |- _ /\ _ => split end; auto; try exact Logic.I; try reflexivity.
Section WithHash.
  Variable hf : Z -> Z.

  Definition pend_ok (st : hstate) (pend : option (plan * Z)) : Prop :=
    match pend with Some (pl, k) => plan_ok hf st k pl | None => True end.

  Definition pk_of (pend : option (plan * Z)) : option Z := option_map snd pend.

  Definition abs (st : hstate) : smap := live_recs (h_ent st).

  Lemma present_spec_find : forall st k i c r,
    Inv hf st -> 0 <= i < h_n st -> zget (h_ent st) i = Live c r -> rkey r = k ->
    spec_find k (abs st) = Some r.
  Proof.
    intros st k i c r ((P & M & L) & H1 & H2 & (L' & CH & ND & CO)) Hi E K.
    apply spec_find_some; auto. apply In_live_recs. exists i, c. split; [lia|assumption].
  Qed.

  Lemma not_absent_spec_find : forall k l, ~ absent k l -> exists r, spec_find k (live_recs l) = Some r.
  Proof.
    intros k l N. destruct (spec_find k (live_recs l)) eqn:E; [eauto|].
    exfalso. apply N. apply absent_spec_find. assumption.
  Qed.

  (* the common part of OInsert and OInsertAt *)
  Lemma insert_at_step : forall st p r o,
    Inv hf st -> plan_ok hf st (rkey r) p ->
    exists s st' lg o', insert_at st p r o = (Ret (s, st'), lg, o') /\
      match spec_find (rkey r) (abs st) with
      | Some _ => s = EXISTS /\ st' = st
      | None => (s = SUCCESS /\ Permutation (abs st') (r :: abs st)) \/ (s = NO_MEM /\ st' = st)
      end /\ Inv hf st'.
  Proof.
    intros st p r o I OK. pose proof (insert_at_ok hf st p r o I OK) as A.
    destruct (insert_at st p r o) as [[x lg] o'].
    destruct x as [[s st']| |]; try contradiction.
    exists s, st', lg, o'. split; [reflexivity|].
    destruct s; try contradiction.
    - destruct A as (I' & AB & PM). apply absent_spec_find in AB. unfold abs. rewrite AB. auto.
    - destruct A as (-> & _ & _ & NA). apply not_absent_spec_find in NA as (r' & E).
      unfold abs. rewrite E. auto.
    - destruct A as (-> & AB & _). apply absent_spec_find in AB. unfold abs. rewrite AB. auto.
  Qed.

  Lemma erase_step : forall st i c r o,
    Inv hf st -> 0 <= i < h_n st -> zget (h_ent st) i = Live c r ->
    exists s st' lg o', erase st i o = (Ret (s, Some r, st'), lg, o') /\
      (s = SUCCESS \/ s = NO_MEM) /\ Permutation (abs st) (r :: abs st') /\ Inv hf st'.
  Proof.
    intros st i c r o I Hi E. pose proof (erase_ok hf st i c r o I Hi E) as A.
    destruct (erase st i o) as [[x lg] o'].
    destruct x as [[[s rem] st']| |]; try contradiction.
    destruct A as (S & -> & I' & PM). exists s, st', lg, o'. auto.
  Qed.

  Lemma step_ok : forall st pend c o,
    Inv hf st -> pend_ok st pend ->
    exists res st' pend' lg o',
      step hf (st, pend) c o = (Ret (res, (st', pend')), lg, o') /\
      spec_ok (abs st) (pk_of pend) c res (abs st') /\
      pk_of pend' = next_pk (pk_of pend) c res /\
      Inv hf st' /\ pend_ok st' pend'.
  Proof.
    intros st pend c o I PO. destruct c as [r|k|k|r|k|k|k|k| |]; cbn [step].
    - (* OInsert *)
      unfold insert.
      destruct (plan_insert_ok hf st (KOfRec r) I) as (p & E & OK).
      destruct (plan_insert hf st (KOfRec r)) as [pr lg0]. simpl in E. subst pr.
      destruct (insert_at_step st p r o I OK) as (s & st' & lg & o' & EQ & SP & I').
      rewrite EQ. do 5 eexists. split; [reflexivity|].
      cbn [spec_ok]. destruct (spec_find (rkey r) (abs st)) eqn:SF.
      + destruct SP as (-> & ->). spl.
      + destruct SP as [(-> & PM)|(-> & ->)]; spl.
    - (* OPlan *)
      destruct (plan_insert_ok hf st (KArg k) I) as (p & E & OK).
      destruct (plan_insert hf st (KArg k)) as [pr lg0]. simpl in E. subst pr.
      do 5 eexists. split; [reflexivity|]. simpl in OK.
      split; [|spl].
      cbn [spec_ok]. split; [reflexivity|]. exists (p_code p), (p_index p). f_equal.
      unfold record_at. destruct OK as (PC & PI & [(r & Z & K)|(HV & AB & _)]).
      * rewrite Z. simpl. symmetry. eapply present_spec_find; eauto.
      * apply absent_spec_find in AB. unfold abs. rewrite AB.
        unfold has_value in HV. destruct (s_value (zget (h_ent st) (p_index p))); [discriminate|reflexivity].
    - (* OPlanPre *)
      destruct (plan_prehashed_ok hf st k (KArg k) I) as (p & E & OK).
      destruct (plan_insert_prehashed st (code_of hf k) (Z.eqb k) (KArg k)) as [pr lg0]. simpl in E. subst pr.
      do 5 eexists. split; [reflexivity|].
      split; [|spl].
      cbn [spec_ok]. split; [reflexivity|]. exists (p_code p), (p_index p). f_equal.
      unfold record_at. destruct OK as (PC & PI & [(r & Z & K)|(HV & AB & _)]).
      * rewrite Z. simpl. symmetry. eapply present_spec_find; eauto.
      * apply absent_spec_find in AB. unfold abs. rewrite AB.
        unfold has_value in HV. destruct (s_value (zget (h_ent st) (p_index p))); [discriminate|reflexivity].
    - (* OInsertAt *)
      destruct pend as [[pl k]|]; cbn [pk_of option_map snd spec_ok].
      + destruct (rkey r =? k) eqn:EK.
        * assert (k = rkey r) by lia. subst k. simpl in PO.
          destruct (insert_at_step st pl r o I PO) as (s & st' & lg & o' & EQ & SP & I').
          rewrite EQ. do 5 eexists. split; [reflexivity|].
          destruct (spec_find (rkey r) (abs st)) eqn:SF.
          -- destruct SP as (-> & ->). spl.
          -- destruct SP as [(-> & PM)|(-> & ->)]; spl.
        * do 5 eexists. split; [reflexivity|]. spl.
      + do 5 eexists. split; [reflexivity|]. spl.
    - (* OFind *)
      destruct (find_ok hf st k I) as (i & E & D).
      destruct (find hf st k) as [fi lg0]. simpl in E. subst fi.
      do 5 eexists. split; [reflexivity|]. split; [|spl].
      cbn [spec_ok]. split; [reflexivity|].
      destruct D as [(-> & AB)|(Hi & r & Z & K)].
      * rewrite Z.eqb_refl. apply absent_spec_find in AB. unfold abs. rewrite AB.
        exists None. split; [reflexivity|]. split; reflexivity.
      * destruct (i =? h_n st) eqn:Ei; [lia|].
        rewrite (present_spec_find st k i _ r I Hi Z K).
        exists (Some i). unfold get. rewrite Z. simpl. split; [reflexivity|]. split; discriminate.
    - (* OFindRec *)
      destruct (find_record_ok hf st k I) as (ro & E & D).
      destruct (find_record hf st k) as [fr lg0]. simpl in E. subst fr.
      do 5 eexists. split; [reflexivity|]. split; [|spl].
      cbn [spec_ok]. split; [reflexivity|].
      destruct D as [(-> & AB)|(i & r & -> & Hi & Z & K)].
      * apply absent_spec_find in AB. unfold abs. rewrite AB. reflexivity.
      * rewrite (present_spec_find st k i _ r I Hi Z K). reflexivity.
    - (* ORemove *)
      unfold remove.
      destruct (find_ok hf st k I) as (i & E & D).
      destruct (find hf st k) as [fi lg0]. simpl in E. subst fi.
      destruct D as [(-> & AB)|(Hi & r & Z & K)].
      * rewrite Z.eqb_refl. do 5 eexists. split; [reflexivity|].
        apply absent_spec_find in AB. fold (abs st) in AB. cbn [spec_ok]. rewrite AB. spl.
      * destruct (i =? h_n st) eqn:Ei; [lia|].
        destruct (erase_step st i _ r o I Hi Z) as (s & st' & lg & o' & EQ & SS & PM & I').
        rewrite EQ. do 5 eexists. split; [reflexivity|].
        cbn [spec_ok]. rewrite (present_spec_find st k i _ r I Hi Z K).
        destruct SS as [-> | ->]; spl.
    - (* OErase *)
      destruct (find_ok hf st k I) as (i & E & D).
      destruct (find hf st k) as [fi lg0]. simpl in E. subst fi.
      destruct D as [(-> & AB)|(Hi & r & Z & K)].
      * rewrite Z.eqb_refl. do 5 eexists. split; [reflexivity|].
        apply absent_spec_find in AB. fold (abs st) in AB. cbn [spec_ok]. rewrite AB. spl.
      * destruct (i =? h_n st) eqn:Ei; [lia|].
        destruct (erase_step st i _ r o I Hi Z) as (s & st' & lg & o' & EQ & SS & PM & I').
        rewrite EQ. do 5 eexists. split; [reflexivity|].
        cbn [spec_ok]. rewrite (present_spec_find st k i _ r I Hi Z K).
        destruct SS as [-> | ->]; spl.
    - (* OSize *)
      do 5 eexists. split; [reflexivity|]. split; [|spl].
      cbn [spec_ok]. split; [reflexivity|]. unfold size, spec_size, abs.
      destruct I as (_ & H1 & _). rewrite H1. reflexivity.
    - (* OIter *)
      rewrite (iterate_ok st (proj1 I)).
      do 5 eexists. split; [reflexivity|]. split; [|spl].
      cbn [spec_ok]. split; [reflexivity|]. eexists. split; [reflexivity|].
      split; [apply live_idx_nodup|]. rewrite live_idx_snd. apply Permutation_refl.
  Qed.

  (* ---------------------------------------------------------------- histories *)
  Lemma run_ok : forall cs st pend o,
    Inv hf st -> pend_ok st pend ->
    exists l st' pend',
      run hf (st, pend) cs o = (Ret l, (st', pend')) /\
      spec_run (abs st) (pk_of pend) cs (map fst l) /\
      Inv hf st' /\ pend_ok st' pend'.
  Proof.
    induction cs as [|c cs IH]; intros st pend o I PO.
    - exists [], st, pend. simpl. auto.
    - destruct (step_ok st pend c o I PO) as (res & st1 & pend1 & lg & o1 & EQ & SP & PK & I1 & PO1).
      destruct (IH st1 pend1 o1 I1 PO1) as (l & st' & pend' & RUN & SR & I' & PO').
      exists ((res, lg) :: l), st', pend'. cbn [run]. rewrite EQ, RUN.
      split; [reflexivity|]. split; [|auto].
      cbn [map fst spec_run]. exists (abs st1). split; [assumption|]. rewrite <- PK. assumption.
  Qed.
End WithHash.
