(* Model of src/errno_status.c (zix_errno_status, zix_errno_status_if) — shared by C17, C18, C19.
   Definitions only.  errno values are those of Linux/glibc x86-64; the C drivers check every one of
   them with _Static_assert, so a platform where they differ does not build. *)
From Coq Require Import ZArith List Bool.
Import ListNotations.
Local Open Scope Z_scope.

Inductive status :=
| SUCCESS | ERROR | NO_MEM | NOT_FOUND | EXISTS | BAD_ARG | BAD_PERMS | REACHED_END
| TIMEOUT | OVERFLOW | NOT_SUPPORTED | UNAVAILABLE | NO_SPACE | MAX_LINKS.

Definition status_code (s : status) : Z :=
  match s with
  | SUCCESS => 0 | ERROR => 1 | NO_MEM => 2 | NOT_FOUND => 3 | EXISTS => 4 | BAD_ARG => 5
  | BAD_PERMS => 6 | REACHED_END => 7 | TIMEOUT => 8 | OVERFLOW => 9 | NOT_SUPPORTED => 10
  | UNAVAILABLE => 11 | NO_SPACE => 12 | MAX_LINKS => 13
  end.

Definition status_eqb (a b : status) : bool := Z.eqb (status_code a) (status_code b).

Definition EPERM := 1.      Definition ENOENT := 2.   Definition ESRCH := 3.
Definition EINTR := 4.      Definition EBADF := 9.    Definition EAGAIN := 11.
Definition EWOULDBLOCK := 11.
Definition ENOMEM := 12.    Definition EACCES := 13.  Definition EEXIST := 17.
Definition EINVAL := 22.    Definition ENOSPC := 28.  Definition EMLINK := 31.
Definition EDEADLK := 35.   Definition ENOLCK := 37.  Definition ENOSYS := 38.
Definition EOVERFLOW := 75. Definition ENOTSUP := 95. Definition ETIMEDOUT := 110.

(* static const Mapping map[] = { ... } without the trailing fallback entry, in source order *)
Definition errno_map : list (Z * status) :=
  [ (0, SUCCESS); (EACCES, BAD_PERMS); (EAGAIN, UNAVAILABLE); (EEXIST, EXISTS);
    (EINVAL, BAD_ARG); (EMLINK, MAX_LINKS); (ENOENT, NOT_FOUND); (ENOMEM, NO_MEM);
    (ENOSPC, NO_SPACE); (ENOSYS, NOT_SUPPORTED); (EPERM, BAD_PERMS); (ETIMEDOUT, TIMEOUT);
    (ENOTSUP, NOT_SUPPORTED) ].

(* while (m < n_mappings && map[m].code != e) ++m;  return map[m].status;  (map[n] = fallback ERROR) *)
Fixpoint errno_lookup (m : list (Z * status)) (e : Z) : status :=
  match m with
  | [] => ERROR
  | (c, s) :: m' => if Z.eqb c e then s else errno_lookup m' e
  end.

Definition errno_status (e : Z) : status := errno_lookup errno_map e.

(* result of a system call as the wrappers see it: r == 0, or r != 0 with errno = e *)
Inductive kres := KOk | KErr (e : Z).

(* zix_errno_status_if(r) / zix_posix_status(r): r ? zix_errno_status(errno) : SUCCESS *)
Definition errno_status_if (r : kres) : status :=
  match r with KOk => SUCCESS | KErr e => errno_status e end.
