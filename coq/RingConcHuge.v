(* C04: writer calls whose size argument is at least the ring size 2^k (anything up to 2^32-1).
   The trace correspondence cannot run such a call through the list-based model (a 4 GiB source list), so its
   effect is stated once and proved here for EVERY source of such a length, in every state and on every schedule:

     - [write_space c r w < 2^k] for all head values, so the space check of zix_ring_amend_write refuses the call:
       zix_ring_write performs its two head loads and returns 0, zix_ring_amend_write performs no shared access
       and returns NO_MEM; no buffer access, no store, the transaction is unchanged;
     - therefore two writer programs that agree except for the byte lists of such over-long calls ([prog_sim])
       produce, under the same schedule, the same access trace, the same results of both threads, the same
       memory and ghost state; only the logged calls in [wcalls] (and the call a pending WOwn carries) differ,
       and they are related pointwise ([state_sim]).

   The model driver (ocaml/drv_c04.ml) relies on [run_sim]: for an op W<n>/A<n> with n >= 2^k it builds the model
   program with a stand-in source of exactly 2^k bytes. *)
From Coq Require Import ZArith List Bool Arith Lia.
From Zix Require Import RingConcModel RingConcProofsA.
Import ListNotations.
Local Open Scope Z_scope.

Definition overlong (c : cfg) (bs : list Z) : Prop := rsize c <= wsize bs.

(* two calls that are equal, or are both over-long writes, or both over-long amends *)
Inductive call_sim (c : cfg) : wcall -> wcall -> Prop :=
| CsSame : forall x, call_sim c x x
| CsWrite : forall a b, overlong c a -> overlong c b -> call_sim c (WWrite a) (WWrite b)
| CsAmend : forall a b, overlong c a -> overlong c b -> call_sim c (WAmend a) (WAmend b).

(* two writer strategies that, after the same results, finish together or make related calls *)
Definition prog_sim (c : cfg) (p q : wprog) : Prop :=
  forall res, match p res, q res with
              | None, None => True
              | Some a, Some b => call_sim c a b
              | _, _ => False
              end.

Inductive wpc_sim (c : cfg) : wpc -> wpc -> Prop :=
| PsSame : forall x, wpc_sim c x x
| PsOwn : forall a b r rc, call_sim c a b -> wpc_sim c (WOwn a r rc) (WOwn b r rc).

Record wloc_sim (c : cfg) (x y : wloc) : Prop := mkWlocSim {
  ws_pc : wpc_sim c (wpcs x) (wpcs y);
  ws_tx : wtx x = wtx y;
  ws_res : wresl x = wresl y;
  ws_vw : vw x = vw y;
  ws_calls : Forall2 (call_sim c) (wcalls x) (wcalls y);
  ws_steps : wsteps x = wsteps y }.

(* equal except for the logged writer calls *)
Record state_sim (c : cfg) (s t : state) : Prop := mkStateSim {
  ss_m : sm s = sm t;
  ss_w : wloc_sim c (sw s) (sw t);
  ss_r : sr s = sr t;
  ss_g : sg s = sg t;
  ss_tr : trace s = trace t }.

(* ------------------------------------------------------------------ the space check *)
Lemma write_space_lt : forall c r w, 0 <= ck c <= 31 -> 0 <= write_space c r w < rsize c.
Proof.
  intros c r w Hk. unfold write_space. rewrite (band_mod c Hk). apply (mod_range c Hk).
Qed.

Lemma overlong_refused : forall c r w bs, 0 <= ck c <= 31 -> overlong c bs ->
  (write_space c r w <? wsize bs) = true.
Proof.
  intros c r w bs Hk Ho. apply Z.ltb_lt. pose proof (write_space_lt c r w Hk). unfold overlong in Ho. lia.
Qed.

(* ------------------------------------------------------------------ the relation is preserved *)
Lemma call_sim_refl_list : forall c l, Forall2 (call_sim c) l l.
Proof. induction l; constructor; [apply CsSame | assumption]. Qed.

Lemma wloc_sim_refl : forall c w, wloc_sim c w w.
Proof. intros. constructor; try reflexivity; [apply PsSame | apply call_sim_refl_list]. Qed.

Lemma state_sim_refl : forall c s, state_sim c s s.
Proof. intros. constructor; try reflexivity. apply wloc_sim_refl. Qed.

Ltac sim_done :=
  repeat match goal with
         | |- state_sim _ (mkState _ _ _ _ _) (mkState _ _ _ _ _) => apply mkStateSim; cbn [sm sw sr sg trace]
         | |- wloc_sim _ (mkW _ _ _ _ _ _) (mkW _ _ _ _ _ _) => apply mkWlocSim; cbn [wpcs wtx wresl vw wcalls wsteps]
         | |- ?a = ?a => reflexivity
         | |- wpc_sim _ ?a ?a => apply PsSame
         | |- wpc_sim _ (WOwn _ _ _) (WOwn _ _ _) => apply PsOwn
         | |- call_sim _ ?a ?a => apply CsSame
         | |- call_sim _ (WWrite _) (WWrite _) => apply CsWrite
         | |- call_sim _ (WAmend _) (WAmend _) => apply CsAmend
         | |- Forall2 _ (_ :: _) (_ :: _) => apply Forall2_cons
         | |- _ => assumption
         end.

Lemma wcopy_next_sim : forall c fin r w size i todo x y,
  wloc_sim c x y -> wloc_sim c (wcopy_next c fin r w size i todo x) (wcopy_next c fin r w size i todo y).
Proof.
  intros c fin r w size i todo x y [Hpc Htx Hres Hvw Hcalls Hst].
  unfold wcopy_next, set_wpc, w_finish. destruct todo; [destruct fin|]; rewrite ?Htx, ?Hres, ?Hvw, ?Hst; sim_done.
Qed.

(* the step taken from WOwn for the same call on both sides *)
Lemma wstep_own_same : forall c p q m pc tx res v calls calls' st rl g tr call r rc k,
  Forall2 (call_sim c) calls calls' ->
  pc = WOwn call r rc ->
  state_sim c (wstep c p (mkState m (mkW pc tx res v calls st) rl g tr) k)
              (wstep c q (mkState m (mkW pc tx res v calls' st) rl g tr) k).
Proof.
  intros c p q m pc tx res v calls calls' st rl g tr call r rc k Hc ->.
  unfold wstep; cbn [sm sw sr sg trace wpcs wtx wresl vw wcalls wsteps].
  destruct call; unfold w_finish; cbn [wpcs wtx wresl vw wcalls wsteps]; sim_done.
  destruct (write_space c r (lastv (WH m)) <? wsize bs); sim_done.
  apply wcopy_next_sim. sim_done.
Qed.

Lemma wstep_sim : forall c p q s t k, 0 <= ck c <= 31 -> prog_sim c p q -> state_sim c s t ->
  state_sim c (wstep c p s k) (wstep c q t k).
Proof.
  intros c p q [m wl rl g tr] [m' wl' rl' g' tr'] k Hk Hp [Hm Hw Hr Hg Htr].
  cbn [sm sw sr sg trace] in *. subst m' rl' g' tr'.
  destruct wl as [pc tx res v calls st], wl' as [pc' tx' res' v' calls' st'].
  destruct Hw as [Hpc Htx Hres Hvw Hcalls Hst]. cbn [wpcs wtx wresl vw wcalls wsteps] in *.
  subst tx' res' v' st'.
  inversion Hpc as [x E1 E2 | a b r rc Hab E1 E2]; subst.
  - (* same control state *)
    destruct pc' as [| call r rc | fin w size i todo | wr wv].
    + (* WIdle: the next call *)
      unfold wstep; cbn [sm sw sr sg trace wpcs wtx wresl vw wcalls wsteps].
      specialize (Hp res). destruct (p res) as [a|], (q res) as [b|]; try contradiction; [|sim_done].
      inversion Hp as [x | a' b' Ha Hb | a' b' Ha Hb]; subst.
      * destruct b; unfold w_finish; cbn [wpcs wtx wresl vw wcalls wsteps]; sim_done;
          destruct tx as [[r w]|]; sim_done.
        destruct (write_space c r w <? wsize bs); sim_done.
        apply wcopy_next_sim. sim_done.
      * sim_done.
      * destruct tx as [[r w]|]; unfold w_finish; cbn [wpcs wtx wresl vw wcalls wsteps]; [|sim_done].
        rewrite (overlong_refused c r w a' Hk Ha), (overlong_refused c r w b' Hk Hb). sim_done.
    + eapply wstep_own_same; [assumption | reflexivity].
    + unfold wstep; cbn [sm sw sr sg trace wpcs wtx wresl vw wcalls wsteps].
      destruct todo as [|b rest]; [|destruct tx as [[r w']|]]; unfold w_finish; cbn [wpcs wtx wresl vw wcalls wsteps]; sim_done.
      apply wcopy_next_sim. sim_done.
    + unfold wstep, w_finish; cbn [sm sw sr sg trace wpcs wtx wresl vw wcalls wsteps]. sim_done.
  - (* both in WOwn with related calls *)
    inversion Hab as [x | a' b' Ha Hb | a' b' Ha Hb]; subst.
    + eapply wstep_own_same; [assumption | reflexivity].
    + unfold wstep, w_finish; cbn [sm sw sr sg trace wpcs wtx wresl vw wcalls wsteps].
      rewrite (overlong_refused c r _ a' Hk Ha), (overlong_refused c r _ b' Hk Hb). sim_done.
    + unfold wstep, w_finish; cbn [sm sw sr sg trace wpcs wtx wresl vw wcalls wsteps]. sim_done.
Qed.

(* the reader never looks at the writer's local state *)
Lemma rstep_sim : forall c p s t k, state_sim c s t -> state_sim c (rstep c p s k) (rstep c p t k).
Proof.
  intros c p [m wl rl g tr] [m' wl' rl' g' tr'] k [Hm Hw Hr Hg Htr].
  cbn [sm sw sr sg trace] in *. subst m' rl' g' tr'.
  unfold rstep; cbn [sm sw sr sg trace].
  destruct (rpcs rl) as [| call w wc | adv r size i acc | rr rv rn].
  - destruct (p (rresl rl)); sim_done.
  - destruct call; try (destruct (read_space c (lastv (RH m)) w <? u32 n)); sim_done.
  - sim_done.
  - sim_done.
Qed.

Lemma step_sim : forall c wp wp' rp s t ch, 0 <= ck c <= 31 -> prog_sim c wp wp' -> state_sim c s t ->
  state_sim c (step c wp rp s ch) (step c wp' rp t ch).
Proof.
  intros c wp wp' rp s t [b k] Hk Hp Hs. unfold step; cbn [fst snd].
  destruct b; [apply wstep_sim | apply rstep_sim]; assumption.
Qed.

Lemma run_from_sim : forall c wp wp' rp sched s t, 0 <= ck c <= 31 -> prog_sim c wp wp' -> state_sim c s t ->
  state_sim c (run_from c wp rp s sched) (run_from c wp' rp t sched).
Proof.
  intros c wp wp' rp sched. unfold run_from.
  induction sched as [|ch rest IH]; intros s t Hk Hp Hs; cbn [fold_left]; [exact Hs|].
  apply IH; [assumption | assumption |]. apply step_sim; assumption.
Qed.

Lemma run_sim : forall c wp wp' rp sched, 0 <= ck c <= 31 -> prog_sim c wp wp' ->
  state_sim c (run c wp rp sched) (run c wp' rp sched).
Proof.
  intros. unfold run. apply run_from_sim; [assumption | assumption | apply state_sim_refl].
Qed.

(* what the relation means for the observables *)
Lemma run_sim_observables : forall c wp wp' rp sched, 0 <= ck c <= 31 -> prog_sim c wp wp' ->
  let s := run c wp rp sched in let s' := run c wp' rp sched in
  trace s = trace s' /\ wresl (sw s) = wresl (sw s') /\ rresl (sr s) = rresl (sr s') /\
  sm s = sm s' /\ sr s = sr s' /\ sg s = sg s' /\ wtx (sw s) = wtx (sw s') /\
  wsteps (sw s) = wsteps (sw s') /\
  wpc_sim c (wpcs (sw s)) (wpcs (sw s')) /\ Forall2 (call_sim c) (wcalls (sw s)) (wcalls (sw s')).
Proof.
  intros c wp wp' rp sched Hk Hp s s'.
  destruct (run_sim c wp wp' rp sched Hk Hp) as [Hm [Hpc Htx Hres Hvw Hcalls Hst] Hr Hg Htr].
  fold s s' in Hm, Hpc, Htx, Hres, Hvw, Hcalls, Hst, Hr, Hg, Htr.
  rewrite Hr. repeat split; assumption.
Qed.

(* programs given as lists *)
Lemma prog_sim_of_lists : forall c l l', Forall2 (call_sim c) l l' ->
  prog_sim c (wprog_of_list l) (wprog_of_list l').
Proof.
  intros c l l' H res. unfold wprog_of_list. generalize (length res) as n.
  induction H as [|a b l l' Hab H IH]; intros n.
  - destruct n; exact I.
  - destruct n as [|n]; cbn [nth_error]; [exact Hab | apply IH].
Qed.

(* ------------------------------------------------------------------ the refusal itself, step by step *)
(* zix_ring_write with an over-long size: after the acquire load of read_head (the generic first micro-step,
   which does not look at the size), the plain load of write_head ends the call with 0; memory, the other
   thread and the transaction-free state are untouched *)
Lemma overlong_write_step : forall c p s k bs r rc, 0 <= ck c <= 31 -> overlong c bs ->
  wpcs (sw s) = WOwn (WWrite bs) r rc ->
  let s' := wstep c p s k in
  wpcs (sw s') = WIdle /\ wresl (sw s') = WrWrote 0 :: wresl (sw s) /\ wtx (sw s') = None /\
  sm s' = sm s /\ sr s' = sr s /\ trace s' = EvOwn HW (lastv (WH (sm s))) :: trace s.
Proof.
  intros c p s k bs r rc Hk Ho E s'. unfold s', wstep. rewrite E.
  rewrite (overlong_refused c r _ bs Hk Ho). cbn. repeat split; reflexivity.
Qed.

(* zix_ring_amend_write with an over-long size inside a transaction: one micro-step without any shared access;
   NO_MEM; the transaction, memory, ghost state and trace are unchanged *)
Lemma overlong_amend_step : forall c p s k bs tx, 0 <= ck c <= 31 -> overlong c bs ->
  wpcs (sw s) = WIdle -> p (wresl (sw s)) = Some (WAmend bs) -> wtx (sw s) = Some tx ->
  let s' := wstep c p s k in
  wpcs (sw s') = WIdle /\ wresl (sw s') = WrAmend false :: wresl (sw s) /\ wtx (sw s') = Some tx /\
  sm s' = sm s /\ sr s' = sr s /\ sg s' = sg s /\ trace s' = trace s.
Proof.
  intros c p s k bs [r w] Hk Ho E Ep Etx s'. unfold s', wstep. rewrite E, Ep, Etx.
  rewrite (overlong_refused c r w bs Hk Ho). cbn. repeat split; reflexivity.
Qed.
