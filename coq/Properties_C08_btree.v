(* C08 for the B-tree's pages — all memory goes through the caller's allocator, is released exactly once through
   the matching entry, and nothing is outstanding after zix_btree_free.  Property theorems only.

   Setting.  coq/BTreeAllocModel.v is the B-tree model of C01/C02 (coq/BTreeModel.v) INSTRUMENTED with block
   identities: every page carries the serial number of the request that obtained it (the tree struct is request 0, the
   first root page request 1; a refused request consumes a serial), every request is answered by the script in the
   allocator state [ast] = {oracle; next; log} of AllocModel.v, and every release the C code performs is an event
   [EFree Caller Aligned id] in the C code's order.  FaultSpec.log_run replays a log and fails on a double free, a
   release of a block that is not live, a release through the other entry (plain/aligned) or a foreign allocator;
   [log_ok l keep] = no protocol error and exactly the blocks [keep] outstanding.
     owns s owned  :=  exists live, wf s live /\ all_aligned live /\ Permutation (ids live) owned
                       (wf s live: log_run [] (log s) = Some live, all ids < next s, no id twice)
     AInv t s      :=  Inv rank L I (erase_tree t) /\ owns s (a_self t :: pages (a_root t))
   i.e. the erased tree satisfies the C01 invariant and the live blocks are exactly the tree struct and the pages
   of the tree, all of them aligned blocks.  (L, I) = (LEAF_VALS, INODE_VALS) with I = L / 2 and 3 <= I as in C01;
   H = ZIX_BTREE_MAX_HEIGHT (any value: an insert refused with OVERFLOW makes no request and changes nothing).
   The tie to src/btree.c is differential: case flag 'a' of harness/drv_c01.c prints the allocator trace
   (A<serial>:a:<size> / F<serial>:<entry>) after every call and tools/check.py C01 compares it with this model's log. *)
From Coq Require Import ZArith List Bool Arith.
From Zix Require Import BTreeSpec BTreeModel FaultSpec AllocModel AllocProofs BTreeProofsBase BTreeProofsHist
  BTreeAllocModel BTreeAllocProofs BTreeAllocInv BTreeAllocHist.
Import ListNotations.

(* (a) forgetting the page ids gives the model of C01/C02, call by call: same status, same out value, same
   comparator log, same consumption of the allocation script, and the erased result tree is the plain result *)
Theorem btree_pages_erasure :
  forall (elt : Type) (rank : elt -> Z) (dflt : elt) (L I H : nat) (s : ast) (t : atree elt) (e : elt),
    (let '(st, t', s', lg) := ainsert_op rank dflt L I H s t e in
     insert rank dflt L I H (oracle s) (erase_tree t) e = (st, erase_tree t', oracle s', lg)) /\
    (let '(st, out, t', s', lg) := aremove_op rank dflt L I s t e in
     exists it, remove rank dflt L I (erase_tree t) e = (st, out, erase_tree t', it, lg) /\ oracle s' = oracle s) /\
    (forall d, fst (clear (erase_tree t) d) = erase_tree (fst (aclear_op s t))) /\
    match anew_op (elt := elt) s with (Some t0, _) => erase_tree t0 = empty_tree | (None, _) => True end.
Proof.
  intros elt rank dflt L I H s t e. split; [|split; [|split]].
  - exact (erase_insert elt rank dflt L I H s t e).
  - exact (erase_remove elt rank dflt L I s t e).
  - intros d. exact (erase_clear elt rank dflt L I s t d).
  - exact (erase_new elt rank dflt L I s).
Qed.
Print Assumptions btree_pages_erasure.

(* ... and history by history: the erased instrumented run is the run of Properties_C01 (so btree_inv_reachable,
   btree_history_refines, ... speak about the instrumented tree) *)
Theorem btree_pages_erasure_history :
  forall (elt : Type) (rank : elt -> Z) (dflt : elt) (L I H : nat) (o0 : list bool) (ops : list (op elt)),
    match anew_op (elt := elt) (ast0 o0) with
    | (Some t, s) => erase_tree (fst (fold_left (astep elt rank dflt L I H) ops (t, s))) = run rank dflt L I H ops
    | (None, _) => True
    end.
Proof. exact erase_history. Qed.
Print Assumptions btree_pages_erasure_history.

(* zix_btree_new under any script: either a tree whose struct is block 0 and whose root page is block 1, both live,
   or NULL with nothing outstanding (the struct is released again when the root page is refused) *)
Theorem btree_pages_new :
  forall (elt : Type) (rank : elt -> Z) (dflt : elt) (L I : nat), I = L / 2 -> 3 <= I ->
  forall o : list bool,
    match anew_op (elt := elt) (ast0 o) with
    | (Some t, s) => AInv elt rank L I t s /\ a_self t = 0 /\ aid (a_root t) = 1
    | (None, s) => owns s [] /\ log_ok (log s) [] = true
    end.
Proof.
  intros elt rank dflt L I HI HI3 o.
  pose proof (anew_spec elt rank dflt L I HI HI3 0 o) as H.
  destruct (anew_op (elt := elt) (ast0 o)) as [[t|] s]; [exact H|].
  split; [exact H|exact (owns_log_ok s [] H)].
Qed.
Print Assumptions btree_pages_new.

(* every public call keeps "live blocks = tree struct + pages of the tree", for ANY allocation script in force:
   insert incl. grow_up refused at its first request, at its second (the new root is released again) and a split
   refused half-way down after earlier splits; remove incl. every merge and the root collapse; clear *)
Theorem btree_pages_invariant_calls :
  forall (elt : Type) (rank : elt -> Z) (dflt : elt) (L I : nat), I = L / 2 -> 3 <= I ->
  forall (H : nat) (t : atree elt) (s : ast) (e : elt), AInv elt rank L I t s ->
    (let '(st, t', s', lg) := ainsert_op rank dflt L I H s t e in AInv elt rank L I t' s') /\
    (let '(st, out, t', s', lg) := aremove_op rank dflt L I s t e in AInv elt rank L I t' s') /\
    (let '(t', s') := aclear_op s t in AInv elt rank L I t' s') /\
    log_ok (log s) (a_self t :: pages (a_root t)) = true.
Proof.
  intros elt rank dflt L I HI HI3 H t s e A. split; [|split; [|split]].
  - exact (ainsert_inv elt rank dflt L I HI HI3 H t s e A).
  - exact (aremove_inv elt rank dflt L I HI HI3 H t s e A).
  - exact (aclear_inv elt rank dflt L I HI HI3 H t s A).
  - destruct A as [_ A]. exact (owns_log_ok s _ A).
Qed.
Print Assumptions btree_pages_invariant_calls.

(* zix_btree_free releases everything: no protocol error and nothing outstanding *)
Theorem btree_pages_free :
  forall (elt : Type) (rank : elt -> Z) (dflt : elt) (L I : nat), I = L / 2 -> 3 <= I ->
  forall (t : atree elt) (s : ast), AInv elt rank L I t s ->
    owns (afree_op s t) [] /\ log_ok (log (afree_op s t)) [] = true.
Proof.
  intros elt rank dflt L I HI HI3 t s H.
  pose proof (afree_spec elt rank dflt L I HI HI3 0 t s H) as F. split; [exact F|exact (owns_log_ok _ _ F)].
Qed.
Print Assumptions btree_pages_free.

(* the whole life of a tree, for every configuration, history and script (one script for zix_btree_new, one carried by
   every insert): at the end of the history the live blocks are exactly the tree struct and the pages of the tree,
   without repetition, and after zix_btree_free the log is protocol-correct with nothing outstanding *)
Theorem btree_pages_history :
  forall (elt : Type) (rank : elt -> Z) (dflt : elt) (L I : nat), I = L / 2 -> 3 <= I ->
  forall (H : nat) (o0 : list bool) (ops : list (op elt)),
    match anew_op (elt := elt) (ast0 o0) with
    | (None, s) => log_ok (log s) [] = true
    | (Some t, s) =>
        let '(t', s') := fold_left (astep elt rank dflt L I H) ops (t, s) in
        AInv elt rank L I t' s' /\
        log_ok (log s') (a_self t' :: pages (a_root t')) = true /\
        NoDup (a_self t' :: pages (a_root t')) /\
        log_ok (log (afree_op s' t')) [] = true
    end.
Proof. exact btree_alloc_history. Qed.
Print Assumptions btree_pages_history.

(* non-vacuity, page size 64 ((L, I) = (6, 3)): six inserts fill the root leaf; the 7th is refused at grow_up's second
   request (script [true; false]: new root = request 2 obtained and released again, request 3 refused), the 8th at
   the first (request 4 refused), the 9th succeeds (requests 5, 6); removing 1, 2, 3 collapses the root
   (parent 5 released, then the right page 6) -- the log is exactly the trace the C driver prints for
   "64 a i1.1 .. i6.6 O10 i7.7 O0 i7.8 i7.9 r1 r2 r3" followed by zix_btree_free *)
Example pages_example :
  let ins o k := OInsert o (Z.of_nat k) in
  let ops := map (ins []) (seq 1 6) ++ [ins [true; false] 7; ins [false] 7; ins [] 7;
                                        ORemove 1%Z; ORemove 2%Z; ORemove 3%Z] in
  match anew_op (elt := Z) (ast0 []) with
  | (Some t, s) =>
      let '(t', s') := fold_left (astep Z (fun x => x) 0%Z 6 3 6) ops (t, s) in
      log (afree_op s' t') =
        [EAlloc Caller Aligned 0; EAlloc Caller Aligned 1;
         EAlloc Caller Aligned 2; EFree Caller Aligned 2;
         EAlloc Caller Aligned 5; EAlloc Caller Aligned 6;
         EFree Caller Aligned 5; EFree Caller Aligned 6;
         EFree Caller Aligned 1; EFree Caller Aligned 0] /\
      pages (a_root t') = [1] /\ log_ok (log (afree_op s' t')) [] = true
  | (None, _) => False
  end.
Proof. vm_compute. repeat split. Qed.
