(* C15 — lemmas, part 3: path strings, the iterator of path.c, and zix_create_directories refines mkdir -p. *)
From Coq Require Import ZArith List Bool Lia.
From Zix Require Import CopySpec CopyModel FsSpec FsModel FsProofs2.
Import ListNotations.
Local Open Scope Z_scope.

Definition all_sep (l : list Z) : Prop := Forall (fun c => c = SLASH) l.
Definition name_chars (l : list Z) : Prop := Forall (fun c => c <> SLASH /\ c <> 0) l.
Definition nul_free (l : list Z) : Prop := Forall (fun c => c <> 0) l.
Definition at_boundary (suf : list Z) : Prop := suf = [] \/ exists y, suf = SLASH :: y.

(* ---------------------------------------------------------------- components of a string *)
Lemma split_acc_sep : forall x y cur, split_acc (x ++ SLASH :: y) cur = split_acc x cur ++ split_acc y [].
Proof.
  induction x as [|c x IH]; intros y cur; cbn [app split_acc].
  - rewrite Z.eqb_refl. destruct cur; reflexivity.
  - destruct (c =? SLASH).
    + destruct cur; [apply IH|cbn [app]; rewrite IH; reflexivity].
    + apply IH.
Qed.

Lemma split_acc_name : forall nm cur, name_chars nm ->
  split_acc nm cur = match rev cur ++ nm with [] => [] | n => [n] end.
Proof.
  induction nm as [|c nm IH]; intros cur H; cbn [split_acc].
  - rewrite app_nil_r. destruct cur as [|a cur]; [reflexivity|].
    destruct (rev (a :: cur)) eqn:E; [|reflexivity].
    apply (f_equal (@length Z)) in E. rewrite rev_length in E. discriminate.
  - inversion H as [|? ? [Hc _] Hn]; subst.
    destruct (Z.eqb_spec c SLASH); [contradiction|].
    rewrite IH by exact Hn. cbn [rev]. rewrite <- app_assoc. reflexivity.
Qed.

Lemma split_acc_seps : forall sl y, all_sep sl -> split_acc (sl ++ y) [] = split_acc y [].
Proof.
  induction sl as [|c sl IH]; intros y H; [reflexivity|].
  inversion H; subst. cbn [app split_acc]. rewrite Z.eqb_refl. apply IH. assumption.
Qed.

Definition boundary (pre0 sl : list Z) : Prop := pre0 = [] \/ (exists p, pre0 = p ++ [SLASH]) \/ sl <> [].

Lemma components_prefix : forall pre0 sl nm, all_sep sl -> name_chars nm -> boundary pre0 sl ->
  components (pre0 ++ sl ++ nm) = components pre0 ++ split_acc nm [].
Proof.
  intros pre0 sl nm Hs Hn B. unfold components.
  destruct sl as [|c sl'].
  - cbn [app]. destruct B as [->|[[p ->]|X]]; [reflexivity| |contradiction X; reflexivity].
    rewrite <- app_assoc. cbn [app]. rewrite split_acc_sep.
    replace (p ++ [SLASH]) with (p ++ SLASH :: []) by reflexivity. rewrite split_acc_sep.
    cbn [split_acc]. rewrite app_nil_r. reflexivity.
  - inversion Hs; subst. cbn [app]. rewrite split_acc_sep. rewrite split_acc_seps by assumption. reflexivity.
Qed.

Lemma components_boundary : forall p suf, at_boundary suf -> components (p ++ suf) = components p ++ components suf.
Proof.
  intros p suf [->|[y ->]]; unfold components.
  - rewrite app_nil_r. cbn [split_acc]. rewrite app_nil_r. reflexivity.
  - rewrite split_acc_sep. cbn [split_acc]. rewrite Z.eqb_refl. reflexivity.
Qed.

(* ---------------------------------------------------------------- scanning *)
Fixpoint span_sep (l : list Z) : list Z * list Z :=
  match l with
  | c :: t => if is_dir_sep c then let (a, b) := span_sep t in (c :: a, b) else ([], l)
  | [] => ([], [])
  end.
Fixpoint span_name (l : list Z) : list Z * list Z :=
  match l with
  | c :: t => if (c =? 0) || is_dir_sep c then ([], l) else let (a, b) := span_name t in (c :: a, b)
  | [] => ([], [])
  end.

Lemma span_sep_spec : forall l a b, span_sep l = (a, b) ->
  l = a ++ b /\ all_sep a /\ (forall i, scan_seps l i = (i + length a)%nat) /\
  (b = [] \/ exists c y, b = c :: y /\ c <> SLASH).
Proof.
  induction l as [|c l IH]; intros a b H; cbn [span_sep scan_seps] in *.
  - inversion H; subst. repeat split; auto. constructor.
  - unfold is_dir_sep in *. destruct (Z.eqb_spec c SLASH).
    + destruct (span_sep l) as [a0 b0]. inversion H; subst. destruct (IH _ _ eq_refl) as (E & A & S & B).
      split; [cbn [app]; congruence|]. split; [constructor; [reflexivity|exact A]|].
      split; [intro i; rewrite S; cbn [length]; lia|exact B].
    + inversion H; subst. split; [reflexivity|]. split; [constructor|]. split; [intro i; cbn [length]; lia|].
      right. eauto.
Qed.

Lemma span_name_spec : forall l a b, nul_free l -> span_name l = (a, b) ->
  l = a ++ b /\ name_chars a /\ (forall i, scan_name l i = (i + length a)%nat) /\ at_boundary b.
Proof.
  induction l as [|c l IH]; intros a b Hn H; cbn [span_name scan_name] in *.
  - inversion H; subst. split; [reflexivity|]. split; [constructor|]. split; [intro i; cbn [length]; lia|left; reflexivity].
  - inversion Hn as [|? ? Hc Hl]; subst. unfold is_dir_sep in *.
    destruct (Z.eqb_spec c 0); [contradiction|]. cbn [orb] in *.
    destruct (Z.eqb_spec c SLASH).
    + inversion H; subst. split; [reflexivity|]. split; [constructor|]. split; [intro i; cbn [length]; lia|].
      right. eauto.
    + destruct (span_name l) as [a0 b0]. inversion H; subst. destruct (IH _ _ Hl eq_refl) as (E & A & S & B).
      split; [cbn [app]; congruence|]. split; [constructor; [split; assumption|exact A]|].
      split; [intro i; rewrite S; cbn [length]; lia|exact B].
Qed.

Lemma ch_skipn : forall s e, ch s e = hd 0 (skipn e s).
Proof.
  unfold ch. intros s e. revert s. induction e as [|e IH]; intros [|c s]; try reflexivity. cbn [nth skipn]. apply IH.
Qed.

(* one step of the iterator from the end of a component *)
Lemma next_step : forall s P suf b st, nul_free s -> s = P ++ suf -> (st = PFileName -> at_boundary suf) ->
  st = PRootDir \/ st = PFileName ->
  (suf = [] /\ path_next s (mkIt b (length P) st) = mkIt (length P) (length P) PEnd) \/
  (exists sl nm suf', suf = sl ++ nm ++ suf' /\ all_sep sl /\ name_chars nm /\ at_boundary suf' /\
     (nm = [] -> suf' = []) /\ (st = PFileName -> sl <> []) /\ (length suf' < length suf)%nat /\
     path_next s (mkIt b (length P) st) =
       mkIt (length P + length sl) (length (P ++ sl ++ nm)) PFileName).
Proof.
  intros s P suf b st Hn Hs Hb Hst.
  assert (Hsk : skipn (length P) s = suf) by (subst s; rewrite skipn_app, skipn_all, Nat.sub_diag; reflexivity).
  assert (Hnext : path_next s (mkIt b (length P) st) =
                  if ch s (length P) =? 0 then mkIt (length P) (length P) PEnd
                  else let b' := scan_seps (skipn (length P) s) (length P) in
                       mkIt b' (scan_name (skipn b' s) b') PFileName).
  { destruct Hst as [-> | ->]; reflexivity. }
  rewrite Hnext, ch_skipn, Hsk.
  assert (Hnsuf : nul_free suf) by (subst s; unfold nul_free in *; apply Forall_app in Hn; tauto).
  destruct suf as [|c suf0].
  - left. split; reflexivity.
  - right. cbn [hd]. inversion Hnsuf as [|? ? Hc Hrest]; subst.
    destruct (Z.eqb_spec c 0); [contradiction|].
    destruct (span_sep (c :: suf0)) as [sl r1] eqn:E1.
    destruct (span_sep_spec _ _ _ E1) as (Es & As & Ss & Bs).
    assert (Hn1 : nul_free r1) by (rewrite Es in Hnsuf; unfold nul_free in *; apply Forall_app in Hnsuf; tauto).
    destruct (span_name r1) as [nm suf'] eqn:E2.
    destruct (span_name_spec _ _ _ Hn1 E2) as (En & An & Sn & Bn).
    exists sl, nm, suf'. 
    assert (Hsk2 : skipn (length P + length sl) (P ++ c :: suf0) = r1).
    { rewrite Es. rewrite skipn_app. rewrite skipn_all2 by lia. cbn [app].
      replace (length P + length sl - length P)%nat with (length sl) by lia.
      rewrite skipn_app, skipn_all, Nat.sub_diag. reflexivity. }
    split; [rewrite Es, En; reflexivity|]. split; [exact As|]. split; [exact An|]. split; [exact Bn|].
    split.
    { intros ->. cbn [app] in En. subst r1. destruct Bs as [->|(c' & y & -> & Hc')]; [reflexivity|].
      destruct Bn as [X|[y' X]]; [discriminate X|]. inversion X; subst. contradiction Hc'. reflexivity. }
    split.
    { intros ->. destruct (Hb eq_refl) as [X|[y X]]; [discriminate X|]. inversion X; subst.
      intros ->. cbn [app] in Es.
      destruct Bs as [X2|(c' & y' & X2 & Hc')]; rewrite X2 in Es; [discriminate Es|].
      inversion Es; subst. contradiction Hc'; reflexivity. }
    split.
    { rewrite Es, En. rewrite !app_length. destruct sl as [|x sl']; [|cbn [length]; lia].
      destruct nm as [|x nm']; [|cbn [length]; lia].
      (* sl = [] and nm = []: impossible, the first character is a separator or a name character *)
      exfalso. cbn [app] in Es, En.
      destruct Bs as [X2|(c' & y & X2 & Hc')]; [rewrite X2 in Es; discriminate Es|].
      destruct Bn as [Y|[y' Y]].
      - rewrite Y in En. rewrite En in Es. discriminate Es.
      - rewrite X2, Y in En. inversion En; subst c'. contradiction Hc'; reflexivity. }
    cbv zeta. rewrite Ss. rewrite Hsk2. rewrite Sn. f_equal. rewrite !app_length. lia.
Qed.

(* ---------------------------------------------------------------- stat and mkdir on a chopped prefix *)
Lemma absolute_prefix : forall P suf, P <> [] -> absolute (P ++ suf) = absolute P.
Proof. intros [|c P] suf H; [contradiction H; reflexivity|reflexivity]. Qed.

Lemma trailing_slash_name : forall x nm, nm <> [] -> name_chars nm -> trailing_slash (x ++ nm) = false.
Proof.
  intros x nm Hne Hn. destruct (exists_last Hne) as (n0 & c & ->).
  unfold trailing_slash. rewrite app_assoc, rev_app_distr. cbn [rev app].
  apply Forall_app in Hn. destruct Hn as [_ Hc]. inversion Hc as [|? ? [Hc1 _] _]; subst.
  destruct (Z.eqb_spec c SLASH); [contradiction|reflexivity].
Qed.

Definition start (s : list Z) (cwd : loc) : loc := if absolute s then [] else cwd.

Definition status_of (r : mkres) : status := match r with MkOk _ => SUCCESS | MkBlocked => EXISTS end.

Lemma split_acc_nonempty_name : forall nm, nm <> [] -> name_chars nm -> split_acc nm [] = [nm].
Proof. intros nm Hne Hn. rewrite split_acc_name by exact Hn. cbn [rev app]. destruct nm; [contradiction Hne; reflexivity|reflexivity]. Qed.

Lemma stat_path_nonempty : forall fs cwd P, P <> [] ->
  stat_path fs cwd P =
  match walk fs (start P cwd) (components P) with
  | WFile l => if trailing_slash P then WErr ENOTDIR else WFile l
  | r => r
  end.
Proof. intros fs cwd [|c P] H; [contradiction H; reflexivity|reflexivity]. Qed.

Lemma mkdir_path_nonempty : forall fs cwd P, P <> [] ->
  mkdir_path fs cwd P =
  match rev (components P) with
  | [] => (EEXIST, fs)
  | lastc :: rparents =>
    match walk fs (start P cwd) (rev rparents) with
    | WErr e => (e, fs)
    | WFile _ => (ENOTDIR, fs)
    | WDir l =>
      if is_dot lastc || is_dotdot lastc then (EEXIST, fs)
      else match lookup fs (l ++ [lastc]) with
           | Some _ => (EEXIST, fs)
           | None => (0, fs ++ [(l ++ [lastc], KDir)])
           end
    end
  end.
Proof. intros fs cwd [|c P] H; [contradiction H; reflexivity|reflexivity]. Qed.

Lemma body_step : forall s cwd fs l P pre0 nm rest,
  P <> [] -> absolute P = absolute s -> components P = components pre0 ++ [nm] ->
  trailing_slash P = false -> walk fs (start s cwd) (components pre0) = WDir l ->
  (exists l', file_type fs cwd P = FT_DIRECTORY /\ walk fs (start s cwd) (components P) = WDir l' /\
              mkdirs_walk fs l (nm :: rest) = mkdirs_walk fs l' rest)
  \/ (file_type fs cwd P = FT_REGULAR /\ (exists ev, create_directory fs cwd P = (EXISTS, fs, ev)) /\
       mkdirs_walk fs l (nm :: rest) = (MkBlocked, fs))
  \/ (exists fs' l', file_type fs cwd P = FT_NONE /\ (exists ev, create_directory fs cwd P = (SUCCESS, fs', ev)) /\
         walk fs' (start s cwd) (components P) = WDir l' /\
         mkdirs_walk fs l (nm :: rest) = mkdirs_walk fs' l' rest).
Proof.
  intros s cwd fs l P pre0 nm rest Hne Habs HcP Hts Hw.
  assert (Hst : start P cwd = start s cwd) by (unfold start; rewrite Habs; reflexivity).
  assert (Hwalk : walk fs (start s cwd) (components P) = walk fs l [nm]) by (rewrite HcP; apply walk_app_dir; exact Hw).
  assert (Hstat : stat_path fs cwd P = match walk fs l [nm] with WFile x => WFile x | r => r end).
  { rewrite stat_path_nonempty by exact Hne. rewrite Hst, Hwalk, Hts. reflexivity. }
  assert (Hmk : mkdir_path fs cwd P =
                if is_dot nm || is_dotdot nm then (EEXIST, fs)
                else match lookup fs (l ++ [nm]) with Some _ => (EEXIST, fs) | None => (0, fs ++ [(l ++ [nm], KDir)]) end).
  { rewrite mkdir_path_nonempty by exact Hne. rewrite HcP, rev_app_distr. cbn [rev app].
    rewrite rev_involutive, Hst, Hw. reflexivity. }
  assert (Hcd : forall e fs', mkdir_path fs cwd P = (e, fs') ->
                exists ev, create_directory fs cwd P = (if e =? 0 then SUCCESS else zix_errno_status e, fs', ev)).
  { intros e fs' E. unfold create_directory. destruct P; [contradiction Hne; reflexivity|]. rewrite E. eauto. }
  unfold file_type. rewrite Hstat. cbn [walk mkdirs_walk] in *.
  destruct (is_dot nm) eqn:D1.
  - left. exists l. rewrite Hwalk. auto.
  - destruct (is_dotdot nm) eqn:D2.
    + left. exists (removelast l). rewrite Hwalk. auto.
    + cbn [orb] in Hmk. destruct (lookup fs (l ++ [nm])) as [[|]|] eqn:L.
      * right; left. split; [reflexivity|]. split; [|reflexivity].
        destruct (Hcd _ _ Hmk) as [ev E]. exists ev. exact E.
      * left. exists (l ++ [nm]). rewrite Hwalk. auto.
      * right; right. exists (fs ++ [(l ++ [nm], KDir)]), (l ++ [nm]).
        split; [reflexivity|]. split; [destruct (Hcd _ _ Hmk) as [ev E]; exists ev; exact E|].
        split; [|reflexivity].
        rewrite HcP. rewrite (walk_app_dir (components pre0) [nm] _ _ l).
        2: { eapply walk_dir_extends; [|exact Hw]. intros q k Hq. apply lookup_app_some. exact Hq. }
        cbn [walk]. rewrite D1, D2. rewrite (lookup_app_new fs l nm KDir L). reflexivity.
Qed.

Lemma loop_refines : forall s cwd, nul_free s -> forall fuel pre0 sl nm suf fs l b tr,
  s = pre0 ++ sl ++ nm ++ suf -> all_sep sl -> name_chars nm -> at_boundary suf ->
  (nm = [] -> suf = []) -> pre0 ++ sl ++ nm <> [] -> boundary pre0 sl ->
  walk fs (start s cwd) (components pre0) = WDir l ->
  (length suf + 1 < fuel)%nat ->
  exists tr',
    mkdirs_loop fuel fs cwd s (mkIt b (length (pre0 ++ sl ++ nm)) PFileName) tr =
    (status_of (fst (mkdirs_walk fs l (split_acc nm [] ++ components suf))),
     snd (mkdirs_walk fs l (split_acc nm [] ++ components suf)), tr').
Proof.
  intros s cwd Hnul. induction fuel as [|f IH]; intros pre0 sl nm suf fs l b tr Hs Hsl Hnm Hsuf Hnm0 Hne Hbd Hw Hf; [lia|].
  set (P := pre0 ++ sl ++ nm) in *.
  assert (HsP : s = P ++ suf) by (unfold P; rewrite Hs, <- !app_assoc; reflexivity).
  assert (Hpre : firstn (length P) s = P) by (rewrite HsP, firstn_app, firstn_all, Nat.sub_diag; cbn [firstn]; apply app_nil_r).
  assert (Habs : absolute P = absolute s) by (rewrite HsP; symmetry; apply absolute_prefix; exact Hne).
  assert (HcP : components P = components pre0 ++ split_acc nm []) by (apply components_prefix; assumption).
  cbn [mkdirs_loop p_st p_e]. rewrite Hpre.
  (* what happens after this component has been dealt with *)
  assert (Hcont : forall fsX lX trX, walk fsX (start s cwd) (components P) = WDir lX ->
            exists tr', mkdirs_loop f fsX cwd s (path_next s (mkIt b (length P) PFileName)) trX =
                        (status_of (fst (mkdirs_walk fsX lX (components suf))),
                         snd (mkdirs_walk fsX lX (components suf)), tr')).
  { intros fsX lX trX HwX.
    destruct (next_step s P suf b PFileName Hnul HsP (fun _ => Hsuf) (or_intror eq_refl))
      as [[Hsuf0 Hnext]|(sl' & nm' & suf' & Hsuf' & Hsl' & Hnm' & Hb' & Hnm0' & Hslne & Hlen & Hnext)].
    - subst suf. rewrite Hnext. cbn [components split_acc mkdirs_walk fst snd status_of].
      destruct f as [|f']; [cbn [length] in Hf; lia|]. cbn [mkdirs_loop p_st]. eexists. reflexivity.
    - rewrite Hnext.
      assert (Hcs : components suf = split_acc nm' [] ++ components suf').
      { rewrite Hsuf'. rewrite app_assoc. rewrite components_boundary by exact Hb'.
        f_equal. change (sl' ++ nm') with ([] ++ sl' ++ nm').
        rewrite components_prefix; [reflexivity|exact Hsl'|exact Hnm'|left; reflexivity]. }
      rewrite Hcs.
      apply (IH P sl' nm' suf' fsX lX (length P + length sl')%nat trX).
      + rewrite HsP, Hsuf'. reflexivity.
      + exact Hsl'.
      + exact Hnm'.
      + exact Hb'.
      + exact Hnm0'.
      + intro X. apply app_eq_nil in X. destruct X as [X _]. exact (Hne X).
      + right; right. apply Hslne. reflexivity.
      + exact HwX.
      + lia. }
  destruct nm as [|c0 nm0].
  - (* trailing separator: the whole string again, already a directory *)
    specialize (Hnm0 eq_refl). subst suf.
    cbn [split_acc app components]. cbn [mkdirs_walk fst snd status_of].
    assert (Hst : stat_path fs cwd P = WDir l).
    { rewrite stat_path_nonempty by exact Hne. unfold start at 1. rewrite Habs. fold (start s cwd).
      rewrite HcP. cbn [split_acc]. rewrite app_nil_r, Hw. reflexivity. }
    unfold file_type. rewrite Hst.
    destruct (Hcont fs l (tr ++ [EvStat P FT_DIRECTORY])) as [tr' E].
    { rewrite HcP. cbn [split_acc]. rewrite app_nil_r. exact Hw. }
    exists tr'. rewrite E. reflexivity.
  - remember (c0 :: nm0) as nm eqn:Enm.
    assert (Hnmne : nm <> []) by (subst nm; discriminate).
    rewrite (split_acc_nonempty_name nm Hnmne Hnm) in *. cbn [app].
    assert (Hts : trailing_slash P = false).
    { unfold P. rewrite app_assoc. apply trailing_slash_name; assumption. }
    destruct (body_step s cwd fs l P pre0 nm (components suf) Hne Habs HcP Hts Hw)
      as [(l' & Ht & Hw' & Hm)|[(Ht & (ev & Hcd) & Hm)|(fs' & l' & Ht & (ev & Hcd) & Hw' & Hm)]].
    + rewrite Ht. rewrite Hm. apply Hcont. exact Hw'.
    + rewrite Ht, Hcd, Hm. cbn [is_success fst snd status_of]. eexists. reflexivity.
    + rewrite Ht, Hcd, Hm. cbn [is_success]. apply Hcont. exact Hw'.
Qed.


(* ---------------------------------------------------------------- zix_create_directories refines mkdir -p *)
Lemma components_split3 : forall pre0 sl nm suf', all_sep sl -> name_chars nm -> boundary pre0 sl -> at_boundary suf' ->
  components (pre0 ++ sl ++ nm ++ suf') = components pre0 ++ split_acc nm [] ++ components suf'.
Proof.
  intros pre0 sl nm suf' Hs Hn Hb Ha.
  replace (pre0 ++ sl ++ nm ++ suf') with ((pre0 ++ sl ++ nm) ++ suf') by (rewrite <- !app_assoc; reflexivity).
  rewrite components_boundary by exact Ha. rewrite components_prefix by assumption. rewrite <- app_assoc. reflexivity.
Qed.

Lemma create_directories_refines : forall fs cwd s, nul_free s -> s <> [] ->
  exists tr, create_directories true fs cwd s =
             (status_of (fst (mkdirs_spec fs cwd s)), snd (mkdirs_spec fs cwd s), tr).
Proof.
  intros fs cwd s Hnul Hne. unfold create_directories, mkdirs_spec. fold (start s cwd).
  destruct s as [|c0 s'] eqn:Es; [contradiction Hne; reflexivity|]. rewrite <- Es in *. cbn [negb].
  unfold path_begin. cbn [p_b p_e Nat.ltb Nat.leb].
  destruct (Z.eqb_spec c0 SLASH) as [Hc|Hc].
  - (* absolute *)
    assert (Hb : path_next s (mkIt 0 0 PRootName) = mkIt 0 1 PRootDir).
    { unfold path_next. cbn [p_st p_e]. rewrite Es. unfold ch. cbn [nth]. unfold is_dir_sep. rewrite Hc, Z.eqb_refl. reflexivity. }
    rewrite Hb. cbn [skip_root p_st pstate_rank Nat.ltb Nat.leb].
    assert (HsP : s = [SLASH] ++ s') by (rewrite Es, Hc; reflexivity).
    destruct (next_step s [SLASH] s' 0%nat PRootDir Hnul HsP ltac:(intro X; discriminate X) (or_introl eq_refl))
      as [[Hs0 Hnext]|(sl & nm & suf' & Hsuf' & Hsl & Hnm & Hb' & Hnm0 & _ & Hlen & Hnext)].
    + change (length [SLASH]) with 1%nat in Hnext. rewrite Hnext. cbn [p_st pstate_rank Nat.ltb Nat.leb].
      cbn [mkdirs_loop p_st]. subst s'. rewrite Es, Hc. cbn. eexists. reflexivity.
    + change (length [SLASH]) with 1%nat in Hnext. rewrite Hnext. cbn [p_st pstate_rank Nat.ltb Nat.leb].
      assert (Hcs : components s = split_acc nm [] ++ components suf').
      { rewrite HsP, Hsuf'. rewrite components_split3; try assumption; [reflexivity|]. right; left. exists []. reflexivity. }
      rewrite Hcs.
      apply (loop_refines s cwd Hnul (S (S (length s))) [SLASH] sl nm suf' fs (start s cwd)).
      * rewrite HsP, Hsuf'. reflexivity.
      * exact Hsl.
      * exact Hnm.
      * exact Hb'.
      * exact Hnm0.
      * discriminate.
      * right; left. exists []. reflexivity.
      * reflexivity.
      * rewrite HsP, Hsuf'. cbn [length app]. rewrite !app_length. lia.
  - (* relative *)
    assert (Hb : path_next s (mkIt 0 0 PRootName) = path_next s (mkIt 0 0 PRootDir)).
    { unfold path_next. cbn [p_st p_e]. rewrite Es. unfold ch. cbn [nth]. unfold is_dir_sep.
      destruct (Z.eqb_spec c0 SLASH); [contradiction|reflexivity]. }
    rewrite Hb.
    assert (HsP : s = [] ++ s) by reflexivity.
    destruct (next_step s [] s 0%nat PRootDir Hnul HsP ltac:(intro X; discriminate X) (or_introl eq_refl))
      as [[Hs0 Hnext]|(sl & nm & suf' & Hsuf' & Hsl & Hnm & Hb' & Hnm0 & _ & Hlen & Hnext)].
    + rewrite Hs0 in Es. discriminate Es.
    + cbn [length] in Hnext. rewrite Hnext. cbn [skip_root p_st pstate_rank Nat.ltb Nat.leb].
      assert (Hcs : components s = split_acc nm [] ++ components suf').
      { rewrite Hsuf' at 1. change (sl ++ nm ++ suf') with ([] ++ sl ++ nm ++ suf').
        rewrite components_split3; try assumption; [reflexivity|left; reflexivity]. }
      rewrite Hcs. cbn [app] in Hnext |- *.
      apply (loop_refines s cwd Hnul (S (S (length s))) [] sl nm suf' fs (start s cwd)).
      * cbn [app]. exact Hsuf'.
      * exact Hsl.
      * exact Hnm.
      * exact Hb'.
      * exact Hnm0.
      * cbn [app]. intro X. apply app_eq_nil in X. destruct X as [X1 X2]. subst sl nm.
        rewrite (Hnm0 eq_refl) in Hsuf'. cbn [app] in Hsuf'. congruence.
      * left; reflexivity.
      * reflexivity.
      * assert (length s = length (sl ++ nm ++ suf')) by (rewrite <- Hsuf'; reflexivity).
        rewrite !app_length in *. lia.
Qed.

(* ---------------------------------------------------------------- the property-level results *)
Lemma stat_path_dir_iff : forall fs cwd s l, s <> [] ->
  (stat_path fs cwd s = WDir l <-> walk fs (start s cwd) (components s) = WDir l).
Proof.
  intros fs cwd s l Hne. rewrite stat_path_nonempty by exact Hne.
  destruct (walk fs (start s cwd) (components s)) eqn:W; try tauto.
  destruct (trailing_slash s); split; intro X; discriminate X.
Qed.

Lemma mkdirs_iff : forall fs cwd s, nul_free s ->
  let r := create_directories true fs cwd s in
  fst (fst r) = SUCCESS <-> names_directory (snd (fst r)) cwd s.
Proof.
  intros fs cwd s Hn. cbn zeta. destruct s as [|c0 s'] eqn:Es.
  - cbn. split; [discriminate|]. intros [l X]. discriminate X.
  - rewrite <- Es in *. assert (Hne : s <> []) by (rewrite Es; discriminate).
    destruct (create_directories_refines fs cwd s Hn Hne) as [tr E]. rewrite E. cbn [fst snd].
    unfold mkdirs_spec. fold (start s cwd).
    destruct (mkdirs_walk fs (start s cwd) (components s)) as [[l'|] fs'] eqn:M; cbn [fst snd status_of].
    + split; [intros _|reflexivity]. exists l'. apply stat_path_dir_iff; [exact Hne|].
      eapply mkdirs_walk_ok. exact M.
    + split; [discriminate|]. intros [l X]. apply stat_path_dir_iff in X; [|exact Hne].
      exfalso. exact (mkdirs_walk_blocked _ _ _ _ M l X).
Qed.

Lemma mkdirs_idem : forall fs cwd s, nul_free s ->
  let r := create_directories true fs cwd s in
  fst (fst r) = SUCCESS ->
  exists tr, create_directories true (snd (fst r)) cwd s = (SUCCESS, snd (fst r), tr).
Proof.
  intros fs cwd s Hn. cbn zeta. destruct s as [|c0 s'] eqn:Es.
  - cbn. discriminate.
  - rewrite <- Es in *. assert (Hne : s <> []) by (rewrite Es; discriminate).
    destruct (create_directories_refines fs cwd s Hn Hne) as [tr E]. rewrite E. cbn [fst snd].
    unfold mkdirs_spec. fold (start s cwd).
    destruct (mkdirs_walk fs (start s cwd) (components s)) as [[l'|] fs'] eqn:M; cbn [fst snd status_of]; [|discriminate].
    intros _. destruct (create_directories_refines fs' cwd s Hn Hne) as [tr2 E2]. exists tr2. rewrite E2.
    unfold mkdirs_spec. fold (start s cwd).
    rewrite (mkdirs_walk_noop _ _ _ _ (mkdirs_walk_ok _ _ _ _ _ M)). reflexivity.
Qed.

Lemma mkdirs_walk_file_blocks : forall cs k fs l x,
  walk fs l (firstn k cs) = WFile x -> mkdirs_walk fs l cs = (MkBlocked, fs).
Proof.
  induction cs as [|c cs IH]; intros k fs l x H.
  - rewrite firstn_nil in H. discriminate H.
  - destruct k as [|k]; [discriminate H|]. cbn [firstn walk mkdirs_walk] in *.
    destruct (is_dot c); [eapply IH; exact H|].
    destruct (is_dotdot c); [eapply IH; exact H|].
    destruct (lookup fs (l ++ [c])) as [[|]|]; [reflexivity|eapply IH; exact H|discriminate H].
Qed.

(* a component that exists and is a regular file: an error (EXISTS), nothing created *)
Lemma mkdirs_blocked : forall fs cwd s k x, nul_free s -> s <> [] ->
  walk fs (start s cwd) (firstn k (components s)) = WFile x ->
  let r := create_directories true fs cwd s in
  fst (fst r) = EXISTS /\ snd (fst r) = fs.
Proof.
  intros fs cwd s k x Hn Hne Hw. cbn zeta.
  destruct (create_directories_refines fs cwd s Hn Hne) as [tr E]. rewrite E. cbn [fst snd].
  unfold mkdirs_spec. fold (start s cwd). rewrite (mkdirs_walk_file_blocks _ _ _ _ _ Hw). split; reflexivity.
Qed.

(* allocation failure: NO_MEM and nothing touched; the empty path: BAD_ARG *)
Lemma mkdirs_nomem : forall fs cwd s, s <> [] -> create_directories false fs cwd s = (NO_MEM, fs, []).
Proof. intros fs cwd [|c s] H; [contradiction H; reflexivity|reflexivity]. Qed.
