Require Extraction.
Require Import ExtrOcamlBasic.
From Zix Require Import AvlSpec AvlModel.
Separate Extraction
  AvlSpec.sins AvlSpec.sfind AvlSpec.sremove AvlSpec.slookup AvlSpec.sbegin AvlSpec.srbegin
  AvlSpec.snext AvlSpec.sprev AvlSpec.sp_insert AvlSpec.sp_remove AvlSpec.sp_size
  AvlModel.elems AvlModel.ids AvlModel.height AvlModel.count
  AvlModel.insert AvlModel.remove AvlModel.tfind AvlModel.ins_log
  AvlModel.leftmost AvlModel.rightmost AvlModel.tnext AvlModel.tprev AvlModel.walk_fwd AvlModel.walk_bwd
  AvlModel.path_to AvlModel.node_class AvlModel.lookup AvlModel.free_log AvlModel.init AvlModel.run.
