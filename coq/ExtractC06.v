Require Extraction.
Require Import ExtrOcamlBasic.
From Zix Require Import AvlSpec AvlModel AvlHeapModel.
Separate Extraction
  AvlSpec.sins AvlSpec.sfind AvlSpec.sremove AvlSpec.slookup AvlSpec.sbegin AvlSpec.srbegin
  AvlSpec.snext AvlSpec.sprev AvlSpec.sp_insert AvlSpec.sp_remove AvlSpec.sp_size
  AvlModel.elems AvlModel.ids AvlModel.height AvlModel.count
  AvlModel.insert AvlModel.remove AvlModel.tfind AvlModel.ins_log
  AvlModel.leftmost AvlModel.rightmost AvlModel.tnext AvlModel.tprev AvlModel.walk_fwd AvlModel.walk_bwd
  AvlModel.path_to AvlModel.node_class AvlModel.lookup AvlModel.free_log AvlModel.init AvlModel.run
  AvlHeapModel.hget AvlHeapModel.left AvlHeapModel.right AvlHeapModel.parent AvlHeapModel.bal
  AvlHeapModel.hinit AvlHeapModel.fuel_of AvlHeapModel.h_insert AvlHeapModel.h_remove AvlHeapModel.h_tfind
  AvlHeapModel.h_begin AvlHeapModel.h_rbegin AvlHeapModel.h_iter_next AvlHeapModel.h_iter_prev
  AvlHeapModel.h_walk_fwd AvlHeapModel.h_walk_bwd AvlHeapModel.h_lookup AvlHeapModel.h_path_up
  AvlHeapModel.h_run.
