(* C15 — models of zix_create_directories (filesystem.c, with the path iterator of path.c, POSIX
   configuration), zix_file_equals, stat_file_type, zix_file_type/zix_file_size, following the C code
   branch for branch.  Definitions only. *)
From Coq Require Import ZArith List Bool Lia.
From Zix Require Import CopySpec CopyModel FsSpec.
Import ListNotations.
Local Open Scope Z_scope.

(* ---------------------------------------------------------------- path iterator (path.c) *)
Inductive pstate := PRootName | PRootDir | PFileName | PEnd.
Definition pstate_rank (s : pstate) : nat :=
  match s with PRootName => 0 | PRootDir => 1 | PFileName => 2 | PEnd => 3 end.
Record piter := mkIt { p_b : nat; p_e : nat; p_st : pstate }.

(* path[i] of the NUL-terminated string *)
Definition ch (s : list Z) (i : nat) : Z := nth i s 0.
Definition is_dir_sep (c : Z) : bool := c =? SLASH.

(* `while (is_dir_sep(path[begin])) begin = ++end;` scanning the characters from position i *)
Fixpoint scan_seps (l : list Z) (i : nat) : nat :=
  match l with
  | c :: t => if is_dir_sep c then scan_seps t (S i) else i
  | [] => i
  end.
(* `while (path[end] && !is_dir_sep(path[end])) ++end;` *)
Fixpoint scan_name (l : list Z) (i : nat) : nat :=
  match l with
  | c :: t => if (c =? 0) || is_dir_sep c then i else scan_name t (S i)
  | [] => i
  end.

Definition path_next (s : list Z) (it : piter) : piter :=
  match p_st it with
  | PRootName =>
    if is_dir_sep (ch s (p_e it)) then mkIt (p_e it) (S (p_e it)) PRootDir
    else
      (* state <= ROOT_DIRECTORY: begin = end, state = FILE_NAME; then the FILE_NAME branch *)
      let e := p_e it in
      if ch s e =? 0 then mkIt e e PEnd
      else let b := scan_seps (skipn e s) e in mkIt b (scan_name (skipn b s) b) PFileName
  | PRootDir | PFileName =>
    let e := p_e it in
    if ch s e =? 0 then mkIt e e PEnd
    else let b := scan_seps (skipn e s) e in mkIt b (scan_name (skipn b s) b) PFileName
  | PEnd => it
  end.

(* POSIX: the root name range is empty *)
Definition path_begin (s : list Z) : piter :=
  let it := mkIt 0 0 PRootName in
  if (p_b it <? p_e it)%nat then it else path_next s it.

(* ---------------------------------------------------------------- zix_file_type over the abstract fs *)
Definition file_type (fs : fsT) (cwd : loc) (s : list Z) : ftype :=
  match stat_path fs cwd s with
  | WErr _ => FT_NONE
  | WDir _ => FT_DIRECTORY
  | WFile _ => FT_REGULAR
  end.

Inductive fsev := EvStat (p : list Z) (t : ftype) | EvMkdir (p : list Z) (rc : Z).

(* zix_create_directory *)
Definition create_directory (fs : fsT) (cwd : loc) (s : list Z) : status * fsT * list fsev :=
  match s with
  | [] => (BAD_ARG, fs, [])
  | _ => let (e, fs') := mkdir_path fs cwd s in
         (if e =? 0 then SUCCESS else zix_errno_status e, fs', [EvMkdir s (if e =? 0 then 0 else -1)])
  end.

(* `while (p.state < ZIX_PATH_FILE_NAME) p = zix_path_next(path, p);` *)
Fixpoint skip_root (fuel : nat) (s : list Z) (p : piter) : piter :=
  match fuel with
  | O => p
  | S f => if (pstate_rank (p_st p) <? 2)%nat then skip_root f s (path_next s p) else p
  end.

(* the main loop; the prefix handed to the system calls is the string chopped at p.range.end *)
Fixpoint mkdirs_loop (fuel : nat) (fs : fsT) (cwd : loc) (s : list Z) (p : piter) (tr : list fsev)
  : status * fsT * list fsev :=
  match fuel with
  | O => (OUT_OF_FUEL, fs, tr)
  | S f =>
    match p_st p with
    | PEnd => (SUCCESS, fs, tr)
    | _ =>
      let prefix := firstn (p_e p) s in
      let t := file_type fs cwd prefix in
      let tr := tr ++ [EvStat prefix t] in
      match t with
      | FT_DIRECTORY => mkdirs_loop f fs cwd s (path_next s p) tr
      | _ =>
        let '(st, fs', ev) := create_directory fs cwd prefix in
        if is_success st then mkdirs_loop f fs' cwd s (path_next s p) (tr ++ ev)
        else (st, fs', tr ++ ev)
      end
    end
  end.

Definition create_directories (alloc_ok : bool) (fs : fsT) (cwd : loc) (s : list Z)
  : status * fsT * list fsev :=
  match s with
  | [] => (BAD_ARG, fs, [])
  | _ =>
    if negb alloc_ok then (NO_MEM, fs, [])
    else mkdirs_loop (S (S (length s))) fs cwd s (skip_root 3 s (path_begin s)) []
  end.

(* ---------------------------------------------------------------- stat_file_type: the table walk *)
Definition type_map : list (Z * ftype) :=
  [ (S_IFREG, FT_REGULAR); (S_IFDIR, FT_DIRECTORY); (S_IFLNK, FT_SYMLINK); (S_IFBLK, FT_BLOCK);
    (S_IFCHR, FT_CHARACTER); (S_IFIFO, FT_FIFO); (S_IFSOCK, FT_SOCKET); (0, FT_UNKNOWN) ].
(* `while (map[m].mask && map[m].mask != mask) ++m; return map[m].type;` *)
Fixpoint type_lookup (m : list (Z * ftype)) (mask : Z) : ftype :=
  match m with
  | [] => FT_UNKNOWN
  | (k, t) :: r => if negb (k =? 0) && negb (k =? mask) then type_lookup r mask else t
  end.
Definition stat_file_type (mode : Z) : ftype := type_lookup type_map (Z.land (mode mod 2 ^ 32) S_IFMT).

(* zix_file_type / zix_symlink_type / zix_file_size on a stat answer: None = the call failed *)
Definition file_type_of (st : option Z) : ftype :=
  match st with None => FT_NONE | Some mode => stat_file_type mode end.
Definition file_size_of (st : option Z) : Z :=
  match st with None => -1 | Some size => size end.

(* ---------------------------------------------------------------- zix_file_equals *)
(* a file as the calls see it: inode number and bytes; None = does not exist *)
Definition fileT := option (Z * list Z).

Record eqw := mkE {
  e_aoff : nat; e_boff : nat; e_errno : Z; e_script : list outcome; e_trace : list ev; e_open : nat
}.
Definition epop (w : eqw) : outcome * eqw :=
  match e_script w with
  | [] => (Full, w)
  | o :: r => (o, mkE (e_aoff w) (e_boff w) (e_errno w) r (e_trace w) (e_open w))
  end.
Definition elog (w : eqw) (c : call) (a r : Z) : eqw :=
  mkE (e_aoff w) (e_boff w) (e_errno w) (e_script w) ((c, a, r) :: e_trace w) (e_open w).
Definition eset_errno (w : eqw) (e : Z) : eqw :=
  mkE (e_aoff w) (e_boff w) e (e_script w) (e_trace w) (e_open w).
Definition eset_open (w : eqw) (n : nat) : eqw :=
  mkE (e_aoff w) (e_boff w) (e_errno w) (e_script w) (e_trace w) n.
Definition eset_off (w : eqw) (which : bool) (n : nat) : eqw :=
  if which then mkE (e_aoff w) n (e_errno w) (e_script w) (e_trace w) (e_open w)
  else mkE n (e_boff w) (e_errno w) (e_script w) (e_trace w) (e_open w).

Definition e_open_file (w : eqw) (f : fileT) (which : Z) : bool * eqw :=
  let (o, w) := epop w in
  match o with
  | Err e => (false, elog (eset_errno w (Z.pos e)) KOpen which (-1))
  | _ => match f with
         | None => (false, elog (eset_errno w CopySpec.ENOENT) KOpen which (-1))
         | Some _ => (true, elog (eset_open w (S (e_open w))) KOpen which 0)
         end
  end.
Definition e_fstat (w : eqw) (which : Z) : bool * eqw :=
  let (o, w) := epop w in
  match o with
  | Err e => (false, elog (eset_errno w (Z.pos e)) KFstat which (-1))
  | _ => (true, elog w KFstat which 0)
  end.
Definition e_read (w : eqw) (which : bool) (bytes : list Z) (req : nat) : Z * list Z * eqw :=
  let off := if which then e_boff w else e_aoff w in
  let (o, w) := epop w in
  match o with
  | Err e => (-1, [], elog (eset_errno w (Z.pos e)) KRead (Z.of_nat req) (-1))
  | _ =>
    let n := rd_count o req (length bytes - off) in
    (Z.of_nat n, firstn n (skipn off bytes), elog (eset_off w which (off + n)) KRead (Z.of_nat req) (Z.of_nat n))
  end.
Definition e_close (w : eqw) (which : Z) : Z * eqw :=
  let (o, w) := epop w in
  let w := eset_open w (pred (e_open w)) in
  match o with
  | Err e => (-1, elog (eset_errno w (Z.pos e)) KClose which (-1))
  | _ => (0, elog w KClose which 0)
  end.

(* zix_system_close_fds(fd_b, fd_a) *)
Definition e_close_fds (w : eqw) (b_open a_open : bool) : status * eqw :=
  let st0 := zix_errno_status (e_errno w) in
  let (r1, w) := if b_open then e_close w 1 else (0, w) in
  let st1 := if r1 =? 0 then SUCCESS else zix_errno_status (e_errno w) in
  let (r2, w) := if a_open then e_close w 0 else (0, w) in
  let st2 := if r2 =? 0 then SUCCESS else zix_errno_status (e_errno w) in
  (st_or st0 (st_or st1 st2), w).

Fixpoint list_eqb (a b : list Z) : bool :=
  match a, b with
  | [], [] => true
  | x :: a', y :: b' => (x =? y) && list_eqb a' b'
  | _, _ => false
  end.

(* `for (n = 0; (n = read(fd_a, buf_a, buf_sz)) > 0;) { if (read(fd_b, ...) != n || memcmp(...)) { match = false; break; } }` *)
Fixpoint equals_loop (fuel : nat) (w : eqw) (a b : list Z) (buf_sz : nat) : option (bool * eqw) :=
  match fuel with
  | O => None
  | S f =>
    let '(n, da, w) := e_read w false a buf_sz in
    if 0 <? n then
      let '(m, db, w) := e_read w true b buf_sz in
      if negb (m =? n) || negb (list_eqb da db) then Some (false, w)
      else equals_loop f w a b buf_sz
    else Some (true, w)
  end.

Definition alloc_ev (w : eqw) (size : Z) (al : alloc_answer) : eqw :=
  match al with
  | AOk => elog w KAlloc size 1
  | AFail e => elog (if e =? 0 then w else eset_errno w e) KAlloc size 0
  end.
Definition alloc_okb (al : alloc_answer) : bool := match al with AOk => true | AFail _ => false end.

Definition file_equals (same_path : bool) (fa fb : fileT) (page : nat) (al1 al2 : alloc_answer)
           (errno0 : Z) (script : list outcome) : bool * eqw :=
  let w := mkE 0 0 errno0 script [] 0 in
  if same_path then (true, w) else
  let w := eset_errno w 0 in
  let (a_ok, w) := e_open_file w fa 0 in
  let (b_ok, w) := e_open_file w fb 1 in
  (* `fd_a < 0 || fd_b < 0 || fstat(fd_a) || fstat(fd_b)` short-circuits *)
  let (sa_ok, w) := if a_ok && b_ok then e_fstat w 0 else (false, w) in
  let (sb_ok, w) := if a_ok && b_ok && sa_ok then e_fstat w 1 else (false, w) in
  if negb (a_ok && b_ok && sa_ok && sb_ok) then
    let (_, w) := e_close_fds w b_ok a_ok in (false, w)
  else
  match fa, fb with
  | Some (ia, a), Some (ib, b) =>
    let '(mt, w) :=
      if negb (ia =? 0) && negb (ib =? 0) && (ia =? ib) then (true, w)
      else if (length a =? length b)%nat then
        let w := alloc_ev w (Z.of_nat page) al1 in
        let w := alloc_ev w (Z.of_nat page) al2 in
        let paged := alloc_okb al1 && alloc_okb al2 in
        let buf_sz := if paged then page else stack_buf_size in
        let w := eset_errno w 0 in
        let '(mt, w) := match equals_loop (S (length a)) w a b buf_sz with
                        | Some r => r
                        | None => (false, elog w KFree 99 99)      (* out of fuel: proved impossible *)
                        end in
        let w := elog w KFree (if alloc_okb al2 then 1 else 0) 0 in
        let w := elog w KFree (if alloc_okb al1 then 1 else 0) 0 in
        (mt, w)
      else (false, w) in
    let (st, w) := e_close_fds w true true in
    (is_success st && mt, w)
  | _, _ => (false, w)
  end.
