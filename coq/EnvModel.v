(* C16: model of /repo/src/posix/environment_posix.c (after the fix: commits up to bda4119).
   Definitions only.

   Conventions: a C string is a `list Z` of its bytes without the terminator; `rd s i` is the
   read `s[i]` (the terminator reads as 0, anything beyond is `BadRead`).  A pointer `string + k`
   is `skipn k string`; `memcpy(dst, p, n)` takes `firstn n p`.  Indices `s`, `start`, `t`, `j`
   are `size_t` in C and `nat` here: they never exceed strlen+1, so no wrap-around is reachable
   (likewise `out_len + 1U` would need a 2^64-byte result).  Loops without a C bound carry fuel;
   running out is the distinguished outcome `OutOfFuel` (= the C loop would not terminate).
   The allocator is an oracle `list bool` (one answer per realloc request, [] = all succeed)
   and an event log; block ids are handed out in order of successful requests. *)
From Coq Require Import ZArith List Bool Arith.
From Zix Require Import EnvSpec.
Import ListNotations.
Local Open Scope Z_scope.

Inductive res (A : Type) : Type := Ok (a : A) | OutOfFuel | BadRead.
Arguments Ok {A} a.
Arguments OutOfFuel {A}.
Arguments BadRead {A}.

Definition bind {A B : Type} (x : res A) (f : A -> res B) : res B :=
  match x with Ok a => f a | OutOfFuel => OutOfFuel | BadRead => BadRead end.
Notation "x <- e ;; k" := (bind e (fun x => k)) (at level 61, e at next level, right associativity).

Definition rd (s : list Z) (i : nat) : res Z :=
  if (i <? length s)%nat then Ok (nth i s 0)
  else if (i =? length s)%nat then Ok 0 else BadRead.

(* static bool is_path_delim(c): '/', ':' or NUL *)
Definition is_path_delim (c : Z) : bool := (c =? 47) || (c =? 58) || (c =? 0).

(* static bool is_var_name_char(c) *)
Definition is_var_name_char (c : Z) : bool :=
  ((48 <=? c) && (c <=? 57)) || ((65 <=? c) && (c <=? 90)) || (c =? 95).

(* ---- find_env ---- *)

(* while (j < name.length && entry[j] == name.data[j]) ++j;   k = name.length - j *)
Fixpoint match_prefix (k : nat) (entry name : list Z) (j : nat) : res nat :=
  match k with
  | O => Ok j
  | S k' => c <- rd entry j ;;
            if c =? nth j name 0 then match_prefix k' entry name (S j) else Ok j
  end.

Fixpoint find_env_entries (es : list (list Z)) (name : list Z) : res (option (list Z)) :=
  match es with
  | [] => Ok None                                   (* environ[i] == NULL *)
  | entry :: r =>
    j <- match_prefix (length name) entry name 0 ;;
    hit <- (if (j =? length name)%nat then (c <- rd entry j ;; Ok (c =? 61)) else Ok false) ;;
    if hit then Ok (Some (skipn (j + 1) entry))     (* entry + j + 1 *)
    else find_env_entries r name
  end.

Definition find_env (e : env) (name : list Z) : res (option (list Z)) :=
  match e with
  | None => Ok None                                 (* if (environ) *)
  | Some es => find_env_entries es name
  end.

(* ---- allocation: oracle and event log ---- *)

Inductive aev : Type :=
| ARealloc (old : option nat) (size : nat) (new : option nat)   (* new = None: request failed *)
| AFree (p : option nat).

Record st : Type := mkst {
  s_out : option (nat * list Z);   (* char* out: block id and the bytes before the terminator *)
  s_len : nat;                     (* size_t len *)
  s_or : list bool;                (* remaining allocator answers *)
  s_log : list aev;
  s_next : nat                     (* next block id *)
}.

Definition out_id (o : option (nat * list Z)) : option nat :=
  match o with Some (i, _) => Some i | None => None end.
Definition out_data (o : option (nat * list Z)) : list Z :=
  match o with Some (_, d) => d | None => [] end.

(* static char* append_str(allocator, dst_len, dst, suffix_len, suffix); false = returned NULL *)
Definition append_str (a : st) (suffix_len : nat) (suffix : list Z) : bool * st :=
  let out_len := (s_len a + suffix_len)%nat in
  let old := out_id (s_out a) in
  let ans := match s_or a with [] => true | b :: _ => b end in
  let rest := match s_or a with [] => [] | _ :: r => r end in
  if ans then
    (true, mkst (Some (s_next a, firstn (s_len a) (out_data (s_out a)) ++ firstn suffix_len suffix))
                out_len rest
                (s_log a ++ [ARealloc old (out_len + 1) (Some (s_next a))])
                (S (s_next a)))
  else
    (false, mkst None (s_len a) rest
                 (s_log a ++ [ARealloc old (out_len + 1) None; AFree old])
                 (s_next a)).

(* static char* append_var(allocator, dst_len, dst, ref_len, ref) *)
Definition append_var (e : env) (a : st) (ref_len : nat) (ref : list Z) : res (bool * st) :=
  let var := firstn (ref_len - 1) (skipn 1 ref) in          (* zix_substring(ref + 1, ref_len - 1) *)
  val <- find_env e var ;;
  match val with
  | Some v => Ok (append_str a (length v) v)                 (* strlen(val), val *)
  | None => Ok (append_str a ref_len ref)
  end.

(* for (size_t t = 1U;; ++t) if (!is_var_name_char(string[s + t])) { ... break; } *)
Fixpoint name_end (fuel : nat) (str : list Z) (s t : nat) : res nat :=
  match fuel with
  | O => OutOfFuel
  | S f => c <- rd str (s + t) ;;
           if is_var_name_char c then name_end f str s (S t) else Ok t
  end.

(* (prefix_len && !(out = append_str(allocator, &len, out, prefix_len, prefix))) *)
Definition flush_prefix (a : st) (str : list Z) (start s : nat) : bool * st :=
  let prefix_len := (s - start)%nat in
  if (prefix_len =? 0)%nat then (true, a) else append_str a prefix_len (skipn start str).

(* the part after the scan loop *)
Definition finish (a : st) (str : list Z) (start : nat) : res st :=
  c <- rd str start ;;
  if negb (c =? 0) then
    let tail := skipn start str in
    Ok (snd (append_str a (length tail) tail))
  else match s_out a with
       | None => Ok (snd (append_str a 0 []))                  (* empty input *)
       | Some _ => Ok a
       end.

(* one pass through the body of `for (size_t s = 0U; string[s];) { ... }` (c = string[s] != 0):
   either the function returns (NULL after a failed append) or the loop goes on with new s, start *)
Inductive step : Type := Return (a : st) | Continue (s start : nat) (a : st).

Definition scan_body (e : env) (str : list Z) (c : Z) (s start : nat) (a : st) : res step :=
  is_ref <- (if c =? 36 then (c1 <- rd str (s + 1) ;; Ok (is_var_name_char c1)) else Ok false) ;;
  if is_ref then
    (* Hit $ (variable reference like $VAR_NAME) *)
    t <- name_end (length str + 1) str s 1 ;;
    let '(ok1, a1) := flush_prefix a str start s in
    if negb ok1 then Ok (Return a1)                                 (* return NULL *)
    else
      r2 <- append_var e a1 t (skipn s str) ;;
      let '(ok2, a2) := r2 in
      if negb ok2 then Ok (Return a2)                               (* return NULL *)
      else Ok (Continue (s + t) (s + t) a2)                         (* start = s = s + t *)
  else
    is_home <- (if c =? 126 then
                  left <- (if (s =? 0)%nat then Ok true             (* !s || is_path_delim(string[s - 1U]) *)
                           else (p <- rd str (s - 1) ;; Ok (is_path_delim p))) ;;
                  if left then (c1 <- rd str (s + 1) ;; Ok (is_path_delim c1)) else Ok false
                else Ok false) ;;
    if is_home then
      (* Hit ~ alone between delimiters or string ends (home directory reference) *)
      home <- find_env e HOME ;;
      let value := match home with Some h => h | None => [126] end in
      let '(ok1, a1) := flush_prefix a str start s in
      if negb ok1 then Ok (Return a1)
      else
        let '(ok2, a2) := append_str a1 (length value) value in
        if negb ok2 then Ok (Return a2)
        else Ok (Continue (S s) (S s) a2)                           (* start = ++s *)
    else Ok (Continue (S s) start a).                               (* ++s *)

(* the loop and the tail; result: final state (s_out = returned pointer) *)
Fixpoint scan (fuel : nat) (e : env) (str : list Z) (s start : nat) (a : st) : res st :=
  match fuel with
  | O => OutOfFuel
  | S f =>
    c <- rd str s ;;
    if c =? 0 then finish a str start
    else
      r <- scan_body e str c s start a ;;
      match r with
      | Return a' => Ok a'
      | Continue s' start' a' => scan f e str s' start' a'
      end
  end.

Definition init_st (o : list bool) : st := mkst None 0 o [] 0.

(* char* zix_expand_environment_strings(allocator, string) *)
Definition expand_run (e : env) (str : list Z) (o : list bool) : res st :=
  scan (length str + 1) e str 0 0 (init_st o).

Definition result (a : st) : option (list Z) :=
  match s_out a with Some (_, d) => Some d | None => None end.

(* blocks still allocated after a log *)
Definition live_step (l : list nat) (ev : aev) : list nat :=
  match ev with
  | ARealloc old _ (Some n) =>
      n :: match old with Some p => remove Nat.eq_dec p l | None => l end
  | ARealloc _ _ None => l
  | AFree (Some p) => remove Nat.eq_dec p l
  | AFree None => l
  end.
Definition live (log : list aev) : list nat := fold_left live_step log [].

Definition failed_request (ev : aev) : bool :=
  match ev with ARealloc _ _ None => true | _ => false end.
