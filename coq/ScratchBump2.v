From Coq Require Import ZArith List Bool Lia ZifyBool.
From Zix Require Import BumpModel BumpSpec.
Local Open Scope Z_scope.
Ltac Zify.zify_post_hook ::= Z.div_mod_to_equations.
Goal forall n, 0 <= n < W -> n <> 0 -> 
  (rounded n < W /\ wrap (n + (- n) mod 8) = rounded n /\ (wrap (n + (- n) mod 8) <? n) = false) \/
  (W <= rounded n /\ (wrap (n + (- n) mod 8) <? n) = true).
Proof.
  intros n Hn Hz. unfold wrap, rounded, extent, W in *.
  assert (Z.max n 1 = n) as -> by lia.
  set (p := (- n) mod 8). assert (0 <= p < 8 /\ (n + p) mod 8 = 0) by (subst p; lia).
  assert (8 * ((n + 7) / 8) = n + p) as -> by lia.
  clearbody p.
  destruct (Z_lt_ge_dec (n + p) 18446744073709551616).
  - left. rewrite Z.mod_small by lia. lia.
  - right. assert ((n + p) mod 18446744073709551616 = n + p - 18446744073709551616) as ->.
    { symmetry. apply (Zmod_unique _ _ 1); lia. } lia.
Qed.
