(* C11 — assembly: the partial theorem for every input of `plain`. *)
From Coq Require Import ZArith List Bool Lia ZifyBool.
From Zix Require Import PathNormSpec PathNormModel PathNormProofsSpec PathNormProofsModel PathNormProofsDD PathNormProofsTail.
Import ListNotations.
Local Open Scope Z_scope.

(* ---- state after the first pass (root copy + copy loop), for at most one leading separator --- *)
Lemma pass1_k : forall s k rel,
  (k = 0 \/ k = 1) -> s <> [] -> s = root_acc k ++ rel -> has_root rel = false -> c_string s ->
  exists m', pass1 s = Some (k, Z.of_nat (length (rev (emit (fields rel)) ++ root_acc k)),
                             B (rev (emit (fields rel)) ++ root_acc k) m') /\
             (length (rev (emit (fields rel)) ++ root_acc k) + m' = length s + 2)%nat /\ (1 < m')%nat /\
             Forall (fun c => c <> 0) (rev (emit (fields rel)) ++ root_acc k).
Proof.
  intros s k rel Hk Hne Hs Hrel Hnz.
  set (acc' := rev (emit (fields rel)) ++ root_acc k) in *.
  assert (Hlen : length s = (Z.to_nat k + length rel)%nat).
  { rewrite Hs, app_length. destruct Hk as [-> | ->]; reflexivity. }
  assert (S1 : exists re rb, root_path_range s = Some (rb, re) /\ re = k /\ sz (re - rb) = k /\
               copy_root (S (length s)) s k 0 0 (repeat 0 (length s + 2))
               = Some (k, B (root_acc k) (length s + 2 - Z.to_nat k))).
  { destruct Hk as [-> | ->].
    - change (root_acc 0) with (@nil Z) in *. cbn [app] in Hs. subst rel.
      exists 0, 0. unfold root_path_range.
      destruct s as [|c s']; [congruence|]. cbn in Hrel. unfold is_sep, rd, get. cbn. rewrite Hrel.
      repeat split.
    - change (root_acc 1) with [SEP] in *. exists 1, 0. unfold root_path_range. subst s.
      unfold is_sep, rd. change (get ([SEP] ++ rel) 0) with SEP. rewrite Z.eqb_refl.
      cbn [root_dir_loop length app]. unfold is_sep, rd.
      assert (G1 : get (SEP :: rel) 1 =? SEP = false).
      { unfold get. cbn. destruct rel as [|c rel']; [reflexivity|exact Hrel]. }
      rewrite G1. repeat split.
      cbn [copy_root]. replace (0 <? 1) with true by reflexivity.
      unfold is_sep, rd. change (get (SEP :: rel) 0) with SEP. rewrite Z.eqb_refl.
      replace (0 + 1 <? 1) with false by reflexivity. cbn [length].
      set (n := (S (length rel) + 2 - Z.to_nat 1)%nat).
      replace (S (length rel) + 2)%nat with (S n) by (subst n; lia).
      change (repeat 0 (S n)) with (B [] (S n)).
      rewrite set_push by reflexivity. reflexivity. }
  destruct S1 as (re & rb & R1 & -> & R3 & R4).
  assert (HP : P1 (S (length s)) rel ([] ++ root_acc k) = Some acc').
  { pose proof (P1_spec (S (length s)) rel [] (root_acc k)) as Q. cbn [rev app] in *. apply Q.
    - lia.
    - destruct Hk as [-> | ->]; reflexivity.
    - constructor.
    - intros _. exact Hrel. }
  assert (Hskip : skipn (Z.to_nat k) s = rel).
  { rewrite Hs. destruct Hk as [-> | ->]; reflexivity. }
  destruct (copy_loop_refine s k (S (length s)) k [] (length s + 2 - Z.to_nat k) rel acc' Hk ltac:(lia)
              ltac:(unfold zlen; lia) Hskip ltac:(lia) HP) as (m' & C1 & C2 & C3 & _).
  cbn [app] in C1, C2.
  assert (Lk : length (root_acc k) = Z.to_nat k) by (destruct Hk as [-> | ->]; reflexivity).
  rewrite Lk in C1, C2. rewrite Z2Nat.id in C1 by lia.
  assert (Nz : Forall (fun c => c <> 0) acc').
  { eapply (P1_forall (fun c => c <> 0)); [| | |exact HP].
    - cbv beta. discriminate.
    - unfold c_string in Hnz. rewrite Hs in Hnz. apply Forall_app in Hnz. apply Hnz.
    - cbn [app]. destruct Hk as [-> | ->]; repeat constructor. discriminate. }
  exists m'. unfold pass1. rewrite R1, R3, R4, C1. repeat split; [lia|exact C3|exact Nz].
Qed.

(* ---- dropping empty and "." fields (except the last) does not change the spec machine -------- *)
Lemma fold_filter_keepf : forall R X out t t',
  fst (fold_left (norm_step R) (filter keepf X) (out, t)) = fst (fold_left (norm_step R) X (out, t')).
Proof.
  induction X as [|x X IH]; intros out t t'; [reflexivity|].
  cbn [filter fold_left]. unfold keepf at 1. destruct (is_empty x || is_dot x) eqn:E; cbn [negb].
  - assert (S1 : norm_step R (out, t') x = (out, true)) by (unfold norm_step; rewrite E; reflexivity).
    rewrite S1. apply IH.
  - cbn [fold_left]. rewrite (step_trail_irrelevant R out t t').
    destruct (norm_step R (out, t') x) as [o1 t1]. apply IH.
Qed.

Lemma normal_elems_kept : forall R X l,
  normal_elems R (filter keepf X ++ [l]) = normal_elems R (X ++ [l]).
Proof.
  intros R X l. unfold normal_elems. rewrite !fold_left_snoc.
  pose proof (fold_filter_keepf R X [] false false) as F.
  destruct (fold_left (norm_step R) (filter keepf X) ([], false)) as [o1 t1].
  destruct (fold_left (norm_step R) X ([], false)) as [o2 t2]. cbn [fst] in F. subst o2.
  rewrite (step_trail_irrelevant R o1 t1 t2). reflexivity.
Qed.

(* ---- what `plain` says about the fields ---------------------------------------------------------------- *)
Lemma fields_single_empty : forall s, fields s = [[]] -> s = [].
Proof.
  destruct s as [|c s]; intro H; [reflexivity|]. cbn [fields] in H. destruct (c =? SEP).
  - injection H as H1. exfalso. apply (fields_nonnil s). exact H1.
  - destruct (fields s); discriminate.
Qed.

Lemma ends_sep_dot_cons : forall c s, ends_sep_dot s = true -> ends_sep_dot (c :: s) = true.
Proof. intros c s H. destruct s as [|b [|d s']]; [discriminate|discriminate|exact H]. Qed.

Lemma last_field_dot : forall s, last (fields s) [] = [DOT] -> s = [DOT] \/ ends_sep_dot s = true.
Proof.
  induction s as [|c s IH]; intro H; [discriminate|].
  cbn [fields] in H. pose proof (fields_nonnil s) as N. destruct (c =? SEP) eqn:Ec.
  - apply Z.eqb_eq in Ec. subst c. destruct (fields s) as [|f F] eqn:EF; [congruence|].
    change (last ([] :: f :: F) []) with (last (f :: F) []) in H.
    destruct (IH H) as [-> | E]; [right; reflexivity|right; apply ends_sep_dot_cons; exact E].
  - destruct (fields s) as [|f F] eqn:EF; [congruence|]. destruct F as [|g F'].
    + cbn in H. inversion H; subst. rewrite (fields_single_empty s EF). left. reflexivity.
    + change (last ((c :: f) :: g :: F') []) with (last (f :: g :: F') []) in H.
      destruct (IH H) as [-> | E]; [cbn in EF; discriminate|right; apply ends_sep_dot_cons; exact E].
Qed.

Lemma In_fields_elems : forall s f, In f (fields s) -> f <> [] -> In f (elems s).
Proof.
  intros s f Hin Hne. rewrite elems_unfold. unfold elems_of.
  pose proof (fields_nonnil s) as N. destruct (exists_last N) as (X & l & E). rewrite E in *.
  rewrite removelast_app1, last_app1.
  apply in_app_or in Hin as [Hin | [<- | []]].
  - assert (In f (filter (fun e => negb (is_empty e)) X)).
    { apply filter_In. split; [exact Hin|]. destruct f; [congruence|reflexivity]. }
    destruct (filter (fun e => negb (is_empty e)) X) as [|n names]; [destruct H|].
    apply in_or_app. left. exact H.
  - destruct (filter (fun e => negb (is_empty e)) X) as [|n names].
    + destruct l; [congruence|]. left. reflexivity.
    + apply in_or_app. right. left. reflexivity.
Qed.

Lemma alldots_of_noname : forall f, sepfree f -> existsb nsd f = false -> all_dots f = true.
Proof.
  induction f as [|c f IH]; intros Hs H; [reflexivity|].
  pose proof (Forall_inv Hs) as Hc. pose proof (Forall_inv_tail Hs) as Hs'. cbv beta in Hc.
  cbn in H. apply orb_false_iff in H as [N1 N2]. cbn [all_dots]. rewrite (IH Hs' N2), andb_true_r.
  unfold nsd in N1. apply Z.eqb_neq in Hc. rewrite Hc in N1. cbn in N1. apply negb_false_iff in N1. exact N1.
Qed.

Lemma isname_not_alldots : forall f, isname f = true -> all_dots f = false.
Proof.
  induction f as [|c f IH]; intro H; [discriminate|]. cbn in H. cbn [all_dots].
  apply orb_true_iff in H as [H | H].
  - unfold nsd in H. apply andb_true_iff in H as [_ H]. apply negb_true_iff in H. rewrite H. reflexivity.
  - rewrite (IH H). apply andb_false_r.
Qed.

Lemma ends_dotdot_len : forall f, ends_dotdot f = true -> all_dots f = false -> (3 <= length f)%nat.
Proof.
  intros f H A. destruct f as [|a [|b [|c f']]]; try discriminate.
  - cbn in H. cbn in A. apply andb_true_iff in H as [H1 H2]. rewrite H1, H2 in A. discriminate.
  - cbn. lia.
Qed.

Lemma plain_parts : forall s, plain s = true ->
  class_A s = false /\ class_B s = false /\ class_C s = false /\ class_D s = false.
Proof.
  intros s H. unfold plain in H. repeat (apply andb_true_iff in H; destruct H as [H ?]).
  repeat split; apply negb_true_iff; assumption.
Qed.

Lemma field_class : forall s f, plain s = true -> c_string s -> In f (fields s) -> keepf f = true ->
  fld f /\ (f = DD \/ ends_dotdot f = false).
Proof.
  intros s f Hp Hc Hin Hk. destruct (plain_parts s Hp) as (_ & HB & HC & _).
  assert (Hne : f <> []) by (intro A; subst; discriminate).
  assert (Hg : gf0 f).
  { repeat split; [| |exact Hne].
    - pose proof (fields_sepfree_all s) as F. rewrite Forall_forall in F. apply F. exact Hin.
    - pose proof (fields_forall_bytes (fun x => x <> 0) s Hc) as F. rewrite Forall_forall in F. apply F. exact Hin. }
  pose proof (In_fields_elems s f Hin Hne) as He.
  destruct (isname f) eqn:En.
  - split; [right; split; assumption|]. right.
    destruct (ends_dotdot f) eqn:Ed; [|reflexivity]. exfalso.
    pose proof (isname_not_alldots f En) as A. pose proof (ends_dotdot_len f Ed A) as L.
    unfold class_C in HC. rewrite <- not_true_iff_false in HC. apply HC. apply existsb_exists.
    exists f. split; [exact He|]. apply Nat.leb_le in L. rewrite A, Ed, L. reflexivity.
  - destruct Hg as (Hs & Hz & _). pose proof (alldots_of_noname f Hs En) as A.
    assert (f = DD).
    { destruct f as [|a [|b [|c f']]]; [congruence| | |].
      - cbn in A. rewrite andb_true_r in A. apply Z.eqb_eq in A. subst. discriminate.
      - cbn in A. apply andb_true_iff in A as [A1 A2]. rewrite andb_true_r in A2. apply Z.eqb_eq in A1, A2. subst. reflexivity.
      - exfalso. unfold class_B in HB. rewrite <- not_true_iff_false in HB. apply HB. apply existsb_exists.
        exists (a :: b :: c :: f'). split; [exact He|]. rewrite A. reflexivity. }
    subst. split; [left; reflexivity|left; reflexivity].
Qed.

Lemma dd_not_tail : forall s, In DD (fields s) -> class_D s = false -> last (fields s) [] <> [DOT].
Proof.
  intros s Hin HD E. pose proof (In_fields_elems s DD Hin ltac:(discriminate)) as He.
  unfold class_D in HD.
  assert (X : existsb is_dotdot (elems s) = true) by (apply existsb_exists; exists DD; split; [exact He|reflexivity]).
  rewrite X in HD. cbn [andb] in HD.
  destruct (last_field_dot s E) as [-> | E2]; [|congruence].
  cbn in Hin. destruct Hin as [A | []]. discriminate.
Qed.

Lemma forallb_false_ex : forall (A : Type) (p : A -> bool) l, forallb p l = false -> exists x, In x l /\ p x = false.
Proof.
  induction l as [|a l IH]; intro H; [discriminate|]. cbn in H. apply andb_false_iff in H as [H | H].
  - exists a. split; [left; reflexivity|exact H].
  - destruct (IH H) as (x & Hx & Px). exists x. split; [right; exact Hx|exact Px].
Qed.

Lemma dd_abs_len : forall f i t last next r,
  (last = length t \/ last <= i)%nat -> (next <= i)%nat ->
  dd_abs f i t last next = Some r -> (length r <= length t)%nat.
Proof.
  induction f as [|f IH]; intros i t last next r Hl Hn H; [discriminate|].
  cbn [dd_abs] in H. destruct (i <? length t)%nat eqn:Ei; [|inversion H; subst; lia].
  apply Nat.ltb_lt in Ei. destruct (fire t i last) eqn:Ef.
  - assert (Hlast : (last <= i)%nat).
    { unfold fire in Ef. destruct (last <? length t)%nat eqn:E; [|discriminate]. apply Nat.ltb_lt in E. lia. }
    destruct (cut_length t i last Ei Hlast) as (CL1 & _ & _).
    apply IH in H; [lia|left; reflexivity|lia].
  - pose proof (nxt_le t i next Hn) as Hn1.
    apply IH in H; [exact H| |lia].
    unfold lst. destruct (nsd (nth i t 0)); [right; lia|]. destruct Hl; [left; assumption|right; lia].
Qed.

Lemma nonzero_TX : forall k D N tl, (k = 0 \/ k = 1) -> allDD D -> allnm N -> (tl = [] \/ tl = [[]]) ->
  nonzero (TX k (D ++ N ++ tl)).
Proof.
  intros k D N tl Hk HD HN Htl. unfold TX, nonzero. apply Forall_app. split.
  - destruct Hk as [-> | ->]; repeat constructor. discriminate.
  - apply join_forall_bytes; [discriminate|]. rewrite !Forall_app. repeat split.
    + eapply Forall_impl; [|exact HD]. intros a ->. repeat constructor; discriminate.
    + eapply Forall_impl; [|exact HN]. intros a ((_ & Hz & _) & _). exact Hz.
    + destruct Htl as [-> | ->]; repeat constructor.
Qed.

(* the three shapes of what follows the leading ".." fields *)
Lemma follow_shape : forall k D N tl, (k = 0 \/ k = 1) -> allDD D -> allnm N -> (tl = [] \/ tl = [[]]) ->
  N ++ tl = [] \/ N ++ tl = [[]] \/
  exists n X', N ++ tl = n :: X' /\ nm n /\ nonzero (join_elems (N ++ tl)).
Proof.
  intros k D N tl Hk HD HN Htl. destruct N as [|n N'].
  - destruct Htl as [-> | ->]; [left; reflexivity|right; left; reflexivity].
  - right. right. exists n, (N' ++ tl). split; [reflexivity|]. split; [inversion HN; assumption|].
    pose proof (nonzero_TX k [] (n :: N') tl Hk (Forall_nil _) HN Htl) as Z0. unfold TX, nonzero in Z0.
    apply Forall_app in Z0. apply Z0.
Qed.

(* ---- all four passes, for inputs whose kept fields are names or ".." ---------------------------- *)
Definition goodf (f : elem) : Prop := fld f /\ (f = DD \/ ends_dotdot f = false).

Lemma zix_normal_k_plain : forall s k rel,
  (k = 0 \/ k = 1) -> s <> [] -> s = root_acc k ++ rel -> has_root rel = false -> c_string s ->
  Z.of_nat (length s) + 2 < W64 ->
  has_root s = (k =? 1) -> elems s = elems_of (fields rel) ->
  (forall f, In f (fields rel) -> keepf f = true -> goodf f) ->
  last (fields rel) [] <> [DOT] ->
  zix_normal_opt s = Some (std_normal s).
Proof.
  intros s k rel Hk Hne Hs Hrel Hc HW HR HE Hfld Hlast.
  pose proof (fields_nonnil rel) as Nfs.
  destruct (exists_last Nfs) as (X0 & l & Efs).
  set (K := filter keepf X0).
  assert (HK : Forall goodf K).
  { apply Forall_forall. intros f Hf. apply filter_In in Hf as [Hin Hk']. apply Hfld; [|exact Hk'].
    rewrite Efs. apply in_or_app. left. exact Hin. }
  assert (Hl : l = [] \/ goodf l).
  { destruct (keepf l) eqn:El.
    - right. apply Hfld; [|exact El]. rewrite Efs. apply in_or_app. right. left. reflexivity.
    - left. unfold keepf in El. apply negb_false_iff in El. apply orb_true_iff in El as [El | El].
      + apply is_empty_eq. exact El.
      + exfalso. apply Hlast. rewrite Efs, last_app1. apply is_dot_eq. exact El. }
  assert (HHt : exists H tl, K ++ [l] = H ++ tl /\ Forall goodf H /\ (tl = [] \/ tl = [[]])).
  { destruct Hl as [-> | Hl].
    - exists K, [[]]. repeat split; auto.
    - exists (K ++ [l]), []. rewrite app_nil_r. repeat split; auto. apply Forall_app. split; [exact HK|constructor; [exact Hl|constructor]]. }
  destruct HHt as (H & tl & EH & HH & Htl).
  assert (HF : Forall fld H) by (eapply Forall_impl; [|exact HH]; intros a [A _]; exact A).
  (* the text after the first pass *)
  set (T := TX k (K ++ [l])).
  assert (Eemit : emit (fields rel) = body K ++ l).
  { rewrite emit_body by exact Nfs. rewrite Efs, removelast_app1, last_app1. reflexivity. }
  assert (ET : T = root_acc k ++ emit (fields rel)) by (unfold T, TX; rewrite join_snoc, Eemit; reflexivity).
  destruct (pass1_k s k rel Hk Hne Hs Hrel Hc) as (m' & E1 & C2 & C3 & Nz).
  set (acc' := rev (emit (fields rel)) ++ root_acc k) in *.
  assert (Erev : rev acc' = T).
  { unfold acc'. rewrite rev_app_distr, rev_involutive, rev_root_acc. symmetry. exact ET. }
  assert (Elen : length acc' = length T) by (rewrite <- Erev; symmetry; apply rev_length).
  destruct m' as [|m'']; [lia|].
  assert (EB : B acc' (S m'') = T ++ 0 :: repeat 0 m'') by (unfold B; rewrite Erev; reflexivity).
  assert (NzT : nonzero T) by (rewrite <- Erev; apply Forall_rev; exact Nz).
  (* the second pass *)
  destruct (pass2_plain k Hk (length H) H tl (le_n _) HF Htl)
    as (D & N & tl' & HD & HN & Htl' & Hres & Hm & HP).
  rewrite <- EH in Hres, Hm. fold T in Hres.
  set (T2 := TX k (D ++ N ++ tl')) in *.
  set (fuel := ((length s + 2) * (length s + 2))%nat).
  assert (Hmeas : (length T - length (root_acc k) + length T * (length T + 2) < fuel)%nat) by (unfold fuel; nia).
  destruct (dd_abs_total fuel (length (root_acc k)) T (length T) 0%nat (or_introl eq_refl) (Nat.le_0_l _) Hmeas) as (r & Er).
  pose proof (dd_res_det _ _ _ _ _ _ _ Hres Er) as <-.
  pose proof (dd_abs_len _ _ _ _ _ _ (or_introl eq_refl) (Nat.le_0_l _) Er) as Hlen2.
  destruct (dd_abs_refine fuel (length (root_acc k)) T (length T) 0%nat (repeat 0 m'') T2
              (or_introl eq_refl) (Nat.le_0_l _) ltac:(rewrite repeat_length; lia) Er) as (junk' & D1 & D2).
  rewrite repeat_length in D2.
  assert (Ek : Z.of_nat (length (root_acc k)) = k) by (destruct Hk as [-> | ->]; reflexivity).
  rewrite Ek in D1. change (Z.of_nat 0) with 0 in D1.
  destruct junk' as [|j junk'']; [cbn [length] in D2; lia|]. cbn [length] in D2.
  assert (NzT2 : nonzero T2) by (apply nonzero_TX; assumption).
  (* names kept by the second pass do not end in ".." *)
  assert (HEN : Forall (fun n => ends_dotdot n = false) N).
  { pose proof (HP (fun e => e = DD \/ ends_dotdot e = false)
                   ltac:(eapply Forall_impl; [|exact HH]; intros a [_ A]; exact A)) as Q.
    apply Forall_app in Q as [_ Q]. apply Forall_forall. intros n Hn.
    rewrite Forall_forall in Q. destruct (Q n Hn) as [-> | A]; [|exact A].
    pose proof HN as HN0. unfold allnm in HN0. rewrite Forall_forall in HN0. exfalso. apply (nm_not_dd DD (HN0 DD Hn)). reflexivity. }
  (* third pass and tail *)
  assert (P34 : exists bufF, pass34 k (Z.of_nat (length T2)) (T2 ++ 0 :: j :: junk'') = Some bufF /\
                cstr bufF = render (k =? 1) (normal_elems (k =? 1) (D ++ N ++ tl'))).
  { destruct Hk as [-> | ->].
    - exists (tail_rules (Z.of_nat (length T2)) (T2 ++ 0 :: j :: junk'')). split; [reflexivity|].
      rewrite tail_txt by exact NzT2. apply final_text; auto.
    - destruct D as [|d D'].
      + exists (tail_rules (Z.of_nat (length T2)) (T2 ++ 0 :: j :: junk'')). split.
        * unfold pass34. change (negb (1 =? 0)) with true. cbn [andb].
          destruct (is_sep (get (T2 ++ 0 :: j :: junk'') (1 - 1))); [|reflexivity].
          assert (Q : root_dotdot_scan (S (length (T2 ++ 0 :: j :: junk''))) (T2 ++ 0 :: j :: junk'') (Z.of_nat (length T2)) 1
                      = Some (Z.of_nat (length T2 - length (join_elems (N ++ tl'))))).
          { exact (root_scan_D [] [SEP] (N ++ tl') (j :: junk'') _ (Forall_nil _)
                     (follow_shape 1 [] N tl' (or_intror eq_refl) (Forall_nil _) HN Htl') (Nat.lt_0_succ _)). }
          rewrite Q.
          replace (Z.of_nat (length T2 - length (join_elems (N ++ tl'))) >? 1) with false; [reflexivity|].
          assert (length T2 = S (length (join_elems (N ++ tl')))) by reflexivity. lia.
        * rewrite tail_txt by exact NzT2. apply final_text; auto.
      + destruct (pass34_root_dd d D' (N ++ tl') j junk'' HD
                    (follow_shape 1 (d :: D') N tl' (or_intror eq_refl) HD HN Htl')) as (bufF & B1 & B2).
        * change (SEP :: join_elems ((d :: D') ++ N ++ tl')) with T2. lia.
        * exists bufF. split; [exact B1|]. rewrite B2. apply final_text_root_dd; assumption. }
  destruct P34 as (bufF & B1 & B2).
  (* put the passes together *)
  unfold zix_normal_opt, zix_normal_full. destruct s as [|c0 s0]; [congruence|].
  set (s := c0 :: s0) in *.
  rewrite E1. unfold pass2. fold fuel. rewrite Elen, EB, D1, B1. rewrite B2.
  f_equal.
  (* the spec side *)
  unfold std_normal. fold s. change (match s with [] => [] | _ :: _ => render (has_root s) (normal_elems (has_root s) (elems s)) end)
    with (render (has_root s) (normal_elems (has_root s) (elems s))).
  rewrite HR, HE. rewrite normal_elems_of_fields by exact Nfs. rewrite Efs.
  rewrite <- normal_elems_kept. fold K. rewrite Hm. reflexivity.
Qed.

(* ---- the theorem for the whole of `plain` ----------------------------------------------------------- *)
Lemma zix_normal_plain : forall s, c_string s -> Z.of_nat (length s) + 2 < W64 -> plain s = true ->
  zix_normal_opt s = Some (std_normal s).
Proof.
  intros s Hc HW Hp. destruct (no_dotdot_tail s) eqn:NT; [apply zix_normal_on_class; assumption|].
  destruct (plain_parts s Hp) as (HA & HB & HC & HD).
  unfold no_dotdot_tail in NT. rewrite HA in NT. cbn [negb andb] in NT.
  destruct (forallb_false_ex _ _ _ NT) as (f0 & Hf0 & Ef0). apply negb_false_iff in Ef0.
  assert (Hdd : In DD (fields s)).
  { assert (Hk0 : keepf f0 = true).
    { unfold keepf, is_dot. destruct f0 as [|a [|b f']]; [discriminate|discriminate|]. cbn [is_empty bytes_eqb orb]. rewrite andb_false_r. reflexivity. }
    destruct (field_class s f0 Hp Hc Hf0 Hk0) as [_ [-> | A]]; [exact Hf0|congruence]. }
  pose proof (dd_not_tail s Hdd HD) as Hlast.
  destruct s as [|c s']; [destruct Hdd as [A | []]; discriminate|].
  destruct (c =? SEP) eqn:Ec.
  - apply Z.eqb_eq in Ec. subst c.
    assert (EF : fields (SEP :: s') = [] :: fields s') by (cbn [fields]; rewrite Z.eqb_refl; reflexivity).
    assert (Hrel : has_root s' = false) by (destruct s' as [|d s'']; [reflexivity|]; cbn in HA; cbn; exact HA).
    assert (HEl : elems (SEP :: s') = elems_of (fields s')).
    { rewrite elems_unfold, EF. apply elems_of_cons_empty. apply fields_nonnil. }
    assert (Hfld : forall f, In f (fields s') -> keepf f = true -> goodf f).
    { intros f Hf Hk. apply (field_class (SEP :: s') f Hp Hc); [rewrite EF; right; exact Hf|exact Hk]. }
    assert (Hlast' : last (fields s') [] <> [DOT]).
    { rewrite EF in Hlast. pose proof (fields_nonnil s') as N. destruct (fields s') as [|g G]; [congruence|]. exact Hlast. }
    exact (zix_normal_k_plain (SEP :: s') 1 s' (or_intror eq_refl) ltac:(discriminate) eq_refl Hrel Hc HW eq_refl HEl Hfld Hlast').
  - assert (Hrel : has_root (c :: s') = false) by (cbn; exact Ec).
    assert (Hfld : forall f, In f (fields (c :: s')) -> keepf f = true -> goodf f).
    { intros f Hf Hk. apply (field_class (c :: s') f Hp Hc Hf Hk). }
    exact (zix_normal_k_plain (c :: s') 0 (c :: s') (or_introl eq_refl) ltac:(discriminate) eq_refl Hrel Hc HW Hrel
             (elems_unfold _) Hfld Hlast).
Qed.

(* ---- `plain` is closed under std_normal; idempotence of the model on `plain` -------------------- *)
Lemma fields_split : forall p q, fields (p ++ SEP :: q) = fields p ++ fields q.
Proof.
  induction p as [|c p IH]; intro q.
  - cbn [app fields]. rewrite Z.eqb_refl. reflexivity.
  - cbn [app fields]. rewrite IH. destruct (c =? SEP); [reflexivity|].
    pose proof (fields_nonnil p) as N. destruct (fields p) as [|f fs]; [congruence|]. reflexivity.
Qed.

Lemma ends_sep_dot_split : forall t, ends_sep_dot t = true -> exists p, t = p ++ [SEP; DOT].
Proof.
  induction t as [|a t IH]; intro H; [discriminate|].
  destruct t as [|b [|c t']]; [discriminate| |].
  - cbn in H. apply andb_true_iff in H as [H1 H2]. apply Z.eqb_eq in H1, H2. subst. exists []. reflexivity.
  - change (ends_sep_dot (a :: b :: c :: t')) with (ends_sep_dot (b :: c :: t')) in H.
    destruct (IH H) as (p & E). exists (a :: p). rewrite E. reflexivity.
Qed.

Lemma ends_sep_dot_elem : forall t, ends_sep_dot t = true -> In [DOT] (elems t).
Proof.
  intros t H. destruct (ends_sep_dot_split t H) as (p & ->).
  apply In_fields_elems; [|discriminate]. rewrite fields_split. apply in_or_app. right. left. reflexivity.
Qed.

Lemma nds_not_A : forall t, no_double_sep t = true -> class_A t = false.
Proof.
  intros t H. destruct t as [|a [|b t']]; [reflexivity|reflexivity|].
  change (no_double_sep (a :: b :: t')) with (negb ((a =? SEP) && (b =? SEP)) && no_double_sep (b :: t')) in H.
  apply andb_true_iff in H as [H _]. apply negb_true_iff in H. exact H.
Qed.

Lemma std_normal_c_string : forall s, c_string s -> c_string (std_normal s).
Proof.
  intros s Hc. destruct s as [|c s']; [constructor|].
  set (s := c :: s') in *. change (std_normal s) with (render (has_root s) (normal_elems (has_root s) (elems s))).
  assert (Forall (Forall (fun x => x <> 0)) (normal_elems (has_root s) (elems s))).
  { apply normal_elems_forall; [repeat constructor; discriminate|constructor|].
    apply Forall_forall. intros e He. apply In_elems_fields in He.
    pose proof (fields_forall_bytes (fun x => x <> 0) s Hc) as FB. rewrite Forall_forall in FB. apply FB. exact He. }
  unfold c_string, render. apply Forall_app. split.
  - destruct (has_root s); repeat constructor. discriminate.
  - apply join_forall_bytes; [discriminate|assumption].
Qed.

Lemma std_normal_plain : forall s, plain s = true -> plain (std_normal s) = true.
Proof.
  intros s Hp. destruct s as [|c s']; [reflexivity|].
  set (s := c :: s') in *. change (std_normal s) with (render (has_root s) (normal_elems (has_root s) (elems s))).
  destruct (plain_parts s Hp) as (_ & HB & HC & _).
  pose proof (normal_elems_wf s) as W. pose proof (normal_elems_shape (has_root s) (elems s)) as Sh.
  set (R := has_root s) in *. set (es' := normal_elems R (elems s)) in *.
  set (t := render R es').
  assert (Eel : elems t = es') by (apply elems_render; exact W).
  assert (HP : Forall (fun e => In e (elems s) \/ e = [DOT] \/ e = []) es').
  { apply normal_elems_forall; [right; left; reflexivity|right; right; reflexivity|].
    apply Forall_forall. intros e He. left. exact He. }
  rewrite Forall_forall in HP.
  unfold plain. apply andb_true_iff. split; [apply andb_true_iff; split; [apply andb_true_iff; split|]|]; apply negb_true_iff.
  - apply nds_not_A. apply nds_render. exact W.
  - unfold class_B. rewrite Eel. destruct (existsb _ es') eqn:E; [|reflexivity]. exfalso.
    apply existsb_exists in E as (e & He & Pe). destruct (HP e He) as [Hin | [-> | ->]]; [|discriminate|discriminate].
    unfold class_B in HB. rewrite <- not_true_iff_false in HB. apply HB. apply existsb_exists. exists e. split; assumption.
  - unfold class_C. rewrite Eel. destruct (existsb _ es') eqn:E; [|reflexivity]. exfalso.
    apply existsb_exists in E as (e & He & Pe). destruct (HP e He) as [Hin | [-> | ->]]; [|discriminate|discriminate].
    unfold class_C in HC. rewrite <- not_true_iff_false in HC. apply HC. apply existsb_exists. exists e. split; assumption.
  - unfold class_D. rewrite Eel. destruct (existsb is_dotdot es') eqn:E1; [|reflexivity]. cbn [andb].
    destruct (ends_sep_dot t) eqn:E2; [|reflexivity]. exfalso.
    pose proof (ends_sep_dot_elem t E2) as Hd. rewrite Eel in Hd.
    apply existsb_exists in E1 as (e & He & Pe). apply is_dotdot_eq in Pe. subst e.
    destruct Sh as [Rr|Rr|k Rr|k names tl Hr Hne Hpn Ht].
    + destruct Hd.
    + destruct He as [A | []]. discriminate.
    + apply repeat_spec in Hd. discriminate.
    + apply in_app_or in Hd as [Hd | Hd]; [apply repeat_spec in Hd; discriminate|].
      apply in_app_or in Hd as [Hd | Hd].
      * rewrite forallb_forall in Hpn. specialize (Hpn _ Hd). discriminate.
      * destruct Ht as [-> | ->]; [destruct Hd|destruct Hd as [A | []]; discriminate].
Qed.

Lemma zix_normal_idem_plain : forall s, c_string s -> Z.of_nat (length s) + 2 < W64 ->
  Z.of_nat (length (std_normal s)) + 2 < W64 -> plain s = true ->
  zix_normal (zix_normal s) = zix_normal s.
Proof.
  intros s Hc HW HW' Hp. unfold zix_normal at 2 3. rewrite (zix_normal_plain s Hc HW Hp).
  unfold zix_normal. rewrite (zix_normal_plain _ (std_normal_c_string s Hc) HW' (std_normal_plain s Hp)).
  apply std_normal_idem.
Qed.
