(* C11 — assembly: the full theorem, zix_normal s = std_normal s (as text) for every C string. *)
From Coq Require Import ZArith List Bool Lia ZifyBool.
From Zix Require Import PathNormSpec PathNormModel PathNormProofsSpec PathNormProofsModel PathNormProofsDD PathNormProofsTail PathNormProofsLen.
Import ListNotations.
Local Open Scope Z_scope.

(* ---- every string is a run of separators followed by a part that does not start with one ---- *)
Lemma lead_split : forall s, exists k rel, s = repeat SEP k ++ rel /\ has_root rel = false.
Proof.
  induction s as [|c s IH]; [exists 0%nat, []; split; reflexivity|].
  destruct (c =? SEP) eqn:E.
  - apply Z.eqb_eq in E. subst c. destruct IH as (k & rel & -> & Hr). exists (S k), rel. split; [reflexivity|exact Hr].
  - exists 0%nat, (c :: s). split; [reflexivity|cbn; exact E].
Qed.

Lemma fields_lead : forall k rel, fields (repeat SEP k ++ rel) = repeat [] k ++ fields rel.
Proof.
  induction k as [|k IH]; intro rel; [reflexivity|]. cbn [repeat app fields]. rewrite Z.eqb_refl, IH. reflexivity.
Qed.

Lemma elems_of_lead : forall k F, F <> [] -> elems_of (repeat [] k ++ F) = elems_of F.
Proof.
  induction k as [|k IH]; intros F N; [reflexivity|]. cbn [repeat app].
  rewrite elems_of_cons_empty; [apply IH; exact N|]. destruct k; [exact N|discriminate].
Qed.

Lemma rd_lead_lt : forall k rel (e : nat), (e < k)%nat -> rd (repeat SEP k ++ rel) (Z.of_nat e) = SEP.
Proof.
  intros k rel e H. unfold rd, get. replace (Z.of_nat e <? 0) with false by lia. rewrite Nat2Z.id.
  rewrite app_nth1 by (rewrite repeat_length; exact H).
  rewrite (nth_indep _ 0 SEP) by (rewrite repeat_length; exact H). apply nth_repeat.
Qed.

Lemma rd_lead_at : forall k rel, has_root rel = false -> is_sep (rd (repeat SEP k ++ rel) (Z.of_nat k)) = false.
Proof.
  intros k rel H. unfold is_sep, rd, get. replace (Z.of_nat k <? 0) with false by lia. rewrite Nat2Z.id.
  rewrite app_nth2 by (rewrite repeat_length; lia). rewrite repeat_length, Nat.sub_diag.
  destruct rel as [|c rel']; [reflexivity|exact H].
Qed.

Lemma root_dir_loop_lead : forall n k rel e fuel, has_root rel = false -> (e + n = k)%nat -> (1 <= e)%nat ->
  (n < fuel)%nat ->
  root_dir_loop fuel (repeat SEP k ++ rel) (Z.of_nat e - 1) (Z.of_nat e) = Some (Z.of_nat k - 1, Z.of_nat k).
Proof.
  induction n as [|n IH]; intros k rel e fuel Hr He H1 Hf; (destruct fuel as [|f]; [lia|]); cbn [root_dir_loop].
  - replace e with k by lia. rewrite rd_lead_at by exact Hr. reflexivity.
  - unfold is_sep. rewrite rd_lead_lt by lia. rewrite Z.eqb_refl.
    replace (Z.of_nat e) with (Z.of_nat (S e) - 1) at 1 by lia.
    replace (Z.of_nat e + 1) with (Z.of_nat (S e)) by lia.
    apply IH; try assumption; lia.
Qed.

Definition rlen (k : nat) : Z := match k with O => 0 | _ => 1 end.

Lemma root_range_lead : forall k rel, has_root rel = false -> repeat SEP k ++ rel <> [] ->
  exists rb, root_path_range (repeat SEP k ++ rel) = Some (rb, Z.of_nat k) /\ sz (Z.of_nat k - rb) = rlen k.
Proof.
  intros k rel Hr Hne. unfold root_path_range. destruct k as [|k'].
  - change (Z.of_nat 0) with 0. pose proof (rd_lead_at 0 rel Hr) as E. change (Z.of_nat 0) with 0 in E. rewrite E.
    exists 0. split; reflexivity.
  - unfold is_sep. change 0 with (Z.of_nat 0) at 1. rewrite rd_lead_lt by lia. rewrite Z.eqb_refl.
    pose proof (root_dir_loop_lead k' (S k') rel 1 (S (length (repeat SEP (S k') ++ rel))) Hr ltac:(lia) ltac:(lia)) as Q.
    change (Z.of_nat 1 - 1) with 0 in Q. change (Z.of_nat 1) with 1 in Q. rewrite Q.
    + exists (Z.of_nat (S k') - 1). split; [reflexivity|]. replace (Z.of_nat (S k') - (Z.of_nat (S k') - 1)) with 1 by lia. reflexivity.
    + rewrite app_length, repeat_length. lia.
Qed.

(* ---- the state after the first pass, for every input ------------------------------------------------ *)
Lemma pass1_gen : forall s k rel,
  s <> [] -> s = repeat SEP k ++ rel -> has_root rel = false -> c_string s ->
  exists m', pass1 s = Some (rlen k, Z.of_nat (length (rev (emit (fields rel)) ++ root_acc (rlen k))),
                             B (rev (emit (fields rel)) ++ root_acc (rlen k)) m') /\
             (length (rev (emit (fields rel)) ++ root_acc (rlen k)) + m' = length s + 2)%nat /\ (1 < m')%nat /\
             Forall (fun c => c <> 0) (rev (emit (fields rel)) ++ root_acc (rlen k)).
Proof.
  intros s k rel Hne Hs Hrel Hnz.
  set (rl := rlen k). assert (Hrl : rl = 0 \/ rl = 1) by (unfold rl; destruct k; [left|right]; reflexivity).
  set (acc' := rev (emit (fields rel)) ++ root_acc rl) in *.
  assert (Hlen : length s = (k + length rel)%nat) by (rewrite Hs, app_length, repeat_length; reflexivity).
  assert (Hkl : (Z.to_nat rl <= k)%nat) by (unfold rl; destruct k; cbn; lia).
  destruct (root_range_lead k rel Hrel ltac:(rewrite <- Hs; exact Hne)) as (rb & R1 & R3). rewrite <- Hs in R1. fold rl in R3.
  assert (R4 : copy_root (S (length s)) s rl 0 0 (repeat 0 (length s + 2))
               = Some (rl, B (root_acc rl) (length s + 2 - Z.to_nat rl))).
  { unfold rl. destruct k as [|k'].
    - cbn [rlen copy_root]. replace (0 <? 0) with false by reflexivity. cbn [Z.to_nat]. rewrite Nat.sub_0_r. reflexivity.
    - cbn [rlen]. destruct s as [|c0 s0]; [congruence|].
      change (S (length (c0 :: s0))) with (S (S (length s0))). cbn [copy_root].
      replace (0 <? 1) with true by reflexivity. replace (0 + 1 <? 1) with false by reflexivity.
      assert (E0 : rd (c0 :: s0) 0 = SEP).
      { rewrite Hs. change 0 with (Z.of_nat 0). apply rd_lead_lt. lia. }
      rewrite E0. unfold is_sep. rewrite Z.eqb_refl.
      set (n := (length (c0 :: s0) + 2 - Z.to_nat 1)%nat).
      replace (length (c0 :: s0) + 2)%nat with (S n) by (subst n; cbn [length Z.to_nat Pos.to_nat Pos.iter_op]; lia).
      change (repeat 0 (S n)) with (B [] (S n)).
      rewrite set_push by reflexivity. reflexivity. }
  assert (HP : P1 (S (length s)) rel ([] ++ root_acc rl) = Some acc').
  { pose proof (P1_spec (S (length s)) rel [] (root_acc rl)) as Q. cbn [rev app] in *. apply Q.
    - lia.
    - destruct Hrl as [-> | ->]; reflexivity.
    - constructor.
    - intros _. exact Hrel. }
  assert (Hskip : skipn (Z.to_nat (Z.of_nat k)) s = rel).
  { rewrite Nat2Z.id, Hs. apply skipn_exact. rewrite repeat_length. reflexivity. }
  destruct (copy_loop_refine s (Z.of_nat k) rl (S (length s)) (Z.of_nat k) [] (length s + 2 - Z.to_nat rl) rel acc' Hrl
              ltac:(lia) ltac:(lia) ltac:(unfold zlen; lia) Hskip ltac:(lia) HP) as (m' & C1 & C2 & C3 & _).
  cbn [app] in C1, C2.
  assert (Lk : length (root_acc rl) = Z.to_nat rl) by (destruct Hrl as [-> | ->]; reflexivity).
  rewrite Lk in C1, C2. rewrite Z2Nat.id in C1 by lia.
  assert (Nz : Forall (fun c => c <> 0) acc').
  { eapply (P1_forall (fun c => c <> 0)); [| | |exact HP].
    - cbv beta. discriminate.
    - unfold c_string in Hnz. rewrite Hs in Hnz. apply Forall_app in Hnz. apply Hnz.
    - cbn [app]. destruct Hrl as [-> | ->]; repeat constructor. discriminate. }
  exists m'. unfold pass1. rewrite R1, R3, R4, C1. repeat split; [lia|exact C3|exact Nz].
Qed.

Lemma fold_filter_keepf : forall R X out t t',
  fst (fold_left (norm_step R) (filter keepf X) (out, t)) = fst (fold_left (norm_step R) X (out, t')).
Proof.
  induction X as [|x X IH]; intros out t t'; [reflexivity|].
  cbn [filter fold_left]. unfold keepf at 1. destruct (is_empty x || is_dot x) eqn:E; cbn [negb].
  - assert (S1 : norm_step R (out, t') x = (out, true)) by (unfold norm_step; rewrite E; reflexivity).
    rewrite S1. apply IH.
  - cbn [fold_left]. rewrite (step_trail_irrelevant R out t t').
    destruct (norm_step R (out, t') x) as [o1 t1]. apply IH.
Qed.

Lemma normal_elems_kept : forall R X l,
  normal_elems R (filter keepf X ++ [l]) = normal_elems R (X ++ [l]).
Proof.
  intros R X l. unfold normal_elems. rewrite !fold_left_snoc.
  pose proof (fold_filter_keepf R X [] false false) as F.
  destruct (fold_left (norm_step R) (filter keepf X) ([], false)) as [o1 t1].
  destruct (fold_left (norm_step R) X ([], false)) as [o2 t2]. cbn [fst] in F. subst o2.
  rewrite (step_trail_irrelevant R o1 t1 t2). reflexivity.
Qed.

Fixpoint all_dots (e : elem) : bool :=
  match e with [] => true | c :: e' => Z.eqb c DOT && all_dots e' end.

Lemma alldots_of_noname : forall f, sepfree f -> existsb nsd f = false -> all_dots f = true.
Proof.
  induction f as [|c f IH]; intros Hs H; [reflexivity|].
  pose proof (Forall_inv Hs) as Hc. pose proof (Forall_inv_tail Hs) as Hs'. cbv beta in Hc.
  cbn in H. apply orb_false_iff in H as [N1 N2]. cbn [all_dots]. rewrite (IH Hs' N2), andb_true_r.
  unfold nsd in N1. apply Z.eqb_neq in Hc. rewrite Hc in N1. cbn in N1. apply negb_false_iff in N1. exact N1.
Qed.

Lemma dd_abs_len : forall f i t last next r,
  (last = length t \/ last <= i)%nat -> (next <= i)%nat ->
  dd_abs f i t last next = Some r -> (length r <= length t)%nat.
Proof.
  induction f as [|f IH]; intros i t last next r Hl Hn H; [discriminate|].
  cbn [dd_abs] in H. destruct (i <? length t)%nat eqn:Ei; [|inversion H; subst; lia].
  apply Nat.ltb_lt in Ei. destruct (fire t i last) eqn:Ef.
  - assert (Hlast : (last <= i)%nat).
    { unfold fire in Ef. destruct (last <? length t)%nat eqn:E; [|discriminate]. apply Nat.ltb_lt in E. lia. }
    destruct (cut_length t i last Ei Hlast) as (CL1 & _ & _).
    apply IH in H; [lia|left; reflexivity|lia].
  - pose proof (nxt_le t i next Hn) as Hn1.
    apply IH in H; [exact H| |lia].
    unfold lst. destruct (lcond _ _ _); [right; lia|]. destruct Hl; [left; assumption|right; lia].
Qed.

Lemma nonzero_TX : forall k D N tl, (k = 0 \/ k = 1) -> allDD D -> allnm N -> tlok tl ->
  nonzero (TX k (D ++ N ++ tl)).
Proof.
  intros k D N tl Hk HD HN Htl. unfold TX, nonzero. apply Forall_app. split.
  - destruct Hk as [-> | ->]; repeat constructor. discriminate.
  - apply join_forall_bytes; [discriminate|]. rewrite !Forall_app. repeat split.
    + eapply Forall_impl; [|exact HD]. intros a ->. repeat constructor; discriminate.
    + eapply Forall_impl; [|exact HN]. intros a ((_ & Hz & _) & _). exact Hz.
    + destruct Htl as [-> | [-> | ->]]; repeat constructor. discriminate.
Qed.

Lemma field_fld : forall f, sepfree f -> nonzero f -> keepf f = true -> fld f.
Proof.
  intros f Hs Hz Hk. assert (Hne : f <> []) by (intro A; subst; discriminate).
  destruct (isname f) eqn:En; [right; repeat split; assumption|]. left.
  unfold isname in En. apply orb_false_iff in En as [E1 E2].
  pose proof (alldots_of_noname f Hs E1) as A.
  destruct f as [|a [|b [|c f']]]; [congruence| | |discriminate].
  - cbn in A. rewrite andb_true_r in A. apply Z.eqb_eq in A. subst. discriminate.
  - cbn in A. apply andb_true_iff in A as [A1 A2]. rewrite andb_true_r in A2. apply Z.eqb_eq in A1, A2. subst. reflexivity.
Qed.

(* what follows the leading ".." fields after the second pass *)
Lemma follow_Xok : forall N tl, allnm N -> tlok tl -> Xok (N ++ tl).
Proof.
  intros N tl HN Htl. split.
  - pose proof (nonzero_TX 0 [] N tl (or_introl eq_refl) (Forall_nil _) HN Htl) as Z0. exact Z0.
  - destruct N as [|n N'].
    + destruct Htl as [-> | [-> | ->]]; [left|right; left|right; right; left]; reflexivity.
    + right. right. right. exists n, (N' ++ tl). split; [reflexivity|inversion HN; assumption].
Qed.

(* ---- all four passes ----------------------------------------------------------------------------------------- *)
Lemma zix_normal_all : forall s, c_string s -> Z.of_nat (length s) + 2 < W64 ->
  zix_normal_opt s = Some (std_normal s).
Proof.
  intros s Hc HW. destruct s as [|c0 s0] eqn:Es0; [reflexivity|]. rewrite <- Es0 in *.
  assert (Hne : s <> []) by (rewrite Es0; discriminate).
  assert (Estd : std_normal s = render (has_root s) (normal_elems (has_root s) (elems s))) by (rewrite Es0; reflexivity).
  clear Es0 c0 s0.
  destruct (lead_split s) as (k0 & rel & Hs & Hrel).
  assert (HR : has_root s = (rlen k0 =? 1)).
  { rewrite Hs. destruct k0; [exact Hrel|reflexivity]. }
  assert (Hk : rlen k0 = 0 \/ rlen k0 = 1) by (destruct k0; [left|right]; reflexivity).
  remember (rlen k0) as k eqn:Ek0.
  pose proof (fields_nonnil rel) as Nfs.
  assert (HE : elems s = elems_of (fields rel)).
  { rewrite elems_unfold, Hs, fields_lead. apply elems_of_lead. exact Nfs. }
  assert (Hcrel : c_string rel) by (unfold c_string in *; rewrite Hs in Hc; apply Forall_app in Hc; apply Hc).
  destruct (exists_last Nfs) as (X0 & l & Efs).
  set (K := filter keepf X0).
  assert (Hfld : forall f, In f (fields rel) -> keepf f = true -> fld f).
  { intros f Hf Hkf. apply field_fld; [| |exact Hkf].
    - pose proof (fields_sepfree_all rel) as F. rewrite Forall_forall in F. apply F. exact Hf.
    - pose proof (fields_forall_bytes (fun x => x <> 0) rel Hcrel) as F. rewrite Forall_forall in F. apply F. exact Hf. }
  assert (HK : Forall fld K).
  { apply Forall_forall. intros f Hf. apply filter_In in Hf as [Hin Hk']. apply Hfld; [|exact Hk'].
    rewrite Efs. apply in_or_app. left. exact Hin. }
  assert (HHt : exists H tl, K ++ [l] = H ++ tl /\ Forall fld H /\ tlok tl).
  { destruct (keepf l) eqn:El.
    - exists (K ++ [l]), []. rewrite app_nil_r. repeat split; [|left; reflexivity].
      apply Forall_app. split; [exact HK|constructor; [|constructor]].
      apply Hfld; [|exact El]. rewrite Efs. apply in_or_app. right. left. reflexivity.
    - unfold keepf in El. apply negb_false_iff in El. apply orb_true_iff in El as [El | El].
      + apply is_empty_eq in El. subst l. exists K, [[]]. repeat split; [exact HK|right; left; reflexivity].
      + apply is_dot_eq in El. subst l. exists K, [[DOT]]. repeat split; [exact HK|right; right; reflexivity]. }
  destruct HHt as (H & tl & EH & HF & Htl).
  (* the text after the first pass *)
  set (T := TX k (K ++ [l])).
  assert (Eemit : emit (fields rel) = body K ++ l).
  { rewrite emit_body by exact Nfs. rewrite Efs, removelast_app1, last_app1. reflexivity. }
  assert (ET : T = root_acc k ++ emit (fields rel)) by (unfold T, TX; rewrite join_snoc, Eemit; reflexivity).
  destruct (pass1_gen s k0 rel Hne Hs Hrel Hc) as (m' & E1 & C2 & C3 & Nz). rewrite <- Ek0 in E1, C2, Nz.
  set (acc' := rev (emit (fields rel)) ++ root_acc k) in *.
  assert (Erev : rev acc' = T).
  { unfold acc'. rewrite rev_app_distr, rev_involutive, rev_root_acc. symmetry. exact ET. }
  assert (Elen : length acc' = length T) by (rewrite <- Erev; symmetry; apply rev_length).
  destruct m' as [|m'']; [lia|].
  assert (EB : B acc' (S m'') = T ++ 0 :: repeat 0 m'') by (unfold B; rewrite Erev; reflexivity).
  (* the second pass *)
  destruct (pass2_plain k Hk (length H) H tl (le_n _) HF Htl)
    as (D & N & tl' & HD & HN & Htl' & Hres & Hm & _).
  rewrite <- EH in Hres, Hm. fold T in Hres.
  set (T2 := TX k (D ++ N ++ tl')) in *.
  set (fuel := ((length s + 2) * (length s + 2))%nat).
  assert (Hmeas : (length T - length (root_acc k) + length T * (length T + 2) < fuel)%nat) by (unfold fuel; nia).
  destruct (dd_abs_total fuel (length (root_acc k)) T (length T) 0%nat (or_introl eq_refl) (Nat.le_0_l _) Hmeas) as (r & Er).
  pose proof (dd_res_det _ _ _ _ _ _ _ Hres Er) as <-.
  pose proof (dd_abs_len _ _ _ _ _ _ (or_introl eq_refl) (Nat.le_0_l _) Er) as Hlen2.
  destruct (dd_abs_refine fuel (length (root_acc k)) T (length T) 0%nat (repeat 0 m'') T2
              (or_introl eq_refl) (Nat.le_0_l _) ltac:(rewrite repeat_length; lia) Er) as (junk' & D1 & D2).
  rewrite repeat_length in D2.
  assert (Ek : Z.of_nat (length (root_acc k)) = k) by (destruct Hk as [-> | ->]; reflexivity).
  rewrite Ek in D1. change (Z.of_nat 0) with 0 in D1.
  destruct junk' as [|j junk'']; [cbn [length] in D2; lia|]. cbn [length] in D2.
  assert (NzT2 : nonzero T2) by (apply nonzero_TX; assumption).
  (* third pass and tail *)
  assert (P34 : exists bufF, pass34 k (Z.of_nat (length T2)) (T2 ++ 0 :: j :: junk'') = Some bufF /\
                cstr bufF = render (k =? 1) (normal_elems (k =? 1) (D ++ N ++ tl'))).
  { destruct Hk as [-> | ->].
    - exists (tail_rules (Z.of_nat (length T2)) (T2 ++ 0 :: j :: junk'')). split; [reflexivity|].
      rewrite tail_txt by exact NzT2. apply final_text; auto.
    - destruct D as [|d D'].
      + exists (tail_rules (Z.of_nat (length T2)) (T2 ++ 0 :: j :: junk'')). split.
        * unfold pass34. change (negb (1 =? 0)) with true. cbn [andb].
          destruct (is_sep (get (T2 ++ 0 :: j :: junk'') (1 - 1))); [|reflexivity].
          assert (Q : root_dotdot_scan (S (length (T2 ++ 0 :: j :: junk''))) (T2 ++ 0 :: j :: junk'') (Z.of_nat (length T2)) 1
                      = Some (Z.of_nat (length T2 - length (join_elems (N ++ tl'))))).
          { exact (root_scan_D [] [SEP] (N ++ tl') (j :: junk'') _ (Forall_nil _) (follow_Xok N tl' HN Htl') (Nat.lt_0_succ _)). }
          rewrite Q.
          replace (Z.of_nat (length T2 - length (join_elems (N ++ tl'))) >? 1) with false; [reflexivity|].
          assert (length T2 = S (length (join_elems (N ++ tl')))) by reflexivity. lia.
        * rewrite tail_txt by exact NzT2. apply final_text; auto.
      + destruct (pass34_root_dd d D' (N ++ tl') j junk'' HD (follow_Xok N tl' HN Htl')) as (bufF & B1 & B2).
        * change (SEP :: join_elems ((d :: D') ++ N ++ tl')) with T2. lia.
        * exists bufF. split; [exact B1|]. rewrite B2.
          change (SEP :: join_elems (N ++ tl')) with (TX 1 ([] ++ N ++ tl')).
          rewrite (final_text 1 [] N tl' (or_intror eq_refl) (Forall_nil _) HN Htl' (or_intror eq_refl)).
          change (1 =? 1) with true. rewrite (machine_drop_dd (d :: D') N tl' HD HN Htl'). reflexivity. }
  destruct P34 as (bufF & B1 & B2).
  (* put the passes together *)
  rewrite Estd. unfold zix_normal_opt, zix_normal_full. destruct s as [|c1 s1]; [congruence|].
  set (s := c1 :: s1) in *.
  rewrite E1. unfold pass2. fold fuel. rewrite Elen, EB, D1, B1. rewrite B2.
  f_equal.
  (* the spec side *)
  rewrite HR, HE. rewrite normal_elems_of_fields by exact Nfs. rewrite Efs.
  rewrite <- normal_elems_kept. fold K. rewrite Hm. reflexivity.
Qed.
Lemma std_normal_c_string : forall s, c_string s -> c_string (std_normal s).
Proof.
  intros s Hc. destruct s as [|c s']; [constructor|].
  set (s := c :: s') in *. change (std_normal s) with (render (has_root s) (normal_elems (has_root s) (elems s))).
  assert (Forall (Forall (fun x => x <> 0)) (normal_elems (has_root s) (elems s))).
  { apply normal_elems_forall; [repeat constructor; discriminate|constructor|].
    apply Forall_forall. intros e He. apply In_elems_fields in He.
    pose proof (fields_forall_bytes (fun x => x <> 0) s Hc) as FB. rewrite Forall_forall in FB. apply FB. exact He. }
  unfold c_string, render. apply Forall_app. split.
  - destruct (has_root s); repeat constructor. discriminate.
  - apply join_forall_bytes; [discriminate|assumption].
Qed.


Lemma zix_normal_idem_all : forall s, c_string s -> Z.of_nat (length s) + 2 < W64 ->
  Z.of_nat (length (std_normal s)) + 2 < W64 ->
  zix_normal (zix_normal s) = zix_normal s.
Proof.
  intros s Hc HW HW'. unfold zix_normal at 2 3. rewrite (zix_normal_all s Hc HW).
  unfold zix_normal. rewrite (zix_normal_all _ (std_normal_c_string s Hc) HW'). apply std_normal_idem.
Qed.

(* the result is never longer than the input, so the second call's allocation fits as well *)
Lemma zix_normal_idem_full : forall s, c_string s -> Z.of_nat (length s) + 2 < W64 ->
  zix_normal (zix_normal s) = zix_normal s.
Proof.
  intros s Hc HW. apply zix_normal_idem_all; [exact Hc|exact HW|].
  pose proof (std_normal_length s). lia.
Qed.
