(* C11 — third pass and tail rules on a text buffer (repaired code: no early return, the
   trailing-dot rule updates the length, the trailing dot-dot rule checks for a whole entry). *)
From Coq Require Import ZArith List Bool Lia ZifyBool.
From Zix Require Import PathNormSpec PathNormModel PathNormProofsSpec PathNormProofsModel PathNormProofsDD.
Import ListNotations.
Local Open Scope Z_scope.

Lemma cstr_txt : forall T junk, nonzero T -> cstr (T ++ 0 :: junk) = T.
Proof.
  induction T as [|c T IH]; intros junk H; [reflexivity|].
  pose proof (Forall_inv H) as Hc. cbv beta in Hc. cbn [app cstr]. replace (c =? 0) with false by lia.
  f_equal. apply IH. apply (Forall_inv_tail H).
Qed.

Lemma get_pre : forall pre X junk j, (j <= length X)%nat ->
  get ((pre ++ X) ++ 0 :: junk) (Z.of_nat (length pre) + Z.of_nat j) = nth j X 0.
Proof.
  intros pre X junk j H. replace (Z.of_nat (length pre) + Z.of_nat j) with (Z.of_nat (length pre + j)) by lia.
  rewrite get_txt_nat by (rewrite app_length; lia). apply app_nth2_plus.
Qed.

Lemma set_last_nul : forall A d junk,
  set ((A ++ [d]) ++ 0 :: junk) (Z.of_nat (length (A ++ [d])) - 1) 0 = A ++ 0 :: 0 :: junk.
Proof.
  intros. replace (Z.of_nat (length (A ++ [d])) - 1) with (Z.of_nat (length A)) by (rewrite app_length; cbn [length]; lia).
  rewrite <- app_assoc. cbn [app]. apply set_mid.
Qed.

Lemma tail_final : forall T j junk, nonzero T ->
  cstr (if get (T ++ 0 :: j :: junk) 0 =? 0 then set (set (T ++ 0 :: j :: junk) 0 DOT) 1 0 else T ++ 0 :: j :: junk)
  = match T with [] => [DOT] | _ => T end.
Proof.
  intros T j junk H. destruct T as [|c T'].
  - reflexivity.
  - pose proof (Forall_inv H) as Hc. cbv beta in Hc. unfold get. cbn [Z.ltb Z.compare Z.to_nat app nth].
    replace (c =? 0) with false by lia.
    apply (cstr_txt (c :: T')). exact H.
Qed.

Lemma tail_final_ne : forall T j junk, nonzero T -> T <> [] ->
  cstr (if get (T ++ 0 :: j :: junk) 0 =? 0 then set (set (T ++ 0 :: j :: junk) 0 DOT) 1 0 else T ++ 0 :: j :: junk) = T.
Proof. intros T j junk H N. rewrite tail_final by exact H. destruct T; [congruence|reflexivity]. Qed.

(* ---- the tail rules on  T ++ NUL :: junk ---------------------------------------------------------- *)
Definition rule1 (T : list Z) : list Z :=
  match rev T with
  | d :: e :: t' => if (e =? SEP) && (d =? DOT) then rev (e :: t') else T
  | _ => T
  end.

Definition rule2 (T : list Z) : list Z :=
  match rev T with
  | d :: e :: f :: rest =>
      if (f =? DOT) && (e =? DOT) && (d =? SEP) && (match rest with [] => true | g :: _ => g =? SEP end)
      then rev (e :: f :: rest) else T
  | _ => T
  end.

Definition rule3 (T : list Z) : list Z := match T with [] => [DOT] | _ => T end.

Definition ftxt (T : list Z) : list Z := rule3 (rule2 (rule1 T)).

Definition tail23 (r : Z) (buf1 : list Z) : list Z :=
  let buf2 := if (r >=? 3) && (get buf1 (r - 3) =? DOT) && (get buf1 (r - 2) =? DOT) &&
                 is_sep (get buf1 (r - 1)) && ((r =? 3) || is_sep (get buf1 (r - 4)))
              then set buf1 (r - 1) 0 else buf1 in
  if get buf2 0 =? 0 then set (set buf2 0 DOT) 1 0 else buf2.

Lemma tail_rules_unfold : forall r0 buf,
  tail_rules r0 buf =
  if (r0 >=? 2) && is_sep (get buf (r0 - 2)) && (get buf (r0 - 1) =? DOT)
  then tail23 (r0 - 1) (set buf (r0 - 1) 0) else tail23 r0 buf.
Proof.
  intros. unfold tail_rules, tail23.
  destruct ((r0 >=? 2) && is_sep (get buf (r0 - 2)) && (get buf (r0 - 1) =? DOT)); reflexivity.
Qed.

Ltac idx A S k j :=
  replace (Z.of_nat (length (A ++ S)) - k) with (Z.of_nat (length A) + Z.of_nat j)
    by (rewrite app_length; cbn [length]; lia).

Lemma rule3_cstr : forall T j junk, nonzero T ->
  cstr (if get (T ++ 0 :: j :: junk) 0 =? 0 then set (set (T ++ 0 :: j :: junk) 0 DOT) 1 0 else T ++ 0 :: j :: junk)
  = rule3 T.
Proof. intros. unfold rule3. apply tail_final. assumption. Qed.

Lemma tail23_txt : forall T j junk, nonzero T ->
  cstr (tail23 (Z.of_nat (length T)) (T ++ 0 :: j :: junk)) = rule3 (rule2 T).
Proof.
  intros T j junk HZ. unfold tail23, rule2, is_sep.
  destruct T as [|d T1] using rev_ind.
  { cbn [rev app length]. match goal with |- context [?a >=? 3] => change (a >=? 3) with false end.
    cbn [andb]. apply (rule3_cstr [] j junk). constructor. }
  clear IHT1. destruct T1 as [|e T2] using rev_ind.
  { cbn [rev app length]. match goal with |- context [?a >=? 3] => change (a >=? 3) with false end.
    cbn [andb]. apply (rule3_cstr [d] j junk). exact HZ. }
  clear IHT2. destruct T2 as [|f T3] using rev_ind.
  { cbn [rev app length]. match goal with |- context [?a >=? 3] => change (a >=? 3) with false end.
    cbn [andb]. apply (rule3_cstr [e; d] j junk). exact HZ. }
  clear IHT3.
  assert (E3 : ((T3 ++ [f]) ++ [e]) ++ [d] = T3 ++ [f; e; d]) by (rewrite <- !app_assoc; reflexivity).
  rewrite E3 in *. rewrite rev_app_distr. cbn [rev app].
  replace (Z.of_nat (length (T3 ++ [f; e; d])) >=? 3) with true by (rewrite app_length; cbn [length]; lia).
  cbn [andb].
  idx T3 [f; e; d] 3 0%nat. idx T3 [f; e; d] 2 1%nat. idx T3 [f; e; d] 1 2%nat.
  rewrite !get_pre by (cbn [length]; lia). cbn [nth].
  assert (Ec : ((Z.of_nat (length (T3 ++ [f; e; d])) =? 3) ||
                (get ((T3 ++ [f; e; d]) ++ 0 :: j :: junk) (Z.of_nat (length (T3 ++ [f; e; d])) - 4) =? SEP)) =
               match rev T3 with [] => true | g :: _ => g =? SEP end).
  { destruct T3 as [|g T4] using rev_ind.
    - reflexivity.
    - clear IHT4. rewrite rev_app_distr. cbn [rev app].
      replace ((T4 ++ [g]) ++ [f; e; d]) with (T4 ++ [g; f; e; d]) by (rewrite <- app_assoc; reflexivity).
      replace (Z.of_nat (length (T4 ++ [g; f; e; d])) =? 3) with false by (rewrite app_length; cbn [length]; lia).
      idx T4 [g; f; e; d] 4 0%nat. rewrite get_pre by (cbn [length]; lia). reflexivity. }
  rewrite Ec.
  destruct ((f =? DOT) && (e =? DOT) && (d =? SEP) && match rev T3 with [] => true | g :: _ => g =? SEP end) eqn:R2.
  - replace (Z.of_nat (length T3) + Z.of_nat 2) with (Z.of_nat (length (T3 ++ [f; e; d])) - 1)
      by (rewrite app_length; cbn [length]; lia).
    replace (T3 ++ [f; e; d]) with ((T3 ++ [f; e]) ++ [d]) by (rewrite <- app_assoc; reflexivity).
    rewrite set_last_nul. rewrite rule3_cstr.
    + cbn [rev]. rewrite rev_involutive, <- app_assoc. reflexivity.
    + unfold nonzero in *. replace (T3 ++ [f; e; d]) with ((T3 ++ [f; e]) ++ [d]) in HZ by (rewrite <- app_assoc; reflexivity).
      apply Forall_app in HZ. apply HZ.
  - apply rule3_cstr. exact HZ.
Qed.

Lemma tail_txt : forall T j junk, nonzero T ->
  cstr (tail_rules (Z.of_nat (length T)) (T ++ 0 :: j :: junk)) = ftxt T.
Proof.
  intros T j junk HZ. rewrite tail_rules_unfold. unfold ftxt, rule1, is_sep.
  destruct T as [|d T1] using rev_ind.
  { cbn [rev app length]. match goal with |- context [?a >=? 2] => change (a >=? 2) with false end.
    cbn [andb]. apply (tail23_txt [] j junk). constructor. }
  clear IHT1. destruct T1 as [|e T2] using rev_ind.
  { cbn [rev app length]. match goal with |- context [?a >=? 2] => change (a >=? 2) with false end.
    cbn [andb]. apply (tail23_txt [d] j junk). exact HZ. }
  clear IHT2.
  assert (E2 : (T2 ++ [e]) ++ [d] = T2 ++ [e; d]) by (rewrite <- app_assoc; reflexivity).
  rewrite E2 in *. rewrite rev_app_distr. cbn [rev app].
  replace (Z.of_nat (length (T2 ++ [e; d])) >=? 2) with true by (rewrite app_length; cbn [length]; lia).
  cbn [andb].
  idx T2 [e; d] 2 0%nat. idx T2 [e; d] 1 1%nat.
  rewrite !get_pre by (cbn [length]; lia). cbn [nth].
  destruct ((e =? SEP) && (d =? DOT)) eqn:R1.
  - replace (Z.of_nat (length T2) + Z.of_nat 1) with (Z.of_nat (length (T2 ++ [e; d])) - 1)
      by (rewrite app_length; cbn [length]; lia).
    rewrite <- E2. rewrite set_last_nul.
    replace (Z.of_nat (length ((T2 ++ [e]) ++ [d])) - 1) with (Z.of_nat (length (T2 ++ [e])))
      by (rewrite !app_length; cbn [length]; lia).
    rewrite (tail23_txt (T2 ++ [e]) 0 (j :: junk)).
    + cbn [rev]. rewrite rev_involutive. reflexivity.
    + unfold nonzero in *. rewrite <- E2 in HZ. apply Forall_app in HZ. apply HZ.
  - apply tail23_txt. exact HZ.
Qed.

(* ---- third pass: dot-dot fields directly under the root ------------------------------------------- *)
Lemma name_single : forall y, nm [y] -> y <> DOT.
Proof.
  intros y (_ & H) ->. discriminate.
Qed.

Lemma nm_first_not_dd : forall n rest junk pre, nm n -> nonzero rest -> (rest = [] \/ hd 0 rest = SEP) ->
  ((get ((pre ++ n ++ rest) ++ 0 :: junk) (Z.of_nat (length pre)) =? DOT) &&
   (get ((pre ++ n ++ rest) ++ 0 :: junk) (Z.of_nat (length pre) + 1) =? DOT) &&
   ((get ((pre ++ n ++ rest) ++ 0 :: junk) (Z.of_nat (length pre) + 2) =? SEP) ||
    (get ((pre ++ n ++ rest) ++ 0 :: junk) (Z.of_nat (length pre) + 2) =? 0))) = false.
Proof.
  intros n rest junk pre ((Hs & Hz & Hne) & Hn) Hrz Hrest.
  replace (Z.of_nat (length pre)) with (Z.of_nat (length pre) + Z.of_nat 0) at 1 by lia.
  change 1 with (Z.of_nat 1). change 2 with (Z.of_nat 2).
  destruct n as [|a [|b [|c n']]]; [congruence| | |].
  - rewrite get_pre by (cbn; lia). cbn [nth app].
    assert (Ha : a <> DOT) by (apply name_single; repeat split; assumption).
    replace (a =? DOT) with false by lia. reflexivity.
  - rewrite !get_pre by (cbn [length app]; lia). cbn [nth app].
    destruct ((a =? DOT) && (b =? DOT)) eqn:E; [|reflexivity].
    apply andb_true_iff in E as [Ea Eb]. apply Z.eqb_eq in Ea, Eb. subst. discriminate.
  - rewrite !get_pre by (cbn [length app]; lia). cbn [nth app].
    unfold sepfree, nonzero in *. inversion Hs; subst. inversion H2; subst. inversion H4; subst.
    inversion Hz; subst. inversion H8; subst. inversion H10; subst.
    replace (c =? SEP) with false by lia. replace (c =? 0) with false by lia. rewrite andb_false_r. reflexivity.
Qed.

(* what can follow the leading ".." fields *)
Definition Xok (X : list elem) : Prop :=
  nonzero (join_elems X) /\ (X = [] \/ X = [[]] \/ X = [[DOT]] \/ exists n X', X = n :: X' /\ nm n).

Lemma root_scan_D : forall D pre X junk fuel, allDD D ->
  Xok X ->
  (length D < fuel)%nat ->
  root_dotdot_scan fuel ((pre ++ join_elems (D ++ X)) ++ 0 :: junk)
                   (Z.of_nat (length (pre ++ join_elems (D ++ X)))) (Z.of_nat (length pre))
  = Some (Z.of_nat (length (pre ++ join_elems (D ++ X)) - length (join_elems X))).
Proof.
  induction D as [|d D IH]; intros pre X junk fuel HD HX Hf.
  - (* nothing (more) to strip *)
    destruct fuel as [|f]; [lia|]. cbn [app root_dotdot_scan].
    replace (length (pre ++ join_elems X) - length (join_elems X))%nat with (length pre) by (rewrite app_length; lia).
    destruct HX as (Hz & [-> | [-> | [-> | (n & X' & -> & Hn)]]]).
    + cbn [join_elems]. rewrite app_nil_r. replace (Z.of_nat (length pre) <? Z.of_nat (length pre)) with false by lia. reflexivity.
    + cbn [join_elems]. rewrite app_nil_r. replace (Z.of_nat (length pre) <? Z.of_nat (length pre)) with false by lia. reflexivity.
    + cbn [join_elems]. change 1 with (Z.of_nat 1). rewrite (get_pre pre [DOT] junk 1) by (cbn; lia). cbn [nth].
      replace (0 =? DOT) with false by reflexivity. rewrite !andb_false_r. reflexivity.
    + assert (EJ : exists rest, join_elems (n :: X') = n ++ rest /\ nonzero rest /\ (rest = [] \/ hd 0 rest = SEP)).
      { destruct X' as [|x X''].
        - exists []. rewrite app_nil_r. repeat split; [constructor|left; reflexivity].
        - exists (SEP :: join_elems (x :: X'')). repeat split; [|right; reflexivity].
          change (join_elems (n :: x :: X'')) with (n ++ SEP :: join_elems (x :: X'')) in Hz.
          unfold nonzero in *. apply Forall_app in Hz. apply Hz. }
      destruct EJ as (rest & -> & Hrz & Hrest).
      rewrite <- andb_assoc. rewrite <- andb_assoc.
      replace ((get ((pre ++ n ++ rest) ++ 0 :: junk) (Z.of_nat (length pre)) =? DOT) &&
               ((get ((pre ++ n ++ rest) ++ 0 :: junk) (Z.of_nat (length pre) + 1) =? DOT) &&
                ((get ((pre ++ n ++ rest) ++ 0 :: junk) (Z.of_nat (length pre) + 2) =? SEP) ||
                 (get ((pre ++ n ++ rest) ++ 0 :: junk) (Z.of_nat (length pre) + 2) =? 0)))) with false.
      * rewrite andb_false_r. reflexivity.
      * symmetry. rewrite andb_assoc. apply nm_first_not_dd; assumption.
  - inversion HD; subst. destruct fuel as [|f]; [lia|]. cbn [length] in Hf.
    cbn [root_dotdot_scan].
    set (T := pre ++ join_elems ((DD :: D) ++ X)).
    destruct (D ++ X) as [|y Y] eqn:EY.
    + (* the last ".." with nothing after it *)
      apply app_eq_nil in EY as [-> ->]. cbn [app join_elems length] in *.
      assert (ET : T = pre ++ DD) by reflexivity.
      replace (Z.of_nat (length pre)) with (Z.of_nat (length pre) + Z.of_nat 0) at 2 by lia.
      change 1 with (Z.of_nat 1). change 2 with (Z.of_nat 2).
      rewrite ET. unfold DD. rewrite !get_pre by (cbn; lia). cbn [nth].
      replace (Z.of_nat (length pre) <? Z.of_nat (length (pre ++ [DOT; DOT]))) with true by (rewrite app_length; cbn [length]; lia).
      rewrite !Z.eqb_refl. replace (0 =? SEP) with false by reflexivity. cbn [andb orb].
      destruct f as [|f']; [lia|]. cbn [root_dotdot_scan].
      replace (Z.of_nat (length pre) + Z.of_nat 2 <? Z.of_nat (length (pre ++ [DOT; DOT]))) with false
        by (rewrite app_length; cbn [length]; lia).
      cbn [andb]. f_equal. rewrite app_length. cbn [length]. lia.
    + assert (EJ : join_elems ((DD :: D) ++ X) = DD ++ SEP :: join_elems (D ++ X)).
      { cbn [app]. rewrite EY. reflexivity. }
      assert (ET : T = pre ++ (DD ++ [SEP]) ++ join_elems (D ++ X)).
      { unfold T. rewrite EJ. rewrite <- !app_assoc. reflexivity. }
      assert (ET' : T = (pre ++ DD ++ [SEP]) ++ join_elems (D ++ X)) by (rewrite ET, <- !app_assoc; reflexivity).
      replace (Z.of_nat (length pre)) with (Z.of_nat (length pre) + Z.of_nat 0) at 2 by lia.
      change 1 with (Z.of_nat 1). change 2 with (Z.of_nat 2).
      rewrite ET. rewrite !get_pre by (unfold DD; rewrite !app_length; cbn [length]; lia). unfold DD. cbn [nth app].
      assert (L : Z.of_nat (length pre) <? Z.of_nat (length (pre ++ DOT :: DOT :: SEP :: join_elems (D ++ X))) = true)
        by (apply Z.ltb_lt; rewrite app_length; cbn [length]; lia).
      rewrite L. rewrite !Z.eqb_refl. cbn [andb orb].
      replace (Z.of_nat (length pre) + 3) with (Z.of_nat (length (pre ++ DD ++ [SEP]))) by (unfold DD; rewrite !app_length; cbn [length]; lia).
      change (pre ++ DOT :: DOT :: SEP :: join_elems (D ++ X)) with (pre ++ (DD ++ [SEP]) ++ join_elems (D ++ X)).
      rewrite <- ET. rewrite ET'. rewrite (IH (pre ++ DD ++ [SEP]) X junk f H2 HX ltac:(lia)). reflexivity.
Qed.

Lemma dd_join_len : forall A X, allDD A -> (2 * length A <= length (join_elems (A ++ X)))%nat.
Proof.
  induction A as [|a A IH]; intros X HA; [cbn; lia|].
  inversion HA; subst. specialize (IH X H2). cbn [app]. destruct (A ++ X) as [|y Y] eqn:E.
  - apply app_eq_nil in E as [-> _]. cbn. lia.
  - change (join_elems (DD :: y :: Y)) with (DD ++ SEP :: join_elems (y :: Y)).
    rewrite app_length. cbn [length DD] in *. lia.
Qed.

Lemma firstn_exact' : forall (A Bx : list Z) n, n = length A -> firstn n (A ++ Bx) = A.
Proof. intros; subst. apply firstn_exact. Qed.

Lemma skipn_exact : forall (A Bx : list Z) n, n = length A -> skipn n (A ++ Bx) = Bx.
Proof. intros; subst. rewrite skipn_app, skipn_all, Nat.sub_diag. reflexivity. Qed.

(* the third pass cuts the leading ".." fields out and then falls through to the tail rules *)
Lemma pass34_root_dd : forall d D X j junk, allDD (d :: D) -> Xok X ->
  Z.of_nat (length (SEP :: join_elems ((d :: D) ++ X)) + 2 + length junk) < W64 ->
  exists bufF, pass34 1 (Z.of_nat (length (SEP :: join_elems ((d :: D) ++ X))))
                      ((SEP :: join_elems ((d :: D) ++ X)) ++ 0 :: j :: junk) = Some bufF /\
               cstr bufF = ftxt (SEP :: join_elems X).
Proof.
  intros d D X j junk HD HX HW.
  set (T := SEP :: join_elems ((d :: D) ++ X)) in *.
  assert (EJ : exists mid, join_elems ((d :: D) ++ X) = mid ++ join_elems X /\ (2 <= length mid)%nat).
  { inversion HD; subst. destruct HX as (_ & [-> | [-> | [-> | (n & X' & -> & _)]]]).
    - exists (join_elems (DD :: D)). rewrite !app_nil_r. split; [reflexivity|].
      pose proof (dd_join_len (DD :: D) [] HD) as L. rewrite app_nil_r in L. cbn [length] in L. lia.
    - exists (body (DD :: D)). rewrite join_snoc. split; [reflexivity|]. rewrite body_length_cons. cbn. lia.
    - exists (body (DD :: D)). rewrite join_snoc. split; [reflexivity|]. rewrite body_length_cons. cbn. lia.
    - exists (body (DD :: D)). rewrite join_app_body by discriminate. split; [reflexivity|]. rewrite body_length_cons. cbn. lia. }
  destruct EJ as (mid & EJ & Hmid).
  assert (ET : T = ([SEP] ++ mid) ++ join_elems X) by (unfold T; rewrite EJ; reflexivity).
  set (st := length ([SEP] ++ mid)).
  assert (Hst : (st + length (join_elems X) = length T)%nat) by (rewrite ET, app_length; reflexivity).
  assert (Hst3 : (3 <= st)%nat) by (unfold st; rewrite app_length; cbn [length]; lia).
  assert (Hscan : root_dotdot_scan (S (length (T ++ 0 :: j :: junk))) (T ++ 0 :: j :: junk) (Z.of_nat (length T)) 1
                  = Some (Z.of_nat st)).
  { pose proof (root_scan_D (d :: D) [SEP] X (j :: junk) (S (length (T ++ 0 :: j :: junk))) HD HX) as Q.
    change ([SEP] ++ join_elems ((d :: D) ++ X)) with T in Q. change (Z.of_nat (length [SEP])) with 1 in Q.
    rewrite Q.
    - f_equal. f_equal. lia.
    - pose proof (dd_join_len (d :: D) X HD) as L. rewrite app_length. unfold T. cbn [length] in *. lia. }
  destruct HX as (HXz & _).
  unfold pass34. change (negb (1 =? 0)) with true. cbn [andb].
  assert (G0 : get (T ++ 0 :: j :: junk) (1 - 1) = SEP) by reflexivity.
  rewrite G0. change (is_sep SEP) with true. cbv iota. rewrite Hscan.
  replace (Z.of_nat st >? 1) with true by lia.
  destruct (join_elems X) as [|c JX] eqn:EX.
  - (* nothing left after the ".." fields *)
    cbn [length] in Hst.
    replace (Z.of_nat st <? Z.of_nat (length T)) with false by lia.
    eexists. split; [reflexivity|].
    destruct mid as [|m0 [|m1 mid']]; [cbn in Hmid; lia|cbn in Hmid; lia|].
    rewrite ET. rewrite app_nil_r. cbn [app].
    change (SEP :: m0 :: m1 :: mid' ++ 0 :: j :: junk) with ([SEP] ++ m0 :: (m1 :: mid' ++ 0 :: j :: junk)).
    change 1 with (Z.of_nat (length [SEP])). rewrite set_mid.
    destruct (mid' ++ 0 :: j :: junk) as [|y ys] eqn:E; [destruct mid'; discriminate|].
    change (Z.of_nat (length [SEP])) with (Z.of_nat (length [SEP])).
    apply (tail_txt [SEP] m1 (y :: ys)). repeat constructor. discriminate.
  - replace (Z.of_nat st <? Z.of_nat (length T)) with true by (cbn [length] in Hst; lia).
    eexists. split; [reflexivity|].
    assert (Esz1 : sz (Z.of_nat (length T) - Z.of_nat st) = Z.of_nat (length (c :: JX))).
    { rewrite sz_small by lia. lia. }
    assert (Esz2 : sz (sz (1 + Z.of_nat (length T)) - Z.of_nat st) = Z.of_nat (length ([SEP] ++ c :: JX))).
    { rewrite (sz_small (1 + Z.of_nat (length T))) by lia. rewrite sz_small by (cbn [length app] in *; lia).
      cbn [length app] in *. lia. }
    rewrite Esz1, Esz2.
    assert (Emm : exists x y rest', memmove (T ++ 0 :: j :: junk) 1 (Z.of_nat st) (Z.of_nat (length (c :: JX)))
                   = ([SEP] ++ c :: JX) ++ x :: y :: rest').
    { unfold memmove. rewrite !Nat2Z.id. change (Z.to_nat 1) with 1%nat.
      assert (Esk : skipn st (T ++ 0 :: j :: junk) = (c :: JX) ++ 0 :: j :: junk).
      { rewrite ET, <- app_assoc. apply skipn_exact. reflexivity. }
      rewrite Esk, firstn_exact.
      remember (skipn (1 + length (c :: JX)) (T ++ 0 :: j :: junk)) as rest eqn:Er.
      assert (Lr : length rest = (length T + 2 + length junk - (1 + length (c :: JX)))%nat).
      { rewrite Er, skipn_length, app_length. cbn [length]. lia. }
      destruct rest as [|x [|y rest']]; [cbn [length] in *; lia|cbn [length] in *; lia|].
      exists x, y, rest'. unfold T. cbn [app firstn]. reflexivity. }
    destruct Emm as (x & y & rest' & ->). rewrite set_mid.
    apply (tail_txt ([SEP] ++ c :: JX) y rest'). constructor; [discriminate|exact HXz].
Qed.

(* ---- the spec machine on  dot-dots ++ names ++ tail -------------------------------------------------- *)
Lemma fold_names : forall R N out t, allnm N ->
  fold_left (norm_step R) N (out, t) = (rev N ++ out, match N with [] => t | _ => false end).
Proof.
  induction N as [|n N IH]; intros out t HN; [reflexivity|].
  inversion HN; subst. pose proof (nm_proper n H1) as P. cbn [fold_left].
  assert (S1 : norm_step R (out, t) n = (n :: out, false)).
  { unfold norm_step. rewrite (proper_not_empty n P), (proper_not_dot n P), (proper_not_dotdot n P). reflexivity. }
  rewrite S1, IH by assumption. cbn [rev]. rewrite <- app_assoc. cbn [app].
  destruct N; reflexivity.
Qed.

Lemma fold_D_true : forall D t, allDD D -> fst (fold_left (norm_step true) D ([], t)) = [].
Proof.
  induction D as [|d D IH]; intros t HD; [reflexivity|]. inversion HD; subst. cbn [fold_left].
  change (norm_step true ([], t) DD) with (@nil elem, true). apply IH. assumption.
Qed.

Lemma fold_D_false : forall D out t, allDD D -> forallb is_dotdot out = true ->
  fst (fold_left (norm_step false) D (out, t)) = rev D ++ out.
Proof.
  induction D as [|d D IH]; intros out t HD Ho; [reflexivity|]. inversion HD; subst. cbn [fold_left].
  assert (S1 : norm_step false (out, t) DD = (DD :: out, false)).
  { unfold norm_step. cbn [is_empty DD is_dot is_dotdot bytes_eqb]. destruct out as [|x out']; [reflexivity|].
    cbn in Ho. apply andb_true_iff in Ho as [Hx _]. rewrite Hx. reflexivity. }
  rewrite S1, IH; [|assumption|cbn; exact Ho]. cbn [rev]. rewrite <- app_assoc. reflexivity.
Qed.

Lemma allDD_rev : forall D, allDD D -> rev D = D.
Proof.
  intros D HD. assert (E : D = repeat DD (length D)).
  { induction D as [|d D IH]; [reflexivity|]. inversion HD; subst. cbn. f_equal. apply IH. assumption. }
  rewrite E. apply rev_repeat.
Qed.

Lemma allDD_forallb : forall D, allDD D -> forallb is_dotdot D = true.
Proof. induction D as [|d D IH]; intro H; [reflexivity|]. inversion H; subst. cbn. apply IH. assumption. Qed.

Definition tln (tl : list elem) : list elem := match tl with [] => [] | _ => [[]] end.

Lemma machine_dn : forall R D N tl, allDD D -> allnm N -> tlok tl ->
  normal_elems R (D ++ N ++ tl) =
  match N with
  | [] => if R then [] else match D with [] => [[DOT]] | _ => D end
  | _ => (if R then [] else D) ++ N ++ tln tl
  end.
Proof.
  intros R D N tl HD HN Htl. unfold normal_elems. rewrite !fold_left_app.
  destruct (fold_left (norm_step R) D ([], false)) as [oD tD] eqn:ED.
  assert (EoD : oD = if R then [] else rev D).
  { destruct R.
    - pose proof (fold_D_true D false HD) as Q. rewrite ED in Q. exact Q.
    - pose proof (fold_D_false D [] false HD eq_refl) as Q. rewrite ED, app_nil_r in Q. exact Q. }
  rewrite fold_names by exact HN.
  destruct N as [|n0 N0].
  - cbn [rev app]. assert (Eo : fst (fold_left (norm_step R) tl (oD, tD)) = oD).
    { destruct Htl as [-> | [-> | ->]]; reflexivity. }
    destruct (fold_left (norm_step R) tl (oD, tD)) as [o2 t2]. cbn [fst] in Eo. subst o2.
    unfold norm_finish. rewrite EoD. destruct R; [reflexivity|].
    destruct D as [|d D']; [reflexivity|]. inversion HD; subst.
    rewrite (allDD_rev (DD :: D') HD). change (is_dotdot DD) with true. cbv iota. apply (allDD_rev (DD :: D') HD).
  - destruct (exists_last (l := n0 :: N0) ltac:(discriminate)) as (N' & n & EN). rewrite EN in *.
    assert (Hn : nm n) by (apply Forall_app in HN as [_ A]; inversion A; assumption).
    pose proof (nm_proper n Hn) as P.
    assert (E2 : fold_left (norm_step R) tl (rev (N' ++ [n]) ++ oD, false) =
                 (rev (N' ++ [n]) ++ oD, match tl with [] => false | _ => true end)).
    { destruct Htl as [-> | [-> | ->]]; reflexivity. }
    destruct (N' ++ [n]) eqn:E0; [destruct N'; discriminate|]. rewrite <- E0 in *. rewrite E2.
    unfold norm_finish. rewrite rev_app_distr. cbn [rev app]. rewrite (proper_not_dotdot n P).
    assert (Erev : rev (rev N' ++ oD) = (if R then [] else D) ++ N').
    { rewrite rev_app_distr, rev_involutive, EoD. destruct R; [reflexivity|]. rewrite rev_involutive. reflexivity. }
    rewrite Erev. destruct Htl as [-> | [-> | ->]]; cbn [tln]; rewrite <- ?app_assoc; rewrite ?app_nil_r; reflexivity.
Qed.

Lemma machine_drop_dd : forall D N tl, allDD D -> allnm N -> tlok tl ->
  normal_elems true (D ++ N ++ tl) = normal_elems true ([] ++ N ++ tl).
Proof.
  intros D N tl HD HN Htl. rewrite !machine_dn by (assumption || constructor). destruct N; reflexivity.
Qed.



(* ---- the tail rules on the text after the second pass ------------------------------------------------ *)
Lemma rule1_fire : forall A, rule1 (A ++ [SEP; DOT]) = A ++ [SEP].
Proof.
  intro A. unfold rule1. rewrite rev_app_distr. cbn [rev app]. rewrite !Z.eqb_refl. cbn [andb].
  rewrite rev_involutive. reflexivity.
Qed.

Lemma rule1_keep : forall A y, (forall A' e, A = A' ++ [e] -> ~ (e = SEP /\ y = DOT)) ->
  rule1 (A ++ [y]) = A ++ [y].
Proof.
  intros A y Hc. unfold rule1. rewrite rev_app_distr. cbn [rev app].
  destruct (rev A) as [|e t'] eqn:E; [reflexivity|].
  assert (EA : A = rev t' ++ [e]) by (rewrite <- (rev_involutive A), E; reflexivity).
  destruct ((e =? SEP) && (y =? DOT)) eqn:R1; [|reflexivity].
  exfalso. apply (Hc (rev t') e EA). lia.
Qed.

Lemma rule2_fire : forall A, (A = [] \/ exists A', A = A' ++ [SEP]) ->
  rule2 (A ++ [DOT; DOT; SEP]) = A ++ [DOT; DOT].
Proof.
  intros A HA. unfold rule2. rewrite rev_app_distr. cbn [rev app]. rewrite !Z.eqb_refl. cbn [andb].
  assert (E : match rev A with [] => true | g :: _ => g =? SEP end = true).
  { destruct HA as [-> | [A' ->]]; [reflexivity|]. rewrite rev_app_distr. cbn. reflexivity. }
  rewrite E. cbn [rev]. rewrite rev_involutive, <- app_assoc. reflexivity.
Qed.

Lemma rule2_keep_last : forall A y, y <> SEP -> rule2 (A ++ [y]) = A ++ [y].
Proof.
  intros A y Hy. unfold rule2. rewrite rev_app_distr. cbn [rev app].
  destruct (rev A) as [|e [|f rest]]; [reflexivity|reflexivity|].
  replace (y =? SEP) with false by lia. rewrite andb_false_r. reflexivity.
Qed.

Lemma rule2_keep_sep : forall A y,
  (forall A', A = A' ++ [DOT] -> y = DOT -> ~ (A' = [] \/ exists A'', A' = A'' ++ [SEP])) ->
  rule2 (A ++ [y; SEP]) = A ++ [y; SEP].
Proof.
  intros A y Hc. unfold rule2. rewrite rev_app_distr. cbn [rev app].
  destruct (rev A) as [|f rest] eqn:E; [reflexivity|].
  assert (EA : A = rev rest ++ [f]) by (rewrite <- (rev_involutive A), E; reflexivity).
  destruct ((f =? DOT) && (y =? DOT) && (SEP =? SEP) && match rest with [] => true | g :: _ => g =? SEP end) eqn:R2;
    [|reflexivity].
  exfalso. apply andb_true_iff in R2 as [R2 R3]. apply andb_true_iff in R2 as [R2 _]. apply andb_true_iff in R2 as [Rf Ry].
  apply Z.eqb_eq in Rf, Ry. subst f. apply (Hc (rev rest) EA Ry).
  destruct rest as [|g rest']; [left; reflexivity|right]. apply Z.eqb_eq in R3. subst g.
  exists (rev rest'). reflexivity.
Qed.

Lemma rule3_ne : forall T, T <> [] -> rule3 T = T.
Proof. intros T H. destruct T; [congruence|reflexivity]. Qed.

(* a text ending in a name followed by a separator is left alone by rules 2 and 3 *)
Lemma rules23_name_sep : forall P n, nm n -> (P = [] \/ exists P', P = P' ++ [SEP]) ->
  rule3 (rule2 (P ++ n ++ [SEP])) = P ++ n ++ [SEP].
Proof.
  intros P n Hn HP. pose proof Hn as ((Hs & Hz & Hne) & Hin).
  destruct (last_not_sep n Hs Hne) as (n' & y & En & Hy).
  replace (P ++ n ++ [SEP]) with ((P ++ n') ++ [y; SEP]) by (rewrite En, <- !app_assoc; reflexivity).
  rewrite rule2_keep_sep.
  - apply rule3_ne. destruct (P ++ n'); discriminate.
  - intros A' EA Hyd Hw. subst y.
    destruct n' as [|c n''] using rev_ind.
    + apply (name_single DOT); [|reflexivity]. cbn [app] in En. rewrite <- En. exact Hn.
    + clear IHn''. rewrite app_assoc in EA. apply app_inj_tail in EA as [EA' Ec]. subst c.
      destruct n'' as [|c2 n3] using rev_ind.
      * (* n = ".." *) apply (nm_not_dd n Hn). rewrite En. reflexivity.
      * clear IHn3. destruct Hw as [-> | [A'' ->]].
        -- rewrite app_assoc in EA'. destruct (P ++ n3); discriminate.
        -- rewrite app_assoc in EA'. apply app_inj_tail in EA' as [_ Ec2]. subst c2.
           unfold sepfree in Hs. rewrite En in Hs. rewrite !Forall_app in Hs. destruct Hs as [[[_ Hs] _] _].
           inversion Hs; subst. congruence.
Qed.

Lemma final_text : forall k D N tl, (k = 0 \/ k = 1) -> allDD D -> allnm N -> tlok tl -> (k = 0 \/ D = []) ->
  ftxt (TX k (D ++ N ++ tl)) = render (k =? 1) (normal_elems (k =? 1) (D ++ N ++ tl)).
Proof.
  intros k D N tl Hk HD HN Htl HkD. rewrite machine_dn by assumption. unfold ftxt.
  destruct N as [|n0 N0].
  - (* no names *)
    cbn [app]. destruct D as [|d0 D0].
    + cbn [app]. destruct Hk as [-> | ->]; destruct Htl as [-> | [-> | ->]]; reflexivity.
    + destruct HkD as [-> | A]; [|discriminate]. change (0 =? 1) with false. cbv iota.
      destruct (exists_last (l := d0 :: D0) ltac:(discriminate)) as (D' & d & ED). rewrite ED in *.
      assert (d = DD) as -> by (apply Forall_app in HD as [_ A]; inversion A; assumption).
      assert (HP : body D' = [] \/ exists P', body D' = P' ++ [SEP]).
      { destruct D' as [|x D''] using rev_ind; [left; reflexivity|right]. rewrite body_snoc.
        exists (body D'' ++ x). rewrite <- app_assoc. reflexivity. }
      destruct (D' ++ [DD]) eqn:E0; [destruct D'; discriminate|]. rewrite <- E0.
      unfold TX, render. change (root_acc 0) with (@nil Z). cbn [app].
      assert (EJ : join_elems (D' ++ [DD]) = body D' ++ [DOT; DOT]) by apply join_snoc.
      destruct Htl as [-> | [-> | ->]].
      * rewrite app_nil_r, EJ.
        replace (body D' ++ [DOT; DOT]) with ((body D' ++ [DOT]) ++ [DOT]) by (rewrite <- app_assoc; reflexivity).
        rewrite rule1_keep.
        -- rewrite rule2_keep_last by discriminate. apply rule3_ne. destruct (body D' ++ [DOT]); discriminate.
        -- intros A' e' EA [He _]. apply app_inj_tail in EA as [_ <-]. discriminate.
      * rewrite join_snoc, app_nil_r, body_snoc. change (DD ++ [SEP]) with [DOT; DOT; SEP].
        replace (body D' ++ [DOT; DOT; SEP]) with ((body D' ++ [DOT; DOT]) ++ [SEP]) by (rewrite <- app_assoc; reflexivity).
        rewrite rule1_keep.
        -- rewrite <- app_assoc. cbn [app]. rewrite rule2_fire by exact HP. rewrite EJ.
           apply rule3_ne. destruct (body D'); discriminate.
        -- intros A' e' _ [_ A]. discriminate.
      * rewrite join_snoc, body_snoc. change (DD ++ [SEP]) with [DOT; DOT; SEP].
        replace ((body D' ++ [DOT; DOT; SEP]) ++ [DOT]) with ((body D' ++ [DOT; DOT]) ++ [SEP; DOT])
          by (rewrite <- !app_assoc; reflexivity).
        rewrite rule1_fire. rewrite <- app_assoc. cbn [app]. rewrite rule2_fire by exact HP. rewrite EJ.
        apply rule3_ne. destruct (body D'); discriminate.
  - (* some names *)
    assert (ER : (if k =? 1 then [] else D) = D).
    { destruct HkD as [-> | ->]; [reflexivity|destruct (k =? 1); reflexivity]. }
    rewrite ER.
    assert (EK : forall F, render (k =? 1) F = TX k F).
    { intro F. unfold render, TX. destruct Hk as [-> | ->]; reflexivity. }
    rewrite EK.
    destruct (exists_last (l := n0 :: N0) ltac:(discriminate)) as (N' & n & EN). rewrite EN in *.
    assert (Hn : nm n) by (apply Forall_app in HN as [_ A]; inversion A; assumption).
    pose proof Hn as ((Hs & Hz & Hne) & Hin).
    set (P := root_acc k ++ body (D ++ N')).
    assert (HP : P = [] \/ exists P', P = P' ++ [SEP]) by (apply pre_body; exact Hk).
    assert (ET0 : TX k (D ++ (N' ++ [n]) ++ []) = P ++ n).
    { unfold TX, P. rewrite app_nil_r, app_assoc, join_snoc, <- app_assoc. reflexivity. }
    assert (ET1 : TX k (D ++ (N' ++ [n]) ++ [[]]) = P ++ n ++ [SEP]).
    { unfold TX, P. rewrite (app_assoc D), join_snoc, app_nil_r, (app_assoc D N' [n]), body_snoc. rewrite <- !app_assoc. reflexivity. }
    destruct Htl as [-> | [-> | ->]]; cbn [tln].
    + rewrite ET0. destruct (last_not_sep n Hs Hne) as (n' & y & En & Hy).
      replace (P ++ n) with ((P ++ n') ++ [y]) by (rewrite En, <- app_assoc; reflexivity).
      rewrite rule1_keep.
      * rewrite rule2_keep_last by exact Hy. apply rule3_ne. destruct (P ++ n'); discriminate.
      * intros A' e EA [He Hyd]. subst e y.
        destruct n' as [|c n''] using rev_ind.
        -- apply (name_single DOT); [|reflexivity]. cbn [app] in En. rewrite <- En. exact Hn.
        -- clear IHn''. rewrite app_assoc in EA. apply app_inj_tail in EA as [_ EA]. subst c.
           unfold sepfree in Hs. rewrite En in Hs. rewrite !Forall_app in Hs. destruct Hs as [[_ Hs] _].
           inversion Hs; subst. congruence.
    + rewrite ET1.
      replace (P ++ n ++ [SEP]) with ((P ++ n) ++ [SEP]) by (rewrite <- app_assoc; reflexivity).
      rewrite rule1_keep by (intros A' e _ [_ A]; discriminate).
      rewrite <- app_assoc. apply rules23_name_sep; assumption.
    + assert (ET2 : TX k (D ++ (N' ++ [n]) ++ [[DOT]]) = (P ++ n) ++ [SEP; DOT]).
      { unfold TX, P. rewrite (app_assoc D), join_snoc, (app_assoc D N' [n]), body_snoc. rewrite <- !app_assoc. reflexivity. }
      rewrite ET2, rule1_fire, ET1. rewrite <- app_assoc. apply rules23_name_sep; assumption.
Qed.
