(* C11 — third pass and tail rules on a text buffer; assembly of the theorem for `plain`. *)
From Coq Require Import ZArith List Bool Lia ZifyBool.
From Zix Require Import PathNormSpec PathNormModel PathNormProofsSpec PathNormProofsModel PathNormProofsDD.
Import ListNotations.
Local Open Scope Z_scope.

Lemma cstr_txt : forall T junk, nonzero T -> cstr (T ++ 0 :: junk) = T.
Proof.
  induction T as [|c T IH]; intros junk H; [reflexivity|].
  pose proof (Forall_inv H) as Hc. cbv beta in Hc. cbn [app cstr]. replace (c =? 0) with false by lia.
  f_equal. apply IH. apply (Forall_inv_tail H).
Qed.

(* ---- the tail rules on  T ++ NUL :: junk ---------------------------------------------------------- *)
Definition ftxt (T : list Z) : list Z :=
  match rev T with
  | [] => [DOT]
  | [d] => T
  | d :: e :: t' =>
      if (e =? SEP) && (d =? DOT) then rev (e :: t')
      else match t' with
           | f :: _ => if (f =? DOT) && (e =? DOT) && (d =? SEP) then rev (e :: t') else T
           | [] => T
           end
  end.

Lemma get_last1 : forall A d junk, get ((A ++ [d]) ++ 0 :: junk) (Z.of_nat (length (A ++ [d])) - 1) = d.
Proof.
  intros. replace (Z.of_nat (length (A ++ [d])) - 1) with (Z.of_nat (length A)) by (rewrite app_length; cbn [length]; lia).
  rewrite get_txt_nat by (rewrite app_length; lia). rewrite app_nth2 by lia.
  rewrite Nat.sub_diag. reflexivity.
Qed.

Lemma get_last2 : forall A e d junk, get ((A ++ [e; d]) ++ 0 :: junk) (Z.of_nat (length (A ++ [e; d])) - 2) = e.
Proof.
  intros. replace (Z.of_nat (length (A ++ [e; d])) - 2) with (Z.of_nat (length A)) by (rewrite app_length; cbn [length]; lia).
  rewrite get_txt_nat by (rewrite app_length; lia). rewrite app_nth2 by lia.
  rewrite Nat.sub_diag. reflexivity.
Qed.

Lemma get_last3 : forall A f e d junk,
  get ((A ++ [f; e; d]) ++ 0 :: junk) (Z.of_nat (length (A ++ [f; e; d])) - 3) = f.
Proof.
  intros. replace (Z.of_nat (length (A ++ [f; e; d])) - 3) with (Z.of_nat (length A)) by (rewrite app_length; cbn [length]; lia).
  rewrite get_txt_nat by (rewrite app_length; lia). rewrite app_nth2 by lia.
  rewrite Nat.sub_diag. reflexivity.
Qed.

Lemma set_last_nul : forall A d junk,
  set ((A ++ [d]) ++ 0 :: junk) (Z.of_nat (length (A ++ [d])) - 1) 0 = A ++ 0 :: 0 :: junk.
Proof.
  intros. replace (Z.of_nat (length (A ++ [d])) - 1) with (Z.of_nat (length A)) by (rewrite app_length; cbn [length]; lia).
  rewrite <- app_assoc. cbn [app]. apply set_mid.
Qed.

Lemma tail_final : forall T j junk, nonzero T ->
  cstr (if get (T ++ 0 :: j :: junk) 0 =? 0 then set (set (T ++ 0 :: j :: junk) 0 DOT) 1 0 else T ++ 0 :: j :: junk)
  = match T with [] => [DOT] | _ => T end.
Proof.
  intros T j junk H. destruct T as [|c T'].
  - reflexivity.
  - pose proof (Forall_inv H) as Hc. cbv beta in Hc. unfold get. cbn [Z.ltb Z.compare Z.to_nat app nth].
    replace (c =? 0) with false by lia.
    apply (cstr_txt (c :: T')). exact H.
Qed.

Lemma tail_final_ne : forall T j junk, nonzero T -> T <> [] ->
  cstr (if get (T ++ 0 :: j :: junk) 0 =? 0 then set (set (T ++ 0 :: j :: junk) 0 DOT) 1 0 else T ++ 0 :: j :: junk) = T.
Proof. intros T j junk H N. rewrite tail_final by exact H. destruct T; [congruence|reflexivity]. Qed.

Lemma get_last1_2 : forall A e d junk, get ((A ++ [e; d]) ++ 0 :: junk) (Z.of_nat (length (A ++ [e; d])) - 1) = d.
Proof. intros. replace (A ++ [e; d]) with ((A ++ [e]) ++ [d]) by (rewrite <- app_assoc; reflexivity). apply get_last1. Qed.

Lemma get_last1_3 : forall A f e d junk, get ((A ++ [f; e; d]) ++ 0 :: junk) (Z.of_nat (length (A ++ [f; e; d])) - 1) = d.
Proof. intros. replace (A ++ [f; e; d]) with ((A ++ [f; e]) ++ [d]) by (rewrite <- app_assoc; reflexivity). apply get_last1. Qed.

Lemma get_last2_3 : forall A f e d junk, get ((A ++ [f; e; d]) ++ 0 :: junk) (Z.of_nat (length (A ++ [f; e; d])) - 2) = e.
Proof. intros. replace (A ++ [f; e; d]) with ((A ++ [f]) ++ [e; d]) by (rewrite <- app_assoc; reflexivity). apply get_last2. Qed.

Lemma set_last_nul_2 : forall A e d junk,
  set ((A ++ [e; d]) ++ 0 :: junk) (Z.of_nat (length (A ++ [e; d])) - 1) 0 = (A ++ [e]) ++ 0 :: 0 :: junk.
Proof. intros. replace (A ++ [e; d]) with ((A ++ [e]) ++ [d]) by (rewrite <- app_assoc; reflexivity). apply set_last_nul. Qed.

Lemma tail_txt : forall T j junk, nonzero T ->
  cstr (tail_rules (Z.of_nat (length T)) (T ++ 0 :: j :: junk)) = ftxt T.
Proof.
  intros T j junk HZ. unfold tail_rules, ftxt, is_sep.
  destruct T as [|d T1] using rev_ind.
  - cbn [rev]. cbn [length Z.of_nat Z.geb Z.compare andb]. apply (tail_final [] j junk). constructor.
  - clear IHT1. rewrite rev_app_distr. cbn [rev app].
    destruct T1 as [|e T2] using rev_ind.
    + cbn [rev app]. cbn [length app Z.of_nat Pos.of_succ_nat Z.geb Z.compare andb].
      apply (tail_final [d] j junk). exact HZ.
    + clear IHT2. rewrite rev_app_distr. cbn [rev app].
      assert (E2 : (T2 ++ [e]) ++ [d] = T2 ++ [e; d]) by (rewrite <- app_assoc; reflexivity).
      rewrite E2 in *.
      replace (Z.of_nat (length (T2 ++ [e; d])) >=? 2) with true by (rewrite app_length; cbn [length]; lia).
      cbn [andb]. rewrite get_last2, get_last1_2.
      destruct ((e =? SEP) && (d =? DOT)) eqn:R1.
      * (* rule 1: trailing "/." *)
        rewrite set_last_nul_2.
        assert (G : get ((T2 ++ [e]) ++ 0 :: 0 :: j :: junk) (Z.of_nat (length (T2 ++ [e; d])) - 1) = 0).
        { replace (Z.of_nat (length (T2 ++ [e; d])) - 1) with (Z.of_nat (length (T2 ++ [e])))
            by (rewrite !app_length; cbn [length]; lia).
          rewrite get_txt_nat by lia. apply nth_overflow. lia. }
        rewrite G. replace (0 =? SEP) with false by reflexivity. rewrite !andb_false_r.
        rewrite (tail_final (T2 ++ [e]) 0 (j :: junk)).
        -- cbn [rev]. rewrite rev_involutive. destruct (T2 ++ [e]) eqn:E; [destruct T2; discriminate|reflexivity].
        -- unfold nonzero in *. rewrite Forall_app in *. destruct HZ as [H1 H2]. split; [exact H1|].
           inversion H2; subst. constructor; [assumption|constructor].
      * (* rule 1 does not fire *)
        assert (R2 : (Z.of_nat (length (T2 ++ [e; d])) >=? 3) &&
                     (get ((T2 ++ [e; d]) ++ 0 :: j :: junk) (Z.of_nat (length (T2 ++ [e; d])) - 3) =? DOT) &&
                     (get ((T2 ++ [e; d]) ++ 0 :: j :: junk) (Z.of_nat (length (T2 ++ [e; d])) - 2) =? DOT) &&
                     (get ((T2 ++ [e; d]) ++ 0 :: j :: junk) (Z.of_nat (length (T2 ++ [e; d])) - 1) =? SEP) =
                     match rev T2 with f :: _ => (f =? DOT) && (e =? DOT) && (d =? SEP) | [] => false end).
        { destruct T2 as [|f T3] using rev_ind.
          - cbn [rev]. cbn [length app Z.of_nat Pos.of_succ_nat Z.geb Z.compare andb]. reflexivity.
          - clear IHT3. rewrite rev_app_distr. cbn [rev app].
            assert (E3 : (T3 ++ [f]) ++ [e; d] = T3 ++ [f; e; d]) by (rewrite <- app_assoc; reflexivity).
            rewrite E3. rewrite get_last3, get_last2_3, get_last1_3.
            replace (Z.of_nat (length (T3 ++ [f; e; d])) >=? 3) with true by (rewrite app_length; cbn [length]; lia).
            reflexivity. }
        rewrite R2.
        destruct (rev T2) as [|f t''] eqn:ER.
        -- apply (tail_final_ne (T2 ++ [e; d]) j junk); [exact HZ|destruct T2; discriminate].
        -- destruct ((f =? DOT) && (e =? DOT) && (d =? SEP)) eqn:R3.
           ++ rewrite set_last_nul_2.
              rewrite (tail_final (T2 ++ [e]) 0 (j :: junk)).
              ** rewrite <- ER, rev_involutive. destruct (T2 ++ [e]) eqn:E; [destruct T2; discriminate|reflexivity].
              ** unfold nonzero in *. rewrite Forall_app in *. destruct HZ as [H1 H2]. split; [exact H1|].
                 inversion H2; subst. constructor; [assumption|constructor].
           ++ apply (tail_final_ne (T2 ++ [e; d]) j junk); [exact HZ|destruct T2; discriminate].
Qed.

(* ---- third pass: dot-dot fields directly under the root ------------------------------------------- *)
Lemma get_pre : forall pre X junk j, (j <= length X)%nat ->
  get ((pre ++ X) ++ 0 :: junk) (Z.of_nat (length pre) + Z.of_nat j) = nth j X 0.
Proof.
  intros pre X junk j H. replace (Z.of_nat (length pre) + Z.of_nat j) with (Z.of_nat (length pre + j)) by lia.
  rewrite get_txt_nat by (rewrite app_length; lia). apply app_nth2_plus.
Qed.

Lemma nm_first_not_dd : forall n rest junk pre, nm n -> nonzero rest -> (rest = [] \/ hd 0 rest = SEP) ->
  ((get ((pre ++ n ++ rest) ++ 0 :: junk) (Z.of_nat (length pre)) =? DOT) &&
   (get ((pre ++ n ++ rest) ++ 0 :: junk) (Z.of_nat (length pre) + 1) =? DOT) &&
   ((get ((pre ++ n ++ rest) ++ 0 :: junk) (Z.of_nat (length pre) + 2) =? SEP) ||
    (get ((pre ++ n ++ rest) ++ 0 :: junk) (Z.of_nat (length pre) + 2) =? 0))) = false.
Proof.
  intros n rest junk pre ((Hs & Hz & Hne) & Hn) Hrz Hrest.
  replace (Z.of_nat (length pre)) with (Z.of_nat (length pre) + Z.of_nat 0) at 1 by lia.
  change 1 with (Z.of_nat 1). change 2 with (Z.of_nat 2).
  destruct n as [|a [|b [|c n']]]; [congruence| | |].
  - rewrite get_pre by (cbn; lia). cbn [nth app]. unfold isname in Hn. cbn in Hn. rewrite orb_false_r in Hn.
    unfold nsd in Hn. apply andb_true_iff in Hn as [_ Hn]. apply negb_true_iff in Hn. rewrite Hn. reflexivity.
  - rewrite !get_pre by (cbn [length app]; lia). cbn [nth app].
    destruct ((a =? DOT) && (b =? DOT)) eqn:E; [|reflexivity].
    apply andb_true_iff in E as [Ea Eb]. apply Z.eqb_eq in Ea, Eb. subst. discriminate.
  - rewrite !get_pre by (cbn [length app]; lia). cbn [nth app].
    unfold sepfree, nonzero in *. inversion Hs; subst. inversion H2; subst. inversion H4; subst.
    inversion Hz; subst. inversion H8; subst. inversion H10; subst.
    replace (c =? SEP) with false by lia. replace (c =? 0) with false by lia. rewrite andb_false_r. reflexivity.
Qed.

Lemma root_scan_D : forall D pre X junk fuel, allDD D ->
  (X = [] \/ X = [[]] \/ exists n X', X = n :: X' /\ nm n /\ nonzero (join_elems X)) ->
  (length D < fuel)%nat ->
  root_dotdot_scan fuel ((pre ++ join_elems (D ++ X)) ++ 0 :: junk)
                   (Z.of_nat (length (pre ++ join_elems (D ++ X)))) (Z.of_nat (length pre))
  = Some (Z.of_nat (length (pre ++ join_elems (D ++ X)) - length (join_elems X))).
Proof.
  induction D as [|d D IH]; intros pre X junk fuel HD HX Hf.
  - (* nothing (more) to strip *)
    destruct fuel as [|f]; [lia|]. cbn [app root_dotdot_scan].
    replace (length (pre ++ join_elems X) - length (join_elems X))%nat with (length pre) by (rewrite app_length; lia).
    destruct HX as [-> | [-> | (n & X' & -> & Hn & Hz)]].
    + cbn [join_elems]. rewrite app_nil_r. replace (Z.of_nat (length pre) <? Z.of_nat (length pre)) with false by lia. reflexivity.
    + cbn [join_elems]. rewrite app_nil_r. replace (Z.of_nat (length pre) <? Z.of_nat (length pre)) with false by lia. reflexivity.
    + assert (EJ : exists rest, join_elems (n :: X') = n ++ rest /\ nonzero rest /\ (rest = [] \/ hd 0 rest = SEP)).
      { destruct X' as [|x X''].
        - exists []. rewrite app_nil_r. repeat split; [constructor|left; reflexivity].
        - exists (SEP :: join_elems (x :: X'')). repeat split; [|right; reflexivity].
          change (join_elems (n :: x :: X'')) with (n ++ SEP :: join_elems (x :: X'')) in Hz.
          unfold nonzero in *. apply Forall_app in Hz. apply Hz. }
      destruct EJ as (rest & -> & Hrz & Hrest).
      rewrite <- andb_assoc. rewrite <- andb_assoc.
      replace ((get ((pre ++ n ++ rest) ++ 0 :: junk) (Z.of_nat (length pre)) =? DOT) &&
               ((get ((pre ++ n ++ rest) ++ 0 :: junk) (Z.of_nat (length pre) + 1) =? DOT) &&
                ((get ((pre ++ n ++ rest) ++ 0 :: junk) (Z.of_nat (length pre) + 2) =? SEP) ||
                 (get ((pre ++ n ++ rest) ++ 0 :: junk) (Z.of_nat (length pre) + 2) =? 0)))) with false.
      * rewrite andb_false_r. reflexivity.
      * symmetry. rewrite andb_assoc. apply nm_first_not_dd; assumption.
  - inversion HD; subst. destruct fuel as [|f]; [lia|]. cbn [length] in Hf.
    cbn [root_dotdot_scan].
    set (T := pre ++ join_elems ((DD :: D) ++ X)).
    destruct (D ++ X) as [|y Y] eqn:EY.
    + (* the last ".." with nothing after it *)
      apply app_eq_nil in EY as [-> ->]. cbn [app join_elems length] in *.
      assert (ET : T = pre ++ DD) by reflexivity.
      replace (Z.of_nat (length pre)) with (Z.of_nat (length pre) + Z.of_nat 0) at 2 by lia.
      change 1 with (Z.of_nat 1). change 2 with (Z.of_nat 2).
      rewrite ET. unfold DD. rewrite !get_pre by (cbn; lia). cbn [nth].
      replace (Z.of_nat (length pre) <? Z.of_nat (length (pre ++ [DOT; DOT]))) with true by (rewrite app_length; cbn [length]; lia).
      rewrite !Z.eqb_refl. replace (0 =? SEP) with false by reflexivity. cbn [andb orb].
      destruct f as [|f']; [lia|]. cbn [root_dotdot_scan].
      replace (Z.of_nat (length pre) + Z.of_nat 2 <? Z.of_nat (length (pre ++ [DOT; DOT]))) with false
        by (rewrite app_length; cbn [length]; lia).
      cbn [andb]. f_equal. rewrite app_length. cbn [length]. lia.
    + assert (EJ : join_elems ((DD :: D) ++ X) = DD ++ SEP :: join_elems (D ++ X)).
      { cbn [app]. rewrite EY. reflexivity. }
      assert (ET : T = pre ++ (DD ++ [SEP]) ++ join_elems (D ++ X)).
      { unfold T. rewrite EJ. rewrite <- !app_assoc. reflexivity. }
      assert (ET' : T = (pre ++ DD ++ [SEP]) ++ join_elems (D ++ X)) by (rewrite ET, <- !app_assoc; reflexivity).
      replace (Z.of_nat (length pre)) with (Z.of_nat (length pre) + Z.of_nat 0) at 2 by lia.
      change 1 with (Z.of_nat 1). change 2 with (Z.of_nat 2).
      rewrite ET. rewrite !get_pre by (unfold DD; rewrite !app_length; cbn [length]; lia). unfold DD. cbn [nth app].
      assert (L : Z.of_nat (length pre) <? Z.of_nat (length (pre ++ DOT :: DOT :: SEP :: join_elems (D ++ X))) = true)
        by (apply Z.ltb_lt; rewrite app_length; cbn [length]; lia).
      rewrite L. rewrite !Z.eqb_refl. cbn [andb orb].
      replace (Z.of_nat (length pre) + 3) with (Z.of_nat (length (pre ++ DD ++ [SEP]))) by (unfold DD; rewrite !app_length; cbn [length]; lia).
      change (pre ++ DOT :: DOT :: SEP :: join_elems (D ++ X)) with (pre ++ (DD ++ [SEP]) ++ join_elems (D ++ X)).
      rewrite <- ET. rewrite ET'. rewrite (IH (pre ++ DD ++ [SEP]) X junk f H2 HX ltac:(lia)). reflexivity.
Qed.

Lemma dd_join_len : forall A X, allDD A -> (2 * length A <= length (join_elems (A ++ X)))%nat.
Proof.
  induction A as [|a A IH]; intros X HA; [cbn; lia|].
  inversion HA; subst. specialize (IH X H2). cbn [app]. destruct (A ++ X) as [|y Y] eqn:E.
  - apply app_eq_nil in E as [-> _]. cbn. lia.
  - change (join_elems (DD :: y :: Y)) with (DD ++ SEP :: join_elems (y :: Y)).
    rewrite app_length. cbn [length DD] in *. lia.
Qed.

Lemma firstn_exact' : forall (A Bx : list Z) n, n = length A -> firstn n (A ++ Bx) = A.
Proof. intros; subst. apply firstn_exact. Qed.

Lemma skipn_exact : forall (A Bx : list Z) n, n = length A -> skipn n (A ++ Bx) = Bx.
Proof. intros; subst. rewrite skipn_app, skipn_all, Nat.sub_diag. reflexivity. Qed.

(* the early return of the third pass: the leading ".." fields are cut out, the tail rules skipped *)
Lemma pass34_root_dd : forall d D X j junk, allDD (d :: D) ->
  (X = [] \/ X = [[]] \/ exists n X', X = n :: X' /\ nm n /\ nonzero (join_elems X)) ->
  Z.of_nat (length (SEP :: join_elems ((d :: D) ++ X)) + 2 + length junk) < W64 ->
  exists bufF, pass34 1 (Z.of_nat (length (SEP :: join_elems ((d :: D) ++ X))))
                      ((SEP :: join_elems ((d :: D) ++ X)) ++ 0 :: j :: junk) = Some bufF /\
               cstr bufF = SEP :: join_elems X.
Proof.
  intros d D X j junk HD HX HW.
  set (T := SEP :: join_elems ((d :: D) ++ X)) in *.
  assert (EJ : exists mid, join_elems ((d :: D) ++ X) = mid ++ join_elems X /\ (2 <= length mid)%nat).
  { inversion HD; subst. destruct HX as [-> | [-> | (n & X' & -> & _)]].
    - exists (join_elems (DD :: D)). rewrite !app_nil_r. split; [reflexivity|].
      pose proof (dd_join_len (DD :: D) [] HD) as L. rewrite app_nil_r in L. cbn [length] in L. lia.
    - exists (body (DD :: D)). rewrite join_snoc. split; [reflexivity|]. rewrite body_length_cons. cbn. lia.
    - exists (body (DD :: D)). rewrite join_app_body by discriminate. split; [reflexivity|]. rewrite body_length_cons. cbn. lia. }
  destruct EJ as (mid & EJ & Hmid).
  assert (ET : T = ([SEP] ++ mid) ++ join_elems X) by (unfold T; rewrite EJ; reflexivity).
  set (st := length ([SEP] ++ mid)).
  assert (Hst : (st + length (join_elems X) = length T)%nat) by (rewrite ET, app_length; reflexivity).
  assert (Hst3 : (3 <= st)%nat) by (unfold st; rewrite app_length; cbn [length]; lia).
  assert (Hscan : root_dotdot_scan (S (length (T ++ 0 :: j :: junk))) (T ++ 0 :: j :: junk) (Z.of_nat (length T)) 1
                  = Some (Z.of_nat st)).
  { pose proof (root_scan_D (d :: D) [SEP] X (j :: junk) (S (length (T ++ 0 :: j :: junk))) HD HX) as Q.
    change ([SEP] ++ join_elems ((d :: D) ++ X)) with T in Q. change (Z.of_nat (length [SEP])) with 1 in Q.
    rewrite Q.
    - f_equal. f_equal. lia.
    - pose proof (dd_join_len (d :: D) X HD) as L. rewrite app_length. unfold T. cbn [length] in *. lia. }
  unfold pass34. change (negb (1 =? 0)) with true. cbn [andb].
  assert (G0 : get (T ++ 0 :: j :: junk) (1 - 1) = SEP) by reflexivity.
  rewrite G0. change (is_sep SEP) with true. cbv iota. rewrite Hscan.
  replace (Z.of_nat st >? 1) with true by lia.
  destruct (join_elems X) as [|c JX] eqn:EX.
  - (* nothing left after the ".." fields *)
    cbn [length] in Hst.
    replace (Z.of_nat st <? Z.of_nat (length T)) with false by lia.
    eexists. split; [reflexivity|].
    destruct mid as [|m0 mid']; [cbn in Hmid; lia|].
    rewrite ET. rewrite app_nil_r. cbn [app].
    change (SEP :: m0 :: mid' ++ 0 :: j :: junk) with ([SEP] ++ m0 :: (mid' ++ 0 :: j :: junk)).
    change 1 with (Z.of_nat (length [SEP])). rewrite set_mid. reflexivity.
  - replace (Z.of_nat st <? Z.of_nat (length T)) with true by (cbn [length] in Hst; lia).
    eexists. split; [reflexivity|].
    assert (Esz1 : sz (Z.of_nat (length T) - Z.of_nat st) = Z.of_nat (length (c :: JX))).
    { rewrite sz_small by lia. lia. }
    assert (Esz2 : sz (sz (1 + Z.of_nat (length T)) - Z.of_nat st) = Z.of_nat (length ([SEP] ++ c :: JX))).
    { rewrite (sz_small (1 + Z.of_nat (length T))) by lia. rewrite sz_small by (cbn [length app] in *; lia).
      cbn [length app] in *. lia. }
    rewrite Esz1, Esz2.
    assert (Emm : exists x rest', memmove (T ++ 0 :: j :: junk) 1 (Z.of_nat st) (Z.of_nat (length (c :: JX)))
                   = ([SEP] ++ c :: JX) ++ x :: rest').
    { unfold memmove. rewrite !Nat2Z.id. change (Z.to_nat 1) with 1%nat.
      assert (Esk : skipn st (T ++ 0 :: j :: junk) = (c :: JX) ++ 0 :: j :: junk).
      { rewrite ET, <- app_assoc. apply skipn_exact. reflexivity. }
      rewrite Esk, firstn_exact.
      remember (skipn (1 + length (c :: JX)) (T ++ 0 :: j :: junk)) as rest eqn:Er.
      assert (Lr : length rest = (length T + 2 + length junk - (1 + length (c :: JX)))%nat).
      { rewrite Er, skipn_length, app_length. cbn [length]. lia. }
      destruct rest as [|x rest']; [cbn [length] in *; lia|].
      exists x, rest'. unfold T. cbn [app firstn]. reflexivity. }
    destruct Emm as (x & rest' & ->). rewrite set_mid.
    rewrite cstr_txt; [reflexivity|].
    destruct HX as [-> | [-> | (n & X' & -> & _ & Hz)]]; [discriminate EX|discriminate EX|].
    constructor; [discriminate|exact Hz].
Qed.

(* ---- the spec machine on  dot-dots ++ names ++ tail -------------------------------------------------- *)
Lemma fold_names : forall R N out t, allnm N ->
  fold_left (norm_step R) N (out, t) = (rev N ++ out, match N with [] => t | _ => false end).
Proof.
  induction N as [|n N IH]; intros out t HN; [reflexivity|].
  inversion HN; subst. pose proof (nm_proper n H1) as P. cbn [fold_left].
  assert (S1 : norm_step R (out, t) n = (n :: out, false)).
  { unfold norm_step. rewrite (proper_not_empty n P), (proper_not_dot n P), (proper_not_dotdot n P). reflexivity. }
  rewrite S1, IH by assumption. cbn [rev]. rewrite <- app_assoc. cbn [app].
  destruct N; reflexivity.
Qed.

Lemma fold_D_true : forall D t, allDD D -> fst (fold_left (norm_step true) D ([], t)) = [].
Proof.
  induction D as [|d D IH]; intros t HD; [reflexivity|]. inversion HD; subst. cbn [fold_left].
  change (norm_step true ([], t) DD) with (@nil elem, true). apply IH. assumption.
Qed.

Lemma fold_D_false : forall D out t, allDD D -> forallb is_dotdot out = true ->
  fst (fold_left (norm_step false) D (out, t)) = rev D ++ out.
Proof.
  induction D as [|d D IH]; intros out t HD Ho; [reflexivity|]. inversion HD; subst. cbn [fold_left].
  assert (S1 : norm_step false (out, t) DD = (DD :: out, false)).
  { unfold norm_step. cbn [is_empty DD is_dot is_dotdot bytes_eqb]. destruct out as [|x out']; [reflexivity|].
    cbn in Ho. apply andb_true_iff in Ho as [Hx _]. rewrite Hx. reflexivity. }
  rewrite S1, IH; [|assumption|cbn; exact Ho]. cbn [rev]. rewrite <- app_assoc. reflexivity.
Qed.

Lemma allDD_rev : forall D, allDD D -> rev D = D.
Proof.
  intros D HD. assert (E : D = repeat DD (length D)).
  { induction D as [|d D IH]; [reflexivity|]. inversion HD; subst. cbn. f_equal. apply IH. assumption. }
  rewrite E. apply rev_repeat.
Qed.

Lemma allDD_forallb : forall D, allDD D -> forallb is_dotdot D = true.
Proof. induction D as [|d D IH]; intro H; [reflexivity|]. inversion H; subst. cbn. apply IH. assumption. Qed.

Lemma machine_dn : forall R D N tl, allDD D -> allnm N -> (tl = [] \/ tl = [[]]) ->
  normal_elems R (D ++ N ++ tl) =
  match N with
  | [] => if R then [] else match D with [] => [[DOT]] | _ => D end
  | _ => (if R then [] else D) ++ N ++ tl
  end.
Proof.
  intros R D N tl HD HN Htl. unfold normal_elems. rewrite !fold_left_app.
  destruct (fold_left (norm_step R) D ([], false)) as [oD tD] eqn:ED.
  assert (EoD : oD = if R then [] else rev D).
  { destruct R.
    - pose proof (fold_D_true D false HD) as Q. rewrite ED in Q. exact Q.
    - pose proof (fold_D_false D [] false HD eq_refl) as Q. rewrite ED, app_nil_r in Q. exact Q. }
  rewrite fold_names by exact HN.
  destruct N as [|n0 N0].
  - cbn [rev app]. assert (Eo : fst (fold_left (norm_step R) tl (oD, tD)) = oD).
    { destruct Htl as [-> | ->]; reflexivity. }
    destruct (fold_left (norm_step R) tl (oD, tD)) as [o2 t2]. cbn [fst] in Eo. subst o2.
    unfold norm_finish. rewrite EoD. destruct R; [reflexivity|].
    destruct D as [|d D']; [reflexivity|]. inversion HD; subst.
    rewrite (allDD_rev (DD :: D') HD). change (is_dotdot DD) with true. cbv iota. apply (allDD_rev (DD :: D') HD).
  - destruct (exists_last (l := n0 :: N0) ltac:(discriminate)) as (N' & n & EN). rewrite EN in *.
    assert (Hn : nm n) by (apply Forall_app in HN as [_ A]; inversion A; assumption).
    pose proof (nm_proper n Hn) as P.
    assert (E2 : fold_left (norm_step R) tl (rev (N' ++ [n]) ++ oD, false) =
                 (rev (N' ++ [n]) ++ oD, match tl with [] => false | _ => true end)).
    { destruct Htl as [-> | ->]; reflexivity. }
    destruct (N' ++ [n]) eqn:E0; [destruct N'; discriminate|]. rewrite <- E0 in *. rewrite E2.
    unfold norm_finish. rewrite rev_app_distr. cbn [rev app]. rewrite (proper_not_dotdot n P).
    assert (Erev : rev (rev N' ++ oD) = (if R then [] else D) ++ N').
    { rewrite rev_app_distr, rev_involutive, EoD. destruct R; [reflexivity|]. rewrite rev_involutive. reflexivity. }
    rewrite Erev. destruct Htl as [-> | ->]; rewrite <- ?app_assoc; rewrite ?app_nil_r; reflexivity.
Qed.

(* ---- the tail rules on the text after the second pass ------------------------------------------------ *)
Lemma ftxt_keep1 : forall A y, y <> SEP -> (forall A' e, A = A' ++ [e] -> ~ (e = SEP /\ y = DOT)) ->
  ftxt (A ++ [y]) = A ++ [y].
Proof.
  intros A y Hy Hc. unfold ftxt. rewrite rev_app_distr. cbn [rev app].
  destruct (rev A) as [|e t'] eqn:E; [reflexivity|].
  assert (EA : A = rev t' ++ [e]) by (rewrite <- (rev_involutive A), E; reflexivity).
  destruct ((e =? SEP) && (y =? DOT)) eqn:R1.
  - exfalso. apply (Hc (rev t') e EA). lia.
  - destruct t' as [|f t'']; [reflexivity|]. replace (y =? SEP) with false by lia. rewrite andb_false_r. reflexivity.
Qed.

Lemma ftxt_keep_sep : forall A y, y <> SEP -> (forall A' f, A = A' ++ [f] -> ~ (f = DOT /\ y = DOT)) ->
  ftxt (A ++ [y; SEP]) = A ++ [y; SEP].
Proof.
  intros A y Hy Hc. unfold ftxt. rewrite rev_app_distr. cbn [rev app].
  replace (y =? SEP) with false by lia. cbn [andb].
  destruct (rev A) as [|f t'] eqn:E; [reflexivity|].
  assert (EA : A = rev t' ++ [f]) by (rewrite <- (rev_involutive A), E; reflexivity).
  destruct ((f =? DOT) && (y =? DOT)) eqn:R2.
  - exfalso. apply (Hc (rev t') f EA). lia.
  - reflexivity.
Qed.

Lemma ftxt_dd_sep : forall A, ftxt (A ++ [DOT; DOT; SEP]) = A ++ [DOT; DOT].
Proof.
  intros A. unfold ftxt. rewrite rev_app_distr. cbn [rev app].
  change ((DOT =? SEP) && (SEP =? DOT)) with false. cbv iota.
  change ((DOT =? DOT) && (DOT =? DOT) && (SEP =? SEP)) with true. cbv iota.
  cbn [rev]. rewrite rev_involutive, <- app_assoc. reflexivity.
Qed.

Lemma ends_dotdot_snoc2 : forall l, ends_dotdot (l ++ [DOT; DOT]) = true.
Proof.
  induction l as [|a l IH]; [reflexivity|]. cbn [app]. destruct l as [|b l'].
  - reflexivity.
  - destruct l' as [|c l'']; [reflexivity|].
    change (ends_dotdot (a :: (b :: c :: l'') ++ [DOT; DOT])) with (ends_dotdot ((b :: c :: l'') ++ [DOT; DOT])). exact IH.
Qed.

Lemma name_single : forall y, nm [y] -> y <> DOT.
Proof.
  intros y (_ & H) ->. discriminate.
Qed.

Lemma final_text : forall k D N tl, (k = 0 \/ k = 1) -> allDD D -> allnm N ->
  Forall (fun n => ends_dotdot n = false) N -> (tl = [] \/ tl = [[]]) -> (k = 0 \/ D = []) ->
  ftxt (TX k (D ++ N ++ tl)) = render (k =? 1) (normal_elems (k =? 1) (D ++ N ++ tl)).
Proof.
  intros k D N tl Hk HD HN HE Htl HkD. rewrite machine_dn by assumption.
  destruct N as [|n0 N0].
  - (* no names *)
    cbn [app]. destruct D as [|d0 D0].
    + cbn [app]. assert (ET : TX k tl = root_acc k).
      { unfold TX. destruct Htl as [-> | ->]; cbn; apply app_nil_r. }
      rewrite ET. destruct Hk as [-> | ->]; reflexivity.
    + destruct HkD as [-> | A]; [|discriminate]. change (0 =? 1) with false. cbv iota.
      destruct (exists_last (l := d0 :: D0) ltac:(discriminate)) as (D' & d & ED). rewrite ED in *.
      assert (d = DD) as -> by (apply Forall_app in HD as [_ A]; inversion A; assumption).
      destruct (D' ++ [DD]) eqn:E0; [destruct D'; discriminate|]. rewrite <- E0.
      unfold TX, render. change (root_acc 0) with (@nil Z). cbn [app].
      destruct Htl as [-> | ->].
      * rewrite app_nil_r, join_snoc. change DD with ([DOT] ++ [DOT]). rewrite app_assoc.
        apply ftxt_keep1; [discriminate|]. intros A' e' EA. apply app_inj_tail in EA as [_ <-]. intros [A _]. discriminate.
      * rewrite join_snoc, app_nil_r, body_snoc. change (DD ++ [SEP]) with [DOT; DOT; SEP].
        rewrite ftxt_dd_sep. rewrite join_snoc. reflexivity.
  - (* some names: the text is already final *)
    assert (ER : (if k =? 1 then [] else D) = D).
    { destruct HkD as [-> | ->]; [reflexivity|destruct (k =? 1); reflexivity]. }
    rewrite ER.
    assert (EK : render (k =? 1) (D ++ (n0 :: N0) ++ tl) = TX k (D ++ (n0 :: N0) ++ tl)).
    { unfold render, TX. destruct Hk as [-> | ->]; reflexivity. }
    rewrite EK.
    destruct (exists_last (l := n0 :: N0) ltac:(discriminate)) as (N' & n & EN). rewrite EN in *.
    assert (Hn : nm n) by (apply Forall_app in HN as [_ A]; inversion A; assumption).
    assert (Hen : ends_dotdot n = false) by (apply Forall_app in HE as [_ A]; inversion A; assumption).
    destruct Hn as ((Hs & Hz & Hne) & Hin).
    destruct (last_not_sep n Hs Hne) as (n' & y & En & Hy).
    destruct Htl as [-> | ->].
    + rewrite app_nil_r. unfold TX. rewrite app_assoc, join_snoc. rewrite En. rewrite !app_assoc.
      apply ftxt_keep1; [exact Hy|]. intros A' e EA [He Hyd]. subst e y.
      destruct n' as [|c n''] using rev_ind.
      * apply (name_single DOT); [|reflexivity]. cbn [app] in En. rewrite <- En. repeat split; assumption.
      * clear IHn''. rewrite !app_assoc in EA. apply app_inj_tail in EA as [_ EA]. subst c.
        unfold sepfree in Hs. rewrite En in Hs. rewrite !Forall_app in Hs. destruct Hs as [[_ Hs] _].
        inversion Hs; subst. congruence.
    + unfold TX. rewrite (app_assoc D), join_snoc, app_nil_r. rewrite (app_assoc D N' [n]), body_snoc. rewrite En.
      replace (root_acc k ++ body (D ++ N') ++ (n' ++ [y]) ++ [SEP])
        with ((root_acc k ++ body (D ++ N') ++ n') ++ [y; SEP]) by (rewrite <- !app_assoc; reflexivity).
      apply ftxt_keep_sep; [exact Hy|]. intros A' f EA [Hf Hyd]. subst f y.
      destruct n' as [|c n''] using rev_ind.
      * apply (name_single DOT); [|reflexivity]. cbn [app] in En. rewrite <- En. repeat split; assumption.
      * clear IHn''. rewrite !app_assoc in EA. apply app_inj_tail in EA as [_ EA]. subst c.
        rewrite En in Hen. rewrite <- app_assoc in Hen. cbn [app] in Hen. rewrite ends_dotdot_snoc2 in Hen. discriminate.
Qed.

Lemma final_text_root_dd : forall d D N tl, allDD (d :: D) -> allnm N -> (tl = [] \/ tl = [[]]) ->
  SEP :: join_elems (N ++ tl) = render true (normal_elems true ((d :: D) ++ N ++ tl)).
Proof.
  intros d D N tl HD HN Htl. rewrite machine_dn by assumption. destruct N as [|n0 N0].
  - destruct Htl as [-> | ->]; reflexivity.
  - reflexivity.
Qed.
