(* C04: arithmetic of the ring indices (the only place machine arithmetic enters) and list lemmas *)
From Coq Require Import ZArith List Bool Arith Lia Znumtheory.
From Zix Require Import RingConcModel.
Import ListNotations.
Local Open Scope Z_scope.

(* ------------------------------------------------------------------ modular arithmetic *)
Section Arith.
  Variable c : cfg.
  Hypothesis Hk : 0 <= ck c <= 31.
  Let N := rsize c.

  Lemma N_pos : 0 < N.
  Proof. unfold N, rsize. apply Z.pow_pos_nonneg; lia. Qed.

  Lemma N_le : N <= 2147483648.
  Proof.
    unfold N, rsize. change 2147483648 with (2 ^ 31).
    apply Z.pow_le_mono_r; lia.
  Qed.

  Lemma N_divides : (N | 4294967296).
  Proof.
    unfold N, rsize. exists (2 ^ (32 - ck c)).
    rewrite <- Z.pow_add_r by lia. replace (32 - ck c + ck c) with 32 by lia. reflexivity.
  Qed.

  Lemma u32_mod : forall x, u32 x mod N = x mod N.
  Proof.
    intros x. unfold u32. symmetry.
    apply Zmod_div_mod; [apply N_pos | lia | apply N_divides].
  Qed.

  Lemma u32_small : forall x, 0 <= x < 4294967296 -> u32 x = x.
  Proof. intros x H. unfold u32. apply Z.mod_small; exact H. Qed.

  Lemma rmask_eq : rmask c = N - 1.
  Proof.
    unfold rmask. apply u32_small. pose proof N_pos. pose proof N_le. lia.
  Qed.

  Lemma band_mod : forall x, band c x = x mod N.
  Proof.
    intros x. unfold band. rewrite rmask_eq. unfold N, rsize.
    replace (2 ^ ck c - 1) with (Z.ones (ck c)) by (rewrite Z.ones_equiv; lia).
    apply Z.land_ones. lia.
  Qed.

  Lemma mod_range : forall x, 0 <= x mod N < N.
  Proof. intros x. apply Z.mod_pos_bound. apply N_pos. Qed.

  (* (a + i) mod N from a mod N, without or with one wrap *)
  Lemma mod_add_small : forall a i, 0 <= a mod N + i < N -> (a + i) mod N = a mod N + i.
  Proof.
    intros a i H. symmetry. apply Zmod_unique with (q := a / N); [exact H |].
    pose proof (Z.div_mod a N) as D. pose proof N_pos. lia.
  Qed.

  Lemma mod_add_wrap : forall a i, N <= a mod N + i < 2 * N -> (a + i) mod N = a mod N + i - N.
  Proof.
    intros a i H. symmetry. apply Zmod_unique with (q := a / N + 1); [lia |].
    pose proof (Z.div_mod a N) as D. pose proof N_pos. lia.
  Qed.

  Lemma mod_sub_window : forall a b, 0 <= b - a < N -> (b mod N - a mod N) mod N = b - a.
  Proof.
    intros a b H. rewrite <- Zminus_mod. apply Z.mod_small. exact H.
  Qed.

  (* two counts in a window narrower than N with the same cell are equal *)
  Lemma mod_inj_window : forall a b, - N < a - b < N -> a mod N = b mod N -> a = b.
  Proof.
    intros a b H E. pose proof N_pos as P.
    pose proof (Z.div_mod a N) as Da. pose proof (Z.div_mod b N) as Db.
    assert (a - b = N * (a / N - b / N)) as D by lia.
    assert (a / N - b / N = 0) by nia. lia.
  Qed.

  (* same cell, strictly earlier count: at least one lap earlier *)
  Lemma mod_lap : forall a b, a mod N = b mod N -> a < b -> a <= b - N.
  Proof.
    intros a b E L. pose proof N_pos as P.
    pose proof (Z.div_mod a N) as Da. pose proof (Z.div_mod b N) as Db.
    assert (b - a = N * (b / N - a / N)) as D by lia.
    assert (1 <= b / N - a / N) by nia. nia.
  Qed.

  (* ---- the index expressions of ring.c *)
  Lemma read_space_eq : forall a b, read_space c (a mod N) (b mod N) = (b - a) mod N.
  Proof.
    intros a b. unfold read_space. rewrite band_mod, u32_mod. rewrite <- Zminus_mod. reflexivity.
  Qed.

  Lemma read_space_window : forall a b, 0 <= b - a < N -> read_space c (a mod N) (b mod N) = b - a.
  Proof. intros a b H. rewrite read_space_eq. apply Z.mod_small. exact H. Qed.

  Lemma write_space_eq : forall a b, write_space c (a mod N) (b mod N) = (a - b - 1) mod N.
  Proof.
    intros a b. unfold write_space. rewrite band_mod, u32_mod.
    rewrite Zminus_mod. rewrite u32_mod. rewrite <- Zminus_mod.
    rewrite Zminus_mod. rewrite <- (Zminus_mod a b). rewrite <- Zminus_mod.
    reflexivity.
  Qed.

  Lemma write_space_window : forall a b, 0 <= b - a <= N - 1 ->
    write_space c (a mod N) (b mod N) = N - 1 - (b - a).
  Proof.
    intros a b H. rewrite write_space_eq. symmetry.
    apply Zmod_unique with (q := -1); lia.
  Qed.

  (* the cell of the i-th byte of a copy that starts at count [a] (head value a mod N) *)
  Lemma rcell_eq : forall a size i, 0 <= i < size -> size < N ->
    rcell c (a mod N) size i = (a + i) mod N.
  Proof.
    intros a size i Hi Hs. unfold rcell. fold N.
    pose proof (mod_range a) as R. pose proof N_le as L.
    rewrite (u32_small (a mod N + size)) by lia.
    destruct (a mod N + size <? N) eqn:E1.
    - apply Z.ltb_lt in E1. rewrite mod_add_small by lia. reflexivity.
    - apply Z.ltb_ge in E1. rewrite (u32_small (N - a mod N)) by lia.
      destruct (i <? N - a mod N) eqn:E2.
      + apply Z.ltb_lt in E2. rewrite mod_add_small by lia. reflexivity.
      + apply Z.ltb_ge in E2. rewrite mod_add_wrap by lia. lia.
  Qed.

  Lemma wcell_eq : forall a size i, 0 <= i < size -> size < N ->
    wcell c (a mod N) size i = (a + i) mod N.
  Proof.
    intros a size i Hi Hs. unfold wcell. fold N.
    pose proof (mod_range a) as R. pose proof N_le as L.
    rewrite (u32_small (a mod N + size)) by lia.
    destruct (a mod N + size <=? N) eqn:E1.
    - apply Z.leb_le in E1. rewrite mod_add_small by lia. reflexivity.
    - apply Z.leb_gt in E1. rewrite (u32_small (N - a mod N)) by lia.
      destruct (i <? N - a mod N) eqn:E2.
      + apply Z.ltb_lt in E2. rewrite mod_add_small by lia. reflexivity.
      + apply Z.ltb_ge in E2. rewrite mod_add_wrap by lia. lia.
  Qed.

  Lemma wnew_eq : forall a size, 0 <= size < N -> wnew c (a mod N) size = (a + size) mod N.
  Proof.
    intros a size Hs. unfold wnew. fold N.
    pose proof (mod_range a) as R. pose proof N_le as L.
    rewrite (u32_small (a mod N + size)) by lia.
    destruct (a mod N + size <=? N) eqn:E1.
    - apply Z.leb_le in E1. rewrite band_mod. rewrite Zplus_mod_idemp_l. reflexivity.
    - apply Z.leb_gt in E1. rewrite (u32_small (N - a mod N)) by lia.
      rewrite u32_small by lia. rewrite mod_add_wrap by lia. lia.
  Qed.

  Lemma head_add_eq : forall a n, band c (u32 (a mod N + n)) = (a + n) mod N.
  Proof.
    intros a n. rewrite band_mod, u32_mod. rewrite Zplus_mod_idemp_l. reflexivity.
  Qed.
End Arith.

(* ------------------------------------------------------------------ lists *)
Lemma nth_firstn_lt : forall (l : list Z) n i, (i < n)%nat -> nth i (firstn n l) 0 = nth i l 0.
Proof.
  induction l as [|x l IH]; intros n i H.
  - rewrite firstn_nil. reflexivity.
  - destruct n as [|n]; [lia|]. destruct i as [|i]; cbn; [reflexivity|]. apply IH. lia.
Qed.

Lemma slice_length : forall l p n, 0 <= p -> 0 <= n -> p + n <= Z.of_nat (length l) ->
  Z.of_nat (length (slice l p n)) = n.
Proof.
  intros l p n Hp Hn H. unfold slice. rewrite firstn_length, skipn_length. lia.
Qed.

Lemma slice_zero : forall l p, slice l p 0 = [].
Proof. intros. unfold slice. reflexivity. Qed.

Lemma firstn_snoc_nth : forall (l : list Z) n, (n < length l)%nat ->
  firstn (S n) l = firstn n l ++ [nth n l 0].
Proof.
  induction l as [|x l IH]; intros n H; cbn in H; [lia|].
  destruct n as [|n]; [reflexivity|].
  change (firstn (S (S n)) (x :: l)) with (x :: firstn (S n) l).
  change (firstn (S n) (x :: l)) with (x :: firstn n l).
  change (nth (S n) (x :: l) 0) with (nth n l 0).
  rewrite IH by lia. reflexivity.
Qed.

Lemma nth_skipn : forall (l : list Z) p i, nth i (skipn p l) 0 = nth (p + i) l 0.
Proof.
  induction l as [|x l IH]; intros p i.
  - rewrite skipn_nil. destruct i, p; reflexivity.
  - destruct p as [|p]; [reflexivity|]. cbn. apply IH.
Qed.

Lemma slice_snoc : forall l p i, 0 <= p -> 0 <= i -> p + i < Z.of_nat (length l) ->
  slice l p (i + 1) = slice l p i ++ [nth (Z.to_nat (p + i)) l 0].
Proof.
  intros l p i Hp Hi H. unfold slice.
  replace (Z.to_nat (i + 1)) with (S (Z.to_nat i)) by lia.
  rewrite firstn_snoc_nth by (rewrite skipn_length; lia).
  rewrite nth_skipn. replace (Z.to_nat p + Z.to_nat i)%nat with (Z.to_nat (p + i)) by lia.
  reflexivity.
Qed.

(* a slice inside the first [m] elements does not see what lies beyond *)
Lemma slice_firstn : forall l m p n, 0 <= p -> 0 <= n -> p + n <= Z.of_nat m ->
  slice (firstn m l) p n = slice l p n.
Proof.
  intros l m p n Hp Hn H. unfold slice.
  rewrite skipn_firstn_comm. rewrite firstn_firstn.
  replace (Init.Nat.min (Z.to_nat n) (m - Z.to_nat p)) with (Z.to_nat n) by lia. reflexivity.
Qed.

Lemma slice_app_l : forall l ext p n, 0 <= p -> 0 <= n -> p + n <= Z.of_nat (length l) ->
  slice (l ++ ext) p n = slice l p n.
Proof.
  intros l ext p n Hp Hn H. unfold slice.
  rewrite skipn_app. rewrite firstn_app. rewrite skipn_length.
  replace (Z.to_nat n - (length l - Z.to_nat p))%nat with O by lia.
  rewrite firstn_O, app_nil_r. reflexivity.
Qed.

Lemma firstn_app_le : forall (l ext : list Z) n, (n <= length l)%nat -> firstn n (l ++ ext) = firstn n l.
Proof.
  intros l ext n H. rewrite firstn_app. replace (n - length l)%nat with O by lia.
  rewrite firstn_O, app_nil_r. reflexivity.
Qed.

Lemma skipn_firstn_map : forall (l : list Z) p m, (p <= m)%nat -> (m <= length l)%nat ->
  skipn p (firstn m l) = map (fun i => nth (p + i) l 0) (seq 0 (m - p)).
Proof.
  intros l p m Hp Hm. apply nth_ext with (d := 0) (d' := 0).
  - rewrite skipn_length, firstn_length, map_length, seq_length. lia.
  - intros i Hi. rewrite skipn_length, firstn_length in Hi.
    rewrite nth_skipn. rewrite nth_firstn_lt by lia.
    rewrite (nth_indep (map (fun i0 => nth (p + i0) l 0) (seq 0 (m - p))) 0 ((fun i0 => nth (p + i0) l 0) O))
      by (rewrite map_length, seq_length; lia).
    rewrite (map_nth (fun i0 => nth (p + i0) l 0)). rewrite seq_nth by lia. reflexivity.
Qed.

Lemma list_eqb_refl : forall l, list_eqb l l = true.
Proof.
  intros l. unfold list_eqb. rewrite Nat.eqb_refl. cbn.
  induction l as [|x l IH]; [reflexivity|]. cbn. rewrite Z.eqb_refl. exact IH.
Qed.
