(* C03: executable model of /repo/src/hash.c as it is now (after the three fix: commits:
   full-cycle guard in find_entry, rehash looks up by the record's key, shrink rolls back).
   Definitions only.  Conventions:
   - a slot is {hash, value}: Empty = (0, NULL), Tomb = (0xDEAD, NULL), Live c r = (c, r);
   - indices, counts and codes are Z; ZixHashCode is size_t, so the code of key k is hf k mod 2^64
     for an ARBITRARY hf : Z -> Z;
   - loops run on fuel = table length; running out of fuel is the outcome OutOfFuel (= the C loop
     does not terminate); writing past the array is the outcome Undef;
   - every call of a user function is logged (EvKeyOf / EvHash / EvEqual, with pointer provenance);
   - every allocation request (one calloc per rehash) consumes one answer of the oracle
     (false = NULL; an exhausted oracle answers true). *)
From Coq Require Import ZArith List Bool.
From Zix Require Import HashSpec.
Import ListNotations.
Local Open Scope Z_scope.

Inductive slot := Empty | Tomb | Live (code : Z) (r : rec).

Definition tombstone : Z := 57005.   (* 0xDEAD *)
Definition min_n_entries : Z := 4.

(* the two struct fields *)
Definition s_hash (e : slot) : Z :=
  match e with Empty => 0 | Tomb => tombstone | Live c _ => c end.
Definition s_value (e : slot) : option rec :=
  match e with Live _ r => Some r | _ => None end.
Definition has_value (e : slot) : bool :=
  match s_value e with Some _ => true | None => false end.

Record hstate := mkH { h_count : Z; h_mask : Z; h_n : Z; h_ent : list slot }.

Definition set_ent (st : hstate) (l : list slot) : hstate :=
  mkH (h_count st) (h_mask st) (h_n st) l.
Definition set_size (st : hstate) (n mask : Z) : hstate :=
  mkH (h_count st) mask n (h_ent st).
Definition set_count (st : hstate) (c : Z) : hstate :=
  mkH c (h_mask st) (h_n st) (h_ent st).

Definition zget (l : list slot) (i : Z) : slot := nth (Z.to_nat i) l Empty.

Fixpoint upd (l : list slot) (i : nat) (v : slot) : list slot :=
  match l, i with
  | [], _ => []
  | _ :: t, O => v :: t
  | x :: t, S i' => x :: upd t i' v
  end.
Definition zset (l : list slot) (i : Z) (v : slot) : list slot := upd l (Z.to_nat i) v.

(* pointer provenance of a key handed to a user function *)
Inductive kref := KOfRec (r : rec) | KArg (k : Z).
Definition kval (k : kref) : Z := match k with KOfRec r => rkey r | KArg k' => k' end.

Inductive event :=
| EvKeyOf (r : rec)          (* key_func(record) *)
| EvHash (k : kref)          (* hash_func(key) *)
| EvEqual (a b : kref).      (* equal_func(a, b) / predicate(a, user_data = b) *)

Inductive outcome (A : Type) := Ret (a : A) | OutOfFuel | Undef.
Arguments Ret {A} a.
Arguments OutOfFuel {A}.
Arguments Undef {A}.

Inductive fe_res := FeAt (i : Z) | FeEnd | FeFuel.

(* zix_hash_new with a successful allocation *)
Definition hash_new : hstate :=
  mkH 0 (min_n_entries - 1) min_n_entries (repeat Empty (Z.to_nat min_n_entries)).

Definition fold_hash (h mask : Z) : Z := Z.land h mask.

Definition is_empty (e : slot) : bool := negb (has_value e) && (s_hash e =? 0).

(* entry->value && entry->hash == code && predicate(key_func(entry->value), user_data) *)
Definition is_match (e : slot) (code : Z) (pred : Z -> bool) (ud : kref) : bool * list event :=
  match s_value e with
  | Some r =>
      if s_hash e =? code then (pred (rkey r), [EvKeyOf r; EvEqual (KOfRec r) ud])
      else (false, [])
  | None => (false, [])
  end.

Definition next_index (mask i : Z) : Z := if i =? mask then 0 else i + 1.

Section WithHash.
  Variable hf : Z -> Z.

  Definition code_of (k : Z) : Z := hf k mod 2 ^ 64.

  (* while (!is_empty(e[i]) && !is_match(...)) { i = next_index(i); if (i == h) return n_entries; } return i; *)
  Fixpoint find_loop (fuel : nat) (st : hstate) (key : kref) (h code i : Z) : fe_res * list event :=
    match fuel with
    | O => (FeFuel, [])
    | S f =>
        let e := zget (h_ent st) i in
        if is_empty e then (FeAt i, [])
        else
          let (m, lg) := is_match e code (Z.eqb (kval key)) key in
          if m then (FeAt i, lg)
          else
            let i' := next_index (h_mask st) i in
            if i' =? h then (FeEnd, lg)
            else let (r, lg') := find_loop f st key h code i' in (r, lg ++ lg')
    end.

  Definition find_entry (st : hstate) (key : kref) (h code : Z) : fe_res * list event :=
    find_loop (Z.to_nat (h_n st)) st key h code h.

  (* the for loop of rehash(); [st] already has the new array *)
  Fixpoint rehash_loop (old : list slot) (st : hstate) : outcome hstate * list event :=
    match old with
    | [] => (Ret st, [])
    | e :: rest =>
        match s_value e with
        | Some r =>
            let new_h := fold_hash (s_hash e) (h_mask st) in
            let '(fr, lg) := find_entry st (KOfRec r) new_h (s_hash e) in
            match fr with
            | FeAt i =>
                let (o, lg') := rehash_loop rest (set_ent st (zset (h_ent st) i e)) in
                (o, EvKeyOf r :: lg ++ lg')
            | FeEnd => (Undef, EvKeyOf r :: lg)        (* hash->entries[n_entries] = *entry *)
            | FeFuel => (OutOfFuel, EvKeyOf r :: lg)
            end
        | None => rehash_loop rest st
        end
    end.

  (* rehash(hash, old_n_entries): h_n/h_mask already hold the new size *)
  Definition rehash (st : hstate) (old_n : Z) (o : list bool)
    : outcome (hstatus * hstate) * list event * list bool :=
    match o with
    | false :: o' => (Ret (NO_MEM, st), [], o')
    | _ =>
        let st1 := set_ent st (repeat Empty (Z.to_nat (h_n st))) in
        let (r, lg) := rehash_loop (firstn (Z.to_nat old_n) (h_ent st)) st1 in
        (match r with
         | Ret st2 => Ret (SUCCESS, st2)
         | OutOfFuel => OutOfFuel
         | Undef => Undef
         end, lg, tl o)
    end.

  Definition resize (st : hstate) (new_n : Z) (o : list bool)
    : outcome (hstatus * hstate) * list event * list bool :=
    let old_n := h_n st in
    let old_mask := h_mask st in
    let st1 := set_size st new_n (new_n - 1) in
    let '(r, lg, o') := rehash st1 old_n o in
    (match r with
     | Ret (SUCCESS, st2) => Ret (SUCCESS, st2)
     | Ret (s, st2) => Ret (s, set_size st2 old_n old_mask)
     | OutOfFuel => OutOfFuel
     | Undef => Undef
     end, lg, o').

  Definition grow (st : hstate) (o : list bool) := resize st (Z.shiftl (h_n st) 1) o.

  Definition shrink (st : hstate) (o : list bool)
    : outcome (hstatus * hstate) * list event * list bool :=
    if min_n_entries <? h_n st then resize st (Z.shiftr (h_n st) 1) o
    else (Ret (SUCCESS, st), [], o).

  (* ---- lookup *)
  Definition find (st : hstate) (k : Z) : outcome Z * list event :=
    let key := KArg k in
    let h_nomod := code_of k in
    let h := fold_hash h_nomod (h_mask st) in
    let (fr, lg) := find_entry st key h h_nomod in
    (match fr with
     | FeAt i => Ret (if is_empty (zget (h_ent st) i) then h_n st else i)
     | FeEnd => Ret (h_n st)
     | FeFuel => OutOfFuel
     end, EvHash key :: lg).

  Definition find_record (st : hstate) (k : Z) : outcome (option rec) * list event :=
    let key := KArg k in
    let h_nomod := code_of k in
    let h := fold_hash h_nomod (h_mask st) in
    let (fr, lg) := find_entry st key h h_nomod in
    (match fr with
     | FeAt i => Ret (s_value (zget (h_ent st) i))
     | FeEnd => Ret None
     | FeFuel => OutOfFuel
     end, EvHash key :: lg).

  (* ---- insertion plans *)
  Inductive pl_res :=
  | PlMatch (idx : Z)                       (* return pos from inside the loop *)
  | PlStop (idx : Z) (ft : option Z)        (* loop left: condition false, or break after a full cycle *)
  | PlFuel.

  Fixpoint plan_loop (fuel : nat) (st : hstate) (code : Z) (pred : Z -> bool) (ud : kref)
           (start idx : Z) (ft : option Z) : pl_res * list event :=
    match fuel with
    | O => (PlFuel, [])
    | S f =>
        let e := zget (h_ent st) idx in
        if is_empty e then (PlStop idx ft, [])
        else
          let (m, lg) := is_match e code pred ud in
          if m then (PlMatch idx, lg)
          else
            let ft' := match ft with
                       | Some _ => ft
                       | None => if negb (has_value e) then Some idx else None
                       end in
            let idx' := next_index (h_mask st) idx in
            if idx' =? start then (PlStop idx' ft', lg)
            else let (r, lg') := plan_loop f st code pred ud start idx' ft' in (r, lg ++ lg')
    end.

  Record plan := mkPlan { p_code : Z; p_index : Z }.

  Definition plan_insert_prehashed (st : hstate) (code : Z) (pred : Z -> bool) (ud : kref)
    : outcome plan * list event :=
    let start := fold_hash code (h_mask st) in
    let (r, lg) := plan_loop (Z.to_nat (h_n st)) st code pred ud start start None in
    (match r with
     | PlMatch i => Ret (mkPlan code i)
     | PlStop i (Some t) => Ret (mkPlan code t)
     | PlStop i None => Ret (mkPlan code i)
     | PlFuel => OutOfFuel
     end, lg).

  Definition plan_insert (st : hstate) (key : kref) : outcome plan * list event :=
    let code := code_of (kval key) in
    let (r, lg) := plan_insert_prehashed st code (Z.eqb (kval key)) key in
    (r, EvHash key :: lg).

  Definition record_at (st : hstate) (p : plan) : option rec := s_value (zget (h_ent st) (p_index p)).

  Definition insert_at (st : hstate) (p : plan) (r : rec) (o : list bool)
    : outcome (hstatus * hstate) * list event * list bool :=
    if has_value (zget (h_ent st) (p_index p)) then (Ret (EXISTS, st), [], o)
    else
      let st1 := set_ent st (zset (h_ent st) (p_index p) (Live (p_code p) r)) in
      let max_load := h_n st / 2 + h_n st / 8 in
      let new_count := h_count st + 1 in
      if max_load <=? new_count then
        let '(g, lg, o') := grow st1 o in
        (match g with
         | Ret (SUCCESS, st2) => Ret (SUCCESS, set_count st2 new_count)
         | Ret (s, st2) =>                                  (* *entry = orig_entry *)
             Ret (s, set_ent st2 (zset (h_ent st2) (p_index p) (zget (h_ent st) (p_index p))))
         | OutOfFuel => OutOfFuel
         | Undef => Undef
         end, lg, o')
      else (Ret (SUCCESS, set_count st1 new_count), [], o).

  Definition insert (st : hstate) (r : rec) (o : list bool)
    : outcome (hstatus * hstate) * list event * list bool :=
    let key := KOfRec r in
    let (p, lg) := plan_insert st key in
    match p with
    | Ret pl => let '(x, lg', o') := insert_at st pl r o in (x, EvKeyOf r :: lg ++ lg', o')
    | OutOfFuel => (OutOfFuel, EvKeyOf r :: lg, o)
    | Undef => (Undef, EvKeyOf r :: lg, o)
    end.

  (* ---- removal *)
  Definition erase (st : hstate) (i : Z) (o : list bool)
    : outcome (hstatus * option rec * hstate) * list event * list bool :=
    let removed := s_value (zget (h_ent st) i) in
    let st1 := set_ent st (zset (h_ent st) i Tomb) in
    (* --hash->count: zix_hash_erase must be given an iterator to a record (header), so count >= 1
       by (H1) and the decrement cannot wrap; it is left unwrapped here *)
    let st2 := set_count st1 (h_count st1 - 1) in
    if h_count st2 <? h_n st2 / 4 then
      let '(s, lg, o') := shrink st2 o in
      (match s with
       | Ret (status, st3) => Ret (status, removed, st3)
       | OutOfFuel => OutOfFuel
       | Undef => Undef
       end, lg, o')
    else (Ret (SUCCESS, removed, st2), [], o).

  Definition remove (st : hstate) (k : Z) (o : list bool)
    : outcome (hstatus * option rec * hstate) * list event * list bool :=
    let (fi, lg) := find st k in
    match fi with
    | Ret i =>
        if i =? h_n st then (Ret (NOT_FOUND, None, st), lg, o)
        else let '(x, lg', o') := erase st i o in (x, lg ++ lg', o')
    | OutOfFuel => (OutOfFuel, lg, o)
    | Undef => (Undef, lg, o)
    end.

  (* ---- iteration *)
  (* do { ++i; } while (i < n_entries && !entries[i].value);  [l] = entries from index i+1 up to n_entries *)
  Fixpoint scan (l : list slot) (i : Z) : Z :=
    match l with
    | [] => i
    | e :: t => if has_value e then i else scan t (i + 1)
    end.

  Definition next (st : hstate) (i : Z) : Z :=
    scan (skipn (Z.to_nat (i + 1)) (firstn (Z.to_nat (h_n st)) (h_ent st))) (i + 1).

  Definition begin (st : hstate) : Z :=
    if has_value (zget (h_ent st) 0) then 0 else next st 0.

  Definition get (st : hstate) (i : Z) : option rec := s_value (zget (h_ent st) i).

  Definition size (st : hstate) : Z := h_count st.

  (* for (i = begin; i != end; i = next(i)) visit(i, get(i)) *)
  Fixpoint iter_loop (fuel : nat) (st : hstate) (i : Z) : outcome (list (Z * option rec)) :=
    match fuel with
    | O => OutOfFuel
    | S f =>
        if i =? h_n st then Ret []
        else match iter_loop f st (next st i) with
             | Ret l => Ret ((i, get st i) :: l)
             | x => x
             end
    end.

  Definition iterate (st : hstate) : outcome (list (Z * option rec)) :=
    iter_loop (S (Z.to_nat (h_n st))) st (begin st).

  (* ---- histories of API calls.  The runner remembers the latest plan and the key it was made for;
     a plan is valid "until the hash table is modified" (header): it is dropped by every successful
     insertion and by every erase. *)
  Definition rstate := (hstate * option (plan * Z))%type.

  Definition step (rs : rstate) (c : op) (o : list bool)
    : outcome (oresult * rstate) * list event * list bool :=
    let (st, pend) := rs in
    match c with
    | OInsert r =>
        let '(x, lg, o') := insert st r o in
        (match x with
         | Ret (s, st') => Ret (RStatus s, (st', match s with SUCCESS => None | _ => pend end))
         | OutOfFuel => OutOfFuel
         | Undef => Undef
         end, lg, o')
    | OPlan k =>
        let (p, lg) := plan_insert st (KArg k) in
        (match p with
         | Ret pl => Ret (RPlan (p_code pl) (p_index pl) (record_at st pl), (st, Some (pl, k)))
         | OutOfFuel => OutOfFuel
         | Undef => Undef
         end, lg, o)
    | OPlanPre k =>
        let (p, lg) := plan_insert_prehashed st (code_of k) (Z.eqb k) (KArg k) in
        (match p with
         | Ret pl => Ret (RPlan (p_code pl) (p_index pl) (record_at st pl), (st, Some (pl, k)))
         | OutOfFuel => OutOfFuel
         | Undef => Undef
         end, lg, o)
    | OInsertAt r =>
        match pend with
        | Some (pl, k) =>
            if rkey r =? k then
              let '(x, lg, o') := insert_at st pl r o in
              (match x with
               | Ret (s, st') => Ret (RStatus s, (st', match s with SUCCESS => None | _ => pend end))
               | OutOfFuel => OutOfFuel
               | Undef => Undef
               end, lg, o')
            else (Ret (RSkipped, rs), [], o)
        | None => (Ret (RSkipped, rs), [], o)
        end
    | OFind k =>
        let (fi, lg) := find st k in
        (match fi with
         | Ret i => Ret (if i =? h_n st then RFind None None else RFind (Some i) (get st i), rs)
         | OutOfFuel => OutOfFuel
         | Undef => Undef
         end, lg, o)
    | OFindRec k =>
        let (fr, lg) := find_record st k in
        (match fr with
         | Ret r => Ret (RRec r, rs)
         | OutOfFuel => OutOfFuel
         | Undef => Undef
         end, lg, o)
    | ORemove k =>
        let '(x, lg, o') := remove st k o in
        (match x with
         | Ret (s, r, st') => Ret (RRemoved s r, (st', match s with NOT_FOUND => pend | _ => None end))
         | OutOfFuel => OutOfFuel
         | Undef => Undef
         end, lg, o')
    | OErase k =>
        let (fi, lg) := find st k in
        match fi with
        | Ret i =>
            if i =? h_n st then (Ret (RRemoved NOT_FOUND None, rs), lg, o)
            else
              let '(x, lg', o') := erase st i o in
              (match x with
               | Ret (s, r, st') => Ret (RRemoved s r, (st', None))
               | OutOfFuel => OutOfFuel
               | Undef => Undef
               end, lg ++ lg', o')
        | OutOfFuel => (OutOfFuel, lg, o)
        | Undef => (Undef, lg, o)
        end
    | OSize => (Ret (RSize (size st), rs), [], o)
    | OIter =>
        (match iterate st with
         | Ret l => Ret (RIter l, rs)
         | OutOfFuel => OutOfFuel
         | Undef => Undef
         end, [], o)
    end.

  (* a whole history; stops at the first call that does not return *)
  Fixpoint run (rs : rstate) (cs : list op) (o : list bool)
    : outcome (list (oresult * list event)) * rstate :=
    match cs with
    | [] => (Ret [], rs)
    | c :: cs' =>
        let '(x, lg, o') := step rs c o in
        match x with
        | Ret (res, rs') =>
            let (y, rs'') := run rs' cs' o' in
            (match y with
             | Ret l => Ret ((res, lg) :: l)
             | OutOfFuel => OutOfFuel
             | Undef => Undef
             end, rs'')
        | OutOfFuel => (OutOfFuel, rs)
        | Undef => (Undef, rs)
        end
    end.
End WithHash.

(* ---- the records of a table, in slot order (the abstraction function), and the documented
   roles of callback arguments, as a checker over the log of one call *)
Definition live_recs (l : list slot) : list rec :=
  flat_map (fun e => match s_value e with Some r => [r] | None => [] end) l.

Definition rec_in (r : rec) (l : list rec) : bool := existsb (rec_eqb r) l.

Definition kref_eqb (a b : kref) : bool :=
  match a, b with
  | KOfRec r, KOfRec r' => rec_eqb r r'
  | KArg k, KArg k' => k =? k'
  | _, _ => false
  end.

Definition stored_key (allowed : list rec) (k : kref) : bool :=
  match k with KOfRec r => rec_in r allowed | KArg _ => false end.

(* [allowed]: records the user inserted (and has not removed) plus the record of the current call;
   [callkey]: the key of the current call.
   key_func gets such a record; hash_func gets the call's key; equal_func/predicate gets
   (key of such a record, call's key) -- or, while re-inserting during a resize, two such keys. *)
Definition ev_okb (allowed : list rec) (callkey : kref) (e : event) : bool :=
  match e with
  | EvKeyOf r => rec_in r allowed
  | EvHash k => kref_eqb k callkey
  | EvEqual a b => stored_key allowed a && (kref_eqb b callkey || stored_key allowed b)
  end.

Definition op_rec (c : op) : list rec :=
  match c with OInsert r | OInsertAt r => [r] | _ => [] end.

Definition op_callkey (c : op) : kref :=
  match c with
  | OInsert r | OInsertAt r => KOfRec r
  | OPlan k | OPlanPre k | OFind k | OFindRec k | ORemove k | OErase k => KArg k
  | OSize | OIter => KArg 0
  end.

Definition roles_okb (st : hstate) (c : op) (lg : list event) : bool :=
  forallb (ev_okb (op_rec c ++ live_recs (h_ent st)) (op_callkey c)) lg.

(* ---- the concrete hash functions used by the correspondence check *)
Definition hf_const (k : Z) : Z := 7.
Definition hf_id (k : Z) : Z := k.
Definition hf_mod4 (k : Z) : Z := k mod 4.
Definition hf_mult (k : Z) : Z := Z.shiftr ((k * 11400714819323198485) mod 2 ^ 64) 29.
(* hits the two special code values: 0 (the hash field of an empty slot) and 0xDEAD (tombstone) *)
Definition hf_special (k : Z) : Z :=
  if k mod 3 =? 0 then 0 else if k mod 3 =? 1 then tombstone else k.

(* the role checker along a whole history: every call's log is checked against the table the call
   was made on *)
Fixpoint roles_run (hf : Z -> Z) (rs : rstate) (cs : list op) (o : list bool) : bool :=
  match cs with
  | [] => true
  | c :: cs' =>
      let '(x, lg, o') := step hf rs c o in
      roles_okb (fst rs) c lg &&
      match x with
      | Ret (_, rs') => roles_run hf rs' cs' o'
      | _ => true
      end
  end.
