(* C03 proofs, part 1: lists of slots, Z-indexed access, cyclic positions, records of a table. *)
From Coq Require Import ZArith List Bool Lia Permutation.
From Coq Require Import ZifyBool.
From Zix Require Import HashSpec HashModel.
Import ListNotations.
Local Open Scope Z_scope.
Ltac Zify.zify_post_hook ::= Z.div_mod_to_equations.

(* ------------------------------------------------------------------ upd / nth *)
Lemma upd_length : forall l i v, length (upd l i v) = length l.
Proof. induction l; destruct i; simpl; intros; auto. Qed.

Lemma nth_upd_same : forall l i v d, (i < length l)%nat -> nth i (upd l i v) d = v.
Proof. induction l; destruct i; simpl; intros; try lia; auto. apply IHl. lia. Qed.

Lemma nth_upd_other : forall l i j v d, i <> j -> nth j (upd l i v) d = nth j l d.
Proof.
  induction l; destruct i; destruct j; simpl; intros; auto; try congruence.
Qed.

Lemma upd_split : forall l i v, (i < length l)%nat -> upd l i v = firstn i l ++ v :: skipn (S i) l.
Proof.
  induction l; destruct i; simpl; intros; try lia; auto.
  f_equal. apply IHl. lia.
Qed.

Lemma nth_split : forall (l : list slot) i d, (i < length l)%nat -> l = firstn i l ++ nth i l d :: skipn (S i) l.
Proof.
  induction l; destruct i; simpl; intros; try lia; auto.
  f_equal. apply IHl. lia.
Qed.

Lemma upd_upd_restore : forall l i v d, (i < length l)%nat -> upd (upd l i v) i (nth i l d) = l.
Proof.
  induction l; destruct i; simpl; intros; try lia; auto.
  f_equal. apply IHl. lia.
Qed.

(* ------------------------------------------------------------------ zget / zset *)
Lemma zset_length : forall l i v, length (zset l i v) = length l.
Proof. intros. apply upd_length. Qed.

Lemma zget_zset : forall l i j v,
  0 <= i < Z.of_nat (length l) -> 0 <= j ->
  zget (zset l i v) j = if i =? j then v else zget l j.
Proof.
  intros. unfold zget, zset. destruct (i =? j) eqn:E.
  - assert (i = j) by lia. subst. apply nth_upd_same. lia.
  - apply nth_upd_other. lia.
Qed.

Lemma zget_zset_same : forall l i v, 0 <= i < Z.of_nat (length l) -> zget (zset l i v) i = v.
Proof. intros. rewrite zget_zset by lia. rewrite Z.eqb_refl. reflexivity. Qed.

Lemma zget_zset_other : forall l i j v,
  0 <= i < Z.of_nat (length l) -> 0 <= j -> i <> j -> zget (zset l i v) j = zget l j.
Proof. intros. rewrite zget_zset by lia. destruct (i =? j) eqn:E; [lia|reflexivity]. Qed.

Lemma zset_restore : forall l i v, 0 <= i < Z.of_nat (length l) -> zset (zset l i v) i (zget l i) = l.
Proof. intros. unfold zset, zget. apply upd_upd_restore. lia. Qed.

Lemma zget_repeat_empty : forall n i, zget (repeat Empty n) i = Empty.
Proof.
  intros. unfold zget. generalize (Z.to_nat i) as m. induction n; destruct m; simpl; auto.
Qed.

Lemma zget_oob : forall l i, Z.of_nat (length l) <= i -> zget l i = Empty.
Proof. intros. unfold zget. apply nth_overflow. lia. Qed.

(* ------------------------------------------------------------------ slot classification *)
Lemma is_empty_iff : forall e, is_empty e = true <-> e = Empty.
Proof. destruct e; cbv; split; intros; congruence. Qed.

Lemma is_empty_false_iff : forall e, is_empty e = false <-> e <> Empty.
Proof. intro e. rewrite <- is_empty_iff. destruct (is_empty e); split; congruence. Qed.

Lemma has_value_iff : forall e, has_value e = true <-> exists c r, e = Live c r.
Proof.
  destruct e; cbv; split; intros; try congruence; try (destruct H as (?&?&?); congruence).
  eauto.
Qed.

Lemma has_value_false : forall e, has_value e = false <-> e = Empty \/ e = Tomb.
Proof. destruct e; cbv; split; intros; try congruence; auto; destruct H; congruence. Qed.

(* the boolean "this slot holds a record with this code whose key satisfies the predicate" *)
Definition matchp (e : slot) (code : Z) (pred : Z -> bool) : bool :=
  match e with Live c r => (c =? code) && pred (rkey r) | _ => false end.

Lemma is_match_fst : forall e code pred ud, fst (is_match e code pred ud) = matchp e code pred.
Proof.
  destruct e; simpl; intros; auto. unfold is_match; simpl.
  destruct (code =? code0); reflexivity.
Qed.

Lemma matchp_true : forall e code pred,
  matchp e code pred = true <-> exists r, e = Live code r /\ pred (rkey r) = true.
Proof.
  destruct e; simpl; intros; split; intros H; try congruence; try (destruct H as (?&?&?); congruence).
  - apply andb_true_iff in H as [A B]. exists r. split; [f_equal; lia|assumption].
  - destruct H as (r'&E&K). inversion E; subst. rewrite Z.eqb_refl, K. reflexivity.
Qed.

(* a walk stops at an empty slot or at a match *)
Definition stopb (code : Z) (pred : Z -> bool) (e : slot) : bool := is_empty e || matchp e code pred.

(* ------------------------------------------------------------------ cyclic positions (no mod: linear) *)
Definition pos (n h k : Z) : Z := if h + k <? n then h + k else h + k - n.
Definition dist (n h j : Z) : Z := if h <=? j then j - h else j - h + n.

Lemma pos_range : forall n h k, 0 <= h < n -> 0 <= k < n -> 0 <= pos n h k < n.
Proof. intros. unfold pos. destruct (h + k <? n) eqn:E; lia. Qed.

Lemma pos_0 : forall n h, 0 <= h < n -> pos n h 0 = h.
Proof. intros. unfold pos. destruct (h + 0 <? n) eqn:E; lia. Qed.

Lemma dist_range : forall n h j, 0 <= h < n -> 0 <= j < n -> 0 <= dist n h j < n.
Proof. intros. unfold dist. destruct (h <=? j) eqn:E; lia. Qed.

Lemma pos_dist : forall n h j, 0 <= h < n -> 0 <= j < n -> pos n h (dist n h j) = j.
Proof.
  intros. unfold pos, dist. destruct (h <=? j) eqn:E.
  - destruct (h + (j - h) <? n) eqn:F; lia.
  - destruct (h + (j - h + n) <? n) eqn:F; lia.
Qed.

Lemma dist_pos : forall n h k, 0 <= h < n -> 0 <= k < n -> dist n h (pos n h k) = k.
Proof.
  intros. unfold pos, dist. destruct (h + k <? n) eqn:E.
  - destruct (h <=? h + k) eqn:F; lia.
  - destruct (h <=? h + k - n) eqn:F; lia.
Qed.

Lemma pos_inj : forall n h k1 k2, 0 <= h < n -> 0 <= k1 < n -> 0 <= k2 < n ->
  pos n h k1 = pos n h k2 -> k1 = k2.
Proof.
  intros. rewrite <- (dist_pos n h k1), <- (dist_pos n h k2) by lia. congruence.
Qed.

Lemma next_index_pos : forall n h k, 0 <= h < n -> 0 <= k -> k + 1 < n ->
  next_index (n - 1) (pos n h k) = pos n h (k + 1).
Proof.
  intros. unfold next_index, pos.
  destruct (h + k <? n) eqn:E; destruct (h + (k + 1) <? n) eqn:F;
  match goal with |- (if ?c then _ else _) = _ => destruct c eqn:G end; lia.
Qed.

Lemma next_index_wrap : forall n h k, 0 <= h < n -> 0 <= k < n ->
  (next_index (n - 1) (pos n h k) =? h) = (k + 1 =? n).
Proof.
  intros. unfold next_index, pos.
  destruct (h + k <? n) eqn:E;
  match goal with |- ((if ?c then _ else _) =? _) = _ => destruct c eqn:G end; lia.
Qed.

(* ------------------------------------------------------------------ power-of-two sizes *)
Definition pow2size (n : Z) : Prop := exists k, 2 <= k /\ n = 2 ^ k.

Lemma pow2size_ge4 : forall n, pow2size n -> 4 <= n /\ n mod 4 = 0.
Proof.
  intros n (k & K & ->). replace k with (2 + (k - 2)) by lia.
  rewrite Z.pow_add_r by lia. change (2 ^ 2) with 4.
  assert (0 < 2 ^ (k - 2)) by (apply Z.pow_pos_nonneg; lia).
  split; [lia|]. rewrite Z.mul_comm. apply Z.mod_mul. lia.
Qed.

Lemma pow2size_double : forall n, pow2size n -> pow2size (Z.shiftl n 1).
Proof.
  intros n (k & K & ->). exists (k + 1). split; [lia|].
  rewrite Z.shiftl_mul_pow2 by lia. rewrite Z.pow_add_r by lia. reflexivity.
Qed.

Lemma pow2size_half : forall n, pow2size n -> 4 < n -> pow2size (Z.shiftr n 1) /\ Z.shiftr n 1 * 2 = n.
Proof.
  intros n (k & K & ->) H.
  assert (k <> 2) by (intros ->; simpl in H; lia).
  rewrite Z.shiftr_div_pow2 by lia. change (2 ^ 1) with 2.
  assert (E : 2 ^ k = 2 ^ (k - 1) * 2).
  { replace k with ((k - 1) + 1) at 1 by lia. rewrite Z.pow_add_r by lia. reflexivity. }
  rewrite E. rewrite Z.div_mul by lia. split; [|reflexivity].
  exists (k - 1). split; [lia|reflexivity].
Qed.

Lemma shiftl1 : forall n, Z.shiftl n 1 = 2 * n.
Proof. intros. rewrite Z.shiftl_mul_pow2 by lia. change (2 ^ 1) with 2. lia. Qed.

Lemma fold_hash_range : forall n c, pow2size n -> 0 <= fold_hash c (n - 1) < n.
Proof.
  intros n c (k & K & ->). unfold fold_hash.
  replace (2 ^ k - 1) with (Z.ones k) by (rewrite Z.ones_equiv; lia).
  rewrite Z.land_ones by lia. apply Z.mod_pos_bound. apply Z.pow_pos_nonneg; lia.
Qed.

(* ------------------------------------------------------------------ the records of a table *)
Definition vals (e : slot) : list rec := match s_value e with Some r => [r] | None => [] end.

Lemma live_recs_app : forall a b, live_recs (a ++ b) = live_recs a ++ live_recs b.
Proof. intros. unfold live_recs. apply flat_map_app. Qed.

Lemma live_recs_cons : forall e l, live_recs (e :: l) = vals e ++ live_recs l.
Proof. reflexivity. Qed.

Lemma live_recs_repeat_empty : forall n, live_recs (repeat Empty n) = [].
Proof. induction n; simpl; auto. Qed.

Lemma live_recs_split : forall l i, (i < length l)%nat ->
  live_recs l = live_recs (firstn i l) ++ vals (nth i l Empty) ++ live_recs (skipn (S i) l).
Proof.
  intros. rewrite (nth_split l i Empty H) at 1. rewrite live_recs_app, live_recs_cons. reflexivity.
Qed.

Lemma live_recs_upd : forall l i v, (i < length l)%nat ->
  live_recs (upd l i v) = live_recs (firstn i l) ++ vals v ++ live_recs (skipn (S i) l).
Proof.
  intros. rewrite upd_split by assumption. rewrite live_recs_app, live_recs_cons. reflexivity.
Qed.

(* storing a record in a slot without one *)
Lemma live_recs_store : forall l i c r, 0 <= i < Z.of_nat (length l) -> has_value (zget l i) = false ->
  Permutation (live_recs (zset l i (Live c r))) (r :: live_recs l).
Proof.
  intros l i c r Hi Hv. unfold zset, zget in *.
  assert (L : (Z.to_nat i < length l)%nat) by lia.
  rewrite live_recs_upd by assumption. rewrite (live_recs_split l _ L).
  assert (vals (nth (Z.to_nat i) l Empty) = []).
  { unfold vals. unfold has_value in Hv. destruct (s_value (nth (Z.to_nat i) l Empty)); congruence. }
  rewrite H. simpl. symmetry. apply Permutation_middle.
Qed.

(* replacing a record by a tombstone *)
Lemma live_recs_kill : forall l i c r v, 0 <= i < Z.of_nat (length l) -> zget l i = Live c r ->
  has_value v = false ->
  Permutation (live_recs l) (r :: live_recs (zset l i v)).
Proof.
  intros l i c r v Hi Hv Hn. unfold zset, zget in *.
  assert (L : (Z.to_nat i < length l)%nat) by lia.
  rewrite live_recs_upd by assumption. rewrite (live_recs_split l _ L). rewrite Hv.
  assert (vals v = []).
  { unfold vals. unfold has_value in Hn. destruct (s_value v); congruence. }
  rewrite H. simpl. symmetry. apply Permutation_middle.
Qed.

Lemma In_live_recs_nth : forall l r,
  In r (live_recs l) <-> exists i c, (i < length l)%nat /\ nth i l Empty = Live c r.
Proof.
  intros. unfold live_recs. rewrite in_flat_map. split.
  - intros (e & He & Hr). destruct e; simpl in Hr; try contradiction. destruct Hr as [->|[]].
    destruct (In_nth l _ Empty He) as (i & Hi & E). eauto.
  - intros (i & c & Hi & E). exists (Live c r). split; [|simpl; auto].
    rewrite <- E. apply nth_In. assumption.
Qed.

Lemma In_live_recs : forall l r,
  In r (live_recs l) <-> exists i c, 0 <= i < Z.of_nat (length l) /\ zget l i = Live c r.
Proof.
  intros. rewrite In_live_recs_nth. unfold zget. split.
  - intros (i & c & Hi & E). exists (Z.of_nat i), c. rewrite Nat2Z.id. split; [lia|assumption].
  - intros (i & c & Hi & E). exists (Z.to_nat i), c. split; [lia|assumption].
Qed.

Lemma nth_firstn_lt : forall (l : list slot) i j d, (i < j)%nat -> nth i (firstn j l) d = nth i l d.
Proof.
  induction l; intros; destruct i; destruct j; simpl; auto; try lia. apply IHl. lia.
Qed.

(* distinct keys: two slots holding the same key are the same slot *)
Lemma live_unique_lt : forall l i j c1 r1 c2 r2,
  NoDup (map rkey (live_recs l)) -> (i < j)%nat -> (j < length l)%nat ->
  nth i l Empty = Live c1 r1 -> nth j l Empty = Live c2 r2 -> rkey r1 = rkey r2 -> False.
Proof.
  intros l i j c1 r1 c2 r2 ND Hij Hj E1 E2 K.
  rewrite (live_recs_split l j Hj) in ND. rewrite E2 in ND. simpl in ND.
  rewrite map_app in ND. simpl in ND. apply NoDup_remove_2 in ND. apply ND.
  apply in_or_app. left. rewrite <- K. apply in_map.
  apply In_live_recs_nth. exists i, c1. split.
  - rewrite firstn_length. lia.
  - rewrite nth_firstn_lt by assumption. assumption.
Qed.

Lemma live_unique : forall l i j c1 r1 c2 r2,
  NoDup (map rkey (live_recs l)) ->
  0 <= i < Z.of_nat (length l) -> 0 <= j < Z.of_nat (length l) ->
  zget l i = Live c1 r1 -> zget l j = Live c2 r2 -> rkey r1 = rkey r2 -> i = j.
Proof.
  intros l i j c1 r1 c2 r2 ND Hi Hj E1 E2 K. unfold zget in *.
  destruct (Z.lt_trichotomy i j) as [L|[L|L]]; auto; exfalso.
  - eapply (live_unique_lt l (Z.to_nat i) (Z.to_nat j)); eauto; lia.
  - eapply (live_unique_lt l (Z.to_nat j) (Z.to_nat i)); eauto; lia.
Qed.

(* a table in which every slot holds a record has as many records as slots *)
Lemma all_live_length : forall l,
  (forall i, (i < length l)%nat -> has_value (nth i l Empty) = true) ->
  length (live_recs l) = length l.
Proof.
  induction l; intros H; [reflexivity|].
  rewrite live_recs_cons, app_length.
  assert (H0 := H 0%nat ltac:(simpl; lia)). simpl in H0.
  apply has_value_iff in H0 as (c & r & ->). simpl. f_equal. apply IHl.
  intros i Hi. apply (H (S i)). simpl. lia.
Qed.

Lemma live_recs_length_le : forall l, (length (live_recs l) <= length l)%nat.
Proof.
  induction l; [simpl; auto|]. rewrite live_recs_cons, app_length.
  destruct a; simpl; lia.
Qed.

Lemma all_live_length_z : forall l,
  (forall i, 0 <= i < Z.of_nat (length l) -> has_value (zget l i) = true) ->
  Z.of_nat (length (live_recs l)) = Z.of_nat (length l).
Proof.
  intros. f_equal. apply all_live_length. intros i Hi.
  specialize (H (Z.of_nat i) ltac:(lia)). unfold zget in H. rewrite Nat2Z.id in H. assumption.
Qed.
