(* BTreeProofsHist — operation histories: the invariant is reachable-closed, and the listing of the tree
   follows the sorted-list spec along any history. *)
From Coq Require Import ZArith List Bool Arith Lia ZifyBool ZifyNat.
From Zix Require Import BTreeSpec BTreeModel BTreeProofsBase BTreeProofsInsert BTreeProofsRemove BTreeProofsMisc.
Import ListNotations.
Ltac Zify.zify_post_hook ::= Z.div_mod_to_equations.
Set Default Proof Using "All".

Section Hist.
  Variable elt : Type.
  Variable rank : elt -> Z.
  Variable dflt : elt.
  Variables L I : nat.
  Hypothesis HI : I = L / 2.
  Hypothesis HI3 : 3 <= I.
  Notation node := (node elt).
  Notation tree := (tree elt).

  (* one call of the public API; insert carries the allocation script in force during the call *)
  Inductive op :=
  | OInsert (o : list bool) (e : elt)
  | ORemove (e : elt)
  | OFind (e : elt)
  | OClear (with_destroy : bool).

  Definition step (t : tree) (x : op) : tree :=
    match x with
    | OInsert o e => snd (fst (fst (insert rank dflt L I o t e)))
    | ORemove e => snd (fst (fst (remove rank dflt L I t e)))
    | OFind _ => t
    | OClear d => fst (clear t d)
    end.

  Definition run (ops : list op) : tree := fold_left step ops empty_tree.

  (* the same history on the sorted-list spec; an insert whose allocation failed leaves the set alone *)
  Definition spec_step (t : tree) (s : list elt) (x : op) : list elt :=
    match x with
    | OInsert o e =>
      match fst (fst (fst (insert rank dflt L I o t e))) with
      | NO_MEM => s
      | _ => snd (set_insert elt rank s e)
      end
    | ORemove e => snd (set_remove elt rank s (rank e))
    | OFind _ => s
    | OClear _ => []
    end.

  Fixpoint spec_run_from (t : tree) (s : list elt) (ops : list op) : list elt :=
    match ops with
    | [] => s
    | x :: ops' => spec_run_from (step t x) (spec_step t s x) ops'
    end.

  (* histories without allocation failure: the plain fold of the spec *)
  Definition plain_step (s : list elt) (x : op) : list elt :=
    match x with
    | OInsert _ e => snd (set_insert elt rank s e)
    | ORemove e => snd (set_remove elt rank s (rank e))
    | OFind _ => s
    | OClear _ => []
    end.
  Definition no_fail (x : op) : Prop :=
    match x with OInsert o _ => forall b, In b o -> b = true | _ => True end.

  Lemma step_inv : forall t x, Inv rank L I t ->
    Inv rank L I (step t x) /\ elements (root (step t x)) = spec_step t (elements (root t)) x.
  Proof.
    intros t x Hinv. destruct x as [o e|e|e|d]; cbn [step spec_step].
    - pose proof (insert_refines elt rank dflt L I HI HI3 o t e Hinv) as H.
      destruct (insert rank dflt L I o t e) as [[[st t'] o'] lg]. cbn [fst snd].
      destruct H as (Hi & Hst & Hok & Hnm & _). split; [assumption|].
      destruct st; try (rewrite <- (Hok ltac:(discriminate)); reflexivity).
      apply Hnm. reflexivity.
    - pose proof (remove_refines elt rank dflt L I HI HI3 t e Hinv) as H.
      destruct (remove rank dflt L I t e) as [[[[st out] t'] it] lg]. cbn [fst snd].
      destruct H as (Hi & Heq & _). split; [assumption|]. rewrite <- Heq. reflexivity.
    - auto.
    - split; [apply (Inv_empty _ rank dflt L I HI HI3)|reflexivity].
  Qed.

  Lemma run_from_inv : forall ops t, Inv rank L I t ->
    Inv rank L I (fold_left step ops t) /\
    elements (root (fold_left step ops t)) = spec_run_from t (elements (root t)) ops.
  Proof.
    induction ops as [|x ops IH]; intros t Hinv; cbn [fold_left spec_run_from]; [auto|].
    destruct (step_inv t x Hinv) as [Hi He]. destruct (IH _ Hi) as [Hi' He'].
    split; [assumption|]. rewrite He', He. reflexivity.
  Qed.

  Theorem inv_reachable : forall ops, Inv rank L I (run ops).
  Proof. intros ops. apply run_from_inv. apply (Inv_empty _ rank dflt L I HI HI3). Qed.

  Theorem run_refines_gen : forall ops,
    elements (root (run ops)) = spec_run_from empty_tree [] ops.
  Proof. intros ops. apply (run_from_inv ops empty_tree). apply (Inv_empty _ rank dflt L I HI HI3). Qed.

  Lemma spec_step_plain : forall t x, Inv rank L I t -> no_fail x ->
    spec_step t (elements (root t)) x = plain_step (elements (root t)) x.
  Proof.
    intros t x Hinv Hnf. destruct x as [o e|e|e|d]; cbn [spec_step plain_step]; auto.
    pose proof (insert_refines elt rank dflt L I HI HI3 o t e Hinv) as H.
    destruct (insert rank dflt L I o t e) as [[[st t'] o'] lg]. cbn [fst snd].
    destruct H as (_ & _ & _ & _ & Hnf' & _). cbn [no_fail] in Hnf. specialize (Hnf' Hnf).
    destruct st; try reflexivity. congruence.
  Qed.

  Lemma run_from_plain : forall ops t, Inv rank L I t -> Forall no_fail ops ->
    elements (root (fold_left step ops t)) = fold_left plain_step ops (elements (root t)).
  Proof.
    induction ops as [|x ops IH]; intros t Hinv Hnf; cbn [fold_left]; [reflexivity|].
    inversion Hnf as [|? ? Hx Hops]; subst x0 l.
    destruct (step_inv t x Hinv) as [Hi He].
    rewrite IH by assumption. rewrite He. rewrite spec_step_plain by assumption. reflexivity.
  Qed.

  Theorem run_refines : forall ops, Forall no_fail ops ->
    elements (root (run ops)) = fold_left plain_step ops [].
  Proof.
    intros ops Hnf. apply (run_from_plain ops empty_tree); [apply (Inv_empty _ rank dflt L I HI HI3)|assumption].
  Qed.
End Hist.

Global Arguments OInsert {elt}.
Global Arguments ORemove {elt}.
Global Arguments OFind {elt}.
Global Arguments OClear {elt}.
Global Arguments step {elt}.
Global Arguments run {elt}.
Global Arguments plain_step {elt}.
Global Arguments no_fail {elt}.
Global Arguments spec_step {elt}.
Global Arguments spec_run_from {elt}.
