(* BTreeProofsHist — operation histories: the invariant is reachable-closed, and the listing of the tree
   follows the sorted-list spec along any history. *)
From Coq Require Import ZArith List Bool Arith Lia ZifyBool ZifyNat.
From Zix Require Import BTreeSpec BTreeModel BTreeProofsBase BTreeProofsInsert BTreeProofsRemove BTreeProofsMisc.
Import ListNotations.
Ltac Zify.zify_post_hook ::= Z.div_mod_to_equations.
Set Default Proof Using "All".

Section Hist.
  Variable elt : Type.
  Variable rank : elt -> Z.
  Variable dflt : elt.
  Variables L I : nat.
  Hypothesis HI : I = L / 2.
  Hypothesis HI3 : 3 <= I.
  Variable H : nat.                    (* ZIX_BTREE_MAX_HEIGHT *)
  Hypothesis HH : 1 <= H.
  Notation node := (node elt).
  Notation tree := (tree elt).

  (* one call of the public API; insert carries the allocation script in force during the call *)
  Inductive op :=
  | OInsert (o : list bool) (e : elt)
  | ORemove (e : elt)
  | OFind (e : elt)
  | OClear (with_destroy : bool).

  Definition step (t : tree) (x : op) : tree :=
    match x with
    | OInsert o e => snd (fst (fst (insert rank dflt L I H o t e)))
    | ORemove e => snd (fst (fst (remove rank dflt L I t e)))
    | OFind _ => t
    | OClear d => fst (clear t d)
    end.

  Definition run (ops : list op) : tree := fold_left step ops empty_tree.

  (* the same history on the sorted-list spec; an insert that reported NO_MEM or OVERFLOW leaves the set alone *)
  Definition spec_step (t : tree) (s : list elt) (x : op) : list elt :=
    match x with
    | OInsert o e =>
      match fst (fst (fst (insert rank dflt L I H o t e))) with
      | NO_MEM | OVERFLOW => s
      | _ => snd (set_insert elt rank s e)
      end
    | ORemove e => snd (set_remove elt rank s (rank e))
    | OFind _ => s
    | OClear _ => []
    end.

  Fixpoint spec_run_from (t : tree) (s : list elt) (ops : list op) : list elt :=
    match ops with
    | [] => s
    | x :: ops' => spec_run_from (step t x) (spec_step t s x) ops'
    end.

  (* histories without allocation failure that stay below the capacity cap(L,I,H): the plain fold of the spec *)
  Definition plain_step (s : list elt) (x : op) : list elt :=
    match x with
    | OInsert _ e => snd (set_insert elt rank s e)
    | ORemove e => snd (set_remove elt rank s (rank e))
    | OFind _ => s
    | OClear _ => []
    end.
  Definition no_fail (x : op) : Prop :=
    match x with OInsert o _ => forall b, In b o -> b = true | _ => True end.
  (* the set is smaller than cap(L,I,H) before every call *)
  Fixpoint below_cap (s : list elt) (ops : list op) : Prop :=
    match ops with
    | [] => True
    | x :: ops' => length s < cap L I H /\ below_cap (plain_step s x) ops'
    end.

  (* the reachable invariant: the C01 invariant and at most H levels *)
  Definition InvH (t : tree) : Prop := Inv rank L I t /\ height (root t) <= H.

  Lemma InvH_empty : InvH empty_tree.
  Proof. split; [apply (Inv_empty _ rank dflt L I HI HI3)|cbn; lia]. Qed.

  Lemma step_inv : forall t x, InvH t ->
    InvH (step t x) /\ elements (root (step t x)) = spec_step t (elements (root t)) x.
  Proof.
    intros t x [Hinv Hht]. destruct x as [o e|e|e|d]; cbn [step spec_step].
    - pose proof (insert_refines elt rank dflt L I HI HI3 H o t e Hinv) as R.
      destruct (insert rank dflt L I H o t e) as [[[st t'] o'] lg]. cbn [fst snd].
      destruct R as (Hi & Hst & Hok & Hnm & _ & _ & Hov & Hh). split; [split; auto|].
      destruct st; try (rewrite <- (Hok ltac:(discriminate) ltac:(discriminate)); reflexivity).
      + apply Hnm. reflexivity.
      + destruct (Hov eq_refl) as [-> _]. reflexivity.
    - pose proof (remove_refines elt rank dflt L I HI HI3 t e Hinv) as R.
      pose proof (remove_height elt rank dflt L I HI HI3 t e Hinv) as Rh.
      destruct (remove rank dflt L I t e) as [[[[st out] t'] it] lg]. cbn [fst snd] in *.
      destruct R as (Hi & Heq & _). split; [split; [assumption|lia]|]. rewrite <- Heq. reflexivity.
    - split; [split; assumption|reflexivity].
    - split; [apply InvH_empty|reflexivity].
  Qed.

  Lemma run_from_inv : forall ops t, InvH t ->
    InvH (fold_left step ops t) /\
    elements (root (fold_left step ops t)) = spec_run_from t (elements (root t)) ops.
  Proof.
    induction ops as [|x ops IH]; intros t Hinv; cbn [fold_left spec_run_from]; [auto|].
    destruct (step_inv t x Hinv) as [Hi He]. destruct (IH _ Hi) as [Hi' He'].
    split; [assumption|]. rewrite He', He. reflexivity.
  Qed.

  Theorem invH_reachable : forall ops, InvH (run ops).
  Proof. intros ops. apply run_from_inv. apply InvH_empty. Qed.

  Theorem inv_reachable : forall ops, Inv rank L I (run ops).
  Proof. intros ops. apply invH_reachable. Qed.

  (* every reachable tree has at most H levels, and no iterator path is longer than H *)
  Theorem depth_reachable : forall ops,
    height (root (run ops)) <= H /\ forall p, valid (root (run ops)) p -> length p <= H.
  Proof.
    intros ops. destruct (invH_reachable ops) as [Hinv Hh]. split; [assumption|].
    intros p V.
    pose proof (valid_length elt rank dflt L I HI HI3 (root (run ops)) p
                  (Inv_shape _ rank dflt L I HI HI3 _ Hinv) V). lia.
  Qed.

  Theorem run_refines_gen : forall ops,
    elements (root (run ops)) = spec_run_from empty_tree [] ops.
  Proof. intros ops. apply (run_from_inv ops empty_tree). apply InvH_empty. Qed.

  (* below the capacity an insert cannot be refused with OVERFLOW *)
  Lemma no_overflow_below_cap : forall o t e, Inv rank L I t ->
    length (elements (root t)) < cap L I H ->
    fst (fst (fst (insert rank dflt L I H o t e))) <> OVERFLOW.
  Proof.
    intros o t e Hinv Hsz.
    pose proof (insert_refines elt rank dflt L I HI HI3 H o t e Hinv) as R.
    destruct (insert rank dflt L I H o t e) as [[[st t'] o'] lg]. cbn [fst].
    destruct R as (_ & _ & _ & _ & _ & _ & Hov & _). intros ->.
    destruct (Hov eq_refl) as (_ & _ & _ & Hf & Hh).
    pose proof (full_root_cap elt rank dflt L I HI HI3 t H Hinv HH Hf Hh). lia.
  Qed.

  Lemma spec_step_plain : forall t x, Inv rank L I t -> no_fail x ->
    length (elements (root t)) < cap L I H ->
    spec_step t (elements (root t)) x = plain_step (elements (root t)) x.
  Proof.
    intros t x Hinv Hnf Hsz. destruct x as [o e|e|e|d]; cbn [spec_step plain_step]; auto.
    pose proof (no_overflow_below_cap o t e Hinv Hsz) as Hno.
    pose proof (insert_refines elt rank dflt L I HI HI3 H o t e Hinv) as R.
    destruct (insert rank dflt L I H o t e) as [[[st t'] o'] lg]. cbn [fst snd] in *.
    destruct R as (_ & _ & _ & _ & Hnf' & _). cbn [no_fail] in Hnf. specialize (Hnf' Hnf).
    destruct st; try reflexivity; congruence.
  Qed.

  Lemma run_from_plain : forall ops t, InvH t -> Forall no_fail ops ->
    below_cap (elements (root t)) ops ->
    elements (root (fold_left step ops t)) = fold_left plain_step ops (elements (root t)).
  Proof.
    induction ops as [|x ops IH]; intros t Hinv Hnf Hb; cbn [fold_left]; [reflexivity|].
    inversion Hnf as [|? ? Hx Hops]; subst x0 l. cbn [below_cap] in Hb. destruct Hb as [Hsz Hb].
    destruct (step_inv t x Hinv) as [Hi He].
    assert (E : elements (root (step t x)) = plain_step (elements (root t)) x).
    { rewrite He. apply spec_step_plain; [apply Hinv|assumption|assumption]. }
    rewrite IH; [|assumption|assumption|rewrite E; assumption]. rewrite E. reflexivity.
  Qed.

  Theorem run_refines : forall ops, Forall no_fail ops -> below_cap [] ops ->
    elements (root (run ops)) = fold_left plain_step ops [].
  Proof.
    intros ops Hnf Hb. apply (run_from_plain ops empty_tree); [apply InvH_empty|assumption|assumption].
  Qed.
End Hist.

Global Arguments OInsert {elt}.
Global Arguments ORemove {elt}.
Global Arguments OFind {elt}.
Global Arguments OClear {elt}.
Global Arguments step {elt}.
Global Arguments run {elt}.
Global Arguments plain_step {elt}.
Global Arguments no_fail {elt}.
Global Arguments below_cap {elt}.
Global Arguments InvH {elt}.
Global Arguments spec_step {elt}.
Global Arguments spec_run_from {elt}.
