(* C13: reference transcription of the published algorithms (MurmurHash3_x86_32, Appleby; fasthash64,
   Zilong Tan) as functions of a seed and a byte list.  Written from the published sources, not from
   zix: no addresses, no pointers, no loops -- a fold over the little-endian words of the input. *)
From Coq Require Import ZArith List.
Import ListNotations.
Local Open Scope Z_scope.

Definition byte (b : Z) : Prop := 0 <= b < 256.

(* little-endian value of a byte string *)
Fixpoint le_word (bs : list Z) : Z :=
  match bs with [] => 0 | b :: r => b + 256 * le_word r end.

(* the first n w-byte words of l *)
Fixpoint words (w n : nat) (l : list Z) : list Z :=
  match n with
  | O => []
  | S n' => le_word (firstn w l) :: words w n' (skipn w l)
  end.

Definition xorshr (s x : Z) : Z := Z.lxor x (x / 2 ^ s).

(* ---- fasthash64 ---- *)
Definition M64 : Z := 2 ^ 64.
Definition fh_m : Z := 0x880355f21e6d1965.

(* #define mix(h) ({ (h) ^= (h) >> 23; (h) *= 0x2127599bf4325c37ULL; (h) ^= (h) >> 47; }) *)
Definition fh_mix (h : Z) : Z := xorshr 47 ((xorshr 23 h * 0x2127599bf4325c37) mod M64).

(* h ^= mix(v); h *= m; *)
Definition fh_step (h v : Z) : Z := (Z.lxor h (fh_mix v) * fh_m) mod M64.

Definition fasthash64 (seed : Z) (bytes : list Z) : Z :=
  let n := length bytes in
  let nb := Nat.div n 8 in
  let h := Z.lxor seed ((Z.of_nat n * fh_m) mod M64) in
  let h := fold_left fh_step (words 8 nb bytes) h in
  let h := match skipn (8 * nb) bytes with
           | [] => h
           | tail => fh_step h (le_word tail)
           end in
  fh_mix h.

(* ---- MurmurHash3_x86_32 ---- *)
Definition M32 : Z := 2 ^ 32.
Definition rotl (x r : Z) : Z := ((x * 2 ^ r) mod M32) + x / 2 ^ (32 - r).
Definition mm_c1 : Z := 0xcc9e2d51.
Definition mm_c2 : Z := 0x1b873593.

(* k1 *= c1; k1 = ROTL32(k1,15); k1 *= c2; *)
Definition mm_k (k : Z) : Z := (rotl ((k * mm_c1) mod M32) 15 * mm_c2) mod M32.

(* h1 ^= k1; h1 = ROTL32(h1,13); h1 = h1*5+0xe6546b64; *)
Definition mm_step (h k : Z) : Z := (rotl (Z.lxor h (mm_k k)) 13 * 5 + 0xe6546b64) mod M32.

Definition fmix32 (h : Z) : Z :=
  let h := xorshr 16 h in
  let h := (h * 0x85ebca6b) mod M32 in
  let h := xorshr 13 h in
  let h := (h * 0xc2b2ae35) mod M32 in
  xorshr 16 h.

Definition murmur3_32 (seed : Z) (bytes : list Z) : Z :=
  let n := length bytes in
  let nb := Nat.div n 4 in
  let h := fold_left mm_step (words 4 nb bytes) seed in
  let h := match skipn (4 * nb) bytes with
           | [] => h
           | tail => Z.lxor h (mm_k (le_word tail))
           end in
  fmix32 (Z.lxor h (Z.of_nat n mod M32)).
