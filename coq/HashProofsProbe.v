(* C03 proofs, part 2: the invariant, the two probe loops (find_entry, plan_insert_prehashed)
   characterised as walks over cyclic positions, completeness of a walk under the probe-chain
   invariant. *)
From Coq Require Import ZArith List Bool Lia Permutation.
From Coq Require Import ZifyBool.
From Zix Require Import HashSpec HashModel HashProofsBase.
Import ListNotations.
Local Open Scope Z_scope.
Ltac Zify.zify_post_hook ::= Z.div_mod_to_equations.

(* ------------------------------------------------------------------ invariants *)
Definition shape_ok (st : hstate) : Prop :=
  pow2size (h_n st) /\ h_mask st = h_n st - 1 /\ Z.of_nat (length (h_ent st)) = h_n st.

(* (H3) probe chain: no Empty slot between the home slot of a record and the slot holding it *)
Definition chain_ok (n : Z) (l : list slot) : Prop :=
  forall j c r, 0 <= j < n -> zget l j = Live c r ->
    forall d, 0 <= d < dist n (fold_hash c (n - 1)) j ->
      zget l (pos n (fold_hash c (n - 1)) d) <> Empty.

Section WithHash.
  Variable hf : Z -> Z.

  (* the stored code of a record is the code of its key *)
  Definition codes_ok (l : list slot) : Prop :=
    forall j c r, 0 <= j < Z.of_nat (length l) -> zget l j = Live c r -> c = code_of hf (rkey r).

  (* everything about the slot array of size n: (H3), (H4), codes *)
  Definition slots_ok (n : Z) (l : list slot) : Prop :=
    Z.of_nat (length l) = n /\ chain_ok n l /\ NoDup (map rkey (live_recs l)) /\ codes_ok l.

  Definition Inv (st : hstate) : Prop :=
    shape_ok st /\
    h_count st = Z.of_nat (length (live_recs (h_ent st))) /\         (* H1 *)
    h_count st < h_n st / 2 + h_n st / 8 /\                           (* H2 *)
    slots_ok (h_n st) (h_ent st).                                     (* H3, H4 *)
End WithHash.

(* ------------------------------------------------------------------ find_entry as a walk *)
Lemma find_loop_spec : forall st key h code n,
  h_mask st = n - 1 -> 0 <= h < n ->
  forall fuel k, 0 <= k < n -> n <= Z.of_nat fuel + k ->
  match fst (find_loop fuel st key h code (pos n h k)) with
  | FeAt j => exists k', k <= k' < n /\ j = pos n h k' /\
                (forall d, k <= d < k' -> stopb code (Z.eqb (kval key)) (zget (h_ent st) (pos n h d)) = false) /\
                stopb code (Z.eqb (kval key)) (zget (h_ent st) j) = true
  | FeEnd => forall d, k <= d < n -> stopb code (Z.eqb (kval key)) (zget (h_ent st) (pos n h d)) = false
  | FeFuel => False
  end.
Proof.
  intros st key h code n Hm Hh. induction fuel; intros k Hk Hf; [lia|].
  cbn [find_loop]. destruct (is_empty (zget (h_ent st) (pos n h k))) eqn:Ee.
  - simpl. exists k. repeat split; try lia. unfold stopb. rewrite Ee. reflexivity.
  - pose proof (is_match_fst (zget (h_ent st) (pos n h k)) code (Z.eqb (kval key)) key) as Hf1.
    destruct (is_match (zget (h_ent st) (pos n h k)) code (Z.eqb (kval key)) key) as [m lg] eqn:Em.
    simpl in Hf1. subst m.
    destruct (matchp (zget (h_ent st) (pos n h k)) code (Z.eqb (kval key))) eqn:Mb.
    + simpl. exists k. repeat split; try lia. unfold stopb. rewrite Mb. apply orb_true_r.
    + rewrite Hm. rewrite next_index_wrap by lia.
      destruct (k + 1 =? n) eqn:Ek.
      * simpl. intros d Hd. assert (d = k) by lia. subst d. unfold stopb. rewrite Ee, Mb. reflexivity.
      * rewrite next_index_pos by lia.
        specialize (IHfuel (k + 1) ltac:(lia) ltac:(lia)).
        destruct (find_loop fuel st key h code (pos n h (k + 1))) as [r lg'] eqn:Er.
        simpl in *. destruct r; auto.
        -- destruct IHfuel as (k' & K1 & K2 & K3 & K4). exists k'. repeat split; try lia; auto.
           intros d Hd. destruct (Z.eq_dec d k) as [->|Ne].
           ++ unfold stopb. rewrite Ee, Mb. reflexivity.
           ++ apply K3. lia.
        -- intros d Hd. destruct (Z.eq_dec d k) as [->|Ne].
           ++ unfold stopb. rewrite Ee, Mb. reflexivity.
           ++ apply IHfuel. lia.
Qed.

Lemma find_entry_spec : forall st key h code,
  shape_ok st -> 0 <= h < h_n st ->
  match fst (find_entry st key h code) with
  | FeAt j => exists k', 0 <= k' < h_n st /\ j = pos (h_n st) h k' /\
                (forall d, 0 <= d < k' ->
                   stopb code (Z.eqb (kval key)) (zget (h_ent st) (pos (h_n st) h d)) = false) /\
                stopb code (Z.eqb (kval key)) (zget (h_ent st) j) = true
  | FeEnd => forall d, 0 <= d < h_n st ->
                stopb code (Z.eqb (kval key)) (zget (h_ent st) (pos (h_n st) h d)) = false
  | FeFuel => False
  end.
Proof.
  intros st key h code (P & M & L) Hh. unfold find_entry.
  pose proof (find_loop_spec st key h code (h_n st) M Hh (Z.to_nat (h_n st)) 0 ltac:(lia) ltac:(lia)) as S.
  rewrite pos_0 in S by lia. exact S.
Qed.

(* ------------------------------------------------------------------ plan_insert_prehashed as a walk *)
(* what the loop remembers as "first tombstone" after walking positions [k, k') *)
Definition ft_spec (n h : Z) (l : list slot) (ft ft' : option Z) (k k' : Z) : Prop :=
  match ft with
  | Some t => ft' = Some t
  | None =>
      (ft' = None /\ forall d, k <= d < k' -> has_value (zget l (pos n h d)) = true) \/
      (exists kt, k <= kt < k' /\ ft' = Some (pos n h kt) /\ zget l (pos n h kt) = Tomb /\
                  forall d, k <= d < kt -> has_value (zget l (pos n h d)) = true)
  end.

Lemma plan_loop_spec : forall st code pred ud h n,
  h_mask st = n - 1 -> 0 <= h < n ->
  forall fuel k ft, 0 <= k < n -> n <= Z.of_nat fuel + k ->
  match fst (plan_loop fuel st code pred ud h (pos n h k) ft) with
  | PlMatch j => exists k', k <= k' < n /\ j = pos n h k' /\
                   (forall d, k <= d < k' -> stopb code pred (zget (h_ent st) (pos n h d)) = false) /\
                   matchp (zget (h_ent st) j) code pred = true
  | PlStop j ft' => exists k', k <= k' <= n /\
                   (k' < n -> j = pos n h k' /\ zget (h_ent st) j = Empty) /\
                   (k' = n -> j = h) /\
                   (forall d, k <= d < k' -> stopb code pred (zget (h_ent st) (pos n h d)) = false) /\
                   ft_spec n h (h_ent st) ft ft' k k'
  | PlFuel => False
  end.
Proof.
  intros st code pred ud h n Hm Hh. induction fuel; intros k ft Hk Hf; [lia|].
  cbn [plan_loop]. destruct (is_empty (zget (h_ent st) (pos n h k))) eqn:Ee.
  - simpl. exists k. split; [lia|]. split; [|split; [lia|split; [intros; lia|]]].
    + intros _. split; [reflexivity|]. apply is_empty_iff. assumption.
    + unfold ft_spec. destruct ft; [reflexivity|]. left. split; [reflexivity|intros; lia].
  - pose proof (is_match_fst (zget (h_ent st) (pos n h k)) code pred ud) as Hf1.
    destruct (is_match (zget (h_ent st) (pos n h k)) code pred ud) as [m lg] eqn:Em.
    simpl in Hf1. subst m.
    destruct (matchp (zget (h_ent st) (pos n h k)) code pred) eqn:Mb.
    + simpl. exists k. repeat split; try lia. assumption.
    + set (ft1 := match ft with
                  | Some _ => ft
                  | None => if negb (has_value (zget (h_ent st) (pos n h k))) then Some (pos n h k) else None
                  end).
      assert (Hstep : stopb code pred (zget (h_ent st) (pos n h k)) = false)
        by (unfold stopb; rewrite Ee, Mb; reflexivity).
      (* extending ft_spec by the slot just passed *)
      assert (Hext : forall ft' k', k + 1 <= k' ->
                 ft_spec n h (h_ent st) ft1 ft' (k + 1) k' -> ft_spec n h (h_ent st) ft ft' k k').
      { intros ft' k' Hk' S. unfold ft_spec in *. subst ft1. destruct ft as [t|]; [assumption|].
        destruct (has_value (zget (h_ent st) (pos n h k))) eqn:Hv; simpl in S.
        - destruct S as [[-> A]|(kt & K1 & K2 & K3 & K4)].
          + left. split; [reflexivity|]. intros d Hd. destruct (Z.eq_dec d k) as [->|]; [assumption|apply A; lia].
          + right. exists kt. repeat split; try lia; auto.
            intros d Hd. destruct (Z.eq_dec d k) as [->|]; [assumption|apply K4; lia].
        - right. exists k. repeat split; try lia; auto.
          apply has_value_false in Hv as [E|E]; [|assumption].
          apply is_empty_iff in E. congruence. }
      rewrite Hm. rewrite next_index_wrap by lia.
      destruct (k + 1 =? n) eqn:Ek.
      * simpl. exists n. split; [lia|]. split; [lia|]. split.
        { intros _. rewrite <- (pos_0 n h) at 2 by lia. unfold next_index, pos.
          destruct (h + k <? n) eqn:A; destruct (h + 0 <? n) eqn:B;
          match goal with |- (if ?c then _ else _) = _ => destruct c eqn:G end; lia. }
        split.
        { intros d Hd. assert (d = k) by lia. subst d. assumption. }
        apply Hext; [lia|]. unfold ft_spec. destruct ft1; [reflexivity|].
        left. split; [reflexivity|intros; lia].
      * rewrite next_index_pos by lia.
        specialize (IHfuel (k + 1) ft1 ltac:(lia) ltac:(lia)).
        destruct (plan_loop fuel st code pred ud h (pos n h (k + 1)) ft1) as [r lg'] eqn:Er.
        simpl in *. destruct r; auto.
        -- destruct IHfuel as (k' & K1 & K2 & K3 & K4). exists k'. repeat split; try lia; auto.
           intros d Hd. destruct (Z.eq_dec d k) as [->|Ne]; [assumption|apply K3; lia].
        -- destruct IHfuel as (k' & K1 & K2 & K3 & K4 & K5). exists k'.
           split; [lia|]. split; [assumption|]. split; [assumption|]. split.
           ++ intros d Hd. destruct (Z.eq_dec d k) as [->|Ne]; [assumption|apply K4; lia].
           ++ apply Hext; [lia|assumption].
Qed.

(* ------------------------------------------------------------------ completeness of a walk *)
(* if the walk from the home slot of [code] passed k' slots without stopping and then met an Empty
   slot (or went all the way round), no slot of the table matches *)
Lemma walk_complete : forall n l code pred k',
  chain_ok n l -> 0 <= fold_hash code (n - 1) < n -> 0 <= k' <= n ->
  (forall d, 0 <= d < k' -> stopb code pred (zget l (pos n (fold_hash code (n - 1)) d)) = false) ->
  (k' < n -> zget l (pos n (fold_hash code (n - 1)) k') = Empty) ->
  forall j, 0 <= j < n -> matchp (zget l j) code pred = false.
Proof.
  intros n l code pred k' CH Hh Hk' Pass Stop j Hj.
  destruct (matchp (zget l j) code pred) eqn:M; [exfalso|reflexivity].
  apply matchp_true in M as (r & E & P).
  set (h := fold_hash code (n - 1)) in *.
  pose proof (CH j code r Hj E) as C. fold h in C.
  pose proof (dist_range n h j Hh Hj) as D.
  pose proof (pos_dist n h j Hh Hj) as PD.
  destruct (Z.lt_ge_cases (dist n h j) k') as [Lt|Ge].
  - specialize (Pass (dist n h j) ltac:(lia)). rewrite PD in Pass.
    unfold stopb in Pass. apply orb_false_iff in Pass as [_ Pm].
    rewrite E in Pm. simpl in Pm. rewrite Z.eqb_refl, P in Pm. discriminate.
  - assert (k' < n) by lia. specialize (Stop H).
    destruct (Z.eq_dec (dist n h j) k') as [Eq|Ne].
    + rewrite <- Eq, PD in Stop. congruence.
    + apply (C k'); [lia|assumption].
Qed.
