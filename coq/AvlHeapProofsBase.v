(* C06 — heap model of tree.c, lemmas part 1: finite-map laws, the abstraction relation
   [rep h t par] (heap h contains the functional tree t, whose root has parent pointer par),
   one-hole contexts (zippers) for the upward loops, and frame lemmas. *)
From Coq Require Import ZArith List Bool Lia ZifyBool Permutation.
From Zix Require Import AvlSpec AvlModel AvlProofs AvlProofsIter AvlHeapModel.
Import ListNotations.
Local Open Scope Z_scope.

(* ------------------------------------------------------------------ finite map *)
Lemma hget_hset : forall h i n j, hget (hset h i n) j = if j =? i then Some n else hget h j.
Proof.
  induction h as [|[k m] h IH]; intros i n j; cbn [hset hget].
  - destruct (i =? j) eqn:A, (j =? i) eqn:B; try lia; reflexivity.
  - destruct (k =? i) eqn:A; cbn [hget].
    + destruct (i =? j) eqn:B, (j =? i) eqn:C, (k =? j) eqn:D; try lia; reflexivity.
    + rewrite IH. destruct (k =? j) eqn:B, (j =? i) eqn:C; try lia; reflexivity.
Qed.

Lemma hget_hdel : forall h i j, hget (hdel h i) j = if j =? i then None else hget h j.
Proof.
  induction h as [|[k m] h IH]; intros i j; cbn [hdel hget].
  - destruct (j =? i); reflexivity.
  - destruct (k =? i) eqn:A; cbn [hget].
    + rewrite IH. destruct (j =? i) eqn:B, (k =? j) eqn:C; try lia; reflexivity.
    + rewrite IH. destruct (j =? i) eqn:B, (k =? j) eqn:C; try lia; reflexivity.
Qed.

Lemma hget_upd : forall h i f j,
  hget (upd h i f) j = if j =? i then option_map f (hget h i) else hget h j.
Proof.
  intros h i f j. unfold upd. destruct (hget h i) as [n|] eqn:G.
  - rewrite hget_hset. reflexivity.
  - destruct (j =? i) eqn:A; [|reflexivity]. assert (j = i) by lia. subst. rewrite G. reflexivity.
Qed.

Definition w_left (v : option Z) (n : node) := mkNode (ndata n) (nbal n) (npar n) v (nright n).
Definition w_right (v : option Z) (n : node) := mkNode (ndata n) (nbal n) (npar n) (nleft n) v.
Definition w_par (v : option Z) (n : node) := mkNode (ndata n) (nbal n) v (nleft n) (nright n).
Definition w_bal (v : Z) (n : node) := mkNode (ndata n) v (npar n) (nleft n) (nright n).

Lemma hget_set_left : forall h i v j,
  hget (set_left h i v) j = if j =? i then option_map (w_left v) (hget h i) else hget h j.
Proof. intros. unfold set_left. rewrite hget_upd. reflexivity. Qed.
Lemma hget_set_right : forall h i v j,
  hget (set_right h i v) j = if j =? i then option_map (w_right v) (hget h i) else hget h j.
Proof. intros. unfold set_right. rewrite hget_upd. reflexivity. Qed.
Lemma hget_set_parent : forall h i v j,
  hget (set_parent h i v) j = if j =? i then option_map (w_par v) (hget h i) else hget h j.
Proof. intros. unfold set_parent. rewrite hget_upd. reflexivity. Qed.
Lemma hget_set_bal : forall h i v j,
  hget (set_bal h i v) j = if j =? i then option_map (w_bal v) (hget h i) else hget h j.
Proof. intros. unfold set_bal. rewrite hget_upd. reflexivity. Qed.

(* ------------------------------------------------------------------ rep *)
Definition root_id (t : tree) : option Z := match t with E => None | N i _ _ _ _ => Some i end.

Fixpoint rep (h : heap) (t : tree) (par : option Z) : Prop :=
  match t with
  | E => True
  | N i d b l r =>
      hget h i = Some (mkNode d b par (root_id l) (root_id r)) /\ rep h l (Some i) /\ rep h r (Some i)
  end.

Lemma rep_N : forall h i d b l r par,
  rep h (N i d b l r) par <->
  hget h i = Some (mkNode d b par (root_id l) (root_id r)) /\ rep h l (Some i) /\ rep h r (Some i).
Proof. reflexivity. Qed.

Lemma rep_ext : forall h h' t par,
  (forall i, In i (ids t) -> hget h' i = hget h i) -> rep h t par -> rep h' t par.
Proof.
  intros h h'. induction t as [|i d b l IHl r IHr]; intros par A R; [exact I|].
  cbn [rep] in *. destruct R as (R1 & R2 & R3).
  assert (Al : forall j, In j (ids l) -> hget h' j = hget h j).
  { intros j Hj. apply A. rewrite ids_N. apply in_or_app. left. assumption. }
  assert (Ar : forall j, In j (ids r) -> hget h' j = hget h j).
  { intros j Hj. apply A. rewrite ids_N. apply in_or_app. right. right. assumption. }
  split; [|split; [apply IHl|apply IHr]; assumption].
  rewrite A; [assumption|]. rewrite ids_N. apply in_or_app. right. left. reflexivity.
Qed.

Lemma rep_in : forall h t par i, rep h t par -> In i (ids t) -> hget h i <> None.
Proof.
  intros h. induction t as [|j d b l IHl r IHr]; intros par i R Hi; [destruct Hi|].
  cbn [rep] in R. destruct R as (R1 & R2 & R3). rewrite ids_N in Hi.
  apply in_app_or in Hi. destruct Hi as [Hi|[Hi|Hi]].
  - eapply IHl; eassumption.
  - subst. rewrite R1. discriminate.
  - eapply IHr; eassumption.
Qed.

Lemma root_id_in : forall t i, root_id t = Some i -> In i (ids t).
Proof.
  intros [|j d b l r] i H; [discriminate|]. cbn in H. inversion H. subst.
  rewrite ids_N. apply in_or_app. right. left. reflexivity.
Qed.

Lemma root_id_E : forall t, root_id t = None -> t = E.
Proof. intros [|]; [reflexivity|discriminate]. Qed.

Lemma find_app_l : forall (A : Type) (f : A -> bool) l1 l2,
  List.find f (l1 ++ l2) = match List.find f l1 with Some x => Some x | None => List.find f l2 end.
Proof. intros A f. induction l1 as [|a l1 IH]; intros l2; cbn [app List.find]; [reflexivity|]. destruct (f a); [reflexivity|apply IH]. Qed.

(* the data of every node of a represented tree is in the heap *)
Lemma rep_lookup : forall h t par i x, rep h t par -> NoDup (ids t) -> lookup i t = Some x ->
  exists n, hget h i = Some n /\ x = (i, ndata n).
Proof.
  intros h. unfold lookup. induction t as [|j d b l IHl r IHr]; intros par i x R ND L; [discriminate|].
  cbn [rep] in R. destruct R as (R1 & R2 & R3).
  rewrite ids_N in ND. pose proof (NoDup_app_inv _ _ _ ND) as [NDl NDr]. inversion NDr as [|? ? Nj NDr']. subst.
  cbn [elems] in L. unfold slookup in *. rewrite find_app_l in L.
  match type of L with match ?e with _ => _ end = _ => destruct e as [y|] eqn:F end.
  - inversion L. subst. eapply IHl; eassumption.
  - cbn [List.find fst] in L. destruct (j =? i) eqn:C.
    + inversion L. assert (j = i) by lia. subst. eexists. split; [eassumption|reflexivity].
    + eapply IHr; eassumption.
Qed.

(* ------------------------------------------------------------------ contexts *)
Inductive ctx :=
| Top
| CL (i : Z) (d : elt) (b : Z) (r : tree) (c : ctx)     (* hole = left child of i, right subtree r *)
| CR (i : Z) (d : elt) (b : Z) (l : tree) (c : ctx).    (* hole = right child of i, left subtree l *)

Fixpoint plug (c : ctx) (t : tree) : tree :=
  match c with
  | Top => t
  | CL i d b r c' => plug c' (N i d b t r)
  | CR i d b l c' => plug c' (N i d b l t)
  end.

(* the node whose child the hole is *)
Definition ctx_id (c : ctx) : option Z :=
  match c with Top => None | CL i _ _ _ _ => Some i | CR i _ _ _ _ => Some i end.

(* root of the plugged tree, given the root of what is plugged in *)
Fixpoint ctx_root (c : ctx) (hole : option Z) : option Z :=
  match c with
  | Top => hole
  | CL i _ _ _ c' => ctx_root c' (Some i)
  | CR i _ _ _ c' => ctx_root c' (Some i)
  end.

(* identities of the context: frame nodes and their sibling subtrees *)
Fixpoint cids (c : ctx) : list Z :=
  match c with
  | Top => []
  | CL i _ _ r c' => i :: ids r ++ cids c'
  | CR i _ _ l c' => i :: ids l ++ cids c'
  end.

Fixpoint clen (c : ctx) : nat :=
  match c with Top => O | CL _ _ _ _ c' => S (clen c') | CR _ _ _ _ c' => S (clen c') end.

Fixpoint repc (h : heap) (c : ctx) (hole : option Z) : Prop :=
  match c with
  | Top => True
  | CL i d b r c' =>
      hget h i = Some (mkNode d b (ctx_id c') hole (root_id r)) /\ rep h r (Some i) /\ repc h c' (Some i)
  | CR i d b l c' =>
      hget h i = Some (mkNode d b (ctx_id c') (root_id l) hole) /\ rep h l (Some i) /\ repc h c' (Some i)
  end.

Lemma root_id_plug : forall c t, root_id (plug c t) = ctx_root c (root_id t).
Proof. induction c as [|i d b r c IH|i d b l c IH]; intros t; cbn [plug ctx_root]; [reflexivity| |]; rewrite IH; reflexivity. Qed.

Lemma rep_plug : forall h c t, rep h (plug c t) None <-> rep h t (ctx_id c) /\ repc h c (root_id t).
Proof.
  intros h. induction c as [|i d b r c IH|i d b l c IH]; intros t; cbn [plug ctx_id repc].
  - tauto.
  - rewrite IH. cbn [rep root_id]. tauto.
  - rewrite IH. cbn [rep root_id]. tauto.
Qed.

Lemma ids_plug_perm : forall c t, Permutation (ids (plug c t)) (ids t ++ cids c).
Proof.
  induction c as [|i d b r c IH|i d b l c IH]; intros t; cbn [plug cids].
  - rewrite app_nil_r. apply Permutation_refl.
  - eapply Permutation_trans; [apply IH|]. rewrite ids_N. rewrite <- app_assoc. cbn [app].
    apply Permutation_app_head. rewrite app_comm_cons. reflexivity.
  - eapply Permutation_trans; [apply IH|]. rewrite ids_N. rewrite <- app_assoc.
    change (ids l ++ (i :: ids t) ++ cids c) with (ids l ++ ((i :: ids t) ++ cids c)).
    eapply Permutation_trans; [apply Permutation_app_swap_app|]. cbn [app].
    apply (Permutation_middle (ids t) (ids l ++ cids c) i).
Qed.

Lemma in_ids_plug : forall c t j, In j (ids (plug c t)) <-> In j (ids t) \/ In j (cids c).
Proof.
  intros c t j. split.
  - intros H. apply (Permutation_in _ (ids_plug_perm c t)) in H. apply in_app_or in H. assumption.
  - intros H. apply (Permutation_in _ (Permutation_sym (ids_plug_perm c t))). apply in_or_app. assumption.
Qed.

Lemma nodup_plug : forall c t, NoDup (ids (plug c t)) <-> NoDup (ids t ++ cids c).
Proof.
  intros c t. split; intros H.
  - eapply Permutation_NoDup; [apply ids_plug_perm|assumption].
  - eapply Permutation_NoDup; [apply Permutation_sym, ids_plug_perm|assumption].
Qed.

Lemma nodup_app_disj : forall (l1 l2 : list Z), NoDup (l1 ++ l2) ->
  NoDup l1 /\ NoDup l2 /\ (forall x, In x l1 -> In x l2 -> False).
Proof.
  induction l1 as [|a l1 IH]; intros l2 H; cbn [app] in *.
  - repeat split; [constructor|assumption|intros x []].
  - inversion H as [|? ? Na H']. subst. destruct (IH _ H') as (A & B & C).
    repeat split; [|assumption|].
    + constructor; [|assumption]. intros X. apply Na. apply in_or_app. left. assumption.
    + intros x [->|Hx] Hx2; [apply Na; apply in_or_app; right; assumption|eapply C; eassumption].
Qed.

Lemma repc_ext : forall h h' c hole,
  (forall i, In i (cids c) -> hget h' i = hget h i) -> repc h c hole -> repc h' c hole.
Proof.
  intros h h'. induction c as [|i d b r c IH|i d b l c IH]; intros hole A R; [exact I| |];
    cbn [repc cids] in *; destruct R as (R1 & R2 & R3).
  - split; [|split].
    + rewrite A; [assumption|left; reflexivity].
    + eapply rep_ext; [|eassumption]. intros j Hj. apply A. right. apply in_or_app. left. assumption.
    + apply IH; [|assumption]. intros j Hj. apply A. right. apply in_or_app. right. assumption.
  - split; [|split].
    + rewrite A; [assumption|left; reflexivity].
    + eapply rep_ext; [|eassumption]. intros j Hj. apply A. right. apply in_or_app. left. assumption.
    + apply IH; [|assumption]. intros j Hj. apply A. right. apply in_or_app. right. assumption.
Qed.

(* ------------------------------------------------------------------ composing contexts, locating a node *)
(* [capp c1 c2]: c1 inside c2 *)
Fixpoint capp (c1 c2 : ctx) : ctx :=
  match c1 with
  | Top => c2
  | CL i d b r c => CL i d b r (capp c c2)
  | CR i d b l c => CR i d b l (capp c c2)
  end.

Lemma plug_capp : forall c1 c2 t, plug (capp c1 c2) t = plug c2 (plug c1 t).
Proof. induction c1 as [|i d b r c IH|i d b l c IH]; intros c2 t; cbn [capp plug]; [reflexivity| |]; apply IH. Qed.

Lemma in_ids_split : forall t id, In id (ids t) ->
  exists c d b l r, t = plug c (N id d b l r).
Proof.
  induction t as [|i d b l IHl r IHr]; intros id H; [destruct H|].
  rewrite ids_N in H. apply in_app_or in H. destruct H as [H|[H|H]].
  - destruct (IHl id H) as (c & d' & b' & l' & r' & ->).
    exists (capp c (CL i d b r Top)), d', b', l', r'. rewrite plug_capp. reflexivity.
  - subst. exists Top, d, b, l, r. reflexivity.
  - destruct (IHr id H) as (c & d' & b' & l' & r' & ->).
    exists (capp c (CR i d b l Top)), d', b', l', r'. rewrite plug_capp. reflexivity.
Qed.

(* ------------------------------------------------------------------ heights along a context *)
(* [avlc c h0]: every frame of c is AVL-consistent when the hole holds a subtree of height h0 *)
Fixpoint avlc (c : ctx) (h0 : Z) : Prop :=
  match c with
  | Top => True
  | CL i d b r c' => avl r /\ b = height r - h0 /\ -1 <= b <= 1 /\ avlc c' (1 + Z.max h0 (height r))
  | CR i d b l c' => avl l /\ b = h0 - height l /\ -1 <= b <= 1 /\ avlc c' (1 + Z.max (height l) h0)
  end.

Lemma avl_plug : forall c t, avl (plug c t) <-> avl t /\ avlc c (height t).
Proof.
  induction c as [|i d b r c IH|i d b l c IH]; intros t; cbn [plug avlc].
  - tauto.
  - rewrite IH. cbn [avl height]. tauto.
  - rewrite IH. cbn [avl height]. tauto.
Qed.

Lemma height_plug_bound : forall c t, (clen c + heightn t <= heightn (plug c t))%nat.
Proof.
  induction c as [|i d b r c IH|i d b l c IH]; intros t; cbn [plug clen]; [lia| |].
  - specialize (IH (N i d b t r)). cbn [heightn] in IH. lia.
  - specialize (IH (N i d b l t)). cbn [heightn] in IH. lia.
Qed.

Lemma heightn_le_count : forall t, Z.of_nat (heightn t) <= count t.
Proof.
  induction t as [|i d b l IHl r IHr]; cbn [heightn count]; [lia|].
  pose proof (count_nonneg l). pose proof (count_nonneg r). lia.
Qed.

(* eqb simplification under known (dis)equalities *)
Ltac eqb_simp :=
  repeat match goal with
  | |- context [?a =? ?a] => rewrite (Z.eqb_refl a)
  | |- context [?a =? ?b] =>
      first [ replace (a =? b) with false by (symmetry; apply Z.eqb_neq; lia)
            | replace (a =? b) with true by (symmetry; apply Z.eqb_eq; lia) ]
  end.

(* ------------------------------------------------------------------ the abstraction relation on containers *)
(* heap state st represents the functional state fs: same ids/data/balances, child links = the
   tree's shape, parent links = the unique parents, root's parent = NULL, t->root = the root node,
   same size and serial number, and nothing else is allocated *)
Definition Rep (st : hstate) (fs : state) : Prop :=
  rep (hp st) (root fs) None /\ hroot st = root_id (root fs) /\ hsize st = size fs /\
  hnextid st = nextid fs /\ (forall i, hget (hp st) i <> None -> In i (ids (root fs))).

Lemma Rep_init : Rep hinit init.
Proof. unfold Rep, hinit, init. cbn. repeat split; auto. Qed.
