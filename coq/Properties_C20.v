(* C20 — property theorems only.  strerror is the model over tables REGENERATED from
   /repo/src/status.c and /repo/include/zix/status.h on every run (gen/StatusTable.v). *)
From Coq Require Import ZArith String Ascii List Bool.
From Zix Require Import StatusModel StatusProofs.
From Zix.gen Require Import StatusTable.
Import ListNotations.
Local Open Scope Z_scope.

Definition zix_strerror (v : Z) : string := strerror enum_table switch_table default_msg v.
Definition defined : list Z := defined_values enum_table.

(* every integer, inside or outside the enumeration: non-empty, upper-case first, no trailing
   period, a single sentence *)
Theorem strerror_total_well_formed : forall v : Z, well_formed (zix_strerror v) = true.
Proof. exact (strerror_all enum_table switch_table default_msg well_formed eq_refl). Qed.
Print Assumptions strerror_total_well_formed.

(* outside the enumeration: the generic message *)
Theorem strerror_outside_enum : forall v : Z, ~ In v defined -> zix_strerror v = "Unknown error"%string.
Proof. exact (strerror_outside enum_table switch_table default_msg). Qed.
Print Assumptions strerror_outside_enum.

(* each defined status: exactly the description its enumerator has in the header *)
Theorem strerror_is_header_description :
  forall n v d, In (n, v, d) enum_table -> zix_strerror v = d /\ d <> ""%string.
Proof.
  intros n v d H.
  pose proof (forall_enum enum_table
    (fun e => String.eqb (zix_strerror (snd (fst e))) (snd e) && negb (String.eqb (snd e) ""))
    eq_refl _ H) as P.
  cbn [fst snd] in P. apply andb_true_iff in P as [P1 P2].
  apply String.eqb_eq in P1. split; [exact P1|].
  intros ->. discriminate.
Qed.
Print Assumptions strerror_is_header_description.

(* distinct defined statuses have distinct messages *)
Theorem strerror_distinct :
  forall a b, In a defined -> In b defined -> a <> b -> zix_strerror a <> zix_strerror b.
Proof.
  intros a b Ha Hb Hne Heq. apply Hne.
  assert (ND : nodup_str (map zix_strerror defined) = true) by (vm_compute; reflexivity).
  exact (NoDup_map_inj zix_strerror defined a b (nodup_str_NoDup _ ND) Ha Hb Heq).
Qed.
Print Assumptions strerror_distinct.

(* the two messages the property names, tied to the enumerator names *)
Theorem strerror_success_nomem :
  (forall v, value_of_name "ZIX_STATUS_SUCCESS" enum_table = Some v -> zix_strerror v = "Success"%string) /\
  (forall v, value_of_name "ZIX_STATUS_NO_MEM" enum_table = Some v -> zix_strerror v = "Out of memory"%string) /\
  value_of_name "ZIX_STATUS_SUCCESS" enum_table = Some 0 /\
  (exists v, value_of_name "ZIX_STATUS_NO_MEM" enum_table = Some v).
Proof.
  repeat split.
  - intros v [= <-]. reflexivity.
  - intros v [= <-]. reflexivity.
  - eexists. reflexivity.
Qed.
Print Assumptions strerror_success_nomem.

(* the enumeration is 0 .. n-1, so "outside" means < 0 or >= n *)
Theorem enum_contiguous : defined = map Z.of_nat (seq 0 (length enum_table)).
Proof. reflexivity. Qed.
Print Assumptions enum_contiguous.

(* string views: equality is exactly equal length and equal bytes, for every placement of the
   two views in memory (same storage, overlapping, disjoint), any bytes incl. NUL, empty views *)
Theorem string_view_equals_iff :
  forall mem a b, in_bounds mem a -> in_bounds mem b ->
    (sv_equals mem a b = true <-> v_len a = v_len b /\ slice mem a = slice mem b).
Proof. exact sv_equals_iff. Qed.
Print Assumptions string_view_equals_iff.

(* copy: a fresh block holding exactly the viewed bytes followed by NUL; NULL iff allocation fails *)
Theorem string_view_copy_exact :
  forall mem v, in_bounds mem v ->
    (exists c, sv_copy true mem v = Some c /\ length c = S (v_len v) /\
               firstn (v_len v) c = slice mem v /\ nth (v_len v) c 1 = 0) /\
    sv_copy false mem v = None.
Proof. intros mem v H. split; [exact (sv_copy_exact mem v H) | reflexivity]. Qed.
Print Assumptions string_view_copy_exact.

(* non-vacuity: a non-trivial state meeting the hypotheses *)
Example views_example :
  let mem := [97; 0; 98; 97; 0; 98; 7] in
  in_bounds mem {| v_off := 0; v_len := 3 |} /\ in_bounds mem {| v_off := 3; v_len := 3 |} /\
  sv_equals mem {| v_off := 0; v_len := 3 |} {| v_off := 3; v_len := 3 |} = true /\
  sv_equals mem {| v_off := 0; v_len := 3 |} {| v_off := 4; v_len := 3 |} = false.
Proof. cbv [in_bounds]; cbn. repeat split; auto with arith. Qed.
