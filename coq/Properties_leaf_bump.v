(* round_up_multiple and min_alignment of /repo/src/bump_allocator.c, REGENERATED from the C source on every run
   (gen/Leaf.v, gen/Constants.v, module Bump, by tools/translate_leaf.py; min_alignment = sizeof(uintmax_t) is
   evaluated by a compiled probe on this platform), are what the hand-written model of C09 (BumpModel) uses.
   The two assert()s of round_up_multiple are not translated (the translation is of the NDEBUG reading); BumpModel
   models them separately as round_asserts. *)
From Coq Require Import ZArith Bool Lia.
From Zix Require BumpModel.
From Zix.gen Require Import Leaf Constants.
Local Open Scope Z_scope.
Ltac Zify.zify_post_hook ::= Z.div_mod_to_equations.

(* equal up to linear arithmetic under mod at every argument position: value-preserving rewrites of the C expression
   (a named `mask = factor - 1U`, a different association of the sum) keep the proof checking *)
Ltac solve_eq := solve [ reflexivity | lia | f_equal; solve_eq ].

Theorem leaf_round_up_multiple_is_model :
  forall number factor, Bump.leaf_round_up_multiple_dom number factor ->
    Bump.leaf_round_up_multiple number factor = BumpModel.round_up_multiple number factor.
Proof.
  intros number factor _.
  unfold Bump.leaf_round_up_multiple, BumpModel.round_up_multiple, BumpModel.wrap, BumpModel.W.
  change (2 ^ 64) with 18446744073709551616. cbv zeta. solve_eq.
Qed.
Print Assumptions leaf_round_up_multiple_is_model.

Theorem bump_min_alignment_is_model :
  Bump.min_alignment = BumpModel.min_alignment /\ Bump.sizeof_uintmax_t = BumpModel.min_alignment.
Proof. split; reflexivity.
Qed.
Print Assumptions bump_min_alignment_is_model.
