Require Extraction.
Require Import ExtrOcamlBasic.
From Zix Require Import PathNormSpec PathNormModel.
Separate Extraction PathNormSpec.std_normal PathNormSpec.is_normal_form PathNormSpec.has_root
  PathNormSpec.elems PathNormSpec.peqb PathNormModel.zix_normal_full.
