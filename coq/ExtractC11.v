Require Extraction.
Require Import ExtrOcamlBasic.
From Zix Require Import PathNormSpec PathNormModel.
Separate Extraction PathNormSpec.std_normal PathNormSpec.is_normal_form PathNormSpec.has_root
  PathNormSpec.elems PathNormSpec.peqb PathNormSpec.class_A PathNormSpec.class_B
  PathNormSpec.class_C PathNormSpec.class_D PathNormSpec.plain PathNormSpec.no_dotdot_tail
  PathNormModel.zix_normal_full.
