(* C15 — abstract file system (directories and regular files, no symlinks, no permissions), POSIX path
   resolution with '.' and '..', stat and mkdir on it, and the specs the property is stated against:
   "mkdir -p" over path components, byte equality of files, the S_IFMT table.  Nothing here mentions how zix
   does it. *)
From Coq Require Import ZArith List Bool Lia.
Import ListNotations.
Local Open Scope Z_scope.

Definition name := list Z.            (* bytes 1..255 except '/' *)
Definition loc := list name.          (* names from the root; [] is the root directory *)
Inductive kind := KFile | KDir.
Definition fsT := list (loc * kind).  (* the root always exists and is a directory *)

Definition SLASH := 47.
Definition DOT := 46.

Fixpoint name_eqb (a b : name) : bool :=
  match a, b with
  | [], [] => true
  | x :: a', y :: b' => (x =? y) && name_eqb a' b'
  | _, _ => false
  end.
Fixpoint loc_eqb (a b : loc) : bool :=
  match a, b with
  | [], [] => true
  | x :: a', y :: b' => name_eqb x y && loc_eqb a' b'
  | _, _ => false
  end.

Fixpoint assoc (fs : fsT) (l : loc) : option kind :=
  match fs with
  | [] => None
  | (l', k) :: r => if loc_eqb l' l then Some k else assoc r l
  end.
Definition lookup (fs : fsT) (l : loc) : option kind :=
  match l with [] => Some KDir | _ => assoc fs l end.

(* ---- path strings ---- *)

(* split at '/', dropping empty pieces *)
Fixpoint split_acc (s : list Z) (cur : name) : list name :=
  match s with
  | [] => match cur with [] => [] | _ => [rev cur] end
  | c :: t => if c =? SLASH
              then match cur with [] => split_acc t [] | _ => rev cur :: split_acc t [] end
              else split_acc t (c :: cur)
  end.
Definition components (s : list Z) : list name := split_acc s [].
Definition absolute (s : list Z) : bool := match s with c :: _ => c =? SLASH | [] => false end.
Definition trailing_slash (s : list Z) : bool := match rev s with c :: _ => c =? SLASH | [] => false end.

Definition is_dot (n : name) : bool := name_eqb n [DOT].
Definition is_dotdot (n : name) : bool := name_eqb n [DOT; DOT].

(* ---- resolution ---- *)
Definition ENOENT := 2. Definition EEXIST := 17. Definition ENOTDIR := 20.

Inductive walkres := WErr (e : Z) | WDir (l : loc) | WFile (l : loc).

(* follow components from directory [l]; every component but the last must be a directory *)
Fixpoint walk (fs : fsT) (l : loc) (cs : list name) : walkres :=
  match cs with
  | [] => WDir l
  | c :: rest =>
    if is_dot c then walk fs l rest
    else if is_dotdot c then walk fs (removelast l) rest
    else match lookup fs (l ++ [c]) with
         | None => WErr ENOENT
         | Some KDir => walk fs (l ++ [c]) rest
         | Some KFile => match rest with [] => WFile (l ++ [c]) | _ => WErr ENOTDIR end
         end
  end.

(* stat(2) on the abstract file system: what the path names *)
Definition stat_path (fs : fsT) (cwd : loc) (s : list Z) : walkres :=
  match s with
  | [] => WErr ENOENT
  | _ =>
    match walk fs (if absolute s then [] else cwd) (components s) with
    | WFile l => if trailing_slash s then WErr ENOTDIR else WFile l
    | r => r
    end
  end.

Definition names_directory (fs : fsT) (cwd : loc) (s : list Z) : Prop :=
  exists l, stat_path fs cwd s = WDir l.
Definition names_directoryb (fs : fsT) (cwd : loc) (s : list Z) : bool :=
  match stat_path fs cwd s with WDir _ => true | _ => false end.

(* mkdir(2): 0 or an errno, and the new file system *)
Definition mkdir_path (fs : fsT) (cwd : loc) (s : list Z) : Z * fsT :=
  match s with
  | [] => (ENOENT, fs)
  | _ =>
    let cs := components s in
    match rev cs with
    | [] => (EEXIST, fs)                                   (* "/" *)
    | lastc :: rparents =>
      match walk fs (if absolute s then [] else cwd) (rev rparents) with
      | WErr e => (e, fs)
      | WFile _ => (ENOTDIR, fs)
      | WDir l =>
        if is_dot lastc || is_dotdot lastc then (EEXIST, fs)
        else match lookup fs (l ++ [lastc]) with
             | Some _ => (EEXIST, fs)
             | None => (0, fs ++ [(l ++ [lastc], KDir)])
             end
      end
    end
  end.

(* ---- spec of "create every missing directory along the path" (mkdir -p), component-wise ---- *)
Inductive mkres := MkOk (l : loc) | MkBlocked.
Fixpoint mkdirs_walk (fs : fsT) (l : loc) (cs : list name) : mkres * fsT :=
  match cs with
  | [] => (MkOk l, fs)
  | c :: rest =>
    if is_dot c then mkdirs_walk fs l rest
    else if is_dotdot c then mkdirs_walk fs (removelast l) rest
    else match lookup fs (l ++ [c]) with
         | Some KDir => mkdirs_walk fs (l ++ [c]) rest
         | Some KFile => (MkBlocked, fs)
         | None => mkdirs_walk (fs ++ [(l ++ [c], KDir)]) (l ++ [c]) rest
         end
  end.
Definition mkdirs_spec (fs : fsT) (cwd : loc) (s : list Z) : mkres * fsT :=
  mkdirs_walk fs (if absolute s then [] else cwd) (components s).

(* well-formed: every entry's parent is a directory, entries are not the root, names are real names *)
Definition good_name (n : name) : Prop :=
  n <> [] /\ ~ In SLASH n /\ is_dot n = false /\ is_dotdot n = false.
Definition wf_fs (fs : fsT) : Prop :=
  forall l k, In (l, k) fs -> l <> [] /\ lookup fs (removelast l) = Some KDir /\ Forall good_name l.
Definition is_dir (fs : fsT) (l : loc) : Prop := lookup fs l = Some KDir.

(* ---- file types: the S_IFMT table ---- *)
Inductive ftype := FT_NONE | FT_REGULAR | FT_DIRECTORY | FT_SYMLINK | FT_BLOCK | FT_CHARACTER | FT_FIFO
                 | FT_SOCKET | FT_UNKNOWN.
Definition S_IFMT := 61440.   (* 0170000 *)
Definition S_IFSOCK := 49152. Definition S_IFLNK := 40960. Definition S_IFREG := 32768.
Definition S_IFBLK := 24576.  Definition S_IFDIR := 16384. Definition S_IFCHR := 8192.
Definition S_IFIFO := 4096.

(* POSIX: the type of a file is the value of (st_mode & S_IFMT) *)
Definition type_of_mode_spec (mode : Z) : ftype :=
  let m := Z.land mode S_IFMT in
  if m =? S_IFREG then FT_REGULAR else if m =? S_IFDIR then FT_DIRECTORY else
  if m =? S_IFLNK then FT_SYMLINK else if m =? S_IFBLK then FT_BLOCK else
  if m =? S_IFCHR then FT_CHARACTER else if m =? S_IFIFO then FT_FIFO else
  if m =? S_IFSOCK then FT_SOCKET else FT_UNKNOWN.
