(* C13: lemmas.  Part 1: bit-level and modular ingredients; the mixing functions of the reference
   transcription (DigestSpec) are bijections of [0,2^n). *)
From Coq Require Import ZArith List Lia Bool ZifyBool.
From Zix Require Import DigestSpec.
Import ListNotations.
Local Open Scope Z_scope.
Ltac Zify.zify_post_hook ::= Z.div_mod_to_equations.

Definition inrange (n x : Z) : Prop := 0 <= x < 2 ^ n.

(* ------------------------------------------------------------------ bits and bounds *)

Lemma testbit_above : forall n x i, 0 <= x < 2 ^ n -> n <= i -> Z.testbit x i = false.
Proof.
  intros n x i [H0 H1] Hi.
  destruct (Z.eq_dec x 0) as [->|Hx]; [apply Z.bits_0|].
  apply Z.bits_above_log2; [lia|].
  assert (Z.log2 x < n) by (apply Z.log2_lt_pow2; lia). lia.
Qed.

Lemma bound_of_bits : forall n x, 0 <= n -> 0 <= x ->
  (forall i, n <= i -> Z.testbit x i = false) -> x < 2 ^ n.
Proof.
  intros n x Hn Hx H.
  assert (E : x = x mod 2 ^ n).
  { apply Z.bits_inj'. intros i Hi.
    destruct (Z_lt_le_dec i n).
    - now rewrite Z.mod_pow2_bits_low.
    - rewrite Z.mod_pow2_bits_high by lia. now apply H. }
  rewrite E. apply Z.mod_pos_bound. apply Z.pow_pos_nonneg; lia.
Qed.

Lemma lxor_range : forall n x y, 0 <= n -> inrange n x -> inrange n y -> inrange n (Z.lxor x y).
Proof.
  intros n x y Hn Hx Hy. unfold inrange in *.
  assert (0 <= Z.lxor x y) by (apply Z.lxor_nonneg; lia).
  split; [assumption|].
  apply bound_of_bits; try assumption.
  intros i Hi. rewrite Z.lxor_spec, (testbit_above n x), (testbit_above n y); auto.
Qed.

Lemma div_pow2_range : forall n s x, 0 <= s -> inrange n x -> inrange n (x / 2 ^ s).
Proof.
  intros n s x Hs [H0 H1]. unfold inrange.
  assert (0 < 2 ^ s) by (apply Z.pow_pos_nonneg; lia).
  split; [apply Z.div_pos; lia|].
  apply Z.le_lt_trans with x; [|assumption].
  apply Z.div_le_upper_bound; [lia|]. nia.
Qed.

Lemma lxor_cancel_r : forall a b c, Z.lxor a c = Z.lxor b c -> a = b.
Proof.
  intros a b c H.
  rewrite <- (Z.lxor_0_r a), <- (Z.lxor_0_r b), <- (Z.lxor_nilpotent c), <- !Z.lxor_assoc, H.
  reflexivity.
Qed.

Lemma lxor_cancel_l : forall a b c, Z.lxor c a = Z.lxor c b -> a = b.
Proof. intros a b c H. rewrite !(Z.lxor_comm c) in H. eapply lxor_cancel_r; eauto. Qed.

Lemma lxor_mod_pow2 : forall n a b, 0 <= n ->
  (Z.lxor a b) mod 2 ^ n = Z.lxor (a mod 2 ^ n) (b mod 2 ^ n).
Proof.
  intros n a b Hn. apply Z.bits_inj'. intros i Hi.
  destruct (Z_lt_le_dec i n).
  - rewrite Z.lxor_spec, !Z.mod_pow2_bits_low, Z.lxor_spec by lia. reflexivity.
  - rewrite Z.lxor_spec, !Z.mod_pow2_bits_high by lia. reflexivity.
Qed.

(* ------------------------------------------------------------------ x xor (x >> s) *)

Lemma xorshr_range : forall n s x, 0 <= n -> 0 <= s -> inrange n x -> inrange n (xorshr s x).
Proof. intros. unfold xorshr. apply lxor_range; auto. apply div_pow2_range; auto. Qed.

Lemma xorshr_bits_eq : forall n s x y, 0 < s -> inrange n x -> inrange n y ->
  xorshr s x = xorshr s y ->
  forall k : nat, forall i, 0 <= i -> n - i <= Z.of_nat k -> Z.testbit x i = Z.testbit y i.
Proof.
  intros n s x y Hs Hx Hy H. induction k as [|k IH]; intros i Hi Hk.
  - rewrite (testbit_above n x), (testbit_above n y); auto; lia.
  - assert (B : Z.testbit (xorshr s x) i = Z.testbit (xorshr s y) i) by now rewrite H.
    unfold xorshr in B. rewrite !Z.lxor_spec, !Z.div_pow2_bits in B by lia.
    rewrite (IH (i + s)) in B by lia.
    destruct (Z.testbit x i), (Z.testbit y i), (Z.testbit y (i + s)); simpl in B; congruence.
Qed.

Lemma xorshr_inj : forall n s x y, 0 < s -> 0 <= n -> inrange n x -> inrange n y ->
  xorshr s x = xorshr s y -> x = y.
Proof.
  intros n s x y Hs Hn Hx Hy H. apply Z.bits_inj'. intros i Hi.
  apply (xorshr_bits_eq n s x y Hs Hx Hy H (Z.to_nat n)); lia.
Qed.

(* ------------------------------------------------------------------ multiplication by a unit mod N *)

Lemma mul_unit_recover : forall N c ci x, 0 < N -> (c * ci) mod N = 1 -> 0 <= x < N ->
  (((x * c) mod N) * ci) mod N = x.
Proof.
  intros N c ci x HN Hc Hx.
  rewrite Z.mul_mod_idemp_l by lia.
  rewrite <- Z.mul_assoc, <- Z.mul_mod_idemp_r, Hc, Z.mul_1_r by lia.
  apply Z.mod_small; lia.
Qed.

Lemma mul_unit_inj : forall N c ci x y, 0 < N -> (c * ci) mod N = 1 -> 0 <= x < N -> 0 <= y < N ->
  (x * c) mod N = (y * c) mod N -> x = y.
Proof.
  intros N c ci x y HN Hc Hx Hy H.
  rewrite <- (mul_unit_recover N c ci x), <- (mul_unit_recover N c ci y), H; auto.
Qed.

Lemma affine_unit_inj : forall N c ci d x y, 0 < N -> (c * ci) mod N = 1 -> 0 <= x < N -> 0 <= y < N ->
  (x * c + d) mod N = (y * c + d) mod N -> x = y.
Proof.
  intros N c ci d x y HN Hc Hx Hy H.
  apply (mul_unit_inj N c ci); auto.
  assert (E : forall z, (z * c) mod N = ((z * c + d) mod N - d) mod N).
  { intro z. rewrite Zminus_mod_idemp_l. f_equal. ring. }
  rewrite (E x), (E y), H. reflexivity.
Qed.

Lemma mod_range : forall n a, 0 <= n -> inrange n (a mod 2 ^ n).
Proof. intros. apply Z.mod_pos_bound. apply Z.pow_pos_nonneg; lia. Qed.

(* ------------------------------------------------------------------ fasthash64 ingredients *)

Definition R64 := inrange 64.
Definition R32 := inrange 32.

Definition fh_c : Z := 0x2127599bf4325c37.
Definition fh_c_inv : Z := 0xa1bcefb14d101987.
Definition fh_m_inv : Z := 0x28fc23783fb0706d.

Lemma fh_c_unit : (fh_c * fh_c_inv) mod M64 = 1.
Proof. vm_compute. reflexivity. Qed.
Lemma fh_m_unit : (fh_m * fh_m_inv) mod M64 = 1.
Proof. vm_compute. reflexivity. Qed.
Lemma M64_pos : 0 < M64. Proof. reflexivity. Qed.
Lemma M32_pos : 0 < M32. Proof. reflexivity. Qed.

Lemma R64_mod : forall a, R64 (a mod M64).
Proof. intro. apply (mod_range 64). lia. Qed.
Lemma R32_mod : forall a, R32 (a mod M32).
Proof. intro. apply (mod_range 32). lia. Qed.

Lemma fh_mix_range : forall h, R64 (fh_mix h).
Proof. intro h. unfold fh_mix. apply xorshr_range; try lia. apply R64_mod. Qed.

Lemma fh_mix_inj : forall x y, R64 x -> R64 y -> fh_mix x = fh_mix y -> x = y.
Proof.
  intros x y Hx Hy H. unfold fh_mix in H.
  apply (xorshr_inj 64) in H; try lia; try apply R64_mod.
  apply (mul_unit_inj M64 fh_c fh_c_inv) in H; auto using M64_pos, fh_c_unit.
  - apply (xorshr_inj 64) in H; auto; lia.
  - apply (xorshr_range 64); auto; lia.
  - apply (xorshr_range 64); auto; lia.
Qed.

Lemma fh_mix_0 : fh_mix 0 = 0.
Proof. reflexivity. Qed.

Lemma fh_step_range : forall h v, R64 (fh_step h v).
Proof. intros. apply R64_mod. Qed.

Lemma fh_step_inj_h : forall v h h', R64 h -> R64 h' -> fh_step h v = fh_step h' v -> h = h'.
Proof.
  intros v h h' Hh Hh' H. unfold fh_step in H.
  apply (mul_unit_inj M64 fh_m fh_m_inv) in H; auto using M64_pos, fh_m_unit.
  - eapply lxor_cancel_r; eauto.
  - apply (lxor_range 64); auto; [lia|apply fh_mix_range].
  - apply (lxor_range 64); auto; [lia|apply fh_mix_range].
Qed.

Lemma fh_step_inj_v : forall h v v', R64 h -> R64 v -> R64 v' -> fh_step h v = fh_step h v' -> v = v'.
Proof.
  intros h v v' Hh Hv Hv' H. unfold fh_step in H.
  apply (mul_unit_inj M64 fh_m fh_m_inv) in H; auto using M64_pos, fh_m_unit.
  - apply lxor_cancel_l in H. apply fh_mix_inj; auto.
  - apply (lxor_range 64); auto; [lia|apply fh_mix_range].
  - apply (lxor_range 64); auto; [lia|apply fh_mix_range].
Qed.

(* ------------------------------------------------------------------ murmur3 ingredients *)

Lemma rotl_range : forall x r, 0 < r < 32 -> R32 x -> R32 (rotl x r).
Proof.
  intros x r Hr [H0 H1]. unfold rotl, R32, inrange, M32 in *.
  assert (P1 : 0 < 2 ^ r) by (apply Z.pow_pos_nonneg; lia).
  assert (P2 : 0 < 2 ^ (32 - r)) by (apply Z.pow_pos_nonneg; lia).
  assert (E : 2 ^ 32 = 2 ^ (32 - r) * 2 ^ r) by (rewrite <- Z.pow_add_r by lia; f_equal; lia).
  rewrite E, Z.mul_mod_distr_r by lia.
  assert (0 <= x mod 2 ^ (32 - r) < 2 ^ (32 - r)) by (apply Z.mod_pos_bound; lia).
  assert (0 <= x / 2 ^ (32 - r) < 2 ^ r).
  { split; [apply Z.div_pos; lia|]. apply Z.div_lt_upper_bound; lia. }
  nia.
Qed.

Lemma rotl_inj : forall x y r, 0 < r < 32 -> R32 x -> R32 y -> rotl x r = rotl y r -> x = y.
Proof.
  intros x y r Hr [Hx0 Hx1] [Hy0 Hy1] H. unfold rotl, M32 in *.
  assert (P1 : 0 < 2 ^ r) by (apply Z.pow_pos_nonneg; lia).
  assert (P2 : 0 < 2 ^ (32 - r)) by (apply Z.pow_pos_nonneg; lia).
  assert (E : 2 ^ 32 = 2 ^ (32 - r) * 2 ^ r) by (rewrite <- Z.pow_add_r by lia; f_equal; lia).
  rewrite E, !Z.mul_mod_distr_r in H by lia. rewrite E in Hx1, Hy1.
  set (A := 2 ^ (32 - r)) in *. set (B := 2 ^ r) in *.
  assert (Dx := Z.div_mod x A ltac:(lia)). assert (Dy := Z.div_mod y A ltac:(lia)).
  assert (Mx := Z.mod_pos_bound x A P2). assert (My := Z.mod_pos_bound y A P2).
  assert (Qx : 0 <= x / A < B) by (split; [apply Z.div_pos; lia|apply Z.div_lt_upper_bound; lia]).
  assert (Qy : 0 <= y / A < B) by (split; [apply Z.div_pos; lia|apply Z.div_lt_upper_bound; lia]).
  set (lx := x mod A) in *. set (ly := y mod A) in *. set (hx := x / A) in *. set (hy := y / A) in *.
  assert (lx = ly /\ hx = hy) as [E1 E2]; [|rewrite Dx, Dy, E1, E2; reflexivity].
  assert (hx = hy).
  { assert ((lx * B + hx) mod B = (ly * B + hy) mod B) by now rewrite H.
    rewrite !(Z.add_comm _ hx), !(Z.add_comm _ hy), !Z.mod_add, !Z.mod_small in H0 by lia. exact H0. }
  split; [nia|assumption].
Qed.

Definition mm_c1_inv : Z := 0xdee13bb1.
Definition mm_c2_inv : Z := 0x56ed309b.
Definition fm_a : Z := 0x85ebca6b.
Definition fm_a_inv : Z := 0xa5cb9243.
Definition fm_b : Z := 0xc2b2ae35.
Definition fm_b_inv : Z := 0x7ed1b41d.
Definition inv5 : Z := 0xcccccccd.

Lemma mm_c1_unit : (mm_c1 * mm_c1_inv) mod M32 = 1. Proof. vm_compute. reflexivity. Qed.
Lemma mm_c2_unit : (mm_c2 * mm_c2_inv) mod M32 = 1. Proof. vm_compute. reflexivity. Qed.
Lemma fm_a_unit : (fm_a * fm_a_inv) mod M32 = 1. Proof. vm_compute. reflexivity. Qed.
Lemma fm_b_unit : (fm_b * fm_b_inv) mod M32 = 1. Proof. vm_compute. reflexivity. Qed.
Lemma five_unit : (5 * inv5) mod M32 = 1. Proof. vm_compute. reflexivity. Qed.

Lemma mm_k_range : forall k, R32 (mm_k k).
Proof. intro. apply R32_mod. Qed.

Lemma mm_k_0 : mm_k 0 = 0.
Proof. reflexivity. Qed.

Lemma mm_k_inj : forall k k', R32 k -> R32 k' -> mm_k k = mm_k k' -> k = k'.
Proof.
  intros k k' Hk Hk' H. unfold mm_k in H.
  apply (mul_unit_inj M32 mm_c2 mm_c2_inv) in H; auto using M32_pos, mm_c2_unit;
    try (apply rotl_range; [lia|apply R32_mod]).
  apply rotl_inj in H; try lia; try apply R32_mod.
  apply (mul_unit_inj M32 mm_c1 mm_c1_inv) in H; auto using M32_pos, mm_c1_unit.
Qed.

Lemma mm_step_range : forall h k, R32 (mm_step h k).
Proof. intros. apply R32_mod. Qed.

Lemma mm_step_inj_h : forall k h h', R32 h -> R32 h' -> mm_step h k = mm_step h' k -> h = h'.
Proof.
  intros k h h' Hh Hh' H. unfold mm_step in H.
  assert (Rh : R32 (Z.lxor h (mm_k k))) by (apply (lxor_range 32); auto; [lia|apply mm_k_range]).
  assert (Rh' : R32 (Z.lxor h' (mm_k k))) by (apply (lxor_range 32); auto; [lia|apply mm_k_range]).
  apply (affine_unit_inj M32 5 inv5) in H; auto using M32_pos, five_unit;
    try (apply rotl_range; [lia|assumption]).
  apply rotl_inj in H; auto; try lia.
  eapply lxor_cancel_r; eauto.
Qed.

Lemma mm_step_inj_k : forall h k k', R32 h -> R32 k -> R32 k' -> mm_step h k = mm_step h k' -> k = k'.
Proof.
  intros h k k' Hh Hk Hk' H. unfold mm_step in H.
  assert (Rh : R32 (Z.lxor h (mm_k k))) by (apply (lxor_range 32); auto; [lia|apply mm_k_range]).
  assert (Rh' : R32 (Z.lxor h (mm_k k'))) by (apply (lxor_range 32); auto; [lia|apply mm_k_range]).
  apply (affine_unit_inj M32 5 inv5) in H; auto using M32_pos, five_unit;
    try (apply rotl_range; [lia|assumption]).
  apply rotl_inj in H; auto; try lia.
  apply lxor_cancel_l in H. apply mm_k_inj; auto.
Qed.

Lemma fmix32_range : forall h, R32 h -> R32 (fmix32 h).
Proof.
  intros h Hh. unfold fmix32. apply (xorshr_range 32); try lia. apply R32_mod.
Qed.

Lemma fmix32_inj : forall x y, R32 x -> R32 y -> fmix32 x = fmix32 y -> x = y.
Proof.
  intros x y Hx Hy H. unfold fmix32 in H.
  assert (X1 : R32 (xorshr 16 x)) by (apply (xorshr_range 32); auto; lia).
  assert (Y1 : R32 (xorshr 16 y)) by (apply (xorshr_range 32); auto; lia).
  apply (xorshr_inj 32) in H; try lia; try apply R32_mod.
  apply (mul_unit_inj M32 fm_b fm_b_inv) in H; auto using M32_pos, fm_b_unit;
    try (apply (xorshr_range 32); try lia; apply R32_mod).
  apply (xorshr_inj 32) in H; try lia; try apply R32_mod.
  apply (mul_unit_inj M32 fm_a fm_a_inv) in H; auto using M32_pos, fm_a_unit.
  apply (xorshr_inj 32) in H; auto; lia.
Qed.
