Require Extraction.
Require Import ExtrOcamlBasic.
From Zix Require Import SemErrnoModel SemModel SemSpec.
Separate Extraction SemErrnoModel.errno_status SemErrnoModel.status_code
  SemModel.wait_model SemModel.try_wait_model SemModel.timed_wait_model SemModel.post_model
  SemModel.kernel_call SemModel.wrapper SemModel.step SemModel.run SemModel.init_sys SemModel.takes
  SemSpec.spec_step SemSpec.spec_run SemSpec.spec_init.
